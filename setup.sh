#!/bin/bash
# MANIFEST.setup_cmd: builds the framework from files on disk only (no network).
set -e
cd /verif
export CARGO_NET_OFFLINE=true
mkdir -p .cache evidence replays
echo "[setup] extracting tables from /repo/src"
python3 tools/extract.py /repo/src lean/DesyncModel/Generated.lean --digest .cache/extract.json
echo "[setup] building the Lean model, theorems and driver"
(cd lean && lake build DesyncModel driver)
echo "[setup] building the harness and its third-party dependencies"
tools/build_impl.sh
echo "[setup] done"
