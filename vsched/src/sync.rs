//! `std::sync` look-alike.  Only what the desync crate uses is provided.

#[cfg(feature = "shuttle-backend")]
use shuttle::sync as imp;
#[cfg(not(feature = "shuttle-backend"))]
use std::sync as imp;

pub use std::sync::{atomic, Arc, LockResult, PoisonError, TryLockError, TryLockResult, Weak};

use crate::trace::{emit, next_id, tracing};
use std::ops::{Deref, DerefMut};
use std::sync::OnceLock;

struct Obs<T> {
    kind: &'static str,
    id: u64,
    snap: Box<dyn Fn(&T) -> String + Send + Sync>,
}

pub struct Mutex<T> {
    inner: imp::Mutex<T>,
    obs: OnceLock<Obs<T>>,
}

pub struct MutexGuard<'a, T> {
    m: &'a Mutex<T>,
    g: Option<imp::MutexGuard<'a, T>>,
}

impl<T> Mutex<T> {
    pub fn new(t: T) -> Mutex<T> {
        Mutex { inner: imp::Mutex::new(t), obs: OnceLock::new() }
    }

    /// Attach an observer: from now on every acquisition and every critical section on this mutex
    /// is written to the trace as `acq <kind><id>` / `cs <kind><id> <snapshot>`.
    pub fn verif_observe<F>(&self, kind: &'static str, snap: F) -> u64
    where F: Fn(&T) -> String + Send + Sync + 'static {
        let id = next_id(kind);
        let _ = self.obs.set(Obs { kind, id, snap: Box::new(snap) });
        // pipe objects are created at points the trace does not otherwise show
        if matches!(kind, "F" | "P" | "K") { emit(&format!("obs {}{}", kind, id)); }
        self.obs.get().map(|o| o.id).unwrap_or(id)
    }

    /// `<kind><id>` of the observer, or `?` when the mutex is not observed.
    pub fn verif_name(&self) -> String {
        match self.obs.get() { Some(o) => format!("{}{}", o.kind, o.id), None => "?".to_string() }
    }

    fn wrap<'a>(&'a self, g: imp::MutexGuard<'a, T>) -> MutexGuard<'a, T> {
        if tracing() {
            if let Some(o) = self.obs.get() { emit(&format!("acq {}{}", o.kind, o.id)); }
        }
        MutexGuard { m: self, g: Some(g) }
    }

    pub fn lock(&self) -> LockResult<MutexGuard<'_, T>> {
        match self.inner.lock() {
            Ok(g) => Ok(self.wrap(g)),
            Err(p) => Err(PoisonError::new(self.wrap(p.into_inner()))),
        }
    }

    pub fn try_lock(&self) -> TryLockResult<MutexGuard<'_, T>> {
        match self.inner.try_lock() {
            Ok(g) => Ok(self.wrap(g)),
            Err(TryLockError::Poisoned(p)) => Err(TryLockError::Poisoned(PoisonError::new(self.wrap(p.into_inner())))),
            Err(TryLockError::WouldBlock) => {
                if tracing() {
                    if let Some(o) = self.obs.get() { emit(&format!("tryfail {}{}", o.kind, o.id)); }
                }
                Err(TryLockError::WouldBlock)
            }
        }
    }
}

impl<'a, T> MutexGuard<'a, T> {
    fn snapshot_line(&self) -> Option<String> {
        if tracing() {
            if let (Some(o), Some(g)) = (self.m.obs.get(), self.g.as_ref()) {
                return Some(format!("cs {}{} {}", o.kind, o.id, (o.snap)(&**g)));
            }
        }
        None
    }
    fn log_cs(&self) {
        if let Some(line) = self.snapshot_line() { emit(&line); }
    }
}

impl<'a, T> Deref for MutexGuard<'a, T> {
    type Target = T;
    fn deref(&self) -> &T { self.g.as_ref().expect("guard") }
}

impl<'a, T> DerefMut for MutexGuard<'a, T> {
    fn deref_mut(&mut self) -> &mut T { self.g.as_mut().expect("guard") }
}

impl<'a, T> Drop for MutexGuard<'a, T> {
    fn drop(&mut self) {
        if self.g.is_some() {
            // The snapshot is taken while the lock is held, but the event is written only after the
            // release: the controlled runtime's scheduling point comes BEFORE the release, so events
            // of other threads that run at that point (and cannot touch this mutex) must precede ours,
            // and what this thread does next follows its own release without another scheduling point.
            let line = self.snapshot_line();
            self.g.take();
            if let Some(line) = line { emit(&line); }
        }
    }
}

impl<T: std::fmt::Debug> std::fmt::Debug for Mutex<T> {
    fn fmt(&self, f: &mut std::fmt::Formatter<'_>) -> std::fmt::Result { write!(f, "Mutex({})", self.verif_name()) }
}

pub struct Condvar {
    inner: imp::Condvar,
    id: u64,
    silent: bool,
}

impl Condvar {
    pub fn new() -> Condvar { Condvar { inner: imp::Condvar::new(), id: next_id("C"), silent: false } }

    /// A condition variable that writes nothing to the trace (for the harness's own waiting).
    pub fn new_silent() -> Condvar { Condvar { inner: imp::Condvar::new(), id: u64::MAX, silent: true } }

    pub fn verif_name(&self) -> String { format!("C{}", self.id) }

    pub fn wait<'a, T>(&self, mut guard: MutexGuard<'a, T>) -> LockResult<MutexGuard<'a, T>> {
        let m = guard.m;
        guard.log_cs();
        let g = guard.g.take().expect("guard");
        drop(guard);
        if !self.silent { emit(&format!("wait C{}", self.id)); }
        let r = self.inner.wait(g);
        if !self.silent { emit(&format!("woke C{}", self.id)); }
        match r {
            Ok(g) => Ok(m.wrap(g)),
            Err(p) => Err(PoisonError::new(m.wrap(p.into_inner()))),
        }
    }

    pub fn notify_one(&self) { self.inner.notify_one(); if !self.silent { emit(&format!("notify1 C{}", self.id)); } }
    pub fn notify_all(&self) { self.inner.notify_all(); if !self.silent { emit(&format!("notifyall C{}", self.id)); } }
}

impl Default for Condvar { fn default() -> Self { Condvar::new() } }

pub mod mpsc {
    #[cfg(feature = "shuttle-backend")]
    use shuttle::sync::mpsc as imp;
    #[cfg(not(feature = "shuttle-backend"))]
    use std::sync::mpsc as imp;

    pub use std::sync::mpsc::{RecvError, SendError};
    use crate::trace::{emit, next_id};

    pub struct Sender<T> { inner: imp::Sender<T>, id: u64 }
    pub struct Receiver<T> { inner: imp::Receiver<T>, id: u64 }

    pub fn channel<T>() -> (Sender<T>, Receiver<T>) {
        let (s, r) = imp::channel();
        let id = next_id("M");
        (Sender { inner: s, id }, Receiver { inner: r, id })
    }

    impl<T> Sender<T> {
        pub fn send(&self, t: T) -> Result<(), SendError<T>> {
            let r = self.inner.send(t);
            emit(&format!("send M{}", self.id));
            r
        }
        pub fn verif_name(&self) -> String { format!("M{}", self.id) }
    }

    impl<T> Drop for Sender<T> {
        fn drop(&mut self) { emit(&format!("hangup M{}", self.id)); }
    }

    impl<T> Receiver<T> {
        pub fn recv(&self) -> Result<T, RecvError> {
            emit(&format!("recv M{}", self.id));
            let r = self.inner.recv();
            emit(&format!("recvd M{} {}", self.id, if r.is_ok() { "ok" } else { "closed" }));
            r
        }
    }
}
