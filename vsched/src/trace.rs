//! Event sink shared by the shim and the harness.

use std::sync::atomic::{AtomicBool, AtomicU64, Ordering};
use std::sync::Mutex;

static EXECUTION: AtomicU64 = AtomicU64::new(0);
static TRACING: AtomicBool = AtomicBool::new(false);
static LOG: Mutex<Vec<String>> = Mutex::new(Vec::new());
/// per-execution id counters, one per object kind (index = kind code)
static COUNTERS: Mutex<Vec<(String, u64)>> = Mutex::new(Vec::new());

/// Start a new execution: fresh statics, fresh id counters, empty trace.
pub fn begin_execution() -> u64 {
    let e = EXECUTION.fetch_add(1, Ordering::SeqCst) + 1;
    LOG.lock().unwrap_or_else(|e| e.into_inner()).clear();
    COUNTERS.lock().unwrap_or_else(|e| e.into_inner()).clear();
    PAUSED.store(false, Ordering::SeqCst);
    crate::thread::reset_named();
    e
}

pub fn current_execution() -> u64 { EXECUTION.load(Ordering::SeqCst) }

static PAUSED: AtomicBool = AtomicBool::new(false);
pub fn set_tracing(on: bool) { TRACING.store(on, Ordering::SeqCst); }
/// Temporarily stop recording (the harness's own end-of-run inspection of the objects).
pub fn set_tracing_paused(paused: bool) { PAUSED.store(paused, Ordering::SeqCst); }
pub fn tracing() -> bool { TRACING.load(Ordering::SeqCst) && !PAUSED.load(Ordering::SeqCst) }

/// Next id for an object kind in this execution (0, 1, 2, ...).
pub fn next_id(kind: &str) -> u64 {
    let mut c = COUNTERS.lock().unwrap_or_else(|e| e.into_inner());
    for entry in c.iter_mut() {
        if entry.0 == kind { let v = entry.1; entry.1 += 1; return v; }
    }
    c.push((kind.to_string(), 1));
    0
}

/// The current agent: shuttle task id, or a small integer per OS thread with the std back end.
pub fn agent_id() -> usize {
    #[cfg(feature = "shuttle-backend")]
    {
        match shuttle::current::get_current_task() {
            Some(t) => usize::from(t),
            None => usize::MAX,
        }
    }
    #[cfg(not(feature = "shuttle-backend"))]
    {
        use std::cell::Cell;
        static NEXT: AtomicU64 = AtomicU64::new(0);
        thread_local! { static ME: Cell<(u64, u64)> = const { Cell::new((u64::MAX, 0)) }; }
        let exec = current_execution();
        ME.with(|me| {
            let (e, id) = me.get();
            if e == exec { id as usize } else {
                let id = NEXT.fetch_add(1, Ordering::SeqCst);
                me.set((exec, id));
                id as usize
            }
        })
    }
}

/// Append one event line `"<agent> <text>"`.
pub fn emit(text: &str) {
    if !tracing() { return; }
    let a = agent_id();
    let mut log = LOG.lock().unwrap_or_else(|e| e.into_inner());
    log.push(format!("{} {}", a as isize, text));
}

pub fn take_trace() -> Vec<String> {
    std::mem::take(&mut *LOG.lock().unwrap_or_else(|e| e.into_inner()))
}
