//! vsched: the runtime the desync crate is linked against when built with `--cfg desync_verif`.
//!
//! * `sync::{Mutex, MutexGuard, Condvar, mpsc, Arc, Weak, ..}`, `thread::{..}` and `lazy_static!`
//!   have the std API surface the crate uses.
//! * back end `shuttle-backend` (default): every primitive is a shuttle primitive, so every lock,
//!   unlock, try_lock, wait, notify, park, unpark, send, recv, spawn and join is a scheduling point
//!   chosen by the explorer.  Without that feature the primitives are std's (real threads).
//! * every `Mutex` can be given an *observer* (kind, id, snapshot function); observed mutexes write
//!   one trace event per acquisition and per critical section (with the post-state snapshot taken
//!   before the lock is released).  Condvars, park/unpark, channels, spawn/join/exit write events
//!   too.  The trace is what the Lean model replays (conformance).

pub mod trace;
pub mod sync;
pub mod thread;
pub mod lazy;

pub use trace::{begin_execution, emit, set_tracing, set_tracing_paused, take_trace, agent_id};

/// `lazy_static!` whose values are per *execution* (see `begin_execution`) and never dropped.
#[macro_export]
macro_rules! lazy_static {
    ($(#[$attr:meta])* static ref $N:ident : $T:ty = $e:expr; $($t:tt)*) => {
        $crate::__vs_lazy_static_internal!($(#[$attr])* () static ref $N : $T = $e; $($t)*);
    };
    ($(#[$attr:meta])* pub static ref $N:ident : $T:ty = $e:expr; $($t:tt)*) => {
        $crate::__vs_lazy_static_internal!($(#[$attr])* (pub) static ref $N : $T = $e; $($t)*);
    };
    ($(#[$attr:meta])* pub ($($vis:tt)+) static ref $N:ident : $T:ty = $e:expr; $($t:tt)*) => {
        $crate::__vs_lazy_static_internal!($(#[$attr])* (pub ($($vis)+)) static ref $N : $T = $e; $($t)*);
    };
    () => ()
}

#[macro_export]
#[doc(hidden)]
macro_rules! __vs_lazy_static_internal {
    ($(#[$attr:meta])* ($($vis:tt)*) static ref $N:ident : $T:ty = $e:expr; $($t:tt)*) => {
        #[allow(missing_copy_implementations)]
        #[allow(non_camel_case_types)]
        #[allow(dead_code)]
        $(#[$attr])*
        $($vis)* struct $N { __private_field: () }
        #[doc(hidden)]
        #[allow(non_upper_case_globals)]
        $($vis)* static $N: $N = $N { __private_field: () };
        impl ::std::ops::Deref for $N {
            type Target = $T;
            fn deref(&self) -> &$T {
                fn __static_ref_initialize() -> $T { $e }
                static LAZY: $crate::lazy::ExecLazy<$T> = $crate::lazy::ExecLazy::new();
                LAZY.get(__static_ref_initialize)
            }
        }
        $crate::lazy_static!($($t)*);
    };
}
