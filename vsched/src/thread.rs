//! `std::thread` look-alike.

#[cfg(feature = "shuttle-backend")]
use shuttle::thread as imp;
#[cfg(not(feature = "shuttle-backend"))]
use std::thread as imp;

pub use std::thread::{panicking, Result};

use crate::trace::{agent_id, emit};
use std::sync::atomic::{AtomicBool, Ordering};
use std::sync::Arc;

#[derive(Clone, Debug)]
pub struct Thread { inner: imp::Thread, agent: usize }

impl Thread {
    pub fn unpark(&self) {
        self.inner.unpark();
        emit(&format!("unpark A{}", self.agent as isize));
    }
    pub fn name(&self) -> Option<&str> { self.inner.name() }
    pub fn verif_agent(&self) -> usize { self.agent }
}

pub fn current() -> Thread { Thread { inner: imp::current(), agent: agent_id() } }

pub fn park() {
    emit("park");
    imp::park();
    emit("unparked");
}

pub fn yield_now() { imp::yield_now() }
pub fn sleep(d: std::time::Duration) { imp::sleep(d) }

pub struct JoinHandle<T> {
    inner: imp::JoinHandle<T>,
    finished: Arc<AtomicBool>,
    agent: Arc<std::sync::OnceLock<usize>>,
}

static LIVE_NAMED: std::sync::atomic::AtomicUsize = std::sync::atomic::AtomicUsize::new(0);
static PEAK_NAMED: std::sync::atomic::AtomicUsize = std::sync::atomic::AtomicUsize::new(0);

/// Number of live threads that were spawned with a name (the scheduler's pool threads).
pub fn live_named() -> usize { LIVE_NAMED.load(Ordering::SeqCst) }
/// Largest value `live_named` has had since `reset_named`.
pub fn peak_live_named() -> usize { PEAK_NAMED.load(Ordering::SeqCst) }
pub fn reset_named() { LIVE_NAMED.store(0, Ordering::SeqCst); PEAK_NAMED.store(0, Ordering::SeqCst); SPAWNED_NAMED.store(0, Ordering::SeqCst); PANICKED_NAMED.store(0, Ordering::SeqCst); LIVE_SEQS.lock().unwrap_or_else(|e| e.into_inner()).clear(); NAMED_AGENTS.lock().unwrap_or_else(|e| e.into_inner()).clear(); }
static PANICKED_NAMED: std::sync::atomic::AtomicUsize = std::sync::atomic::AtomicUsize::new(0);
static NAMED_AGENTS: std::sync::Mutex<Vec<usize>> = std::sync::Mutex::new(Vec::new());
/// Number of named threads that have exited by panicking since `reset_named` (counted when the thread's closure has been
/// left, i.e. after everything on its stack has been unwound).
pub fn panicked_exits_named() -> usize { PANICKED_NAMED.load(Ordering::SeqCst) }
/// Is the calling thread one that was spawned with a name (a pool thread of the scheduler)?
pub fn current_is_named() -> bool { let me = agent_id(); NAMED_AGENTS.lock().unwrap_or_else(|e| e.into_inner()).contains(&me) }
static SPAWNED_NAMED: std::sync::atomic::AtomicUsize = std::sync::atomic::AtomicUsize::new(0);
static LIVE_SEQS: std::sync::Mutex<Vec<usize>> = std::sync::Mutex::new(Vec::new());
/// Number of named threads spawned since `reset_named` (each gets the next sequence number).
pub fn spawned_named() -> usize { SPAWNED_NAMED.load(Ordering::SeqCst) }
/// Number of live named threads whose sequence number is below `seq` (i.e. that were spawned before `spawned_named()` returned `seq`).
pub fn live_named_before(seq: usize) -> usize { LIVE_SEQS.lock().unwrap_or_else(|e| e.into_inner()).iter().filter(|s| **s < seq).count() }

struct SetOnDrop(Arc<AtomicBool>, bool, usize);
impl Drop for SetOnDrop {
    fn drop(&mut self) {
        emit(if panicking() { "exit panic" } else { "exit ok" });
        if self.1 { LIVE_NAMED.fetch_sub(1, Ordering::SeqCst); LIVE_SEQS.lock().unwrap_or_else(|e| e.into_inner()).retain(|s| *s != self.2); if panicking() { PANICKED_NAMED.fetch_add(1, Ordering::SeqCst); } }
        self.0.store(true, Ordering::SeqCst);
    }
}

impl<T> JoinHandle<T> {
    pub fn join(self) -> Result<T> {
        emit(&format!("join A{}", self.agent.get().map(|a| *a as isize).unwrap_or(-1)));
        let r = self.inner.join();
        emit(&format!("joined A{}", self.agent.get().map(|a| *a as isize).unwrap_or(-1)));
        r
    }
    pub fn is_finished(&self) -> bool { self.finished.load(Ordering::SeqCst) }
    pub fn verif_agent(&self) -> Option<usize> { self.agent.get().copied() }
}

fn wrap_spawn<F, T>(f: F, finished: Arc<AtomicBool>, agent: Arc<std::sync::OnceLock<usize>>, named: bool, seq: usize) -> impl FnOnce() -> T + Send + 'static
where F: FnOnce() -> T + Send + 'static, T: Send + 'static {
    move || {
        let _ = agent.set(agent_id());
        if named { NAMED_AGENTS.lock().unwrap_or_else(|e| e.into_inner()).push(agent_id()); }
        let _fin = SetOnDrop(finished, named, seq);
        emit("start");
        f()
    }
}

pub fn spawn<F, T>(f: F) -> JoinHandle<T>
where F: FnOnce() -> T + Send + 'static, T: Send + 'static {
    Builder::new().spawn(f).expect("spawn")
}

pub struct Builder { inner: imp::Builder, named: bool }

impl Builder {
    pub fn new() -> Builder { Builder { inner: imp::Builder::new(), named: false } }
    pub fn name(self, name: String) -> Builder { Builder { inner: self.inner.name(name), named: true } }
    pub fn stack_size(self, size: usize) -> Builder { Builder { inner: self.inner.stack_size(size), named: self.named } }
    pub fn spawn<F, T>(self, f: F) -> std::io::Result<JoinHandle<T>>
    where F: FnOnce() -> T + Send + 'static, T: Send + 'static {
        let finished = Arc::new(AtomicBool::new(false));
        let agent = Arc::new(std::sync::OnceLock::new());
        let mut seq = usize::MAX;
        if self.named {
            // counted from the moment the scheduler owns the thread
            let live = LIVE_NAMED.fetch_add(1, Ordering::SeqCst) + 1;
            PEAK_NAMED.fetch_max(live, Ordering::SeqCst);
            seq = SPAWNED_NAMED.fetch_add(1, Ordering::SeqCst);
            LIVE_SEQS.lock().unwrap_or_else(|e| e.into_inner()).push(seq);
        }
        let inner = self.inner.spawn(wrap_spawn(f, Arc::clone(&finished), Arc::clone(&agent), self.named, seq))?;
        #[cfg(feature = "shuttle-backend")]
        {
            let _ = agent.set(usize::from(inner.thread().id()));
        }
        emit(&format!("spawn A{}", agent.get().map(|a| *a as isize).unwrap_or(-1)));
        Ok(JoinHandle { inner, finished, agent })
    }
}
