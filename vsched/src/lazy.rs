//! Per-execution lazily initialised statics.  A value is created the first time it is touched
//! in an execution (executions are delimited by `trace::begin_execution`) and is leaked, never
//! dropped: shuttle's own lazy_static drops values at the end of an execution in an order that
//! makes desync's REFERENCE_CHUTE panic in Drop.

use std::sync::Mutex;

pub struct ExecLazy<T> {
    slot: Mutex<(u64, usize)>,
    _p: std::marker::PhantomData<fn() -> T>,
}

unsafe impl<T: Sync> Sync for ExecLazy<T> {}

impl<T: 'static> ExecLazy<T> {
    pub const fn new() -> Self {
        ExecLazy { slot: Mutex::new((u64::MAX, 0)), _p: std::marker::PhantomData }
    }

    pub fn get(&'static self, init: fn() -> T) -> &'static T {
        let exec = crate::trace::current_execution();
        {
            let slot = self.slot.lock().unwrap_or_else(|e| e.into_inner());
            if slot.0 == exec && slot.1 != 0 {
                return unsafe { &*(slot.1 as *const T) };
            }
        }
        // Not initialised for this execution.  `init` contains no scheduling point for the statics
        // of the desync crate (constructors only), so under shuttle this is atomic; with real
        // threads two racing initialisers are resolved below (first one wins).
        let value: &'static T = Box::leak(Box::new(init()));
        let mut slot = self.slot.lock().unwrap_or_else(|e| e.into_inner());
        if slot.0 == exec && slot.1 != 0 {
            return unsafe { &*(slot.1 as *const T) };
        }
        *slot = (exec, value as *const T as usize);
        value
    }
}
