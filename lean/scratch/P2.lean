import DesyncModel.Pipe.Model
namespace Desync.Pipe

syntax "step_cases " ident ident : tactic
macro_rules
  | `(tactic| step_cases $l:ident $hs:ident) => `(tactic| (
      cases $l:ident <;> simp only [step, fin, takeNotify, trigger] at $hs:ident
      all_goals (repeat' split at $hs:ident)
      all_goals (try (simp at $hs:ident; done))
      all_goals (simp only [Option.some.injEq] at $hs:ident; subst $hs:ident)))

/-- the running poll operation's future is alive (it has not returned yet) -/
def jobActive (s : PState) : Bool :=
  match s.job with
  | some (.clearing, _) => false
  | some _ => true
  | none => false

structure IdxInv (s : PState) : Prop where
  wakesLt : ∀ k ∈ s.pendingWakes, k < s.wakers.length
  jobLt : ∀ pc k, s.job = some (pc, k) → k < s.wakers.length
  inLt : ∀ k, s.inWaker = some k → k < s.wakers.length
  nscLt : ∀ k, s.core.nsc = some k → k < s.wakers.length
  bpLt : ∀ k, s.core.bp = some k → k < s.wakers.length

theorem idxInv_init (t : Bool) (d : Nat) : IdxInv (initP t d) := by
  constructor <;> simp [initP]

set_option maxHeartbeats 2000000 in
theorem idxInv_step {s s' : PState} {l : Label} (h : IdxInv s) (hs : step s l = some s') : IdxInv s' := by
  obtain ⟨h1, h2, h3, h4, h5⟩ := h
  step_cases l hs
  all_goals (constructor <;> first | (simp_all; done) | (simp_all; grind) | grind)

structure FlagInv (s : PState) : Prop where
  hasCore : s.jobHasCore = true → s.jobHoldsFn = true
  holdsFn : s.jobHoldsFn = jobActive s
  dropOut : s.dropping = true → s.outAlive = true
  closedDrop : s.through = true → (s.outAlive = false ∨ s.dropping = true) → s.core.closed = true
  pipeIn : s.through = false → s.outAlive = false ∧ s.dropping = false ∧ s.jobHasCore = false ∧ s.strongHeld = false
  strong : (s.outAlive = false ∨ s.dropping = true) → s.onDropQueued = true ∨ s.strongHeld = false
  dropped : (s.streamDropped = true ∨ s.fnDropped = true) → s.pollFn = false ∧ s.jobHoldsFn = false ∧ s.chuteFn = false
  chute : s.chuteFn = true → s.pollFn = false
  freed : s.ctxFreed = true → s.pollFn = false

theorem flagInv_init (t : Bool) (d : Nat) : FlagInv (initP t d) := by
  constructor <;> simp [initP, jobActive]

set_option maxRecDepth 4000 in
set_option maxHeartbeats 2000000 in
theorem flagInv_step {s s' : PState} {l : Label} (h : FlagInv s) (hs : step s l = some s') : FlagInv s' := by
  obtain ⟨h1, h2, h3, h4, h5, h6, h7, h8, h9⟩ := h
  step_cases l hs
  all_goals (constructor <;> first | (grind [jobActive]) | (simp_all [jobActive]; done))
end Desync.Pipe
