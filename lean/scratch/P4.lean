import DesyncModel.Pipe.Model
namespace Desync.Pipe

syntax "step_cases " ident ident : tactic
macro_rules
  | `(tactic| step_cases $l:ident $hs:ident) => `(tactic| (
      cases $l:ident <;> simp only [step, fin, takeNotify, trigger] at $hs:ident
      all_goals (repeat' split at $hs:ident)
      all_goals (try (simp at $hs:ident; done))
      all_goals (simp only [Option.some.injEq] at $hs:ident; subst $hs:ident)))

structure IdxInv (s : PState) : Prop where
  wakesLt : ∀ k ∈ s.pendingWakes, k < s.wakers.length
  jobLt : ∀ pc k, s.job = some (pc, k) → k < s.wakers.length
  inLt : ∀ k, s.inWaker = some k → k < s.wakers.length
  nscLt : ∀ k, s.core.nsc = some k → k < s.wakers.length
  bpLt : ∀ k, s.core.bp = some k → k < s.wakers.length

def jobActive (s : PState) : Bool :=
  match s.job with
  | some (.clearing, _) => false
  | some _ => true
  | none => false

/-- the pcs of a `pipe_in` poll operation -/
def inPc : PJ → Bool
  | .pollInput | .process _ | .clearing => true
  | _ => false

structure FlagInv (s : PState) : Prop where
  inPcs : s.through = false → ∀ pc k, s.job = some (pc, k) → inPc pc = true
  hasCore : s.jobHasCore = true → s.jobHoldsFn = true
  holdsFn : s.jobHoldsFn = jobActive s
  dropOut : s.dropping = true → s.outAlive = true
  closedDrop : s.through = true → (s.outAlive = false ∨ s.dropping = true) → s.core.closed = true
  pipeIn : s.through = false → s.outAlive = false ∧ s.dropping = false ∧ s.jobHasCore = false ∧ s.strongHeld = false
  strong : (s.outAlive = false ∨ s.dropping = true) → s.onDropQueued = true ∨ s.strongHeld = false
  dropped : (s.streamDropped = true ∨ s.fnDropped = true) → s.pollFn = false ∧ s.jobHoldsFn = false ∧ s.chuteFn = false
  chute : s.chuteFn = true → s.pollFn = false
  freed : s.ctxFreed = true → s.pollFn = false

def preReg : PJ → Bool
  | .regNsc | .clearing => false
  | _ => true

def keepsReg : PJ → Bool
  | .checkFull | .closedNotify => true
  | _ => false

structure RegInv (s : PState) : Prop where
  fresh : ∀ pc k, s.job = some (pc, k) → preReg pc = true →
    armed s k = true ∧ k ∉ s.pendingWakes ∧ s.inWaker ≠ some k ∧ s.core.nsc ≠ some k ∧ s.core.bp ≠ some k
  regIn : ∀ k, s.job = some (.regNsc, k) → s.inWaker = some k ∨ s.inWaker = none
  reg : s.through = true → s.pollFn = true → (s.job = none ∨ ∃ pc k', s.job = some (pc, k') ∧ keepsReg pc = true) →
    ∀ k, s.inWaker = some k → armed s k = true → (s.core.nsc = some k ∧ s.core.closed = false) ∨ k ∈ s.pendingWakes

/-- Something will run the producer again: a scheduled or starting poll, a wake in progress, the consumer's next
read (back-pressure), or the input's next event. -/
def WakeSource (s : PState) : Prop :=
  s.scheduled > 0 ∨ s.polling > 0 ∨ (∃ k, k ∈ s.pendingWakes ∧ armed s k = true)
  ∨ (s.through = true ∧ s.outAlive = true ∧ slotArmed s s.core.bp = true)
  ∨ (slotArmed s s.inWaker = true ∧ s.inq = [] ∧ s.inClosed = false)

structure WakeInv (s : PState) : Prop where
  wake : s.pollFn = true → (s.job = none ∨ ∃ k, s.job = some (.regNsc, k)) → (s.through = true → s.core.closed = false) → WakeSource s

theorem wakeInv_init (t : Bool) (d : Nat) : WakeInv (initP t d) := by
  constructor; simp [initP, WakeSource]

set_option maxRecDepth 4000 in
set_option maxHeartbeats 4000000 in
theorem wakeInv_step {s s' : PState} {l : Label} (hi : IdxInv s) (hf : FlagInv s) (hr : RegInv s) (h : WakeInv s) (hs : step s l = some s') : WakeInv s' := by
  obtain ⟨i1, i2, i3, i4, i5⟩ := hi
  obtain ⟨f0, f1, f2, f3, f4, f5, f6, f7, f8, f9⟩ := hf
  obtain ⟨r1, r2, r3⟩ := hr
  obtain ⟨h1⟩ := h
  step_cases l hs
  all_goals (constructor; first | (grind [armed, slotArmed, preReg, keepsReg, WakeSource, jobActive, inPc]) | (simp_all [armed, slotArmed, preReg, keepsReg, WakeSource, jobActive, inPc]; done) | (simp_all [armed, slotArmed, preReg, keepsReg, WakeSource, jobActive, inPc]; grind))

theorem flagInv_init (t : Bool) (d : Nat) : FlagInv (initP t d) := by
  constructor <;> simp [initP, jobActive]

set_option maxRecDepth 4000 in
set_option maxHeartbeats 2000000 in
theorem flagInv_step {s s' : PState} {l : Label} (h : FlagInv s) (hs : step s l = some s') : FlagInv s' := by
  obtain ⟨h0, h1, h2, h3, h4, h5, h6, h7, h8, h9⟩ := h
  step_cases l hs
  all_goals (constructor <;> first | (grind [jobActive, inPc]) | (simp_all [jobActive, inPc]; done))
end Desync.Pipe
