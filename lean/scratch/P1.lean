import DesyncModel.Pipe.Model
namespace Desync.Pipe

def cur (s : PState) : List Nat := match s.job with | some (.process v, _) => [v] | _ => []
def curOut (s : PState) : List Nat := match s.job with | some (.push v, _) => [f v] | _ => []

structure HistInv (s : PState) : Prop where
  proc : s.processed ++ cur s = s.yielded
  yld : s.yielded ++ s.inq = s.sent
  push : s.through = true → s.pushed ++ curOut s = s.processed.map f
  deliv : s.outAlive = true → s.dropping = false → s.delivered ++ s.core.pending = s.pushed

theorem histInv_init (t : Bool) (d : Nat) : HistInv (initP t d) := by
  constructor <;> simp [initP, cur, curOut]

set_option maxHeartbeats 1000000 in
theorem histInv_step {s s' : PState} {l : Label} (h : HistInv s) (hs : step s l = some s') : HistInv s' := by
  obtain ⟨h1, h2, h3, h4⟩ := h
  cases l <;> simp only [step, fin, takeNotify, trigger] at hs
  all_goals (repeat' split at hs)
  all_goals (try (simp at hs; done))
  all_goals (simp only [Option.some.injEq] at hs; subst hs)
  all_goals (constructor <;> first | (simp_all [cur, curOut]; done) | (simp_all [cur, curOut]; grind) | grind [cur, curOut])
end Desync.Pipe
