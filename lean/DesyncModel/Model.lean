/-
Labels, the labelled transition relation and reachability of the `Sched` model.
-/
import DesyncModel.Step

namespace Desync

inductive Label where
  | act (a : Nat)                                        -- internal step of activity `a`
  | invoke (t : Nat) (parent : Option Nat) (c : Call)    -- environment: an API call starts
  | bodyEnd (a : Nat)                                    -- environment: a harness closure returns
  | ret (a : Nat)                                        -- the call of `a` returns to its caller
  | spuriousUnpark (a : Nat)                             -- `thread::park` returns without a token
  | spuriousPoll (a : Nat)                               -- an executor polls a pending future again
  deriving DecidableEq, Repr

/-- A call may be started by a thread with no live activity, or from inside the closure body of the
thread's innermost activity (then that activity waits for the call). -/
def invokeOk (s : State) (t : Nat) (parent : Option Nat) : Bool :=
  match parent with
  | none => (s.leafOf t).isNone
  | some p => match s.acts[p]? with
    | some v => v.thread == t && v.child.isNone && (match v.pc with | .body _ _ => true | _ => false)
    | none => false

def next (s : State) : Label → Option State
  | .act a => (stepAct s a).map (·.1)
  | .invoke t parent c => if invokeOk s t parent then (invoke s t parent c).map (·.1) else none
  | .bodyEnd a => (bodyEnd s a).map (·.1)
  | .ret a => (retStep s a).map (·.1)
  | .spuriousUnpark a => (spuriousUnpark s a).map (·.1)
  | .spuriousPoll a => spuriousPoll s a

/-- Every state the model can be in: any number of objects, gates, threads, calls; any pool maximum;
any interleaving. -/
inductive Reachable : State → Prop where
  | init (nq ng max : Nat) : Reachable (initState nq ng max)
  | initP (ps : List Bool) (ng max : Nat) : Reachable (initStateP ps ng max)
  | step {s s' : State} (l : Label) : Reachable s → next s l = some s' → Reachable s'

/-- Lift a one-step invariant to all reachable states. -/
theorem Reachable.induction {P : State → Prop} (h0 : ∀ nq ng max, P (initState nq ng max)) (h0P : ∀ ps ng max, P (initStateP ps ng max))
    (hs : ∀ s l s', P s → next s l = some s' → P s') : ∀ s, Reachable s → P s := by
  intro s hr
  induction hr with
  | init nq ng max => exact h0 nq ng max
  | initP ps ng max => exact h0P ps ng max
  | step l _ h ih => exact hs _ l _ ih h

end Desync
