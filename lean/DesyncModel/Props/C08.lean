/-
C08 — future_sync runs in its slot and cancels cleanly when dropped.
-/
import DesyncModel.Spec
import DesyncModel.Tables.FutureDrop
import DesyncModel.Tables.Claim
import DesyncModel.FactSyncFuture
import DesyncModel.Lemmas
import DesyncModel.Setters
import DesyncModel.Inv.DrainReach
import DesyncModel.Inv.SlotReach
import DesyncModel.Inv.DoneWaker
import DesyncModel.Props.C07

namespace Desync.C08
open Desync Gen

/-- Full-strength statement of the ordering half: in every reachable state, while the user operation
of a SyncFuture is open (closure invoked, future neither completed nor destroyed) its slot job has
been begun and has not ended — so by C01/C02 no other operation of the queue is open. -/
def slot_only_full : Prop :=
  ∀ s, Reachable s → ∀ (u : Nat) (sf : SyncFut), s.sfs[u]? = some sf → sf.userBegun = true → sf.userEnded = false →
    sf.readySent = true ∧ sf.doneSent = false

/-- The user's closure is invoked only after the slot job has sent `queue_ready` (model step `sfRecv`). -/
theorem starts_only_in_slot (s s' : State) (a u : Nat) (act : Act) (o : Obs) (sf : SyncFut)
    (ha : s.acts[a]? = some act) (hc : act.child = none) (hpc : act.pc = .sfRecv u) (hu : s.sfs[u]? = some sf)
    (hstep : stepAct s a = some (s', o)) (hbeg : o = .beg sf.op) : sf.readySent = true := by
  unfold stepAct at hstep
  simp only [ha, hc, hpc, hu, Option.isSome_none, Bool.false_eq_true, ↓reduceIte] at hstep
  split at hstep
  · assumption
  · obtain ⟨_, rfl⟩ := Prod.mk.inj (Option.some.inj hstep)
    cases hbeg

/-- Dropping the returned future destroys the user future FIRST (event `cancel`, if the operation was
open), then drops the scheduler future (which hands back a queue that is waiting to be polled by it: `fdDrop`), and only
then releases the slot (`doneSent`): separate steps in this order ... -/
theorem drop_destroys_then_releases (s s' : State) (a u : Nat) (act : Act) (o : Obs) (sf : SyncFut)
    (ha : s.acts[a]? = some act) (hc : act.child = none) (hpc : act.pc = .sfDrop u) (hu : s.sfs[u]? = some sf)
    (hstep : stepAct s a = some (s', o)) :
    ∃ sf' act', s'.sfs[u]? = some sf' ∧ sf'.doneSent = sf.doneSent ∧ (sf.userBegun = true → sf'.userEnded = true) ∧
      s'.acts[a]? = some act' ∧ act'.pc = .fdDrop sf.f (.sfDropDone u) := by
  unfold stepAct at hstep
  simp only [ha, hc, hpc, hu, Option.isSome_none, Bool.false_eq_true, ↓reduceIte] at hstep
  have hlt : u < s.sfs.length := lt_of_getElem?_some hu
  split at hstep
  · next hopen =>
    obtain ⟨rfl, _⟩ := Prod.mk.inj (Option.some.inj hstep)
    refine ⟨{ sf with userEnded := true, userReg := none, readyWaker := none }, { act with pc := .fdDrop sf.f (.sfDropDone u) }, ?_, rfl, fun _ => rfl, ?_, rfl⟩
    · simp [State.setSf, hlt]
    · exact acts_goto_self _ (by simpa using ha)
  · next hnot =>
    obtain ⟨rfl, _⟩ := Prod.mk.inj (Option.some.inj hstep)
    refine ⟨{ sf with userReg := none, readyWaker := none }, { act with pc := .fdDrop sf.f (.sfDropDone u) }, ?_, rfl, ?_, ?_, rfl⟩
    · simp [State.setSf, hlt]
    · intro hb
      cases he : sf.userEnded with
      | true => rfl
      | false => simp [hb, he] at hnot
    · exact acts_goto_self _ (by simpa using ha)

/-- ... which is the order the code has: the user future field comes before the completion sender and
there is no hand-written Drop that could act earlier (generated facts). -/
theorem drop_order_in_code :
    syncFutureFields = ["state", "scheduler_future", "task_finished"] ∧ syncFutureCustomDrop = false :=
  ⟨syncFuture_drop_order, syncFuture_no_custom_drop⟩

/-- the slot job treats a dropped completion sender like a completed operation: the queue is released -/
theorem cancelled_slot_continues (s : State) (u : Nat) (sf : SyncFut) (hu : s.sfs[u]? = some sf) (hd : sf.doneSent = true) :
    s.sfDone u = true := by
  simp [State.sfDone, hu, hd]

/-- a sibling future's `waitingForPoll` is never taken over (needed for nested awaits) -/
theorem sibling_not_stolen (self f : Nat) (h : f ≠ self) : pollDecide self (.waitingForPoll f) = (.waitingForPoll f, .wait, true) :=
  pollDecide_other_waits self f h

/-- a cancelled future_sync whose scheduler future was the designated poller of the queue releases the queue: the queue can be
`waitingForPoll f` only for a future of its own whose flag is set, which is exactly when `Drop` hands it back (`DrainInv`) -/
theorem cancelled_poller_is_draining {s : State} (hr : Reachable s) {q f : Nat} {v : JobQ}
    (hv : s.qs[q]? = some v) (hst : v.state = .waitingForPoll f) :
    ∃ fu, s.futs[f]? = some fu ∧ fu.draining = true ∧ fu.q = q :=
  designated_poller_is_draining hr hv hst

/-- **The operation of `future_sync` runs only inside its slot in the queue order** (the start half, for every reachable state):
if the user operation of a sync-future has been begun, a slot job of that sync-future has been begun, and every operation
accepted on the object before that slot job has ended.  (`SlotInv`: `userBegun → readySent → slot job begun`, inductive over all
program counters, with `JobMono` — no step removes a job, changes its kind or resets `begun` — and C02.) -/
theorem operation_starts_in_its_slot {s : State} (hr : Reachable s) {u : Nat} {sf : SyncFut} (hu : s.sfs[u]? = some sf) (hb : sf.userBegun = true) :
    ∃ (j : Nat) (jb : Job) (r : Nat), s.jobs[j]? = some jb ∧ jb.kind = JobKind.slot u r ∧ jb.begun = true ∧
      ∀ (j1 : Nat) (b1 : Job), s.jobs[j1]? = some b1 → b1.q = jb.q → j1 < j → b1.ended = true :=
  future_sync_starts_in_its_slot hr hu hb

/-- **The slot is released on the right object**: in every reachable state the waker the slot job of `future_sync` has left on the
`task_finished` channel is the `WakeQueue` waker of *the sync-future's own queue*, a `WakeThread` waker for that queue, or a
latch (`DoneOk`: inductive over all program counters and environment steps; the slot job of sync-future `u` sits in `u`'s queue
— `KindInv` — and the context polling it works for that queue — the job invariant of C01).  So when the user's future completes,
or the `SyncFuture` is dropped and its sender with it, the wake-up reaches the queue that holds the slot. -/
theorem slot_completion_wakes_the_futures_own_queue {s : State} (hr : Reachable s) {u : Nat} {sf : SyncFut} {w : Waker}
    (hu : s.sfs[u]? = some sf) (hw : sf.doneWaker = some w) :
    w = .queue sf.q ∨ (∃ t, w = .thread sf.q t) ∨ (∃ l, w = .latch l) := by
  have h := doneOk_reachable hr u sf w hu hw
  cases w <;> simp_all [Waker.forQ]

/-- the slot job of a sync-future is a job of the sync-future's queue, and signals a future of that queue -/
theorem slot_job_sits_in_its_sync_futures_queue {s : State} (hr : Reachable s) {j u r : Nat} {jb : Job}
    (hj : s.jobs[j]? = some jb) (hk : jb.kind = .slot u r) :
    (∃ fu, s.futs[r]? = some fu ∧ fu.q = jb.q) ∧ (∃ sf, s.sfs[u]? = some sf ∧ sf.q = jb.q) :=
  (C07.job_futures_belong_to_the_jobs_queue hr hj).2.2.1 u r hk

end Desync.C08
