/-
C01 — operations on one Desync never overlap, even across awaits.
Full statement: `C01_full`.  Proved so far: the run right is handed out only from unowned states
(table obligations) — the inductive step `Exclusive` over all model steps is in Inv/.
-/
import DesyncModel.Spec
import DesyncModel.Tables
import DesyncModel.FactFifo
import DesyncModel.FactSyncFuture
import DesyncModel.Inv.Holder

namespace Desync.C01
open Desync Gen

/-- Full-strength statement: in every reachable state of the model at most one operation per queue is open. -/
def C01_full : Prop := ∀ s, Reachable s → Exclusive s

/-- Every table that can hand out the run right does so only from `idle`/`pending` (or, for a pool
thread and the owning future, from `waitingForPoll`), and marks the queue `running` in the same
critical section; in every other state the table leaves the state alone. -/
theorem run_right_only_from_unowned (st : QState) (e : Bool) (self : Nat) :
    (((syncDecide st e).2 = .immediate ∨ (syncDecide st e).2 = .drain) → st.claimable = true ∧ (syncDecide st e).1 = .running) ∧
    ((trySyncDecide st e).2 = .immediate → st = .idle ∧ e = true ∧ (trySyncDecide st e).1 = .running) ∧
    ((claim st).2 = true → st.claimable = true ∧ (claim st).1 = .running) ∧
    ((nextToRun st).2 = true → (st = .pending ∨ ∃ f, st = .waitingForPoll f) ∧ (nextToRun st).1 = .running) ∧
    ((pollDecide self st).2.1 = .drain → (st.claimable = true ∨ st = .waitingForPoll self) ∧ (pollDecide self st).1 = .running) := by
  refine ⟨syncDecide_claims st e, ?_, (claim_spec st).1, (nextToRun_spec st).1, ?_⟩
  · intro h
    have := (trySync_immediate_iff st e).mp h
    exact ⟨this.1, this.2, trySync_immediate_running st e h⟩
  · intro h
    have := (pollDecide_spec self st).1 h
    exact ⟨this.1, this.2.1⟩

/-- A queue whose state says somebody owns it (`running`, `awokenWhileRunning`, `waitingForUnpark`)
is never claimed by a second runner: no table grants the run right from these states. -/
theorem held_state_never_claimed (st : QState) (e : Bool) (self : Nat) (h : st.held = true) :
    (syncDecide st e).2 = .background ∧ (trySyncDecide st e).2 = .busy ∧ (claim st).2 = false ∧
    (nextToRun st).2 = false ∧ (pollDecide self st).2.1 = .wait := by
  cases st <;> cases e <;> simp_all [QState.held, syncDecide, trySyncDecide, claim, nextToRun, pollDecide]

/-- Jobs are taken only from the front and never while the queue is parked on a suspended job, so a
suspended future operation (requeued at the front) is the next job any runner sees. -/
theorem parked_queue_yields_no_job (st : QState) :
    dequeueAllowed st = false ↔ (st = .waitingForWake ∨ st = .waitingForUnpark ∨ ∃ f, st = .waitingForPoll f) :=
  dequeue_refuses_parked st

theorem fifo_operations_only : queueOps = queueOpsExpected := queueOps_only_fifo

/-- a cancelled future_sync operation's future (`state`) is destroyed before the completion sender
(`task_finished`) releases the queue to the next operation -/
theorem future_sync_destroyed_before_release : syncFutureFields = ["state", "scheduler_future", "task_finished"] := syncFuture_drop_order

/-- In the initial state the holder invariant holds (the inductive step is proved in Inv/HolderStep). -/
theorem holder_invariant_init (nq ng max : Nat) : HolderInv (initState nq ng max) := holderInv_init nq ng max

end Desync.C01
