/-
C01 — operations on one Desync never overlap, even across awaits.
Full statement: `C01_full`.  Proved so far: the run right is handed out only from unowned states
(table obligations) — the inductive step `Exclusive` over all model steps is in Inv/.
-/
import DesyncModel.Spec
import DesyncModel.Tables.Sync
import DesyncModel.Tables.TrySync
import DesyncModel.Tables.Claim
import DesyncModel.FactFifo
import DesyncModel.FactSyncFuture
import DesyncModel.Inv.Holder
import DesyncModel.Inv.HolderReach
import DesyncModel.Inv.JobReach

namespace Desync.C01
open Desync Gen

/-- Full-strength statement: in every reachable state of the model at most one operation per queue is open. -/
def C01_full : Prop := ∀ s, Reachable s → Exclusive s

/-- Every table that can hand out the run right does so only from `idle`/`pending` (or, for a pool
thread and the owning future, from `waitingForPoll`), and marks the queue `running` in the same
critical section; in every other state the table leaves the state alone. -/
theorem run_right_only_from_unowned (st : QState) (e : Bool) (self : Nat) :
    (((syncDecide st e).2 = .immediate ∨ (syncDecide st e).2 = .drain) → st.claimable = true ∧ (syncDecide st e).1 = .running) ∧
    ((trySyncDecide st e).2 = .immediate → st = .idle ∧ e = true ∧ (trySyncDecide st e).1 = .running) ∧
    ((claim st).2 = true → st.claimable = true ∧ (claim st).1 = .running) ∧
    ((nextToRun st).2 = true → (st = .pending ∨ ∃ f, st = .waitingForPoll f) ∧ (nextToRun st).1 = .running) ∧
    ((pollDecide self st).2.1 = .drain → (st.claimable = true ∨ st = .waitingForPoll self) ∧ (pollDecide self st).1 = .running) := by
  refine ⟨syncDecide_claims st e, ?_, (claim_spec st).1, (nextToRun_spec st).1, ?_⟩
  · intro h
    have := (trySync_immediate_iff st e).mp h
    exact ⟨this.1, this.2, trySync_immediate_running st e h⟩
  · intro h
    have := (pollDecide_spec self st).1 h
    exact ⟨this.1, this.2.1⟩

/-- A queue whose state says somebody owns it (`running`, `awokenWhileRunning`, `waitingForUnpark`)
is never claimed by a second runner: no table grants the run right from these states. -/
theorem held_state_never_claimed (st : QState) (e : Bool) (self : Nat) (h : st.held = true) :
    (syncDecide st e).2 = .background ∧ (trySyncDecide st e).2 = .busy ∧ (claim st).2 = false ∧
    (nextToRun st).2 = false ∧ (pollDecide self st).2.1 = .wait := by
  cases st <;> cases e <;> simp_all [QState.held, syncDecide, trySyncDecide, claim, nextToRun, pollDecide]

/-- Jobs are taken only from the front and never while the queue is parked on a suspended job, so a
suspended future operation (requeued at the front) is the next job any runner sees. -/
theorem parked_queue_yields_no_job (st : QState) :
    dequeueAllowed st = false ↔ (st = .waitingForWake ∨ st = .waitingForUnpark ∨ ∃ f, st = .waitingForPoll f) :=
  dequeue_refuses_parked st

theorem fifo_operations_only : queueOps = queueOpsExpected := queueOps_only_fifo

/-- a cancelled future_sync operation's future (`state`) is destroyed before the completion sender
(`task_finished`) releases the queue to the next operation -/
theorem future_sync_destroyed_before_release : syncFutureFields = ["state", "scheduler_future", "task_finished"] := syncFuture_drop_order

/-- **The run right is exclusive in every reachable state** (any number of objects, threads and calls,
any pool size, any interleaving): the program counters of two different activities never both lie in
the region of the code that may dequeue, run, poll or requeue jobs of the same queue or set its
state directly.  (Proved by induction over all model steps: Inv/HolderStep, Inv/HolderReach.) -/
theorem run_right_is_exclusive {s : State} (hr : Reachable s) (a b q : Nat)
    (ha : (s.pcAt a).holds q = true) (hb : (s.pcAt b).holds q = true) : a = b :=
  run_right_exclusive hr a b q ha hb

/-- In every reachable state the owner recorded for a queue is exactly the activity inside that
region, and a queue that has an owner is in one of the states `running`, `awokenWhileRunning`,
`waitingForUnpark` — the states from which no table grants the run right (`held_state_never_claimed`). -/
theorem holder_invariant {s : State} (hr : Reachable s) : HolderInv s := holderInv_reachable hr

/-- **Jobs are run only under the run right**: in every reachable state a job that has been dequeued (or created by
sync_immediate) and not yet requeued, finished or destroyed is in the hands of exactly one activity, that activity's
program counter says so, and it owns the run right of the job's queue.  (Inv/JobStep, Inv/JobReach: `JobInv` is
inductive over all 101 program counters.) -/
theorem running_job_has_owner {s : State} (hr : Reachable s) {j a : Nat} {b : Job} (hb : s.jobs[j]? = some b) (hph : b.ph = .held a) :
    (s.pcAt a).holds b.q = true ∧ s.holder[b.q]? = some (some a) :=
  held_job_owner_holds hr hb hph

/-- **Two operations on one object are never being run at the same time**: of all the jobs of one queue at most one is
in the hands of a runner, whichever threads are involved.  Together with `open_jobs_exclusive` below (suspended
operations) this is `C01_full`. -/
theorem running_operations_never_overlap {s : State} (hr : Reachable s) {j1 j2 a1 a2 : Nat} {b1 b2 : Job}
    (h1 : s.jobs[j1]? = some b1) (h2 : s.jobs[j2]? = some b2) (hq : b1.q = b2.q)
    (hp1 : b1.ph = .held a1) (hp2 : b2.ph = .held a2) : j1 = j2 :=
  running_jobs_exclusive hr h1 h2 hq hp1 hp2

/-- the jobs in a queue's list are exactly its queued jobs, each once -/
theorem queue_lists_are_exact {s : State} (hr : Reachable s) {q : Nat} {v : JobQ} (hv : s.qs[q]? = some v) :
    v.jobs.Nodup ∧ ∀ j ∈ v.jobs, ∃ b, s.jobs[j]? = some b ∧ b.ph = .queued ∧ b.q = q := by
  obtain ⟨_, h⟩ := jobInv_reachable hr
  refine ⟨h.nodup q v.jobs (qjobs_of hv), ?_⟩
  intro j hj
  exact jobPQ_some (h.queued q v.jobs j (qjobs_of hv) hj)

/-- **C01 holds in the model**: in every reachable state at most one operation per object is open, where an
operation is open from the invocation of its closure until it completes or is destroyed — so a future operation
suspended at an await counts.  (`exclusive_reachable`: the job invariant `JobInv` — who runs which job, queue lists
exact, an open job is held or is the head of its queue, no open queued job while a job of the queue is held — is
inductive over all 101 program counters and every environment step, on top of the run-right invariant.) -/
theorem C01_holds : C01_full := fun _ hr => exclusive_reachable hr

/-- non-vacuity: a reachable state with an open operation (a `sync` closure has been invoked on an idle queue) -/
example : ∃ s, Reachable s ∧ ∃ (j : Nat) (b : Job), s.jobs[j]? = some b ∧ b.isOpen = true := by
  refine ⟨_, Reachable.step (.act 0) (Reachable.step (.invoke 1 none (.sync 0)) (Reachable.init 1 0 1) rfl) rfl, 0, _, rfl, ?_⟩
  decide

/-- non-vacuity: a concrete reachable state in which an activity owns a queue -/
example : ∃ s, Reachable s ∧ ∃ a q, (s.pcAt a).holds q = true := by
  refine ⟨_, Reachable.step (.act 0) (Reachable.step (.invoke 1 none (.sync 0)) (Reachable.init 1 0 1) rfl) rfl, 0, 0, ?_⟩
  decide

end Desync.C01
