/-
C02 — operations run in the order their scheduling calls were made.
-/
import DesyncModel.Spec
import DesyncModel.Tables.Sync
import DesyncModel.Tables.TrySync
import DesyncModel.Tables.Claim
import DesyncModel.FactFifo
import DesyncModel.Lemmas
import DesyncModel.Setters
import DesyncModel.Inv.JobReach

namespace Desync.C02
open Desync Gen

def C02_full : Prop := ∀ s, Reachable s → InOrder s

/-- Every scheduling call appends at the back; only `dequeue` pops (front) and only `requeue` pushes at the front. -/
theorem fifo_discipline : queueOps = queueOpsExpected := queueOps_only_fifo

/-- A closure runs without being queued (sync / try_sync immediate) only when the queue is idle AND
empty, so it cannot overtake anything that was accepted before it. -/
theorem immediate_only_if_empty (st : QState) (e : Bool) :
    ((syncDecide st e).2 = .immediate → st = .idle ∧ e = true) ∧ ((trySyncDecide st e).2 = .immediate → st = .idle ∧ e = true) :=
  ⟨(syncDecide_immediate_iff st e).mp, (trySync_immediate_iff st e).mp⟩

/-- In the model, a scheduling call's job is appended at the back of the queue, under the queue
lock, in the same step that decides what follows; job ids are allocated in that step, so the id
order of two jobs of one queue is the order in which they were accepted. -/
theorem desync_push_is_append (s s' : State) (a q : Nat) (kind : JobKind) (act : Act) (o : Obs) (v : JobQ)
    (ha : s.acts[a]? = some act) (hc : act.child = none) (hpc : act.pc = .dsPush q kind) (hq : s.qs[q]? = some v)
    (hstep : stepAct s a = some (s', o)) :
    ∃ v', s'.qs[q]? = some v' ∧ v'.jobs = v.jobs ++ [s.jobs.length] ∧ s'.jobs.length = s.jobs.length + 1 := by
  unfold stepAct at hstep
  simp only [ha, hc, hpc, hq, Option.isSome_none, Bool.false_eq_true, ↓reduceIte, State.newJob] at hstep
  have hlt : q < s.qs.length := lt_of_getElem?_some hq
  refine ⟨{ v with jobs := v.jobs ++ [s.jobs.length], state := (desyncPush v.state).1 }, ?_, rfl, ?_⟩ <;>
  · (repeat' split at hstep) <;>
    · obtain ⟨rfl, _⟩ := Prod.mk.inj (Option.some.inj hstep)
      simp [State.setQ, hlt]

/-- **C02 holds in the model**: in every reachable state — any number of objects, threads and calls, any pool size,
any interleaving — an operation has begun only if every operation accepted earlier on the same object has ended
(job ids are allocated under the queue lock inside the scheduling call, so id order is acceptance order).
Proof: `inOrder_reachable`; the order invariant (`OrderInvF`: queue lists are increasing, the job in the hands of a
runner is older than every queued job of its queue, finished jobs have ended, a begun job has only ended predecessors)
is inductive over all 101 program counters and every environment step, together with the job invariant of C01. -/
theorem C02_holds : C02_full := fun _ hr => inOrder_reachable hr

/-- the queue lists are increasing in every reachable state: FIFO order is id order -/
theorem queue_lists_increasing {s : State} (hr : Reachable s) {q : Nat} {v : JobQ} (hv : s.qs[q]? = some v) : v.jobs.Pairwise (· < ·) :=
  (fullInv_reachable hr).2.ord.sorted q v.jobs (qjobs_of hv)

/-- non-vacuity: a reachable state with two jobs on one queue, the older one begun -/
example : ∃ s, Reachable s ∧ ∃ (b1 b2 : Job), s.jobs[0]? = some b1 ∧ s.jobs[1]? = some b2 ∧ b1.q = b2.q ∧ b1.begun = true := by
  refine ⟨_, Reachable.step (.act 1) (Reachable.step (.invoke 2 none (.desync 0)) (Reachable.step (.act 0) (Reachable.step (.invoke 1 none (.sync 0)) (Reachable.init 1 0 1) rfl) rfl) rfl) rfl, _, _, rfl, rfl, ?_, ?_⟩ <;> decide

end Desync.C02
