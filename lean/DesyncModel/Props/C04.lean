/-
C04 — sync always returns, with its own result, after running its closure once.
-/
import DesyncModel.Spec
import DesyncModel.Tables.Panic
import DesyncModel.Tables.Sync
import DesyncModel.Tables.Wake
import DesyncModel.Inv.RunReach
import DesyncModel.Inv.ErasedReach
import DesyncModel.Inv.CvReach
import DesyncModel.FactHandBack

namespace Desync.C04
open Desync Gen

/-- Full-strength statement: at quiescence (all gates open) no activity is inside a `sync` call. -/
def C04_full : Prop :=
  ∀ s, Reachable s → Quiescent s → AllGatesOpen s → NoCallInProgress s

/-- `sync` always picks one of its three strategies unless the queue has panicked. -/
theorem strategy_total (st : QState) (e : Bool) (h : st ≠ .panicked) :
    (syncDecide st e).2 = .immediate ∨ (syncDecide st e).2 = .drain ∨ (syncDecide st e).2 = .background := by
  have := syncDecide_total st e
  have hp := syncDecide_panics_iff st e
  rcases this with h1 | h1 | h1 | h1
  · exact Or.inl h1
  · exact Or.inr (Or.inl h1)
  · exact Or.inr (Or.inr h1)
  · exact absurd (hp.mp h1) h

/-- A waiting caller can always take over a queue that has been handed back. -/
theorem waiter_can_claim (st : QState) (h : st.claimable = true) : claim st = (.running, true) := by
  cases st <;> simp_all [QState.claimable, claim]

/-- The caller-side park loop never parks on a remembered wake. -/
theorem no_park_on_wake :
    runOnePending .awokenWhileRunning = (.running, .continue) ∧ parkCheck .running = .continue ∧ parkCheck .awokenWhileRunning = .continue :=
  ⟨remembered_wake_repolls.2.1, remembered_wake_repolls.2.2.2, remembered_wake_repolls.2.2.1⟩

/-- **`sync` runs its closure at most once, in every reachable state**: whichever of its three strategies the call took, the
job that carries the closure (created already running by sync_immediate, or queued as a lifetime-erased job by sync_drain /
sync_background) is started only if its closure has not been invoked before. -/
theorem sync_closure_runs_at_most_once {s : State} (hr : Reachable s) {a j owner : Nat} {body : Body} {c : Ctx} {k : Pc} {jb : Job}
    (hpc : s.pcAt a = .jobStart j c k) (hj : s.jobs[j]? = some jb)
    (hk : jb.kind = .erasedDrain owner body ∨ jb.kind = .erasedBg owner body ∨ jb.kind = .immediate owner body) : jb.begun = false := by
  refine closure_invoked_at_most_once hr (Or.inl hpc) hj ?_
  rcases hk with h | h | h <;> rw [h] <;> rfl

/-- **`sync` does not return before its own closure has been run (or destroyed)**: in every reachable state, as long as the job
that carries the closure of a `sync` call (sync_drain / sync_background) has not been dropped, the activity of that very call
is inside its wait loop, waiting for exactly this job — it has neither returned nor moved on.  (`ErasedInv`, the invariant
behind C14.)  With `sync_closure_runs_at_most_once`: the call returns after its own closure ran, once. -/
theorem sync_waits_for_its_own_closure {s : State} (hr : Reachable s) {j : Nat} {b : Job} {owner : Nat} {body : Body}
    (hb : s.jobs[j]? = some b) (hk : b.kind = .erasedDrain owner body ∨ b.kind = .erasedBg owner body) (hnd : b.ph ≠ .done) :
    (s.pcAt owner).awaited = some j :=
  erased_job_owner_waits hr hb hk hnd

/-! ### the condition variable of `sync_background`: no lost notification once the job has run -/

/-- **A sync caller asleep on its condition variable is never left there once its job has been run.**  In every reachable
state, for a caller blocked in `Condvar::wait` (`sbWaiting`): it has been notified (it will wake, re-check and return), or
its `ready` flag is not set (its lifetime-erased job has not been dropped yet: `sync_waits_for_its_own_closure` places the
job in the queue or in a runner's hands), or whoever dropped the job is between setting the flag and `notify_all`.
The proof is the code comment made exact: the caller holds its `ready` lock from seeing "not ready" until the wait releases
it (`caller_waits_under_its_lock`), and the flag is set only with that lock free. -/
theorem sleeping_sync_caller_is_not_forgotten {s : State} (hr : Reachable s) {a q j : Nat} (hpc : s.pcAt a = .sbWaiting q j) :
    s.isWoken a = true ∨ s.isReady a = false ∨ ∃ b j', (s.pcAt b).dropNotifies = some j' ∧ s.jobOwner j' = some a :=
  (cvInv_reachable hr).w a (by rw [hpc]; rfl)

/-- between testing `ready` and starting to wait the caller holds its own `ready` lock, the flag is still down, and nobody
else holds that lock (each `ready` lock has one holder; `reschedule_queue` holds the lock of the caller it signals) -/
theorem caller_waits_under_its_lock {s : State} (hr : Reachable s) {a : Nat} (hpc : (s.pcAt a).sbNr = true) :
    (a, a) ∈ s.readyLock ∧ s.isReady a = false ∧ ∀ b, (a, b) ∈ s.readyLock → b = a :=
  let h := cvInv_reachable hr
  ⟨h.rl a (sbNr_sbOwn hpc), h.nr a hpc, fun b hb => h.ml a b a hb (h.rl a (sbNr_sbOwn hpc))⟩

theorem signaller_holds_the_callers_lock {s : State} (hr : Reachable s) {b w : Nat} (hpc : (s.pcAt b).notifies = some w) : (w, b) ∈ s.readyLock :=
  (cvInv_reachable hr).rl2 b w hpc

/-- the runners' hand-backs are unconditional in the source, as the model's `siIdle` / `sdIdle` / `sbStealIdle` / `dqIdle` steps are
(regenerated fact): a queue is never left in a "somebody is running it" state because its runner found it changed -/
theorem runners_hand_back_unconditionally : stateConditionalHandBacks = [] := hand_backs_are_unconditional

end Desync.C04
