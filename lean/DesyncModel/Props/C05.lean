/-
C05 — dropping a Desync waits for its work and frees the value exactly once.
`Desync::drop` is `sync(queue, free)` (generated fact), so it inherits sync's ordering and exclusivity.
-/
import DesyncModel.Spec
import DesyncModel.Tables.Panic
import DesyncModel.Tables.Sync
import DesyncModel.FactDrop
import DesyncModel.Lemmas
import DesyncModel.Setters
import DesyncModel.Inv.JobReach
import DesyncModel.Inv.RunReach

namespace Desync.C05
open Desync Gen

/-- Full-strength statement: when an object's value is freed every job accepted on its queue before
the drop call has ended, and no job of the queue begins afterwards. -/
def C05_full : Prop :=
  ∀ s, Reachable s → ∀ (q : Nat), q ∈ s.dropped → ∀ (j : Nat) (b : Job), s.jobs[j]? = some b → b.q = q → b.begun = true → b.ended = true ∨ (∃ o, b.kind = .immediate o (.free q) ∨ b.kind = .erasedDrain o (.free q) ∨ b.kind = .erasedBg o (.free q))

theorem frees_through_sync : dropUses = ["sync", "sync_no_panic"] := drop_frees_through_sync

/-- the value is released only by that job — never directly by `Drop`, whatever `sync_no_panic` answers — so "freed exactly once,
after everything accepted earlier" is a statement about the free *job*, which the theorems below are about -/
theorem frees_only_inside_its_job : dropFreesOutsideJob = 0 := drop_frees_only_inside_its_job

/-- the free closure is an ordinary sync closure: it runs immediately only on an idle AND empty queue,
otherwise it is queued at the back behind everything accepted before -/
theorem free_is_ordered (st : QState) (e : Bool) :
    ((syncDecide st e).2 = .immediate → st = .idle ∧ e = true) ∧
    ((syncNoPanicDecide st e).2 = .immediate → st = .idle ∧ e = true) := by
  refine ⟨(syncDecide_immediate_iff st e).mp, ?_⟩
  cases st <;> cases e <;> simp [syncNoPanicDecide]

/-- the value is marked freed exactly in the step that runs the free closure -/
theorem free_step (s s' : State) (a q : Nat) (k : Pc) (act : Act) (o : Obs)
    (ha : s.acts[a]? = some act) (hc : act.child = none) (hpc : act.pc = .begin (.free q) k)
    (hstep : stepAct s a = some (s', o)) : s'.dropped = q :: s.dropped ∧ o = .free q := by
  unfold stepAct at hstep
  simp only [ha, hc, hpc, Option.isSome_none, Bool.false_eq_true, ↓reduceIte] at hstep
  obtain ⟨rfl, rfl⟩ := Prod.mk.inj (Option.some.inj hstep)
  exact ⟨by simp, rfl⟩

/-- dropping while unwinding never panics again and never runs on a panicked queue -/
theorem drop_in_panic (e : Bool) : syncNoPanicDecide .panicked e = (.panicked, .refuse) := syncNoPanic_panicked e

/-- **dropping waits for the work scheduled before it**: in every reachable state, once the job that carries the free
closure has begun, every job accepted earlier on the same queue has ended (instance of C02's `inOrder_reachable`; the free
closure is an ordinary `sync` job — `frees_through_sync`) -/
theorem free_waits_for_earlier_work {s : State} (hr : Reachable s) {jf j : Nat} {bf b : Job}
    (hf : s.jobs[jf]? = some bf) (hj : s.jobs[j]? = some b) (hq : b.q = bf.q) (hlt : j < jf) (hbeg : bf.begun = true) : b.ended = true :=
  inOrder_reachable hr j jf b bf hj hf hq hlt hbeg

/-- **the value is freed in exclusion of every other operation**: while the job that carries the free closure is open no
other job of the queue is open (instance of C01's `exclusive_reachable`) -/
theorem free_is_exclusive {s : State} (hr : Reachable s) {jf j : Nat} {bf b : Job}
    (hf : s.jobs[jf]? = some bf) (hj : s.jobs[j]? = some b) (hq : b.q = bf.q) (hof : bf.isOpen = true) (ho : b.isOpen = true) : j = jf :=
  exclusive_reachable hr j jf b bf hj hf hq ho hof

/-- **The value is freed at most once**: the closure `Desync::drop` runs on the queue (body `free q`) is, like every closure,
invoked at most once — the job that carries it is started only if it has not begun. -/
theorem free_closure_runs_at_most_once {s : State} (hr : Reachable s) {a j owner q : Nat} {c : Ctx} {k : Pc} {jb : Job}
    (hpc : s.pcAt a = .jobStart j c k) (hj : s.jobs[j]? = some jb)
    (hk : jb.kind = .erasedDrain owner (.free q) ∨ jb.kind = .erasedBg owner (.free q)) : jb.begun = false := by
  refine closure_invoked_at_most_once hr (Or.inl hpc) hj ?_
  rcases hk with h | h <;> rw [h] <;> rfl

end Desync.C05
