/-
C06 — a wake-up for a suspended future operation is never lost.
-/
import DesyncModel.Spec
import DesyncModel.Tables.Push
import DesyncModel.Tables.Wake
import DesyncModel.Inv.ParkReach
import DesyncModel.Inv.WakeReach
import DesyncModel.Inv.WakeTReach
import DesyncModel.Inv.Latch
import DesyncModel.Inv.ShapeReach
import DesyncModel.Inv.Reg

namespace Desync.C06
open Desync Gen

/-- Full-strength statement: at quiescence no begun-and-unfinished future job remains whose awaited
event has happened. -/
def C06_full : Prop :=
  ∀ s, Reachable s → Quiescent s → AllGatesOpen s → ∀ (j : Nat) (b : Job), s.jobs[j]? = some b → b.begun = true → b.ended = true

/-- the wake-up tables, by position of the wake relative to the suspension -/
theorem during_the_poll :
    (wakeQueue .running).1 = .awokenWhileRunning ∧ wakeThread .running = .awokenWhileRunning ∧
    drainPending .awokenWhileRunning = (.running, false) ∧ runOnePending .awokenWhileRunning = (.running, .continue) :=
  ⟨wake_while_running_is_remembered.1, wake_while_running_is_remembered.2.1, remembered_wake_repolls.1, remembered_wake_repolls.2.1⟩

theorem after_parking :
    wakeQueue .waitingForWake = (.idle, true) ∧ reschedule .idle false = (.pending, true) ∧
    wakeThread .waitingForUnpark = .running ∧ wakeThreadUnparks = true ∧ parkCheck .running = .continue :=
  ⟨wake_parked.1, (reschedule_spec .idle false).1 ⟨rfl, rfl⟩, wake_parked.2.1, wake_parked.2.2.1, remembered_wake_repolls.2.2.2⟩

theorem under_a_polling_task (f : Nat) (e : Bool) :
    wakeQueue (.waitingForPoll f) = (.waitingForPoll f, true) ∧ reschedule (.waitingForPoll f) e = (.waitingForPoll f, true) ∧
    nextToRun (.waitingForPoll f) = (.running, true) ∧ (pollDecide f (.waitingForPoll f)).2.1 = .drain :=
  ⟨wake_parked.2.2.2.1 f, wake_parked.2.2.2.2.1 f e, wake_parked.2.2.2.2.2 f, by simp [pollDecide]⟩

theorem repeated_wakes_are_idempotent :
    (wakeQueue .awokenWhileRunning).1 = .awokenWhileRunning ∧ wakeThread .awokenWhileRunning = .awokenWhileRunning :=
  ⟨wake_while_running_is_remembered.2.2.1, wake_while_running_is_remembered.2.2.2⟩

theorem latch :
    latchWakeWith .woken = (.woken, true) ∧ latchWake .willWake = (.woken, true) ∧ latchWake .notWoken = (.woken, false) :=
  ⟨latch_spec.1, latch_spec.2.2.2.2.1, latch_spec.2.2.2.1⟩

theorem stale_queue_waker_harmless : wakeQueue .waitingForUnpark = (.waitingForUnpark, false) := wakeQueue_leaves_unpark

/-! ### the "thread inside sync" context -/

/-- **I_park.**  In every reachable state a queue in the `WaitingForUnpark` state has a sync caller in the park loop of
`run_one_job_now` for that queue: the state is written only by the caller that then parks, and the caller leaves the loop only
once the state has been taken out of `WaitingForUnpark` — which only `WakeThread::wake` does (`wake_parked`:
`wakeThread .waitingForUnpark = .running`, followed by the unpark).  So the wake-up of an operation suspended under a thread
inside `sync` finds that thread there, and the thread then sees `Running` and polls the operation again
(`parkCheck .running = .continue`). -/
theorem parked_caller_is_in_its_park_loop {s : State} (hr : Reachable s) {q : Nat} {v : JobQ} (hv : s.qs[q]? = some v)
    (hst : v.state = .waitingForUnpark) : ∃ a, (s.pcAt a).parks q = true :=
  (parkInv_reachable hr).park q (by rw [qSt_of hv, hst])

/-- only `run_one_job_now`, when it is about to park, writes `WaitingForUnpark`; only `WakeThread::wake` takes a queue out of it
(every other table leaves the state alone) -/
theorem only_the_parking_caller_writes_waitingForUnpark (st : QState) :
    ((runOnePending st).1 = .waitingForUnpark → st = .waitingForUnpark ∨ (runOnePending st).2 = .park) ∧
    ((wakeQueue st).1 = .waitingForUnpark → st = .waitingForUnpark) ∧ ((drainPending st).1 = .waitingForUnpark → st = .waitingForUnpark) ∧
    (wakeQueue .waitingForUnpark).1 = .waitingForUnpark ∧ wakeThread .waitingForUnpark = .running :=
  ⟨runOnePending_wfu, wakeQueue_wfu, drainPending_wfu, rfl, rfl⟩

/-! ### the pool context: I_wake -/

/-- **I_wake (pool context).**  In every state reachable without polling a returned future (`ReachableNT`: any number of objects,
threads, `desync` / `sync` / `try_sync` / `future_desync` / `after` / `suspend` / resume / drop calls, any interleaving): a queue that a
pool thread has parked in `WaitingForWake` has a suspended operation at its head, and for that operation the queue's own waker
is still registered with the awaited event, or a `WakeQueue` wake-up for the queue is on its way (in a list of wakers being
fired, or about to run `WakeQueue::wake`, which turns `WaitingForWake` into `Idle` and reschedules: `after_parking`).
This is C06's "after it is parked" for the pool-thread context; `wake_between_poll_and_park_is_remembered` is
"during the poll / while the queue is being parked". -/
theorem parked_queue_has_its_wake_up {s : State} (hr : ReachableNT s) {q : Nat} {v : JobQ} (hv : s.qs[q]? = some v)
    (hst : v.state = .waitingForWake) : ∃ j rest, v.jobs = j :: rest ∧ (Reg s q j ∨ Flight s q) := by
  obtain ⟨j, rest, h1, h2⟩ := (ntWake_reachable hr).wake.parked q (by rw [qSt_of hv, hst])
  rw [qjobs_of hv] at h1
  exact ⟨j, rest, Option.some.inj h1, h2⟩

/-- **A wake-up that fires between the poll and the parking decision is not lost.**  A pool thread that has polled the
operation at the head of queue `q` (which registered the queue's waker) and is about to decide whether to park
(`pdPending`: `drain`'s critical section after `requeue`) finds: the waker still registered, or the wake-up on its way, or the
queue `AwokenWhileRunning` — in which case `drain` polls again instead of parking (`during_the_poll`). -/
theorem wake_between_poll_and_park_is_remembered {s : State} (hr : ReachableNT s) {a p q : Nat} (hpc : s.pcAt a = .pdPending p q) :
    ∃ j rest, s.qjobs q = some (j :: rest) ∧ (Reg s q j ∨ Flight s q ∨ s.qSt q = some .awokenWhileRunning) :=
  (ntWake_reachable hr).wake.poll2 a q (by rw [hpc]; rfl)

/-- the same, one critical section earlier: the job has been polled and is about to be put back at the head of the queue -/
theorem wake_after_poll_is_remembered {s : State} (hr : ReachableNT s) {a p q j : Nat} (hpc : s.pcAt a = .pdRequeue p q j) :
    Reg s q j ∨ Flight s q ∨ s.qSt q = some .awokenWhileRunning :=
  (ntWake_reachable hr).wake.poll1 a q j (by rw [hpc]; rfl)

/-! ### the "thread inside sync" context: I_wake -/

/-- **I_wake (thread context).**  In every state reachable without polling a returned future: a queue in `WaitingForUnpark`
has a sync caller in the park loop of `run_one_job_now` holding the suspended job `j`, and that caller's own `WakeThread`
waker (for this queue and this caller's thread) is still registered with the event `j` awaits, or a `WakeThread` wake-up
for this queue and this thread is on its way — in a list of wakers being fired, or about to run `WakeThread::wake`, which
turns `WaitingForUnpark` into `Running` and unparks exactly this thread (`wake_parked`).  C06 "after it is parked" for
the thread-inside-`sync` context; together with I_park the caller is there to receive it. -/
theorem parked_caller_has_its_wake_up {s : State} (hr : ReachableNT s) {q : Nat} {v : JobQ} (hv : s.qs[q]? = some v)
    (hst : v.state = .waitingForUnpark) :
    ∃ a j, (s.pcAt a).parkedJ = some (q, j) ∧ (RegT s q j (s.threadOf a) ∨ FlightT s q (s.threadOf a)) := by
  have hq : s.qSt q = some .waitingForUnpark := by rw [qSt_of hv, hst]
  obtain ⟨a, ha⟩ := (parkInv_reachable hr.reachable).park q hq
  have : ∃ j, (s.pcAt a).parkedJ = some (q, j) := by
    cases hpc : s.pcAt a <;> rw [hpc] at ha <;> simp_all [Pc.parks, Pc.parkedJ]
  obtain ⟨j, hj⟩ := this
  exact ⟨a, j, hj, (wakeTInv_reachable hr).parked a q j hj hq⟩

/-- **A wake-up that fires between the caller's poll and its decision to park is not lost** (thread context).  A sync caller
that has polled job `j` of queue `q` (which registered its thread's waker) and is about to update the queue state
(`rjPending`: the critical section of `run_one_job_now` after `Poll::Pending`) finds the waker still registered, or the
wake-up on its way, or the queue `AwokenWhileRunning` — in which case it polls again instead of parking
(`runOnePending .awokenWhileRunning = (.running, .continue)`). -/
theorem thread_wake_between_poll_and_park_is_remembered {s : State} (hr : ReachableNT s) {a q j : Nat} {k : Pc}
    (hpc : s.pcAt a = .rjPending q j k) :
    RegT s q j (s.threadOf a) ∨ FlightT s q (s.threadOf a) ∨ s.qSt q = some .awokenWhileRunning :=
  (wakeTInv_reachable hr).polled a q j (by rw [hpc]; rfl)

/-- the premises of `parked_caller_has_its_wake_up` are satisfiable and its conclusion is not trivially true: a caller on
thread 1 parked on the suspended `future_desync` job 0 of queue 0, its waker registered -/
def parkedExample : State :=
  let s0 := initState 1 1 1
  { s0 with
    qs := [{ state := .waitingForUnpark, jobs := [], waiters := [] }]
    jobs := [{ q := 0, kind := .fut 0 (some 0) 0, ph := .held 0, begun := true, ended := false, reg := some (.thread 0 1) }]
    acts := [{ thread := 1, pc := .rjPark 0 0 (.sdCheck 0 0), parent := none, child := none, woken := false, result := none, mode := .await, once := false }] }

example : parkedExample.qSt 0 = some .waitingForUnpark ∧ (parkedExample.pcAt 0).parkedJ = some (0, 0) ∧
    RegT parkedExample 0 0 (parkedExample.threadOf 0) ∧ ¬ FlightT parkedExample 0 1 ∧ ¬ RegT parkedExample 0 0 2 := by
  refine ⟨by simp [parkedExample, State.qSt], by simp [parkedExample, State.pcAt, Pc.parkedJ], ?_, ?_, ?_⟩
  · simp [RegT, State.regW, State.threadOf, parkedExample]
  · rintro ⟨b, hb⟩
    cases b with
    | zero => simp [parkedExample, State.pcAt, Pc.wakesT] at hb
    | succ n => simp [parkedExample, State.pcAt, Pc.wakesT] at hb
  · simp [RegT, State.regW, parkedExample]

/-- what the caller does with a remembered wake-up, and what the wake-up does to a parked caller -/
theorem thread_context_tables :
    runOnePending .awokenWhileRunning = (.running, .continue) ∧ runOnePending .running = (.waitingForUnpark, .park) ∧
    wakeThread .running = .awokenWhileRunning ∧ wakeThread .waitingForUnpark = .running ∧
    parkCheck .running = .continue ∧ parkCheck .waitingForUnpark = .park := ⟨rfl, rfl, rfl, rfl, rfl, rfl⟩

/-- an activity never changes thread, so "this caller's thread" in the statements above is well defined along an execution -/
theorem activities_keep_their_thread {s s' : State} {a : Nat} {o : Obs} (hs : stepAct s a = some (s', o)) (b : Nat)
    (hb : b < s.acts.length) : s'.threadOf b = s.threadOf b := threadOf_stepAct hs b hb

/-! ### the "task polling a returned future" context: the latch -/

/-- **The `DrainWaker` latch holds a waker exactly while it is armed**, in every reachable state (every kind of call, the
task-context ones included; `LatchInv`, inductive over all program counters).  With the two latch tables (`latch`) this is the
latch's whole contract: a wake-up that arrives before `wake_with` finds `NotWoken` with nothing stored and leaves `Woken`, and
`wake_with` then fires the waker it is given at once; a wake-up that arrives after finds `WillWakeWithWaker` with the waker
stored, fires it and takes it out — so the waker handed to `wake_with` is fired exactly once whichever way the race goes, and
never twice.  The next link of the chain (what the latch and the `DoubleWaker` hold) is `ShapeInv` below; what is *not* proved for
this context is that the latch of the job at the head of a `WaitingForPoll` queue is the one registered with the awaited event
(the analogue of `parked_queue_has_its_wake_up` for the polling task), which rests on conformance and the oracles. -/
theorem latch_holds_a_waker_iff_armed {s : State} (hr : Reachable s) {l : Nat} {st : Latch} {w : Option Waker}
    (hl : s.latches[l]? = some (st, w)) : w.isSome = true ↔ st = .willWake :=
  (latchInv_reachable hr).ok l st w hl

/-- non-vacuity: an armed latch with its waker, and an unarmed one without -/
example : LatchInv { initState 1 0 1 with latches := [(.willWake, some (.queue 0)), (.woken, none), (.notWoken, none)] } := by
  refine ⟨?_⟩
  intro l st w hl
  match l with
  | 0 => simp at hl; obtain ⟨rfl, rfl⟩ := hl; simp
  | 1 => simp at hl; obtain ⟨rfl, rfl⟩ := hl; simp
  | 2 => simp at hl; obtain ⟨rfl, rfl⟩ := hl; simp
  | n + 3 => simp at hl

/-! ### the "task polling a returned future" context: what the latch and the double waker hold -/

/-- **A wake-up that goes through a `DrainWaker` latch ends at the queue's own waker after at most two hops**, in every reachable
state (`ShapeInv`, inductive over all program counters and environment steps): the waker stored in a latch is the queue's
`WakeQueue` waker or a `DoubleWaker` — never a thread waker, a bare task waker or another latch. -/
theorem latch_holds_queue_or_double_waker {s : State} (hr : Reachable s) {l : Nat} {st : Latch} {w : Waker}
    (hl : s.latches[l]? = some (st, some w)) : (∃ q, w = .queue q) ∨ (∃ d, w = .double d) := by
  have h := (shapeInv_reachable hr).lat l st w hl
  cases w <;> simp_all [Waker.lvl1]

/-- **A `DoubleWaker` that has not been fired holds a queue waker and the polling task's waker** (so firing it reschedules the
queue — the operation can be carried on by a pool thread — *and* has the task polled again), in every reachable state. -/
theorem double_waker_targets_queue_and_task {s : State} (hr : Reachable s) {d : Nat} {w1 w2 : Waker}
    (hd : s.doubles[d]? = some (some (w1, w2))) : ∃ q t, w1 = .queue q ∧ w2 = .task t :=
  (shapeInv_reachable hr).dbl d w1 w2 hd

/-- every `wake_with` in progress — at the head of a program counter or inside a continuation — hands the latch such a waker -/
theorem wake_with_hands_over_queue_or_double {s : State} (hr : Reachable s) (b : Nat) : (s.pcAt b).ws = true :=
  (shapeInv_reachable hr).ws b

/-- the number of further wakers a waker can lead to -/
def _root_.Desync.Waker.hops : Waker → Nat
  | .latch _ => 2
  | .double _ => 1
  | _ => 0

/-- **Firing an armed latch hands on a waker that is at most one hop from its targets** (one step of the model, any reachable
state): `DrainWaker::wake` on a latch that is `WillWakeWithWaker` takes the stored waker out and fires exactly it, and that waker is
the queue's own (`hops = 0`) or a `DoubleWaker` (`hops = 1`, whose two targets have `hops = 0` by
`double_waker_targets_queue_and_task`) — a wake-up never circulates among latches. -/
theorem armed_latch_fires_its_waker {s : State} (hr : Reachable s) {a l : Nat} {act : Act} {k : Pc} {w : Waker}
    (ha : s.acts[a]? = some act) (hc : act.child = none) (hpc : act.pc = .lwCs l k)
    (hl : s.latches[l]? = some (.willWake, some w)) :
    stepAct s a = some (({ s with latches := s.latches.set l (.woken, none) }).goto a (.waking [w] k), .csW l) ∧ w.hops ≤ 1 := by
  refine ⟨?_, ?_⟩
  · unfold stepAct
    simp only [ha, hc, hpc, Option.isSome_none, Bool.false_eq_true, ↓reduceIte, hl]
    have h1 : latchWake .willWake = (.woken, true) := latch.2.1
    simp [h1]
  · rcases latch_holds_queue_or_double_waker hr hl with ⟨q, rfl⟩ | ⟨d, rfl⟩ <;> simp [Waker.hops]

/-- firing a `DoubleWaker` empties it and wakes both of its targets, queue first (one step of the model) -/
theorem double_waker_fires_both {s : State} {a d : Nat} {act : Act} {k : Pc} {w1 w2 : Waker}
    (ha : s.acts[a]? = some act) (hc : act.child = none) (hpc : act.pc = .dwCs d k) (hd : s.doubles[d]? = some (some (w1, w2))) :
    stepAct s a = some (({ s with doubles := s.doubles.set d none }).goto a (.waking [w1, w2] k), .csD d) := by
  unfold stepAct
  simp only [ha, hc, hpc, Option.isSome_none, Bool.false_eq_true, ↓reduceIte, hd]

/-- non-vacuity: an armed latch holding a double waker, the double waker holding its queue and task wakers -/
example : ShapeInv { initState 1 0 1 with latches := [(.willWake, some (.double 0))], doubles := [some (.queue 0, .task 3)] } := by
  refine ⟨?_, ?_, ?_⟩
  · intro b; simp [State.pcAt, initState, Pc.ws]
  · intro d w1 w2 hd
    match d with
    | 0 => simp at hd; obtain ⟨rfl, rfl⟩ := hd; exact ⟨0, 3, rfl, rfl⟩
    | n + 1 => simp at hd
  · intro l st w hl
    match l with
    | 0 => simp at hl; obtain ⟨rfl, rfl⟩ := hl; rfl
    | n + 1 => simp at hl

/-! ### the registration itself: a suspended operation's waker is for its own queue -/

/-- **The waker a suspended operation has registered with the event it awaits belongs to the operation's own queue**, in every
reachable state (every kind of call; `RegInv`, inductive over all program counters and environment steps, using the job
invariant of C01 for "the context that polls a job works for the job's queue"): it is the `WakeQueue` waker of the queue the
operation was scheduled on (pool-thread context), a `WakeThread` waker for that queue (a caller inside `sync`), or a
`DrainWaker` latch (polling task; `latch_holds_queue_or_double_waker` says where that leads).  So the wake-up of a suspended
operation can never land on another object's queue. -/
theorem registered_waker_targets_own_queue {s : State} (hr : Reachable s) {j : Nat} {jb : Job} {w : Waker}
    (hj : s.jobs[j]? = some jb) (hreg : jb.reg = some w) :
    w = .queue jb.q ∨ (∃ t, w = .thread jb.q t) ∨ (∃ l, w = .latch l) := by
  have h := regInv_reachable hr j jb w hj hreg
  cases w <;> simp_all [Waker.forQ]

/-- non-vacuity: a suspended operation of queue 1 with the queue's waker registered -/
example : RegInv { initState 2 1 1 with
    jobs := [{ q := 1, kind := .fut 0 (some 0) 0, ph := .queued, begun := true, ended := false, reg := some (.queue 1) }] } := by
  intro j jb w hj hr
  match j with
  | 0 => simp at hj; subst hj; simp at hr; subst hr; rfl
  | n + 1 => simp at hj

/-- the executions the `ReachableNT` theorems above quantify over never enter the task-context code -/
theorem no_task_context_without_polling {s : State} (hr : ReachableNT s) (b : Nat) : (s.pcAt b).noTask = true :=
  (ntWake_reachable hr).nt.pcs b

end Desync.C06
