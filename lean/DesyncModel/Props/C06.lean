/-
C06 — a wake-up for a suspended future operation is never lost.
-/
import DesyncModel.Spec
import DesyncModel.Tables.Push
import DesyncModel.Tables.Wake

namespace Desync.C06
open Desync Gen

/-- Full-strength statement: at quiescence no begun-and-unfinished future job remains whose awaited
event has happened. -/
def C06_full : Prop :=
  ∀ s, Reachable s → Quiescent s → AllGatesOpen s → ∀ (j : Nat) (b : Job), s.jobs[j]? = some b → b.begun = true → b.ended = true

/-- the wake-up tables, by position of the wake relative to the suspension -/
theorem during_the_poll :
    (wakeQueue .running).1 = .awokenWhileRunning ∧ wakeThread .running = .awokenWhileRunning ∧
    drainPending .awokenWhileRunning = (.running, false) ∧ runOnePending .awokenWhileRunning = (.running, .continue) :=
  ⟨wake_while_running_is_remembered.1, wake_while_running_is_remembered.2.1, remembered_wake_repolls.1, remembered_wake_repolls.2.1⟩

theorem after_parking :
    wakeQueue .waitingForWake = (.idle, true) ∧ reschedule .idle false = (.pending, true) ∧
    wakeThread .waitingForUnpark = .running ∧ wakeThreadUnparks = true ∧ parkCheck .running = .continue :=
  ⟨wake_parked.1, (reschedule_spec .idle false).1 ⟨rfl, rfl⟩, wake_parked.2.1, wake_parked.2.2.1, remembered_wake_repolls.2.2.2⟩

theorem under_a_polling_task (f : Nat) (e : Bool) :
    wakeQueue (.waitingForPoll f) = (.waitingForPoll f, true) ∧ reschedule (.waitingForPoll f) e = (.waitingForPoll f, true) ∧
    nextToRun (.waitingForPoll f) = (.running, true) ∧ (pollDecide f (.waitingForPoll f)).2.1 = .drain :=
  ⟨wake_parked.2.2.2.1 f, wake_parked.2.2.2.2.1 f e, wake_parked.2.2.2.2.2 f, by simp [pollDecide]⟩

theorem repeated_wakes_are_idempotent :
    (wakeQueue .awokenWhileRunning).1 = .awokenWhileRunning ∧ wakeThread .awokenWhileRunning = .awokenWhileRunning :=
  ⟨wake_while_running_is_remembered.2.2.1, wake_while_running_is_remembered.2.2.2⟩

theorem latch :
    latchWakeWith .woken = (.woken, true) ∧ latchWake .willWake = (.woken, true) ∧ latchWake .notWoken = (.woken, false) :=
  ⟨latch_spec.1, latch_spec.2.2.2.2.1, latch_spec.2.2.2.1⟩

theorem stale_queue_waker_harmless : wakeQueue .waitingForUnpark = (.waitingForUnpark, false) := wakeQueue_leaves_unpark

end Desync.C06
