/-
C06 — a wake-up for a suspended future operation is never lost.
-/
import DesyncModel.Spec
import DesyncModel.Tables.Push
import DesyncModel.Tables.Wake
import DesyncModel.Inv.ParkReach
import DesyncModel.Inv.WakeReach

namespace Desync.C06
open Desync Gen

/-- Full-strength statement: at quiescence no begun-and-unfinished future job remains whose awaited
event has happened. -/
def C06_full : Prop :=
  ∀ s, Reachable s → Quiescent s → AllGatesOpen s → ∀ (j : Nat) (b : Job), s.jobs[j]? = some b → b.begun = true → b.ended = true

/-- the wake-up tables, by position of the wake relative to the suspension -/
theorem during_the_poll :
    (wakeQueue .running).1 = .awokenWhileRunning ∧ wakeThread .running = .awokenWhileRunning ∧
    drainPending .awokenWhileRunning = (.running, false) ∧ runOnePending .awokenWhileRunning = (.running, .continue) :=
  ⟨wake_while_running_is_remembered.1, wake_while_running_is_remembered.2.1, remembered_wake_repolls.1, remembered_wake_repolls.2.1⟩

theorem after_parking :
    wakeQueue .waitingForWake = (.idle, true) ∧ reschedule .idle false = (.pending, true) ∧
    wakeThread .waitingForUnpark = .running ∧ wakeThreadUnparks = true ∧ parkCheck .running = .continue :=
  ⟨wake_parked.1, (reschedule_spec .idle false).1 ⟨rfl, rfl⟩, wake_parked.2.1, wake_parked.2.2.1, remembered_wake_repolls.2.2.2⟩

theorem under_a_polling_task (f : Nat) (e : Bool) :
    wakeQueue (.waitingForPoll f) = (.waitingForPoll f, true) ∧ reschedule (.waitingForPoll f) e = (.waitingForPoll f, true) ∧
    nextToRun (.waitingForPoll f) = (.running, true) ∧ (pollDecide f (.waitingForPoll f)).2.1 = .drain :=
  ⟨wake_parked.2.2.2.1 f, wake_parked.2.2.2.2.1 f e, wake_parked.2.2.2.2.2 f, by simp [pollDecide]⟩

theorem repeated_wakes_are_idempotent :
    (wakeQueue .awokenWhileRunning).1 = .awokenWhileRunning ∧ wakeThread .awokenWhileRunning = .awokenWhileRunning :=
  ⟨wake_while_running_is_remembered.2.2.1, wake_while_running_is_remembered.2.2.2⟩

theorem latch :
    latchWakeWith .woken = (.woken, true) ∧ latchWake .willWake = (.woken, true) ∧ latchWake .notWoken = (.woken, false) :=
  ⟨latch_spec.1, latch_spec.2.2.2.2.1, latch_spec.2.2.2.1⟩

theorem stale_queue_waker_harmless : wakeQueue .waitingForUnpark = (.waitingForUnpark, false) := wakeQueue_leaves_unpark

/-! ### the "thread inside sync" context -/

/-- **I_park.**  In every reachable state a queue in the `WaitingForUnpark` state has a sync caller in the park loop of
`run_one_job_now` for that queue: the state is written only by the caller that then parks, and the caller leaves the loop only
once the state has been taken out of `WaitingForUnpark` — which only `WakeThread::wake` does (`wake_parked`:
`wakeThread .waitingForUnpark = .running`, followed by the unpark).  So the wake-up of an operation suspended under a thread
inside `sync` finds that thread there, and the thread then sees `Running` and polls the operation again
(`parkCheck .running = .continue`). -/
theorem parked_caller_is_in_its_park_loop {s : State} (hr : Reachable s) {q : Nat} {v : JobQ} (hv : s.qs[q]? = some v)
    (hst : v.state = .waitingForUnpark) : ∃ a, (s.pcAt a).parks q = true :=
  (parkInv_reachable hr).park q (by rw [qSt_of hv, hst])

/-- only `run_one_job_now`, when it is about to park, writes `WaitingForUnpark`; only `WakeThread::wake` takes a queue out of it
(every other table leaves the state alone) -/
theorem only_the_parking_caller_writes_waitingForUnpark (st : QState) :
    ((runOnePending st).1 = .waitingForUnpark → st = .waitingForUnpark ∨ (runOnePending st).2 = .park) ∧
    ((wakeQueue st).1 = .waitingForUnpark → st = .waitingForUnpark) ∧ ((drainPending st).1 = .waitingForUnpark → st = .waitingForUnpark) ∧
    (wakeQueue .waitingForUnpark).1 = .waitingForUnpark ∧ wakeThread .waitingForUnpark = .running :=
  ⟨runOnePending_wfu, wakeQueue_wfu, drainPending_wfu, rfl, rfl⟩

/-! ### the pool context: I_wake -/

/-- **I_wake (pool context).**  In every state reachable without polling a returned future (`ReachableNT`: any number of objects,
threads, `desync` / `sync` / `try_sync` / `future_desync` / `after` / `suspend` / resume / drop calls, any interleaving): a queue that a
pool thread has parked in `WaitingForWake` has a suspended operation at its head, and for that operation the queue's own waker
is still registered with the awaited event, or a `WakeQueue` wake-up for the queue is on its way (in a list of wakers being
fired, or about to run `WakeQueue::wake`, which turns `WaitingForWake` into `Idle` and reschedules: `after_parking`).
This is C06's "after it is parked" for the pool-thread context; `wake_between_poll_and_park_is_remembered` is
"during the poll / while the queue is being parked". -/
theorem parked_queue_has_its_wake_up {s : State} (hr : ReachableNT s) {q : Nat} {v : JobQ} (hv : s.qs[q]? = some v)
    (hst : v.state = .waitingForWake) : ∃ j rest, v.jobs = j :: rest ∧ (Reg s q j ∨ Flight s q) := by
  obtain ⟨j, rest, h1, h2⟩ := (ntWake_reachable hr).wake.parked q (by rw [qSt_of hv, hst])
  rw [qjobs_of hv] at h1
  exact ⟨j, rest, Option.some.inj h1, h2⟩

/-- **A wake-up that fires between the poll and the parking decision is not lost.**  A pool thread that has polled the
operation at the head of queue `q` (which registered the queue's waker) and is about to decide whether to park
(`pdPending`: `drain`'s critical section after `requeue`) finds: the waker still registered, or the wake-up on its way, or the
queue `AwokenWhileRunning` — in which case `drain` polls again instead of parking (`during_the_poll`). -/
theorem wake_between_poll_and_park_is_remembered {s : State} (hr : ReachableNT s) {a p q : Nat} (hpc : s.pcAt a = .pdPending p q) :
    ∃ j rest, s.qjobs q = some (j :: rest) ∧ (Reg s q j ∨ Flight s q ∨ s.qSt q = some .awokenWhileRunning) :=
  (ntWake_reachable hr).wake.poll2 a q (by rw [hpc]; rfl)

/-- the same, one critical section earlier: the job has been polled and is about to be put back at the head of the queue -/
theorem wake_after_poll_is_remembered {s : State} (hr : ReachableNT s) {a p q j : Nat} (hpc : s.pcAt a = .pdRequeue p q j) :
    Reg s q j ∨ Flight s q ∨ s.qSt q = some .awokenWhileRunning :=
  (ntWake_reachable hr).wake.poll1 a q j (by rw [hpc]; rfl)

/-- the executions the theorems above quantify over never enter the task-context code -/
theorem no_task_context_without_polling {s : State} (hr : ReachableNT s) (b : Nat) : (s.pcAt b).noTask = true :=
  (ntWake_reachable hr).nt.pcs b

end Desync.C06
