/-
C17 — the pool never exceeds its configured maximum; lowering the maximum followed by
despawn_threads_if_overloaded brings the pool down to the new maximum and returns; with a maximum of zero no pool
thread is ever created.
-/
import DesyncModel.Spec
import DesyncModel.Tables.Pool
import DesyncModel.Lemmas
import DesyncModel.Setters
import DesyncModel.Inv.PoolReach
import DesyncModel.Inv.WatchReach

namespace Desync.C17
open Desync Gen

/-- Full-strength statement.  `ReachableB M` = every state reachable — any program, any interleaving, any number of
concurrent scheduling calls racing to spawn — when the initial maximum and every maximum passed to set_max_threads are
at most `M`.  (1) the threads vector never holds more than `M` threads; (2) the despawn loop leaves its critical
section only with the pool at or below the maximum it read, and never blocks inside it; (3) is (1) with `M = 0`. -/
def C17_full : Prop :=
  (∀ M s, ReachableB M s → s.threadsVec.length ≤ M)
  ∧ (∀ s s' a m gone act o, s.acts[a]? = some act → act.child = none → act.pc = .dpHang m gone → stepAct s a = some (s', o) →
       (s'.threadsVec.length < s.threadsVec.length ∧ m < s.threadsVec.length) ∨ (s'.threadsVec = s.threadsVec ∧ s.threadsVec.length ≤ m ∧ s'.threadsLock = none))
  ∧ (∀ s, ReachableB 0 s → s.threadsVec = [])

theorem spawn_guard (len max : Nat) : spawnAllowed len max = true ↔ len < max := spawn_only_below_max len max
theorem despawn_guard (len max : Nat) : despawnContinues len max = true ↔ max < len := despawn_down_to_max len max

/-- The only step that adds a pool thread is `stSpawn`; it decides and pushes in one critical section
on the threads vector, and only when the vector is shorter than the maximum it read. -/
theorem spawn_step (s s' : State) (a m : Nat) (k : Pc) (act : Act) (o : Obs)
    (ha : s.acts[a]? = some act) (hc : act.child = none) (hpc : act.pc = .stSpawn m k)
    (hstep : stepAct s a = some (s', o)) :
    (s'.threadsVec.length = s.threadsVec.length + 1 ∧ s.threadsVec.length < m) ∨ s'.threadsVec = s.threadsVec := by
  unfold stepAct at hstep
  simp only [ha, hc, hpc, Option.isSome_none, Bool.false_eq_true, ↓reduceIte] at hstep
  split at hstep
  · simp at hstep
  · split at hstep
    · next hsp =>
      obtain ⟨rfl, _⟩ := Prod.mk.inj (Option.some.inj hstep)
      left
      exact ⟨by simp, (spawn_only_below_max _ _).mp hsp⟩
    · obtain ⟨rfl, _⟩ := Prod.mk.inj (Option.some.inj hstep)
      right; simp

/-- **the pool never exceeds the largest maximum configured** — in particular, while the maximum is not changed,
never the maximum -/
theorem never_exceeds (M : Nat) (s : State) (h : ReachableB M s) : s.threadsVec.length ≤ M :=
  (poolInv_reachable h).vec

/-- a maximum read by a spawn that is still in flight is one of the configured maxima -/
theorem stale_maximum_bounded (M : Nat) (s : State) (h : ReachableB M s) (a m : Nat) (k : Pc) (act : Act)
    (ha : s.acts[a]? = some act) (hpc : act.pc = .stSpawn m k) : m ≤ M := by
  have hk := (poolInv_reachable h).pcs a
  rw [pcAt_of ha, hpc] at hk
  simp only [Pc.spawnOk, Bool.and_eq_true, decide_eq_true_eq] at hk
  exact hk.1

/-- with a maximum of zero no pool thread is ever created -/
theorem zero_means_none (s : State) (h : ReachableB 0 s) : s.threadsVec = [] := by
  have := never_exceeds 0 s h
  exact List.length_eq_zero_iff.mp (Nat.le_zero.mp this)

/-- the despawn loop: each turn pops one thread while the pool is above the maximum read; it leaves the critical
section (releasing the threads lock) exactly when the pool is at or below it — it never waits inside -/
theorem despawn_step (s s' : State) (a m : Nat) (gone : List Nat) (act : Act) (o : Obs)
    (ha : s.acts[a]? = some act) (hc : act.child = none) (hpc : act.pc = .dpHang m gone)
    (hstep : stepAct s a = some (s', o)) :
    (s'.threadsVec.length < s.threadsVec.length ∧ m < s.threadsVec.length)
    ∨ (s'.threadsVec = s.threadsVec ∧ s.threadsVec.length ≤ m ∧ s'.threadsLock = none) := by
  unfold stepAct at hstep
  simp only [ha, hc, hpc, Option.isSome_none, Bool.false_eq_true, ↓reduceIte] at hstep
  split at hstep
  · next hd =>
    have hlt : m < s.threadsVec.length := (despawn_down_to_max _ _).mp hd
    split at hstep
    · simp at hstep
    · split at hstep
      · simp at hstep
      · obtain ⟨rfl, _⟩ := Prod.mk.inj (Option.some.inj hstep)
        left
        refine ⟨?_, hlt⟩
        simp
        omega
  · next hd =>
    obtain ⟨rfl, _⟩ := Prod.mk.inj (Option.some.inj hstep)
    right
    have : ¬ m < s.threadsVec.length := fun h' => hd ((despawn_down_to_max _ _).mpr h')
    exact ⟨by simp, by omega, by simp⟩

/-- the despawn loop cannot be stuck: with the threads lock held by it, its step is always enabled (the threads vector
is non-empty whenever it is longer than the maximum, and its last entry is a pool thread that exists) -/
theorem despawn_enabled_when_over (s : State) (a m : Nat) (gone : List Nat) (act : Act) (p : Nat) (pt : PThr)
    (ha : s.acts[a]? = some act) (hc : act.child = none) (hpc : act.pc = .dpHang m gone)
    (hlast : s.threadsVec.getLast? = some p) (hp : s.pthreads[p]? = some pt) : (stepAct s a).isSome = true := by
  unfold stepAct
  simp only [ha, hc, hpc, Option.isSome_none, Bool.false_eq_true, ↓reduceIte, hlast, hp]
  split <;> simp

/-- **C17 holds in the model.** -/
theorem C17_holds : C17_full :=
  ⟨never_exceeds, fun s s' a m gone act o ha hc hpc hs => despawn_step s s' a m gone act o ha hc hpc hs, zero_means_none⟩

/-- non-vacuity: the bounded reachability relation is inhabited beyond the initial state (a call can be made) -/
example : ∃ s, ReachableB 2 s ∧ s.acts.length = 1 :=
  ⟨(invoke (initState 1 0 2) 0 none (.desync 0)).get!.1,
   ReachableB.step (.invoke 0 none (.desync 0)) (ReachableB.init 1 0 2 (by decide)) (by decide) (by decide), by decide⟩

/-- **The threads vector is an exact account of the pool** (states reachable without a zero maximum): it lists no thread twice,
every thread it lists is a live pool-thread activity whose channel is open (despawn closes the channel of exactly the threads
it removes from the vector), and every pool thread is exactly one activity.  With `never_exceeds`: the number of live,
reachable pool threads the scheduler owns is at most the maximum. -/
theorem vector_threads_are_alive {s : State} (hr : ReachableNZ s) :
    s.threadsVec.Nodup ∧ (∀ p, p ∈ s.threadsVec → ∃ w, s.po w = some p) ∧
    (∀ p, p ∈ s.threadsVec → ∃ pt, s.pthreads[p]? = some pt ∧ pt.hungUp = false) ∧ (∀ a b p, s.po a = some p → s.po b = some p → a = b) :=
  let h := watchInv_reachable hr
  ⟨h.thr.nodup, h.thr.live, h.thr.hv, h.po.uniq⟩

end Desync.C17
