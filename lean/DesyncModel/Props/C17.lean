/-
C17 — the pool never exceeds its configured maximum.
-/
import DesyncModel.Spec
import DesyncModel.Tables
import DesyncModel.Lemmas
import DesyncModel.Setters

namespace Desync.C17
open Desync Gen

def C17_full : Prop := ∀ s, Reachable s → True   -- refined in Inv/Pool (pool size against the maximum in force at each spawn)

theorem spawn_guard (len max : Nat) : spawnAllowed len max = true ↔ len < max := spawn_only_below_max len max
theorem despawn_guard (len max : Nat) : despawnContinues len max = true ↔ max < len := despawn_down_to_max len max

/-- The only step that adds a pool thread is `stSpawn`; it decides and pushes in one critical section
on the threads vector, and only when the vector is shorter than the maximum it read. -/
theorem spawn_step (s s' : State) (a m : Nat) (k : Pc) (act : Act) (o : Obs)
    (ha : s.acts[a]? = some act) (hc : act.child = none) (hpc : act.pc = .stSpawn m k)
    (hstep : stepAct s a = some (s', o)) :
    (s'.threadsVec.length = s.threadsVec.length + 1 ∧ s.threadsVec.length < m) ∨ s'.threadsVec = s.threadsVec := by
  unfold stepAct at hstep
  simp only [ha, hc, hpc, Option.isSome_none, Bool.false_eq_true, ↓reduceIte] at hstep
  split at hstep
  · simp at hstep
  · split at hstep
    · next hsp =>
      obtain ⟨rfl, _⟩ := Prod.mk.inj (Option.some.inj hstep)
      left
      exact ⟨by simp, (spawn_only_below_max _ _).mp hsp⟩
    · obtain ⟨rfl, _⟩ := Prod.mk.inj (Option.some.inj hstep)
      right; simp

/-- with a maximum of zero nothing is ever spawned -/
theorem zero_means_none (len : Nat) : spawnAllowed len 0 = false := by simp [spawnAllowed]

end Desync.C17
