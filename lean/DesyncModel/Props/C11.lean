/-
C11 — pipe_in processes every stream item once, in order, exclusively; it holds only a weak reference; it
stops, releasing stream and closure, once the stream ends or at the first stream event after the Desync is gone.

Model: `DesyncModel.Pipe.Model` with `through = false`.  The target Desync appears in it only as what C01–C03
establish for a queue: poll operations scheduled on it start one at a time (`job : Option _`); that each of them
runs inside the Desync's exclusive, ordered access is C01/C02 for `future_desync` jobs in the scheduler model.
-/
import DesyncModel.Pipe.Reach
import DesyncModel.FactPipe

namespace Desync.C11
open Desync Desync.Pipe

/-- Full-strength statement over the pipe model. -/
def C11_full : Prop :=
  ∀ s, Reachable s → s.through = false →
    -- once, in order: what has been processed, is being processed and is still waiting is exactly what was sent
    (s.processed ++ cur s ++ s.inq = s.sent)
    -- weak reference only
    ∧ s.strongHeld = false
    -- when the pipe can do nothing more by itself (and the target has not gone): everything sent has been processed,
    -- and if the input has ended the stream and the closure have been released
    ∧ (Stuck s → s.targetGone = false → s.processed = s.sent ∧ (s.inClosed = true → s.pollFn = false ∧ s.streamDropped = true ∧ s.fnDropped = true))
    -- after the first stream event that found the target gone, the stream and the closure are released
    ∧ (Stuck s → s.targetGone = true → s.pollFn = false ∧ s.streamDropped = true ∧ s.fnDropped = true)

/-- every item the input yields is processed exactly once, in stream order (also for `pipe`) -/
theorem once_in_order (s : PState) (h : Reachable s) : s.processed ++ cur s ++ s.inq = s.sent := by
  have hh := (pinv_reachable h).hist
  rw [hh.proc, hh.yld]

/-- the processing closure runs only inside the one running poll operation: one item at a time -/
theorem one_at_a_time (s s' : PState) (v : Nat) (hs : step s (.item v) = some s') : ∃ k, s.job = some (.process v, k) := by
  simp only [step] at hs
  split at hs
  · rename_i v' k heq
    split at hs
    · simp at hs
    · rename_i hne
      simp only [ne_eq, Decidable.not_not] at hne
      exact ⟨k, by rw [heq, hne]⟩
  · simp at hs

/-- at most one poll operation runs at a time, and a new one starts only when none is running -/
theorem poll_operations_exclusive (s s' : PState) (hs : step s .jobBegin = some s') : s.job = none := by
  simp only [step] at hs
  split at hs
  · simp at hs
  · assumption

/-- pipe_in never holds a strong reference to its target -/
theorem weak_only (s : PState) (h : Reachable s) (ht : s.through = false) : s.strongHeld = false :=
  ((pinv_reachable h).flag.pipeIn ht).2.2.2

theorem released_when_stuck (s : PState) (h : Reachable s) (hst : Stuck s) (hp : s.pollFn = false) :
    s.streamDropped = true ∧ s.fnDropped = true := by
  have inv := pinv_reachable h
  have sf := stuck_facts inv.idx hst
  have hh : s.jobHoldsFn = false := by rw [inv.flag.holdsFn]; simp [jobActive, sf.job]
  exact ⟨sf.streamD hp hh, sf.fnD hp hh⟩

/-- quiescence with the target still there: nothing sent is left unprocessed; an ended input has been let go of -/
theorem complete_when_stuck (s : PState) (h : Reachable s) (ht : s.through = false) (hst : Stuck s) (hg : s.targetGone = false) :
    s.processed = s.sent ∧ (s.inClosed = true → s.pollFn = false ∧ s.streamDropped = true ∧ s.fnDropped = true) := by
  have inv := pinv_reachable h
  have sf := stuck_facts inv.idx hst
  have hcur : cur s = [] := by simp [cur, sf.job]
  cases hp : s.pollFn with
  | false =>
    have d := inv.inp.done ht hg (Or.inl hp)
    exact ⟨d.2.2, fun _ => ⟨rfl, released_when_stuck s h hst hp⟩⟩
  | true =>
    have w := inv.wake.wake hp (Or.inl sf.job) (by intro h'; rw [ht] at h'; cases h')
    have : slotArmed s s.inWaker = true ∧ s.inq = [] ∧ s.inClosed = false := by
      rcases w with w | w | ⟨k, hk, _⟩ | ⟨h', _, _⟩ | w
      · rw [sf.scheduled] at w; cases w
      · rw [sf.polling] at w; cases w
      · rw [sf.wakes] at hk; cases hk
      · rw [ht] at h'; cases h'
      · exact w
    refine ⟨?_, fun hc => by rw [this.2.2] at hc; cases hc⟩
    have h1 := inv.hist.proc
    have h2 := inv.hist.yld
    rw [hcur, List.append_nil] at h1
    rw [this.2.1, List.append_nil] at h2
    rw [h1, h2]

/-- the first stream event after the Desync is gone takes the poll function out; stream and closure are released -/
theorem stops_when_target_gone (s : PState) (h : Reachable s) (hst : Stuck s) (hg : s.targetGone = true) :
    s.pollFn = false ∧ s.streamDropped = true ∧ s.fnDropped = true := by
  have hp := (pinv_reachable h).flag.gone hg
  exact ⟨hp, released_when_stuck s h hst hp⟩

/-- the pipe cannot run forever by itself: quiescence is reached within `measure s` steps -/
theorem reaches_quiescence (s s' : PState) (n : Nat) (h : InternalRun s n s') : n ≤ measure s := by
  have := internalRun_bounded h; omega

/-- **C11 holds in the pipe model.** -/
theorem C11_holds : C11_full := by
  intro s h ht
  exact ⟨once_in_order s h, weak_only s h ht, complete_when_stuck s h ht, stops_when_target_gone s h⟩

/-- non-vacuity: a reachable pipe_in state in which two items have been sent and the first has been processed -/
example : ∃ s, Reachable s ∧ s.through = false ∧ s.processed = [7] ∧ s.sent = [7, 8] :=
  ⟨(runLabels (initP false 5) [.send 7, .send 8, .jobBegin, .yield 7, .item 7]).get (by decide),
   reachable_get _ _ _ (Reachable.init false 5), by decide, by decide, by decide⟩

/-- non-vacuity of the quiescence theorems: the pipe has processed both items, its input is still open, and it is stuck -/
example : ∃ s, Reachable s ∧ s.through = false ∧ s.processed = [7, 8] ∧ s.job = none ∧ s.scheduled = 0 ∧ s.inWaker = some 0 :=
  ⟨(runLabels (initP false 5) [.send 7, .send 8, .jobBegin, .yield 7, .item 7, .yield 8, .item 8, .inPending]).get (by decide),
   reachable_get _ _ _ (Reachable.init false 5), by decide, by decide, by decide, by decide, by decide⟩

end Desync.C11
