/-
C03 — no operation is lost, duplicated or left stranded.
-/
import DesyncModel.Spec
import DesyncModel.Tables.FutureDrop
import DesyncModel.Tables.Push
import DesyncModel.Tables.Pool
import DesyncModel.Inv.JobReach
import DesyncModel.Inv.RunReach
import DesyncModel.Inv.OwnedReach
import DesyncModel.Inv.JobMono
import DesyncModel.Inv.WatchReach
import DesyncModel.Inv.PendReach
import DesyncModel.FactHandBack

namespace Desync.C03
open Desync Gen

/-- Full-strength statement: whenever the model has gone quiet (no internal step enabled), with a
pool of at least one thread allowed, all gates open and no call in progress, every queue is idle and
empty and every accepted job is done. -/
def C03_full : Prop :=
  ∀ s, Reachable s → Quiescent s → 1 ≤ s.maxThreads → AllGatesOpen s → NoCallInProgress s → AllDone s

/-- Scheduling on an idle queue marks it pending and puts it on the schedule (followed by
`schedule_thread`); in every other state somebody already owns or will reschedule the queue. -/
theorem first_job_schedules (st : QState) :
    ((desyncPush st).2 = .schedule ↔ st = .idle) ∧ (st = .idle → (desyncPush st).1 = .pending) := by
  exact ⟨(desyncPush_spec st).1, (desyncPush_spec st).2.1⟩

/-- Handing a queue back: idle and non-empty → pending and scheduled; idle and empty stays idle. -/
theorem hand_back (e : Bool) :
    reschedule .idle false = (.pending, true) ∧ reschedule .idle true = (.idle, false) :=
  ⟨((reschedule_spec .idle false).1 ⟨rfl, rfl⟩), ((reschedule_spec .idle true).2.1 ⟨rfl, rfl⟩)⟩

/-- A pool thread leaves a queue only when it is empty (then idle) or parked on a suspended job. -/
theorem drain_exit (st : QState) (e : Bool) (h : isRunning st = true) :
    (e = true → drainExit st e = (.idle, true)) ∧ (e = false → drainExit st e = (st, false)) :=
  ⟨fun he => (drainExit_spec st e).1 ⟨h, he⟩, fun he => (drainExit_spec st e).2 ⟨h, he⟩⟩

/-- A pending entry of the schedule is always taken by the pool thread that pops it. -/
theorem pending_is_taken : nextToRun .pending = (.running, true) := rfl

/-- The dormant scan cannot mistake a thread that is about to go dormant for a busy one. -/
theorem scan_sees_dormant : dormantScanBlocks = true := dormant_scan_blocks

/-- **No accepted operation is lost or duplicated (safety half of C03), in every reachable state**: an accepted job is in
exactly one place.  A job marked `queued` is in the list of its own queue, exactly once, and in no other queue's list;
a job marked `held a` is in the hands of exactly the activity `a`, whose program counter says so and which owns the run
right of the job's queue; a job marked `done` has ended (run to completion or destroyed).  The `stranded` half (a queued
job is eventually run) is `C03_full`, which is a quiescence statement and is decided by conformance + oracles. -/
theorem accepted_job_is_in_one_place {s : State} (hr : Reachable s) {j : Nat} {b : Job} (hb : s.jobs[j]? = some b) :
    (b.ph = .queued → ∃ v, s.qs[b.q]? = some v ∧ j ∈ v.jobs ∧ v.jobs.Nodup ∧
        ∀ q' v', s.qs[q']? = some v' → j ∈ v'.jobs → q' = b.q) ∧
    (∀ a, b.ph = .held a → (s.pcAt a).runningQ = some (j, b.q) ∧ (s.pcAt a).holds b.q = true ∧
        ∀ a', (s.pcAt a').runningQ = some (j, b.q) → a' = a) ∧
    (b.ph = .done → b.ended = true) := by
  obtain ⟨_, hf⟩ := fullInv_reachable hr
  have hpq := jobPQ_of hb
  refine ⟨?_, ?_, ?_⟩
  · intro hq
    rw [hq] at hpq
    obtain ⟨l, hl, hmem⟩ := hf.job.member j b.q hpq
    have : ∃ v, s.qs[b.q]? = some v ∧ v.jobs = l := by
      unfold State.qjobs at hl
      cases hv : s.qs[b.q]? with
      | none => simp [hv] at hl
      | some v => exact ⟨v, rfl, by simpa [hv] using hl⟩
    obtain ⟨v, hv, rfl⟩ := this
    refine ⟨v, hv, hmem, hf.job.nodup b.q v.jobs hl, ?_⟩
    intro q' v' hv' hm'
    have := hf.job.queued q' v'.jobs j (qjobs_of hv') hm'
    rw [hpq] at this
    simp at this
    exact this.symm
  · intro a ha
    rw [ha] at hpq
    have hrun := hf.job.run2 a j b.q hpq
    refine ⟨hrun, (held_job_owner_holds hr hb ha).1, ?_⟩
    intro a' hr'
    have := hf.job.run1 a' j b.q hr'
    rw [hpq] at this
    simp at this
    exact this.symm
  · intro hd
    rw [hd] at hpq
    have := hf.ord.doneEnded j b.q hpq
    rw [jobE_of hb] at this
    exact this

/-- job ids are never reused: every job in the table, queued or not, has an id below the allocation counter, and the
list of a queue is strictly increasing (the order of acceptance) -/
theorem queue_lists_in_acceptance_order {s : State} (hr : Reachable s) {q : Nat} {v : JobQ} (hv : s.qs[q]? = some v) :
    v.jobs.Pairwise (· < ·) :=
  (fullInv_reachable hr).2.ord.sorted q v.jobs (qjobs_of hv)

/-- **No operation is run twice (the "duplicated" half of C03), in every reachable state**: the step that invokes the closure of
an operation (a `desync` / `sync` / `after` closure, or the closure `Desync::drop` queues) finds that it has not been invoked
before; and a job whose closure has been invoked is in no queue, so no runner can pick it up again.  (`RunInv`, inductive
over all program counters: Inv/Run, RunStep, RunReach.  Future operations — `future_desync`, `future_sync` — are polled
repeatedly by design; their single completion is `C07.result_signalled_at_most_once`.) -/
theorem closure_runs_at_most_once {s : State} (hr : Reachable s) {a j : Nat} {c : Ctx} {k : Pc} {jb : Job}
    (hpc : s.pcAt a = .jobStart j c k ∨ s.pcAt a = .jobAwait j c k) (hj : s.jobs[j]? = some jb) (hk : jb.kind.hasBody = true) :
    jb.begun = false :=
  closure_invoked_at_most_once hr hpc hj hk

theorem started_closure_job_is_never_requeued {s : State} (hr : Reachable s) {q j : Nat} {v : JobQ} {jb : Job}
    (hv : s.qs[q]? = some v) (hm : j ∈ v.jobs) (hj : s.jobs[j]? = some jb) (hk : jb.kind.hasBody = true) : jb.begun = false :=
  ran_job_not_queued hr hv hm hj hk

/-- **No queue is left marked as running once everybody has gone** (a piece of the "never stranded" half): in a reachable state
in which no activity is inside the code that runs a queue, no queue is `running`, `awokenWhileRunning` or
`waitingForUnpark` — states in which nobody else would ever touch it. -/
theorem no_queue_left_running {s : State} (hr : Reachable s) (hidle : ∀ a q, (s.pcAt a).holds q = false)
    {q : Nat} {v : JobQ} (hv : s.qs[q]? = some v) : v.state.held = false :=
  no_orphaned_running_queue hr hidle hv

/-- **No accepted operation is ever forgotten or changed** (two-state form, for every internal step of every activity): the step
keeps every job of the table, with the same kind (the same closure / future) and the same queue, and never resets `begun` or
`ended`.  Together with `accepted_job_is_in_one_place`: an accepted operation stays accounted for — queued, in a runner's hands,
or finished — forever. -/
theorem job_table_only_grows {s s' : State} {a : Nat} {o : Obs} (hs : stepAct s a = some (s', o)) : JobMono s s' :=
  jobMono_stepAct hs


/-! ### the schedule is never left unwatched (the pool half of "runs without any further API call being needed") -/

/-- **I_watch.**  In every state reachable without a maximum of zero being configured: if a queue is on the schedule then
some pool thread is busy and has not yet decided to go to sleep (it will look at the schedule again before it does), or a
`schedule_thread` call is under way that has found every thread it passed in that condition (and will spawn a thread or hand
the work to an idle one).  This is the invariant the defect F2 (a held busy flag treated as "busy") violated: the proof
uses the generated fact `dormantScanBlocks` (the scan waits for a held flag), so reverting that repair breaks it. -/
theorem scheduled_queue_is_watched {s : State} (hr : ReachableNZ s) (hne : s.schedule ≠ []) :
    (∃ p, Watching s p) ∨ (∃ a, GoodSt s a) :=
  (watchInv_reachable hr).sched hne

/-- a watching thread that is waiting for a message has one in its mailbox: it is not asleep for good -/
theorem watching_thread_is_not_asleep {s : State} (hr : ReachableNZ s) {p w : Nat} {pt : PThr} (hp : s.pthreads[p]? = some pt) (hb : pt.busy = true)
    (hw : s.po w = some p) (hrest : (s.cl w).rest = true) : 0 < pt.mailbox :=
  (watchInv_reachable hr).thr.restOk w p pt hw hp hb hrest

/-- **Quiet pool, empty schedule.**  When no `schedule_thread` call, no pool resizing and no pool-thread work is in
progress — every activity is outside the pool code or is a pool thread waiting for a message — and no message is in flight,
nothing is left on the schedule. -/
theorem quiet_pool_has_empty_schedule {s : State} (hr : ReachableNZ s)
    (hq : ∀ a, s.cl a = .neutral ∨ (s.cl a).rest = true) (hm : ∀ (p : Nat) (pt : PThr), s.pthreads[p]? = some pt → pt.mailbox = 0) : s.schedule = [] := by
  have hinv := watchInv_reachable hr
  cases hs : s.schedule with
  | nil => rfl
  | cons q rest =>
    exfalso
    rcases hinv.sched (by rw [hs]; simp) with ⟨p, pt, w, h1, h2, h3, h4⟩ | ⟨a, hg⟩
    · rcases hq w with h5 | h5
      · rcases poolOf_cls _ p h3 with ⟨ph, h6⟩ | ⟨ph, h6⟩
        · simp only [State.cl] at h5; rw [h5] at h6; cases h6
        · simp only [State.cl] at h5; rw [h5] at h6; cases h6
      · have := hinv.thr.restOk w p pt h3 h1 h2 h5
        rw [hm p pt h1] at this; omega
    · rcases hq a with h5 | h5
      · exact good_ne_neutral hg h5
      · unfold GoodSt at hg
        split at hg <;> simp_all [PCls.rest]

/-- the premises of `quiet_pool_has_empty_schedule` and `scheduled_queue_is_watched` are satisfiable: a pool of one thread
that has been handed a queue -/
def watchedExample : State :=
  let s0 := initState 1 0 1
  { s0 with
    schedule := [0]
    pthreads := [{ busy := true, busyLock := none, mailbox := 1, hungUp := false, exited := false }]
    threadsVec := [0]
    acts := [{ thread := 1000, pc := .ptRecv 0, parent := none, child := none, woken := false, result := none, mode := .await, once := false }] }

example : watchedExample.schedule ≠ [] ∧ (∃ p, Watching watchedExample p) := by
  refine ⟨by simp [watchedExample], 0, { busy := true, busyLock := none, mailbox := 1, hungUp := false, exited := false }, 0, rfl, rfl, ?_, ?_⟩
  · simp [State.po, State.pcAt, Pc.poolOf, watchedExample]
  · simp [State.cl, State.pcAt, Pc.cls, PCls.gave, watchedExample]

/-- each pool thread is one activity, the threads of the vector are alive and have an open channel, and the vector lists
no thread twice -/
theorem pool_threads_are_accounted_for {s : State} (hr : ReachableNZ s) :
    (∀ a b p, s.po a = some p → s.po b = some p → a = b) ∧ (∀ p, p ∈ s.threadsVec → ∃ w, s.po w = some p) ∧
    (∀ p, p ∈ s.threadsVec → ∃ pt, s.pthreads[p]? = some pt ∧ pt.hungUp = false) ∧ s.threadsVec.Nodup :=
  let h := watchInv_reachable hr
  ⟨h.po.uniq, h.thr.live, h.thr.hv, h.thr.nodup⟩

/-- the busy flag of a pool thread and the lock of the threads vector are held by the activity whose program counter says so -/
theorem pool_locks_have_their_holders {s : State} (hr : ReachableNZ s) :
    (∀ b, (s.cl b).tlHeld = true → s.threadsLock = some b) ∧ (∀ b p, holdsBusy s b p → s.bl p = some b) :=
  let h := watchInv_reachable hr
  ⟨h.tl, h.bl.own⟩


/-! ### a pending queue is on the schedule; a quiet system has nothing pending and nothing marked as running -/

/-- **I_pending.**  A queue in the `Pending` state is on the schedule, or in the hands of a call that is about to put it
there (`schedule_job_desync` / `reschedule_queue` between marking it pending and pushing it). -/
theorem pending_queue_is_scheduled {s : State} (hr : Reachable s) {q : Nat} {v : JobQ} (hv : s.qs[q]? = some v) (hp : v.state = .pending) :
    q ∈ s.schedule ∨ ∃ a, (s.pcAt a).pushes q = true :=
  (pendInv_reachable hr).pend q (by rw [qSt_of hv, hp])

/-- every call has returned and every pool thread is waiting for a message, with no message in flight -/
def AllQuiet (s : State) : Prop :=
  (∀ a, s.pcAt a = .ret ∨ s.pcAt a = .dead ∨ ∃ p, s.pcAt a = .ptRecv p ∨ s.pcAt a = .ptRecvd p) ∧
  (∀ (p : Nat) (pt : PThr), s.pthreads[p]? = some pt → pt.mailbox = 0)

/-- **Whenever all threads have gone quiet, nothing remains scheduled, pending or marked as running** (C03, last sentence;
the bookkeeping half: the queue states that remain are `Idle`, a queue parked on an external event that has not happened,
a queue waiting for a future nobody polls, and `Panicked`). -/
theorem quiet_means_nothing_pending_or_running {s : State} (hr : ReachableNZ s) (hq : AllQuiet s) :
    s.schedule = [] ∧ ∀ (q : Nat) (v : JobQ), s.qs[q]? = some v → v.state ≠ .pending ∧ v.state.held = false := by
  have hcl : ∀ a, s.cl a = .neutral ∨ (s.cl a).rest = true := by
    intro a
    rcases hq.1 a with h | h | ⟨p, h | h⟩ <;> simp [State.cl, h, Pc.cls, PCls.rest]
  have hsch := quiet_pool_has_empty_schedule hr hcl hq.2
  refine ⟨hsch, ?_⟩
  intro q v hv
  constructor
  · intro hp
    rcases pending_queue_is_scheduled hr.reachable hv hp with h1 | ⟨a, h1⟩
    · rw [hsch] at h1; cases h1
    · rcases hq.1 a with h | h | ⟨p, h | h⟩ <;> (rw [h] at h1; simp [Pc.pushes] at h1)
  · refine no_orphaned_running_queue hr.reachable ?_ hv
    intro a q'
    rcases hq.1 a with h | h | ⟨p, h | h⟩ <;> simp [h, Pc.holds]

/-- the premises are satisfiable: the initial state is reachable and quiet -/
example : ReachableNZ (initState 2 1 3) ∧ AllQuiet (initState 2 1 3) :=
  ⟨ReachableNZ.init 2 1 3 (by decide), fun a => Or.inr (Or.inl (by simp [State.pcAt, initState])), fun p pt h => by simp [initState] at h⟩

/-- the runners' hand-backs are unconditional in the source, as the model's `siIdle` / `sdIdle` / `sbStealIdle` / `dqIdle` steps are
(regenerated fact): a queue is never left in a "somebody is running it" state because its runner found it changed -/
theorem runners_hand_back_unconditionally : stateConditionalHandBacks = [] := hand_backs_are_unconditional

end Desync.C03
