/-
C03 — no operation is lost, duplicated or left stranded.
-/
import DesyncModel.Spec
import DesyncModel.Tables.FutureDrop
import DesyncModel.Tables.Push
import DesyncModel.Tables.Pool

namespace Desync.C03
open Desync Gen

/-- Full-strength statement: whenever the model has gone quiet (no internal step enabled), with a
pool of at least one thread allowed, all gates open and no call in progress, every queue is idle and
empty and every accepted job is done. -/
def C03_full : Prop :=
  ∀ s, Reachable s → Quiescent s → 1 ≤ s.maxThreads → AllGatesOpen s → NoCallInProgress s → AllDone s

/-- Scheduling on an idle queue marks it pending and puts it on the schedule (followed by
`schedule_thread`); in every other state somebody already owns or will reschedule the queue. -/
theorem first_job_schedules (st : QState) :
    ((desyncPush st).2 = .schedule ↔ st = .idle) ∧ (st = .idle → (desyncPush st).1 = .pending) := by
  exact ⟨(desyncPush_spec st).1, (desyncPush_spec st).2.1⟩

/-- Handing a queue back: idle and non-empty → pending and scheduled; idle and empty stays idle. -/
theorem hand_back (e : Bool) :
    reschedule .idle false = (.pending, true) ∧ reschedule .idle true = (.idle, false) :=
  ⟨((reschedule_spec .idle false).1 ⟨rfl, rfl⟩), ((reschedule_spec .idle true).2.1 ⟨rfl, rfl⟩)⟩

/-- A pool thread leaves a queue only when it is empty (then idle) or parked on a suspended job. -/
theorem drain_exit (st : QState) (e : Bool) (h : isRunning st = true) :
    (e = true → drainExit st e = (.idle, true)) ∧ (e = false → drainExit st e = (st, false)) :=
  ⟨fun he => (drainExit_spec st e).1 ⟨h, he⟩, fun he => (drainExit_spec st e).2 ⟨h, he⟩⟩

/-- A pending entry of the schedule is always taken by the pool thread that pops it. -/
theorem pending_is_taken : nextToRun .pending = (.running, true) := rfl

/-- The dormant scan cannot mistake a thread that is about to go dormant for a busy one. -/
theorem scan_sees_dormant : dormantScanBlocks = true := dormant_scan_blocks

end Desync.C03
