/-
C10 — different Desync objects make progress independently.
-/
import DesyncModel.Spec
import DesyncModel.Tables.Pool
import DesyncModel.Inv.WatchReach

namespace Desync.C10
open Desync Gen

/-- Full-strength statement: at quiescence, if fewer pool threads are blocked than the maximum allows,
every job whose queue is not behind a closed gate is done. (Stated; the quiescence proof is in progress.) -/
def C10_full : Prop :=
  ∀ s, Reachable s → Quiescent s → 1 ≤ s.maxThreads → AllGatesOpen s → NoCallInProgress s → AllDone s

/-- a queue is handed to a dormant thread or a new thread is spawned while below the maximum -/
theorem spawn_below_max (len max : Nat) (h : len < max) : spawnAllowed len max = true :=
  (spawn_only_below_max len max).mpr h

/-- a pool thread keeps pulling: each popped entry is either taken or dropped unchanged, never lost in a third way -/
theorem pop_takes_or_skips (st : QState) :
    ((nextToRun st).2 = true ∧ (nextToRun st).1 = .running) ∨ ((nextToRun st).2 = false ∧ (nextToRun st).1 = st) := by
  cases st <;> simp [nextToRun]

theorem scan_waits_for_busy_flag : dormantScanBlocks = true := dormant_scan_blocks

/-- **No lost pool wake-up.**  Work for another object that reaches the schedule while pool threads are blocked in jobs is
never left with nobody to serve it: a busy thread that will look at the schedule again, or a `schedule_thread` call that
will find an idle thread or spawn one (it gives up only with the vector at the maximum it read: `gives_up_only_at_max`). -/
theorem no_lost_pool_wakeup {s : State} (hr : ReachableNZ s) (hne : s.schedule ≠ []) : (∃ p, Watching s p) ∨ (∃ a, GoodSt s a) :=
  (watchInv_reachable hr).sched hne

/-- `schedule_thread` gives up without spawning only when the vector holds at least as many threads as the maximum it read -/
theorem gives_up_only_at_max (len m : Nat) (h : spawnAllowed len m = false) : m ≤ len := by
  have h1 : ¬ len < m := fun hlt => by rw [(spawn_only_below_max len m).mpr hlt] at h; cases h
  omega

end Desync.C10
