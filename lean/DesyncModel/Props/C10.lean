/-
C10 — different Desync objects make progress independently.
-/
import DesyncModel.Spec
import DesyncModel.Tables.Pool

namespace Desync.C10
open Desync Gen

/-- Full-strength statement: at quiescence, if fewer pool threads are blocked than the maximum allows,
every job whose queue is not behind a closed gate is done. (Stated; the quiescence proof is in progress.) -/
def C10_full : Prop :=
  ∀ s, Reachable s → Quiescent s → 1 ≤ s.maxThreads → AllGatesOpen s → NoCallInProgress s → AllDone s

/-- a queue is handed to a dormant thread or a new thread is spawned while below the maximum -/
theorem spawn_below_max (len max : Nat) (h : len < max) : spawnAllowed len max = true :=
  (spawn_only_below_max len max).mpr h

/-- a pool thread keeps pulling: each popped entry is either taken or dropped unchanged, never lost in a third way -/
theorem pop_takes_or_skips (st : QState) :
    ((nextToRun st).2 = true ∧ (nextToRun st).1 = .running) ∨ ((nextToRun st).2 = false ∧ (nextToRun st).1 = st) := by
  cases st <;> simp [nextToRun]

theorem scan_waits_for_busy_flag : dormantScanBlocks = true := dormant_scan_blocks

end Desync.C10
