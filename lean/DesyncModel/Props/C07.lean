/-
C07 — future_desync/after futures deliver their operation's result exactly once.
-/
import DesyncModel.Spec
import DesyncModel.Tables.FutureDrop
import DesyncModel.Tables.Claim
import DesyncModel.Lemmas
import DesyncModel.Setters

namespace Desync.C07
open Desync Gen

/-- Full-strength statement of the liveness half: at quiescence, with all gates open and a pool
thread allowed, no task is still waiting on a SchedulerFuture. -/
def awaiter_woken_full : Prop :=
  ∀ s, Reachable s → Quiescent s → AllGatesOpen s → 1 ≤ s.maxThreads →
    ∀ (a : Nat) (v : Act) (f : Nat), s.acts[a]? = some v → v.pc ≠ .pfBlocked f

/-- A polling task either takes the queue over (and drains it itself) or stores its waker in the same
critical section as the state test; it never waits without a stored waker. -/
theorem poll_waits_with_waker (self : Nat) (st : QState) (h : (pollDecide self st).2.1 = .wait) :
    (pollDecide self st).2.2 = true ∧ (pollDecide self st).1 = st :=
  ⟨((pollDecide_spec self st).2 h).2.1, ((pollDecide_spec self st).2 h).1⟩

/-- a sibling future's `waitingForPoll` is never taken over by another future's poll -/
theorem sibling_not_stolen (self f : Nat) (h : f ≠ self) : pollDecide self (.waitingForPoll f) = (.waitingForPoll f, .wait, true) :=
  pollDecide_other_waits self f h

/-- The signal step stores the result and takes the waker in one critical section: the result slot
goes none → ok exactly once, and the waker that was stored is the one fired. -/
theorem signal_step (s s' : State) (a j r : Nat) (c : Ctx) (k : Pc) (act : Act) (o : Obs) (jb : Job) (fu : Fut)
    (ha : s.acts[a]? = some act) (hc : act.child = none) (hpc : act.pc = .jobSignal j c k)
    (hj : s.jobs[j]? = some jb) (hr : jb.kind.res = some r) (hf : s.futs[r]? = some fu)
    (hstep : stepAct s a = some (s', o)) :
    ∃ fu', s'.futs[r]? = some fu' ∧ fu'.res = .ok ∧ fu'.waker = none ∧ o = .csR r := by
  unfold stepAct at hstep
  simp only [ha, hc, hpc, hj, hr, hf, Option.isSome_none, Bool.false_eq_true, ↓reduceIte] at hstep
  have hlt : r < s.futs.length := lt_of_getElem?_some hf
  split at hstep <;>
  · obtain ⟨rfl, rfl⟩ := Prod.mk.inj (Option.some.inj hstep)
    exact ⟨{ fu with res := .ok, waker := none }, by simp [State.setFut, hlt], rfl, rfl, rfl⟩

/-- taking the result marks the slot `returned`: a second take cannot yield the value again -/
theorem take_once (s s' : State) (a f : Nat) (act : Act) (o : Obs) (fu : Fut)
    (ha : s.acts[a]? = some act) (hc : act.child = none) (hpc : act.pc = .pfPoll f)
    (hf : s.futs[f]? = some fu) (hres : fu.res = .ok)
    (hstep : stepAct s a = some (s', o)) :
    ∃ fu', s'.futs[f]? = some fu' ∧ fu'.res = .returned := by
  unfold stepAct at hstep
  simp only [ha, hc, hpc, hf, hres, Option.isSome_none, Bool.false_eq_true, ↓reduceIte, beq_self_eq_true, Bool.true_or] at hstep
  have hlt : f < s.futs.length := lt_of_getElem?_some hf
  obtain ⟨rfl, _⟩ := Prod.mk.inj (Option.some.inj hstep)
  exact ⟨{ fu with res := .returned }, by simp [State.setFut, State.setAct, hlt], rfl⟩

end Desync.C07
