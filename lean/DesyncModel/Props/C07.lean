/-
C07 — future_desync/after futures deliver their operation's result exactly once.
-/
import DesyncModel.Spec
import DesyncModel.Tables.FutureDrop
import DesyncModel.Tables.Claim
import DesyncModel.Lemmas
import DesyncModel.Setters
import DesyncModel.Inv.Holder
import DesyncModel.Inv.SigReach
import DesyncModel.Inv.DrainReach
import DesyncModel.Inv.ResReach
import DesyncModel.Inv.TaskWaker
import DesyncModel.Inv.FutMono
import DesyncModel.Inv.KindReach

namespace Desync.C07
open Desync Gen

/-- Full-strength statement of the liveness half: at quiescence, with all gates open and a pool
thread allowed, no task is still waiting on a SchedulerFuture. -/
def awaiter_woken_full : Prop :=
  ∀ s, Reachable s → Quiescent s → AllGatesOpen s → 1 ≤ s.maxThreads →
    ∀ (a : Nat) (v : Act) (f : Nat), s.acts[a]? = some v → v.pc ≠ .pfBlocked f

/-- A polling task either takes the queue over (and drains it itself) or stores its waker in the same
critical section as the state test; it never waits without a stored waker. -/
theorem poll_waits_with_waker (self : Nat) (st : QState) (h : (pollDecide self st).2.1 = .wait) :
    (pollDecide self st).2.2 = true ∧ (pollDecide self st).1 = st :=
  ⟨((pollDecide_spec self st).2 h).2.1, ((pollDecide_spec self st).2 h).1⟩

/-- a sibling future's `waitingForPoll` is never taken over by another future's poll -/
theorem sibling_not_stolen (self f : Nat) (h : f ≠ self) : pollDecide self (.waitingForPoll f) = (.waitingForPoll f, .wait, true) :=
  pollDecide_other_waits self f h

/-- The signal step stores the result and takes the waker in one critical section: the result slot
goes none → ok exactly once, and the waker that was stored is the one fired. -/
theorem signal_step (s s' : State) (a j r : Nat) (c : Ctx) (k : Pc) (act : Act) (o : Obs) (jb : Job) (fu : Fut)
    (ha : s.acts[a]? = some act) (hc : act.child = none) (hpc : act.pc = .jobSignal j c k)
    (hj : s.jobs[j]? = some jb) (hr : jb.kind.res = some r) (hf : s.futs[r]? = some fu)
    (hstep : stepAct s a = some (s', o)) :
    ∃ fu', s'.futs[r]? = some fu' ∧ fu'.res = .ok ∧ fu'.waker = none ∧ o = .csR r := by
  unfold stepAct at hstep
  simp only [ha, hc, hpc, hj, hr, hf, Option.isSome_none, Bool.false_eq_true, ↓reduceIte] at hstep
  have hlt : r < s.futs.length := lt_of_getElem?_some hf
  split at hstep <;>
  · obtain ⟨rfl, rfl⟩ := Prod.mk.inj (Option.some.inj hstep)
    exact ⟨{ fu with res := .ok, waker := none }, by simp [State.setFut, hlt], rfl, rfl, rfl⟩

/-- taking the result marks the slot `returned`: a second take cannot yield the value again -/
theorem take_once (s s' : State) (a f : Nat) (act : Act) (o : Obs) (fu : Fut)
    (ha : s.acts[a]? = some act) (hc : act.child = none) (hpc : act.pc = .pfPoll f)
    (hf : s.futs[f]? = some fu) (hres : fu.res = .ok)
    (hstep : stepAct s a = some (s', o)) :
    ∃ fu', s'.futs[f]? = some fu' ∧ fu'.res = .returned := by
  unfold stepAct at hstep
  simp only [ha, hc, hpc, hf, hres, Option.isSome_none, Bool.false_eq_true, ↓reduceIte, beq_self_eq_true, Bool.true_or] at hstep
  have hlt : f < s.futs.length := lt_of_getElem?_some hf
  obtain ⟨rfl, _⟩ := Prod.mk.inj (Option.some.inj hstep)
  exact ⟨{ fu with res := .returned }, by simp [State.setFut, State.setAct, hlt], rfl⟩

/-- **A dropped poller hands its queue back** (defect F6, repaired by `fix:` e21933a): when a SchedulerFuture whose
`draining` flag is set is dropped while its queue is waiting to be polled by exactly this future, the queue becomes `idle`
in that critical section and the dropping thread goes on to reschedule it (`rqCs`) before it continues — so the
operation, and everything queued behind it, runs in the background. -/
theorem dropped_poller_hands_back (s s' : State) (a f : Nat) (k : Pc) (act : Act) (o : Obs) (fu : Fut) (v : JobQ)
    (ha : s.acts[a]? = some act) (hc : act.child = none) (hpc : act.pc = .fdDrop f k)
    (hf : s.futs[f]? = some fu) (hq : s.qs[fu.q]? = some v) (hd : fu.draining = true) (hst : v.state = .waitingForPoll f)
    (hstep : stepAct s a = some (s', o)) :
    s'.qs[fu.q]? = some { v with state := .idle } ∧ s'.acts[a]? = some { act with pc := .rqCs fu.q k } ∧ o = .csQ fu.q := by
  unfold stepAct at hstep
  simp only [ha, hc, hpc, hf, hq, hd, Option.isSome_none, Bool.false_eq_true, ↓reduceIte] at hstep
  have hr : (futureDropDecide f v.state).2 = true := (futureDrop_spec f v.state).1.mpr hst
  have hi : (futureDropDecide f v.state).1 = .idle := (futureDrop_spec f v.state).2.1 hr
  simp only [hr, hi, ↓reduceIte] at hstep
  obtain ⟨rfl, rfl⟩ := Prod.mk.inj (Option.some.inj hstep)
  have hlt : fu.q < s.qs.length := lt_of_getElem?_some hq
  refine ⟨by simp [hlt], ?_, rfl⟩
  exact acts_goto_self _ (by simpa using ha)

/-- in any other state of the queue, or when the future never drained it, the drop changes nothing (it may take the
queue lock with a stale `draining` flag, but the state and the job list stay as they are) -/
theorem drop_elsewhere_is_inert (s s' : State) (a f : Nat) (k : Pc) (act : Act) (o : Obs) (fu : Fut) (v : JobQ)
    (ha : s.acts[a]? = some act) (hc : act.child = none) (hpc : act.pc = .fdDrop f k)
    (hf : s.futs[f]? = some fu) (hq : s.qs[fu.q]? = some v) (hst : fu.draining = false ∨ v.state ≠ .waitingForPoll f)
    (hstep : stepAct s a = some (s', o)) :
    s'.qs = s.qs ∧ s'.jobs = s.jobs ∧ s'.acts[a]? = some { act with pc := k } := by
  unfold stepAct at hstep
  simp only [ha, hc, hpc, hf, hq, Option.isSome_none, Bool.false_eq_true, ↓reduceIte] at hstep
  have hk : (s.goto a k).acts[a]? = some { act with pc := k } := acts_goto_self _ ha
  by_cases hd : fu.draining = true
  · have hne : v.state ≠ .waitingForPoll f := by
      rcases hst with h | h
      · simp [hd] at h
      · exact h
    have hr : (futureDropDecide f v.state).2 = false := by
      cases h : (futureDropDecide f v.state).2 with
      | false => rfl
      | true => exact absurd ((futureDrop_spec f v.state).1.mp h) hne
    simp only [hd, hr, ↓reduceIte, Bool.false_eq_true] at hstep
    obtain ⟨rfl, _⟩ := Prod.mk.inj (Option.some.inj hstep)
    exact ⟨by simp, by simp, hk⟩
  · simp only [hd, ↓reduceIte, Bool.false_eq_true] at hstep
    obtain ⟨rfl, _⟩ := Prod.mk.inj (Option.some.inj hstep)
    exact ⟨by simp, by simp, hk⟩

/-- the flag is raised in the critical section before the queue is marked `waitingForPoll` for this future -/
theorem wfp_preceded_by_draining (s s' : State) (a f l q : Nat) (act : Act) (o : Obs) (fu : Fut)
    (ha : s.acts[a]? = some act) (hc : act.child = none) (hpc : act.pc = .dqStore f l q)
    (hf : s.futs[f]? = some fu) (hstep : stepAct s a = some (s', o)) :
    ∃ fu', s'.futs[f]? = some fu' ∧ fu'.draining = true ∧ fu'.q = fu.q ∧ (s'.pcAt a) = .dqSetWfp f l q := by
  unfold stepAct at hstep
  simp only [ha, hc, hpc, hf, Option.isSome_none, Bool.false_eq_true, ↓reduceIte] at hstep
  obtain ⟨rfl, _⟩ := Prod.mk.inj (Option.some.inj hstep)
  have hlt : f < s.futs.length := lt_of_getElem?_some hf
  refine ⟨{ fu with waker := some (.task act.thread), draining := true }, by simp [State.setFut, hlt], rfl, rfl, ?_⟩
  have : a < s.acts.length := lt_of_getElem?_some ha
  simp [pcAt_goto, this]

/-- **The result of an operation is handed to its future at most once** (safety half of "exactly once"), in every reachable
state, for every program, pool size and interleaving: the activity that stands at the signal step of a job finds the job
unsignalled (`sig` is a ghost flag raised by that very step), because a signalled job is never put back into a queue and
whoever has it in hand is past the signal step (`SigInv`, inductive over all program counters: Inv/Sig, SigStep, SigReach). -/
theorem result_signalled_at_most_once {s : State} (hr : Reachable s) {a j : Nat} {c : Ctx} {k : Pc} {jb : Job}
    (hpc : s.pcAt a = .jobSignal j c k) (hj : s.jobs[j]? = some jb) : jb.sig = false :=
  signal_at_most_once hr hpc hj

/-- the signal step is the step that raises the flag and stores `ok` in the job's future (so the store happens at most once per job) -/
theorem signal_step_raises_flag (s s' : State) (a j r : Nat) (c : Ctx) (k : Pc) (act : Act) (o : Obs) (jb : Job) (fu : Fut)
    (ha : s.acts[a]? = some act) (hc : act.child = none) (hpc : act.pc = .jobSignal j c k)
    (hj : s.jobs[j]? = some jb) (hr : jb.kind.res = some r) (hf : s.futs[r]? = some fu)
    (hstep : stepAct s a = some (s', o)) :
    ∃ jb', s'.jobs[j]? = some jb' ∧ jb'.sig = true ∧ jb'.ended = true := by
  unfold stepAct at hstep
  simp only [ha, hc, hpc, hj, hr, hf, Option.isSome_none, Bool.false_eq_true, ↓reduceIte] at hstep
  have hlt : j < s.jobs.length := lt_of_getElem?_some hj
  split at hstep <;>
  · obtain ⟨rfl, _⟩ := Prod.mk.inj (Option.some.inj hstep)
    exact ⟨{ jb with ended := true, sig := true }, by simp [State.setJob, hlt], rfl, rfl⟩

/-- a job that has been signalled sits in no queue, so no runner can take it again -/
theorem signalled_job_is_never_requeued {s : State} (hr : Reachable s) {q j : Nat} {v : JobQ} {jb : Job}
    (hv : s.qs[q]? = some v) (hm : j ∈ v.jobs) (hj : s.jobs[j]? = some jb) : jb.sig = false :=
  signalled_job_not_queued hr hv hm hj

/-- **Dropping the designated poller of a queue always releases the queue** (the repair of defect F6, as an invariant): in
every reachable state, if a queue is waiting to be polled by future `f`, then `f` exists, belongs to that queue and has its
`draining` flag set (`DrainInv`, inductive over all program counters: Inv/Drain, DrainStep, DrainReach) — so the step that
drops `f` takes the branch of `dropped_poller_hands_back`: the queue becomes idle and is rescheduled. -/
theorem dropping_designated_poller_releases_queue {s s' : State} (hr : Reachable s) {a f q : Nat} {k : Pc} {act : Act} {o : Obs} {v : JobQ}
    (hv : s.qs[q]? = some v) (hst : v.state = .waitingForPoll f)
    (ha : s.acts[a]? = some act) (hc : act.child = none) (hpc : act.pc = .fdDrop f k) (hstep : stepAct s a = some (s', o)) :
    s'.qs[q]? = some { v with state := .idle } ∧ s'.acts[a]? = some { act with pc := .rqCs q k } := by
  obtain ⟨fu, hf, hd, hq⟩ := designated_poller_is_draining hr hv hst
  subst hq
  have := dropped_poller_hands_back s s' a f k act o fu v ha hc hpc hf hv hd hst hstep
  exact ⟨this.1, this.2.1⟩

/-- **The future never resolves to `Ok` before its operation has finished** ("never before that operation has finished"), in every
reachable state: while the result slot of a future holds `Ok`, there is a job whose completion future it is and which has
ended — `future_desync`, `after`, the slot job of `future_sync`, the completion of a suspend request — or it is the
`finished_suspending` future of a suspend job that has begun (C13).  (`ResInv`: the slot is written `Ok` only by the signal
step, which marks the job ended in the same critical section, and by the suspend job's hand-over step; `Ok` is never
written anywhere else; jobs never lose `ended` / `begun` — inductive over all program counters and environment steps.) -/
theorem resolves_only_after_the_operation_finished {s : State} (hr : Reachable s) {r : Nat} {fu : Fut} (hf : s.futs[r]? = some fu)
    (hok : fu.res = .ok) : ∃ (j : Nat) (jb : Job), s.jobs[j]? = some jb ∧
      ((jb.kind.res = some r ∧ jb.ended = true) ∨ (∃ op g r', jb.kind = .susp op g r r' ∧ jb.begun = true)) :=
  (resInv_reachable hr).ok r fu hf hok

/-- **The waker held in a result slot is always a polling task's context waker**, in every reachable state (`TaskWakerInv`,
inductive over all program counters and environment steps): `signal` takes the slot's waker and fires it, so what it wakes is
the task awaiting the future — never a queue, a thread inside `sync`, or a latch. -/
theorem result_slot_waker_is_a_task_waker {s : State} (hr : Reachable s) {f : Nat} {fu : Fut} {w : Waker}
    (hf : s.futs[f]? = some fu) (hw : fu.waker = some w) : ∃ t, w = .task t := by
  have h := (taskWakerInv_reachable hr).fut f fu hf w hw
  cases w <;> simp_all [Waker.isTask]

/-- the same for the two wakers a `SyncFuture` registers on behalf of the task polling it (on its `queue_ready` receiver and
with the event the user future awaits) -/
theorem sync_future_wakers_are_task_wakers {s : State} (hr : Reachable s) {u : Nat} {sf : SyncFut} (hu : s.sfs[u]? = some sf) :
    (∀ w, sf.readyWaker = some w → ∃ t, w = .task t) ∧ (∀ w, sf.userReg = some w → ∃ t, w = .task t) := by
  have h := (taskWakerInv_reachable hr).sf u sf hu
  refine ⟨fun w hw => ?_, fun w hw => ?_⟩
  · have := h.1 w hw; cases w <;> simp_all [Waker.isTask]
  · have := h.2 w hw; cases w <;> simp_all [Waker.isTask]

/-- non-vacuity: a slot holding the waker of the task on thread 2 -/
example : TaskWakerInv { initState 1 0 1 with futs := [{ q := 0, res := .none, waker := some (.task 2) }] } := by
  refine ⟨?_, ?_⟩
  · intro f fu hf
    match f with
    | 0 => simp at hf; subst hf; exact optTask_task 2
    | n + 1 => simp at hf
  · intro u sf hu; simp [initState] at hu

/-- **A future belongs to one queue for its whole life**: no step of the model — internal or environment — removes a
`SchedulerFuture` or changes the queue it belongs to (`FutMono`, a two-state fact over every program counter and every label),
so `.sync()` on a returned future always synchronises with the object its operation was scheduled on. -/
theorem future_keeps_its_queue {s s' : State} {l : Label} (hstep : next s l = some s') {f : Nat} {fu : Fut}
    (hf : s.futs[f]? = some fu) : ∃ fu', s'.futs[f]? = some fu' ∧ fu'.q = fu.q :=
  (futMono_next hstep).1 f fu hf

/-- the same for the value returned by `future_sync`: it keeps its scheduler future, its queue and its operation -/
theorem sync_future_keeps_its_parts {s s' : State} {l : Label} (hstep : next s l = some s') {u : Nat} {sf : SyncFut}
    (hu : s.sfs[u]? = some sf) : ∃ sf', s'.sfs[u]? = some sf' ∧ sf'.f = sf.f ∧ sf'.q = sf.q ∧ sf'.op = sf.op := by
  obtain ⟨sf', h1, h2, h3, h4, _⟩ := (futMono_next hstep).2 u sf hu
  exact ⟨sf', h1, h2, h3, h4⟩

/-- **The future a job will signal belongs to the job's own queue**, in every reachable state (`KindInv`: inductive over all
program counters — a list-valued classifier follows every `schedule_job_desync` in progress, at the head of a program counter
or inside a continuation — and over every environment step, with `FutMono` and the job table's monotonicity): for a
`future_desync` / `after` job the completion future, for the slot job of `future_sync` the completion future *and* the
`SyncFuture` it serves, for a suspend job both of its futures.  So `.sync()` on a returned future waits on the object its
operation really runs on, and a queue that is `WaitingForPoll(f)` on behalf of one of its jobs is `f`'s own queue. -/
theorem job_futures_belong_to_the_jobs_queue {s : State} (hr : Reachable s) {j : Nat} {jb : Job} (hj : s.jobs[j]? = some jb) :
    (∀ op g r, jb.kind = .fut op g r → ∃ fu, s.futs[r]? = some fu ∧ fu.q = jb.q) ∧
    (∀ op g r, jb.kind = .after op g r → ∃ fu, s.futs[r]? = some fu ∧ fu.q = jb.q) ∧
    (∀ u r, jb.kind = .slot u r → (∃ fu, s.futs[r]? = some fu ∧ fu.q = jb.q) ∧ (∃ sf, s.sfs[u]? = some sf ∧ sf.q = jb.q)) ∧
    (∀ op g fs r, jb.kind = .susp op g fs r → (∃ fu, s.futs[fs]? = some fu ∧ fu.q = jb.q) ∧ (∃ fu, s.futs[r]? = some fu ∧ fu.q = jb.q)) := by
  have h := (kindInv_reachable hr).jobs j jb hj
  have key : ∀ r, futQ s.futs r = some jb.q → ∃ fu, s.futs[r]? = some fu ∧ fu.q = jb.q := by
    intro r hq
    unfold futQ at hq
    cases hf : s.futs[r]? with
    | none => rw [hf] at hq; cases hq
    | some fu => rw [hf] at hq; exact ⟨fu, rfl, by simpa using hq⟩
  have keyS : ∀ u, sfQ s.sfs u = some jb.q → ∃ sf, s.sfs[u]? = some sf ∧ sf.q = jb.q := by
    intro u hq
    unfold sfQ at hq
    cases hf : s.sfs[u]? with
    | none => rw [hf] at hq; cases hq
    | some sf => rw [hf] at hq; exact ⟨sf, rfl, by simpa using hq⟩
  refine ⟨?_, ?_, ?_, ?_⟩
  · intro op g r hk; rw [hk] at h; exact key r h
  · intro op g r hk; rw [hk] at h; exact key r h
  · intro u r hk; rw [hk] at h; exact ⟨key r h.1, keyS u h.2⟩
  · intro op g fs r hk; rw [hk] at h; exact ⟨key fs h.1, key r h.2⟩

end Desync.C07
