/-
C14 — the safe API is memory-safe under every interleaving (PARTIAL by nature: what a model can
carry is the temporal protocol the unsafe sites rely on; machine-level memory safety is trusted).
-/
import DesyncModel.Spec
import DesyncModel.Tables.Sync
import DesyncModel.FactDrop
import DesyncModel.Lemmas
import DesyncModel.Setters

namespace Desync.C14
open Desync Gen

/-- Full-strength protocol statement: a lifetime-erased job that is not done has a live owner frame
still inside the `sync` call that created it. -/
def erased_job_inside_call_full : Prop :=
  ∀ s, Reachable s → ∀ (j : Nat) (b : Job) (owner : Nat) (body : Body),
    s.jobs[j]? = some b → (b.kind = .erasedDrain owner body ∨ b.kind = .erasedBg owner body) → b.ph ≠ .done →
    ∃ v, s.acts[owner]? = some v ∧ v.pc ≠ .dead ∧ v.pc ≠ .ret

/-- the value is freed through `sync` / `sync_no_panic`, i.e. by a job ordered after every other job -/
theorem free_is_a_sync_job : dropUses = ["sync", "sync_no_panic"] := drop_frees_through_sync

/-- `sync_drain` does not leave its loop before its erased job is done -/
theorem drain_owner_waits (s s' : State) (a q j : Nat) (act : Act) (o : Obs) (jb : Job)
    (ha : s.acts[a]? = some act) (hc : act.child = none) (hpc : act.pc = .sdCheck q j)
    (hj : s.jobs[j]? = some jb) (hnd : jb.ph ≠ .done) (hstep : stepAct s a = some (s', o)) :
    ∃ v, s'.acts[a]? = some v ∧ v.pc = .rjDequeue q (.sdCheck q j) := by
  unfold stepAct at hstep
  have hne : (jb.ph == Phase.done) = false := by
    cases hp : jb.ph <;> simp_all
  simp only [ha, hc, hpc, hj, hne, Option.isSome_none, Bool.false_eq_true, ↓reduceIte] at hstep
  obtain ⟨rfl, _⟩ := Prod.mk.inj (Option.some.inj hstep)
  exact ⟨{ act with pc := .rjDequeue q (.sdCheck q j) }, acts_goto_self _ ha, rfl⟩

/-- `sync_background` does not leave its wait loop before the `ready` flag is set, and the flag is
set only when the erased job's box is dropped -/
theorem bg_owner_waits (s s' : State) (a q j : Nat) (act : Act) (o : Obs)
    (ha : s.acts[a]? = some act) (hc : act.child = none) (hpc : act.pc = .sbTest q j)
    (hnr : s.isReady a = false) (hstep : stepAct s a = some (s', o)) :
    ∃ v, s'.acts[a]? = some v ∧ v.pc = .sbClaim q j := by
  unfold stepAct at hstep
  simp only [ha, hc, hpc, hnr, Option.isSome_none, Bool.false_eq_true, ↓reduceIte] at hstep
  obtain ⟨rfl, _⟩ := Prod.mk.inj (Option.some.inj hstep)
  exact ⟨{ act with pc := .sbClaim q j }, acts_goto_self _ ha, rfl⟩

end Desync.C14
