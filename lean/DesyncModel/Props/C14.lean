/-
C14 — the safe API is memory-safe under every interleaving (PARTIAL by nature: what a model can
carry is the temporal protocol the unsafe sites rely on; machine-level memory safety is trusted).
-/
import DesyncModel.Spec
import DesyncModel.Tables.Sync
import DesyncModel.FactDrop
import DesyncModel.FactUnsafe
import DesyncModel.Lemmas
import DesyncModel.Setters
import DesyncModel.Inv.ErasedReach

namespace Desync.C14
open Desync Gen

/-- Full-strength protocol statement: a lifetime-erased job that is not done has a live owner frame
still inside the `sync` call that created it. -/
def erased_job_inside_call_full : Prop :=
  ∀ s, Reachable s → ∀ (j : Nat) (b : Job) (owner : Nat) (body : Body),
    s.jobs[j]? = some b → (b.kind = .erasedDrain owner body ∨ b.kind = .erasedBg owner body) → b.ph ≠ .done →
    ∃ v, s.acts[owner]? = some v ∧ v.pc ≠ .dead ∧ v.pc ≠ .ret

/-- the value is freed through `sync` / `sync_no_panic`, i.e. by a job ordered after every other job -/
theorem free_is_a_sync_job : dropUses = ["sync", "sync_no_panic"] := drop_frees_through_sync

/-- ... and only so: `Drop` contains no release of the value outside the closure of that job (a direct release could run while a
suspended operation of the queue still holds its `&mut T`) -/
theorem free_only_inside_its_job : dropFreesOutsideJob = 0 := drop_frees_only_inside_its_job

/-- the inventory of `unsafe` in the source is the one these theorems are about (regenerated on every run) -/
theorem unsafe_inventory : unsafeSites.all (fun p => decide (p.2 ≤ unsafeAllowed p.1)) = true := unsafe_sites_are_the_modelled_ones

/-- `sync_drain` does not leave its loop before its erased job is done -/
theorem drain_owner_waits (s s' : State) (a q j : Nat) (act : Act) (o : Obs) (jb : Job)
    (ha : s.acts[a]? = some act) (hc : act.child = none) (hpc : act.pc = .sdCheck q j)
    (hj : s.jobs[j]? = some jb) (hnd : jb.ph ≠ .done) (hstep : stepAct s a = some (s', o)) :
    ∃ v, s'.acts[a]? = some v ∧ v.pc = .rjDequeue q (.sdCheck q j) := by
  unfold stepAct at hstep
  have hne : (jb.ph == Phase.done) = false := by
    cases hp : jb.ph <;> simp_all
  simp only [ha, hc, hpc, hj, hne, Option.isSome_none, Bool.false_eq_true, ↓reduceIte] at hstep
  obtain ⟨rfl, _⟩ := Prod.mk.inj (Option.some.inj hstep)
  exact ⟨{ act with pc := .rjDequeue q (.sdCheck q j) }, acts_goto_self _ ha, rfl⟩

/-- `sync_background` does not leave its wait loop before the `ready` flag is set, and the flag is
set only when the erased job's box is dropped -/
theorem bg_owner_waits (s s' : State) (a q j : Nat) (act : Act) (o : Obs)
    (ha : s.acts[a]? = some act) (hc : act.child = none) (hpc : act.pc = .sbTest q j)
    (hnr : s.isReady a = false) (hstep : stepAct s a = some (s', o)) :
    ∃ v, s'.acts[a]? = some v ∧ v.pc = .sbClaim q j := by
  unfold stepAct at hstep
  simp only [ha, hc, hpc, hnr, Option.isSome_none, Bool.false_eq_true, ↓reduceIte] at hstep
  obtain ⟨rfl, _⟩ := Prod.mk.inj (Option.some.inj hstep)
  exact ⟨{ act with pc := .sbClaim q j }, acts_goto_self _ ha, rfl⟩

/-- **The protocol statement of C14 holds in the model**: in every reachable state a lifetime-erased job that has not
been dropped has a live owner frame — the activity of the `sync` call that created it exists, has not returned and has
not finished; its program counter is inside the wait loop of sync_drain / sync_background, waiting for this very job
(`erased_job_owner_waits`; the invariant `ErasedInvF` — an erased job that is not done is awaited by its owner, the ready
flag is set only when the job is done, a call creates at most one erased job — is inductive over all 101 program
counters and every environment step). -/
theorem erased_job_inside_call : erased_job_inside_call_full := by
  intro s hr j b owner body hb hk hnd
  have hw := erased_job_owner_waits hr hb hk hnd
  cases ha : s.acts[owner]? with
  | none => simp [State.pcAt, ha, Pc.awaited] at hw
  | some v =>
    refine ⟨v, rfl, ?_, ?_⟩
    · intro e; simp [State.pcAt, ha, e, Pc.awaited] at hw
    · intro e; simp [State.pcAt, ha, e, Pc.awaited] at hw

/-- the value of a Desync is freed by a job ordered after every job accepted before the drop, and while it runs no other
operation on the object is open (C05's `free_waits_for_earlier_work`, `free_is_exclusive`): the `DataRef` pointer of every
earlier operation is dead by then -/
theorem data_pointer_protocol {s : State} (hr : Reachable s) {jf j : Nat} {bf b : Job}
    (hf : s.jobs[jf]? = some bf) (hj : s.jobs[j]? = some b) (hq : b.q = bf.q) (hlt : j < jf) (hbeg : bf.begun = true) : b.ended = true :=
  inOrder_reachable hr j jf b bf hj hf hq hlt hbeg

/-- non-vacuity: a reachable state with an erased job that is not done (a `sync` call on a busy queue) -/
example : ∃ s, Reachable s ∧ ∃ (j : Nat) (b : Job) (o : Nat) (body : Body), s.jobs[j]? = some b ∧ b.kind = .erasedBg o body ∧ b.ph ≠ .done := by
  refine ⟨_, Reachable.step (.act 1) (Reachable.step (.act 1) (Reachable.step (.act 1) (Reachable.step (.invoke 2 none (.sync 0)) (Reachable.step (.act 0) (Reachable.step (.invoke 1 none (.sync 0)) (Reachable.init 1 0 1) rfl) rfl) rfl) rfl) rfl) rfl, 1, _, 1, _, rfl, rfl, ?_⟩
  decide

end Desync.C14
