/-
C15 — a panicking operation is contained to its own object.
-/
import DesyncModel.Spec
import DesyncModel.Tables.Panic
import DesyncModel.Tables.Pool
import DesyncModel.FactGuard

namespace Desync.C15
open Desync Gen

/-- every function that runs jobs installs the guard that marks the queue panicked while unwinding -/
theorem every_runner_guarded (r : Runner) : guarded r = true := guarded_all_runners r

/-- every scheduling entry point refuses a panicked queue loudly ... -/
theorem refuses_loudly (e : Bool) (self : Nat) :
    (desyncPush .panicked).2 = .panic ∧ (syncDecide .panicked e).2 = .panic ∧ (trySyncDecide .panicked e).2 = .panic ∧
    (pollDecide self .panicked).2.1 = .panic := by
  refine ⟨rfl, ?_, ?_, rfl⟩
  · rw [syncDecide_panicked]
  · rw [trySyncDecide_panicked]

/-- ... and only a panicked queue: healthy objects are never refused -/
theorem only_panicked_refused (st : QState) (e : Bool) (self : Nat) (h : st ≠ .panicked) :
    (desyncPush st).2 ≠ .panic ∧ (syncDecide st e).2 ≠ .panic ∧ (trySyncDecide st e).2 ≠ .panic ∧ (pollDecide self st).2.1 ≠ .panic :=
  ⟨fun hp => h ((desyncPush_panics_iff st).mp hp), fun hp => h ((syncDecide_panics_iff st e).mp hp),
   fun hp => h ((trySyncDecide_panics_iff st e).mp hp), fun hp => h ((pollDecide_panics_iff self st).mp hp)⟩

/-- panicked is absorbing and nothing is ever claimed, scheduled or run from it -/
theorem never_run :
    (claim .panicked).2 = false ∧ (nextToRun .panicked).2 = false ∧ (∀ e, (reschedule .panicked e).2 = false) :=
  panicked_never_claimed
theorem absorbing_wakers : (wakeQueue .panicked).1 = .panicked ∧ wakeThread .panicked = .panicked := ⟨rfl, rfl⟩

/-- Drop while already unwinding neither runs, blocks nor panics again -/
theorem drop_in_panic (e : Bool) : syncNoPanicDecide .panicked e = (.panicked, .refuse) := syncNoPanic_panicked e

/-- finished (panicked) pool threads are reaped before the dormant scan, so the lost capacity is replaced -/
theorem capacity_restored : dormantReapsFirst = true := dormant_reaps_first

end Desync.C15
