/-
C15 — a panicking operation is contained to its own object.
-/
import DesyncModel.Spec
import DesyncModel.Tables.Panic
import DesyncModel.Tables.Pool
import DesyncModel.FactGuard
import DesyncModel.Inv.Panicked

namespace Desync.C15
open Desync Gen

/-- every function that runs jobs installs the guard that marks the queue panicked while unwinding -/
theorem every_runner_guarded (r : Runner) : guarded r = true := guarded_all_runners r

/-- every scheduling entry point refuses a panicked queue loudly ... -/
theorem refuses_loudly (e : Bool) (self : Nat) :
    (desyncPush .panicked).2 = .panic ∧ (syncDecide .panicked e).2 = .panic ∧ (trySyncDecide .panicked e).2 = .panic ∧
    (pollDecide self .panicked).2.1 = .panic := by
  refine ⟨rfl, ?_, ?_, rfl⟩
  · rw [syncDecide_panicked]
  · rw [trySyncDecide_panicked]

/-- ... and only a panicked queue: healthy objects are never refused -/
theorem only_panicked_refused (st : QState) (e : Bool) (self : Nat) (h : st ≠ .panicked) :
    (desyncPush st).2 ≠ .panic ∧ (syncDecide st e).2 ≠ .panic ∧ (trySyncDecide st e).2 ≠ .panic ∧ (pollDecide self st).2.1 ≠ .panic :=
  ⟨fun hp => h ((desyncPush_panics_iff st).mp hp), fun hp => h ((syncDecide_panics_iff st e).mp hp),
   fun hp => h ((trySyncDecide_panics_iff st e).mp hp), fun hp => h ((pollDecide_panics_iff self st).mp hp)⟩

/-- panicked is absorbing and nothing is ever claimed, scheduled or run from it -/
theorem never_run :
    (claim .panicked).2 = false ∧ (nextToRun .panicked).2 = false ∧ (∀ e, (reschedule .panicked e).2 = false) :=
  panicked_never_claimed
theorem absorbing_wakers : (wakeQueue .panicked).1 = .panicked ∧ wakeThread .panicked = .panicked := ⟨rfl, rfl⟩

/-- Drop while already unwinding neither runs, blocks nor panics again -/
theorem drop_in_panic (e : Bool) : syncNoPanicDecide .panicked e = (.panicked, .refuse) := syncNoPanic_panicked e

/-- finished (panicked) pool threads are reaped before the dormant scan, so the lost capacity is replaced -/
theorem capacity_restored : dormantReapsFirst = true := dormant_reaps_first

/-! ### executions that start after a panic has finished unwinding

`Reachable` has a second kind of initial state, `initStateP`, in which some objects are already `panicked` (the guard has marked
them: `guard_marks_panicked_always`).  C15's quantifier is exactly over what happens from there. -/

/-- **A panicked object stays panicked**: no step of the model — no entry point, runner, waker, reschedule or drop — ever writes
another state into a panicked queue.  (`Pan`, over every program counter and every environment step: Inv/Panicked.) -/
theorem panicked_stays_panicked {s s' : State} (hr : Reachable s) (l : Label) (hstep : next s l = some s') {q : Nat}
    (hp : s.qSt q = some .panicked) : s'.qSt q = some .panicked :=
  panicked_is_absorbing hr l hstep q hp

/-- **Nothing scheduled on a panicked object is ever run, and nobody owns it**: in every reachable state no activity is inside
the code that runs a panicked queue and none of its jobs is in a runner's hands (with `refuses_loudly`: every entry point
that finds the queue panicked takes the panic action instead). -/
theorem panicked_object_is_never_run {s : State} (hr : Reachable s) {q : Nat} {v : JobQ} (hv : s.qs[q]? = some v) (hp : v.state = .panicked) :
    (∀ a, (s.pcAt a).holds q = false) ∧ (∀ (j : Nat) (jb : Job) (a : Nat), s.jobs[j]? = some jb → jb.q = q → jb.ph ≠ Phase.held a) :=
  panicked_queue_runs_nothing hr hv hp

/-- **The other objects remain fully usable** (safety half): every theorem about reachable states — exclusion (C01), order
(C02), placement of accepted operations and at-most-once (C03, C04, C07), the pool bound (C17), ... — holds in executions
that start with panicked objects, because those states are `Reachable`; e.g. exclusion and order: -/
theorem healthy_objects_keep_their_guarantees (ps : List Bool) (ng max : Nat) {s : State}
    (hr : Reachable s) : Exclusive s ∧ InOrder s :=
  ⟨exclusive_reachable hr, inOrder_reachable hr⟩

/-- non-vacuity: an execution that starts with object 0 panicked and object 1 healthy, in which a `sync` on object 1 is running -/
example : ∃ s, Reachable s ∧ s.qSt 0 = some .panicked ∧ ∃ a, (s.pcAt a).holds 1 = true := by
  refine ⟨_, Reachable.step (.act 0) (Reachable.step (.invoke 1 none (.sync 1)) (Reachable.initP [true, false] 0 1) rfl) rfl, ?_, 0, ?_⟩ <;> decide

end Desync.C15
