/-
C16 — dropping the stream returned by `pipe` shuts the pipe down, without the input having to produce anything
further: the strong reference on the Desync is released, the input stream and the processing closure are dropped,
whatever the producer was doing at the moment of the drop.

Model: `DesyncModel.Pipe.Model` with `through = true`.  "The input stays silent" = no `send`/`close` label is taken:
only the pipe's own (`internal`) steps run.  The theorem has two halves: the pipe's own steps cannot go on forever
(`internalRun_bounded`), and a state in which none of them is enabled is shut down (`shut_when_stuck`).
-/
import DesyncModel.Pipe.Reach
import DesyncModel.FactPipe

namespace Desync.C16
open Desync Desync.Pipe

def Shut (s : PState) : Prop :=
  s.pollFn = false ∧ s.streamDropped = true ∧ s.fnDropped = true ∧ s.strongHeld = false

/-- Full-strength statement: from every reachable state in which the output stream has been dropped — whatever the
producer was doing — every run of the pipe's own steps is finite, and when it cannot be extended the pipe is shut. -/
def C16_full : Prop :=
  ∀ s, Reachable s → s.through = true → s.outAlive = false →
    ∀ n s', InternalRun s n s' → n ≤ measure s ∧ (Stuck s' → Shut s')

/-- the drop itself: closes the core, flushes it, wakes the registered producer waker, queues the release of the target -/
theorem drop_effect (s s' : PState) (hs : step s .dropLock = some s') :
    s'.core.closed = true ∧ s'.core.pending = [] ∧ s'.core.nsc = none ∧ s'.onDropQueued = true
    ∧ (∀ k, s.core.nsc = some k → k ∈ s'.pendingWakes) := by
  simp only [step, trigger] at hs
  repeat' split at hs
  all_goals (try (simp at hs; done))
  all_goals (simp only [Option.some.injEq] at hs; subst hs)
  all_goals simp_all

/-- a dropped output stream stays dropped -/
theorem outAlive_stays_false {s s' : PState} {n : Nat} (hr : InternalRun s n s') (ho : s.outAlive = false) (ht : s.through = true) :
    s'.outAlive = false ∧ s'.through = true := by
  induction hr with
  | nil s => exact ⟨ho, ht⟩
  | cons l hl hs _ ih =>
    apply ih
    all_goals (
      cases l <;> simp only [step, fin, takeNotify, trigger] at hs
      all_goals (repeat' split at hs)
      all_goals (try (simp at hs; done))
      all_goals (simp only [Option.some.injEq] at hs; subst hs)
      all_goals (first | exact ho | exact ht | simp_all))

/-- **no leak**: once the output stream is gone, a pipe that can do nothing more has released everything -/
theorem shut_when_stuck (s : PState) (h : Reachable s) (ht : s.through = true) (ho : s.outAlive = false) (hst : Stuck s) : Shut s := by
  have inv := pinv_reachable h
  have sf := stuck_facts inv.idx hst
  have hh : s.jobHoldsFn = false := by rw [inv.flag.holdsFn]; simp [jobActive, sf.job]
  have hcl : s.core.closed = true := inv.flag.closedDrop ht (Or.inl ho)
  have hp : s.pollFn = false := by
    cases hp : s.pollFn with
    | false => rfl
    | true =>
      exfalso
      have hr := sf.refs hp
      have hcore : s.jobHasCore = false := by
        cases hc : s.jobHasCore with
        | false => rfl
        | true => have := inv.flag.hasCore hc; rw [hh] at this; cases this
      simp only [ctxRefs, coreLive, sf.scheduled, sf.polling, sf.job, sf.wakes, ho, hcore] at hr
      simp at hr
      -- the only owner left would be an armed waker held by the input: impossible, the drop reached it
      cases hiw : s.inWaker with
      | none => simp [slotArmed, hiw] at hr
      | some k =>
        simp only [slotArmed, hiw] at hr
        rcases inv.reg.reg ht hp (Or.inl sf.job) k hiw hr with ⟨_, hc⟩ | hm
        · rw [hcl] at hc; cases hc
        · rw [sf.wakes] at hm; cases hm
  refine ⟨hp, sf.streamD hp hh, sf.fnD hp hh, ?_⟩
  rcases inv.flag.strong (Or.inl ho) with hq | hq
  · rw [sf.onDrop] at hq; cases hq
  · exact hq

/-- **C16 holds in the pipe model.** -/
theorem C16_holds : C16_full := by
  intro s h ht ho n s' hr
  refine ⟨by have := internalRun_bounded hr; omega, ?_⟩
  intro hst
  have ⟨ho', ht'⟩ := outAlive_stays_false hr ho ht
  exact shut_when_stuck s' (internalRun_reachable h hr) ht' ho' hst

/-- non-vacuity, the three positions the property names.  (1) idle and registered with the input: -/
example : ∃ s, Reachable s ∧ s.through = true ∧ s.outAlive = false ∧ s.job = none ∧ s.inWaker = some 0 ∧ s.pendingWakes = [0] :=
  ⟨(runLabels (initP true 5) [.jobBegin, .prod, .prod, .inPending, .prod, .dropLock, .dropDone]).get (by decide),
   reachable_get _ _ _ (Reachable.init true 5), by decide, by decide, by decide, by decide, by decide⟩

/-- (2) mid-loop: the drop lands while the producer is processing an item -/
example : ∃ s, Reachable s ∧ s.through = true ∧ s.outAlive = false ∧ s.job = some (.process 7, 0) :=
  ⟨(runLabels (initP true 5) [.send 7, .jobBegin, .prod, .prod, .yield 7, .dropLock, .dropDone]).get (by decide),
   reachable_get _ _ _ (Reachable.init true 5), by decide, by decide, by decide⟩

/-- (3) throttled by back-pressure: the waker in `notify_stream_closed` is spent, the one in the back-pressure slot dies
with the core — the context loses its last owner -/
example : ∃ s, Reachable s ∧ s.through = true ∧ s.outAlive = false ∧ s.job = none ∧ s.pollFn = true ∧ ctxRefs s = false :=
  ⟨(runLabels (initP true 1) [.jobBegin, .prod, .prod, .inPending, .prod, .send 7, .wakeK 0, .schedule, .jobBegin, .prod, .prod,
      .yield 7, .item 7, .prod, .prod, .inPending, .prod, .send 8, .wakeK 1, .schedule, .jobBegin, .prod, .dropLock, .wakeK 1, .dropDone]).get (by decide),
   reachable_get _ _ _ (Reachable.init true 1), by decide, by decide, by decide, by decide, by decide⟩

end Desync.C16
