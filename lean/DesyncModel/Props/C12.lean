/-
C12 — the stream returned by `pipe` yields one output per input, in order, then ends; a waiting consumer is always
woken; a producer throttled by back-pressure always resumes after the consumer reads.

Model: `DesyncModel.Pipe.Model` with `through = true`.
-/
import DesyncModel.Pipe.Reach
import DesyncModel.FactPipe

namespace Desync.C12
open Desync Desync.Pipe

/-- Full-strength statement over the pipe model, for every depth and every interleaving the model admits. -/
def C12_full : Prop :=
  ∀ s, Reachable s → s.through = true → s.outAlive = true → s.dropping = false →
    -- one output per input, in order, none lost, duplicated or reordered
    (s.delivered ++ s.core.pending ++ curOut s = s.processed.map f ∧ s.processed ++ cur s ++ s.inq = s.sent)
    -- the consumer is told the stream has ended only when the input has ended and every output has been delivered
    ∧ (s.core.closed = true → s.core.pending = [] → s.inClosed = true ∧ s.delivered = s.sent.map f)
    -- and it is told: once the input has ended and the pipe can do nothing more, the stream is closed or the producer
    -- is parked on back-pressure, to be released by the consumer's next read
    ∧ (Stuck s → s.inClosed = true → s.targetGone = false → s.core.closed = true ∨ slotArmed s s.core.bp = true)
    -- no lost consumer wake-up
    ∧ (s.consumerWaiting = true → (s.core.pending ≠ [] ∨ s.core.closed = true) → s.consumerWoken = true)
    -- back-pressure release: an idle producer with input waiting is parked in the back-pressure slot, and the consumer's
    -- next poll wakes it
    ∧ (Stuck s → s.pollFn = true → s.core.closed = false → (s.inq ≠ [] ∨ s.inClosed = true) →
        slotArmed s s.core.bp = true ∧ ∀ s', step s .cons = some s' → ∃ k, k ∈ s'.pendingWakes ∧ armed s' k = true)

theorem one_output_per_input (s : PState) (h : Reachable s) (ht : s.through = true) (ho : s.outAlive = true) (hd : s.dropping = false) :
    s.delivered ++ s.core.pending ++ curOut s = s.processed.map f ∧ s.processed ++ cur s ++ s.inq = s.sent := by
  have hh := (pinv_reachable h).hist
  refine ⟨?_, ?_⟩
  · rw [hh.deliv ho hd, hh.push ht]
  · rw [hh.proc, hh.yld]

/-- what the consumer knows when `poll_next` returns `None` -/
theorem end_means_all_delivered (s : PState) (h : Reachable s) (ho : s.outAlive = true) (hd : s.dropping = false)
    (hc : s.core.closed = true) (hp : s.core.pending = []) : s.inClosed = true ∧ s.delivered = s.sent.map f := by
  have inv := pinv_reachable h
  have e := inv.fin.closedEnd hc ho hd
  have d := inv.hist.deliv ho hd
  rw [hp, List.append_nil] at d
  exact ⟨e.1, by rw [d, e.2.2.1]⟩

/-- the consumer's `None` is exactly the `ended` flag set by `cons` -/
theorem none_only_when_closed (s s' : PState) (hs : step s .cons = some s') (he : s.ended = false) (he' : s'.ended = true) :
    s.core.closed = true ∧ s.core.pending = [] ∧ s.outAlive = true ∧ s.dropping = false := by
  simp only [step, trigger] at hs
  repeat' split at hs
  all_goals (try (simp at hs; done))
  all_goals (simp only [Option.some.injEq] at hs; subst hs)
  all_goals simp_all

theorem wake_source_when_stuck {s : PState} (inv : PInv s) (sf : StuckFacts s) (w : WakeSource s) :
    (s.through = true ∧ s.outAlive = true ∧ slotArmed s s.core.bp = true) ∨ (slotArmed s s.inWaker = true ∧ s.inq = [] ∧ s.inClosed = false) := by
  rcases w with w | w | ⟨k, hk, _⟩ | w | w
  · rw [sf.scheduled] at w; cases w
  · rw [sf.polling] at w; cases w
  · rw [sf.wakes] at hk; cases hk
  · exact Or.inl w
  · exact Or.inr w

/-- once the input has ended, a pipe that can do nothing more has closed its output or is parked on back-pressure -/
theorem ends_after_input_ends (s : PState) (h : Reachable s) (ht : s.through = true) (ho : s.outAlive = true)
    (hst : Stuck s) (hic : s.inClosed = true) (hg : s.targetGone = false) : s.core.closed = true ∨ slotArmed s s.core.bp = true := by
  have inv := pinv_reachable h
  have sf := stuck_facts inv.idx hst
  cases hp : s.pollFn with
  | false => exact Or.inl (inv.inp.doneOut ht hg ho (Or.inl hp))
  | true =>
    cases hc : s.core.closed with
    | true => exact Or.inl rfl
    | false =>
      have w := inv.wake.wake hp (Or.inl sf.job) (fun _ => hc)
      rcases wake_source_when_stuck inv sf w with w | w
      · exact Or.inr w.2.2
      · rw [w.2.2] at hic; cases hic

theorem consumer_always_woken (s : PState) (h : Reachable s) (ho : s.outAlive = true) (hd : s.dropping = false)
    (hw : s.consumerWaiting = true) (hav : s.core.pending ≠ [] ∨ s.core.closed = true) : s.consumerWoken = true := by
  have inv := pinv_reachable h
  rcases inv.cons.waiting hw with hn | hn
  · have := inv.cons.notifyOk ho hd hn
    rcases hav with hav | hav
    · exact absurd this.1 hav
    · rw [this.2] at hav; cases hav
  · exact hn

/-- back-pressure release -/
theorem throttled_producer_resumes (s : PState) (h : Reachable s) (hst : Stuck s) (hp : s.pollFn = true)
    (hc : s.core.closed = false) (hin : s.inq ≠ [] ∨ s.inClosed = true) :
    slotArmed s s.core.bp = true ∧ ∀ s', step s .cons = some s' → ∃ k, k ∈ s'.pendingWakes ∧ armed s' k = true := by
  have inv := pinv_reachable h
  have sf := stuck_facts inv.idx hst
  have w := inv.wake.wake hp (Or.inl sf.job) (fun _ => hc)
  have hb : slotArmed s s.core.bp = true := by
    rcases wake_source_when_stuck inv sf w with w | w
    · exact w.2.2
    · rcases hin with hin | hin
      · exact absurd w.2.1 hin
      · rw [w.2.2] at hin; cases hin
  refine ⟨hb, ?_⟩
  intro s' hs
  cases hbp : s.core.bp with
  | none => simp [slotArmed, hbp] at hb
  | some k =>
    simp only [slotArmed, hbp] at hb
    refine ⟨k, ?_⟩
    simp only [step, trigger, hbp] at hs
    repeat' split at hs
    all_goals (try (simp at hs; done))
    all_goals (simp only [Option.some.injEq] at hs; subst hs)
    all_goals (simp_all [armed])

/-- **C12 holds in the pipe model.** -/
theorem C12_holds : C12_full := by
  intro s h ht ho hd
  exact ⟨one_output_per_input s h ht ho hd, end_means_all_delivered s h ho hd, ends_after_input_ends s h ht ho,
         consumer_always_woken s h ho hd, throttled_producer_resumes s h⟩

/-- non-vacuity: depth 1, two items sent; the first output is buffered, the producer is parked on back-pressure with
the second item waiting, and the pipe is idle -/
example : ∃ s, Reachable s ∧ s.through = true ∧ s.core.pending = [f 7] ∧ s.inq = [8] ∧ s.core.bp = some 2 ∧ s.job = none ∧ s.scheduled = 0 :=
  ⟨(runLabels (initP true 1) [.jobBegin, .prod, .prod, .inPending, .prod, .send 7, .wakeK 0, .schedule, .jobBegin, .prod, .prod,
      .yield 7, .item 7, .prod, .prod, .inPending, .prod, .send 8, .wakeK 1, .schedule, .jobBegin, .prod]).get (by decide),
   reachable_get _ _ _ (Reachable.init true 1), by decide, by decide, by decide, by decide, by decide, by decide⟩

end Desync.C12
