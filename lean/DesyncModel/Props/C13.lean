/-
C13 — a suspended queue holds later work until resumed, then continues in order.
Suspension is an ordinary future job (kind `susp`): it signals the resumer hand-over and then
awaits the resume channel, so the property is a corollary of the queue protocol (C01, C02, C06).
-/
import DesyncModel.Spec
import DesyncModel.Tables.Wake
import DesyncModel.Lemmas
import DesyncModel.Setters

namespace Desync.C13
open Desync Gen

/-- Full-strength statement: once the suspend future has resolved, the suspend job is begun and not
ended until the resume channel is used or dropped; with C01 (one open job per queue) and C02 (order)
nothing scheduled later starts meanwhile and everything scheduled earlier has ended. -/
def holds_later_full : Prop :=
  ∀ s, Reachable s → ∀ (j : Nat) (b : Job) (op g fs res : Nat), s.jobs[j]? = some b → b.kind = .susp op g fs res →
    b.begun = true → s.gateReady g op = false → b.ended = false

/-- The suspend job is not finished (its final signal is not sent) while the resume channel is
silent: from `jobAwait` it goes back to Pending. -/
theorem stays_suspended (s s' : State) (a j : Nat) (c : Ctx) (k : Pc) (act : Act) (o : Obs) (jb : Job) (op g fs res : Nat)
    (ha : s.acts[a]? = some act) (hc : act.child = none) (hpc : act.pc = .jobAwait j c k)
    (hj : s.jobs[j]? = some jb) (hk : jb.kind = .susp op g fs res) (hclosed : s.gateReady g op = false)
    (hstep : stepAct s a = some (s', o)) :
    ∃ act', s'.acts[a]? = some act' ∧ act'.pc = ctxPending j k c ∧ o = .silent := by
  unfold stepAct at hstep
  simp only [ha, hc, hpc, hj, hk, hclosed, Option.isSome_none, Bool.false_eq_true, ↓reduceIte] at hstep
  obtain ⟨rfl, rfl⟩ := Prod.mk.inj (Option.some.inj hstep)
  exact ⟨{ act with pc := ctxPending j k c }, acts_goto_self _ (by simpa using ha), rfl, rfl⟩

/-- using OR dropping the resumer opens the channel and fires the waker the suspended job registered -/
theorem resume_fires_registered_waker (s s' : State) (a j op g fs res : Nat) (k : Pc) (act : Act) (o : Obs) (jb : Job) (gt : Gate) (w : Waker)
    (ha : s.acts[a]? = some act) (hc : act.child = none) (hpc : act.pc = .resumeSend op k)
    (hjo : s.jobOfOp op = some j) (hj : s.jobs[j]? = some jb) (hk : jb.kind = .susp op g fs res)
    (hg : s.gates[g]? = some gt) (hreg : jb.reg = some w)
    (hstep : stepAct s a = some (s', o)) :
    ∃ act', s'.acts[a]? = some act' ∧ act'.pc = .waking [w] k := by
  unfold stepAct at hstep
  simp only [ha, hc, hpc, hjo, hj, hk, hg, hreg, Option.isSome_none, Bool.false_eq_true, ↓reduceIte] at hstep
  obtain ⟨rfl, _⟩ := Prod.mk.inj (Option.some.inj hstep)
  exact ⟨{ act with pc := .waking [w] k }, acts_goto_self _ (by simpa using ha), rfl⟩

/-- sync calls made during the suspension wait (the queue is parked, not claimable) -/
theorem sync_waits_while_suspended (f : Nat) (e : Bool) :
    (syncDecide .waitingForWake e).2 = .background ∧ (syncDecide .waitingForUnpark e).2 = .background ∧
    (syncDecide (.waitingForPoll f) e).2 = .background := by
  cases e <;> simp [syncDecide]

end Desync.C13
