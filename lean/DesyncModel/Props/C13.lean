/-
C13 — a suspended queue holds later work until resumed, then continues in order.
Suspension is an ordinary future job (kind `susp`): it signals the resumer hand-over and then
awaits the resume channel, so the property is a corollary of the queue protocol (C01, C02, C06).
-/
import DesyncModel.Spec
import DesyncModel.Tables.Wake
import DesyncModel.Lemmas
import DesyncModel.Setters
import DesyncModel.Inv.JobReach
import DesyncModel.Inv.ResReach
import DesyncModel.Inv.KindReach

namespace Desync.C13
open Desync Gen

/-- Full-strength statement: once the suspend future has resolved, the suspend job is begun and not
ended until the resume channel is used or dropped; with C01 (one open job per queue) and C02 (order)
nothing scheduled later starts meanwhile and everything scheduled earlier has ended. -/
def holds_later_full : Prop :=
  ∀ s, Reachable s → ∀ (j : Nat) (b : Job) (op g fs res : Nat), s.jobs[j]? = some b → b.kind = .susp op g fs res →
    b.begun = true → s.gateReady g op = false → b.ended = false

/-- The suspend job is not finished (its final signal is not sent) while the resume channel is
silent: from `jobAwait` it goes back to Pending. -/
theorem stays_suspended (s s' : State) (a j : Nat) (c : Ctx) (k : Pc) (act : Act) (o : Obs) (jb : Job) (op g fs res : Nat)
    (ha : s.acts[a]? = some act) (hc : act.child = none) (hpc : act.pc = .jobAwait j c k)
    (hj : s.jobs[j]? = some jb) (hk : jb.kind = .susp op g fs res) (hclosed : s.gateReady g op = false)
    (hstep : stepAct s a = some (s', o)) :
    ∃ act', s'.acts[a]? = some act' ∧ act'.pc = ctxPending j k c ∧ o = .silent := by
  unfold stepAct at hstep
  simp only [ha, hc, hpc, hj, hk, hclosed, Option.isSome_none, Bool.false_eq_true, ↓reduceIte] at hstep
  obtain ⟨rfl, rfl⟩ := Prod.mk.inj (Option.some.inj hstep)
  exact ⟨{ act with pc := ctxPending j k c }, acts_goto_self _ (by simpa using ha), rfl, rfl⟩

/-- using OR dropping the resumer opens the channel and fires the waker the suspended job registered -/
theorem resume_fires_registered_waker (s s' : State) (a j op g fs res : Nat) (k : Pc) (act : Act) (o : Obs) (jb : Job) (gt : Gate) (w : Waker)
    (ha : s.acts[a]? = some act) (hc : act.child = none) (hpc : act.pc = .resumeSend op k)
    (hjo : s.jobOfOp op = some j) (hj : s.jobs[j]? = some jb) (hk : jb.kind = .susp op g fs res)
    (hg : s.gates[g]? = some gt) (hreg : jb.reg = some w)
    (hstep : stepAct s a = some (s', o)) :
    ∃ act', s'.acts[a]? = some act' ∧ act'.pc = .waking [w] k := by
  unfold stepAct at hstep
  simp only [ha, hc, hpc, hjo, hj, hk, hg, hreg, Option.isSome_none, Bool.false_eq_true, ↓reduceIte] at hstep
  obtain ⟨rfl, _⟩ := Prod.mk.inj (Option.some.inj hstep)
  exact ⟨{ act with pc := .waking [w] k }, acts_goto_self _ (by simpa using ha), rfl⟩

/-- sync calls made during the suspension wait (the queue is parked, not claimable) -/
theorem sync_waits_while_suspended (f : Nat) (e : Bool) :
    (syncDecide .waitingForWake e).2 = .background ∧ (syncDecide .waitingForUnpark e).2 = .background ∧
    (syncDecide (.waitingForPoll f) e).2 = .background := by
  cases e <;> simp [syncDecide]

/-- **A suspended queue holds later work, and everything scheduled earlier has finished (safety half of C13), in every
reachable state**: while a suspension (or any other operation) of an object is open — begun and neither completed nor
destroyed, which for a `suspend` lasts from the moment the queue reaches it until the resumer is used or dropped — no
other operation of that object is open, no operation accepted later has begun, and every operation accepted earlier
has ended.  Corollary of `C01_holds` (Exclusive) and `C02_holds` (InOrder). -/
theorem suspended_queue_holds_later_work {s : State} (hr : Reachable s) {j : Nat} {b : Job}
    (hb : s.jobs[j]? = some b) (hbeg : b.begun = true) (hend : b.ended = false) :
    ∀ (j' : Nat) (b' : Job), s.jobs[j']? = some b' → b'.q = b.q → j' ≠ j →
      b'.isOpen = false ∧ (j < j' → b'.begun = false) ∧ (j' < j → b'.ended = true) := by
  intro j' b' hb' hq hne
  have hex := exclusive_reachable hr
  have hio := inOrder_reachable hr
  have hopen : b.isOpen = true := by simp [Job.isOpen, hbeg, hend]
  refine ⟨?_, ?_, ?_⟩
  · cases ho : b'.isOpen with
    | false => rfl
    | true => exact absurd (hex j' j b' b hb' hb hq ho hopen) hne
  · intro hlt
    cases hb2 : b'.begun with
    | false => rfl
    | true =>
      have := hio j j' b b' hb hb' hq.symm hlt hb2
      rw [hend] at this; cases this
  · intro hlt
    exact hio j' j b' b hb' hb hq hlt hbeg

/-- **The future returned by `suspend` resolves only once the suspend job has begun**: an activity about to signal
`finished_suspending` for suspend job `j` finds that job begun — and a begun job has only ended predecessors on its object
(C02, `InOrder`), which is "every operation scheduled before the suspend request has completed". -/
theorem suspend_signal_comes_from_a_begun_suspend_job {s : State} (hr : Reachable s) {a j : Nat} {c : Ctx} {k : Pc}
    (hpc : s.pcAt a = .suspSignal j c k) : ∃ jb : Job, s.jobs[j]? = some jb ∧ jb.begun = true :=
  (resInv_reachable hr).sus a j (by rw [hpc]; simp [Pc.suspSigs])

/-- **Both futures of a suspend request are futures of the suspended queue**, in every reachable state (`KindInv`): the one that
tells the caller "the queue is now suspended" (`finished_suspending`) and the one that reports the completion of the suspend job
belong to the queue the suspend job sits in — so `resolves_only_after…` (C07) and the order theorems (C02) speak about the same
object when they are applied to a suspension. -/
theorem suspend_futures_belong_to_the_suspended_queue {s : State} (hr : Reachable s) {j op g fs r : Nat} {jb : Job}
    (hj : s.jobs[j]? = some jb) (hk : jb.kind = .susp op g fs r) :
    futQ s.futs fs = some jb.q ∧ futQ s.futs r = some jb.q := by
  have h := (kindInv_reachable hr).jobs j jb hj
  rw [hk] at h
  exact h

end Desync.C13
