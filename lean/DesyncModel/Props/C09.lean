/-
C09 — try_sync never blocks, never half-runs and never disturbs the queue.
-/
import DesyncModel.Spec
import DesyncModel.Tables.TrySync
import DesyncModel.FactTrySync
import DesyncModel.Lemmas
import DesyncModel.Inv.OwnedReach
import DesyncModel.FactHandBack

namespace Desync.C09
open Desync Gen

/-- try_sync's decision is one critical section whose outcome is: run the closure (only on an idle,
empty queue, which is then marked running), or Busy with the queue state untouched, or a panic on a
panicked queue.  There is no waiting strategy. -/
theorem decision (st : QState) (e : Bool) :
    ((trySyncDecide st e).2 = .immediate ∧ st = .idle ∧ e = true ∧ (trySyncDecide st e).1 = .running) ∨
    ((trySyncDecide st e).2 = .busy ∧ (trySyncDecide st e).1 = st) ∨
    ((trySyncDecide st e).2 = .panic ∧ st = .panicked) := by
  cases st <;> cases e <;> simp [trySyncDecide]

/-- never blocks: the body of try_sync reaches no blocking function (generated structural fact) -/
theorem never_blocks : trySyncBlockingCalls = [] := trySync_no_blocking_calls

/-- A Busy outcome changes nothing but the caller's own program counter: the queue (state, jobs,
blocked callers), the schedule, the pool, every job and every other activity are untouched. -/
theorem busy_undisturbed (s s' : State) (a q : Nat) (b : Body) (act : Act) (o : Obs)
    (ha : s.acts[a]? = some act) (hc : act.child = none) (hpc : act.pc = .tsDecide q b)
    (hstep : stepAct s a = some (s', o)) (v : JobQ) (hq : s.qs[q]? = some v)
    (hbusy : (trySyncDecide v.state v.jobs.isEmpty).2 = .busy) :
    s'.qs = s.qs ∧ s'.jobs = s.jobs ∧ s'.schedule = s.schedule ∧ s'.holder = s.holder ∧
    s'.pthreads = s.pthreads ∧ s'.threadsVec = s.threadsVec ∧ s'.futs = s.futs ∧
    (∀ a', a' ≠ a → s'.acts[a']? = s.acts[a']?) ∧ (∃ act', s'.acts[a]? = some act' ∧ act'.pc = .ret) := by
  have hst := trySync_busy_undisturbed v.state v.jobs.isEmpty hbusy
  unfold stepAct at hstep
  simp only [ha, hc, hpc, hq, Option.isSome_none, Bool.false_eq_true, ↓reduceIte, hbusy] at hstep
  obtain ⟨rfl, _⟩ := Prod.mk.inj (Option.some.inj hstep)
  have hqset : s.qs.set q { v with state := (trySyncDecide v.state v.jobs.isEmpty).1 } = s.qs := by
    rw [hst]; exact list_set_same _ _ _ hq
  refine ⟨?_, rfl, rfl, rfl, rfl, rfl, rfl, ?_, ?_⟩
  · simp [State.setAct, State.setQ, hqset]
  · intro a' hne
    simp [State.setAct, State.setQ, Ne.symm hne]
  · have hlt : a < s.acts.length := by
      rcases List.getElem?_eq_some_iff.mp ha with ⟨h, _⟩; exact h
    exact ⟨{ act with pc := .ret, result := some 1 }, by simp [State.setAct, State.setQ, hlt, hc], rfl⟩

/-- A try_sync that runs its closure does so as the holder of the queue, from an idle and empty queue. -/
theorem immediate_claims (st : QState) (e : Bool) (h : (trySyncDecide st e).2 = .immediate) :
    st = .idle ∧ e = true ∧ (trySyncDecide st e).1 = .running := by
  have := (trySync_immediate_iff st e).mp h
  exact ⟨this.1, this.2, trySync_immediate_running st e h⟩

/-- Full-strength statement of the liveness half (once an object has nothing queued or in progress
try_sync succeeds): in every reachable quiescent state every queue is idle and empty, on which
`trySyncDecide` answers `immediate`.  Proved from C03's quiescence theorem when that is available;
the table half is proved here. -/
theorem idle_empty_succeeds : (trySyncDecide .idle true) = (.running, .immediate) := rfl

def idle_succeeds_full : Prop :=
  ∀ s, Reachable s → Quiescent s → NoCallInProgress s → AllGatesOpen s → 1 ≤ s.maxThreads →
    ∀ (q : Nat) (v : JobQ), s.qs[q]? = some v → (trySyncDecide v.state v.jobs.isEmpty).2 = .immediate

/-- **try_sync never leaves a queue half-claimed** (and nothing else does): in every reachable state a queue that is marked
`running` (or `awokenWhileRunning` / `waitingForUnpark`) has an activity inside the code that runs it — so a `try_sync` that
has returned, whatever it returned, has not left the queue marked as running (defect F1 did exactly that).
(`OwnedInv`, inductive over all program counters: Inv/Owned, OwnedStep, OwnedReach.) -/
theorem running_queue_is_being_run {s : State} (hr : Reachable s) {q : Nat} {v : JobQ} (hv : s.qs[q]? = some v) (hheld : v.state.held = true) :
    ∃ a, (s.pcAt a).holds q = true :=
  running_queue_has_a_runner hr hv hheld

/-- the runners' hand-backs are unconditional in the source, as the model's `siIdle` / `sdIdle` / `sbStealIdle` / `dqIdle` steps are
(regenerated fact): a queue is never left in a "somebody is running it" state because its runner found it changed -/
theorem runners_hand_back_unconditionally : stateConditionalHandBacks = [] := hand_backs_are_unconditional

end Desync.C09
