/-
Structural facts about src/pipe.rs read by the translator (Generated.lean), and the obligations that tie them to the
hand-written pipe model: every `prod` step of `DesyncModel.Pipe.Model` is ONE critical section of the stream core
touching exactly the fields listed here; `cons` and `dropLock` likewise.  If a change to pipe.rs splits, merges or
reorders these sections, or moves a field access from one to another, the `decide` below fails and names what moved.
-/
import DesyncModel.Types
import DesyncModel.Generated

namespace Desync
open Gen

theorem pipe_default_depth_pos : 0 < pipeDefaultDepth := by decide

/-- `PipeContext` holds its target weakly: `pipe_in` never keeps the Desync alive (C11), and a dropped target is
noticed by `PipeContext::poll` (`ctxDead`) -/
theorem pipe_target_weak : pipeTargetWeak = true := by decide

/-- The producing poll function of `pipe`: six critical sections, in source order —
`checkFull` (full test, back-pressure registration and the read of `closed` in ONE section), `closedNotify`,
`clearNsc`, `regNsc` (re-check of `closed` and registration in ONE section), `closeOut`, `push`. -/
theorem pipe_producer_sections :
    pipeProducerSections =
      [["pending", "max_pipe_depth", "backpressure_release_notify", "closed"],   -- PJ.checkFull
       ["notify"],                                                                 -- PJ.closedNotify
       ["notify_stream_closed"],                                                   -- PJ.clearNsc
       ["closed", "notify_stream_closed"],                                         -- PJ.regNsc
       ["closed", "notify"],                                                       -- PJ.closeOut
       ["pending", "notify"]] := by decide                                         -- PJ.push

/-- `Drop for PipeStream`: one section that flushes, closes and takes `notify_stream_closed`; `on_drop` goes to the
disposal queue (`Label.dropLock`, `Label.dispose`) -/
theorem pipe_drop_section : pipeDropSections = [["pending", "closed", "notify_stream_closed"]] ∧ pipeDropQueuesOnDrop = true := by decide

/-- `PipeStream::poll_next`: one section; an item → return it and take the back-pressure waker; closed → end;
otherwise take the back-pressure waker and store the consumer's waker (`Label.cons`) -/
theorem pipe_cons_section :
    pipeConsSections = [["pending", "backpressure_release_notify", "closed", "backpressure_release_notify", "notify"]]
    ∧ pipeConsBranches = [("item", "item", true, false), ("closed", "fin", false, false), ("empty", "pending", true, true)] := by decide

/-- `PipeWaker` is one-shot (`Label.wakeK` clears `wakers[k]`) -/
theorem pipe_waker_one_shot : pipeWakerOneShot = true := by decide

end Desync
