/- Small list facts used by the proofs. -/
namespace Desync

theorem list_set_same {α : Type} (l : List α) (i : Nat) (v : α) (h : l[i]? = some v) : l.set i v = l := by
  apply List.ext_getElem?
  intro j
  rw [List.getElem?_set]
  split
  · next hij =>
    subst hij
    split
    · exact h.symm
    · next hlt =>
      have : l[i]? = none := by simp at hlt; simpa using hlt
      rw [this] at h; cases h
  · rfl

theorem lt_of_getElem?_some {α : Type} {l : List α} {i : Nat} {v : α} (h : l[i]? = some v) : i < l.length := by
  rcases List.getElem?_eq_some_iff.mp h with ⟨hlt, _⟩
  exact hlt

end Desync
