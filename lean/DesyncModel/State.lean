/-
State of the `Sched` model: the scheduler at critical-section granularity.
Core Lean only (the driver executable imports this file).
-/
import DesyncModel.Types
import DesyncModel.Generated

namespace Desync

/-- A `task::Waker` as the crate builds them. -/
inductive Waker where
  | queue (q : Nat)                 -- WakeQueue(queue, core)
  | thread (q : Nat) (t : Nat)      -- WakeThread(queue, thread)
  | latch (l : Nat)                 -- DrainWaker
  | task (t : Nat)                  -- the block_on context of thread `t` (one waker per thread, shared by successive awaits)
  | double (d : Nat)                -- DoubleWaker
  deriving DecidableEq, Repr, Hashable, Inhabited

/-- What a synchronous closure does: a harness closure (operation `op`), or the internal closure of
`SchedulerFuture::sync` that takes the result of future `f`. -/
inductive Body where
  | user (op : Nat)
  | take (f : Nat)
  | free (q : Nat)      -- the closure of `Desync::drop`: frees the boxed value
  deriving DecidableEq, Repr, Hashable, Inhabited

/-- What kind of job sits in a queue. `op` is the API-level operation the job carries. -/
inductive JobKind where
  | plain (op : Nat)                          -- desync closure
  | immediate (owner : Nat) (body : Body)     -- sync_immediate: the closure runs on the caller without being queued
  | erasedDrain (owner : Nat) (body : Body)   -- sync_drain's lifetime-erased job (owner = calling activity)
  | erasedBg (owner : Nat) (body : Body)      -- sync_background's lifetime-erased job
  | fut (op : Nat) (gate : Option Nat) (res : Nat)   -- future_desync: begin; await gate; end; signal res
  | after (op : Nat) (gate : Nat) (res : Nat)        -- after: await gate; begin; end; signal res
  | slot (u : Nat) (res : Nat)                       -- future_sync's slot job: send queue_ready; await task_finished; signal res
  | susp (op : Nat) (gate : Nat) (fs : Nat) (res : Nat)  -- suspend: signal fs (resumer handed out); await resume (gate); signal res
  deriving DecidableEq, Repr, Hashable, Inhabited

inductive Phase where
  | queued            -- in its queue's deque
  | held (a : Nat)    -- popped by activity `a` (being run / polled, or kept across a park)
  | done
  deriving DecidableEq, Repr, Hashable, Inhabited

structure Job where
  q : Nat
  kind : JobKind
  ph : Phase
  begun : Bool          -- closure invoked (operation open from here ...)
  ended : Bool          -- ... to here (completed or destroyed)
  reg : Option Waker    -- waker currently registered with the awaited event (oneshot receiver)
  sig : Bool := false   -- ghost: the job has executed its signal step (result handed to the SchedulerFuture)
  deriving DecidableEq, Repr, Hashable, Inhabited

inductive ResState where
  | none | ok | canceled | returned
  deriving DecidableEq, Repr, Hashable, Inhabited

/-- `SchedulerFutureResult` plus the queue the future belongs to. -/
structure Fut where
  q : Nat
  res : ResState
  waker : Option Waker
  /-- `SchedulerFuture::draining`: set while the future drains its queue and left set when drain_queue returns Pending with
  the queue waiting to be polled by this future; NOT reset when a later poll finds the result already there. -/
  draining : Bool := false
  deriving DecidableEq, Repr, Hashable, Inhabited

structure Gate where
  isOpen : Bool
  waiting : List Nat     -- operations whose futures await this gate (oneshot not yet sent), in registration order
  deriving DecidableEq, Repr, Hashable, Inhabited

structure JobQ where
  state : QState
  jobs : List Nat        -- front first
  waiters : List Nat     -- wake_blocked: activities blocked in sync_background (registration order)
  deriving DecidableEq, Repr, Hashable, Inhabited

/-- A pool thread: `(busy flag, SchedulerThread)` of `SchedulerCore.threads`. -/
structure PThr where
  busy : Bool
  busyLock : Option Nat      -- activity holding the busy mutex
  mailbox : Nat              -- closures sent and not yet received
  hungUp : Bool              -- the sender was dropped (despawn)
  exited : Bool
  deriving DecidableEq, Repr, Hashable, Inhabited

/-- How the result of `SchedulerFuture::poll` is consumed by the polling activity. -/
inductive Mode where
  | await                 -- block_on: poll again whenever woken, return when Ready
  | sfQueue (u : Nat)     -- polled by SyncFuture `u` in state WaitingForQueue
  | sfSched (u : Nat)     -- polled by SyncFuture `u` in state WaitingForScheduler
  deriving DecidableEq, Repr, Hashable, Inhabited

inductive SfStage where
  | waitingForQueue | waitingForFuture | waitingForScheduler | completed
  deriving DecidableEq, Repr, Hashable, Inhabited

/-- A `SyncFuture` (the value returned by future_sync) with its two oneshot channels. -/
structure SyncFut where
  f : Nat                       -- its scheduler future
  q : Nat
  op : Nat                      -- the user operation
  gate : Option Nat
  stage : SfStage
  readySent : Bool              -- queue_ready: value sent by the slot job
  readyWaker : Option Waker     -- waker registered on the queue_ready receiver
  doneSent : Bool               -- task_finished: value sent or sender dropped
  doneWaker : Option Waker      -- waker registered by the slot job on the done receiver
  userBegun : Bool
  userEnded : Bool
  userReg : Option Waker        -- waker the user future registered with its gate
  deriving DecidableEq, Repr, Hashable, Inhabited

/-- API calls (environment labels). -/
inductive Call where
  | desync (q : Nat) | sync (q : Nat) | trySync (q : Nat)
  | fdesync (q : Nat) (gate : Option Nat) | after (q : Nat) (gate : Nat)
  | await (op : Nat) | syncf (op : Nat) | dropf (op : Nat)    -- on the future returned by operation `op`
  | pollOnce (op : Nat)
  | fsync (q : Nat) (gate : Option Nat)
  | suspend (q : Nat) | resume (op : Nat)
  | dropObj (q : Nat)
  | openGate (g : Nat)
  | setMax (n : Nat) | despawn
  deriving DecidableEq, Repr, Hashable, Inhabited

/-- Who is running a job: decides the waker its poll gets, and where control goes on Ready / Pending. -/
inductive Ctx where
  | caller (q : Nat)            -- run_one_job_now on a thread inside sync (continuation kept in the pc)
  | pool (p : Nat) (q : Nat)    -- JobQueue::drain on pool thread p
  | task (f : Nat) (l : Nat) (q : Nat)   -- SchedulerFuture::drain_queue of future f, with DrainWaker l
  deriving DecidableEq, Repr, Hashable, Inhabited

/-- Program counters: one per critical section or blocking call of the crate's functions.
`k` arguments are continuations (what the enclosing function does next). -/
inductive Pc where
  -- generic
  | ret                                   -- the call returns to the harness
  | dead                                  -- activity finished
  | begin (b : Body) (k : Pc)             -- a closure is invoked (harness event `beg`, or the internal take)
  | body (op : Nat) (k : Pc)              -- harness closure running (nested calls may be invoked); `k` after its end
  | panicked                              -- the call panicked (refused by a panicked queue)
  | unwinding (k : Pc)                    -- a panic is unwinding out of run_one_job_now (the runner's guard marks the queue panicked)
  -- schedule_thread(core) -> k
  | stReap (k : Pc)
  | stScanLock (k : Pc)
  | stScan (i : Nat) (k : Pc)             -- take the busy flag of the i-th thread
  | stScanHeld (i : Nat) (k : Pc)
  | stScanRel (i : Nat) (found : Bool) (k : Pc)
  | stScanUnlock (found : Bool) (k : Pc)
  | stReadMax (k : Pc)
  | stSpawn (max : Nat) (k : Pc)
  | stSpawnRel (k : Pc)
  -- reschedule_queue(q) -> k
  | rqCs (q : Nat) (k : Pc)
  | rqNotifyAcq (q : Nat) (todo : List Nat) (resched : Bool) (k : Pc)
  | rqNotify (q : Nat) (todo : List Nat) (resched : Bool) (k : Pc)
  | rqNotifyRel (q : Nat) (todo : List Nat) (resched : Bool) (k : Pc)
  | rqPush (q : Nat) (k : Pc)
  -- waking a list of wakers -> k
  | waking (todo : List Waker) (k : Pc)
  | openSend (g : Nat) (k : Pc)           -- harness: send on the next waiting channel of gate g
  | wqCs (q : Nat) (k : Pc)               -- WakeQueue::wake critical section
  | wtCs (q : Nat) (t : Nat) (k : Pc)     -- WakeThread::wake critical section
  | wtUnpark (t : Nat) (k : Pc)
  | lwCs (l : Nat) (k : Pc)               -- DrainWaker::wake
  | dwCs (d : Nat) (k : Pc)               -- DoubleWaker::wake
  -- schedule_job_desync
  | dsPush (q : Nat) (kind : JobKind)
  | dsSched (q : Nat)
  -- sync / try_sync
  | syDecide (q : Nat) (b : Body)
  | tsDecide (q : Nat) (b : Body)
  | siIdle (q : Nat) (j : Nat)            -- sync_immediate: set Idle
  | sdPush (q : Nat) (b : Body)
  | sdCheck (q : Nat) (j : Nat)           -- `while result.is_none()`
  | sdIdle (q : Nat)
  | sbReg (q : Nat) (b : Body)
  | sbPush (q : Nat) (b : Body)
  | sbLockReady (q : Nat) (j : Nat)
  | sbTest (q : Nat) (j : Nat)            -- `while !*ready` with the ready lock held
  | sbClaim (q : Nat) (j : Nat)
  | sbClaimRel (q : Nat) (j : Nat) (claimed : Bool)
  | sbRelReady (q : Nat) (j : Nat)        -- claimed: drop(ready)
  | sbStealTest (q : Nat) (j : Nat)       -- `while !*ready_mutex.lock()`
  | sbStealIdle (q : Nat) (j : Nat)
  | sbWait (q : Nat) (j : Nat)            -- release ready and wait on the condvar (atomic)
  | sbWaiting (q : Nat) (j : Nat)         -- blocked until notified, then re-acquires ready
  | sbDone (q : Nat) (j : Nat)            -- release ready at the end
  | sbDropCv (q : Nat)                    -- mem::drop(wakeup)
  | sbPrune (q : Nat)
  -- run_one_job_now(q) -> k
  | rjDequeue (q : Nat) (k : Pc)
  | rjPending (q : Nat) (j : Nat) (k : Pc)
  | rjParkCheck (q : Nat) (j : Nat) (k : Pc)
  | rjPark (q : Nat) (j : Nat) (k : Pc)
  | rjParked (q : Nat) (j : Nat) (k : Pc)
  -- polling / running one job `j` with context waker `w` -> `kReady` / `kPending`
  -- (`c` = who runs it; `k` = the caller-side continuation, unused for the other contexts)
  | jobStart (j : Nat) (c : Ctx) (k : Pc)
  | jobAwait (j : Nat) (c : Ctx) (k : Pc)      -- poll the awaited event, registering the context's waker if it has not happened
  | jobBodyDone (j : Nat) (c : Ctx) (k : Pc)   -- closure returned: job-specific epilogue
  | jobEnd (j : Nat) (c : Ctx) (k : Pc)        -- H `end`
  | jobSignal (j : Nat) (c : Ctx) (k : Pc)     -- signal(): result slot critical section
  | jobSigDrop (j : Nat) (c : Ctx) (k : Pc)    -- the signaller is dropped at the end of signal(): it locks the slot once more
  | jobDrop (j : Nat) (c : Ctx) (k : Pc)       -- the job box is dropped (erased bg job: set ready, notify_all)
  | jobDropNotify (j : Nat) (c : Ctx) (k : Pc)
  -- pool thread
  | ptRecv (p : Nat)
  | ptRecvd (p : Nat)
  | ptLockBusy (p : Nat)
  | ptLockSched (p : Nat)
  | ptPop (p : Nat)
  | ptUnlockSched (p : Nat) (got : Option Nat)
  | ptUnlockBusy (p : Nat) (got : Option Nat)
  | pdDequeue (p : Nat) (q : Nat)
  | pdRequeue (p : Nat) (q : Nat) (j : Nat)
  | pdPending (p : Nat) (q : Nat)
  | pdExit (p : Nat) (q : Nat)
  -- SchedulerFuture::poll / drain_queue (activity = awaiting task) and .sync()
  | pfPoll (f : Nat)
  | pfPollRel (f : Nat) (next : Pc)
  | pfBlocked (f : Nat)                    -- returned Pending: task waits for its waker
  | pollReady (f : Nat)                    -- SchedulerFuture::poll returns Ready: what the polling activity does with it
  | pollPending (f : Nat)                  -- ... returns Pending
  | sfPoll (u : Nat)                       -- SyncFuture::poll entry
  | sfRecv (u : Nat)                       -- poll the queue_ready receiver
  | sfUser (u : Nat)                       -- poll the user future
  | sfFinish (u : Nat)                     -- user future completed: task_finished.send
  | sfBlocked (u : Nat)
  | sfDrop (u : Nat)                       -- the SyncFuture is dropped: user future first ...
  | sfDropDone (u : Nat)                   -- ... then the completion sender
  | fdDrop (f : Nat) (k : Pc)              -- a SchedulerFuture is dropped: a queue waiting to be polled by it is handed back
  | resumeSend (op : Nat) (k : Pc)         -- QueueResumer::resume / drop: send on the resume channel of suspend `op`
  | suspSignal (j : Nat) (c : Ctx) (k : Pc)   -- suspend job: signal(finished_suspending)
  | suspSigDrop (j : Nat) (c : Ctx) (k : Pc)
  | dqCheck (f : Nat) (q : Nat)
  | dqDequeue (f : Nat) (q : Nat)
  | dqRequeue (f : Nat) (j : Nat) (l : Nat) (q : Nat)
  | dqCheck2 (f : Nat) (l : Nat) (q : Nat)
  | dqSetWfw (f : Nat) (l : Nat) (q : Nat)
  | dqStore (f : Nat) (l : Nat) (q : Nat)
  | dqSetWfp (f : Nat) (l : Nat) (q : Nat)
  | dqWakeWith (f : Nat) (l : Nat) (w : Waker) (k : Pc)
  | dqStore2 (f : Nat) (q : Nat)
  | dqIdle2 (f : Nat) (q : Nat)
  | dqIdle (f : Nat) (q : Nat)
  | fsTake (f : Nat)
  | fsTake2 (f : Nat)
  -- pool management
  | smSet (n : Nat)
  | dpRead
  | dpLock (max : Nat)
  | dpHang (max : Nat) (gone : List Nat)
  | dpJoin (todo : List Nat)
  deriving DecidableEq, Repr, Hashable, Inhabited

structure Act where
  thread : Nat
  pc : Pc
  parent : Option Nat       -- activity whose closure body invoked this call
  child : Option Nat        -- live nested call (this activity's body is waiting for it)
  woken : Bool              -- task waker fired (block_on) / condvar notified / park token, per use
  result : Option Nat       -- returned value tag, for the harness `ret` event
  mode : Mode               -- how this activity consumes SchedulerFuture::poll results
  once : Bool               -- poll once and return to the harness even if Pending (no executor loop)
  deriving DecidableEq, Repr, Hashable, Inhabited

structure State where
  qs : List JobQ
  jobs : List Job
  futs : List Fut
  gates : List Gate
  latches : List (Latch × Option Waker)     -- DrainWaker state + stored waker
  doubles : List (Option (Waker × Waker))   -- DoubleWaker contents
  pthreads : List PThr
  threadsVec : List Nat                     -- SchedulerCore.threads (indices into pthreads), in order
  threadsLock : Option Nat
  schedule : List Nat
  schedLock : Option Nat
  maxThreads : Nat
  readyLock : List (Nat × Nat)              -- (waiter, holder) pairs: who holds a sync caller's `ready` mutex
  ready : List Nat                          -- sync callers whose `ready` flag is set (their erased job was dropped)
  opFut : List (Nat × Nat)                  -- operation id -> the SchedulerFuture it returned
  opSf : List (Nat × Nat)                   -- operation id -> the SyncFuture it returned
  sfs : List SyncFut
  dropped : List Nat                        -- queues whose Desync has been dropped
  parkToken : List Nat                      -- threads with an unpark token
  taskWoken : List Nat                      -- threads whose block_on waker has fired since they last went to sleep
  acts : List Act
  nextOp : Nat
  -- ghost (write-only) fields used by the invariants
  holder : List (Option Nat)                -- per queue: the activity that owns the run right
  deriving DecidableEq, Repr, Hashable, Inhabited

/-- What a step makes visible in the implementation's event trace. -/
inductive Obs where
  | silent
  | csQ (q : Nat)                -- critical section on a queue core (snapshot = model post-state of q)
  | csS | acqS                   -- schedule
  | csT | acqT                   -- threads vector
  | acqB (p : Nat) | csB (p : Nat) | tryFailB (p : Nat)
  | csX                          -- max_threads
  | csR (f : Nat)                -- future result slot
  | csW (l : Nat)                -- drain waker latch
  | csD (d : Nat)                -- double waker
  | acqG (a : Nat) | csG (a : Nat)   -- the ready flag of sync caller `a`
  | park | unparked | unpark (t : Nat)
  | send (p : Nat) | recv (p : Nat) | recvd (p : Nat) (ok : Bool) | hangup (p : Nat)
  | spawn (p : Nat) | join (p : Nat) | joined (p : Nat) | exit
  | notify1 (a : Nat)            -- notify_one on the condvar of sync caller `a`
  | notifyAll (a : Nat)
  | taskWake (t : Nat)           -- the block_on waker of thread `t` is fired
  | gateSend (g : Nat)           -- harness: one oneshot send of gate g
  | resumeSend (op : Nat)        -- harness: the resumer of suspend `op` is used or dropped
  | wakeupDropped                -- a sync caller drops its condition variable
  | beg (op : Nat) | end_ (op : Nat) | cancel (op : Nat) | free (q : Nat)
  | ret (op : Nat) (r : Nat)
  deriving DecidableEq, Repr, Hashable, Inhabited

/-! ### accessors and setters -/

def State.q? (s : State) (q : Nat) : Option JobQ := s.qs[q]?
def State.job? (s : State) (j : Nat) : Option Job := s.jobs[j]?
def State.act? (s : State) (a : Nat) : Option Act := s.acts[a]?

def State.setQ (s : State) (q : Nat) (v : JobQ) : State := { s with qs := s.qs.set q v }
def State.setJob (s : State) (j : Nat) (v : Job) : State := { s with jobs := s.jobs.set j v }
def State.setFut (s : State) (f : Nat) (v : Fut) : State := { s with futs := s.futs.set f v }
def State.setGate (s : State) (g : Nat) (v : Gate) : State := { s with gates := s.gates.set g v }
def State.setAct (s : State) (a : Nat) (v : Act) : State := { s with acts := s.acts.set a v }
def State.setSf (s : State) (u : Nat) (v : SyncFut) : State := { s with sfs := s.sfs.set u v }
def State.setPThr (s : State) (p : Nat) (v : PThr) : State := { s with pthreads := s.pthreads.set p v }
def State.setHolder (s : State) (q : Nat) (h : Option Nat) : State := { s with holder := s.holder.set q h }

/-- set the program counter of activity `a` -/
def State.goto (s : State) (a : Nat) (pc : Pc) : State :=
  match s.acts[a]? with
  | some v => s.setAct a { v with pc := pc }
  | none => s

def initState (nq : Nat) (ngates : Nat) (max : Nat) : State :=
  { qs := List.replicate nq { state := .idle, jobs := [], waiters := [] }
    jobs := [], futs := [], gates := List.replicate ngates { isOpen := false, waiting := [] }
    latches := [], doubles := [], pthreads := [], threadsVec := [], threadsLock := none
    schedule := [], schedLock := none, maxThreads := max, readyLock := [], ready := [], opFut := [], opSf := [], sfs := [], dropped := [], parkToken := [], taskWoken := []
    acts := [], nextOp := 0, holder := List.replicate nq none }

/-- Initial states in which some objects have already panicked (their operation's panic has finished unwinding): `ps[q] = true`
means queue `q` starts in state `panicked`.  C15 speaks about exactly the executions that start there. -/
def initStateP (ps : List Bool) (ngates : Nat) (max : Nat) : State :=
  { (initState ps.length ngates max) with
    qs := ps.map (fun p => { state := if p then .panicked else .idle, jobs := [], waiters := [] }) }

end Desync
