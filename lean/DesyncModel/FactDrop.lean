/- A structural fact read from /repo/src by the translator (Generated.lean), kept in its own module so that only the properties that rely on it depend on it. -/
import DesyncModel.Types
import DesyncModel.Generated

namespace Desync
open Gen

theorem drop_frees_through_sync : dropUses = ["sync", "sync_no_panic"] := by decide

/-- `Desync::drop` never releases the boxed value directly: every `Box::from_raw` sits inside the closure of a job it schedules on
the object's own queue (which is what the model's `Body.free` is) -/
theorem drop_frees_only_inside_its_job : dropFreesOutsideJob = 0 := by decide

end Desync
