/- A structural fact read from /repo/src by the translator (Generated.lean), kept in its own module so that only the properties that rely on it depend on it. -/
import DesyncModel.Types
import DesyncModel.Generated

namespace Desync
open Gen

theorem trySync_no_blocking_calls : trySyncBlockingCalls = [] := rfl

end Desync
