/-
All pipe invariants hold in every reachable state; what a state in which the pipe can do nothing more looks like.
-/
import DesyncModel.Pipe.Inv.Hist
import DesyncModel.Pipe.Inv.Idx
import DesyncModel.Pipe.Inv.Flag
import DesyncModel.Pipe.Inv.Reg
import DesyncModel.Pipe.Inv.Wake
import DesyncModel.Pipe.Inv.Cons
import DesyncModel.Pipe.Inv.End
import DesyncModel.Pipe.Inv.In
import DesyncModel.Pipe.Inv.Measure
namespace Desync.Pipe

structure PInv (s : PState) : Prop where
  hist : HistInv s
  idx : IdxInv s
  flag : FlagInv s
  reg : RegInv s
  wake : WakeInv s
  cons : ConsInv s
  fin : EndInv s
  inp : InInv s

theorem pinv_init (t : Bool) (d : Nat) : PInv (initP t d) :=
  ⟨histInv_init t d, idxInv_init t d, flagInv_init t d, regInv_init t d, wakeInv_init t d, consInv_init t d, endInv_init t d, inInv_init t d⟩

theorem pinv_step {s s' : PState} {l : Label} (h : PInv s) (hs : step s l = some s') : PInv s' :=
  ⟨histInv_step h.hist hs, idxInv_step h.idx hs, flagInv_step h.flag hs, regInv_step h.idx h.reg hs,
   wakeInv_step h.idx h.flag h.reg h.wake hs, consInv_step h.cons hs, endInv_step h.hist h.flag h.fin hs,
   inInv_step h.hist h.flag h.wake h.inp hs⟩

/-- **Every reachable state of the pipe model satisfies all invariants.** -/
theorem pinv_reachable {s : PState} (h : Reachable s) : PInv s := by
  induction h with
  | init t d => exact pinv_init t d
  | step l _ hs ih => exact pinv_step ih hs

/-- run a list of labels (used for the concrete witnesses next to the theorems) -/
def runLabels (s : PState) : List Label → Option PState
  | [] => some s
  | l :: ls => (step s l).bind (runLabels · ls)

theorem reachable_run {s s' : PState} {ls : List Label} (hr : Reachable s) (h : runLabels s ls = some s') : Reachable s' := by
  induction ls generalizing s with
  | nil => simp [runLabels] at h; exact h ▸ hr
  | cons l ls ih =>
    simp only [runLabels] at h
    cases hs : step s l with
    | none => simp [hs] at h
    | some s1 => rw [hs] at h; exact ih (Reachable.step l hr hs) h

theorem reachable_get (s : PState) (ls : List Label) (h : (runLabels s ls).isSome = true) (hr : Reachable s) :
    Reachable ((runLabels s ls).get h) :=
  reachable_run hr (Option.some_get h).symm

/-- A sequence of `n` steps of the pipe itself. -/
inductive InternalRun : PState → Nat → PState → Prop where
  | nil (s : PState) : InternalRun s 0 s
  | cons {s s' s'' : PState} {n : Nat} (l : Label) : internal l = true → step s l = some s' → InternalRun s' n s'' → InternalRun s (n + 1) s''

/-- the pipe cannot run forever by itself: every internal run from `s` has at most `measure s` steps -/
theorem internalRun_bounded {s s' : PState} {n : Nat} (h : InternalRun s n s') : n + measure s' ≤ measure s := by
  induction h with
  | nil s => simp
  | cons l hl hs _ ih => have := measure_decreases hl hs; omega

theorem internalRun_reachable {s s' : PState} {n : Nat} (hr : Reachable s) (h : InternalRun s n s') : Reachable s' := by
  induction h with
  | nil s => exact hr
  | cons l _ hs _ ih => exact ih (Reachable.step l hr hs)

/-- what `Stuck` means field by field -/
structure StuckFacts (s : PState) : Prop where
  job : s.job = none
  scheduled : s.scheduled = 0
  polling : s.polling = 0
  wakes : s.pendingWakes = []
  chute : s.chuteFn = false
  dropping : s.dropping = false
  onDrop : s.onDropQueued = false
  refs : s.pollFn = true → ctxRefs s = true
  streamD : s.pollFn = false → s.jobHoldsFn = false → s.streamDropped = true
  fnD : s.pollFn = false → s.jobHoldsFn = false → s.fnDropped = true

theorem stuck_job {s : PState} (h : Stuck s) : s.job = none := by
  cases hj : s.job with
  | none => rfl
  | some p =>
    obtain ⟨pc, k⟩ := p
    exfalso
    cases pc with
    | checkFull => have := h .prod (by rfl); simp only [step, hj, fin] at this; split at this <;> (try split at this) <;> simp at this
    | closedNotify => have := h .prod (by rfl); simp [step, hj] at this
    | clearNsc => have := h .prod (by rfl); simp [step, hj] at this
    | push v => have := h .prod (by rfl); simp [step, hj] at this
    | regNsc => have := h .prod (by rfl); simp only [step, hj] at this; split at this <;> simp at this
    | closeOut => have := h .prod (by rfl); simp [step, hj] at this
    | process v => have := h (.item v) (by rfl); simp [step, hj] at this
    | clearing => have := h .clearFn (by rfl); simp [step, hj] at this
    | pollInput =>
      cases hq : s.inq with
      | cons v rest => have := h (.yield v) (by rfl); simp [step, hj, hq] at this
      | nil =>
        cases hc : s.inClosed with
        | true => have := h .inEnd (by rfl); simp only [step, hj, hq, hc] at this; split at this <;> (try split at this) <;> simp_all
        | false => have := h .inPending (by rfl); simp only [step, hj, hq, hc] at this; split at this <;> (try split at this) <;> simp_all

theorem stuck_facts {s : PState} (hi : IdxInv s) (h : Stuck s) : StuckFacts s := by
  have hj := stuck_job h
  refine ⟨hj, ?_, ?_, ?_, ?_, ?_, ?_, ?_, ?_, ?_⟩
  · have := h .jobBegin (by rfl); simp only [step, hj] at this
    by_cases hz : s.scheduled = 0
    · exact hz
    · simp only [hz, ↓reduceIte] at this; split at this <;> (try split at this) <;> (try split at this) <;> simp at this
  · have := h .schedule (by rfl); simp only [step] at this
    by_cases hz : s.polling = 0
    · exact hz
    · simp [hz] at this
  · cases hw : s.pendingWakes with
    | nil => rfl
    | cons k rest =>
      exfalso
      have := h (.wakeK k) (by rfl)
      have hlt := hi.wakesLt k (by simp [hw])
      simp only [step, hw] at this
      simp only [List.contains_cons, BEq.rfl, Bool.true_or, Bool.not_true, Bool.false_eq_true, ↓reduceIte] at this
      rw [List.getElem?_eq_getElem hlt] at this
      cases hb : s.wakers[k] <;> simp [hb] at this
  · have := h .chuteRun (by rfl); simp only [step] at this
    cases hc : s.chuteFn <;> simp_all
  · have := h .dropDone (by rfl); simp only [step] at this
    cases hc : s.dropping <;> simp_all
  · have := h .dispose (by rfl); simp only [step] at this
    cases hc : s.onDropQueued <;> simp_all
  · intro hp
    have := h .ctxFree (by rfl); simp only [step] at this
    cases hc : ctxRefs s <;> simp_all
  · intro hp hh
    have hch : s.chuteFn = false := by
      have := h .chuteRun (by rfl); simp only [step] at this
      cases hc : s.chuteFn <;> simp_all
    have := h .streamDrop (by rfl); simp only [step] at this
    cases hc : s.streamDropped <;> simp_all
  · intro hp hh
    have hch : s.chuteFn = false := by
      have := h .chuteRun (by rfl); simp only [step] at this
      cases hc : s.chuteFn <;> simp_all
    have := h .fnDrop (by rfl); simp only [step] at this
    cases hc : s.fnDropped <;> simp_all

end Desync.Pipe
