/-
The case split shared by all invariant proofs of the pipe model: one goal per label and branch of `step`.
-/
import DesyncModel.Pipe.Model
namespace Desync.Pipe

syntax "step_cases " ident ident : tactic
macro_rules
  | `(tactic| step_cases $l:ident $hs:ident) => `(tactic| (
      cases $l:ident <;> simp only [step, fin, takeNotify, trigger] at $hs:ident
      all_goals (repeat' split at $hs:ident)
      all_goals (try (simp at $hs:ident; done))
      all_goals (simp only [Option.some.injEq] at $hs:ident; subst $hs:ident)))

end Desync.Pipe
