/-
The output stream is closed (while it is alive) only after the input has ended and every item has been pushed.
-/
import DesyncModel.Pipe.Inv.Hist
import DesyncModel.Pipe.Inv.Flag
namespace Desync.Pipe

structure EndInv (s : PState) : Prop where
  closeOutPc : ∀ k, s.job = some (.closeOut, k) → s.inClosed = true ∧ s.inq = []
  closedEnd : s.core.closed = true → s.outAlive = true → s.dropping = false →
    s.inClosed = true ∧ s.inq = [] ∧ s.pushed = s.sent.map f ∧ ((∃ k, s.job = some (.clearing, k)) ∨ (s.job = none ∧ s.pollFn = false))

theorem endInv_init (t : Bool) (d : Nat) : EndInv (initP t d) := by
  constructor <;> simp [initP]

set_option maxRecDepth 4000 in
set_option maxHeartbeats 4000000 in
theorem endInv_step {s s' : PState} {l : Label} (hh : HistInv s) (hf : FlagInv s) (h : EndInv s) (hs : step s l = some s') : EndInv s' := by
  obtain ⟨a1, a2, a3, a4⟩ := hh
  obtain ⟨h1, h2⟩ := h
  have f5 := hf.pipeIn
  step_cases l hs
  all_goals (constructor <;> first | grind [cur, curOut] | (simp_all [cur, curOut]; done) | (simp_all [cur, curOut]; grind))

end Desync.Pipe
