/-
No lost producer wake-up: while the poll function is installed and the pipe is neither running nor closed,
something will run the producer again.
-/
import DesyncModel.Pipe.Inv.Flag
import DesyncModel.Pipe.Inv.Reg
namespace Desync.Pipe

/-- Something will run the producer again: a scheduled or starting poll, a wake in progress, the consumer's next
read (back-pressure release), or the input's next event. -/
def WakeSource (s : PState) : Prop :=
  s.scheduled > 0 ∨ s.polling > 0 ∨ (∃ k, k ∈ s.pendingWakes ∧ armed s k = true)
  ∨ (s.through = true ∧ s.outAlive = true ∧ slotArmed s s.core.bp = true)
  ∨ (slotArmed s s.inWaker = true ∧ s.inq = [] ∧ s.inClosed = false)

structure WakeInv (s : PState) : Prop where
  wake : s.pollFn = true → (s.job = none ∨ ∃ k, s.job = some (.regNsc, k)) → (s.through = true → s.core.closed = false) → WakeSource s

theorem wakeInv_init (t : Bool) (d : Nat) : WakeInv (initP t d) := by
  constructor; simp [initP, WakeSource]

set_option maxRecDepth 4000 in
set_option maxHeartbeats 4000000 in
theorem wakeInv_step {s s' : PState} {l : Label} (hi : IdxInv s) (hf : FlagInv s) (hr : RegInv s) (h : WakeInv s) (hs : step s l = some s') : WakeInv s' := by
  obtain ⟨i1, i2, i3, i4, i5⟩ := hi
  obtain ⟨f0, f1, f2, f3, f4, f5, f6, f7, f8, f9, f10⟩ := hf
  obtain ⟨r1, r2, r3⟩ := hr
  obtain ⟨h1⟩ := h
  step_cases l hs
  all_goals (constructor; first | (grind [armed, slotArmed, preReg, keepsReg, WakeSource, jobActive, inPc]) | (simp_all [armed, slotArmed, preReg, keepsReg, WakeSource, jobActive, inPc]; done) | (simp_all [armed, slotArmed, preReg, keepsReg, WakeSource, jobActive, inPc]; grind))

end Desync.Pipe
