/-
No lost consumer wake-up: the consumer's waker never sits in the core while there is something to read.
-/
import DesyncModel.Pipe.Inv.Tactic
namespace Desync.Pipe

structure ConsInv (s : PState) : Prop where
  notifyOk : s.outAlive = true → s.dropping = false → s.core.notify = true → s.core.pending = [] ∧ s.core.closed = false
  waiting : s.consumerWaiting = true → s.core.notify = true ∨ s.consumerWoken = true

theorem consInv_init (t : Bool) (d : Nat) : ConsInv (initP t d) := by
  constructor <;> simp [initP]

set_option maxHeartbeats 2000000 in
theorem consInv_step {s s' : PState} {l : Label} (h : ConsInv s) (hs : step s l = some s') : ConsInv s' := by
  obtain ⟨h1, h2⟩ := h
  step_cases l hs
  all_goals (constructor <;> first | grind | (simp_all; done))

end Desync.Pipe
