/-
Every PipeWaker id held anywhere is a waker that exists.
-/
import DesyncModel.Pipe.Inv.Tactic
namespace Desync.Pipe

structure IdxInv (s : PState) : Prop where
  wakesLt : ∀ k ∈ s.pendingWakes, k < s.wakers.length
  jobLt : ∀ pc k, s.job = some (pc, k) → k < s.wakers.length
  inLt : ∀ k, s.inWaker = some k → k < s.wakers.length
  nscLt : ∀ k, s.core.nsc = some k → k < s.wakers.length
  bpLt : ∀ k, s.core.bp = some k → k < s.wakers.length

theorem idxInv_init (t : Bool) (d : Nat) : IdxInv (initP t d) := by
  constructor <;> simp [initP]

set_option maxHeartbeats 2000000 in
theorem idxInv_step {s s' : PState} {l : Label} (h : IdxInv s) (hs : step s l = some s') : IdxInv s' := by
  obtain ⟨h1, h2, h3, h4, h5⟩ := h
  step_cases l hs
  all_goals (constructor <;> first | (simp_all; done) | (simp_all; grind) | grind)

end Desync.Pipe
