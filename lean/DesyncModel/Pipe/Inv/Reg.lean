/-
Where the producer's wakers are registered.  `reg` is the invariant behind C16: while no poll operation is
running (or one has only just started), an armed waker that the input holds is also the one in
`notify_stream_closed` of a core that is not closed — so dropping the output stream, which takes that slot and
wakes it, reaches the producer — or its wake is already on its way.
-/
import DesyncModel.Pipe.Inv.Idx
namespace Desync.Pipe

/-- the poll operation has not handed its waker to anyone yet -/
def preReg : PJ → Bool
  | .regNsc | .clearing => false
  | _ => true

/-- the pcs at which the registration made by an earlier poll operation still stands -/
def keepsReg : PJ → Bool
  | .checkFull | .closedNotify => true
  | _ => false

structure RegInv (s : PState) : Prop where
  fresh : ∀ pc k, s.job = some (pc, k) → preReg pc = true →
    armed s k = true ∧ k ∉ s.pendingWakes ∧ s.inWaker ≠ some k ∧ s.core.nsc ≠ some k ∧ s.core.bp ≠ some k
  regIn : ∀ k, s.job = some (.regNsc, k) → s.inWaker = some k ∨ s.inWaker = none
  reg : s.through = true → s.pollFn = true → (s.job = none ∨ ∃ pc k', s.job = some (pc, k') ∧ keepsReg pc = true) →
    ∀ k, s.inWaker = some k → armed s k = true → (s.core.nsc = some k ∧ s.core.closed = false) ∨ k ∈ s.pendingWakes

theorem regInv_init (t : Bool) (d : Nat) : RegInv (initP t d) := by
  constructor <;> simp [initP]

set_option maxRecDepth 4000 in
set_option maxHeartbeats 4000000 in
theorem regInv_step {s s' : PState} {l : Label} (hi : IdxInv s) (h : RegInv s) (hs : step s l = some s') : RegInv s' := by
  obtain ⟨i1, i2, i3, i4, i5⟩ := hi
  obtain ⟨h1, h2, h3⟩ := h
  step_cases l hs
  all_goals (constructor <;> first | (grind [armed, preReg, keepsReg]) | (simp_all [armed, preReg, keepsReg]; done))

end Desync.Pipe
