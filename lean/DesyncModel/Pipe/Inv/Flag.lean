/-
Relations between the flags of the model: who owns the stream core, the poll function, the target reference.
-/
import DesyncModel.Pipe.Inv.Tactic
namespace Desync.Pipe

/-- the running poll operation's future is alive (the poll function has not returned yet) -/
def jobActive (s : PState) : Bool :=
  match s.job with
  | some (.clearing, _) => false
  | some _ => true
  | none => false

/-- the pcs of a `pipe_in` poll operation -/
def inPc : PJ → Bool
  | .pollInput | .process _ | .clearing => true
  | _ => false

structure FlagInv (s : PState) : Prop where
  inPcs : s.through = false → ∀ pc k, s.job = some (pc, k) → inPc pc = true
  hasCore : s.jobHasCore = true → s.jobHoldsFn = true
  holdsFn : s.jobHoldsFn = jobActive s
  dropOut : s.dropping = true → s.outAlive = true
  closedDrop : s.through = true → (s.outAlive = false ∨ s.dropping = true) → s.core.closed = true
  pipeIn : s.through = false → s.outAlive = false ∧ s.dropping = false ∧ s.jobHasCore = false ∧ s.strongHeld = false
  strong : (s.outAlive = false ∨ s.dropping = true) → s.onDropQueued = true ∨ s.strongHeld = false
  dropped : (s.streamDropped = true ∨ s.fnDropped = true) → s.pollFn = false ∧ s.jobHoldsFn = false ∧ s.chuteFn = false
  chute : s.chuteFn = true → s.pollFn = false
  freed : s.ctxFreed = true → s.pollFn = false
  gone : s.targetGone = true → s.pollFn = false

theorem flagInv_init (t : Bool) (d : Nat) : FlagInv (initP t d) := by
  constructor <;> simp [initP, jobActive]

set_option maxRecDepth 4000 in
set_option maxHeartbeats 2000000 in
theorem flagInv_step {s s' : PState} {l : Label} (h : FlagInv s) (hs : step s l = some s') : FlagInv s' := by
  obtain ⟨h0, h1, h2, h3, h4, h5, h6, h7, h8, h9, h10⟩ := h
  step_cases l hs
  all_goals (constructor <;> first | (grind [jobActive, inPc]) | (simp_all [jobActive, inPc]; done))

end Desync.Pipe
