/-
`pipe_in`: the poll function goes away only after the input has ended and every item has been processed,
or because the target Desync is gone.
-/
import DesyncModel.Pipe.Inv.Hist
import DesyncModel.Pipe.Inv.Wake
namespace Desync.Pipe

theorem ctxRefs_of_wakeSource {s : PState} (h : WakeSource s) : ctxRefs s = true := by
  unfold WakeSource at h
  unfold ctxRefs coreLive
  rcases h with h | h | ⟨k, hk, ha⟩ | ⟨_, ho, hb⟩ | ⟨hi, _, _⟩
  · simp [h]
  · simp [h]
  · have : s.pendingWakes.any (armed s) = true := List.any_eq_true.mpr ⟨k, hk, ha⟩
    simp [this]
  · simp [ho, hb]
  · simp [hi]

theorem job_none_of_not_ctxRefs {s : PState} (h : ctxRefs s = false) : s.job = none := by
  unfold ctxRefs at h
  cases hj : s.job <;> simp_all

structure InInv (s : PState) : Prop where
  done : s.through = false → s.targetGone = false → (s.pollFn = false ∨ ∃ k, s.job = some (.clearing, k)) →
    s.inClosed = true ∧ s.inq = [] ∧ s.processed = s.sent
  closedPc : ∀ k, s.job = some (.closedNotify, k) → s.core.closed = true
  doneOut : s.through = true → s.targetGone = false → s.outAlive = true → (s.pollFn = false ∨ ∃ k, s.job = some (.clearing, k)) →
    s.core.closed = true

theorem inInv_init (t : Bool) (d : Nat) : InInv (initP t d) := by
  constructor <;> simp [initP]

set_option maxRecDepth 4000 in
set_option maxHeartbeats 4000000 in
theorem inInv_step {s s' : PState} {l : Label} (hh : HistInv s) (hf : FlagInv s) (hw : WakeInv s) (h : InInv s) (hs : step s l = some s') : InInv s' := by
  obtain ⟨a1, a2, a3, a4⟩ := hh
  obtain ⟨h1, h3, h2⟩ := h
  have f0 := hf.inPcs
  have w := hw.wake
  have cr := @ctxRefs_of_wakeSource s
  have cj := @job_none_of_not_ctxRefs s
  step_cases l hs
  all_goals (constructor <;> first | grind [cur, curOut, inPc] | (simp_all [cur, curOut, inPc]; done) | (simp_all [cur, curOut, inPc]; grind))

end Desync.Pipe
