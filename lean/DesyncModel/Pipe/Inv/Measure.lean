/-
Termination of the pipe's own steps: a measure that every internal step decreases.  Between two actions of the
environment (an item sent, a read by the consumer, ...) the pipe therefore takes at most `measure s` steps.
-/
import DesyncModel.Pipe.Inv.Tactic
namespace Desync.Pipe

def rank : PJ → Nat
  | .checkFull => 9 | .closedNotify => 8 | .process _ => 7 | .push _ => 6 | .clearNsc => 5 | .pollInput => 4
  | .regNsc => 3 | .closeOut => 3 | .clearing => 1

def jobRank (s : PState) : Nat := match s.job with | some (pc, _) => rank pc | none => 0

def b (x : Bool) : Nat := if x then 1 else 0

def measure (s : PState) : Nat :=
  10 * s.inq.length + 80 * s.pendingWakes.length + 40 * s.polling + 20 * s.scheduled + jobRank s
  + b s.dropping + b s.onDropQueued + b s.chuteFn + b s.pollFn + b (!s.streamDropped) + b (!s.fnDropped)

set_option maxRecDepth 4000 in
set_option maxHeartbeats 4000000 in
theorem measure_decreases {s s' : PState} {l : Label} (hl : internal l = true) (hs : step s l = some s') : measure s' < measure s := by
  step_cases l hs
  all_goals (try (simp [internal] at hl; done))
  all_goals (simp only [measure, jobRank, rank, b] <;> first | grind | (simp_all; omega) | (simp_all; grind))

end Desync.Pipe
