/-
Replay of the pipe-related events of an implementation trace through the pipe model.
Only events about pipe objects are looked at (the scheduler events of the same trace are the
business of `DesyncModel.Exec`); each one is turned into a model label, the step must be enabled, and
after every critical section the model's fields must equal the snapshot the implementation logged.
-/
import DesyncModel.Pipe.Model
import DesyncModel.Generated

namespace Desync.Pipe

abbrev Assoc (β : Type) := List (Nat × β)

def Assoc.get {β} (m : Assoc β) (k : Nat) : Option β := (m.find? (·.1 == k)).map (·.2)
def Assoc.put {β} (m : Assoc β) (k : Nat) (v : β) : Assoc β := (k, v) :: m.filter (·.1 != k)
def Assoc.del {β} (m : Assoc β) (k : Nat) : Assoc β := m.filter (·.1 != k)

structure PReplay where
  pipes : Assoc PState := []          -- channel -> model state
  fOf : Assoc Nat := []               -- F id -> channel
  pOf : Assoc Nat := []               -- P id -> channel
  kOf : Assoc (Nat × Nat) := []       -- K id -> (channel, model waker)
  streamOf : Assoc Nat := []          -- output stream -> channel
  pendingK : Assoc Nat := []          -- agent -> K id created, poll operation about to begin
  pendingPoll : Assoc Nat := []       -- agent -> channel: PipeContext::poll in progress
  pendingTW : Assoc Nat := []         -- agent -> channel: took the consumer's waker, must wake it now
  inCall : Assoc (String × Nat) := [] -- agent -> (call kind, channel)
  jobAgent : Assoc Nat := []          -- channel -> agent running its poll operation
  begun : Assoc Nat := []             -- agent -> channel: its poll operation began at `acq F`, the `cs F` is still to come
  setDepth : Assoc Nat := []          -- agent -> depth about to be set
  lastCons : Assoc String := []       -- agent -> outcome of the last consumer poll
  lastP : Assoc Nat := []             -- agent -> channel of its last core critical section
  preSent : Assoc (List Nat) := []    -- channel -> items sent before the pipe existed
  preClosed : List Nat := []          -- channels closed before the pipe existed
  hits : List String := []            -- labels applied (coverage)
  deriving Inhabited

def labelName : Label → String
  | .send _ => "send" | .close => "close" | .wakeK _ => "wakeK" | .schedule => "schedule" | .ctxDead => "ctxDead"
  | .jobBegin => "jobBegin" | .prod => "prod" | .inPending => "inPending" | .inEnd => "inEnd" | .yield _ => "yield"
  | .item _ => "item" | .streamDrop => "streamDrop" | .fnDrop => "fnDrop" | .clearFn => "clearFn" | .cons => "cons"
  | .chuteRun => "chuteRun" | .ctxFree => "ctxFree"
  | .taskWake => "taskWake" | .dropLock => "dropLock" | .dropDone => "dropDone" | .dispose => "dispose" | .setDepth _ => "setDepth"

def allLabelNames : List String :=
  ["send", "close", "wakeK", "schedule", "ctxDead", "jobBegin", "prod", "inPending", "inEnd", "yield", "item",
   "streamDrop", "fnDrop", "clearFn", "chuteRun", "ctxFree", "cons", "taskWake", "dropLock", "dropDone", "setDepth"]

def pjName : PJ → String
  | .checkFull => "checkFull" | .closedNotify => "closedNotify" | .clearNsc => "clearNsc" | .pollInput => "pollInput"
  | .process _ => "process" | .push _ => "push" | .regNsc => "regNsc" | .closeOut => "closeOut"
  | .clearing => "clearing"

def describe (s : PState) : String :=
  let j := match s.job with | some (p, k) => s!"{pjName p}/k{k}" | none => "-"
  s!"job={j} sched={s.scheduled} polling={s.polling} wakes={s.pendingWakes} wakers={s.wakers} inq={s.inq} inClosed={s.inClosed} inWaker={s.inWaker} core=({s.core.pending.length} {s.core.depth} {s.core.closed} {s.core.notify} {s.core.nsc} {s.core.bp}) out={s.outAlive} pollFn={s.pollFn} chute={s.chuteFn} sd={s.streamDropped} fd={s.fnDropped}"

/-- apply one label to the pipe on channel `c` -/
def apply (r : PReplay) (c : Nat) (l : Label) : Except String (PReplay × PState) :=
  match r.pipes.get c with
  | none => .error s!"no pipe on channel {c}"
  | some s =>
    let nm := match l, s.job with
      | .prod, some (p, _) => s!"prod-{pjName p}"
      | _, _ => labelName l
    match step s l with
    | some s' => .ok ({ r with pipes := r.pipes.put c s', hits := nm :: r.hits }, s')
    | none => .error s!"the model cannot take step `{nm}` on channel {c}: {describe s}"

/-- the silent steps that let go of the poll function (they have no event of their own; what the trace shows
is the destructor that follows) -/
def release (r : PReplay) (c : Nat) : Except String PReplay :=
  match r.pipes.get c with
  | none => .error s!"no pipe on channel {c}"
  | some s =>
    if s.chuteFn then (apply r c .chuteRun).map (·.1)
    else if s.pollFn && s.job.isNone then (apply r c .ctxFree).map (·.1)
    else .ok r

/-- the events of a poll operation come from the agent that began it (the operation runs on one thread, inside the
target's queue) -/
def byJob (r : PReplay) (ag c : Nat) : Except String PReplay :=
  if r.jobAgent.get c == some ag then .ok r else .error s!"an event of the poll operation of channel {c} comes from agent {ag}, which is not running it"

def snapshotOf (s : PState) : String :=
  s!"{s.core.pending.length} {s.core.depth} {s.core.closed} {s.core.notify} {s.core.nsc.isSome} {s.core.bp.isSome}"

def parseId (nm : String) : Nat := (String.ofList (nm.toList.drop 1)).toNat?.getD 0
def kindOf (nm : String) : String := String.ofList (nm.toList.take 1)
def natD (s : String) : Nat := s.toNat?.getD 0

/-- Replay one event. -/
def replayEvent (r : PReplay) (ag : Nat) (ws : List String) : Except String PReplay := do
  match ws with
  | [] => return r
  | kind :: args =>
    -- 1. obligations left by this agent's previous event
    let r ← (match r.pendingTW.get ag with
      | some c =>
        if kind == "taskwake" then
          (do let (r1, _) ← apply r c .taskWake
              pure { r1 with pendingTW := r1.pendingTW.del ag })
        else .error s!"the consumer's waker of channel {c} was taken out of the core but not woken"
      | none =>
        if kind == "taskwake" then .error "the consumer was woken although the model took no waker" else pure r)
    if kind == "taskwake" then return r
    let onF := (kind == "acq" || kind == "cs") && kindOf (args.getD 0 "") == "F"
    let r ← (match r.pendingPoll.get ag with
      | some c =>
        if onF then pure r
        else (do let (r1, _) ← apply r c .schedule
                 pure { r1 with pendingPoll := r1.pendingPoll.del ag })
      | none => pure r)
    -- 2. the event itself
    match kind with
    | "inv" =>
      let k := args.getD 1 ""
      if k == "pipe" || k == "pipein" then
        let c := natD (args.getD 3 "")
        let through := k == "pipe"
        let s0 := initP through Gen.pipeDefaultDepth
        let pre := (r.preSent.get c).getD []
        let s0 := { s0 with inq := pre, sent := pre, inClosed := r.preClosed.contains c }
        let r1 := { r with pipes := r.pipes.put c s0, inCall := r.inCall.put ag (k, c) }
        return (if through then { r1 with streamOf := r1.streamOf.put (natD (args.getD 4 "")) c } else r1)
      else if k == "next" || k == "dropout" then
        match r.streamOf.get (natD (args.getD 2 "")) with
        | some c => return { r with inCall := r.inCall.put ag (k, c), lastCons := r.lastCons.del ag }
        | none => .error "operation on an output stream the model does not know"
      else return { r with inCall := r.inCall.put ag (k, 0) }
    | "ret" =>
      match r.inCall.get ag with
      | some ("next", _) =>
        let want := match r.lastCons.get ag with | some x => x | none => "?"
        if want != args.getD 1 "" then .error s!"the consumer's poll returned `{args.getD 1 ""}`, the model's `{want}`"
        else return { r with inCall := r.inCall.del ag }
      | _ => return { r with inCall := r.inCall.del ag }
    | "obs" =>
      let nm := args.getD 0 ""
      let id := parseId nm
      match kindOf nm, r.inCall.get ag with
      | "F", some (_, c) => return { r with fOf := r.fOf.put id c }
      | "P", some (_, c) => return { r with pOf := r.pOf.put id c }
      | "K", _ => return { r with pendingK := r.pendingK.put ag id }
      | _, _ => .error s!"pipe object {nm} created outside a pipe call"
    | "chsend" =>
      let c := natD (args.getD 0 "")
      if (r.pipes.get c).isNone then return { r with preSent := r.preSent.put c ((r.preSent.get c).getD [] ++ [natD (args.getD 1 "")]) }
      let (r1, _) ← apply r c (.send (natD (args.getD 1 "")))
      return r1
    | "chclose" =>
      let c := natD (args.getD 0 "")
      if (r.pipes.get c).isNone then return { r with preClosed := c :: r.preClosed }
      let (r1, _) ← apply r c .close
      return r1
    | "setdepth" =>
      return { r with setDepth := r.setDepth.put ag (natD (args.getD 1 "")) }
    | "acq" =>
      let nm := args.getD 0 ""
      if kindOf nm == "P" then
        match r.inCall.get ag, r.pOf.get (parseId nm) with
        | some ("dropout", _), some c =>
          let (r1, _) ← apply r c .dropLock
          return r1
        | _, _ => return r
      else if kindOf nm == "F" then
        -- a poll operation begins: the weak core reference is upgraded right after this lock is taken,
        -- while the `cs` event of the same section is only logged after a scheduling point
        match r.pendingK.get ag, r.fOf.get (parseId nm) with
        | some kid, some c =>
          let k := match r.pipes.get c with | some s => s.wakers.length | none => 0
          let (r1, _) ← apply r c .jobBegin
          return { r1 with kOf := r1.kOf.put kid (c, k), pendingK := r1.pendingK.del ag, begun := r1.begun.put ag c, jobAgent := r1.jobAgent.put c ag }
        | none, some c =>
          -- `*poll_fn = None`: the old value is destroyed while the lock is held, before the `cs` event
          if (r.pendingPoll.get ag).isSome then return r else
          if r.jobAgent.get c != some ag then .error s!"the poll function of channel {c} is cleared outside its poll operation (by agent {ag})" else
          let (r1, _) ← apply r c .clearFn
          return { r1 with begun := r1.begun.put ag c }
        | _, _ => return r
      else return r
    | "cs" =>
      let nm := args.getD 0 ""
      let id := parseId nm
      match kindOf nm with
      | "K" =>
        match r.kOf.get id with
        | none => .error s!"wake of an unknown PipeWaker {nm}"
        | some (c, k) =>
          let wasArmed := match r.pipes.get c with | some s => armed s k | none => false
          let (r1, _) ← apply r c (.wakeK k)
          if args.getD 1 "" != "spent" then .error "a PipeWaker still holds its context after wake"
          else return (if wasArmed then { r1 with pendingPoll := r1.pendingPoll.put ag c } else r1)
      | "F" =>
        match r.fOf.get id with
        | none => .error s!"unknown poll function slot {nm}"
        | some c =>
          match r.begun.get ag, r.pendingPoll.get ag with
          | some _, _ =>
            let want := match r.pipes.get c with | some s => (if s.pollFn then "some" else "none") | none => "?"
            if args.getD 1 "" != want then .error s!"poll function slot is `{args.getD 1 ""}`, the model's `{want}`"
            else return { r with begun := r.begun.del ag }
          | none, some c' =>
            if c' != c then .error "PipeContext::poll touched another pipe's poll function" else
            let (r1, _) ← apply r c .ctxDead
            if args.getD 1 "" != "none" then .error "the poll function was not taken by the dead-target path"
            else return { r1 with pendingPoll := r1.pendingPoll.del ag }
          | none, none => .error "critical section on a poll function slot outside a poll operation"
      | "P" =>
        match r.pOf.get id with
        | none => .error s!"unknown stream core {nm}"
        | some c =>
          let call := r.inCall.get ag
          let (r1, s', woke) ← (match call, r.setDepth.get ag with
            | _, some n => (do
                let (r1, s') ← apply r c (.setDepth n)
                pure ({ r1 with setDepth := r1.setDepth.del ag }, s', false))
            | some ("next", _), _ => (do
                let pre := (r.pipes.get c).getD default
                let (r1, s') ← apply r c .cons
                let out := if s'.delivered.length > pre.delivered.length then "item" else if s'.ended then "end" else "pending"
                pure ({ r1 with lastCons := r1.lastCons.put ag out }, s', false))
            | some ("dropout", _), _ => (do
                let (r1, s') ← apply r c .dropDone
                pure (r1, s', false))
            | _, _ => (do
                if r.jobAgent.get c != some ag then throw s!"a producer-side critical section of channel {c} outside its poll operation (agent {ag})"
                let pre := (r.pipes.get c).getD default
                let (r1, s') ← apply r c .prod
                pure (r1, s', pre.core.notify && !s'.core.notify)))
          let snap := " ".intercalate (args.drop 1)
          if snap != snapshotOf s' then .error s!"stream core is `{snap}`, the model's `{snapshotOf s'}`"
          else
            let r2 := { r1 with lastP := r1.lastP.put ag c }
            return (if woke then { r2 with pendingTW := r2.pendingTW.put ag c } else r2)
      | _ => return r
    | "inpending" => let r ← byJob r ag (natD (args.getD 0 "")); let (r1, _) ← apply r (natD (args.getD 0 "")) .inPending; return r1
    | "inend" => let r ← byJob r ag (natD (args.getD 0 "")); let (r1, _) ← apply r (natD (args.getD 0 "")) .inEnd; return r1
    | "yielded" => let r ← byJob r ag (natD (args.getD 0 "")); let (r1, _) ← apply r (natD (args.getD 0 "")) (.yield (natD (args.getD 1 ""))); return r1
    | "pitem" => let r ← byJob r ag (natD (args.getD 0 "")); let (r1, _) ← apply r (natD (args.getD 0 "")) (.item (natD (args.getD 1 ""))); return r1
    | "streamdrop" => let r0 ← release r (natD (args.getD 0 "")); let (r1, _) ← apply r0 (natD (args.getD 0 "")) .streamDrop; return r1
    | "fndrop" => let r0 ← release r (natD (args.getD 0 "")); let (r1, _) ← apply r0 (natD (args.getD 0 "")) .fnDrop; return r1
    | _ => return r

/-- at the end of an execution that ran to quiescence -/
def quietCheck (r : PReplay) : Option String :=
  r.pipes.findSome? (fun (c, s) =>
    if s.job.isSome then some s!"channel {c}: the model's poll operation has not finished: {describe s}"
    else if s.scheduled > 0 ∨ s.polling > 0 ∨ s.pendingWakes ≠ [] then some s!"channel {c}: the model still has poll work outstanding: {describe s}"
    else none)

end Desync.Pipe
