/-
The `Pipe` model: src/pipe.rs over an abstract ordered executor.

One pipe = an input stream, a `PipeContext` (weak target, poll function), one-shot `PipeWaker`s,
and for `pipe` (as opposed to `pipe_in`) a `PipeStreamCore` with its three waker slots.  The target
Desync is abstracted to what C01–C03 establish for it: poll operations scheduled on it are started
one at a time (`scheduled` counter, `job`).  Every step is one critical section of pipe.rs or one
harness-visible event; the labels carry what the trace shows.

Ownership is part of the model, because shutting a pipe down happens in two ways in the code: the
poll operation returns `false` and clears the poll function, or the last owner of the `PipeContext`
goes away.  Owners of the context are: scheduled and running poll operations, `PipeContext::poll`
calls in progress, and *armed* `PipeWaker`s that are still held somewhere (a slot of the stream core
while the core is alive, the input channel until it wakes or replaces it, or a `wake` call in progress).  The
input stream is owned by the poll function, which is owned by the context: a waker registered with
the input stream and nowhere else is a cycle that only the input can break.
-/
namespace Desync.Pipe

/-- the function applied by the processing closure (the harness uses 2x+1) -/
def f (v : Nat) : Nat := 2 * v + 1

structure Core where
  pending : List Nat
  closed : Bool
  notify : Bool                 -- consumer's waker stored
  nsc : Option Nat              -- notify_stream_closed: a PipeWaker id
  bp : Option Nat               -- backpressure_release_notify
  depth : Nat
  deriving DecidableEq, Repr, Inhabited

/-- program counter of the running poll operation -/
inductive PJ where
  | checkFull                   -- pipe(): `pending.len() >= max_pipe_depth`, read `closed`
  | closedNotify                -- closed: take the consumer's waker, return false
  | clearNsc                    -- loop head: `notify_stream_closed = None`
  | pollInput                   -- `poll_next_unpin` on the input
  | process (v : Nat)           -- the processing closure runs on item v
  | push (v : Nat)              -- push the output, take the consumer's waker
  | regNsc                      -- Pending: re-check `closed`, register `notify_stream_closed`
  | closeOut                    -- None: `closed = true`, take the consumer's waker
  | clearing                    -- the poll function returned false: about to lock the slot for `*poll_fn = None`
  deriving DecidableEq, Repr, Inhabited

structure PState where
  through : Bool                -- `pipe` (true) or `pipe_in`
  inq : List Nat                -- items sent, not yet yielded
  inClosed : Bool
  inWaker : Option Nat          -- PipeWaker registered with the input stream
  core : Core
  outAlive : Bool               -- the output stream has not been dropped
  dropping : Bool               -- PipeStream::drop holds the core lock
  jobHasCore : Bool             -- the running poll operation upgraded its weak core reference
  jobHoldsFn : Bool             -- the running poll operation's future shares the input stream and the closure
  pollFn : Bool                 -- PipeContext.poll_fn is Some
  wakers : List Bool            -- PipeWaker id -> still holds its context ("armed")
  pendingWakes : List Nat       -- PipeWakers whose wake() has been called and has not yet taken the context
  polling : Nat                 -- PipeContext::poll calls in progress
  scheduled : Nat               -- poll operations accepted by the target and not yet started
  job : Option (PJ × Nat)       -- the running poll operation and its PipeWaker id
  chuteFn : Bool                -- a poll function taken by the dead-target path is owned by a closure on the disposal queue
  ctxFreed : Bool               -- the context lost its last owner
  targetGone : Bool             -- PipeContext::poll found the target Desync gone
  onDropQueued : Bool           -- the output stream's on_drop closure waits on the disposal queue
  strongHeld : Bool             -- the strong target reference kept by the output stream
  consumerWaiting : Bool
  consumerWoken : Bool
  -- ghost history
  sent : List Nat
  yielded : List Nat
  processed : List Nat
  pushed : List Nat
  delivered : List Nat
  streamDropped : Bool
  fnDropped : Bool
  ended : Bool                  -- the consumer has received None
  deriving DecidableEq, Repr, Inhabited

def initP (through : Bool) (depth : Nat) : PState :=
  { through := through, inq := [], inClosed := false, inWaker := none,
    core := { pending := [], closed := false, notify := false, nsc := none, bp := none, depth := depth },
    outAlive := through, dropping := false, jobHasCore := false, jobHoldsFn := false, pollFn := true, wakers := [], pendingWakes := [],
    polling := 0,
    scheduled := 1,   -- pipe()/pipe_in() trigger the initial poll themselves
    job := none, chuteFn := false, ctxFreed := false, targetGone := false, onDropQueued := false, strongHeld := through,
    consumerWaiting := false, consumerWoken := false,
    sent := [], yielded := [], processed := [], pushed := [], delivered := [],
    streamDropped := false, fnDropped := false, ended := false }

inductive Label where
  | send (v : Nat)              -- harness: unbounded_send
  | close                       -- harness: last sender dropped
  | wakeK (k : Nat)             -- PipeWaker::wake_by_ref: critical section on its context slot
  | schedule                    -- PipeContext::poll, target alive: future_desync
  | ctxDead                     -- PipeContext::poll, target gone: take the poll function, queue its disposal
  | jobBegin                    -- a poll operation starts: locks poll_fn, builds the future
  | prod                        -- a producer-side critical section on the stream core
  | inPending | inEnd           -- the input stream returned Pending / Ready(None)
  | yield (v : Nat)             -- the input stream yields item v to the poll function
  | item (v : Nat)              -- the processing closure is invoked on v
  | clearFn                     -- `*poll_fn = None` after the poll function returned false
  | chuteRun                    -- the disposal closure of the dead-target path runs and lets go of the poll function
  | ctxFree                     -- the last owner of the context has gone: the context lets go of the poll function
  | streamDrop | fnDrop         -- destructors of the input stream and of the processing closure (no owner is left)
  | cons                        -- the consumer's poll_next critical section
  | taskWake                    -- the consumer's waker is invoked
  | dropLock                    -- PipeStream::drop takes the core lock and does its work
  | dropDone                    -- PipeStream::drop releases the lock; the stream's core reference goes
  | dispose                     -- the on_drop closure runs on the disposal queue
  | setDepth (n : Nat)
  deriving DecidableEq, Repr

def armed (s : PState) (k : Nat) : Bool := s.wakers[k]? == some true

def slotArmed (s : PState) (w : Option Nat) : Bool :=
  match w with
  | some k => armed s k
  | none => false

/-- the stream core is alive: the output stream or the running poll operation owns it -/
def coreLive (s : PState) : Bool := s.outAlive || s.jobHasCore

/-- the context still has an owner -/
def ctxRefs (s : PState) : Bool :=
  decide (s.scheduled > 0) || decide (s.polling > 0) || s.job.isSome
  || s.pendingWakes.any (armed s)
  || slotArmed s s.inWaker
  || (coreLive s && (slotArmed s s.core.nsc || slotArmed s s.core.bp))

/-- wake the consumer's stored waker, if any -/
def takeNotify (s : PState) : PState :=
  if s.core.notify then { s with core := { s.core with notify := false }, consumerWoken := true } else s

/-- call `wake` on a PipeWaker taken out of a slot -/
def trigger (s : PState) (w : Option Nat) : PState :=
  match w with
  | some k => { s with pendingWakes := s.pendingWakes ++ [k] }
  | none => s

/-- the poll function returned `keep` -/
def fin (s : PState) (keep : Bool) (k : Nat) : PState :=
  if keep then { s with job := none, jobHasCore := false, jobHoldsFn := false }
  else { s with job := some (.clearing, k), jobHasCore := false, jobHoldsFn := false }

def step (s : PState) : Label → Option PState
  | .send v =>
      if s.inClosed then none
      else if s.streamDropped then some s          -- the receiver is gone: the send fails
      else
        let s1 := { s with inq := s.inq ++ [v], sent := s.sent ++ [v], inWaker := none }
        some (trigger s1 s.inWaker)
  | .close =>
      if s.inClosed then none
      -- the channel's shared state outlives the receiver: the registered waker is woken even when the stream is gone
      else some (trigger { s with inClosed := true, inWaker := none } s.inWaker)
  | .wakeK k =>
      if !s.pendingWakes.contains k then none else
      let s1 := { s with pendingWakes := s.pendingWakes.erase k }
      match s.wakers[k]? with
      | some true => some { s1 with wakers := s.wakers.set k false, polling := s.polling + 1 }
      | some false => some s1
      | none => none
  | .schedule =>
      if s.polling = 0 then none else some { s with polling := s.polling - 1, scheduled := s.scheduled + 1 }
  | .ctxDead =>
      if s.polling = 0 then none else
      if s.pollFn then some { s with polling := s.polling - 1, pollFn := false, chuteFn := true, targetGone := true }
      else some { s with polling := s.polling - 1, targetGone := true }
  | .jobBegin =>
      match s.job with
      | some _ => none
      | none =>
        if s.scheduled = 0 then none else
        let k := s.wakers.length
        let s1 := { s with scheduled := s.scheduled - 1, wakers := s.wakers ++ [true] }
        if !s.pollFn then some s1      -- nothing to poll any more
        else if s.through then
          if s.outAlive then some { s1 with job := some (.checkFull, k), jobHasCore := true, jobHoldsFn := true }
          else some { s1 with job := some (.clearing, k) }     -- the stream core has been released: return false
        else some { s1 with job := some (.pollInput, k), jobHoldsFn := true }
  | .prod =>
      match s.job with
      | some (.checkFull, k) =>
        if s.core.pending.length ≥ s.core.depth then
          some (fin { s with core := { s.core with bp := some k } } true k)
        else if s.core.closed then some { s with job := some (.closedNotify, k) }
        else some { s with job := some (.clearNsc, k) }
      | some (.closedNotify, k) => some (fin (takeNotify s) false k)
      | some (.clearNsc, k) => some { s with core := { s.core with nsc := none }, job := some (.pollInput, k) }
      | some (.push v, k) =>
        let s1 := { s with core := { s.core with pending := s.core.pending ++ [f v] }, pushed := s.pushed ++ [f v] }
        some { takeNotify s1 with job := some (.clearNsc, k) }
      | some (.regNsc, k) =>
        if s.core.closed then some (fin s false k)
        else some (fin { s with core := { s.core with nsc := some k } } true k)
      | some (.closeOut, k) =>
        let s1 := { s with core := { s.core with closed := true } }
        some (fin (takeNotify s1) false k)
      | _ => none
  | .inPending =>
      match s.job with
      | some (.pollInput, k) =>
        if s.inq ≠ [] ∨ s.inClosed then none else
        -- the input keeps the waker it was polled with
        let s1 := { s with inWaker := some k }
        if s.through then some { s1 with job := some (.regNsc, k) } else some (fin s1 true k)
      | _ => none
  | .inEnd =>
      match s.job with
      | some (.pollInput, k) =>
        if s.inq ≠ [] ∨ !s.inClosed then none else
        if s.through then some { s with job := some (.closeOut, k) } else some (fin s false k)
      | _ => none
  | .yield v =>
      match s.job with
      | some (.pollInput, k) =>
        (match s.inq with
         | v' :: rest => if v' = v then some { s with inq := rest, yielded := s.yielded ++ [v], job := some (.process v, k) } else none
         | [] => none)
      | _ => none
  | .item v =>
      match s.job with
      | some (.process v', k) =>
        if v' ≠ v then none else
        some { s with processed := s.processed ++ [v], job := some (if s.through then .push v else .pollInput, k) }
      | _ => none
  | .clearFn =>
      match s.job with
      | some (.clearing, _) => some { s with pollFn := false, job := none }
      | _ => none
  | .chuteRun => if s.chuteFn then some { s with chuteFn := false } else none
  | .ctxFree => if s.pollFn ∧ !ctxRefs s then some { s with pollFn := false, ctxFreed := true } else none
  | .streamDrop =>
      if !s.streamDropped ∧ !s.pollFn ∧ !s.jobHoldsFn ∧ !s.chuteFn then some { s with streamDropped := true } else none
  | .fnDrop =>
      if !s.fnDropped ∧ !s.pollFn ∧ !s.jobHoldsFn ∧ !s.chuteFn then some { s with fnDropped := true } else none
  | .cons =>
      if !s.outAlive ∨ s.dropping then none else
      match s.core.pending with
      | v :: rest =>
        let s1 := { s with core := { s.core with pending := rest, bp := none }, delivered := s.delivered ++ [v], consumerWaiting := false, consumerWoken := false }
        some (trigger s1 s.core.bp)
      | [] =>
        if s.core.closed then some { s with ended := true, consumerWaiting := false, consumerWoken := false }
        else
          let s1 := { s with core := { s.core with notify := true, bp := none }, consumerWaiting := true, consumerWoken := false }
          some (trigger s1 s.core.bp)
  | .taskWake => if s.consumerWoken then some s else none
  | .dropLock =>
      if !s.outAlive ∨ s.dropping then none else
      let s1 := { s with core := { s.core with pending := [], closed := true, nsc := none }, dropping := true, onDropQueued := true }
      some (trigger s1 s.core.nsc)
  | .dropDone => if s.dropping then some { s with dropping := false, outAlive := false } else none
  | .dispose => if s.onDropQueued then some { s with onDropQueued := false, strongHeld := false } else none
  | .setDepth n => if !s.outAlive ∨ s.dropping then none else some { s with core := { s.core with depth := n } }

/-- the steps the pipe takes by itself; the others (`send`, `close`, `cons`, `taskWake`, `dropLock`, `setDepth`)
are its environment: the input's producer and the consumer of the output stream -/
def internal : Label → Bool
  | .send _ | .close | .cons | .taskWake | .dropLock | .setDepth _ => false
  | _ => true

/-- nothing the pipe does by itself is enabled -/
def Stuck (s : PState) : Prop := ∀ l, internal l = true → step s l = none

inductive Reachable : PState → Prop where
  | init (through : Bool) (depth : Nat) : Reachable (initP through depth)
  | step {s s' : PState} (l : Label) : Reachable s → step s l = some s' → Reachable s'

end Desync.Pipe
