/-
The transition function of the `Sched` model: one step = one critical section or blocking call of
one activity.  `stepAct s a` is what activity `a` does next (`none` = blocked / finished), together
with the event the implementation writes to its trace for that step (`Obs`).  The state decision
tables come from `Gen` (Generated.lean, rewritten from /repo/src on every run).
-/
import DesyncModel.State

namespace Desync
open Gen

/-! ### small helpers -/

def State.qEmpty (s : State) (q : Nat) : Bool :=
  match s.qs[q]? with
  | some v => v.jobs.isEmpty
  | none => true

def State.qState (s : State) (q : Nat) : QState :=
  match s.qs[q]? with
  | some v => v.state
  | none => .panicked

def State.setQState (s : State) (q : Nat) (st : QState) : State :=
  match s.qs[q]? with
  | some v => s.setQ q { v with state := st }
  | none => s

def State.threadOf (s : State) (a : Nat) : Nat :=
  match s.acts[a]? with
  | some v => v.thread
  | none => 0

def State.readyHeld (s : State) (w : Nat) : Bool := s.readyLock.any (fun p => p.1 == w)
def State.takeReady (s : State) (w a : Nat) : State := { s with readyLock := (w, a) :: s.readyLock }
def State.dropReady (s : State) (w : Nat) : State := { s with readyLock := s.readyLock.filter (fun p => p.1 != w) }
def State.isReady (s : State) (w : Nat) : Bool := s.ready.contains w

/-- does activity `b` hold a strong reference to the condition variable of sync caller `w`?
(the caller itself until it drops it; a notifier for the callers it has still to signal; whoever is
dropping the caller's lifetime-erased job until the notify_all is done) -/
def pcHoldsCv (s : State) (w : Nat) (b : Nat) : Pc → Bool
  | .rqNotifyAcq _ todo _ _ | .rqNotify _ todo _ _ | .rqNotifyRel _ todo _ _ => todo.contains w || b == w
  | .sbPrune _ | .ret | .dead | .panicked | .unwinding _ => false
  | .jobDropNotify j _ _ | .jobDrop j _ _ =>
      (match s.jobs[j]? with
       | some jb => (match jb.kind with | .erasedBg o _ => o == w | _ => false)
       | none => false) || b == w
  | _ => b == w

/-- Is the condition variable of sync caller `w` still alive (`Weak::strong_count() > 0`)?  It is
kept alive by the caller until `mem::drop(wakeup)`, by its queued lifetime-erased job, and by any
notifier that has upgraded it and not signalled it yet. -/
def State.waiterLive (s : State) (w : Nat) : Bool :=
  (List.range s.acts.length).any (fun b => match s.acts[b]? with
    | some v => pcHoldsCv s w b v.pc
    | none => false)
  || s.jobs.any (fun jb => match jb.kind with | .erasedBg o _ => o == w && jb.ph != .done | _ => false)

def State.setWoken (s : State) (a : Nat) (b : Bool) : State :=
  match s.acts[a]? with
  | some v => s.setAct a { v with woken := b }
  | none => s

def State.isWoken (s : State) (a : Nat) : Bool :=
  match s.acts[a]? with
  | some v => v.woken
  | none => false

/-- notify_one / notify_all on the condvar of sync caller `w`: only a caller that is waiting hears it -/
def State.notify (s : State) (w : Nat) : State :=
  match s.acts[w]? with
  | some v => match v.pc with
    | .sbWaiting _ _ => s.setAct w { v with woken := true }
    | _ => s
  | none => s

def State.newJob (s : State) (q : Nat) (kind : JobKind) : State × Nat :=
  ({ s with jobs := s.jobs ++ [{ q := q, kind := kind, ph := .queued, begun := false, ended := false, reg := none }] }, s.jobs.length)

def State.pushBack (s : State) (q j : Nat) : State :=
  match s.qs[q]? with
  | some v => s.setQ q { v with jobs := v.jobs ++ [j] }
  | none => s

def State.pushFront (s : State) (q j : Nat) : State :=
  match s.qs[q]? with
  | some v => s.setQ q { v with jobs := j :: v.jobs }
  | none => s

def State.setJobPh (s : State) (j : Nat) (ph : Phase) : State :=
  match s.jobs[j]? with
  | some v => s.setJob j { v with ph := ph }
  | none => s

/-- has the event awaited by operation `op` on gate `g` happened (its oneshot was sent)? -/
def State.gateReady (s : State) (g : Nat) (op : Nat) : Bool :=
  match s.gates[g]? with
  | some v => v.isOpen && !v.waiting.contains op
  | none => false

/-- the result slot a future job signals when it completes -/
def JobKind.res : JobKind → Option Nat
  | .fut _ _ r => some r
  | .after _ _ r => some r
  | .slot _ r => some r
  | .susp _ _ _ r => some r
  | _ => none

def JobKind.op : JobKind → Option Nat
  | .plain op => some op
  | .immediate _ (.user op) => some op
  | .erasedDrain _ (.user op) => some op
  | .erasedBg _ (.user op) => some op
  | .fut op _ _ => some op
  | .after op _ _ => some op
  | .susp op _ _ _ => some op
  | _ => none

/-- the job that carries operation `op`, if it has been queued already -/
def State.jobOfOp (s : State) (op : Nat) : Option Nat :=
  (List.range s.jobs.length).find? (fun j => match s.jobs[j]? with
    | some jb => jb.kind.op == some op
    | none => false)

def State.futOf (s : State) (op : Nat) : Option Nat := (s.opFut.find? (fun p => p.1 == op)).map (·.2)

def bodyOp : Body → Nat
  | .user op => op
  | .take _ => 0
  | .free _ => 0

def State.sfOf (s : State) (op : Nat) : Option Nat := (s.opSf.find? (fun p => p.1 == op)).map (·.2)

/-- is `op` a suspend request (its job is the suspend job)? -/
def State.isSuspendOp (s : State) (op : Nat) : Bool :=
  match s.jobOfOp op with
  | some j => (match s.jobs[j]? with
    | some jb => (match jb.kind with | .susp _ _ _ _ => true | _ => false)
    | none => false)
  | none => false

/-- has the completion channel of SyncFuture `u` been signalled (value sent or sender dropped)? -/
def State.sfDone (s : State) (u : Nat) : Bool :=
  match s.sfs[u]? with
  | some sf => sf.doneSent
  | none => true

/-- the SyncFuture whose user operation is `op` -/
def State.sfOfUserOp (s : State) (op : Nat) : Option Nat :=
  (List.range s.sfs.length).find? (fun u => match s.sfs[u]? with
    | some sf => sf.op == op
    | none => false)

/-- `dequeue`: pop the front job if the state allows it -/
def State.dequeue (s : State) (q a : Nat) : State × Option Nat :=
  match s.qs[q]? with
  | some v =>
    if dequeueAllowed v.state then
      match v.jobs with
      | j :: rest => ((s.setQ q { v with jobs := rest }).setJobPh j (.held a), some j)
      | [] => (s, none)
    else (s, none)
  | none => (s, none)

/-- the waker a job's poll is given -/
def ctxWaker (t : Nat) : Ctx → Waker
  | .caller q => .thread q t
  | .pool _ q => .queue q
  | .task _ l _ => .latch l

/-- where control goes after the job returned Ready and was dropped -/
def ctxReady (k : Pc) : Ctx → Pc
  | .caller _ => k
  | .pool p q => .pdDequeue p q
  | .task f _ q => .dqCheck f q

/-- where control goes after the job returned Pending -/
def ctxPending (j : Nat) (k : Pc) : Ctx → Pc
  | .caller q => .rjPending q j k
  | .pool p q => .pdRequeue p q j
  | .task f l q => .dqRequeue f j l q

/-! ### the step function -/

/-- One step of activity `a`. -/
def stepAct (s : State) (a : Nat) : Option (State × Obs) :=
  match s.acts[a]? with
  | none => none
  | some act =>
  if act.child.isSome then none else
  let t := act.thread
  match act.pc with
  | .dead => none
  | .panicked => none
  | .unwinding _ => none
  | .ret => none                                  -- consumed by the harness `ret` event (see `retStep`)
  | .body _ _ => none                             -- consumed by harness events (`invoke`, `bodyEnd`)
  | .begin (.user op) k => some (s.goto a (.body op k), .beg op)
  | .begin (.free q) k => some (({ s with dropped := q :: s.dropped }).goto a k, .free q)
  | .begin (.take f) k =>
      match s.futs[f]? with
      | some fu =>
        let fu' := if fu.res == .ok || fu.res == .canceled then { fu with res := .returned } else fu
        some ((s.setFut f fu').goto a k, .csR f)
      | none => none
  -- ---------------------------------------------------------------- schedule_thread
  | .stReap k =>
      if s.threadsLock.isSome then none else
      -- finished (panicked) threads are removed from the vector before the scan
      let vec := s.threadsVec.filter (fun p => match s.pthreads[p]? with | some pt => !(pt.exited && !pt.hungUp) | none => false)
      some (({ s with threadsVec := vec }).goto a (.stScanLock k), .csT)
  | .stScanLock k =>
      if s.threadsLock.isSome then none else
      some (({ s with threadsLock := some a }).goto a (.stScan 0 k), .acqT)
  | .stScan i k =>
      match s.threadsVec[i]? with
      | none => some (({ s with threadsLock := none }).goto a (.stReadMax k), .csT)
      | some p =>
        match s.pthreads[p]? with
        | none => none
        | some pt =>
          if pt.busyLock.isSome then
            if dormantScanBlocks then none
            else some (s.goto a (.stScan (i+1) k), .tryFailB p)
          else some ((s.setPThr p { pt with busyLock := some a }).goto a (.stScanHeld i k), .acqB p)
  | .stScanHeld i k =>
      match s.threadsVec[i]? with
      | none => none
      | some p =>
        match s.pthreads[p]? with
        | none => none
        | some pt =>
          if pt.busy then some ((s.setPThr p { pt with busyLock := none }).goto a (.stScan (i+1) k), .csB p)
          else some ((s.setPThr p { pt with busy := true, mailbox := pt.mailbox + 1 }).goto a (.stScanRel i true k), .send p)
  | .stScanRel i found k =>
      match s.threadsVec[i]? with
      | none => none
      | some p =>
        match s.pthreads[p]? with
        | none => none
        | some pt => some ((s.setPThr p { pt with busyLock := none }).goto a (.stScanUnlock found k), .csB p)
  | .stScanUnlock _ k => some (({ s with threadsLock := none }).goto a k, .csT)
  | .stReadMax k => some (s.goto a (.stSpawn s.maxThreads k), .csX)
  | .stSpawn m k =>
      if s.threadsLock.isSome then none else
      if spawnAllowed s.threadsVec.length m then
        let p := s.pthreads.length
        let newAct : Act := { thread := 1000 + p, pc := .ptRecv p, parent := none, child := none, woken := false, result := none, mode := .await, once := false }
        let newPt : PThr := { busy := false, busyLock := none, mailbox := 0, hungUp := false, exited := false }
        let s1 := { s with pthreads := s.pthreads ++ [newPt],
                           threadsVec := s.threadsVec ++ [p], threadsLock := some a, acts := s.acts ++ [newAct] }
        some (s1.goto a (.stSpawnRel k), .spawn p)
      else some (s.goto a k, .csT)
  | .stSpawnRel k => some (({ s with threadsLock := none }).goto a (.stReap k), .csT)
  -- ---------------------------------------------------------------- reschedule_queue
  | .rqCs q k =>
      match s.qs[q]? with
      | none => none
      | some v =>
        let live := v.waiters.filter (fun w => s.waiterLive w)
        let r := reschedule v.state v.jobs.isEmpty
        some ((s.setQ q { v with waiters := live, state := r.1 }).goto a (.rqNotifyAcq q live r.2 k), .csQ q)
  | .rqNotifyAcq q todo r k =>
      match todo with
      | [] => if r then some (s.goto a (.rqPush q k), .silent) else some (s.goto a k, .silent)
      | w :: _ => if s.readyHeld w then none else some ((s.takeReady w a).goto a (.rqNotify q todo r k), .acqG w)
  | .rqNotify q todo r k =>
      match todo with
      | [] => none
      | w :: _ => some ((s.notify w).goto a (.rqNotifyRel q todo r k), .notify1 w)
  | .rqNotifyRel q todo r k =>
      match todo with
      | [] => none
      | w :: rest => some ((s.dropReady w).goto a (.rqNotifyAcq q rest r k), .csG w)
  | .rqPush q k =>
      if s.schedLock.isSome then none else
      some (({ s with schedule := s.schedule ++ [q] }).goto a (.stReap k), .csS)
  -- ---------------------------------------------------------------- wakers
  | .waking todo k =>
      match todo with
      | [] => some (s.goto a k, .silent)
      | .queue q :: rest => some (s.goto a (.wqCs q (.waking rest k)), .silent)
      | .thread q th :: rest => some (s.goto a (.wtCs q th (.waking rest k)), .silent)
      | .latch l :: rest => some (s.goto a (.lwCs l (.waking rest k)), .silent)
      | .double d :: rest => some (s.goto a (.dwCs d (.waking rest k)), .silent)
      | .task th :: rest => some (({ s with taskWoken := if s.taskWoken.contains th then s.taskWoken else th :: s.taskWoken }).goto a (.waking rest k), .taskWake th)
  | .openSend g k =>
      match s.gates[g]? with
      | none => none
      | some gt =>
        match gt.waiting with
        | [] => some (s.goto a k, .silent)
        | o :: rest =>
          let s0 := s.setGate g { gt with waiting := rest }
          match s.jobOfOp o with
          | none =>
            match s.sfOfUserOp o with
            | none => some (s0.goto a (.openSend g k), .gateSend g)
            | some u =>
              match s.sfs[u]? with
              | none => none
              | some sf =>
                let s1 := s0.setSf u { sf with userReg := none }
                match sf.userReg with
                | some w => some (s1.goto a (.waking [w] (.openSend g k)), .gateSend g)
                | none => some (s1.goto a (.openSend g k), .gateSend g)
          | some j =>
            match s.jobs[j]? with
            | none => none
            | some jb =>
              let s1 := s0.setJob j { jb with reg := none }
              match jb.reg with
              | some w => some (s1.goto a (.waking [w] (.openSend g k)), .gateSend g)
              | none => some (s1.goto a (.openSend g k), .gateSend g)
  | .wqCs q k =>
      match s.qs[q]? with
      | none => none
      | some v =>
        let r := wakeQueue v.state
        some ((s.setQ q { v with state := r.1 }).goto a (if r.2 then .rqCs q k else k), .csQ q)
  | .wtCs q th k =>
      match s.qs[q]? with
      | none => none
      | some v => some ((s.setQ q { v with state := wakeThread v.state }).goto a (.wtUnpark th k), .csQ q)
  | .wtUnpark th k =>
      some (({ s with parkToken := if s.parkToken.contains th then s.parkToken else th :: s.parkToken }).goto a k, .unpark th)
  | .lwCs l k =>
      match s.latches[l]? with
      | none => none
      | some (st, w) =>
        let r := latchWake st
        if r.2 then
          match w with
          | some w' => some (({ s with latches := s.latches.set l (r.1, none) }).goto a (.waking [w'] k), .csW l)
          | none => some (({ s with latches := s.latches.set l (r.1, none) }).goto a k, .csW l)
        else some (({ s with latches := s.latches.set l (r.1, w) }).goto a k, .csW l)
  | .dwCs d k =>
      match s.doubles[d]? with
      | none => none
      | some c =>
        let s1 := { s with doubles := s.doubles.set d none }
        match c with
        | some (w1, w2) => some (s1.goto a (.waking [w1, w2] k), .csD d)
        | none => some (s1.goto a k, .csD d)
  -- ---------------------------------------------------------------- schedule_job_desync
  | .dsPush q kind =>
      match s.qs[q]? with
      | none => none
      | some v =>
        let (s1, j) := s.newJob q kind
        let r := desyncPush v.state
        let s2 := s1.setQ q { v with jobs := v.jobs ++ [j], state := r.1 }
        if r.2 = .schedule then some (s2.goto a (.dsSched q), .csQ q)
        else if r.2 = .none then some (s2.goto a .ret, .csQ q)
        else some (s2.goto a .panicked, .csQ q)
  | .dsSched q =>
      if s.schedLock.isSome then none else
      some (({ s with schedule := s.schedule ++ [q] }).goto a (.stReap .ret), .csS)
  -- ---------------------------------------------------------------- sync / try_sync
  | .syDecide q b =>
      match s.qs[q]? with
      | none => none
      | some v =>
        let r := syncDecide v.state v.jobs.isEmpty
        let s1 := s.setQ q { v with state := r.1 }
        if r.2 = .immediate then
          let j := s1.jobs.length
          let s2 := { s1 with jobs := s1.jobs ++ [({ q := q, kind := .immediate a b, ph := .held a, begun := true, ended := false, reg := none } : Job)] }
          some ((s2.setHolder q (some a)).goto a (.begin b (.siIdle q j)), .csQ q)
        else if r.2 = .drain then some ((s1.setHolder q (some a)).goto a (.sdPush q b), .csQ q)
        else if r.2 = .background then some (s1.goto a (.sbReg q b), .csQ q)
        else some (s1.goto a .panicked, .csQ q)
  | .tsDecide q b =>
      match s.qs[q]? with
      | none => none
      | some v =>
        let r := trySyncDecide v.state v.jobs.isEmpty
        let s1 := s.setQ q { v with state := r.1 }
        if r.2 = .immediate then
          let j := s1.jobs.length
          let s2 := { s1 with jobs := s1.jobs ++ [({ q := q, kind := .immediate a b, ph := .held a, begun := true, ended := false, reg := none } : Job)] }
          some ((s2.setHolder q (some a)).goto a (.begin b (.siIdle q j)), .csQ q)
        else if r.2 = .busy then some ((s1.setAct a { act with pc := .ret, result := some 1 }), .csQ q)
        else some (s1.goto a .panicked, .csQ q)
  | .siIdle q j =>
      match s.jobs[j]? with
      | none => none
      | some jb =>
        some ((((s.setJob j { jb with ended := true, ph := .done }).setQState q .idle).setHolder q none).goto a (.rqCs q .ret), .csQ q)
  | .sdPush q b =>
      let (s1, j) := s.newJob q (.erasedDrain a b)
      some ((s1.pushBack q j).goto a (.sdCheck q j), .csQ q)
  | .sdCheck q j =>
      match s.jobs[j]? with
      | none => none
      | some jb => if jb.ph == .done then some (s.goto a (.sdIdle q), .silent)
                   else some (s.goto a (.rjDequeue q (.sdCheck q j)), .silent)
  | .sdIdle q =>
      some (((s.setQState q .idle).setHolder q none).goto a (.rqCs q .ret), .csQ q)
  | .sbReg q b =>
      match s.qs[q]? with
      | none => none
      | some v => some ((s.setQ q { v with waiters := v.waiters ++ [a] }).goto a (.sbPush q b), .csQ q)
  | .sbPush q b =>
      match s.qs[q]? with
      | none => none
      | some v =>
        let (s1, j) := s.newJob q (.erasedBg a b)
        let s2 := s1.setQ q { v with jobs := v.jobs ++ [j] }
        if v.state == .idle then some (s2.goto a (.rqCs q (.sbLockReady q j)), .csQ q)
        else some (s2.goto a (.sbLockReady q j), .csQ q)
  | .sbLockReady q j =>
      if s.readyHeld a then none else some ((s.takeReady a a).goto a (.sbTest q j), .acqG a)
  | .sbTest q j =>
      if s.isReady a then some (s.goto a (.sbDone q j), .silent) else some (s.goto a (.sbClaim q j), .silent)
  | .sbClaim q j =>
      if s.schedLock.isSome then none else
      match s.qs[q]? with
      | none => none
      | some v =>
        let r := claim v.state
        let s1 := s.setQ q { v with state := r.1 }
        if r.2 then
          some ((({ s1 with schedule := s1.schedule.filter (· != q), schedLock := some a }).setHolder q (some a)).goto a (.sbClaimRel q j true), .csQ q)
        else some (({ s1 with schedLock := some a }).goto a (.sbClaimRel q j false), .csQ q)
  | .sbClaimRel q j claimed =>
      some (({ s with schedLock := none }).goto a (if claimed then .sbRelReady q j else .sbWait q j), .csS)
  | .sbRelReady q j => some ((s.dropReady a).goto a (.sbStealTest q j), .csG a)
  | .sbStealTest q j =>
      if s.readyHeld a then none else
      if s.isReady a then some (s.goto a (.sbStealIdle q j), .csG a)
      else some (s.goto a (.rjDequeue q (.sbStealTest q j)), .csG a)
  | .sbStealIdle q j =>
      some (((s.setQState q .idle).setHolder q none).goto a (.rqCs q (.sbLockReady q j)), .csQ q)
  | .sbWait q j => some (((s.dropReady a).setWoken a false).goto a (.sbWaiting q j), .csG a)
  | .sbWaiting q j =>
      if !act.woken then none else
      if s.readyHeld a then none else
      some (((s.takeReady a a).setWoken a false).goto a (.sbTest q j), .acqG a)
  | .sbDone q _ => some ((s.dropReady a).goto a (.sbDropCv q), .csG a)
  | .sbDropCv q => some (s.goto a (.sbPrune q), .wakeupDropped)
  | .sbPrune q =>
      match s.qs[q]? with
      | none => none
      | some v =>
        let s0 := s.goto a .ret
        some (s0.setQ q { v with waiters := v.waiters.filter (fun w => s.waiterLive w) }, .csQ q)
  -- ---------------------------------------------------------------- run_one_job_now
  | .rjDequeue q k =>
      let (s1, got) := s.dequeue q a
      match got with
      | some j => some (s1.goto a (.jobStart j (.caller q) k), .csQ q)
      | none => some (s1.goto a k, .csQ q)
  | .rjPending q j k =>
      match s.qs[q]? with
      | none => none
      | some v =>
        let r := runOnePending v.state
        let s1 := s.setQ q { v with state := r.1 }
        if r.2 = .park then some (s1.goto a (.rjParkCheck q j k), .csQ q)
        else if r.2 = .continue then some (s1.goto a (.jobStart j (.caller q) k), .csQ q)
        else
          -- the panic unwinds through run_one_job_now: the job it holds is dropped
          match s1.jobs[j]? with
          | some jb => some ((s1.setJob j { jb with ph := .done, ended := true }).goto a (.unwinding k), .csQ q)
          | none => some (s1.goto a (.unwinding k), .csQ q)
  | .rjParkCheck q j k =>
      match parkCheck (s.qState q) with
      | .continue => some (s.goto a (.jobStart j (.caller q) k), .csQ q)
      | .park => some (s.goto a (.rjPark q j k), .csQ q)
      | .panic =>
        match s.jobs[j]? with
        | some jb => some ((s.setJob j { jb with ph := .done, ended := true }).goto a (.unwinding k), .csQ q)
        | none => some (s.goto a (.unwinding k), .csQ q)
  | .rjPark q j k => some (s.goto a (.rjParked q j k), .park)
  | .rjParked q j k =>
      if s.parkToken.contains t then
        some (({ s with parkToken := s.parkToken.filter (· != t) }).goto a (.rjParkCheck q j k), .unparked)
      else none
  -- ---------------------------------------------------------------- running / polling a job
  | .jobStart j c k =>
      match s.jobs[j]? with
      | none => none
      | some jb =>
        match jb.kind with
        | .plain op => some ((s.setJob j { jb with begun := true }).goto a (.begin (.user op) (.jobBodyDone j c k)), .silent)
        | .immediate _ _ => none
        | .erasedDrain _ b => some ((s.setJob j { jb with begun := true }).goto a (.begin b (.jobBodyDone j c k)), .silent)
        | .erasedBg _ b => some ((s.setJob j { jb with begun := true }).goto a (.begin b (.jobBodyDone j c k)), .silent)
        | .fut op gate _ =>
          if jb.begun then some (s.goto a (.jobAwait j c k), .silent)
          else
            -- the closure is invoked and the gate future is created (registering with a closed gate)
            let s1 := s.setJob j { jb with begun := true }
            let s2 := match gate with
              | some g => match s1.gates[g]? with
                | some gt => if gt.isOpen then s1 else s1.setGate g { gt with waiting := gt.waiting ++ [op] }
                | none => s1
              | none => s1
            some (s2.goto a (.jobAwait j c k), .beg op)
        | .after _ _ _ => some (s.goto a (.jobAwait j c k), .silent)
        | .slot u _ =>
          if jb.begun then some (s.goto a (.jobAwait j c k), .silent)
          else
            -- first poll: queue_ready.send(()) wakes the SyncFuture's task if it is waiting for its slot
            match s.sfs[u]? with
            | none => none
            | some sf =>
              let s1 := (s.setJob j { jb with begun := true }).setSf u { sf with readySent := true, readyWaker := none }
              match sf.readyWaker with
              | some w => some (s1.goto a (.waking [w] (.jobAwait j c k)), .silent)
              | none => some (s1.goto a (.jobAwait j c k), .silent)
        | .susp _ _ _ _ =>
          if jb.begun then some (s.goto a (.jobAwait j c k), .silent)
          else some ((s.setJob j { jb with begun := true }).goto a (.suspSignal j c k), .silent)
  | .suspSignal j c k =>
      -- the suspend job hands the resumer to the caller: signal(finished_suspending)
      match s.jobs[j]? with
      | none => none
      | some jb =>
        match jb.kind with
        | .susp _ _ fs _ =>
          match s.futs[fs]? with
          | none => none
          | some fu =>
            let s1 := s.setFut fs { fu with res := .ok, waker := none }
            match fu.waker with
            | some w => some (s1.goto a (.waking [w] (.suspSigDrop j c k)), .csR fs)
            | none => some (s1.goto a (.suspSigDrop j c k), .csR fs)
        | _ => none
  | .suspSigDrop j c k =>
      match s.jobs[j]? with
      | none => none
      | some jb =>
        match jb.kind with
        | .susp _ _ fs _ => some (s.goto a (.jobAwait j c k), .csR fs)
        | _ => none
  | .jobAwait j c k =>
      match s.jobs[j]? with
      | none => none
      | some jb =>
        let ready := match jb.kind with
          | .fut op (some g) _ => s.gateReady g op
          | .fut _ none _ => true
          | .after op g _ => s.gateReady g op
          | .susp op g _ _ => s.gateReady g op
          | .slot u _ => s.sfDone u
          | _ => true
        if ready then
          match jb.kind with
          | .after op _ _ => some ((s.setJob j { jb with begun := true }).goto a (.begin (.user op) (.jobBodyDone j c k)), .silent)
          | .slot _ _ => some (s.goto a (.jobSignal j c k), .silent)
          | .susp _ _ _ _ => some (s.goto a (.jobSignal j c k), .silent)
          | _ => some (s.goto a (.jobEnd j c k), .silent)
        else
          match jb.kind with
          | .slot u _ =>
            (match s.sfs[u]? with
             | some sf => some ((s.setSf u { sf with doneWaker := some (ctxWaker t c) }).goto a (ctxPending j k c), .silent)
             | none => none)
          | _ => some ((s.setJob j { jb with reg := some (ctxWaker t c) }).goto a (ctxPending j k c), .silent)
  | .jobBodyDone j c k =>
      match s.jobs[j]? with
      | none => none
      | some jb =>
        match jb.kind with
        | .erasedDrain owner _ => some ((s.setJob j { jb with ended := true }).goto a (.jobDrop j c k), .notify1 owner)
        | .after _ _ _ => some ((s.setJob j { jb with ended := true }).goto a (.jobSignal j c k), .silent)
        | _ => some ((s.setJob j { jb with ended := true }).goto a (.jobDrop j c k), .silent)
  | .jobEnd j c k =>
      match s.jobs[j]? with
      | none => none
      | some jb =>
        match jb.kind with
        | .fut op _ _ => some ((s.setJob j { jb with ended := true }).goto a (.jobSignal j c k), .end_ op)
        | _ => none
  | .jobSignal j c k =>
      match s.jobs[j]? with
      | none => none
      | some jb =>
        match jb.kind.res with
        | none => none
        | some r =>
          match s.futs[r]? with
          | none => none
          | some fu =>
            let s1 := (s.setJob j { jb with ended := true, sig := true }).setFut r { fu with res := .ok, waker := none }
            match fu.waker with
            | some w => some (s1.goto a (.waking [w] (.jobSigDrop j c k)), .csR r)
            | none => some (s1.goto a (.jobSigDrop j c k), .csR r)
  | .jobSigDrop j c k =>
      match s.jobs[j]? with
      | none => none
      | some jb =>
        match jb.kind.res with
        | none => none
        | some r =>
          match s.futs[r]? with
          | none => none
          | some fu =>
            -- Drop for SchedulerFutureSignaller: cancels only if no result was ever set
            if fu.res == .none then
              let s1 := s.setFut r { fu with res := .canceled, waker := none }
              match fu.waker with
              | some w => some (s1.goto a (.waking [w] (.jobDrop j c k)), .csR r)
              | none => some (s1.goto a (.jobDrop j c k), .csR r)
            else some (s.goto a (.jobDrop j c k), .csR r)
  | .jobDrop j c k =>
      match s.jobs[j]? with
      | none => none
      | some jb =>
        let s1 := s.setJob j { jb with ph := .done, ended := true }     -- the job box is dropped: whatever it was doing is over
        match jb.kind with
        | .erasedBg owner _ =>
          if s.readyHeld owner then none
          else some (({ s1 with ready := owner :: s1.ready }).goto a (.jobDropNotify j c k), .csG owner)
        | _ => some (s1.goto a (ctxReady k c), .silent)
  | .jobDropNotify j c k =>
      match s.jobs[j]? with
      | none => none
      | some jb =>
        match jb.kind with
        | .erasedBg owner _ => some ((s.notify owner).goto a (ctxReady k c), .notifyAll owner)
        | _ => none
  -- ---------------------------------------------------------------- pool thread
  | .ptRecv p => some (s.goto a (.ptRecvd p), .recv p)
  | .ptRecvd p =>
      match s.pthreads[p]? with
      | none => none
      | some pt =>
        if pt.mailbox > 0 then some ((s.setPThr p { pt with mailbox := pt.mailbox - 1 }).goto a (.ptLockBusy p), .recvd p true)
        else if pt.hungUp then some ((s.setPThr p { pt with exited := true }).goto a .dead, .recvd p false)
        else none
  | .ptLockBusy p =>
      match s.pthreads[p]? with
      | none => none
      | some pt =>
        if pt.busyLock.isSome then none
        else some ((s.setPThr p { pt with busyLock := some a }).goto a (.ptLockSched p), .acqB p)
  | .ptLockSched p =>
      if s.schedLock.isSome then none else some (({ s with schedLock := some a }).goto a (.ptPop p), .acqS)
  | .ptPop p =>
      match s.schedule with
      | [] => some (({ s with schedLock := none }).goto a (.ptUnlockBusy p none), .csS)
      | q :: rest =>
        match s.qs[q]? with
        | none => none
        | some v =>
          let r := nextToRun v.state
          let s1 := ({ s with schedule := rest }).setQ q { v with state := r.1 }
          if r.2 then some ((s1.setHolder q (some a)).goto a (.ptUnlockSched p (some q)), .csQ q)
          else some (s1.goto a (.ptPop p), .csQ q)
  | .ptUnlockSched p got => some (({ s with schedLock := none }).goto a (.ptUnlockBusy p got), .csS)
  | .ptUnlockBusy p got =>
      match s.pthreads[p]? with
      | none => none
      | some pt =>
        match got with
        | some q => some ((s.setPThr p { pt with busyLock := none }).goto a (.pdDequeue p q), .csB p)
        | none => some ((s.setPThr p { pt with busyLock := none, busy := false }).goto a (.ptRecv p), .csB p)
  | .pdDequeue p q =>
      let (s1, got) := s.dequeue q a
      match got with
      | some j => some (s1.goto a (.jobStart j (.pool p q) .dead), .csQ q)
      | none => some (s1.goto a (.pdExit p q), .csQ q)
  | .pdRequeue p q j => some (((s.pushFront q j).setJobPh j .queued).goto a (.pdPending p q), .csQ q)
  | .pdPending p q =>
      match s.qs[q]? with
      | none => none
      | some v =>
        let r := drainPending v.state
        let s1 := s.setQ q { v with state := r.1 }
        if r.2 then some ((s1.setHolder q none).goto a (.ptLockBusy p), .csQ q)
        else some (s1.goto a (.pdDequeue p q), .csQ q)
  | .pdExit p q =>
      match s.qs[q]? with
      | none => none
      | some v =>
        let r := drainExit v.state v.jobs.isEmpty
        let s1 := s.setQ q { v with state := r.1 }
        if r.2 then some ((s1.setHolder q none).goto a (.ptLockBusy p), .csQ q)
        else some (s1.goto a (.pdDequeue p q), .csQ q)
  -- ---------------------------------------------------------------- SchedulerFuture::poll / drain_queue / sync
  | .pfPoll f =>
      match s.futs[f]? with
      | none => none
      | some fu =>
        if fu.res == .ok || fu.res == .canceled then
          some ((s.setFut f { fu with res := .returned }).setAct a { act with pc := .pollReady f, result := some (if fu.res == .ok then 0 else 2) }, .csR f)
        else
          match s.qs[fu.q]? with
          | none => none
          | some v =>
            let r := pollDecide f v.state
            let s1 := s.setQ fu.q { v with state := r.1 }
            if r.2.1 = .wait then some (s1.goto a (.pfPollRel f (.pollPending f)), .csQ fu.q)
            else if r.2.1 = .drain then some ((s1.setHolder fu.q (some a)).goto a (.pfPollRel f (.dqCheck f fu.q)), .csQ fu.q)
            else some (s1.goto a (.pfPollRel f .panicked), .csQ fu.q)
  | .pfPollRel f next =>
      match s.futs[f]? with
      | none => none
      | some fu =>
        let store := match next with | .dqCheck _ _ => false | _ => true
        let s1 := if store then s.setFut f { fu with waker := some (.task t) } else s
        some (s1.goto a next, .csR f)
  | .pfBlocked f =>
      if s.taskWoken.contains t then some (({ s with taskWoken := s.taskWoken.filter (· != t) }).goto a (.pfPoll f), .silent) else none
  | .pollReady f =>
      match act.mode with
      -- the completed future is dropped by whoever awaited it (block_on / the poll-once helper)
      | .await => some (s.goto a (.fdDrop f .ret), .silent)
      | .sfQueue u => some (s.goto a (.sfRecv u), .silent)
      | .sfSched u =>
        match s.sfs[u]? with
        | none => none
        | some sf => some ((s.setSf u { sf with stage := .completed }).setAct a { act with pc := .fdDrop sf.f .ret, result := some 0 }, .silent)
  | .pollPending f =>
      match act.mode with
      | .await =>
        if act.once then some (s.setAct a { act with pc := .ret, result := some 3 }, .silent)
        else some (s.goto a (.pfBlocked f), .silent)
      | .sfQueue u => some (s.goto a (.sfRecv u), .silent)
      | .sfSched u => some (s.goto a (.sfBlocked u), .silent)
  -- ---------------------------------------------------------------- SyncFuture (future_sync)
  | .sfPoll u =>
      match s.sfs[u]? with
      | none => none
      | some sf =>
        match sf.stage with
        | .waitingForQueue => some (s.setAct a { act with pc := .pfPoll sf.f, mode := .sfQueue u }, .silent)
        | .waitingForFuture => some (s.goto a (.sfUser u), .silent)
        | .waitingForScheduler => some (s.setAct a { act with pc := .pfPoll sf.f, mode := .sfSched u }, .silent)
        | .completed => some (s.setAct a { act with pc := .ret, result := some 2 }, .silent)
  | .sfRecv u =>
      match s.sfs[u]? with
      | none => none
      | some sf =>
        if sf.readySent then
          -- the slot has been reached: the user's closure is invoked and its future created
          let s1 := s.setSf u { sf with stage := .waitingForFuture, userBegun := true }
          let s2 := match sf.gate with
            | some g => (match s1.gates[g]? with
              | some gt => if gt.isOpen then s1 else s1.setGate g { gt with waiting := gt.waiting ++ [sf.op] }
              | none => s1)
            | none => s1
          some (s2.goto a (.sfUser u), .beg sf.op)
        else some ((s.setSf u { sf with readyWaker := some (.task t) }).goto a (.sfBlocked u), .silent)
  | .sfUser u =>
      match s.sfs[u]? with
      | none => none
      | some sf =>
        let ready := match sf.gate with | some g => s.gateReady g sf.op | none => true
        if ready then some ((s.setSf u { sf with userEnded := true }).goto a (.sfFinish u), .end_ sf.op)
        else some ((s.setSf u { sf with userReg := some (.task t) }).goto a (.sfBlocked u), .silent)
  | .sfFinish u =>
      match s.sfs[u]? with
      | none => none
      | some sf =>
        let s1 := s.setSf u { sf with doneSent := true, doneWaker := none, stage := .waitingForScheduler }
        match sf.doneWaker with
        | some w => some (s1.goto a (.waking [w] (.sfPoll u)), .silent)
        | none => some (s1.goto a (.sfPoll u), .silent)
  | .sfBlocked u =>
      if act.once then some (s.setAct a { act with pc := .ret, result := some 3 }, .silent) else
      if s.taskWoken.contains t then some (({ s with taskWoken := s.taskWoken.filter (· != t) }).goto a (.sfPoll u), .silent) else none
  | .sfDrop u =>
      match s.sfs[u]? with
      | none => none
      | some sf =>
        -- the state field goes first: the queue_ready receiver (with the waker registered on it) or the user future
        -- (with the waker it registered with its gate) is destroyed
        -- ... then the scheduler future (`fdDrop`), then the completion sender
        if sf.userBegun && !sf.userEnded then some ((s.setSf u { sf with userEnded := true, userReg := none, readyWaker := none }).goto a (.fdDrop sf.f (.sfDropDone u)), .cancel sf.op)
        else some ((s.setSf u { sf with userReg := none, readyWaker := none }).goto a (.fdDrop sf.f (.sfDropDone u)), .silent)
  | .fdDrop f k =>
      match s.futs[f]? with
      | none => none
      | some fu =>
        match s.qs[fu.q]? with
        | none => none
        | some v =>
          -- the lock is taken only by a future whose `draining` flag is set (`futureDropGuarded`); the flag can be stale
          -- (a later poll found the result already there), so the queue is handed back only from waitingForPoll(f)
          if fu.draining then
            let r := futureDropDecide f v.state
            if r.2 then some ((s.setQ fu.q { v with state := r.1 }).goto a (.rqCs fu.q k), .csQ fu.q)
            else some (s.goto a k, .csQ fu.q)
          else some (s.goto a k, .silent)
  | .sfDropDone u =>
      match s.sfs[u]? with
      | none => none
      | some sf =>
        let s1 := s.setSf u { sf with doneSent := true, doneWaker := none, stage := .completed }
        match sf.doneWaker with
        | some w => some (s1.goto a (.waking [w] .ret), .silent)
        | none => some (s1.goto a .ret, .silent)
  | .resumeSend op k =>
      match s.jobOfOp op with
      | none => none
      | some j =>
        match s.jobs[j]? with
        | none => none
        | some jb =>
          match jb.kind with
          | .susp _ g _ _ =>
            (match s.gates[g]? with
             | none => none
             | some gt =>
               let s1 := (s.setGate g { gt with isOpen := true, waiting := [] }).setJob j { jb with reg := none }
               match jb.reg with
               | some w => some (s1.goto a (.waking [w] k), .resumeSend op)
               | none => some (s1.goto a k, .resumeSend op))
          | _ => none
  | .dqCheck f q =>
      match s.futs[f]? with
      | none => none
      | some fu =>
        if fu.res == .ok || fu.res == .canceled then
          some ((s.setFut f { fu with res := .returned, draining := false }).setAct a { act with pc := .dqIdle f q, result := some (if fu.res == .ok then 0 else 2) }, .csR f)
        else some (s.goto a (.dqDequeue f q), .csR f)
  | .dqDequeue f q =>
      let (s1, got) := s.dequeue q a
      match got with
      | some j =>
        let l := s1.latches.length
        let s2 := { s1 with latches := s1.latches ++ [(Latch.notWoken, none)] }
        some (s2.goto a (.jobStart j (.task f l q) .dead), .csQ q)
      | none => some (s1.goto a (.dqStore2 f q), .csQ q)
  | .dqRequeue f j l q => some (((s.pushFront q j).setJobPh j .queued).goto a (.dqCheck2 f l q), .csQ q)
  | .dqCheck2 f l q =>
      match s.futs[f]? with
      | none => none
      | some fu =>
        if fu.res == .ok || fu.res == .canceled then
          some ((s.setFut f { fu with res := .returned, draining := false }).setAct a { act with pc := .dqSetWfw f l q, result := some (if fu.res == .ok then 0 else 2) }, .csR f)
        else some (s.goto a (.dqStore f l q), .csR f)
  | .dqSetWfw f l q =>
      some (((s.setQState q .waitingForWake).setHolder q none).goto a (.dqWakeWith f l (.queue q) (.pollReady f)), .csQ q)
  | .dqStore f l q =>
      match s.futs[f]? with
      | none => none
      | some fu => some ((s.setFut f { fu with waker := some (.task t), draining := true }).goto a (.dqSetWfp f l q), .csR f)
  | .dqSetWfp f l q =>
      let d := s.doubles.length
      let s1 := { s with doubles := s.doubles ++ [some (Waker.queue q, Waker.task t)] }
      some (((s1.setQState q (.waitingForPoll f)).setHolder q none).goto a (.dqWakeWith f l (.double d) (.pollPending f)), .csQ q)
  | .dqWakeWith _ l w k =>
      match s.latches[l]? with
      | none => none
      | some (st, _) =>
        let r := latchWakeWith st
        if r.2 then some (({ s with latches := s.latches.set l (r.1, none) }).goto a (.waking [w] k), .csW l)
        else some (({ s with latches := s.latches.set l (r.1, some w) }).goto a k, .csW l)
  | .dqStore2 f q =>
      match s.futs[f]? with
      | none => none
      | some fu => some ((s.setFut f { fu with waker := some (.task t), draining := false }).goto a (.dqIdle2 f q), .csR f)
  | .dqIdle2 f q => some (((s.setQState q .idle).setHolder q none).goto a (.rqCs q (.pollPending f)), .csQ q)
  | .dqIdle f q => some (((s.setQState q .idle).setHolder q none).goto a (.rqCs q (.pollReady f)), .csQ q)
  | .fsTake f =>
      match s.futs[f]? with
      | none => none
      | some fu =>
        if fu.res == .ok || fu.res == .canceled then
          some ((s.setFut f { fu with res := .returned }).setAct a { act with pc := .ret, result := some (if fu.res == .ok then 0 else 2) }, .csR f)
        else some (s.goto a (.syDecide fu.q (.take f)), .csR f)
  | .fsTake2 _ => none
  -- ---------------------------------------------------------------- pool management
  | .smSet n => some (({ s with maxThreads := n }).goto a .ret, .csX)
  | .dpRead => some (s.goto a (.dpLock s.maxThreads), .csX)
  | .dpLock m =>
      if s.threadsLock.isSome then none else some (({ s with threadsLock := some a }).goto a (.dpHang m []), .acqT)
  | .dpHang m gone =>
      -- pops from the back while len > max; each popped thread's sender is dropped (the thread's recv then fails)
      if despawnContinues s.threadsVec.length m then
        match s.threadsVec.getLast? with
        | none => none
        | some p =>
          match s.pthreads[p]? with
          | none => none
          | some pt => some ((({ s with threadsVec := s.threadsVec.dropLast }).setPThr p { pt with hungUp := true }).goto a (.dpHang m (gone ++ [p])), .hangup p)
      else some (({ s with threadsLock := none }).goto a (.dpJoin gone), .csT)
  | .dpJoin todo =>
      match todo with
      | [] => some (s.goto a .ret, .silent)
      | p :: rest =>
        match s.pthreads[p]? with
        | none => none
        | some pt => if pt.exited then some (s.goto a (.dpJoin rest), .joined p) else none

/-- The activity that is the leaf of thread `t`'s call stack (the one whose step comes next). -/
def State.leafOf (s : State) (t : Nat) : Option Nat :=
  let idx := List.range s.acts.length
  idx.find? (fun a => match s.acts[a]? with
    | some v => v.thread == t && v.child.isNone && (match v.pc with | .dead => false | _ => true)
    | none => false)

/-! ### environment labels (what the harness does) -/

/-- Append a new activity (a call made by thread `t`, from inside the closure body of `parent` if
any) at program counter `pc`; returns the new state and the activity's id. -/
def addAct (s : State) (t : Nat) (parent : Option Nat) (pc : Pc) (once : Bool := false) : State × Nat :=
  let a := s.acts.length
  let newAct : Act := { thread := t, pc := pc, parent := parent, child := none, woken := false, result := none, mode := .await, once := once }
  let s1 : State := { s with acts := s.acts ++ [newAct], nextOp := s.nextOp + 1 }
  match parent with
  | some p =>
    match s1.acts[p]? with
    | some pv => (s1.setAct p { pv with child := some a }, a)
    | none => (s1, a)
  | none => (s1, a)

/-- Start call `c` on thread `t`.  `parent` is the activity whose closure body makes the call
(none for a call made directly by a harness thread). -/
def invoke (s : State) (t : Nat) (parent : Option Nat) (c : Call) : Option (State × Nat) :=
  let op := s.nextOp
  match c with
  | .desync q => some (addAct s t parent (.dsPush q (.plain op)))
  | .sync q => some (addAct s t parent (.syDecide q (.user op)))
  | .trySync q => some (addAct s t parent (.tsDecide q (.user op)))
  | .fdesync q gate =>
      let f := s.futs.length
      let s1 := { s with futs := s.futs ++ [({ q := q, res := .none, waker := none } : Fut)], opFut := (op, f) :: s.opFut }
      some (addAct s1 t parent (.dsPush q (.fut op gate f)))
  | .after q gate =>
      let f := s.futs.length
      let s1 := { s with futs := s.futs ++ [({ q := q, res := .none, waker := none } : Fut)], opFut := (op, f) :: s.opFut }
      -- the gate future is created by the caller, before `after` is called
      let s2 := match s1.gates[gate]? with
        | some gt => if gt.isOpen then s1 else s1.setGate gate { gt with waiting := gt.waiting ++ [op] }
        | none => s1
      some (addAct s2 t parent (.dsPush q (.after op gate f)))
  | .await o => match s.futOf o with
      | some f => some (addAct s t parent (.pfPoll f))
      | none => match s.sfOf o with
        | some u => some (addAct s t parent (.sfPoll u))
        | none => none
  | .pollOnce o => match s.futOf o with
      | some f => some (addAct s t parent (.pfPoll f) true)
      | none => match s.sfOf o with
        | some u => some (addAct s t parent (.sfPoll u) true)
        | none => none
  | .fsync q gate =>
      let f := s.futs.length
      let u := s.sfs.length
      let sf : SyncFut := { f := f, q := q, op := op, gate := gate, stage := .waitingForQueue, readySent := false, readyWaker := none,
                            doneSent := false, doneWaker := none, userBegun := false, userEnded := false, userReg := none }
      let s1 := { s with futs := s.futs ++ [({ q := q, res := .none, waker := none } : Fut)], sfs := s.sfs ++ [sf], opSf := (op, u) :: s.opSf }
      some (addAct s1 t parent (.dsPush q (.slot u f)))
  | .suspend q =>
      let fs := s.futs.length
      let g := s.gates.length
      let s1 := { s with futs := s.futs ++ [({ q := q, res := .none, waker := none } : Fut), ({ q := q, res := .none, waker := none } : Fut)],
                         gates := s.gates ++ [({ isOpen := false, waiting := [op] } : Gate)], opFut := (op, fs) :: s.opFut }
      some (addAct s1 t parent (.dsPush q (.susp op g fs (fs + 1))))
  | .resume o => some (addAct s t parent (.resumeSend o .ret))
  | .dropObj q => some (addAct s t parent (.syDecide q (.free q)))
  | .syncf o => match s.futOf o with
      | some f => some (addAct s t parent (.fsTake f))
      | none => none
  | .dropf o => match s.sfOf o with
      | some u => some (addAct s t parent (.sfDrop u))
      | none =>
        -- dropping the resumer obtained from a suspend future resumes the queue (the oneshot is cancelled)
        match s.futOf o with
        | some f => if s.isSuspendOp o then some (addAct s t parent (.fdDrop f (.resumeSend o .ret))) else some (addAct s t parent (.fdDrop f .ret))
        | none => if s.isSuspendOp o then some (addAct s t parent (.resumeSend o .ret)) else some (addAct s t parent .ret)
  | .openGate g =>
      match s.gates[g]? with
      | some gt => some (addAct (s.setGate g { gt with isOpen := true }) t parent (.openSend g .ret))
      | none => none
  | .setMax n => some (addAct s t parent (.smSet n))
  | .despawn => some (addAct s t parent .dpRead)

/-- The harness closure of activity `a` returns (`end` event). -/
def bodyEnd (s : State) (a : Nat) : Option (State × Obs) :=
  match s.acts[a]? with
  | some act =>
    if act.child.isSome then none else
    match act.pc with
    | .body op k => some (s.goto a k, .end_ op)
    | _ => none
  | none => none

/-- The call of activity `a` returns to the harness (`ret` event). -/
def retStep (s : State) (a : Nat) : Option (State × Nat) :=
  match s.acts[a]? with
  | some act =>
    match act.pc with
    | .ret =>
      let s1 := s.setAct a { act with pc := .dead }
      let s2 := match act.parent with
        | some p => match s1.acts[p]? with
          | some pv => s1.setAct p { pv with child := none }
          | none => s1
        | none => s1
      some (s2, act.result.getD 0)
    | _ => none
  | none => none

/-- A spurious return from `thread::park` (allowed by std; the park loop re-checks the state). -/
def spuriousUnpark (s : State) (a : Nat) : Option (State × Obs) :=
  match s.acts[a]? with
  | some act =>
    match act.pc with
    | .rjParked q j k => some (s.goto a (.rjParkCheck q j k), .unparked)
    | _ => none
  | none => none

/-- An executor may poll a pending future again without its waker having fired (shuttle's block_on
does so whenever the thread had a contended lock since it last slept). -/
def spuriousPoll (s : State) (a : Nat) : Option State :=
  match s.acts[a]? with
  | some act =>
    match act.pc with
    | .pfBlocked f => some (s.goto a (.pfPoll f))
    | .sfBlocked u => some (s.goto a (.sfPoll u))
    | _ => none
  | none => none

/-- No activity has an enabled internal step. -/
def State.quiescent (s : State) : Bool :=
  (List.range s.acts.length).all (fun a => (stepAct s a).isNone)

end Desync
