/-
Basic types shared by the generated tables (Generated.lean) and the hand-written model.
Core Lean only: everything the driver executable imports must stay free of Mathlib.
-/
namespace Desync

/-- `QueueState` of src/scheduler/queue_state.rs.  `waitingForPoll f` carries the id of the
`SchedulerFuture` that is draining the queue from a polling task. -/
inductive QState where
  | idle | pending | running | waitingForWake | waitingForUnpark
  | waitingForPoll (f : Nat)
  | awokenWhileRunning | panicked
  deriving DecidableEq, Repr, Hashable, Inhabited

/-- What `schedule_job_desync` does after pushing the job. -/
inductive PushAct where
  | schedule | none | panic
  deriving DecidableEq, Repr, Hashable, Inhabited

/-- Strategy chosen by `sync` / `sync_no_panic` / `try_sync`. -/
inductive SyncAct where
  | immediate | drain | background | panic | busy | refuse
  deriving DecidableEq, Repr, Hashable, Inhabited

/-- Action of `SchedulerFuture::poll` when the result has not arrived. -/
inductive PollAct where
  | wait | drain | panic
  deriving DecidableEq, Repr, Hashable, Inhabited

/-- Outcome of the state tests in `run_one_job_now`. -/
inductive ParkAct where
  | park | continue | panic
  deriving DecidableEq, Repr, Hashable, Inhabited

/-- `DrainWakerState` (scheduler_future.rs); the stored waker itself lives in the model state. -/
inductive Latch where
  | notWoken | woken | willWake
  deriving DecidableEq, Repr, Hashable, Inhabited

/-- The functions that run jobs of a queue (each must install the `ActiveQueue` panic guard). -/
inductive Runner where
  | syncImmediate | syncDrain | steal | poolDrain | drainQueue
  deriving DecidableEq, Repr, Hashable, Inhabited

/-- The states in which somebody owns the right to run the queue or the queue is parked on a
suspended job (everything except idle, pending, panicked). -/
def QState.owned : QState → Bool
  | .idle | .pending | .panicked => false
  | _ => true

/-- States from which an entry table may hand out the run right. -/
def QState.claimable : QState → Bool
  | .idle | .pending => true
  | _ => false

end Desync
