/-
All table obligations (see Tables/*.lean, split by topic).
-/
import DesyncModel.Tables.Panic
import DesyncModel.Tables.Sync
import DesyncModel.Tables.TrySync
import DesyncModel.Tables.Claim
import DesyncModel.Tables.Push
import DesyncModel.Tables.Wake
import DesyncModel.Tables.Pool
import DesyncModel.Tables.FutureDrop
