/-
Table obligations: the ONLY facts about the generated decision tables (Generated.lean, rewritten
from /repo/src on every run) that the invariant proofs use.  A harmless rewrite of a Rust `match`
yields an extensionally equal Lean table and every proof below still closes; a harmful one fails at
a theorem whose name says what was lost.
-/
import DesyncModel.Types
import DesyncModel.Generated

namespace Desync
open Gen

/-! ### is_running -/

theorem isRunning_spec (s : QState) :
    isRunning s = true ↔ (s = .running ∨ s = .awokenWhileRunning ∨ s = .waitingForUnpark ∨ ∃ f, s = .waitingForPoll f) := by
  cases s <;> simp [isRunning]

/-! ### entry points refuse a panicked queue (C15) -/

theorem desyncPush_panicked : desyncPush .panicked = (.panicked, .panic) := rfl
theorem syncDecide_panicked (e : Bool) : syncDecide .panicked e = (.panicked, .panic) := by cases e <;> rfl
theorem trySyncDecide_panicked (e : Bool) : trySyncDecide .panicked e = (.panicked, .panic) := by cases e <;> rfl
theorem pollDecide_panicked (self : Nat) : (pollDecide self .panicked).2.1 = .panic ∧ (pollDecide self .panicked).1 = .panicked := ⟨rfl, rfl⟩
/-- `sync_no_panic` (Drop while unwinding) neither runs, blocks nor panics on a panicked queue. -/
theorem syncNoPanic_panicked (e : Bool) : syncNoPanicDecide .panicked e = (.panicked, .refuse) := by cases e <;> rfl

/-- Only a panicked queue makes an entry point panic. -/
theorem desyncPush_panics_iff (s : QState) : (desyncPush s).2 = .panic ↔ s = .panicked := by
  cases s <;> simp [desyncPush]
theorem syncDecide_panics_iff (s : QState) (e : Bool) : (syncDecide s e).2 = .panic ↔ s = .panicked := by
  cases s <;> cases e <;> simp [syncDecide]
theorem trySyncDecide_panics_iff (s : QState) (e : Bool) : (trySyncDecide s e).2 = .panic ↔ s = .panicked := by
  cases s <;> cases e <;> simp [trySyncDecide]
theorem pollDecide_panics_iff (self : Nat) (s : QState) : (pollDecide self s).2.1 = .panic ↔ s = .panicked := by
  cases s <;> simp [pollDecide]
  split <;> simp

/-- No table ever leaves the panicked state: it is absorbing. -/
theorem panicked_absorbing :
    (desyncPush .panicked).1 = .panicked ∧ (∀ e, (syncDecide .panicked e).1 = .panicked) ∧
    (∀ e, (syncNoPanicDecide .panicked e).1 = .panicked) ∧ (∀ e, (trySyncDecide .panicked e).1 = .panicked) ∧
    (∀ f, (pollDecide f .panicked).1 = .panicked) ∧ (claim .panicked).1 = .panicked ∧
    (∀ e, (reschedule .panicked e).1 = .panicked) ∧ (nextToRun .panicked).1 = .panicked ∧
    (drainPending .panicked).1 = .panicked ∧ (∀ e, (drainExit .panicked e).1 = .panicked) ∧
    (wakeQueue .panicked).1 = .panicked ∧ wakeThread .panicked = .panicked := by
  refine ⟨rfl, ?_, ?_, ?_, ?_, rfl, ?_, rfl, rfl, ?_, rfl, rfl⟩ <;> intro e <;> cases e <;> rfl

/-- Nothing is claimed, scheduled or run from a panicked queue. -/
theorem panicked_never_claimed :
    (claim .panicked).2 = false ∧ (nextToRun .panicked).2 = false ∧ (∀ e, (reschedule .panicked e).2 = false) := by
  refine ⟨rfl, rfl, ?_⟩; intro e; cases e <;> rfl

/-! ### the run right is handed out only from unowned states (C01) -/

/-- `sync` starts running the queue on the caller (immediate / drain) only from idle or pending,
and then marks it running; in every other state it leaves the state alone and waits. -/
theorem syncDecide_claims (s : QState) (e : Bool) :
    ((syncDecide s e).2 = .immediate ∨ (syncDecide s e).2 = .drain) →
      s.claimable = true ∧ (syncDecide s e).1 = .running := by
  cases s <;> cases e <;> simp [syncDecide, QState.claimable]

theorem syncDecide_background_unchanged (s : QState) (e : Bool) :
    (syncDecide s e).2 = .background → (syncDecide s e).1 = s ∧ s.owned = true := by
  cases s <;> cases e <;> simp [syncDecide, QState.owned]

theorem syncDecide_total (s : QState) (e : Bool) :
    (syncDecide s e).2 = .immediate ∨ (syncDecide s e).2 = .drain ∨ (syncDecide s e).2 = .background ∨ (syncDecide s e).2 = .panic := by
  cases s <;> cases e <;> simp [syncDecide]

/-- Immediate execution (no job queued) only when the queue is idle AND empty (C02). -/
theorem syncDecide_immediate_iff (s : QState) (e : Bool) :
    (syncDecide s e).2 = .immediate ↔ (s = .idle ∧ e = true) := by
  cases s <;> cases e <;> simp [syncDecide]

theorem syncNoPanic_agrees (s : QState) (e : Bool) (h : s ≠ .panicked) : syncNoPanicDecide s e = syncDecide s e := by
  cases s <;> cases e <;> simp_all [syncDecide, syncNoPanicDecide]

/-- `try_sync`: runs only when idle and empty; otherwise Busy and the state is untouched (C09). -/
theorem trySync_immediate_iff (s : QState) (e : Bool) :
    (trySyncDecide s e).2 = .immediate ↔ (s = .idle ∧ e = true) := by
  cases s <;> cases e <;> simp [trySyncDecide]

theorem trySync_immediate_running (s : QState) (e : Bool) :
    (trySyncDecide s e).2 = .immediate → (trySyncDecide s e).1 = .running := by
  cases s <;> cases e <;> simp [trySyncDecide]

theorem trySync_busy_undisturbed (s : QState) (e : Bool) :
    (trySyncDecide s e).2 = .busy → (trySyncDecide s e).1 = s := by
  cases s <;> cases e <;> simp [trySyncDecide]

theorem trySync_never_waits (s : QState) (e : Bool) :
    (trySyncDecide s e).2 = .immediate ∨ (trySyncDecide s e).2 = .busy ∨ (trySyncDecide s e).2 = .panic := by
  cases s <;> cases e <;> simp [trySyncDecide]


/-- `claim_pending_queue` -/
theorem claim_spec (s : QState) :
    ((claim s).2 = true → s.claimable = true ∧ (claim s).1 = .running) ∧
    ((claim s).2 = false → (claim s).1 = s) ∧ (s.claimable = true → (claim s).2 = true) := by
  cases s <;> simp [claim, QState.claimable]

/-- `next_to_run`: a pool thread takes a queue only if it is pending, or parked under a polling
task (`waitingForPoll`: the race arm); it then marks it running. Other entries are dropped unchanged. -/
theorem nextToRun_spec (s : QState) :
    ((nextToRun s).2 = true → (s = .pending ∨ ∃ f, s = .waitingForPoll f) ∧ (nextToRun s).1 = .running) ∧
    ((nextToRun s).2 = false → (nextToRun s).1 = s) ∧
    (s = .pending → (nextToRun s).2 = true) := by
  cases s <;> simp [nextToRun]

/-- `SchedulerFuture::poll`: the polling task starts draining only from idle, pending, or its OWN
`waitingForPoll`; it then marks the queue running and does not store its waker; in all other
(non-panicked) states it stores the waker and waits, leaving the state alone. -/
theorem pollDecide_spec (self : Nat) (s : QState) :
    ((pollDecide self s).2.1 = .drain → (s.claimable = true ∨ s = .waitingForPoll self) ∧ (pollDecide self s).1 = .running
        ∧ (pollDecide self s).2.2 = false) ∧
    ((pollDecide self s).2.1 = .wait → (pollDecide self s).1 = s ∧ (pollDecide self s).2.2 = true ∧ s.owned = true) := by
  cases s <;> simp [pollDecide, QState.claimable, QState.owned]
  split <;> simp_all

theorem pollDecide_other_waits (self f : Nat) (h : f ≠ self) :
    pollDecide self (.waitingForPoll f) = (.waitingForPoll f, .wait, true) := by
  simp [pollDecide, h]

/-! ### jobs are taken from the front only while the queue is not parked (C01, C02) -/

theorem dequeue_refuses_parked (s : QState) :
    dequeueAllowed s = false ↔ (s = .waitingForWake ∨ s = .waitingForUnpark ∨ ∃ f, s = .waitingForPoll f) := by
  cases s <;> simp [dequeueAllowed]


/-! ### queuing a job (C03) -/

theorem desyncPush_spec (s : QState) :
    ((desyncPush s).2 = .schedule ↔ s = .idle) ∧ (s = .idle → (desyncPush s).1 = .pending) ∧
    (s ≠ .idle → (desyncPush s).1 = s) := by
  cases s <;> simp [desyncPush]

/-! ### handing the queue back (C03, C04) -/

theorem reschedule_spec (s : QState) (e : Bool) :
    (s = .idle ∧ e = false → reschedule s e = (.pending, true)) ∧
    (s = .idle ∧ e = true → reschedule s e = (.idle, false)) ∧
    ((reschedule s e).2 = true → (s = .idle ∧ e = false) ∨ ∃ f, s = .waitingForPoll f) ∧
    (s ≠ .idle → (reschedule s e).1 = s) := by
  cases s <;> cases e <;> simp [reschedule]

theorem drainExit_spec (s : QState) (e : Bool) :
    (isRunning s = true ∧ e = true → drainExit s e = (.idle, true)) ∧
    (isRunning s = true ∧ e = false → drainExit s e = (s, false)) := by
  cases s <;> cases e <;> simp [drainExit, isRunning]

/-! ### a wake-up is never lost by a table (C06) -/

theorem wake_while_running_is_remembered :
    (wakeQueue .running).1 = .awokenWhileRunning ∧ wakeThread .running = .awokenWhileRunning ∧
    (wakeQueue .awokenWhileRunning).1 = .awokenWhileRunning ∧ wakeThread .awokenWhileRunning = .awokenWhileRunning := by
  simp [wakeQueue, wakeThread]

/-- A remembered wake is consumed by polling again, never by parking. -/
theorem remembered_wake_repolls :
    drainPending .awokenWhileRunning = (.running, false) ∧ runOnePending .awokenWhileRunning = (.running, .continue) ∧
    parkCheck .awokenWhileRunning = .continue ∧ parkCheck .running = .continue := by
  simp [drainPending, runOnePending, parkCheck]

/-- Parking: pool drain parks as `waitingForWake` and returns; a caller parks as `waitingForUnpark`. -/
theorem parking_states :
    drainPending .running = (.waitingForWake, true) ∧ runOnePending .running = (.waitingForUnpark, .park) ∧
    parkCheck .waitingForUnpark = .park := by
  simp [drainPending, runOnePending, parkCheck]

/-- Waking a parked queue: pool-parked → idle + reschedule; caller-parked → running (+ unpark). -/
theorem wake_parked :
    wakeQueue .waitingForWake = (.idle, true) ∧ wakeThread .waitingForUnpark = .running ∧ wakeThreadUnparks = true ∧
    (∀ f, wakeQueue (.waitingForPoll f) = (.waitingForPoll f, true)) ∧
    (∀ f e, reschedule (.waitingForPoll f) e = (.waitingForPoll f, true)) ∧
    (∀ f, nextToRun (.waitingForPoll f) = (.running, true)) := by
  refine ⟨rfl, rfl, rfl, fun _ => rfl, ?_, fun _ => rfl⟩
  intro f e; cases e <;> rfl

/-- A stale queue waker must not disturb a caller-side park. -/
theorem wakeQueue_leaves_unpark : wakeQueue .waitingForUnpark = (.waitingForUnpark, false) := rfl

/-- The `DrainWaker` latch: a wake that arrives before the real waker is installed fires it at
installation; a wake after installation fires the stored waker; nothing fires twice. -/
theorem latch_spec :
    latchWakeWith .woken = (.woken, true) ∧ latchWakeWith .notWoken = (.willWake, false) ∧
    latchWakeWith .willWake = (.willWake, false) ∧
    latchWake .notWoken = (.woken, false) ∧ latchWake .willWake = (.woken, true) ∧ latchWake .woken = (.woken, false) := by
  simp [latchWakeWith, latchWake]

/-! ### the pool (C17, C03, C15) -/

theorem spawn_only_below_max (len max : Nat) : spawnAllowed len max = true ↔ len < max := by
  simp [spawnAllowed]

theorem despawn_down_to_max (len max : Nat) : despawnContinues len max = true ↔ max < len := by
  simp [despawnContinues]

/-- The dormant scan waits for a thread's busy flag (a held flag is not mistaken for "busy"). -/
theorem dormant_scan_blocks : dormantScanBlocks = true := rfl
theorem dormant_reaps_first : dormantReapsFirst = true := rfl



end Desync
