/- A structural fact read from /repo/src by the translator (Generated.lean), kept in its own module so that only the properties that rely on it depend on it. -/
import DesyncModel.Types
import DesyncModel.Generated

namespace Desync
open Gen

/-! ### panic guard (C15) -/
theorem guarded_all_runners (r : Runner) : guarded r = true := by cases r <;> rfl

/-- a runner that panics marks its queue Panicked in every state it can be in while running (Running, AwokenWhileRunning, …) -/
theorem guard_marks_panicked_always : guardMarksPanickedAlways = true := by decide

end Desync
