/- A structural fact read from /repo/src by the translator (Generated.lean), kept in its own module so that only the property that relies on it (C14) depends on it. -/
import DesyncModel.Types
import DesyncModel.Generated

namespace Desync
open Gen

/-- The `unsafe` sites the protocol theorems of C14 are about: in `desync.rs` the three `Send`/`Sync` impls, the five `&mut *data`
dereferences inside scheduled closures and the two `Box::from_raw` inside the free job of `Drop`; in `desync_scheduler.rs` the two
constructions of a lifetime-erased job (`sync_drain`, `sync_background`); in `unsafe_job.rs` the two constructors, the `Send` impl
and the call through the erased pointer. -/
def unsafeInventory : List (String × Nat) := [("desync.rs", 10), ("scheduler/desync_scheduler.rs", 2), ("scheduler/unsafe_job.rs", 4)]

/-- how many `unsafe` occurrences the inventory allows in a file -/
def unsafeAllowed (file : String) : Nat := ((unsafeInventory.lookup file).getD 0)

/-- The crate's `unsafe` sites stay within that inventory: no file contains more `unsafe` (blocks, fns, impls) than the inventory
lists for it, and no other file contains any.  A new site is code the model does not speak about.  (Fewer sites — two closures
merged into one, say — are within the inventory.) -/
theorem unsafe_sites_are_the_modelled_ones : unsafeSites.all (fun p => decide (p.2 ≤ unsafeAllowed p.1)) = true := by decide

end Desync
