/- A structural fact read from /repo/src by the translator (Generated.lean), kept in its own module so that only the property that relies on it (C14) depends on it. -/
import DesyncModel.Types
import DesyncModel.Generated

namespace Desync
open Gen

/-- The crate's `unsafe` sites are exactly the ones the protocol theorems of C14 are about: in `desync.rs` the three
`Send`/`Sync` impls, the five `&mut *data` dereferences inside scheduled closures and the two `Box::from_raw` inside the free job
of `Drop`; in `desync_scheduler.rs` the two constructions of a lifetime-erased job (`sync_drain`, `sync_background`); in
`unsafe_job.rs` the two constructors, the `Send` impl and the call through the erased pointer.  A new site (or one that moved to
another file) is code the model does not speak about. -/
theorem unsafe_sites_are_the_modelled_ones :
    unsafeSites = [("desync.rs", 10), ("scheduler/desync_scheduler.rs", 2), ("scheduler/unsafe_job.rs", 4)] := by decide

end Desync
