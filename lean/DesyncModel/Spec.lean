/-
Vocabulary in which the properties are stated over the model.
-/
import DesyncModel.Model

namespace Desync

/-- An operation is *open* from the invocation of its closure until it completes or is destroyed
(for future operations this includes every suspension at an await). -/
def Job.isOpen (j : Job) : Bool := j.begun && !j.ended

/-- C01: at most one operation per queue is open. -/
def Exclusive (s : State) : Prop :=
  ∀ (j1 j2 : Nat) (b1 b2 : Job), s.jobs[j1]? = some b1 → s.jobs[j2]? = some b2 → b1.q = b2.q →
    b1.isOpen = true → b2.isOpen = true → j1 = j2

/-- C02: jobs are numbered in the order in which they were accepted (a job id is allocated inside
the scheduling call, under the queue lock); an operation begins only after every operation
accepted earlier on the same queue has ended. -/
def InOrder (s : State) : Prop :=
  ∀ (j1 j2 : Nat) (b1 b2 : Job), s.jobs[j1]? = some b1 → s.jobs[j2]? = some b2 → b1.q = b2.q → j1 < j2 →
    b2.begun = true → b1.ended = true

/-- no internal step is enabled (spurious wake-ups are not counted) -/
def Quiescent (s : State) : Prop := ∀ a, stepAct s a = none

def AllGatesOpen (s : State) : Prop := ∀ (g : Nat) (v : Gate), s.gates[g]? = some v → v.isOpen = true ∧ v.waiting = []

/-- every queue idle and empty, every accepted job done: nothing stranded -/
def AllDone (s : State) : Prop :=
  (∀ (q : Nat) (v : JobQ), s.qs[q]? = some v → v.state = .idle ∧ v.jobs = []) ∧ (∀ (j : Nat) (b : Job), s.jobs[j]? = some b → b.ph = .done)

/-- no thread is still inside an API call -/
def NoCallInProgress (s : State) : Prop :=
  ∀ (a : Nat) (v : Act), s.acts[a]? = some v → v.pc = .dead ∨ (∃ p, v.pc = .ptRecvd p) ∨ v.pc = .panicked

def poolSize (s : State) : Nat := s.threadsVec.length

end Desync
