/- A structural fact read from /repo/src by the translator (Generated.lean), kept in its own module so that only the properties that rely on it depend on it. -/
import DesyncModel.Types
import DesyncModel.Generated

namespace Desync
open Gen

theorem queueOps_only_fifo : queueOps = queueOpsExpected := by decide

end Desync
