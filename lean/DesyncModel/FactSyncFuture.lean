/- A structural fact read from /repo/src by the translator (Generated.lean), kept in its own module so that only the properties that rely on it depend on it. -/
import DesyncModel.Types
import DesyncModel.Generated

namespace Desync
open Gen

/-- the user future (`state`) is dropped before the completion sender (`task_finished`). -/
theorem syncFuture_drop_order : syncFutureFields = ["state", "scheduler_future", "task_finished"] := by decide

/-- cancellation is carried by the field drop order alone: there is no `Drop` impl that could act first -/
theorem syncFuture_no_custom_drop : syncFutureCustomDrop = false := rfl

end Desync
