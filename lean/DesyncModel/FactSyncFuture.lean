/- A structural fact read from /repo/src by the translator (Generated.lean), kept in its own module so that only the properties that rely on it depend on it. -/
import DesyncModel.Types
import DesyncModel.Generated

namespace Desync
open Gen

/-- the user future (`state`) is dropped before the completion sender (`task_finished`). -/
theorem syncFuture_drop_order : syncFutureFields = ["state", "scheduler_future", "task_finished"] := by decide

end Desync
