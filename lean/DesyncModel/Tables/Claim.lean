/-
Table obligations (claiming the run right; dequeue): facts about the generated decision tables (Generated.lean, rewritten from /repo/src on every
run) that the proofs use.  A harmless rewrite of a Rust `match` yields an extensionally equal Lean table and every
proof below still closes; a harmful one fails at a theorem whose name says what was lost.  The obligations are split
by topic so that a property's proof cone contains only the tables the property rests on.
-/
import DesyncModel.Types
import DesyncModel.Generated

namespace Desync
open Gen

/-- `claim_pending_queue` -/
theorem claim_spec (s : QState) :
    ((claim s).2 = true → s.claimable = true ∧ (claim s).1 = .running) ∧
    ((claim s).2 = false → (claim s).1 = s) ∧ (s.claimable = true → (claim s).2 = true) := by
  cases s <;> simp [claim, QState.claimable]

/-- `next_to_run`: a pool thread takes a queue only if it is pending, or parked under a polling
task (`waitingForPoll`: the race arm); it then marks it running. Other entries are dropped unchanged. -/
theorem nextToRun_spec (s : QState) :
    ((nextToRun s).2 = true → (s = .pending ∨ ∃ f, s = .waitingForPoll f) ∧ (nextToRun s).1 = .running) ∧
    ((nextToRun s).2 = false → (nextToRun s).1 = s) ∧
    (s = .pending → (nextToRun s).2 = true) := by
  cases s <;> simp [nextToRun]

/-- `SchedulerFuture::poll`: the polling task starts draining only from idle, pending, or its OWN
`waitingForPoll`; it then marks the queue running and does not store its waker; in all other
(non-panicked) states it stores the waker and waits, leaving the state alone. -/
theorem pollDecide_spec (self : Nat) (s : QState) :
    ((pollDecide self s).2.1 = .drain → (s.claimable = true ∨ s = .waitingForPoll self) ∧ (pollDecide self s).1 = .running
        ∧ (pollDecide self s).2.2 = false) ∧
    ((pollDecide self s).2.1 = .wait → (pollDecide self s).1 = s ∧ (pollDecide self s).2.2 = true ∧ s.owned = true) := by
  cases s <;> simp [pollDecide, QState.claimable, QState.owned]
  split <;> simp_all

theorem pollDecide_other_waits (self f : Nat) (h : f ≠ self) :
    pollDecide self (.waitingForPoll f) = (.waitingForPoll f, .wait, true) := by
  simp [pollDecide, h]

/-! ### jobs are taken from the front only while the queue is not parked (C01, C02) -/

theorem dequeue_refuses_parked (s : QState) :
    dequeueAllowed s = false ↔ (s = .waitingForWake ∨ s = .waitingForUnpark ∨ ∃ f, s = .waitingForPoll f) := by
  cases s <;> simp [dequeueAllowed]


end Desync
