/-
Table obligations (the pool): facts about the generated decision tables (Generated.lean, rewritten from /repo/src on every
run) that the proofs use.  A harmless rewrite of a Rust `match` yields an extensionally equal Lean table and every
proof below still closes; a harmful one fails at a theorem whose name says what was lost.  The obligations are split
by topic so that a property's proof cone contains only the tables the property rests on.
-/
import DesyncModel.Types
import DesyncModel.Generated

namespace Desync
open Gen

/-! ### the pool (C17, C03, C15) -/

theorem spawn_only_below_max (len max : Nat) : spawnAllowed len max = true ↔ len < max := by
  simp [spawnAllowed]

theorem despawn_down_to_max (len max : Nat) : despawnContinues len max = true ↔ max < len := by
  simp [despawnContinues]

/-- The dormant scan waits for a thread's busy flag (a held flag is not mistaken for "busy"). -/
theorem dormant_scan_blocks : dormantScanBlocks = true := rfl
theorem dormant_reaps_first : dormantReapsFirst = true := rfl



end Desync
