/-
Table obligations (is_running; entry points refuse a panicked queue): facts about the generated decision tables (Generated.lean, rewritten from /repo/src on every
run) that the proofs use.  A harmless rewrite of a Rust `match` yields an extensionally equal Lean table and every
proof below still closes; a harmful one fails at a theorem whose name says what was lost.  The obligations are split
by topic so that a property's proof cone contains only the tables the property rests on.
-/
import DesyncModel.Types
import DesyncModel.Generated

namespace Desync
open Gen

/-! ### is_running -/

theorem isRunning_spec (s : QState) :
    isRunning s = true ↔ (s = .running ∨ s = .awokenWhileRunning ∨ s = .waitingForUnpark ∨ ∃ f, s = .waitingForPoll f) := by
  cases s <;> simp [isRunning]

/-! ### entry points refuse a panicked queue (C15) -/

theorem desyncPush_panicked : desyncPush .panicked = (.panicked, .panic) := rfl
theorem syncDecide_panicked (e : Bool) : syncDecide .panicked e = (.panicked, .panic) := by cases e <;> rfl
theorem trySyncDecide_panicked (e : Bool) : trySyncDecide .panicked e = (.panicked, .panic) := by cases e <;> rfl
theorem pollDecide_panicked (self : Nat) : (pollDecide self .panicked).2.1 = .panic ∧ (pollDecide self .panicked).1 = .panicked := ⟨rfl, rfl⟩
/-- `sync_no_panic` (Drop while unwinding) neither runs, blocks nor panics on a panicked queue. -/
theorem syncNoPanic_panicked (e : Bool) : syncNoPanicDecide .panicked e = (.panicked, .refuse) := by cases e <;> rfl

/-- Only a panicked queue makes an entry point panic. -/
theorem desyncPush_panics_iff (s : QState) : (desyncPush s).2 = .panic ↔ s = .panicked := by
  cases s <;> simp [desyncPush]
theorem syncDecide_panics_iff (s : QState) (e : Bool) : (syncDecide s e).2 = .panic ↔ s = .panicked := by
  cases s <;> cases e <;> simp [syncDecide]
theorem trySyncDecide_panics_iff (s : QState) (e : Bool) : (trySyncDecide s e).2 = .panic ↔ s = .panicked := by
  cases s <;> cases e <;> simp [trySyncDecide]
theorem pollDecide_panics_iff (self : Nat) (s : QState) : (pollDecide self s).2.1 = .panic ↔ s = .panicked := by
  cases s <;> simp [pollDecide]
  split <;> simp

/-- No table ever leaves the panicked state: it is absorbing. -/
theorem panicked_absorbing :
    (desyncPush .panicked).1 = .panicked ∧ (∀ e, (syncDecide .panicked e).1 = .panicked) ∧
    (∀ e, (syncNoPanicDecide .panicked e).1 = .panicked) ∧ (∀ e, (trySyncDecide .panicked e).1 = .panicked) ∧
    (∀ f, (pollDecide f .panicked).1 = .panicked) ∧ (claim .panicked).1 = .panicked ∧
    (∀ e, (reschedule .panicked e).1 = .panicked) ∧ (nextToRun .panicked).1 = .panicked ∧
    (drainPending .panicked).1 = .panicked ∧ (∀ e, (drainExit .panicked e).1 = .panicked) ∧
    (wakeQueue .panicked).1 = .panicked ∧ wakeThread .panicked = .panicked := by
  refine ⟨rfl, ?_, ?_, ?_, ?_, rfl, ?_, rfl, rfl, ?_, rfl, rfl⟩ <;> intro e <;> cases e <;> rfl

/-- Nothing is claimed, scheduled or run from a panicked queue. -/
theorem panicked_never_claimed :
    (claim .panicked).2 = false ∧ (nextToRun .panicked).2 = false ∧ (∀ e, (reschedule .panicked e).2 = false) := by
  refine ⟨rfl, rfl, ?_⟩; intro e; cases e <;> rfl

end Desync
