/-
Table obligations (sync / sync_no_panic): facts about the generated decision tables (Generated.lean, rewritten from /repo/src on every
run) that the proofs use.  A harmless rewrite of a Rust `match` yields an extensionally equal Lean table and every
proof below still closes; a harmful one fails at a theorem whose name says what was lost.  The obligations are split
by topic so that a property's proof cone contains only the tables the property rests on.
-/
import DesyncModel.Types
import DesyncModel.Generated

namespace Desync
open Gen

/-! ### the run right is handed out only from unowned states (C01) -/

/-- `sync` starts running the queue on the caller (immediate / drain) only from idle or pending,
and then marks it running; in every other state it leaves the state alone and waits. -/
theorem syncDecide_claims (s : QState) (e : Bool) :
    ((syncDecide s e).2 = .immediate ∨ (syncDecide s e).2 = .drain) →
      s.claimable = true ∧ (syncDecide s e).1 = .running := by
  cases s <;> cases e <;> simp [syncDecide, QState.claimable]

theorem syncDecide_background_unchanged (s : QState) (e : Bool) :
    (syncDecide s e).2 = .background → (syncDecide s e).1 = s ∧ s.owned = true := by
  cases s <;> cases e <;> simp [syncDecide, QState.owned]

theorem syncDecide_total (s : QState) (e : Bool) :
    (syncDecide s e).2 = .immediate ∨ (syncDecide s e).2 = .drain ∨ (syncDecide s e).2 = .background ∨ (syncDecide s e).2 = .panic := by
  cases s <;> cases e <;> simp [syncDecide]

/-- Immediate execution (no job queued) only when the queue is idle AND empty (C02). -/
theorem syncDecide_immediate_iff (s : QState) (e : Bool) :
    (syncDecide s e).2 = .immediate ↔ (s = .idle ∧ e = true) := by
  cases s <;> cases e <;> simp [syncDecide]

theorem syncNoPanic_agrees (s : QState) (e : Bool) (h : s ≠ .panicked) : syncNoPanicDecide s e = syncDecide s e := by
  cases s <;> cases e <;> simp_all [syncDecide, syncNoPanicDecide]

end Desync
