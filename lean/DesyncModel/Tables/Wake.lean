/-
Table obligations (wakers and latches): facts about the generated decision tables (Generated.lean, rewritten from /repo/src on every
run) that the proofs use.  A harmless rewrite of a Rust `match` yields an extensionally equal Lean table and every
proof below still closes; a harmful one fails at a theorem whose name says what was lost.  The obligations are split
by topic so that a property's proof cone contains only the tables the property rests on.
-/
import DesyncModel.Types
import DesyncModel.Generated

namespace Desync
open Gen

/-! ### a wake-up is never lost by a table (C06) -/

theorem wake_while_running_is_remembered :
    (wakeQueue .running).1 = .awokenWhileRunning ∧ wakeThread .running = .awokenWhileRunning ∧
    (wakeQueue .awokenWhileRunning).1 = .awokenWhileRunning ∧ wakeThread .awokenWhileRunning = .awokenWhileRunning := by
  simp [wakeQueue, wakeThread]

/-- A remembered wake is consumed by polling again, never by parking. -/
theorem remembered_wake_repolls :
    drainPending .awokenWhileRunning = (.running, false) ∧ runOnePending .awokenWhileRunning = (.running, .continue) ∧
    parkCheck .awokenWhileRunning = .continue ∧ parkCheck .running = .continue := by
  simp [drainPending, runOnePending, parkCheck]

/-- Parking: pool drain parks as `waitingForWake` and returns; a caller parks as `waitingForUnpark`. -/
theorem parking_states :
    drainPending .running = (.waitingForWake, true) ∧ runOnePending .running = (.waitingForUnpark, .park) ∧
    parkCheck .waitingForUnpark = .park := by
  simp [drainPending, runOnePending, parkCheck]

/-- Waking a parked queue: pool-parked → idle + reschedule; caller-parked → running (+ unpark). -/
theorem wake_parked :
    wakeQueue .waitingForWake = (.idle, true) ∧ wakeThread .waitingForUnpark = .running ∧ wakeThreadUnparks = true ∧
    (∀ f, wakeQueue (.waitingForPoll f) = (.waitingForPoll f, true)) ∧
    (∀ f e, reschedule (.waitingForPoll f) e = (.waitingForPoll f, true)) ∧
    (∀ f, nextToRun (.waitingForPoll f) = (.running, true)) := by
  refine ⟨rfl, rfl, rfl, fun _ => rfl, ?_, fun _ => rfl⟩
  intro f e; cases e <;> rfl

/-- A stale queue waker must not disturb a caller-side park. -/
theorem wakeQueue_leaves_unpark : wakeQueue .waitingForUnpark = (.waitingForUnpark, false) := rfl

/-- The `DrainWaker` latch: a wake that arrives before the real waker is installed fires it at
installation; a wake after installation fires the stored waker; nothing fires twice. -/
theorem latch_spec :
    latchWakeWith .woken = (.woken, true) ∧ latchWakeWith .notWoken = (.willWake, false) ∧
    latchWakeWith .willWake = (.willWake, false) ∧
    latchWake .notWoken = (.woken, false) ∧ latchWake .willWake = (.woken, true) ∧ latchWake .woken = (.woken, false) := by
  simp [latchWakeWith, latchWake]

end Desync
