/-
Table obligations (queuing a job; handing the queue back): facts about the generated decision tables (Generated.lean, rewritten from /repo/src on every
run) that the proofs use.  A harmless rewrite of a Rust `match` yields an extensionally equal Lean table and every
proof below still closes; a harmful one fails at a theorem whose name says what was lost.  The obligations are split
by topic so that a property's proof cone contains only the tables the property rests on.
-/
import DesyncModel.Types
import DesyncModel.Generated

namespace Desync
open Gen

/-! ### queuing a job (C03) -/

theorem desyncPush_spec (s : QState) :
    ((desyncPush s).2 = .schedule ↔ s = .idle) ∧ (s = .idle → (desyncPush s).1 = .pending) ∧
    (s ≠ .idle → (desyncPush s).1 = s) := by
  cases s <;> simp [desyncPush]

/-! ### handing the queue back (C03, C04) -/

theorem reschedule_spec (s : QState) (e : Bool) :
    (s = .idle ∧ e = false → reschedule s e = (.pending, true)) ∧
    (s = .idle ∧ e = true → reschedule s e = (.idle, false)) ∧
    ((reschedule s e).2 = true → (s = .idle ∧ e = false) ∨ ∃ f, s = .waitingForPoll f) ∧
    (s ≠ .idle → (reschedule s e).1 = s) := by
  cases s <;> cases e <;> simp [reschedule]

theorem drainExit_spec (s : QState) (e : Bool) :
    (isRunning s = true ∧ e = true → drainExit s e = (.idle, true)) ∧
    (isRunning s = true ∧ e = false → drainExit s e = (s, false)) := by
  cases s <;> cases e <;> simp [drainExit, isRunning]

end Desync
