/-
Table obligations (dropping a SchedulerFuture): facts about the generated decision tables (Generated.lean, rewritten
from /repo/src on every run) that the proofs use.
-/
import DesyncModel.Types
import DesyncModel.Generated

namespace Desync
open Gen

/-- `Drop for SchedulerFuture` hands the queue back exactly when the queue is waiting to be polled by this very future:
it becomes idle and is rescheduled; in every other state the drop leaves the queue alone (C07, C08, C03) -/
theorem futureDrop_spec (self : Nat) (s : QState) :
    ((futureDropDecide self s).2 = true ↔ s = .waitingForPoll self) ∧
    ((futureDropDecide self s).2 = true → (futureDropDecide self s).1 = .idle) ∧
    ((futureDropDecide self s).2 = false → (futureDropDecide self s).1 = s) := by
  cases s <;> simp [futureDropDecide]
  all_goals (split <;> simp_all)

/-- the drop looks at the queue only when the future was draining it, and a queue it hands back is rescheduled -/
theorem futureDrop_guarded : futureDropGuarded = true ∧ futureDropReschedules = true := by decide

/-- the `draining` flag of the model (`Fut.draining`) follows the code: `drain_queue` raises it on entry, leaves it raised only on
the exit that leaves the queue `WaitingForPoll(this future)`, lowers it on every other exit; `poll` itself never writes it (so a
later poll that finds the result already there leaves a stale `true`, which the model has too) -/
theorem draining_writes : drainingWrites = [true, false, true, false, false] ∧ pollWritesDraining = false := by decide

end Desync
