/-
Table obligations (try_sync): facts about the generated decision tables (Generated.lean, rewritten from /repo/src on every
run) that the proofs use.  A harmless rewrite of a Rust `match` yields an extensionally equal Lean table and every
proof below still closes; a harmful one fails at a theorem whose name says what was lost.  The obligations are split
by topic so that a property's proof cone contains only the tables the property rests on.
-/
import DesyncModel.Types
import DesyncModel.Generated

namespace Desync
open Gen

/-- `try_sync`: runs only when idle and empty; otherwise Busy and the state is untouched (C09). -/
theorem trySync_immediate_iff (s : QState) (e : Bool) :
    (trySyncDecide s e).2 = .immediate ↔ (s = .idle ∧ e = true) := by
  cases s <;> cases e <;> simp [trySyncDecide]

theorem trySync_immediate_running (s : QState) (e : Bool) :
    (trySyncDecide s e).2 = .immediate → (trySyncDecide s e).1 = .running := by
  cases s <;> cases e <;> simp [trySyncDecide]

theorem trySync_busy_undisturbed (s : QState) (e : Bool) :
    (trySyncDecide s e).2 = .busy → (trySyncDecide s e).1 = s := by
  cases s <;> cases e <;> simp [trySyncDecide]

theorem trySync_never_waits (s : QState) (e : Bool) :
    (trySyncDecide s e).2 = .immediate ∨ (trySyncDecide s e).2 = .busy ∨ (trySyncDecide s e).2 = .panic := by
  cases s <;> cases e <;> simp [trySyncDecide]


end Desync
