/-
Executable-only part of the model: replaying an implementation trace through `stepAct`
(conformance), with the id renaming between trace names and model ids.  Nothing here is used by
the theorems.
-/
import DesyncModel.Step

namespace Desync
open Gen

def pcName : Pc → String
  | .ret => "ret" | .dead => "dead" | .begin _ _ => "begin" | .body _ _ => "body" | .panicked => "panicked" | .unwinding _ => "unwinding"
  | .stReap _ => "stReap" | .stScanLock _ => "stScanLock" | .stScan _ _ => "stScan" | .stScanHeld _ _ => "stScanHeld"
  | .stScanRel _ _ _ => "stScanRel" | .stScanUnlock _ _ => "stScanUnlock" | .stReadMax _ => "stReadMax"
  | .stSpawn _ _ => "stSpawn" | .stSpawnRel _ => "stSpawnRel"
  | .rqCs _ _ => "rqCs" | .rqNotifyAcq _ _ _ _ => "rqNotifyAcq" | .rqNotify _ _ _ _ => "rqNotify" | .rqNotifyRel _ _ _ _ => "rqNotifyRel" | .rqPush _ _ => "rqPush"
  | .waking _ _ => "waking" | .openSend _ _ => "openSend" | .wqCs _ _ => "wqCs" | .wtCs _ _ _ => "wtCs" | .wtUnpark _ _ => "wtUnpark"
  | .lwCs _ _ => "lwCs" | .dwCs _ _ => "dwCs"
  | .dsPush _ _ => "dsPush" | .dsSched _ => "dsSched"
  | .syDecide _ _ => "syDecide" | .tsDecide _ _ => "tsDecide" | .siIdle _ _ => "siIdle" | .sdPush _ _ => "sdPush" | .sdCheck _ _ => "sdCheck" | .sdIdle _ => "sdIdle"
  | .sbReg _ _ => "sbReg" | .sbPush _ _ => "sbPush" | .sbLockReady _ _ => "sbLockReady" | .sbTest _ _ => "sbTest" | .sbClaim _ _ => "sbClaim"
  | .sbClaimRel _ _ _ => "sbClaimRel" | .sbRelReady _ _ => "sbRelReady" | .sbStealTest _ _ => "sbStealTest" | .sbStealIdle _ _ => "sbStealIdle"
  | .sbWait _ _ => "sbWait" | .sbWaiting _ _ => "sbWaiting" | .sbDone _ _ => "sbDone" | .sbDropCv _ => "sbDropCv" | .sbPrune _ => "sbPrune"
  | .rjDequeue _ _ => "rjDequeue" | .rjPending _ _ _ => "rjPending" | .rjParkCheck _ _ _ => "rjParkCheck" | .rjPark _ _ _ => "rjPark" | .rjParked _ _ _ => "rjParked"
  | .jobStart _ _ _ => "jobStart" | .jobAwait _ _ _ => "jobAwait" | .jobBodyDone _ _ _ => "jobBodyDone" | .jobEnd _ _ _ => "jobEnd"
  | .jobSignal _ _ _ => "jobSignal" | .jobSigDrop _ _ _ => "jobSigDrop" | .jobDrop _ _ _ => "jobDrop" | .jobDropNotify _ _ _ => "jobDropNotify"
  | .ptRecv _ => "ptRecv" | .ptRecvd _ => "ptRecvd" | .ptLockBusy _ => "ptLockBusy" | .ptLockSched _ => "ptLockSched" | .ptPop _ => "ptPop"
  | .ptUnlockSched _ _ => "ptUnlockSched" | .ptUnlockBusy _ _ => "ptUnlockBusy" | .pdDequeue _ _ => "pdDequeue" | .pdRequeue _ _ _ => "pdRequeue"
  | .pdPending _ _ => "pdPending" | .pdExit _ _ => "pdExit"
  | .pfPoll _ => "pfPoll" | .pfPollRel _ _ => "pfPollRel" | .pfBlocked _ => "pfBlocked" | .dqCheck _ _ => "dqCheck" | .dqDequeue _ _ => "dqDequeue"
  | .dqRequeue _ _ _ _ => "dqRequeue" | .dqCheck2 _ _ _ => "dqCheck2" | .dqSetWfw _ _ _ => "dqSetWfw" | .dqStore _ _ _ => "dqStore" | .dqSetWfp _ _ _ => "dqSetWfp"
  | .dqWakeWith _ _ _ _ => "dqWakeWith" | .dqStore2 _ _ => "dqStore2" | .dqIdle2 _ _ => "dqIdle2" | .dqIdle _ _ => "dqIdle" | .fsTake _ => "fsTake" | .fsTake2 _ => "fsTake2"
  | .pollReady _ => "pollReady" | .pollPending _ => "pollPending" | .sfPoll _ => "sfPoll" | .sfRecv _ => "sfRecv" | .sfUser _ => "sfUser"
  | .sfFinish _ => "sfFinish" | .sfBlocked _ => "sfBlocked" | .sfDrop _ => "sfDrop" | .sfDropDone _ => "sfDropDone" | .fdDrop _ _ => "fdDrop"
  | .resumeSend _ _ => "resumeSend" | .suspSignal _ _ _ => "suspSignal" | .suspSigDrop _ _ _ => "suspSigDrop"
  | .smSet _ => "smSet" | .dpRead => "dpRead" | .dpLock _ => "dpLock" | .dpHang _ _ => "dpHang" | .dpJoin _ => "dpJoin"

def allPcNames : List String :=
  ["begin", "body", "stReap", "stScanLock", "stScan", "stScanHeld", "stScanRel", "stScanUnlock", "stReadMax", "stSpawn", "stSpawnRel",
   "rqCs", "rqNotifyAcq", "rqNotify", "rqNotifyRel", "rqPush", "waking", "openSend", "wqCs", "wtCs", "wtUnpark", "lwCs", "dwCs", "dsPush", "dsSched",
   "syDecide", "tsDecide", "siIdle", "sdPush", "sdCheck", "sdIdle", "sbReg", "sbPush", "sbLockReady", "sbTest", "sbClaim", "sbClaimRel", "sbRelReady",
   "sbStealTest", "sbStealIdle", "sbWait", "sbWaiting", "sbDone", "sbDropCv", "sbPrune", "rjDequeue", "rjPending", "rjParkCheck", "rjPark", "rjParked",
   "jobStart", "jobAwait", "jobBodyDone", "jobEnd", "jobSignal", "jobSigDrop", "jobDrop", "jobDropNotify", "ptRecv", "ptRecvd", "ptLockBusy", "ptLockSched", "ptPop",
   "ptUnlockSched", "ptUnlockBusy", "pdDequeue", "pdRequeue", "pdPending", "pdExit", "pfPoll", "pfPollRel", "pfBlocked", "dqCheck", "dqDequeue",
   "dqRequeue", "dqCheck2", "dqSetWfw", "dqStore", "dqSetWfp", "dqWakeWith", "dqStore2", "dqIdle2", "dqIdle", "fsTake", "pollReady", "pollPending", "sfPoll", "sfRecv", "sfUser", "sfFinish", "sfBlocked", "sfDrop", "sfDropDone", "fdDrop", "resumeSend", "suspSignal", "suspSigDrop", "smSet", "dpRead", "dpLock", "dpHang", "dpJoin"]

def qstateName : QState → String
  | .idle => "Idle" | .pending => "Pending" | .running => "Running" | .waitingForWake => "WaitingForWake"
  | .waitingForUnpark => "WaitingForUnpark" | .waitingForPoll _ => "WaitingForPoll" | .awokenWhileRunning => "AwokenWhileRunning"
  | .panicked => "Panicked"

/-- Renaming between trace names and model ids, and the bookkeeping of one replay. -/
structure Replay where
  s : State
  names : List (String × Nat)        -- trace object name ("Q0", "B1", "R0", "W0", "D0", "G0", "C1", "M0") -> model id
  tags : List (String × Nat)         -- live job tag -> JobId
  futIds : List (String × Nat)       -- FutureId printed in WaitingForPoll:<n> -> model fut
  threads : List (Nat × Nat)         -- trace agent -> model thread
  callAct : List (Nat × Nat)         -- harness call id -> activity
  callOp : List (Nat × Nat)          -- harness call id -> model op
  hits : List String                 -- pc names stepped through
  started : Bool
  deriving Inhabited

def lookupS (l : List (String × Nat)) (k : String) : Option Nat := (l.find? (·.1 == k)).map (·.2)
def lookupN (l : List (Nat × Nat)) (k : Nat) : Option Nat := (l.find? (·.1 == k)).map (·.2)
def revLookupS (l : List (String × Nat)) (v : Nat) (pre : String) : Option String :=
  (l.find? (fun p => p.2 == v && p.1.startsWith pre)).map (·.1)

/-- Check that trace name `nm` (of kind prefix `pre`) denotes model id `v`, binding it on first sight.
Both directions must be consistent (a bijection per kind). -/
def bindName (r : Replay) (pre : String) (nm : String) (v : Nat) : Except String Replay :=
  match lookupS r.names nm with
  | some v' => if v' == v then .ok r else .error s!"{nm} is model {pre}{v'} but the model expects {pre}{v}"
  | none =>
    match revLookupS r.names v pre with
    | some other => .error s!"model {pre}{v} is already {other}, trace says {nm}"
    | none => .ok { r with names := (nm, v) :: r.names }

def parseNatD (s : String) : Nat := s.toNat?.getD 0

/-- "[a,b,c]" → ["a","b","c"] -/
def parseList (s : String) : List String :=
  let inner := String.ofList ((s.toList.drop 1).dropLast)
  if inner.isEmpty then [] else inner.splitOn ","

def threadModel (r : Replay) (ag : Nat) : Nat := (lookupN r.threads ag).getD ag

/-- compare the model's queue `q` (post-state) with a trace snapshot `state [tags] [cvs]` -/
def checkQueue (r : Replay) (q : Nat) (ws : List String) : Except String Replay := do
  let some v := r.s.qs[q]? | .error s!"no model queue {q}"
  let [stS, jobsS, cvsS] := ws | .error s!"bad queue snapshot {ws}"
  let stName := (stS.splitOn ":").head!
  if stName != qstateName v.state then .error s!"queue {q}: state {stS} but model {qstateName v.state}"
  let mut r := r
  match v.state with
  | .waitingForPoll f =>
    let fid := ((stS.splitOn ":").getD 1 "")
    match lookupS r.futIds fid with
    | some f' => if f' != f then .error s!"queue {q}: WaitingForPoll future {fid} is model fut {f'} but model state names fut {f}"
    | none => r := { r with futIds := (fid, f) :: r.futIds }
  | _ => pure ()
  let tags := parseList jobsS
  if tags.length != v.jobs.length then .error s!"queue {q}: {tags.length} jobs {tags} but model has {v.jobs}"
  -- forget tags of jobs that are done (their boxes were freed; addresses may be reused)
  r := { r with tags := r.tags.filter (fun p => match r.s.jobs[p.2]? with | some jb => jb.ph != .done | none => false) }
  for (tg, j) in tags.zip v.jobs do
    match lookupS r.tags tg with
    | some j' => if j' != j then .error s!"queue {q}: job {tg} is model job {j'} but model has job {j} there (order differs: trace {tags} model {v.jobs})"
    | none =>
      if r.tags.any (·.2 == j) then .error s!"queue {q}: model job {j} already has another tag; trace {tags} model {v.jobs}"
      r := { r with tags := (tg, j) :: r.tags }
  -- Blocked callers.  Whether the condition variable of a caller that has FINISHED waiting is still
  -- alive is not observable exactly (other threads may hold a last reference across an unlock), so
  -- entries of finished callers are not compared; callers that may still wait must agree, in order.
  let cvs := parseList cvsS
  let sure := fun (w : Nat) => match r.s.acts[w]? with
    | some av => (match av.pc with | .sbPrune _ | .ret | .dead | .panicked => false | _ => true)
    | none => false
  let mut todo := v.waiters.filter sure
  for cv in cvs do
    if cv == "x" then continue
    match lookupS r.names cv with
    | some w =>
      if sure w then
        match todo with
        | w' :: rest => if w' == w then todo := rest else .error s!"queue {q}: blocked callers {cvs} but model {v.waiters} (expected caller {w'} before {w})"
        | [] => .error s!"queue {q}: blocked callers {cvs} but model {v.waiters}"
    | none =>
      match todo with
      | w' :: rest =>
        r ← bindName r "C" cv w'
        todo := rest
      | [] => .error s!"queue {q}: unknown blocked caller {cv} in {cvs}, model {v.waiters}"
  if !todo.isEmpty then .error s!"queue {q}: blocked callers {cvs} but the model also has waiting callers {todo}"
  return r

def resName : ResState → String
  | .none => "none" | .ok => "ok" | .canceled => "canceled" | .returned => "returned"

/-- Compare the post-state of a step with the snapshot carried by the trace event. -/
def checkSnapshot (r : Replay) (obs : Obs) (nm : String) (ws : List String) : Except String Replay := do
  match obs with
  | .csQ q => do
    let r ← bindName r "Q" nm q
    checkQueue r q ws
  | .csS =>
    let want := parseList (ws.getD 0 "[]")
    if want.length != r.s.schedule.length then .error s!"schedule {want} but model {r.s.schedule}"
    let mut r := r
    for (n, q) in want.zip r.s.schedule do r ← bindName r "Q" n q
    return r
  | .csT =>
    let want := parseList (ws.getD 0 "[]")
    if want.length != r.s.threadsVec.length then .error s!"threads {want} but model {r.s.threadsVec}"
    let mut r := r
    for (n, p) in want.zip r.s.threadsVec do r ← bindName r "B" n p
    return r
  | .csB p =>
    let r ← bindName r "B" nm p
    let some pt := r.s.pthreads[p]? | .error "no pthread"
    if ws.getD 0 "" != toString pt.busy then .error s!"busy flag {nm} = {ws} but model {pt.busy}"
    return r
  | .csX => if parseNatD (ws.getD 0 "") != r.s.maxThreads then .error s!"max threads {ws} but model {r.s.maxThreads}" else return r
  | .csR f =>
    let r ← bindName r "R" nm f
    let some fu := r.s.futs[f]? | .error "no fut"
    if ws.getD 0 "" != resName fu.res then .error s!"result slot {nm} = {ws} but model {resName fu.res}"
    if (ws.getD 1 "" == "waker") != fu.waker.isSome then .error s!"result slot {nm} waker {ws} but model {fu.waker.isSome}"
    return r
  | .csW l =>
    let r ← bindName r "W" nm l
    let some (st, _) := r.s.latches[l]? | .error "no latch"
    let want := match st with | .notWoken => "notwoken" | .woken => "woken" | .willWake => "willwake"
    if ws.getD 0 "" != want then .error s!"drain waker {nm} = {ws} but model {want}"
    return r
  | .csD d =>
    let r ← bindName r "D" nm d
    let some c := r.s.doubles[d]? | .error "no double"
    if (ws.getD 0 "" == "armed") != c.isSome then .error s!"double waker {nm} = {ws} but model {c.isSome}"
    return r
  | .csG w =>
    let r ← bindName r "G" nm w
    if ws.getD 0 "" != toString (r.s.isReady w) then .error s!"ready flag {nm} = {ws} but model {r.s.isReady w}"
    return r
  | _ => .error s!"model step {repr obs} is not a critical section"

def pcOf (s : State) (a : Nat) : String := match s.acts[a]? with | some v => pcName v.pc | none => "?"

/-- Apply the silent steps of activity `a` (they contain no scheduling point in the code). -/
def runSilent (r : Replay) (a : Nat) : Nat → Replay
  | 0 => r
  | fuel + 1 =>
    match stepAct r.s a with
    | some (s', .silent) => runSilent { r with s := s', hits := pcOf r.s a :: r.hits } a fuel
    | _ => r

def kindOfName (nm : String) : String := String.ofList (nm.toList.take 1)

def dropFirst (nm : String) : String := String.ofList (nm.toList.drop 1)

/-- Replay one trace event. `ag` = trace agent, `ws` = the remaining words. -/
def replayEvent (r : Replay) (ag : Nat) (ws : List String) : Except String Replay := do
  let t := threadModel r ag
  match ws with
  | [] => return r
  | "setup-done" :: _ => return { r with started := true }
  | kind :: args =>
    if !r.started then return r
    if ["callers-done", "all-completed", "quiet", "finished", "oraclefail", "start", "exit", "join", "wait", "woke", "obs"].contains kind then return r
    if kind == "inv" then
      let id := parseNatD (args.getD 0 "")
      let k := args.getD 1 ""
      let x := parseNatD (args.getD 2 "")
      let gate : Option Nat := (args.getD 3 "-").toNat?
      let cOpt : Option Call := (match k with
        | "desync" => some (.desync x) | "sync" => some (.sync x) | "trysync" => some (.trySync x)
        | "fdesync" => some (.fdesync x gate) | "after" => some (.after x (gate.getD 0))
        | "await" => (lookupN r.callOp x).map .await | "syncf" => (lookupN r.callOp x).map .syncf | "dropf" => (lookupN r.callOp x).map .dropf
        | "pollonce" => (lookupN r.callOp x).map .pollOnce | "resume" => (lookupN r.callOp x).map .resume
        | "fsync" => some (.fsync x gate) | "suspend" => some (.suspend x) | "dropobj" => some (.dropObj x)
        | "open" => some (.openGate x) | "setmax" => some (.setMax x) | "despawn" => some .despawn
        | _ => none)
      let some c := cOpt | .error s!"UNMODELLED call kind {k}"
      let leaf := r.s.leafOf t
      let r := match leaf with | some l => runSilent r l 64 | none => r
      let parent := match leaf with
        | some l => match r.s.acts[l]? with
          | some v => match v.pc with | .body _ _ => some l | _ => none
          | none => none
        | none => none
      if leaf.isSome && parent.isNone then .error s!"call {k} invoked by thread {ag} while its activity {leaf} is at {pcOf r.s (leaf.getD 0)}"
      let op := r.s.nextOp
      let some (s', a) := invoke r.s t parent c | .error s!"model cannot invoke {k}"
      let r := { r with s := s', callAct := (id, a) :: r.callAct, callOp := (id, op) :: r.callOp }
      return runSilent r a 64
    if (r.s.leafOf t).isNone && ["spawn", "joined"].contains kind then return r   -- the harness's own threads
    let some a := r.s.leafOf t | .error s!"thread {ag} has no live activity in the model"
    let r := runSilent r a 64
    -- a pending future may be polled again although its waker has not fired
    let r := match r.s.acts[a]? with
      | some av => (match av.pc with
        | .pfBlocked _ | .sfBlocked _ => (match spuriousPoll r.s a with | some s' => runSilent { r with s := s', hits := "spuriousPoll" :: r.hits } a 64 | none => r)
        | _ => r)
      | none => r
    if kind == "ret" then
      let id := parseNatD (args.getD 0 "")
      let some a' := lookupN r.callAct id | .error s!"ret of unknown call {id}"
      let r := runSilent r a' 64
      let some (s', res) := retStep r.s a' | .error s!"call {id} returned but its model activity is at {pcOf r.s a'}"
      let want := match args.getD 1 "" with | "busy" => 1 | "canceled" => 2 | "pending" => 3 | _ => 0
      if want != res then .error s!"call {id} returned {args.getD 1 ""} but the model returns {res}"
      return { r with s := s', hits := "ret" :: r.hits }
    -- notifications sent to callers that have finished waiting are not compared (see checkQueue)
    let sure := fun (w : Nat) => match r.s.acts[w]? with
      | some av => (match av.pc with | .sbPrune _ | .ret | .dead | .panicked => false | _ => true)
      | none => false
    let evName := args.getD 0 ""
    let evW : Option Nat := if ["acq", "cs"].contains kind && kindOfName evName == "G" then lookupS r.names evName
                            else if kind == "notify1" then lookupS r.names evName else none
    let headTodo : Option (Nat × Pc) := match r.s.acts[a]? with
      | some av => (match av.pc with
        | .rqNotifyAcq q (h :: rest) rs k => some (h, .rqNotifyAcq q rest rs k)
        | _ => none)
      | none => none
    let inNotify : Bool := match r.s.acts[a]? with
      | some av => (match av.pc with | .rqNotifyAcq _ _ _ _ | .rqPush _ _ => true | _ => false)
      | none => false
    -- (a) the implementation signals a finished caller the model no longer lists: skip its three events
    let nextObs : Option Obs := (stepAct r.s a).map (·.2)
    let skipEv : Bool := match evW with
      | some w => !sure w && !(nextObs == some (.acqG w) || nextObs == some (.notify1 w) || nextObs == some (.csG w))
                  && (match headTodo with | some (h, _) => h != w | none => true)
      | none => false
    if skipEv then return r
    -- (b) the model lists a finished caller the implementation no longer signals: drop it from the list
    let r : Replay := match headTodo with
      | some (h, pc') =>
        if !sure h && !(kind == "acq" && kindOfName evName == "G" && lookupS r.names evName == some h) then
          runSilent { r with s := r.s.goto a pc' } a 64
        else r
      | none => r
    -- every other event is a step of the thread's leaf activity
    let stepRes := match stepAct r.s a with
      | some x => some x
      | none => if kind == "unparked" then spuriousUnpark r.s a else if kind == "end" then bodyEnd r.s a else none
    let pcn := pcOf r.s a
    if kind == "acq" then
      -- acquisitions are explicit model steps only for locks held across several steps
      match stepRes with
      | some (s', .acqS) => if kindOfName (args.getD 0 "") == "S" then return runSilent { r with s := s', hits := pcn :: r.hits } a 64 else return r
      | some (s', .acqT) => if kindOfName (args.getD 0 "") == "T" then return runSilent { r with s := s', hits := pcn :: r.hits } a 64 else return r
      | some (s', .acqB p) =>
        if kindOfName (args.getD 0 "") == "B" then
          let r ← bindName { r with s := s', hits := pcn :: r.hits } "B" (args.getD 0 "") p
          return runSilent r a 64
        else return r
      | some (s', .acqG w) =>
        if kindOfName (args.getD 0 "") == "G" then
          let r ← bindName { r with s := s', hits := pcn :: r.hits } "G" (args.getD 0 "") w
          return runSilent r a 64
        else return r
      | _ => return r
    let some (s', obs) := stepRes | .error s!"activity {a} of thread {ag} is blocked/finished in the model at {pcn} but the trace has `{kind} {args}`"
    let r1 := { r with s := s', hits := pcn :: r.hits }
    let fail (why : String) : Except String Replay := .error s!"at {pcn}: model step {repr obs} vs trace `{kind} {args}`: {why}"
    let r2 ← (match kind, obs with
      | "cs", _ =>
        let nm := args.getD 0 ""
        let k := kindOfName nm
        let okKind := match obs with
          | .csQ _ => k == "Q" | .csS => k == "S" | .csT => k == "T" | .csB _ => k == "B" | .csX => k == "X"
          | .csR _ => k == "R" | .csW _ => k == "W" | .csD _ => k == "D" | .csG _ => k == "G" | _ => false
        if !okKind then fail "different object" else
        match checkSnapshot r1 obs nm (args.drop 1) with
        | .ok r => .ok r
        | .error e => fail e
      | "tryfail", .tryFailB p => bindName r1 "B" (args.getD 0 "") p
      | "send", .send p => bindName r1 "M" (args.getD 0 "") p
      | "hangup", .hangup p => bindName r1 "M" (args.getD 0 "") p
      | "recv", .recv p => bindName r1 "M" (args.getD 0 "") p
      | "recvd", .recvd p ok => if (args.getD 1 "" == "ok") == ok then bindName r1 "M" (args.getD 0 "") p else fail "channel outcome"
      | "spawn", .spawn p =>
        let n := parseNatD (dropFirst (args.getD 0 ""))
        .ok { r1 with threads := (n, 1000 + p) :: r1.threads }
      | "joined", .joined p =>
        let n := parseNatD (dropFirst (args.getD 0 ""))
        if threadModel r1 n == 1000 + p then .ok r1 else fail "joined a different thread"
      | "park", .park => .ok r1
      | "unparked", .unparked => .ok r1
      | "unpark", .unpark th =>
        let n := parseNatD (dropFirst (args.getD 0 ""))
        if threadModel r1 n == th then .ok r1 else fail "unparks a different thread"
      | "notify1", .notify1 w => bindName r1 "C" (args.getD 0 "") w
      | "notifyall", .notifyAll w => bindName r1 "C" (args.getD 0 "") w
      | "taskwake", .taskWake th =>
        let n := parseNatD (dropFirst (args.getD 0 ""))
        if th == threadModel r1 n then .ok r1 else fail "wakes a different task"
      | "wakeup-dropped", .wakeupDropped => .ok r1
      | "rsend", .resumeSend op =>
        if lookupN r1.callOp (parseNatD (args.getD 0 "")) == some op then .ok r1 else fail "a different suspension is resumed"
      | "cancel", .cancel op =>
        if lookupN r1.callOp (parseNatD (args.getD 0 "")) == some op then .ok r1 else fail "a different operation is destroyed"
      | "free", .free q => if parseNatD (args.getD 0 "") == q then .ok r1 else fail "a different object is freed"
      | "gsend", .gateSend g => if parseNatD (args.getD 0 "") == g then .ok r1 else fail "different gate"
      | "beg", .beg op =>
        if lookupN r1.callOp (parseNatD (args.getD 0 "")) == some op then .ok r1 else fail "a different operation begins"
      | "end", .end_ op =>
        if lookupN r1.callOp (parseNatD (args.getD 0 "")) == some op then .ok r1 else fail "a different operation ends"
      | _, _ => fail "different kind of step")
    return runSilent r2 a 64

/-- model-side verdict at the point where the implementation has gone quiet -/
def quietCheck (s : State) : Option String :=
  if !s.quiescent then some "the implementation is quiet but the model still has an enabled step"
  else
    match (List.range s.qs.length).find? (fun q => match s.qs[q]? with | some v => !(v.state == .idle && v.jobs.isEmpty) | none => false) with
    | some q => some s!"queue {q} is not idle and empty at quiescence in the model"
    | none => none

end Desync
