/- A structural fact read from /repo/src by the translator (Generated.lean), kept in its own module so that only the properties that rely on it depend on it. -/
import DesyncModel.Types
import DesyncModel.Generated

namespace Desync
open Gen

/-- A runner that gives a queue up writes `Idle` whatever the state has become in the meantime (`sync_immediate`, `sync_drain`, the
steal branch of `sync_background`, `SchedulerFuture::drain_queue`): the model's `siIdle`, `sdIdle`, `sbStealIdle`, `dqIdle` steps
are unconditional writes followed by `reschedule_queue`.  A hand-back nested in a test of the state (say, "only if still
`Running`") leaves a queue that was woken while it ran in `AwokenWhileRunning` with nobody running it. -/
theorem hand_backs_are_unconditional : stateConditionalHandBacks = [] := by decide

end Desync
