/-
I_watch and the pool invariants it rests on hold in every state reachable without a maximum of zero ever being configured.
-/
import DesyncModel.Inv.WatchSched
import DesyncModel.Inv.PoolSim
import DesyncModel.Inv.PoolWf
import DesyncModel.Inv.HolderReach

namespace Desync
open Gen

/-- all the pool invariants together -/
structure WatchInv (s : State) : Prop where
  wf : WfAll s
  tl : TlInv s
  po : PoInv s
  bl : BlInv s
  thr : ThrInv s
  nz : NzInv s
  sched : SchedW s

theorem watchInv_stepAct {s s' : State} {a : Nat} {o : Obs} (h : WatchInv s) (hs : stepAct s a = some (s', o)) : WatchInv s' := by
  have hp := pstep_of_stepAct (h.wf a) hs
  exact ⟨wfAll_stepAct h.wf hs, tl_pstep h.tl hp, po_pstep h.po hp, bl_pstep h.tl h.bl hp, thr_pstep h.po h.thr hp, nz_pstep h.nz hp,
         sched_pstep h.po h.thr h.tl h.bl h.nz hp h.sched⟩

/-! ### environment steps -/

/-- what an environment step may do to a program counter: nothing the pool can see, except that a fresh activity may be a
`set_max_threads(n)` call with `n ≥ 1` -/
def EnvMove (pc pc' : Pc) : Prop :=
  pc'.poolOf = pc.poolOf ∧ (pc.wf = true → pc'.wf = true) ∧ (pc'.cls = pc.cls ∨ (pc.cls = .neutral ∧ ∃ n, 1 ≤ n ∧ pc'.cls = .smSet n))

structure PEnv (s X : State) : Prop where
  pool : PoolSame s X
  pcs : ∀ b, X.pcAt b = s.pcAt b ∨ EnvMove (s.pcAt b) (X.pcAt b)

theorem PEnv.po {s X : State} (h : PEnv s X) (b : Nat) : X.po b = s.po b := by
  rcases h.pcs b with h1 | h1
  · simp only [State.po, h1]
  · exact h1.1

theorem PEnv.cl {s X : State} (h : PEnv s X) (b : Nat) : X.cl b = s.cl b ∨ (s.cl b = .neutral ∧ ∃ n, 1 ≤ n ∧ X.cl b = .smSet n) := by
  rcases h.pcs b with h1 | h1
  · left; simp only [State.cl, h1]
  · exact h1.2.2

theorem watching_penv {s X : State} (h : PEnv s X) {p : Nat} (hw : Watching s p) : Watching X p := by
  obtain ⟨pt, w, h1, h2, h3, h4⟩ := hw
  refine ⟨pt, w, by rw [h.pool.1]; exact h1, h2, by rw [h.po]; exact h3, ?_⟩
  rcases h.cl w with h5 | ⟨_, n, _, h5⟩
  · rw [h5]; exact h4
  · rw [h5]; rfl

theorem watchInv_penv {s X : State} (h : WatchInv s) (he : PEnv s X) : WatchInv X := by
  have hpool := he.pool
  have hcl : ∀ b, X.cl b = s.cl b ∨ (∃ n, 1 ≤ n ∧ X.cl b = .smSet n) := fun b => by
    rcases he.cl b with h1 | ⟨_, h1⟩
    · exact Or.inl h1
    · exact Or.inr h1
  refine ⟨?_, ?_, ?_, ?_, ?_, ?_, ?_⟩
  · intro b
    rcases he.pcs b with h1 | h1
    · rw [h1]; exact h.wf b
    · exact h1.2.1 (h.wf b)
  · intro b hb
    rcases hcl b with h1 | ⟨n, _, h1⟩
    · rw [hpool.2.2.1]; rw [h1] at hb; exact h.tl b hb
    · rw [h1] at hb; simp [PCls.tlHeld] at hb
  · exact ⟨fun a b p ha hb => h.po.uniq a b p (by rw [← he.po]; exact ha) (by rw [← he.po]; exact hb),
          fun a p ha => by rw [hpool.1]; exact h.po.bound a p (by rw [← he.po]; exact ha)⟩
  · have hhold : ∀ b p, holdsBusy X b p → holdsBusy s b p := by
      intro b p hb
      rcases hcl b with h1 | ⟨n, _, h1⟩
      · rcases hb with ⟨i, h2, h3⟩ | h2
        · exact Or.inl ⟨i, by rw [← h1]; exact h2, by rw [← hpool.2.1]; exact h3⟩
        · exact Or.inr (by rw [← h1]; exact h2)
      · rcases hb with ⟨i, h2, _⟩ | h2
        · rw [h1] at h2; simp [PCls.scanIdx] at h2
        · rw [h1] at h2; simp [PCls.ownBL] at h2
    constructor
    · intro b i hb
      rcases hcl b with h1 | ⟨n, _, h1⟩
      · rw [h1] at hb; rw [hpool.2.1]; exact h.bl.idx b i hb
      · rw [h1] at hb; simp [PCls.scanIdx] at hb
    · intro b p hb
      have := h.bl.own b p (hhold b p hb)
      simp only [State.bl, hpool.1]; exact this
  · constructor
    · intro p pt hp hb
      rw [hpool.1] at hp
      obtain ⟨w, hw⟩ := h.thr.exist p pt hp hb
      exact ⟨w, by rw [he.po]; exact hw⟩
    · intro w p pt hw hp hb hr
      rw [hpool.1] at hp
      rw [he.po] at hw
      refine h.thr.restOk w p pt hw hp hb ?_
      rcases hcl w with h1 | ⟨n, _, h1⟩
      · rw [← h1]; exact hr
      · rw [h1] at hr; simp [PCls.rest] at hr
    · intro p hp
      rw [hpool.2.1] at hp
      obtain ⟨w, hw⟩ := h.thr.live p hp
      exact ⟨w, by rw [he.po]; exact hw⟩
    · intro p hp
      rw [hpool.2.1] at hp
      rw [hpool.1]; exact h.thr.hv p hp
    · rw [hpool.2.1]; exact h.thr.nodup
  · constructor
    · rw [hpool.2.2.2.2]; exact h.nz.max
    · intro b
      rcases hcl b with h1 | ⟨n, hn, h1⟩
      · rw [h1]; exact h.nz.cls b
      · rw [h1]; simpa [PCls.nzOk] using hn
  · intro hne
    rw [hpool.2.2.2.1] at hne
    rcases h.sched hne with ⟨p, hw⟩ | ⟨b, hg⟩
    · exact Or.inl ⟨p, watching_penv he hw⟩
    · right
      refine ⟨b, good_transfer ?_ hpool.2.1 (fun p => watching_penv he) hg⟩
      rcases he.cl b with h1 | ⟨h1, _⟩
      · exact h1
      · exact absurd h1 (good_ne_neutral hg)

theorem poolSame_refl (s : State) : PoolSame s s := ⟨rfl, rfl, rfl, rfl, rfl⟩

theorem penv_of_pcs {s X : State} (hpool : PoolSame s X) (a : Nat) (pc' : Pc) (hmove : EnvMove (s.pcAt a) pc')
    (hpcs : ∀ b, X.pcAt b = if a = b ∧ a < s.acts.length then pc' else s.pcAt b) : PEnv s X := by
  refine ⟨hpool, ?_⟩
  intro b
  rw [hpcs b]
  split
  · next h => right; rw [← h.1]; exact hmove
  · exact Or.inl rfl

theorem penv_goto {s : State} (a : Nat) (pc' : Pc) (hmove : EnvMove (s.pcAt a) pc') : PEnv s (s.goto a pc') :=
  penv_of_pcs ⟨by simp, by simp, by simp, by simp, by simp⟩ a pc' hmove (fun b => pcAt_goto s a b pc')

theorem setChild_same (s : State) (p : Nat) (c : Option Nat) :
    let X := (match s.acts[p]? with
      | some pv => s.setAct p { pv with child := c }
      | none => s)
    PoolSame s X ∧ ∀ b, X.pcAt b = s.pcAt b := by
  intro X
  show PoolSame s (match s.acts[p]? with
      | some pv => s.setAct p { pv with child := c }
      | none => s) ∧ ∀ b, (match s.acts[p]? with
      | some pv => s.setAct p { pv with child := c }
      | none => s).pcAt b = s.pcAt b
  split
  · next pv hpv =>
    exact ⟨⟨rfl, rfl, rfl, rfl, rfl⟩, fun b => pcAt_setAct_samepc _ p pv { pv with child := c } hpv rfl b⟩
  · exact ⟨poolSame_refl s, fun b => rfl⟩

theorem PEnv.trans_same {s Y X : State} (h1 : PEnv s Y) (hpool : PoolSame Y X) (hpcs : ∀ b, X.pcAt b = Y.pcAt b) : PEnv s X := by
  refine ⟨?_, fun b => by rw [hpcs b]; exact h1.pcs b⟩
  obtain ⟨a1, a2, a3, a4, a5⟩ := h1.pool
  obtain ⟨b1, b2, b3, b4, b5⟩ := hpool
  exact ⟨by rw [b1, a1], by rw [b2, a2], by rw [b3, a3], by rw [b4, a4], by rw [b5, a5]⟩

theorem envMove_dead (pc : Pc) (hpo : pc.poolOf = none) (hwf : pc.wf = true) (hcls : pc.cls = .neutral ∨ ∃ n, 1 ≤ n ∧ pc.cls = .smSet n) :
    EnvMove .dead pc := by
  refine ⟨by rw [hpo]; rfl, fun _ => hwf, ?_⟩
  rcases hcls with h | h
  · left; rw [h]; rfl
  · right; exact ⟨rfl, h⟩

theorem penv_addAct {s s0 : State} (t : Nat) (parent : Option Nat) (pc : Pc) (once : Bool)
    (hmove : EnvMove .dead pc) (hacts : s0.acts = s.acts) (hpool : PoolSame s s0) : PEnv s (addAct s0 t parent pc once).1 := by
  have h1 : PEnv s ({ s0 with acts := s0.acts ++ [({ thread := t, pc := pc, parent := parent, child := none, woken := false, result := none, mode := .await, once := once } : Act)], nextOp := s0.nextOp + 1 } : State) := by
    refine ⟨hpool, ?_⟩
    intro b
    simp only [State.pcAt, hacts]
    by_cases hlt : b < s.acts.length
    · left; rw [List.getElem?_append_left hlt]
    · by_cases hbe : b = s.acts.length
      · subst hbe
        right
        have : s.acts[s.acts.length]? = none := by simp
        simp only [this, List.getElem?_concat_length]
        exact hmove
      · left
        have h2 : (s.acts ++ [({ thread := t, pc := pc, parent := parent, child := none, woken := false, result := none, mode := .await, once := once } : Act)])[b]? = none := by simp; omega
        have h3 : s.acts[b]? = none := by simp; omega
        rw [h2, h3]
  unfold addAct
  cases parent with
  | none => exact h1
  | some p =>
    simp only
    have h2 := setChild_same ({ s0 with acts := s0.acts ++ [({ thread := t, pc := pc, parent := some p, child := none, woken := false, result := none, mode := .await, once := once } : Act)], nextOp := s0.nextOp + 1 } : State) p (some s0.acts.length)
    simp only at h2
    split
    · next pv hpv =>
      simp only [hpv] at h2
      exact PEnv.trans_same h1 h2.1 h2.2
    · exact h1

/-- the environment never configures a maximum of zero -/
def labelNz : Label → Bool
  | .invoke _ _ (.setMax n) => decide (1 ≤ n)
  | _ => true

theorem penv_invoke {s s' : State} {t a : Nat} {parent : Option Nat} {c : Call}
    (hok : labelNz (.invoke t parent c) = true) (hs : invoke s t parent c = some (s', a)) : PEnv s s' := by
  unfold invoke at hs
  cases c <;> simp only at hs
  all_goals (repeat' split at hs)
  all_goals (try (simp at hs; done))
  all_goals (
    have hs' := congrArg Prod.fst (Option.some.inj hs)
    simp only at hs'
    subst hs'
    refine penv_addAct t parent _ _ (envMove_dead _ ?_ ?_ ?_) ?_ ?_ <;>
      (first
        | rfl
        | (simp [Pc.poolOf, Pc.wf, Pc.quiet, Pc.cls]; done)
        | (right; exact ⟨_, by simpa [labelNz] using hok, rfl⟩)
        | (split <;> (try split) <;> rfl)
        | exact ⟨rfl, rfl, rfl, rfl, rfl⟩
        | (refine ⟨?_, ?_, ?_, ?_, ?_⟩ <;> (split <;> (try split) <;> rfl))))

theorem penv_bodyEnd {s s' : State} {a : Nat} {o : Obs} (hs : bodyEnd s a = some (s', o)) : PEnv s s' := by
  unfold bodyEnd at hs
  split at hs
  · next act ha =>
    split at hs
    · simp at hs
    · split at hs
      · next op k hpc =>
        obtain ⟨rfl, _⟩ := Prod.mk.inj (Option.some.inj hs)
        refine penv_goto a k ?_
        rw [pcAt_of ha, hpc]
        exact ⟨by simp [Pc.poolOf], fun hw => quiet_wf _ (by simpa [Pc.wf, Pc.quiet] using hw), Or.inl (by simp [Pc.cls])⟩
      · simp at hs
  · simp at hs

theorem penv_spuriousUnpark {s s' : State} {a : Nat} {o : Obs} (hs : spuriousUnpark s a = some (s', o)) : PEnv s s' := by
  unfold spuriousUnpark at hs
  split at hs
  · next act ha =>
    split at hs
    · next q j k hpc =>
      obtain ⟨rfl, _⟩ := Prod.mk.inj (Option.some.inj hs)
      refine penv_goto a _ ?_
      rw [pcAt_of ha, hpc]
      exact ⟨by simp [Pc.poolOf], fun hw => by simpa [Pc.wf, Pc.quiet] using hw, Or.inl (by simp [Pc.cls])⟩
    · simp at hs
  · simp at hs

theorem penv_spuriousPoll {s s' : State} {a : Nat} (hs : spuriousPoll s a = some s') : PEnv s s' := by
  unfold spuriousPoll at hs
  split at hs
  · next act ha =>
    split at hs
    · next f hpc =>
      cases Option.some.inj hs
      refine penv_goto a _ ?_
      rw [pcAt_of ha, hpc]
      exact ⟨by simp [Pc.poolOf], fun _ => by simp [Pc.wf, Pc.quiet], Or.inl (by simp [Pc.cls])⟩
    · next u hpc =>
      cases Option.some.inj hs
      refine penv_goto a _ ?_
      rw [pcAt_of ha, hpc]
      exact ⟨by simp [Pc.poolOf], fun _ => by simp [Pc.wf, Pc.quiet], Or.inl (by simp [Pc.cls])⟩
    · simp at hs
  · simp at hs

theorem penv_ret {s s' : State} {a r : Nat} (hs : retStep s a = some (s', r)) : PEnv s s' := by
  unfold retStep at hs
  split at hs
  · next act ha =>
    split at hs
    · next hpc =>
      obtain ⟨rfl, _⟩ := Prod.mk.inj (Option.some.inj hs)
      have h1 : PEnv s (s.setAct a { act with pc := .dead }) := by
        refine penv_of_pcs ⟨rfl, rfl, rfl, rfl, rfl⟩ a .dead ?_ (fun b => pcAt_setAct s a b _)
        rw [pcAt_of ha, hpc]
        exact ⟨by simp [Pc.poolOf], fun _ => by simp [Pc.wf, Pc.quiet], Or.inl (by simp [Pc.cls])⟩
      split
      · next p hp =>
        have h2 := setChild_same (s.setAct a { act with pc := .dead }) p none
        simp only at h2
        split
        · next pv hpv =>
          simp only [hpv] at h2
          exact PEnv.trans_same h1 h2.1 h2.2
        · exact h1
      · exact h1
    · simp at hs
  · simp at hs

/-- states reachable when the initial maximum and every maximum passed to set_max_threads is at least 1 -/
inductive ReachableNZ : State → Prop where
  | init (nq ng max : Nat) : 1 ≤ max → ReachableNZ (initState nq ng max)
  | initP (ps : List Bool) (ng max : Nat) : 1 ≤ max → ReachableNZ (initStateP ps ng max)
  | step {s s' : State} (l : Label) : ReachableNZ s → labelNz l = true → next s l = some s' → ReachableNZ s'

theorem ReachableNZ.reachable {s : State} (h : ReachableNZ s) : Reachable s := by
  induction h with
  | init nq ng max _ => exact Reachable.init nq ng max
  | initP ps ng max _ => exact Reachable.initP ps ng max
  | step l _ _ hs ih => exact Reachable.step l ih hs

theorem watchInv_of_empty (s : State) (ha : s.acts = []) (hp : s.pthreads = []) (hv : s.threadsVec = []) (hs : s.schedule = [])
    (hm : 1 ≤ s.maxThreads) : WatchInv s := by
  have hpc : ∀ b, s.pcAt b = .dead := fun b => by simp [State.pcAt, ha]
  have hcl : ∀ b, s.cl b = .neutral := fun b => by simp [State.cl, hpc, Pc.cls]
  have hpo : ∀ b, s.po b = none := fun b => by simp [State.po, hpc, Pc.poolOf]
  refine ⟨?_, ?_, ⟨?_, ?_⟩, ⟨?_, ?_⟩, ⟨?_, ?_, ?_, ?_, ?_⟩, ⟨hm, ?_⟩, ?_⟩
  · intro b; rw [hpc]; rfl
  · intro b hb; rw [hcl] at hb; cases hb
  · intro a b p h1; rw [hpo] at h1; cases h1
  · intro a p h1; rw [hpo] at h1; cases h1
  · intro b i hb; rw [hcl] at hb; cases hb
  · intro b p hb
    rcases hb with ⟨i, h1, _⟩ | h1 <;> (rw [hcl] at h1; cases h1)
  · intro p pt h1; rw [hp] at h1; cases h1
  · intro w p pt h1; rw [hpo] at h1; cases h1
  · intro p h1; rw [hv] at h1; cases h1
  · intro p h1; rw [hv] at h1; cases h1
  · rw [hv]; exact List.nodup_nil
  · intro b; rw [hcl]; rfl
  · intro hne; exact absurd hs hne

/-- **The pool invariants hold in every state reachable without a zero maximum.** -/
theorem watchInv_reachable {s : State} (hr : ReachableNZ s) : WatchInv s := by
  induction hr with
  | init nq ng max hle => exact watchInv_of_empty _ (by simp [initState]) (by simp [initState]) (by simp [initState]) (by simp [initState]) (by simpa [initState] using hle)
  | initP ps ng max hle => exact watchInv_of_empty _ (by simp [initStateP, initState]) (by simp [initStateP, initState]) (by simp [initStateP, initState]) (by simp [initStateP, initState]) (by simpa [initStateP, initState] using hle)
  | step l _ hok hstep ih =>
    cases l with
    | act a =>
      simp only [next, Option.map_eq_some_iff] at hstep
      obtain ⟨⟨s1, o⟩, hs, rfl⟩ := hstep
      exact watchInv_stepAct ih hs
    | invoke t parent c =>
      simp only [next] at hstep
      split at hstep
      · simp only [Option.map_eq_some_iff] at hstep
        obtain ⟨⟨s1, a⟩, hs, rfl⟩ := hstep
        exact watchInv_penv ih (penv_invoke hok hs)
      · simp at hstep
    | bodyEnd a =>
      simp only [next, Option.map_eq_some_iff] at hstep
      obtain ⟨⟨s1, o⟩, hs, rfl⟩ := hstep
      exact watchInv_penv ih (penv_bodyEnd hs)
    | ret a =>
      simp only [next, Option.map_eq_some_iff] at hstep
      obtain ⟨⟨s1, r⟩, hs, rfl⟩ := hstep
      exact watchInv_penv ih (penv_ret hs)
    | spuriousUnpark a =>
      simp only [next, Option.map_eq_some_iff] at hstep
      obtain ⟨⟨s1, o⟩, hs, rfl⟩ := hstep
      exact watchInv_penv ih (penv_spuriousUnpark hs)
    | spuriousPoll a =>
      simp only [next] at hstep
      exact watchInv_penv ih (penv_spuriousPoll hstep)

end Desync
