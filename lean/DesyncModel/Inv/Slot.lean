/-
future_sync starts its operation only inside its slot (C08).

The user operation of a `SyncFuture` is begun (`userBegun`) only after the slot job has sent `queue_ready` (`readySent`), and
`queue_ready` is sent only by the slot job when it is first run (`begun`).  With C02 (a job begins only after everything accepted
earlier on its object has ended) the operation therefore never starts before its turn.
-/
import DesyncModel.Inv.OwnedReach
namespace Desync
open Gen

def State.sfB (s : State) (u : Nat) : Bool := match s.sfs[u]? with | some sf => sf.userBegun | none => false
def State.sfR (s : State) (u : Nat) : Bool := match s.sfs[u]? with | some sf => sf.readySent | none => false

/-- some slot job of sync-future `u` has been begun -/
def slotBegun (s : State) (u : Nat) : Prop := ∃ (j : Nat) (jb : Job) (r : Nat), s.jobs[j]? = some jb ∧ jb.kind = JobKind.slot u r ∧ jb.begun = true

theorem sfB_congr {X s : State} (h : X.sfs = s.sfs) (u : Nat) : X.sfB u = s.sfB u := by simp only [State.sfB, h]
theorem sfR_congr {X s : State} (h : X.sfs = s.sfs) (u : Nat) : X.sfR u = s.sfR u := by simp only [State.sfR, h]
theorem slotBegun_congr {X s : State} (h : X.jobs = s.jobs) {u : Nat} (hb : slotBegun s u) : slotBegun X u := by
  obtain ⟨j, jb, r, h1, h2, h3⟩ := hb; exact ⟨j, jb, r, by rw [h]; exact h1, h2, h3⟩

theorem sfB_of {s : State} {u : Nat} {sf : SyncFut} (h : s.sfs[u]? = some sf) : s.sfB u = sf.userBegun := by simp [State.sfB, h]
theorem sfR_of {s : State} {u : Nat} {sf : SyncFut} (h : s.sfs[u]? = some sf) : s.sfR u = sf.readySent := by simp [State.sfR, h]

theorem sfB_setSf {s : State} {u : Nat} {sf : SyncFut} (h : s.sfs[u]? = some sf) (v : SyncFut) (i : Nat) :
    (s.setSf u v).sfB i = if i = u then v.userBegun else s.sfB i := by
  have hlt : u < s.sfs.length := (List.getElem?_eq_some_iff.mp h).1
  simp only [State.sfB, State.setSf, List.getElem?_set]
  by_cases e : u = i
  · subst e; simp [hlt]
  · have : ¬ i = u := fun x => e x.symm
    simp [e, this]
theorem sfR_setSf {s : State} {u : Nat} {sf : SyncFut} (h : s.sfs[u]? = some sf) (v : SyncFut) (i : Nat) :
    (s.setSf u v).sfR i = if i = u then v.readySent else s.sfR i := by
  have hlt : u < s.sfs.length := (List.getElem?_eq_some_iff.mp h).1
  simp only [State.sfR, State.setSf, List.getElem?_set]
  by_cases e : u = i
  · subst e; simp [hlt]
  · have : ¬ i = u := fun x => e x.symm
    simp [e, this]

/-- a job is rewritten without changing its kind or un-beginning it -/
theorem slotBegun_setJob {s : State} {j : Nat} {b v : Job} (hb : s.jobs[j]? = some b) (hk : v.kind = b.kind) (hbg : b.begun = true → v.begun = true)
    {u : Nat} (h : slotBegun s u) : slotBegun (s.setJob j v) u := by
  obtain ⟨j', jb, r, h1, h2, h3⟩ := h
  have hlt : j < s.jobs.length := (List.getElem?_eq_some_iff.mp hb).1
  by_cases e : j' = j
  · subst e
    rw [hb] at h1; cases h1
    exact ⟨j', v, r, by simp [State.setJob, hlt], by rw [hk]; exact h2, hbg h3⟩
  · refine ⟨j', jb, r, ?_, h2, h3⟩
    simp only [State.setJob, List.getElem?_set]
    have : ¬ j = j' := fun x => e x.symm
    simp [this]; exact h1

theorem slotBegun_setJobPh {s : State} {j : Nat} {ph : Phase} {u : Nat} (h : slotBegun s u) : slotBegun (s.setJobPh j ph) u := by
  unfold State.setJobPh
  split
  · next v hv => exact slotBegun_setJob (v := { v with ph := ph }) hv rfl id h
  · exact h

theorem slotBegun_append {s X : State} {l : List Job} (hX : X.jobs = s.jobs ++ l) {u : Nat} (h : slotBegun s u) : slotBegun X u := by
  obtain ⟨j, jb, r, h1, h2, h3⟩ := h
  have hlt : j < s.jobs.length := (List.getElem?_eq_some_iff.mp h1).1
  exact ⟨j, jb, r, by rw [hX, List.getElem?_append_left hlt]; exact h1, h2, h3⟩

structure SlotInv (s : State) : Prop where
  /-- the user operation is begun only after the slot job has announced the slot -/
  ub : ∀ u, s.sfB u = true → s.sfR u = true
  /-- the slot is announced only by a slot job that has been begun -/
  rb : ∀ u, s.sfR u = true → slotBegun s u

theorem SlotInv.step {s s' : State} (h : SlotInv s)
    (hB : ∀ u, s'.sfB u = true → s.sfB u = true ∨ s'.sfR u = true)
    (hR : ∀ u, s'.sfR u = true → s.sfR u = true ∨ slotBegun s' u)
    (hR0 : ∀ u, s.sfR u = true → s'.sfR u = true)
    (hJ : ∀ u, slotBegun s u → slotBegun s' u) : SlotInv s' := by
  refine ⟨?_, ?_⟩
  · intro u hb
    rcases hB u hb with h1 | h1
    · exact hR0 u (h.ub u h1)
    · exact h1
  · intro u hr
    rcases hR u hr with h1 | h1
    · exact hJ u (h.rb u h1)
    · exact h1

/-- neither the sync-futures' flags nor the jobs' kinds / begun flags change (for the worse) -/
theorem SlotInv.frame {s X : State} (h : SlotInv s) (hs : X.sfs = s.sfs) (hJ : ∀ u, slotBegun s u → slotBegun X u) : SlotInv X :=
  SlotInv.step h (fun u hb => Or.inl (by rw [sfB_congr hs] at hb; exact hb)) (fun u hr => Or.inl (by rw [sfR_congr hs] at hr; exact hr))
    (fun u hr => by rw [sfR_congr hs]; exact hr) hJ

end Desync
