/-
Executions in which no returned future is ever polled and `future_sync` is not used (`ReachableNT`): no activity is ever in
the task-context code (`SchedulerFuture::poll`, `drain_queue`, `SyncFuture::poll`), no job is run with a `DrainWaker`, and no
slot job exists.  I_wake (C06) is proved for these executions: every queue is run by pool threads and sync callers only.
-/
import DesyncModel.Inv.PoolSimBase
import DesyncModel.Inv.JobMono

namespace Desync
open Gen

def JobKind.isSlot : JobKind → Bool
  | .slot _ _ => true
  | _ => false

/-- no task-context program counter occurs anywhere in the pc, and it is not about to queue a slot job -/
def Pc.noTask : Pc → Bool
  | .begin _ k | .body _ k | .unwinding k => k.noTask
  | .stReap k | .stScanLock k | .stScan _ k | .stScanHeld _ k | .stScanRel _ _ k
  | .stScanUnlock _ k | .stReadMax k | .stSpawn _ k | .stSpawnRel k => k.noTask
  | .rqCs _ k | .rqNotifyAcq _ _ _ k | .rqNotify _ _ _ k | .rqNotifyRel _ _ _ k | .rqPush _ k => k.noTask
  | .resumeSend _ k | .waking _ k | .openSend _ k | .wqCs _ k | .wtCs _ _ k | .wtUnpark _ k | .lwCs _ k | .dwCs _ k => k.noTask
  | .rjDequeue _ k | .rjPending _ _ k | .rjParkCheck _ _ k | .rjPark _ _ k | .rjParked _ _ k => k.noTask
  | .jobStart _ c k | .jobAwait _ c k | .jobBodyDone _ c k | .jobEnd _ c k | .jobSignal _ c k
  | .jobSigDrop _ c k | .jobDrop _ c k | .jobDropNotify _ c k | .suspSignal _ c k | .suspSigDrop _ c k =>
      (match c with | .caller _ => k.noTask | .pool _ _ => true | .task _ _ _ => false)
  | .pfPoll _ | .pfPollRel _ _ | .pfBlocked _ | .pollReady _ | .pollPending _ => false
  | .sfPoll _ | .sfRecv _ | .sfUser _ | .sfFinish _ | .sfBlocked _ => false
  | .dqCheck _ _ | .dqDequeue _ _ | .dqRequeue _ _ _ _ | .dqCheck2 _ _ _ | .dqSetWfw _ _ _ | .dqStore _ _ _ | .dqSetWfp _ _ _
  | .dqWakeWith _ _ _ _ | .dqStore2 _ _ | .dqIdle2 _ _ | .dqIdle _ _ => false
  | .dsPush _ kind => !kind.isSlot
  | .fdDrop _ k => k.noTask
  | _ => true

@[simp] theorem noTask_ctxReady (k : Pc) (c : Ctx) : (ctxReady k c).noTask = (match c with | .caller _ => k.noTask | .pool _ _ => true | .task _ _ _ => false) := by
  cases c <;> simp [ctxReady, Pc.noTask]
@[simp] theorem noTask_ctxPending (j : Nat) (k : Pc) (c : Ctx) : (ctxPending j k c).noTask = (match c with | .caller _ => k.noTask | .pool _ _ => true | .task _ _ _ => false) := by
  cases c <;> simp [ctxPending, Pc.noTask]

def NoTaskPc (s : State) : Prop := ∀ b, (s.pcAt b).noTask = true

theorem NoTaskPc.goto {s X : State} {a : Nat} {pc' : Pc} (h : NoTaskPc s) (hX : ∀ b, X.pcAt b = s.pcAt b) (hpc : pc'.noTask = true) : NoTaskPc (X.goto a pc') := by
  intro b
  rw [pcAt_goto]
  split
  · exact hpc
  · rw [hX]; exact h b

theorem NoTaskPc.setAct {s X : State} {a : Nat} {v : Act} (h : NoTaskPc s) (hX : ∀ b, X.pcAt b = s.pcAt b) (hpc : v.pc.noTask = true) : NoTaskPc (X.setAct a v) := by
  intro b
  rw [pcAt_setAct]
  split
  · exact hpc
  · rw [hX]; exact h b

theorem noTask_pcAt_append {s X : State} {n : Act} (h : NoTaskPc s) (hacts : X.acts = s.acts ++ [n]) (hn : n.pc.noTask = true) : NoTaskPc X := by
  intro b
  have hb := h b
  simp only [State.pcAt, hacts] at hb ⊢
  by_cases hlt : b < s.acts.length
  · rw [List.getElem?_append_left hlt]; exact hb
  · by_cases hbe : b = s.acts.length
    · subst hbe; simp [hn]
    · have : (s.acts ++ [n])[b]? = none := by simp; omega
      rw [this]; rfl

set_option hygiene false in
macro "nt_side" : tactic => `(tactic| first
  | (intro b; simp only [pcAt_setQ, pcAt_setJob, pcAt_setHolder, pcAt_setWoken, pcAt_notify, pcAt_setPThr, pcAt_setFut, pcAt_setGate,
                         pcAt_takeReady, pcAt_dropReady, pcAt_setJobPh, pcAt_pushFront, pcAt_pushBack, pcAt_setQState, pcAt_dequeue, pcAt_setSf, pcAt_newJob]; first | done | rfl)
  | (intro b; first | rfl | (simp [State.pcAt, dequeue_acts]; done))
  | ((try simp only [Pc.noTask, noTask_ctxReady, noTask_ctxPending, Bool.and_eq_true] at hw);
     first
     | (simp only [Pc.noTask, noTask_ctxReady, noTask_ctxPending, JobKind.isSlot]; done)
     | ((try simp only [Pc.noTask, noTask_ctxReady, noTask_ctxPending, Bool.and_eq_true]);
        first | exact hw | trivial | (split <;> first | trivial | exact hw | (simp_all; done)) | (simp_all; done)))
  | (cases ‹Ctx› <;> simp_all [Pc.noTask, ctxReady, ctxPending]))

theorem nt_stSpawn {s s' : State} {a : Nat} {o : Obs} (h : NoTaskPc s) (act : Act) (ha : s.acts[a]? = some act) (hc : act.child = none) (m : Nat) (k : Pc)
    (hpc : act.pc = .stSpawn m k) (hs : stepAct s a = some (s', o)) : NoTaskPc s' := by
  have hlt : a < s.acts.length := lt_of_getElem?_some ha
  have hw := h a
  rw [pcAt_of ha, hpc] at hw
  unfold stepAct at hs
  simp only [ha, hc, hpc, Option.isSome_none, Bool.false_eq_true, ↓reduceIte] at hs
  split at hs
  · simp at hs
  · split at hs
    · simp only [Option.some.injEq, Prod.mk.injEq] at hs; obtain ⟨rfl, _⟩ := hs
      intro b
      rw [pcAt_goto]
      split
      · simpa [Pc.noTask] using hw
      · exact noTask_pcAt_append h rfl (by simp [Pc.noTask]) b
    · simp only [Option.some.injEq, Prod.mk.injEq] at hs; obtain ⟨rfl, _⟩ := hs
      exact NoTaskPc.goto h (fun b => rfl) (by simpa [Pc.noTask] using hw)

set_option maxHeartbeats 4000000 in
set_option maxRecDepth 8000 in
theorem noTaskPc_stepAct {s s' : State} {a : Nat} {o : Obs} (h : NoTaskPc s) (hs : stepAct s a = some (s', o)) : NoTaskPc s' := by
  have hs0 := hs
  unfold stepAct at hs
  split at hs
  · simp at hs
  next act ha =>
  split at hs
  · simp at hs
  next hchild =>
  have hlt : a < s.acts.length := lt_of_getElem?_some ha
  have hpca := pcAt_of ha
  have hw := h a
  rw [hpca] at hw
  have hc : act.child = none := by
    cases hcc : act.child <;> simp_all
  split at hs
  all_goals (try (simp at hs; done))
  all_goals (try (exact nt_stSpawn h act ha hc _ _ (by assumption) hs0))
  all_goals (try dsimp only at hs)
  all_goals (repeat' split at hs)
  all_goals (try (simp at hs; done))
  all_goals (try (simp only [Option.some.injEq, Prod.mk.injEq] at hs; obtain ⟨rfl, _⟩ := hs))
  all_goals (try (rw [‹act.pc = _›] at hw))
  -- the task-context program counters do not occur
  all_goals (try (simp [Pc.noTask] at hw; done))
  all_goals (first
      | ((refine NoTaskPc.goto h ?_ ?_) <;> nt_side)
      | ((refine NoTaskPc.setAct h ?_ ?_) <;> nt_side)
      | skip)

/-- no slot job exists -/
def NoSlot (s : State) : Prop := ∀ jb, jb ∈ s.jobs → jb.kind.isSlot = false

theorem NoSlot.same {s X : State} (h : NoSlot s) (hj : X.jobs = s.jobs) : NoSlot X := fun jb hm => h jb (by rw [← hj]; exact hm)

theorem NoSlot.setJob {s X : State} {j : Nat} {b v : Job} (h : NoSlot s) (hX : X.jobs = (s.setJob j v).jobs) (hb : s.jobs[j]? = some b) (hk : v.kind = b.kind) : NoSlot X := by
  intro jb hm
  rw [hX] at hm
  simp only [State.setJob] at hm
  rcases List.mem_or_eq_of_mem_set hm with h1 | h1
  · exact h jb h1
  · rw [h1, hk]; exact h b (List.mem_of_getElem? hb)

theorem NoSlot.append {s X : State} {l : List Job} (h : NoSlot s) (hX : X.jobs = s.jobs ++ l) (hl : ∀ jb, jb ∈ l → jb.kind.isSlot = false) : NoSlot X := by
  intro jb hm
  rw [hX] at hm
  rcases List.mem_append.mp hm with h1 | h1
  · exact h jb h1
  · exact hl jb h1

theorem NoSlot.setJobPh {s : State} (h : NoSlot s) (j : Nat) (ph : Phase) : NoSlot (s.setJobPh j ph) := by
  unfold State.setJobPh
  split
  · next v hv => exact NoSlot.setJob h rfl hv rfl
  · exact h

theorem dequeue_jobs_cases (s : State) (q a : Nat) : (s.dequeue q a).1.jobs = s.jobs ∨ ∃ j, (s.dequeue q a).1.jobs = (s.setJobPh j (.held a)).jobs := by
  unfold State.dequeue
  split
  · split
    · split
      · next j rest hj =>
        right; refine ⟨j, ?_⟩
        simp only [State.setJobPh, jobs_setQ]
        split <;> rfl
      · left; rfl
    · left; rfl
  · left; rfl

theorem NoSlot.dequeue {s : State} (h : NoSlot s) (q a : Nat) : NoSlot (s.dequeue q a).1 := by
  rcases dequeue_jobs_cases s q a with e | ⟨j, e⟩
  · exact NoSlot.same h e
  · exact NoSlot.same (NoSlot.setJobPh h j _) e

theorem NoSlot.goto_of {Y : State} {a : Nat} {pc : Pc} (h : NoSlot Y) : NoSlot (Y.goto a pc) := NoSlot.same h (by simp)
theorem NoSlot.setAct_of {Y : State} {a : Nat} {v : Act} (h : NoSlot Y) : NoSlot (Y.setAct a v) := NoSlot.same h (by simp)
theorem NoSlot.setHolder_of {Y : State} {q : Nat} {x : Option Nat} (h : NoSlot Y) : NoSlot (Y.setHolder q x) := NoSlot.same h (by simp)
theorem NoSlot.setQState_of {Y : State} {q : Nat} {st : QState} (h : NoSlot Y) : NoSlot (Y.setQState q st) := NoSlot.same h (by simp)
theorem NoSlot.setQ_of {Y : State} {q : Nat} {v : JobQ} (h : NoSlot Y) : NoSlot (Y.setQ q v) := NoSlot.same h (by simp)
theorem NoSlot.pushBack_of {Y : State} {q j : Nat} (h : NoSlot Y) : NoSlot (Y.pushBack q j) := NoSlot.same h (by simp)
theorem NoSlot.pushFront_of {Y : State} {q j : Nat} (h : NoSlot Y) : NoSlot (Y.pushFront q j) := NoSlot.same h (by simp)

theorem NoSlot.setJob' {s : State} {j : Nat} {b v : Job} (h : NoSlot s) (hb : s.jobs[j]? = some b) (hk : v.kind = b.kind) : NoSlot (s.setJob j v) :=
  NoSlot.setJob h rfl hb hk

set_option hygiene false in
macro "ns_side" : tactic => `(tactic| first
  | rfl
  | assumption
  | (simp; done)
  | (intro jb hm; simp only [List.mem_singleton] at hm; subst hm; first | rfl | (simpa [Pc.noTask, JobKind.isSlot] using hw) | (simp [JobKind.isSlot]; done)))

set_option hygiene false in
macro "ns_shape" : tactic => `(tactic| first
  | exact h
  | (refine NoSlot.same h ?_; first | rfl | (simp; done))
  | (apply NoSlot.setJob' h <;> ns_side)
  | (apply NoSlot.setJob h <;> ns_side)
  | (apply NoSlot.append h <;> ns_side)
  | (apply NoSlot.setQ_of; apply NoSlot.append h <;> ns_side)
  | (apply NoSlot.pushBack_of; apply NoSlot.append h <;> ns_side)
  | (apply NoSlot.setHolder_of; apply NoSlot.append h <;> ns_side)
  | exact NoSlot.setJobPh h _ _
  | exact NoSlot.setJobPh (NoSlot.pushFront_of h) _ _
  | exact NoSlot.dequeue h _ _
  | (refine NoSlot.same (NoSlot.dequeue h _ _) ?_; first | rfl | (simp; done)))

set_option maxHeartbeats 4000000 in
set_option maxRecDepth 8000 in
theorem noSlot_stepAct {s s' : State} {a : Nat} {o : Obs} (hp : NoTaskPc s) (h : NoSlot s) (hs : stepAct s a = some (s', o)) : NoSlot s' := by
  unfold stepAct at hs
  split at hs
  · simp at hs
  next act ha =>
  split at hs
  · simp at hs
  next hchild =>
  have hpca := pcAt_of ha
  have hw := hp a
  rw [hpca] at hw
  split at hs
  all_goals (try (simp at hs; done))
  all_goals (try dsimp only at hs)
  all_goals (repeat' split at hs)
  all_goals (try (simp at hs; done))
  all_goals (try (simp only [Option.some.injEq, Prod.mk.injEq] at hs; obtain ⟨rfl, _⟩ := hs))
  all_goals (try (rw [‹act.pc = _›] at hw))
  all_goals (first
      | ns_shape
      | (apply NoSlot.goto_of; ns_shape)
      | (apply NoSlot.setAct_of; ns_shape)
      | (apply NoSlot.goto_of; apply NoSlot.setHolder_of; ns_shape)
      | (apply NoSlot.goto_of; apply NoSlot.setHolder_of; apply NoSlot.setQState_of; ns_shape)
      | skip)

structure NoTaskInv (s : State) : Prop where
  pcs : NoTaskPc s
  jobs : NoSlot s

theorem noTaskInv_stepAct {s s' : State} {a : Nat} {o : Obs} (h : NoTaskInv s) (hs : stepAct s a = some (s', o)) : NoTaskInv s' :=
  ⟨noTaskPc_stepAct h.pcs hs, noSlot_stepAct h.pcs h.jobs hs⟩

end Desync
