/-
The steps of the scheduler model that touch the pool, one lemma per program counter: each is the `PStep` it is meant to be.
-/
import DesyncModel.Inv.PoolSimBase

namespace Desync
open Gen

set_option hygiene false in
macro "sim_open" : tactic => `(tactic| (
  have hlt : a < s.acts.length := lt_of_getElem?_some ha
  have hpca := pcAt_of ha
  unfold stepAct at hs
  simp only [ha, hc, hpc, Option.isSome_none, Bool.false_eq_true, ↓reduceIte] at hs))

set_option hygiene false in
macro "sim_fin" : tactic => `(tactic| (
  all_goals (try (simp at hs; done))
  all_goals (simp only [Option.some.injEq, Prod.mk.injEq] at hs; obtain ⟨rfl, _⟩ := hs)))

set_option hygiene false in
/-- the class of the mover before the step -/
macro "sim_cl0" : tactic => `(tactic| (simp only [State.cl, State.po, hpca, hpc, Pc.cls, Pc.poolOf, PCls.plain]))

set_option hygiene false in
/-- the class of the mover after the step -/
macro "sim_to" : tactic => `(tactic| (
  simp only [State.cl, State.po]
  first
  | (rw [pcAt_goto_self _ (by simpa [dequeue_acts] using hlt)] <;> first | rfl | (simp only [Pc.cls, Pc.poolOf, cls_ctxReady, cls_ctxPending]; done))
  | (rw [pcAt_setAct_self _ (by simpa [dequeue_acts] using hlt)] <;> first | rfl | (simp only [Pc.cls, Pc.poolOf, cls_ctxReady, cls_ctxPending]; done))))

set_option hygiene false in
/-- the mover returns to its continuation, which is quiet -/
macro "sim_plain" : tactic => `(tactic| (
  simp only [State.cl]
  rw [pcAt_goto_self _ (by simpa [dequeue_acts] using hlt)]
  exact quiet_plain _ (by simpa [hpc, Pc.wf, Pc.quiet] using hw)))

theorem isNone_of_not_isSome {α : Type} {x : Option α} (h : ¬ x.isSome = true) : x = none := by
  cases x <;> simp_all

theorem sim_stReap {s s' : State} {a : Nat} {o : Obs} (act : Act) (ha : s.acts[a]? = some act) (hc : act.child = none) (k : Pc)
    (hpc : act.pc = .stReap k) (hs : stepAct s a = some (s', o)) : PStep s a s' := by
  sim_open
  split at hs
  sim_fin
  exact PStep.reap ⟨by sim_oth, by sim_self⟩ (by sim_cl0) (isNone_of_not_isSome (by assumption))
    (s.threadsVec.filter (fun p => match s.pthreads[p]? with | some pt => !(pt.exited && !pt.hungUp) | none => false)) List.filter_sublist (by sim_pool) (by sim_to)

theorem sim_stScanLock {s s' : State} {a : Nat} {o : Obs} (act : Act) (ha : s.acts[a]? = some act) (hc : act.child = none) (k : Pc)
    (hpc : act.pc = .stScanLock k) (hs : stepAct s a = some (s', o)) : PStep s a s' := by
  sim_open
  split at hs
  sim_fin
  exact PStep.scanLock ⟨by sim_oth, by sim_self⟩ (by sim_cl0) (isNone_of_not_isSome (by assumption)) (by sim_pool) (by sim_to)

theorem sim_stScan {s s' : State} {a : Nat} {o : Obs} (act : Act) (ha : s.acts[a]? = some act) (hc : act.child = none) (i : Nat) (k : Pc)
    (hpc : act.pc = .stScan i k) (hs : stepAct s a = some (s', o)) : PStep s a s' := by
  sim_open
  split at hs
  · next hv =>
    sim_fin
    exact PStep.scanEnd i ⟨by sim_oth, by sim_self⟩ (by sim_cl0) hv (by sim_pool) (by sim_to)
  · next p hv =>
    split at hs
    · simp at hs
    · next pt hp =>
      split at hs
      · -- the flag is held: the scan waits for it (`dormantScanBlocks`)
        rw [dormant_scan_blocks] at hs
        simp at hs
      · next hl =>
        sim_fin
        exact PStep.scanAcq i p pt ⟨by sim_oth, by sim_self⟩ (by sim_cl0) hv hp (isNone_of_not_isSome hl) (by sim_pool) (by sim_to)

theorem sim_stScanHeld {s s' : State} {a : Nat} {o : Obs} (act : Act) (ha : s.acts[a]? = some act) (hc : act.child = none) (i : Nat) (k : Pc)
    (hpc : act.pc = .stScanHeld i k) (hs : stepAct s a = some (s', o)) : PStep s a s' := by
  sim_open
  split at hs
  · simp at hs
  · next p hv =>
    split at hs
    · simp at hs
    · next pt hp =>
      split at hs
      · next hb =>
        sim_fin
        exact PStep.scanBusy i p pt ⟨by sim_oth, by sim_self⟩ (by sim_cl0) hv hp hb (by sim_pool) (by sim_to)
      · next hb =>
        sim_fin
        exact PStep.scanSend i p pt ⟨by sim_oth, by sim_self⟩ (by sim_cl0) hv hp (by simpa using hb) (by sim_pool) (by sim_to)

theorem sim_stScanRel {s s' : State} {a : Nat} {o : Obs} (act : Act) (ha : s.acts[a]? = some act) (hc : act.child = none) (i : Nat) (f : Bool) (k : Pc)
    (hpc : act.pc = .stScanRel i f k) (hs : stepAct s a = some (s', o)) : PStep s a s' := by
  sim_open
  split at hs
  · simp at hs
  · next p hv =>
    split at hs
    · simp at hs
    · next pt hp =>
      sim_fin
      exact PStep.scanRel i p f pt ⟨by sim_oth, by sim_self⟩ (by sim_cl0) hv hp (by sim_pool) (by sim_to)

theorem sim_stScanUnlock {s s' : State} {a : Nat} {o : Obs} (act : Act) (ha : s.acts[a]? = some act) (hc : act.child = none) (f : Bool) (k : Pc)
    (hpc : act.pc = .stScanUnlock f k) (hw : act.pc.wf = true) (hs : stepAct s a = some (s', o)) : PStep s a s' := by
  sim_open
  sim_fin
  exact PStep.scanUnlock f ⟨by sim_oth, by sim_self⟩ (by sim_cl0) (by sim_pool) (by sim_plain)

theorem sim_stReadMax {s s' : State} {a : Nat} {o : Obs} (act : Act) (ha : s.acts[a]? = some act) (hc : act.child = none) (k : Pc)
    (hpc : act.pc = .stReadMax k) (hs : stepAct s a = some (s', o)) : PStep s a s' := by
  sim_open
  sim_fin
  exact PStep.readMax ⟨by sim_oth, by sim_self⟩ (by sim_cl0) (by sim_pool) (by sim_to)

theorem sim_stSpawnRel {s s' : State} {a : Nat} {o : Obs} (act : Act) (ha : s.acts[a]? = some act) (hc : act.child = none) (k : Pc)
    (hpc : act.pc = .stSpawnRel k) (hs : stepAct s a = some (s', o)) : PStep s a s' := by
  sim_open
  sim_fin
  exact PStep.spawnRel ⟨by sim_oth, by sim_self⟩ (by sim_cl0) (by sim_pool) (by sim_to)

theorem sim_rqPush {s s' : State} {a : Nat} {o : Obs} (act : Act) (ha : s.acts[a]? = some act) (hc : act.child = none) (q : Nat) (k : Pc)
    (hpc : act.pc = .rqPush q k) (hw : act.pc.wf = true) (hs : stepAct s a = some (s', o)) : PStep s a s' := by
  sim_open
  split at hs
  sim_fin
  refine PStep.push q ⟨by sim_oth, by sim_self⟩ ?_ (by sim_pool) (by sim_to)
  simp only [State.cl, hpca]
  exact quiet_plain _ (by simpa [hpc, Pc.wf] using hw)

theorem sim_dsSched {s s' : State} {a : Nat} {o : Obs} (act : Act) (ha : s.acts[a]? = some act) (hc : act.child = none) (q : Nat)
    (hpc : act.pc = .dsSched q) (hs : stepAct s a = some (s', o)) : PStep s a s' := by
  sim_open
  split at hs
  sim_fin
  exact PStep.push q ⟨by sim_oth, by sim_self⟩ (by sim_cl0) (by sim_pool) (by sim_to)

theorem sim_stSpawn {s s' : State} {a : Nat} {o : Obs} (act : Act) (ha : s.acts[a]? = some act) (hc : act.child = none) (m : Nat) (k : Pc)
    (hpc : act.pc = .stSpawn m k) (hw : act.pc.wf = true) (hs : stepAct s a = some (s', o)) : PStep s a s' := by
  sim_open
  split at hs
  · simp at hs
  · next hl =>
    split at hs
    · next hsp =>
      sim_fin
      have hlen : s.threadsVec.length < m := (spawn_only_below_max _ _).mp hsp
      refine PStep.spawnYes m (by sim_cl0) (isNone_of_not_isSome hl) hlen ?_ ?_ ?_ hlt (by sim_pool) ?_
      · intro b hb hb2
        rw [pcAt_goto_ne _ hb]
        simp only [State.pcAt]
        by_cases hlt2 : b < s.acts.length
        · rw [List.getElem?_append_left hlt2]
        · have h1 : (s.acts ++ [({ thread := 1000 + s.pthreads.length, pc := Pc.ptRecv s.pthreads.length, parent := none, child := none, woken := false, result := none, mode := Mode.await, once := false } : Act)])[b]? = none := by
            simp; omega
          have h2 : s.acts[b]? = none := by simp; omega
          rw [h1, h2]
      · rw [pcAt_goto_ne _ (by omega)]
        simp [State.pcAt]
      · simp only [State.po]
        rw [pcAt_goto_self _ (by simp; omega), hpca, hpc]
        rfl
      · simp only [State.cl]
        rw [pcAt_goto_self _ (by simp; omega)]
        rfl
    · next hsp =>
      sim_fin
      have hge : m ≤ s.threadsVec.length := by
        have h1 : ¬ s.threadsVec.length < m := fun h => hsp ((spawn_only_below_max _ _).mpr h)
        omega
      exact PStep.spawnNo m ⟨by sim_oth, by sim_self⟩ (by sim_cl0) hge (by sim_pool) (by sim_plain)

theorem sim_ptRecv {s s' : State} {a : Nat} {o : Obs} (act : Act) (ha : s.acts[a]? = some act) (hc : act.child = none) (p : Nat)
    (hpc : act.pc = .ptRecv p) (hs : stepAct s a = some (s', o)) : PStep s a s' := by
  sim_open
  sim_fin
  exact PStep.ptRecv p ⟨by sim_oth, by sim_self⟩ (by sim_cl0) (by sim_pool) (by sim_to)

theorem sim_ptRecvd {s s' : State} {a : Nat} {o : Obs} (act : Act) (ha : s.acts[a]? = some act) (hc : act.child = none) (p : Nat)
    (hpc : act.pc = .ptRecvd p) (hs : stepAct s a = some (s', o)) : PStep s a s' := by
  sim_open
  split at hs
  · simp at hs
  · next pt hp =>
    split at hs
    · next hm =>
      sim_fin
      exact PStep.ptGot p pt ⟨by sim_oth, by sim_self⟩ (by sim_cl0) (by sim_cl0) hp hm (by sim_pool) (by sim_to)
    · next hm =>
      split at hs
      · next hh =>
        sim_fin
        refine PStep.ptExit p pt (by sim_oth) (by sim_cl0) (by sim_cl0) hp (by omega) hh (by sim_pool) (by sim_to) (by sim_to)
      · simp at hs

theorem sim_ptLockBusy {s s' : State} {a : Nat} {o : Obs} (act : Act) (ha : s.acts[a]? = some act) (hc : act.child = none) (p : Nat)
    (hpc : act.pc = .ptLockBusy p) (hs : stepAct s a = some (s', o)) : PStep s a s' := by
  sim_open
  split at hs
  · simp at hs
  · next pt hp =>
    split at hs
    · simp at hs
    · next hl =>
      sim_fin
      exact PStep.ptLockBusy p pt ⟨by sim_oth, by sim_self⟩ (by sim_cl0) hp (isNone_of_not_isSome hl) (by sim_pool) (by sim_to)

theorem sim_ptLockSched {s s' : State} {a : Nat} {o : Obs} (act : Act) (ha : s.acts[a]? = some act) (hc : act.child = none) (p : Nat)
    (hpc : act.pc = .ptLockSched p) (hs : stepAct s a = some (s', o)) : PStep s a s' := by
  sim_open
  split at hs
  sim_fin
  exact PStep.ptLockSched p ⟨by sim_oth, by sim_self⟩ (by sim_cl0) (by sim_pool) (by sim_to)

theorem sim_ptPop {s s' : State} {a : Nat} {o : Obs} (act : Act) (ha : s.acts[a]? = some act) (hc : act.child = none) (p : Nat)
    (hpc : act.pc = .ptPop p) (hs : stepAct s a = some (s', o)) : PStep s a s' := by
  sim_open
  split at hs
  · next he =>
    sim_fin
    exact PStep.popEmpty p ⟨by sim_oth, by sim_self⟩ (by sim_cl0) he (by sim_pool) (by sim_to)
  · next q rest he =>
    split at hs
    · simp at hs
    · next v hv =>
      split at hs
      · sim_fin
        exact PStep.popTake p q rest ⟨by sim_oth, by sim_self⟩ (by sim_cl0) he (by sim_pool) (by sim_to)
      · sim_fin
        exact PStep.popSkip p q rest ⟨by sim_oth, by sim_self⟩ (by sim_cl0) he (by sim_pool) (by sim_to)

theorem sim_ptUnlockSched {s s' : State} {a : Nat} {o : Obs} (act : Act) (ha : s.acts[a]? = some act) (hc : act.child = none) (p : Nat) (g : Option Nat)
    (hpc : act.pc = .ptUnlockSched p g) (hs : stepAct s a = some (s', o)) : PStep s a s' := by
  sim_open
  sim_fin
  exact PStep.unlockSched p g ⟨by sim_oth, by sim_self⟩ (by sim_cl0) (by sim_pool) (by sim_to)

theorem sim_ptUnlockBusy {s s' : State} {a : Nat} {o : Obs} (act : Act) (ha : s.acts[a]? = some act) (hc : act.child = none) (p : Nat) (g : Option Nat)
    (hpc : act.pc = .ptUnlockBusy p g) (hs : stepAct s a = some (s', o)) : PStep s a s' := by
  sim_open
  split at hs
  · simp at hs
  · next pt hp =>
    split at hs
    · next q =>
      sim_fin
      exact PStep.unlockBusySome p q pt ⟨by sim_oth, by sim_self⟩ (by sim_cl0) hp (by sim_pool) (by sim_to)
    · sim_fin
      exact PStep.unlockBusyNone p pt ⟨by sim_oth, by sim_self⟩ (by sim_cl0) (by sim_cl0) hp (by sim_pool) (by sim_to)

theorem sim_pdPending {s s' : State} {a : Nat} {o : Obs} (act : Act) (ha : s.acts[a]? = some act) (hc : act.child = none) (p q : Nat)
    (hpc : act.pc = .pdPending p q) (hs : stepAct s a = some (s', o)) : PStep s a s' := by
  sim_open
  split at hs
  · simp at hs
  · split at hs
    · sim_fin
      exact PStep.drainEnd p ⟨by sim_oth, by sim_self⟩ (by sim_cl0) (by sim_pool) (by sim_to)
    · sim_fin
      exact PStep.neutral ⟨by sim_oth, by sim_self⟩ (by sim_self) (by sim_pool)

theorem sim_pdExit {s s' : State} {a : Nat} {o : Obs} (act : Act) (ha : s.acts[a]? = some act) (hc : act.child = none) (p q : Nat)
    (hpc : act.pc = .pdExit p q) (hs : stepAct s a = some (s', o)) : PStep s a s' := by
  sim_open
  split at hs
  · simp at hs
  · split at hs
    · sim_fin
      exact PStep.drainEnd p ⟨by sim_oth, by sim_self⟩ (by sim_cl0) (by sim_pool) (by sim_to)
    · sim_fin
      exact PStep.neutral ⟨by sim_oth, by sim_self⟩ (by sim_self) (by sim_pool)

theorem sim_sbClaim {s s' : State} {a : Nat} {o : Obs} (act : Act) (ha : s.acts[a]? = some act) (hc : act.child = none) (q j : Nat)
    (hpc : act.pc = .sbClaim q j) (hs : stepAct s a = some (s', o)) : PStep s a s' := by
  sim_open
  split at hs
  · simp at hs
  · split at hs
    · simp at hs
    · split at hs
      · sim_fin
        exact PStep.claim (· != q) ⟨by sim_oth, by sim_self⟩ (by sim_self) (by sim_pool)
      · sim_fin
        exact PStep.neutral ⟨by sim_oth, by sim_self⟩ (by sim_self) (by sim_pool)

theorem sim_smSet {s s' : State} {a : Nat} {o : Obs} (act : Act) (ha : s.acts[a]? = some act) (hc : act.child = none) (n : Nat)
    (hpc : act.pc = .smSet n) (hs : stepAct s a = some (s', o)) : PStep s a s' := by
  sim_open
  sim_fin
  exact PStep.smSet n ⟨by sim_oth, by sim_self⟩ (by sim_cl0) (by sim_pool) (by sim_to)

theorem sim_dpRead {s s' : State} {a : Nat} {o : Obs} (act : Act) (ha : s.acts[a]? = some act) (hc : act.child = none)
    (hpc : act.pc = .dpRead) (hs : stepAct s a = some (s', o)) : PStep s a s' := by
  sim_open
  sim_fin
  exact PStep.dpRead ⟨by sim_oth, by sim_self⟩ (by sim_cl0) (by sim_pool) (by sim_to)

theorem sim_dpLock {s s' : State} {a : Nat} {o : Obs} (act : Act) (ha : s.acts[a]? = some act) (hc : act.child = none) (m : Nat)
    (hpc : act.pc = .dpLock m) (hs : stepAct s a = some (s', o)) : PStep s a s' := by
  sim_open
  split at hs
  sim_fin
  exact PStep.dpLock m ⟨by sim_oth, by sim_self⟩ (by sim_cl0) (isNone_of_not_isSome (by assumption)) (by sim_pool) (by sim_to)

theorem sim_dpHang {s s' : State} {a : Nat} {o : Obs} (act : Act) (ha : s.acts[a]? = some act) (hc : act.child = none) (m : Nat) (g : List Nat)
    (hpc : act.pc = .dpHang m g) (hs : stepAct s a = some (s', o)) : PStep s a s' := by
  sim_open
  split at hs
  · split at hs
    · simp at hs
    · next p hv =>
      split at hs
      · simp at hs
      · next pt hp =>
        sim_fin
        exact PStep.dpHangPop m p g pt ⟨by sim_oth, by sim_self⟩ (by sim_cl0) hv hp (by sim_pool) (by sim_to)
  · sim_fin
    exact PStep.dpHangEnd m g ⟨by sim_oth, by sim_self⟩ (by sim_cl0) (by sim_pool) (by sim_to)

end Desync
