/-
The shape of the wakers the task-polling context builds (C06, second link of the chain latch → `DoubleWaker` → queue / task).

`SchedulerFuture::drain_queue` arms its `DrainWaker` latch with one of two wakers: the queue's own `WakeQueue` waker (when the
polled future's result has arrived: the queue is parked in `WaitingForWake`), or a `DoubleWaker` built from the queue's waker and
the polling task's context waker (the queue is left `WaitingForPoll`).  As invariants of every reachable state:

* a `DoubleWaker` that has not been fired holds exactly a queue waker and a task waker (so firing it reschedules the queue *and*
  has the task polled again), and firing it empties it (it fires at most once);
* the waker stored in a latch is a queue waker or a double waker — never a thread waker, a task waker alone or another latch, so
  a wake-up that goes through a latch reaches a `WakeQueue::wake` after at most two hops;
* every `wake_with` in progress (program counter `dqWakeWith`, wherever it sits inside a continuation) hands over such a waker.
-/
import DesyncModel.Inv.Latch
import DesyncModel.Inv.PoolWf

namespace Desync
open Gen

/-- what `DrainWaker::wake_with` may be handed -/
def Waker.lvl1 : Waker → Bool
  | .queue _ | .double _ => true
  | _ => false

/-- every `wake_with` inside a pc (at its head or in a continuation) hands over a queue waker or a double waker -/
def Pc.ws : Pc → Bool
  | .begin _ k | .body _ k | .unwinding k => k.ws
  | .stReap k | .stScanLock k | .stScan _ k | .stScanHeld _ k | .stScanRel _ _ k
  | .stScanUnlock _ k | .stReadMax k | .stSpawn _ k | .stSpawnRel k => k.ws
  | .rqCs _ k | .rqNotifyAcq _ _ _ k | .rqNotify _ _ _ k | .rqNotifyRel _ _ _ k | .rqPush _ k => k.ws
  | .resumeSend _ k | .waking _ k | .openSend _ k | .wqCs _ k | .wtCs _ _ k | .wtUnpark _ k | .lwCs _ k | .dwCs _ k => k.ws
  | .rjDequeue _ k | .rjPending _ _ k | .rjParkCheck _ _ k | .rjPark _ _ k | .rjParked _ _ k => k.ws
  | .jobStart _ _ k | .jobAwait _ _ k | .jobBodyDone _ _ k | .jobEnd _ _ k | .jobSignal _ _ k
  | .jobSigDrop _ _ k | .jobDrop _ _ k | .jobDropNotify _ _ k | .suspSignal _ _ k | .suspSigDrop _ _ k => k.ws
  | .pfPollRel _ next => next.ws
  | .dqWakeWith _ _ w k => w.lvl1 && k.ws
  | .fdDrop _ k => k.ws
  | _ => true

@[simp] theorem ws_ctxReady (k : Pc) (c : Ctx) : (ctxReady k c).ws = (match c with | .caller _ => k.ws | _ => true) := by
  cases c <;> simp [ctxReady, Pc.ws]
@[simp] theorem ws_ctxPending (j : Nat) (k : Pc) (c : Ctx) : (ctxPending j k c).ws = (match c with | .caller _ => k.ws | _ => true) := by
  cases c <;> simp [ctxPending, Pc.ws]

/-- an unfired `DoubleWaker` holds a queue waker and a task waker -/
def DblOk (L : List (Option (Waker × Waker))) : Prop :=
  ∀ (d : Nat) (w1 w2 : Waker), L[d]? = some (some (w1, w2)) → ∃ q t, w1 = .queue q ∧ w2 = .task t

/-- the waker stored in a latch is a queue waker or a double waker -/
def LatOk (L : List (Latch × Option Waker)) : Prop :=
  ∀ (l : Nat) (st : Latch) (w : Waker), L[l]? = some (st, some w) → w.lvl1 = true

theorem DblOk.set_none {L : List (Option (Waker × Waker))} (h : DblOk L) (d0 : Nat) : DblOk (L.set d0 none) := by
  intro d w1 w2 hd
  rw [List.getElem?_set] at hd
  split at hd
  · split at hd <;> cases hd
  · exact h d w1 w2 hd

theorem DblOk.append {L : List (Option (Waker × Waker))} (h : DblOk L) (q t : Nat) : DblOk (L ++ [some (Waker.queue q, Waker.task t)]) := by
  intro d w1 w2 hd
  by_cases hlt : d < L.length
  · rw [List.getElem?_append_left hlt] at hd; exact h d w1 w2 hd
  · by_cases he : d = L.length
    · subst he
      simp at hd
      obtain ⟨rfl, rfl⟩ := hd
      exact ⟨q, t, rfl, rfl⟩
    · have : (L ++ [some (Waker.queue q, Waker.task t)])[d]? = none := by simp; omega
      rw [this] at hd; cases hd

theorem LatOk.set {L : List (Latch × Option Waker)} (h : LatOk L) (l0 : Nat) (st0 : Latch) (w0 : Option Waker)
    (hw : ∀ w, w0 = some w → w.lvl1 = true) : LatOk (L.set l0 (st0, w0)) := by
  intro l st w hl
  rw [List.getElem?_set] at hl
  split at hl
  · split at hl
    · cases hl; exact hw w rfl
    · cases hl
  · exact h l st w hl

theorem LatOk.append {L : List (Latch × Option Waker)} (h : LatOk L) : LatOk (L ++ [(Latch.notWoken, none)]) := by
  intro l st w hl
  by_cases hlt : l < L.length
  · rw [List.getElem?_append_left hlt] at hl; exact h l st w hl
  · by_cases he : l = L.length
    · subst he; simp at hl
    · have : (L ++ [((Latch.notWoken, none) : Latch × Option Waker)])[l]? = none := by simp; omega
      rw [this] at hl; cases hl

structure ShapeInv (s : State) : Prop where
  /-- every `wake_with` in progress hands over a queue waker or a double waker -/
  ws : ∀ b, (s.pcAt b).ws = true
  dbl : DblOk s.doubles
  lat : LatOk s.latches

theorem ShapeInv.gotoGen {s X : State} {a : Nat} {pc' : Pc} (h : ShapeInv s) (hX : ∀ b, X.pcAt b = s.pcAt b)
    (hd : DblOk X.doubles) (hl : LatOk X.latches) (hpc : pc'.ws = true) : ShapeInv (X.goto a pc') := by
  refine ⟨?_, ?_, ?_⟩
  · intro b
    rw [pcAt_goto]
    split
    · exact hpc
    · rw [hX]; exact h.ws b
  · rw [doubles_goto]; exact hd
  · rw [latches_goto]; exact hl

theorem ShapeInv.goto {s X : State} {a : Nat} {pc' : Pc} (h : ShapeInv s) (hX : ∀ b, X.pcAt b = s.pcAt b)
    (hd : X.doubles = s.doubles) (hl : X.latches = s.latches) (hpc : pc'.ws = true) : ShapeInv (X.goto a pc') :=
  ShapeInv.gotoGen h hX (by rw [hd]; exact h.dbl) (by rw [hl]; exact h.lat) hpc

theorem ShapeInv.setAct {s X : State} {a : Nat} {v : Act} (h : ShapeInv s) (hX : ∀ b, X.pcAt b = s.pcAt b)
    (hd : X.doubles = s.doubles) (hl : X.latches = s.latches) (hpc : v.pc.ws = true) : ShapeInv (X.setAct a v) := by
  refine ⟨?_, ?_, ?_⟩
  · intro b
    rw [pcAt_setAct]
    split
    · exact hpc
    · rw [hX]; exact h.ws b
  · rw [doubles_setAct, hd]; exact h.dbl
  · rw [latches_setAct, hl]; exact h.lat

theorem ShapeInv.same {s X : State} (h : ShapeInv s) (hX : ∀ b, X.pcAt b = s.pcAt b)
    (hd : X.doubles = s.doubles) (hl : X.latches = s.latches) : ShapeInv X :=
  ⟨fun b => by rw [hX]; exact h.ws b, by rw [hd]; exact h.dbl, by rw [hl]; exact h.lat⟩

end Desync
