/-
I_pool: the pool never holds more threads than the largest maximum configured so far.
`M` is any bound on the configured maxima (the initial one and every value passed to set_max_threads);
the invariant says the threads vector never grows beyond `M` — in particular, while the maximum is constant, never
beyond the maximum.  The only delicate point is that a spawn decides with the maximum it read a few critical sections
earlier (`stReadMax` → `stSpawn m`): the invariant carries `m ≤ M` for every such value still in flight.
-/
import DesyncModel.Inv.HolderLemmas

namespace Desync
open Gen

/-- every maximum read and still in flight in this pc (and its continuations) is at most `M` -/
def Pc.spawnOk (M : Nat) : Pc → Bool
  | .stSpawn m k => decide (m ≤ M) && k.spawnOk M
  | .begin _ k | .body _ k | .unwinding k => k.spawnOk M
  | .stReap k | .stScanLock k | .stScan _ k | .stScanHeld _ k | .stScanRel _ _ k
  | .stScanUnlock _ k | .stReadMax k | .stSpawnRel k => k.spawnOk M
  | .rqCs _ k | .rqNotifyAcq _ _ _ k | .rqNotify _ _ _ k | .rqNotifyRel _ _ _ k | .rqPush _ k => k.spawnOk M
  | .resumeSend _ k | .waking _ k | .openSend _ k | .wqCs _ k | .wtCs _ _ k | .wtUnpark _ k | .lwCs _ k | .dwCs _ k => k.spawnOk M
  | .rjDequeue _ k | .rjPending _ _ k | .rjParkCheck _ _ k | .rjPark _ _ k | .rjParked _ _ k => k.spawnOk M
  | .jobStart _ _ k | .jobAwait _ _ k | .jobBodyDone _ _ k | .jobEnd _ _ k | .jobSignal _ _ k
  | .jobSigDrop _ _ k | .jobDrop _ _ k | .jobDropNotify _ _ k | .suspSignal _ _ k | .suspSigDrop _ _ k => k.spawnOk M
  | .pfPollRel _ next => next.spawnOk M
  | .dqWakeWith _ _ _ k => k.spawnOk M
  | .fdDrop _ k => k.spawnOk M
  | .smSet n => decide (n ≤ M)
  | _ => true

structure PoolInv (M : Nat) (s : State) : Prop where
  vec : s.threadsVec.length ≤ M
  max : s.maxThreads ≤ M
  pcs : ∀ b, (s.pcAt b).spawnOk M = true

theorem poolInv_init (nq ng max M : Nat) (h : max ≤ M) : PoolInv M (initState nq ng max) := by
  refine ⟨by simp [initState], by simpa [initState] using h, ?_⟩
  intro b; simp [initState, State.pcAt, Pc.spawnOk]

theorem poolInv_initP (ps : List Bool) (ng max M : Nat) (h : max ≤ M) : PoolInv M (initStateP ps ng max) := by
  refine ⟨by simp [initStateP, initState], by simpa [initStateP, initState] using h, ?_⟩
  intro b; simp [initStateP, initState, State.pcAt, Pc.spawnOk]

@[simp] theorem spawnOk_ctxReady (M : Nat) (k : Pc) (c : Ctx) : (ctxReady k c).spawnOk M = (match c with | .caller _ => k.spawnOk M | _ => true) := by
  cases c <;> simp [ctxReady, Pc.spawnOk]
@[simp] theorem spawnOk_ctxPending (M : Nat) (j : Nat) (k : Pc) (c : Ctx) : (ctxPending j k c).spawnOk M = (match c with | .caller _ => k.spawnOk M | _ => true) := by
  cases c <;> simp [ctxPending, Pc.spawnOk]

/-- a step of activity `a` that moves it to `pc'` and leaves every other program counter alone -/
theorem PoolInv.keep_goto {M : Nat} {s X : State} {a : Nat} {pc' : Pc} (h : PoolInv M s)
    (hX : ∀ b, (X.pcAt b).spawnOk M = true) (hv : X.threadsVec.length ≤ M) (hm : X.maxThreads ≤ M)
    (hok : pc'.spawnOk M = true) : PoolInv M (X.goto a pc') := by
  refine ⟨by simpa using hv, by simpa using hm, ?_⟩
  intro b
  rw [pcAt_goto]
  split
  · exact hok
  · exact hX b

theorem PoolInv.keep_setAct {M : Nat} {s X : State} {a : Nat} {v : Act} (h : PoolInv M s)
    (hX : ∀ b, (X.pcAt b).spawnOk M = true) (hv : X.threadsVec.length ≤ M) (hm : X.maxThreads ≤ M)
    (hok : v.pc.spawnOk M = true) : PoolInv M (X.setAct a v) := by
  refine ⟨by simpa using hv, by simpa using hm, ?_⟩
  intro b
  rw [pcAt_setAct]
  split
  · exact hok
  · exact hX b

theorem dequeue_threadsVec (s : State) (q a : Nat) : (s.dequeue q a).1.threadsVec = s.threadsVec := by
  unfold State.dequeue
  split
  · split
    · split <;> simp
    · rfl
  · rfl

theorem dequeue_maxThreads (s : State) (q a : Nat) : (s.dequeue q a).1.maxThreads = s.maxThreads := by
  unfold State.dequeue
  split
  · split
    · split <;> simp
    · rfl
  · rfl

/-- the invariant reads only the threads vector, the maximum and the program counters -/
theorem PoolInv.of_eq {M : Nat} {s X : State} (h : PoolInv M s) (hv : X.threadsVec = s.threadsVec) (hm : X.maxThreads = s.maxThreads)
    (ha : ∀ b, X.pcAt b = s.pcAt b) : PoolInv M X :=
  ⟨by rw [hv]; exact h.vec, by rw [hm]; exact h.max, fun b => by rw [ha]; exact h.pcs b⟩

theorem spawnOk_pcAt_append {M : Nat} {s X : State} {n : Act} (h : PoolInv M s) (hacts : X.acts = s.acts ++ [n]) (hn : n.pc.spawnOk M = true) :
    ∀ b, (X.pcAt b).spawnOk M = true := by
  intro b
  have hb := h.pcs b
  simp only [State.pcAt, hacts] at hb ⊢
  by_cases hlt : b < s.acts.length
  · rw [List.getElem?_append_left hlt]; exact hb
  · by_cases hbe : b = s.acts.length
    · subst hbe; simp [hn]
    · have : (s.acts ++ [n])[b]? = none := by simp; omega
      rw [this]; rfl

end Desync
