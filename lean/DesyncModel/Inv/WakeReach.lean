/-
I_wake (pool context) holds in every state reachable without polling a returned future or using `future_sync`.
-/
import DesyncModel.Inv.WakeStep

namespace Desync
open Gen

/-- the environment never polls a returned future and never calls `future_sync` -/
def labelNT : Label → Bool
  | .invoke _ _ (.await _) | .invoke _ _ (.pollOnce _) | .invoke _ _ (.fsync _ _) => false
  | .spuriousPoll _ => false
  | _ => true

inductive ReachableNT : State → Prop where
  | init (nq ng max : Nat) : ReachableNT (initState nq ng max)
  | initP (ps : List Bool) (ng max : Nat) : ReachableNT (initStateP ps ng max)
  | step {s s' : State} (l : Label) : ReachableNT s → labelNT l = true → next s l = some s' → ReachableNT s'

theorem ReachableNT.reachable {s : State} (h : ReachableNT s) : Reachable s := by
  induction h with
  | init nq ng max => exact Reachable.init nq ng max
  | initP ps ng max => exact Reachable.initP ps ng max
  | step l _ _ hs ih => exact Reachable.step l ih hs

structure NtWake (s : State) : Prop where
  nt : NoTaskInv s
  wake : WakeInv s

/-- an environment step: queues and registrations untouched, every activity keeps (or loses) its place -/
theorem ntWake_env {s X : State} (hr : Reachable s) (h : NtWake s) (hq : X.qs = s.qs) (hj : X.jobs = s.jobs)
    (hpc : ∀ b, X.pcAt b = s.pcAt b ∨ ((X.pcAt b).noTask = true ∧ (∀ q, (s.pcAt b).wakesQ q = true → (X.pcAt b).wakesQ q = true) ∧
        (∀ q j, (X.pcAt b).requeuing = some (q, j) → (s.pcAt b).requeuing = some (q, j)) ∧
        (∀ q, (X.pcAt b).pending = some q → (s.pcAt b).pending = some q))) : NtWake X := by
  obtain ⟨hw, hf⟩ := fullInv_reachable hr
  refine ⟨⟨?_, NoSlot.same h.nt.jobs hj⟩, ?_⟩
  · intro b
    rcases hpc b with e | e
    · rw [e]; exact h.nt.pcs b
    · exact e.1
  · refine WakeInv.soft h.wake (holderInv_reachable hr) hw hf (parkInv_reachable hr) ?_ ?_ ?_ ?_ ?_
    · intro b q hb
      left
      rcases hpc b with e | e
      · rw [e]; exact hb
      · exact e.2.1 q hb
    · intro b q j hb
      rcases hpc b with e | e
      · rw [e] at hb; exact hb
      · exact e.2.2.1 q j hb
    · intro b q hb
      rcases hpc b with e | e
      · rw [e] at hb; exact hb
      · exact e.2.2.2 q hb
    · intro q j hr'; left; unfold Reg at hr' ⊢; rw [← hr']; exact regW_congr hj j
    · intro q; left; exact ⟨qSt_congr hq q, qjobs_congr hq q⟩

theorem ntWake_setChild {s : State} (hr : Reachable s) (h : NtWake s) (p : Nat) (c : Option Nat) (X : State)
    (hX : X = (match s.acts[p]? with | some pv => s.setAct p { pv with child := c } | none => s)) : NtWake X := by
  subst hX
  split
  · next pv hpv =>
    exact ntWake_env hr h rfl rfl (fun b => Or.inl (pcAt_setAct_samepc _ p pv { pv with child := c } hpv rfl b))
  · exact h

/-- the new activity of an allowed call is nowhere for I_wake -/
def Pc.envNew (pc : Pc) : Prop := pc.noTask = true ∧ (∀ q, pc.wakesQ q = false) ∧ pc.requeuing = none ∧ pc.pending = none

theorem pcAt_addAct (s0 : State) (t : Nat) (parent : Option Nat) (pc : Pc) (once : Bool) (b : Nat) :
    (addAct s0 t parent pc once).1.pcAt b = if b = s0.acts.length then pc else s0.pcAt b := by
  have key : ∀ (Y : State), Y.acts = s0.acts ++ [({ thread := t, pc := pc, parent := parent, child := none, woken := false, result := none, mode := .await, once := once } : Act)] →
      Y.pcAt b = if b = s0.acts.length then pc else s0.pcAt b := by
    intro Y hY
    simp only [State.pcAt, hY]
    by_cases hlt : b < s0.acts.length
    · have : b ≠ s0.acts.length := by omega
      simp [this, List.getElem?_append_left hlt]
    · by_cases hbe : b = s0.acts.length
      · subst hbe; simp
      · have h1 : (s0.acts ++ [({ thread := t, pc := pc, parent := parent, child := none, woken := false, result := none, mode := .await, once := once } : Act)])[b]? = none := by simp; omega
        have h2 : s0.acts[b]? = none := by simp; omega
        simp [hbe, h1, h2]
  unfold addAct
  cases parent with
  | none => exact key _ rfl
  | some p =>
    simp only
    split
    · next pv hpv =>
      have hlt := lt_of_getElem?_some hpv
      have hpp : State.pcAt ({ s0 with acts := s0.acts ++ [({ thread := t, pc := pc, parent := some p, child := none, woken := false, result := none, mode := .await, once := once } : Act)], nextOp := s0.nextOp + 1 } : State) p = pv.pc := by
        simp only [State.pcAt, hpv]
      show (State.setAct _ p _).pcAt b = _
      rw [pcAt_setAct]
      split
      · next e =>
        have := key ({ s0 with acts := s0.acts ++ [({ thread := t, pc := pc, parent := some p, child := none, woken := false, result := none, mode := .await, once := once } : Act)], nextOp := s0.nextOp + 1 } : State) rfl
        rw [← e.1] at this ⊢
        rw [← this]; exact hpp.symm
      · exact key ({ s0 with acts := s0.acts ++ [({ thread := t, pc := pc, parent := some p, child := none, woken := false, result := none, mode := .await, once := once } : Act)], nextOp := s0.nextOp + 1 } : State) rfl
    · exact key _ rfl

theorem addAct_fields (s0 : State) (t : Nat) (parent : Option Nat) (pc : Pc) (once : Bool) :
    (addAct s0 t parent pc once).1.qs = s0.qs ∧ (addAct s0 t parent pc once).1.jobs = s0.jobs := by
  unfold addAct
  cases parent with
  | none => exact ⟨rfl, rfl⟩
  | some p => simp only; split <;> exact ⟨rfl, rfl⟩

theorem ntWake_addAct {s s0 : State} (hr : Reachable s) (h : NtWake s) (t : Nat) (parent : Option Nat) (pc : Pc) (once : Bool) (hn : pc.envNew)
    (ha : s0.acts = s.acts) (hq : s0.qs = s.qs) (hj : s0.jobs = s.jobs) : NtWake (addAct s0 t parent pc once).1 := by
  have hpc0 : ∀ b, s0.pcAt b = s.pcAt b := fun b => by simp only [State.pcAt, ha]
  refine ntWake_env hr h ((addAct_fields s0 t parent pc once).1.trans hq) ((addAct_fields s0 t parent pc once).2.trans hj) ?_
  intro b
  rw [pcAt_addAct]
  split
  · next hb =>
    right
    refine ⟨hn.1, fun q hq' => ?_, fun q j hq' => ?_, fun q hq' => ?_⟩
    · have : s.pcAt b = .dead := by rw [hb, ha]; simp [State.pcAt]
      rw [this] at hq'; simp [Pc.wakesQ] at hq'
    · rw [hn.2.2.1] at hq'; cases hq'
    · rw [hn.2.2.2] at hq'; cases hq'
  · exact Or.inl (hpc0 b)

theorem ntWake_invoke {s s' : State} {t a : Nat} {parent : Option Nat} {c : Call} (hr : Reachable s) (h : NtWake s)
    (hok : labelNT (.invoke t parent c) = true) (hs : invoke s t parent c = some (s', a)) : NtWake s' := by
  unfold invoke at hs
  cases c <;> simp only at hs
  all_goals (try (simp [labelNT] at hok; done))
  all_goals (repeat' split at hs)
  all_goals (try (simp at hs; done))
  all_goals (
    have hs' := congrArg Prod.fst (Option.some.inj hs)
    simp only at hs'
    subst hs'
    refine ntWake_addAct hr h t parent _ _ ?_ ?_ ?_ ?_
    · exact ⟨by simp [Pc.noTask, JobKind.isSlot], fun q => by simp [Pc.wakesQ], by simp [Pc.requeuing], by simp [Pc.pending]⟩
    · first | rfl | (split <;> (try split) <;> rfl)
    · first | rfl | (split <;> (try split) <;> rfl)
    · first | rfl | (split <;> (try split) <;> rfl))

theorem ntWake_goto_env {s : State} {a : Nat} {act : Act} (hr : Reachable s) (h : NtWake s) (ha : s.acts[a]? = some act) (pc' : Pc)
    (hnt : act.pc.noTask = true → pc'.noTask = true) (hW : ∀ q, act.pc.wakesQ q = true → pc'.wakesQ q = true)
    (hR : ∀ q j, pc'.requeuing = some (q, j) → act.pc.requeuing = some (q, j)) (hP : ∀ q, pc'.pending = some q → act.pc.pending = some q) :
    NtWake (s.goto a pc') := by
  have hpca := pcAt_of ha
  refine ntWake_env hr h (by simp) (by simp) ?_
  intro b
  by_cases hba : b = a
  · subst hba
    right
    rw [pcAt_goto_self _ (lt_of_getElem?_some ha), hpca]
    exact ⟨hnt (by rw [← hpca]; exact h.nt.pcs b), hW, hR, hP⟩
  · exact Or.inl (pcAt_goto_ne _ hba)

theorem ntWake_bodyEnd {s s' : State} {a : Nat} {o : Obs} (hr : Reachable s) (h : NtWake s) (hs : bodyEnd s a = some (s', o)) : NtWake s' := by
  unfold bodyEnd at hs
  split at hs
  · next act ha =>
    split at hs
    · simp at hs
    · split at hs
      · next op k hpc =>
        obtain ⟨rfl, _⟩ := Prod.mk.inj (Option.some.inj hs)
        refine ntWake_goto_env hr h ha _ ?_ ?_ ?_ ?_ <;> rw [hpc] <;> simp [Pc.noTask, Pc.wakesQ, Pc.requeuing, Pc.pending]
      · simp at hs
  · simp at hs

theorem ntWake_spuriousUnpark {s s' : State} {a : Nat} {o : Obs} (hr : Reachable s) (h : NtWake s) (hs : spuriousUnpark s a = some (s', o)) : NtWake s' := by
  unfold spuriousUnpark at hs
  split at hs
  · next act ha =>
    split at hs
    · next q j k hpc =>
      obtain ⟨rfl, _⟩ := Prod.mk.inj (Option.some.inj hs)
      refine ntWake_goto_env hr h ha _ ?_ ?_ ?_ ?_ <;> rw [hpc] <;> simp [Pc.noTask, Pc.wakesQ, Pc.requeuing, Pc.pending]
    · simp at hs
  · simp at hs

theorem retStep_view {s s' : State} {a r : Nat} (hs : retStep s a = some (s', r)) :
    s'.qs = s.qs ∧ s'.jobs = s.jobs ∧ ∀ b, s'.pcAt b = s.pcAt b ∨ (s'.pcAt b = .dead ∧ s.pcAt b = .ret) := by
  unfold retStep at hs
  split at hs
  · next act ha =>
    split at hs
    · next hpc =>
      obtain ⟨rfl, _⟩ := Prod.mk.inj (Option.some.inj hs)
      have h1 : ∀ b, (s.setAct a { act with pc := .dead }).pcAt b = s.pcAt b ∨ ((s.setAct a { act with pc := .dead }).pcAt b = .dead ∧ s.pcAt b = .ret) := by
        intro b
        rw [pcAt_setAct]
        split
        · next e => right; exact ⟨rfl, by rw [← e.1, pcAt_of ha, hpc]⟩
        · exact Or.inl rfl
      split
      · next p hp =>
        split
        · next pv hpv =>
          refine ⟨rfl, rfl, fun b => ?_⟩
          rw [pcAt_setAct_samepc _ p pv { pv with child := none } hpv rfl]
          exact h1 b
        · exact ⟨rfl, rfl, h1⟩
      · exact ⟨rfl, rfl, h1⟩
    · simp at hs
  · simp at hs

theorem ntWake_ret {s s' : State} {a r : Nat} (hr : Reachable s) (h : NtWake s) (hs : retStep s a = some (s', r)) : NtWake s' := by
  obtain ⟨h1, h2, h3⟩ := retStep_view hs
  refine ntWake_env hr h h1 h2 ?_
  intro b
  rcases h3 b with e | ⟨e1, e2⟩
  · exact Or.inl e
  · right
    rw [e1, e2]
    exact ⟨rfl, fun q hq => by simp [Pc.wakesQ] at hq, fun q j hq => by simp [Pc.requeuing] at hq, fun q hq => by simp [Pc.pending] at hq⟩

theorem ntWake_init (s : State) (ha : s.acts = []) (hj : s.jobs = []) (hq : ∀ q st, s.qSt q = some st → st = .idle ∨ st = .panicked) : NtWake s := by
  have hpc : ∀ b, s.pcAt b = .dead := fun b => by simp [State.pcAt, ha]
  refine ⟨⟨fun b => by rw [hpc]; rfl, fun jb hm => by rw [hj] at hm; cases hm⟩, ⟨?_, ?_, ?_⟩⟩
  · intro q hst; rcases hq q _ hst with e | e <;> cases e
  · intro a q j hb; rw [hpc] at hb; simp [Pc.requeuing] at hb
  · intro a q hb; rw [hpc] at hb; simp [Pc.pending] at hb

/-- **I_wake holds in every state reachable without polling a returned future.** -/
theorem ntWake_reachable {s : State} (hr : ReachableNT s) : NtWake s := by
  induction hr with
  | init nq ng max =>
    refine ntWake_init _ (by simp [initState]) (by simp [initState]) ?_
    intro q st hst
    simp only [initState, State.qSt, List.getElem?_replicate] at hst
    split at hst <;> simp at hst
    exact Or.inl hst.symm
  | initP ps ng max =>
    refine ntWake_init _ (by simp [initStateP, initState]) (by simp [initStateP, initState]) ?_
    intro q st hst
    rcases qSt_initP hst with e | e
    · exact Or.inr e
    · exact Or.inl e
  | step l hprev hok hstep ih =>
    have hr := hprev.reachable
    cases l with
    | act a =>
      simp only [next, Option.map_eq_some_iff] at hstep
      obtain ⟨⟨s1, o⟩, hs, rfl⟩ := hstep
      obtain ⟨hw, hf⟩ := fullInv_reachable hr
      exact ⟨noTaskInv_stepAct ih.nt hs, wakeInv_stepAct ih.nt (holderInv_reachable hr) hw hf (parkInv_reachable hr) ih.wake hs⟩
    | invoke t parent c =>
      simp only [next] at hstep
      split at hstep
      · simp only [Option.map_eq_some_iff] at hstep
        obtain ⟨⟨s1, a⟩, hs, rfl⟩ := hstep
        exact ntWake_invoke hr ih hok hs
      · simp at hstep
    | bodyEnd a =>
      simp only [next, Option.map_eq_some_iff] at hstep
      obtain ⟨⟨s1, o⟩, hs, rfl⟩ := hstep
      exact ntWake_bodyEnd hr ih hs
    | ret a =>
      simp only [next, Option.map_eq_some_iff] at hstep
      obtain ⟨⟨s1, r⟩, hs, rfl⟩ := hstep
      exact ntWake_ret hr ih hs
    | spuriousUnpark a =>
      simp only [next, Option.map_eq_some_iff] at hstep
      obtain ⟨⟨s1, o⟩, hs, rfl⟩ := hstep
      exact ntWake_spuriousUnpark hr ih hs
    | spuriousPoll a => simp [labelNT] at hok

end Desync
