/-
I_pool holds in every state reachable with configured maxima bounded by `M`.
-/
import DesyncModel.Inv.PoolStep
import DesyncModel.Inv.HolderReach

namespace Desync
open Gen

/-- the environment never configures a maximum above `M` -/
def labelOk (M : Nat) : Label → Bool
  | .invoke _ _ (.setMax n) => decide (n ≤ M)
  | _ => true

/-- states reachable when the initial maximum and every maximum passed to set_max_threads is at most `M` -/
inductive ReachableB (M : Nat) : State → Prop where
  | init (nq ng max : Nat) : max ≤ M → ReachableB M (initState nq ng max)
  | initP (ps : List Bool) (ng max : Nat) : max ≤ M → ReachableB M (initStateP ps ng max)
  | step {s s' : State} (l : Label) : ReachableB M s → labelOk M l = true → next s l = some s' → ReachableB M s'

theorem ReachableB.reachable {M : Nat} {s : State} (h : ReachableB M s) : Reachable s := by
  induction h with
  | init nq ng max _ => exact Reachable.init nq ng max
  | initP ps ng max _ => exact Reachable.initP ps ng max
  | step l _ _ hs ih => exact Reachable.step l ih hs

/-- every reachable state is reachable with some bound (the largest maximum that was ever configured) -/
theorem poolInv_of_same {M : Nat} {s X : State} (h : PoolInv M s) (hpc : ∀ b, (X.pcAt b).spawnOk M = (s.pcAt b).spawnOk M)
    (hv : X.threadsVec = s.threadsVec) (hm : X.maxThreads = s.maxThreads) : PoolInv M X :=
  ⟨by rw [hv]; exact h.vec, by rw [hm]; exact h.max, fun b => by rw [hpc]; exact h.pcs b⟩

theorem poolInv_setChild {M : Nat} {s : State} (h : PoolInv M s) (p : Nat) (c : Option Nat) :
    PoolInv M (match s.acts[p]? with
      | some pv => s.setAct p { pv with child := c }
      | none => s) := by
  split
  · next pv hpv =>
    refine poolInv_of_same h ?_ rfl rfl
    intro b
    rw [pcAt_setAct_samepc _ p pv { pv with child := c } hpv rfl]
  · exact h

theorem poolInv_addAct {M : Nat} {s s0 : State} (h : PoolInv M s) (t : Nat) (parent : Option Nat) (pc : Pc) (once : Bool)
    (hpc : pc.spawnOk M = true) (hacts : s0.acts = s.acts) (hv : s0.threadsVec = s.threadsVec) (hm : s0.maxThreads = s.maxThreads) :
    PoolInv M (addAct s0 t parent pc once).1 := by
  have h0 : PoolInv M s0 := ⟨by rw [hv]; exact h.vec, by rw [hm]; exact h.max, fun b => by simp only [State.pcAt, hacts]; exact h.pcs b⟩
  have h1 : PoolInv M ({ s0 with acts := s0.acts ++ [({ thread := t, pc := pc, parent := parent, child := none, woken := false, result := none, mode := .await, once := once } : Act)], nextOp := s0.nextOp + 1 } : State) :=
    ⟨h0.vec, h0.max, spawnOk_pcAt_append (n := { thread := t, pc := pc, parent := parent, child := none, woken := false, result := none, mode := .await, once := once }) h0 rfl hpc⟩
  unfold addAct
  cases parent with
  | none => exact h1
  | some p =>
    simp only
    have := poolInv_setChild h1 p (some s0.acts.length)
    split
    · next pv hpv => simp only [hpv] at this; exact this
    · exact h1

theorem poolInv_invoke {M : Nat} {s s' : State} {t a : Nat} {parent : Option Nat} {c : Call} (h : PoolInv M s)
    (hok : labelOk M (.invoke t parent c) = true) (hs : invoke s t parent c = some (s', a)) : PoolInv M s' := by
  unfold invoke at hs
  cases c <;> simp only at hs
  all_goals (repeat' split at hs)
  all_goals (try (simp at hs; done))
  all_goals (
    have hs' := congrArg Prod.fst (Option.some.inj hs)
    simp only at hs'
    subst hs'
    refine poolInv_addAct h t parent _ _ ?_ ?_ ?_ ?_ <;>
      (first | rfl | (simpa [Pc.spawnOk, labelOk] using hok) | (simp [Pc.spawnOk]; done) | (split <;> (try split) <;> rfl)))

theorem poolInv_bodyEnd {M : Nat} {s s' : State} {a : Nat} {o : Obs} (h : PoolInv M s) (hs : bodyEnd s a = some (s', o)) : PoolInv M s' := by
  unfold bodyEnd at hs
  split at hs
  · next act ha =>
    split at hs
    · simp at hs
    · split at hs
      · next op k hpc =>
        obtain ⟨rfl, _⟩ := Prod.mk.inj (Option.some.inj hs)
        have hk := h.pcs a
        rw [pcAt_of ha, hpc] at hk
        exact PoolInv.keep_goto h (fun b => h.pcs b) h.vec h.max (by simpa [Pc.spawnOk] using hk)
      · simp at hs
  · simp at hs

theorem poolInv_spuriousUnpark {M : Nat} {s s' : State} {a : Nat} {o : Obs} (h : PoolInv M s) (hs : spuriousUnpark s a = some (s', o)) : PoolInv M s' := by
  unfold spuriousUnpark at hs
  split at hs
  · next act ha =>
    split at hs
    · next q j k hpc =>
      obtain ⟨rfl, _⟩ := Prod.mk.inj (Option.some.inj hs)
      have hk := h.pcs a
      rw [pcAt_of ha, hpc] at hk
      exact PoolInv.keep_goto h (fun b => h.pcs b) h.vec h.max (by simpa [Pc.spawnOk] using hk)
    · simp at hs
  · simp at hs

theorem poolInv_spuriousPoll {M : Nat} {s s' : State} {a : Nat} (h : PoolInv M s) (hs : spuriousPoll s a = some s') : PoolInv M s' := by
  unfold spuriousPoll at hs
  split at hs
  · next act ha =>
    split at hs
    · cases Option.some.inj hs; exact PoolInv.keep_goto h (fun b => h.pcs b) h.vec h.max (by simp [Pc.spawnOk])
    · cases Option.some.inj hs; exact PoolInv.keep_goto h (fun b => h.pcs b) h.vec h.max (by simp [Pc.spawnOk])
    · simp at hs
  · simp at hs

theorem poolInv_ret {M : Nat} {s s' : State} {a r : Nat} (h : PoolInv M s) (hs : retStep s a = some (s', r)) : PoolInv M s' := by
  unfold retStep at hs
  split at hs
  · next act ha =>
    split at hs
    · next hpc =>
      obtain ⟨rfl, _⟩ := Prod.mk.inj (Option.some.inj hs)
      have h1 : PoolInv M (s.setAct a { act with pc := .dead }) :=
        PoolInv.keep_setAct h (fun b => h.pcs b) h.vec h.max (by simp [Pc.spawnOk])
      split
      · next p hp =>
        split
        · next pv hpv =>
          refine poolInv_of_same h1 ?_ rfl rfl
          intro b
          rw [pcAt_setAct_samepc _ p pv { pv with child := none } hpv rfl]
        · exact h1
      · exact h1
    · simp at hs
  · simp at hs

/-- **I_pool holds in every state reachable under the bound.** -/
theorem poolInv_reachable {M : Nat} {s : State} (hr : ReachableB M s) : PoolInv M s := by
  induction hr with
  | init nq ng max hle => exact poolInv_init nq ng max M hle
  | initP ps ng max hle => exact poolInv_initP ps ng max M hle
  | step l _ hok hstep ih =>
    cases l with
    | act a =>
      simp only [next, Option.map_eq_some_iff] at hstep
      obtain ⟨⟨s1, o⟩, hs, rfl⟩ := hstep
      exact poolInv_stepAct ih hs
    | invoke t parent c =>
      simp only [next] at hstep
      split at hstep
      · simp only [Option.map_eq_some_iff] at hstep
        obtain ⟨⟨s1, a⟩, hs, rfl⟩ := hstep
        exact poolInv_invoke ih hok hs
      · simp at hstep
    | bodyEnd a =>
      simp only [next, Option.map_eq_some_iff] at hstep
      obtain ⟨⟨s1, o⟩, hs, rfl⟩ := hstep
      exact poolInv_bodyEnd ih hs
    | ret a =>
      simp only [next, Option.map_eq_some_iff] at hstep
      obtain ⟨⟨s1, r⟩, hs, rfl⟩ := hstep
      exact poolInv_ret ih hs
    | spuriousUnpark a =>
      simp only [next, Option.map_eq_some_iff] at hstep
      obtain ⟨⟨s1, o⟩, hs, rfl⟩ := hstep
      exact poolInv_spuriousUnpark ih hs
    | spuriousPoll a =>
      simp only [next] at hstep
      exact poolInv_spuriousPoll ih hstep

end Desync
