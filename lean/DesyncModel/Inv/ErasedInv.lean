/-
The erased-job invariant (C14) for states of the scheduler model.
-/
import DesyncModel.Inv.ErasedAbs
import DesyncModel.Inv.ErasedProj
import DesyncModel.Inv.JobInv

namespace Desync
open Gen

abbrev ErasedInv (s : State) : Prop :=
  ErasedInvF s.jobK s.jobD (fun a => (s.pcAt a).awaited) (fun a => (s.pcAt a).fresh) s.isReady s.acts.length

theorem erasedInv_init (nq ng max : Nat) : ErasedInv (initState nq ng max) := by
  refine ⟨?_, ?_, ?_, ?_, ?_, ?_, ?_, ?_⟩ <;> intros <;> simp_all [initState, State.jobK, State.isReady]

theorem erasedInv_initP (ps : List Bool) (ng max : Nat) : ErasedInv (initStateP ps ng max) := by
  refine ⟨?_, ?_, ?_, ?_, ?_, ?_, ?_, ?_⟩ <;> intros <;> simp_all [initStateP, initState, State.jobK, State.isReady]

theorem ErasedInvF.congr {K K' D D' A A' F F' Rd Rd' NA NA'} (h : ErasedInvF K D A F Rd NA)
    (hK : ∀ i, K' i = K i) (hD : ∀ i, D' i = D i) (hA : ∀ i, A' i = A i) (hF : ∀ i, F' i = F i) (hR : ∀ i, Rd' i = Rd i) (hN : NA' = NA) :
    ErasedInvF K' D' A' F' Rd' NA' := by
  have e1 : K' = K := funext hK
  have e2 : D' = D := funext hD
  have e3 : A' = A := funext hA
  have e4 : F' = F := funext hF
  have e5 : Rd' = Rd := funext hR
  rw [e1, e2, e3, e4, e5, hN]; exact h

theorem acts_length_goto (X : State) (a : Nat) (pc : Pc) : (X.goto a pc).acts.length = X.acts.length := by
  unfold State.goto; split <;> simp [State.setAct]

/-- `f ∘ pcAt` after a `goto` that keeps `f` of the moving activity -/
theorem pcf_goto_same {β : Type} (f : Pc → β) {s X : State} {a : Nat} {pc' : Pc} (hpc : ∀ b, X.pcAt b = s.pcAt b) (hf : f pc' = f (s.pcAt a)) :
    ∀ b, f ((X.goto a pc').pcAt b) = f (s.pcAt b) := by
  intro b
  rw [pcAt_goto]
  split
  · next hab => rw [hf, hab.1]
  · rw [hpc]

theorem pcf_setAct_same {β : Type} (f : Pc → β) {s X : State} {a : Nat} {v : Act} (hpc : ∀ b, X.pcAt b = s.pcAt b) (hf : f v.pc = f (s.pcAt a)) :
    ∀ b, f ((X.setAct a v).pcAt b) = f (s.pcAt b) := by
  intro b
  rw [pcAt_setAct]
  split
  · next hab => rw [hf, hab.1]
  · rw [hpc]

theorem pcf_goto {β : Type} (f : Pc → β) {s X : State} {a : Nat} {pc' : Pc} (hlt : a < X.acts.length) (hpc : ∀ b, X.pcAt b = s.pcAt b) :
    ∀ b, f ((X.goto a pc').pcAt b) = if b = a then f pc' else f (s.pcAt b) := by
  intro b
  rw [pcAt_goto]
  by_cases hab : a = b
  · subst hab; simp [hlt]
  · have : ¬ b = a := fun e => hab e.symm
    simp [hab, this, hpc]

/-- A step of activity `a` that creates no erased job, resets no done flag, keeps the ready flags, and after which `a`
waits for the same erased job as before (and has not become fresh again). -/
theorem ErasedInv.frame {s X : State} {a : Nat} {pc' : Pc} (h : ErasedInv s)
    (hpc : ∀ b, X.pcAt b = s.pcAt b) (hk : ∀ i, X.jobK i = s.jobK i) (hd : ∀ i, s.jobD i = true → X.jobD i = true)
    (hr : ∀ b, X.isReady b = s.isReady b) (hlen : X.acts.length = s.acts.length)
    (hA : pc'.awaited = (s.pcAt a).awaited) (hF : pc'.fresh = (s.pcAt a).fresh ∨ pc'.fresh = false) : ErasedInv (X.goto a pc') := by
  have h1 : ErasedInvF s.jobK X.jobD (fun b => ((X.goto a pc').pcAt b).awaited) (fun b => ((X.goto a pc').pcAt b).fresh) s.isReady s.acts.length := by
    refine ErasedInvF.frame (a := a) h hd (pcf_goto_same Pc.awaited hpc hA) ?_
    intro b hb
    rw [pcAt_goto] at hb
    split at hb
    · next hab =>
      rcases hF with e | e
      · rw [e, hab.1] at hb; exact hb
      · rw [e] at hb; cases hb
    · rw [hpc] at hb; exact hb
  exact ErasedInvF.congr h1 (fun i => by rw [jobK_goto, hk]) (fun i => by rw [jobD_goto]) (fun _ => rfl) (fun _ => rfl) (fun i => by rw [isReady_goto, hr]) (by rw [acts_length_goto, hlen])

theorem ErasedInv.frame_setAct {s X : State} {a : Nat} {v : Act} (h : ErasedInv s)
    (hpc : ∀ b, X.pcAt b = s.pcAt b) (hk : ∀ i, X.jobK i = s.jobK i) (hd : ∀ i, s.jobD i = true → X.jobD i = true)
    (hr : ∀ b, X.isReady b = s.isReady b) (hlen : X.acts.length = s.acts.length)
    (hA : v.pc.awaited = (s.pcAt a).awaited) (hF : v.pc.fresh = (s.pcAt a).fresh ∨ v.pc.fresh = false) : ErasedInv (X.setAct a v) := by
  have h1 : ErasedInvF s.jobK X.jobD (fun b => ((X.setAct a v).pcAt b).awaited) (fun b => ((X.setAct a v).pcAt b).fresh) s.isReady s.acts.length := by
    refine ErasedInvF.frame (a := a) h hd (pcf_setAct_same Pc.awaited hpc hA) ?_
    intro b hb
    rw [pcAt_setAct] at hb
    split at hb
    · next hab =>
      rcases hF with e | e
      · rw [e, hab.1] at hb; exact hb
      · rw [e] at hb; cases hb
    · rw [hpc] at hb; exact hb
  exact ErasedInvF.congr h1 (fun i => by rw [jobK_setAct, hk]) (fun i => by rw [jobD_setAct]) (fun _ => rfl) (fun _ => rfl) (fun i => by rw [isReady_setAct, hr])
    (by simp [State.setAct, hlen])

/-- the invariant reads only `acts`, `jobs` and `ready` -/
theorem ErasedInv.congr {X Y : State} (h : ErasedInv Y) (hA : X.acts = Y.acts) (hJ : X.jobs = Y.jobs) (hR : X.ready = Y.ready) : ErasedInv X := by
  refine ErasedInvF.congr h ?_ ?_ ?_ ?_ ?_ (by rw [hA])
  · intro i; simp only [State.jobK, hJ]
  · intro i; simp only [State.jobD, hJ]
  · intro i; simp only [State.pcAt, hA]
  · intro i; simp only [State.pcAt, hA]
  · intro i; simp only [State.isReady, hR]

end Desync

namespace Desync
open Gen

theorem ErasedInv.exit {s : State} {a : Nat} {pc' : Pc} (h : ErasedInv s) (hlt : a < s.acts.length)
    (hall : ∀ j bg, s.jobK j = some (a, bg) → s.jobD j = true)
    (hF : pc'.fresh = (s.pcAt a).fresh ∨ pc'.fresh = false) : ErasedInv (s.goto a pc') := by
  have h1 : ErasedInvF s.jobK s.jobD (fun b => ((s.goto a pc').pcAt b).awaited) (fun b => (s.pcAt b).fresh) s.isReady s.acts.length := by
    refine ErasedInvF.exit (a := a) h hall ?_
    intro b hb
    rw [pcAt_goto]
    have : ¬ (a = b ∧ a < s.acts.length) := fun e => hb e.1.symm
    simp [this]
  have h2 : ErasedInvF s.jobK s.jobD (fun b => ((s.goto a pc').pcAt b).awaited) (fun b => ((s.goto a pc').pcAt b).fresh) s.isReady s.acts.length := by
    refine ErasedInvF.frame (a := a) h1 (fun _ hd => hd) (fun _ => rfl) ?_
    intro b hb
    rw [pcAt_goto] at hb
    split at hb
    · next hab =>
      rcases hF with e | e
      · rw [e, hab.1] at hb; exact hb
      · rw [e] at hb; cases hb
    · exact hb
  exact ErasedInvF.congr h2 (fun i => by rw [jobK_goto]) (fun i => by rw [jobD_goto]) (fun _ => rfl) (fun _ => rfl) (fun i => by rw [isReady_goto]) (by rw [acts_length_goto])

theorem ErasedInv.push {s X : State} {a : Nat} {bg : Bool} {pc' : Pc} (h : ErasedInv s) (hlt : a < s.acts.length) (hlen : X.acts.length = s.acts.length)
    (hpc : ∀ b, X.pcAt b = s.pcAt b) (hfresh : (s.pcAt a).fresh = true)
    (hk : ∀ i, X.jobK i = if i = s.jobs.length then some (a, bg) else s.jobK i)
    (hd : ∀ i, X.jobD i = if i = s.jobs.length then false else s.jobD i)
    (hr : ∀ b, X.isReady b = s.isReady b)
    (hA : pc'.awaited = some s.jobs.length) (hF : pc'.fresh = false) : ErasedInv (X.goto a pc') := by
  have hlt' : a < X.acts.length := by rw [hlen]; exact hlt
  have h1 : ErasedInvF X.jobK X.jobD (fun b => ((X.goto a pc').pcAt b).awaited) (fun b => ((X.goto a pc').pcAt b).fresh) s.isReady s.acts.length :=
    ErasedInvF.push (a := a) (n := s.jobs.length) (bg := bg) h hfresh hlt (jobK_fresh s) hk hd
      (by intro b; rw [pcf_goto Pc.awaited hlt' hpc, hA]) (by intro b; rw [pcf_goto Pc.fresh hlt' hpc, hF])
  exact ErasedInvF.congr h1 (fun i => by rw [jobK_goto]) (fun i => by rw [jobD_goto]) (fun _ => rfl) (fun _ => rfl) (fun i => by rw [isReady_goto, hr]) (by rw [acts_length_goto, hlen])

theorem ErasedInv.dropBg {s X : State} {a j0 o0 : Nat} {pc' : Pc} (h : ErasedInv s) (hlen : X.acts.length = s.acts.length)
    (hpc : ∀ b, X.pcAt b = s.pcAt b) (hk0 : s.jobK j0 = some (o0, true)) (hnd : s.jobD j0 = false)
    (hk : ∀ i, X.jobK i = s.jobK i)
    (hd : ∀ i, X.jobD i = if i = j0 then true else s.jobD i)
    (hr : ∀ b, X.isReady b = if b = o0 then true else s.isReady b)
    (hA : pc'.awaited = (s.pcAt a).awaited) (hF : pc'.fresh = (s.pcAt a).fresh ∨ pc'.fresh = false) : ErasedInv (X.goto a pc') := by
  have h1 : ErasedInvF s.jobK X.jobD (fun b => (s.pcAt b).awaited) (fun b => (s.pcAt b).fresh) X.isReady s.acts.length :=
    ErasedInvF.dropBg h hk0 hnd hd hr
  have h2 : ErasedInvF s.jobK X.jobD (fun b => ((X.goto a pc').pcAt b).awaited) (fun b => ((X.goto a pc').pcAt b).fresh) X.isReady s.acts.length := by
    refine ErasedInvF.frame (a := a) h1 (fun _ hd => hd) (pcf_goto_same Pc.awaited hpc hA) ?_
    intro b hb
    rw [pcAt_goto] at hb
    split at hb
    · next hab =>
      rcases hF with e | e
      · rw [e, hab.1] at hb; exact hb
      · rw [e] at hb; cases hb
    · rw [hpc] at hb; exact hb
  exact ErasedInvF.congr h2 (fun i => by rw [jobK_goto, hk]) (fun i => by rw [jobD_goto]) (fun _ => rfl) (fun _ => rfl) (fun i => by rw [isReady_goto]) (by rw [acts_length_goto, hlen])

/-- a new activity is appended -/
theorem ErasedInv.append_act {s X : State} {n : Act} (h : ErasedInv s) (hA : X.acts = s.acts ++ [n]) (hJ : X.jobs = s.jobs) (hR : X.ready = s.ready) : ErasedInv X := by
  have hpc : ∀ b, b ≠ s.acts.length → X.pcAt b = s.pcAt b := by
    intro b hb
    simp only [State.pcAt, hA]
    by_cases hlt : b < s.acts.length
    · rw [List.getElem?_append_left hlt]
    · have h1 : (s.acts ++ [n])[b]? = none := by simp; omega
      have h2 : s.acts[b]? = none := by simp; omega
      rw [h1, h2]
  have h1 : ErasedInvF s.jobK s.jobD (fun b => (X.pcAt b).awaited) (fun b => (X.pcAt b).fresh) s.isReady (s.acts.length + 1) :=
    ErasedInvF.newAct h (fun b hb => by rw [hpc b hb]) (fun b hb => by rw [hpc b hb])
  exact ErasedInvF.congr h1 (fun i => by simp only [State.jobK, hJ]) (fun i => by simp only [State.jobD, hJ]) (fun _ => rfl) (fun _ => rfl)
    (fun i => by simp only [State.isReady, hR]) (by rw [hA]; simp)

end Desync
