/-
The waker a suspended operation has registered with the event it awaits belongs to the operation's *own* queue (C06).

When a future job returns `Pending`, the poll has registered the context's waker with the awaited event (`Job.reg`): the queue's
`WakeQueue` waker on a pool thread, the caller's `WakeThread` waker inside `sync`, the `DrainWaker` latch in a polling task.  As
an invariant of every reachable state: a registered queue waker or thread waker names the queue the job was scheduled on — so
the wake-up of a suspended operation can only ever land on its own queue, never on another object's.  (Where a latch's wake-up
goes is `ShapeInv`.)
-/
import DesyncModel.Inv.ShapeReach
import DesyncModel.Inv.JobMono
import DesyncModel.Inv.JobReach

namespace Desync
open Gen

/-- a waker that may be registered for a job of queue `q` -/
def Waker.forQ (q : Nat) : Waker → Bool
  | .queue q' => q' == q
  | .thread q' _ => q' == q
  | .latch _ => true
  | _ => false

def RegInv (s : State) : Prop :=
  ∀ (j : Nat) (jb : Job) (w : Waker), s.jobs[j]? = some jb → jb.reg = some w → w.forQ jb.q = true

/-- two-state: every job of `X` has no registration, or is a job of `s` with the same queue and the same registration -/
def RegMono (s X : State) : Prop :=
  ∀ (j : Nat) (jb' : Job), X.jobs[j]? = some jb' → jb'.reg = none ∨ ∃ jb, s.jobs[j]? = some jb ∧ jb'.q = jb.q ∧ jb'.reg = jb.reg

theorem RegInv.mono {s X : State} (h : RegInv s) (hm : RegMono s X) : RegInv X := by
  intro j jb' w hj hr
  rcases hm j jb' hj with h1 | ⟨jb, h1, h2, h3⟩
  · rw [h1] at hr; cases hr
  · rw [h2]; exact h j jb w h1 (by rw [← h3]; exact hr)

theorem RegInv.same {s X : State} (h : RegInv s) (hj : X.jobs = s.jobs) : RegInv X := by
  intro j jb w hjb; rw [hj] at hjb; exact h j jb w hjb

theorem RegMono.refl (s : State) : RegMono s s := fun _ jb h => Or.inr ⟨jb, h, rfl, rfl⟩
theorem RegMono.same {s X : State} (h : X.jobs = s.jobs) : RegMono s X := fun j jb hj => Or.inr ⟨jb, by rw [← h]; exact hj, rfl, rfl⟩
theorem RegMono.upd {s X Y : State} (h : RegMono s X) (hy : Y.jobs = X.jobs) : RegMono s Y := by
  intro j jb hj; rw [hy] at hj; exact h j jb hj
theorem RegMono.trans {s X Y : State} (h1 : RegMono s X) (h2 : RegMono X Y) : RegMono s Y := by
  intro j jb hj
  rcases h2 j jb hj with a | ⟨jb1, a1, a2, a3⟩
  · exact Or.inl a
  · rcases h1 j jb1 a1 with b | ⟨jb0, b1, b2, b3⟩
    · exact Or.inl (by rw [a3]; exact b)
    · exact Or.inr ⟨jb0, b1, a2.trans b2, a3.trans b3⟩

theorem RegMono.setJob {s : State} {j : Nat} {b v : Job} (hb : s.jobs[j]? = some b) (hq : v.q = b.q)
    (hr : v.reg = b.reg ∨ v.reg = none) : RegMono s (s.setJob j v) := by
  intro j' jb hj
  have hlt : j < s.jobs.length := (List.getElem?_eq_some_iff.mp hb).1
  simp only [State.setJob, List.getElem?_set] at hj
  by_cases e : j = j'
  · subst e
    simp [hlt] at hj
    subst hj
    rcases hr with h1 | h1
    · exact Or.inr ⟨b, hb, hq, h1⟩
    · exact Or.inl h1
  · simp [e] at hj
    exact Or.inr ⟨jb, hj, rfl, rfl⟩

theorem RegMono.setJobPh (s : State) (j : Nat) (ph : Phase) : RegMono s (s.setJobPh j ph) := by
  unfold State.setJobPh
  split
  · next v hv => exact RegMono.setJob (v := { v with ph := ph }) hv rfl (Or.inl rfl)
  · exact RegMono.refl s

theorem RegMono.append {s X : State} {l : List Job} (hX : X.jobs = s.jobs ++ l) (hl : ∀ x ∈ l, x.reg = none) : RegMono s X := by
  intro j jb hj
  rw [hX] at hj
  by_cases hlt : j < s.jobs.length
  · rw [List.getElem?_append_left hlt] at hj
    exact Or.inr ⟨jb, hj, rfl, rfl⟩
  · rw [List.getElem?_append_right (by omega)] at hj
    exact Or.inl (hl jb (List.mem_of_getElem? hj))

theorem RegMono.dequeue (s : State) (q a : Nat) : RegMono s (s.dequeue q a).1 := by
  cases hd : (s.dequeue q a).2 with
  | none => rw [Desync.dequeue_none hd]; exact RegMono.refl s
  | some j =>
    obtain ⟨v, rest, hv, hjobs, hX⟩ := dequeue_some hd
    rw [hX]
    exact RegMono.trans (RegMono.same (X := s.setQ q { v with jobs := rest }) rfl) (RegMono.setJobPh _ j _)

theorem RegMono.goto_of {s Y : State} {a : Nat} {pc : Pc} (h : RegMono s Y) : RegMono s (Y.goto a pc) := RegMono.upd h (by simp)
theorem RegMono.setAct_of {s Y : State} {a : Nat} {v : Act} (h : RegMono s Y) : RegMono s (Y.setAct a v) := RegMono.upd h (by simp)
theorem RegMono.setHolder_of {s Y : State} {q : Nat} {x : Option Nat} (h : RegMono s Y) : RegMono s (Y.setHolder q x) := RegMono.upd h (by simp)
theorem RegMono.setQState_of {s Y : State} {q : Nat} {st : QState} (h : RegMono s Y) : RegMono s (Y.setQState q st) := RegMono.upd h (by simp)
theorem RegMono.setQ_of {s Y : State} {q : Nat} {v : JobQ} (h : RegMono s Y) : RegMono s (Y.setQ q v) := RegMono.upd h (by simp)
theorem RegMono.pushBack_of {s Y : State} {q j : Nat} (h : RegMono s Y) : RegMono s (Y.pushBack q j) := RegMono.upd h (by simp)

theorem RegMono.setJob_upd {s Z : State} {j : Nat} {b v : Job} (hZ : Z.jobs = (s.setJob j v).jobs) (hb : s.jobs[j]? = some b) (hq : v.q = b.q)
    (hr : v.reg = b.reg ∨ v.reg = none) : RegMono s Z :=
  RegMono.upd (RegMono.setJob hb hq hr) hZ

theorem RegMono.append_upd {s Z : State} {l : List Job} (hZ : Z.jobs = s.jobs ++ l) (hl : ∀ x ∈ l, x.reg = none) : RegMono s Z := RegMono.append hZ hl

set_option hygiene false in
macro "rm_side" : tactic => `(tactic| first | rfl | assumption | (exact Or.inl rfl) | (exact Or.inr rfl) | (simp; done))

set_option hygiene false in
macro "rm_shape" : tactic => `(tactic| first
  | exact RegMono.refl _
  | (refine RegMono.same ?_; first | rfl | (simp; done))
  | (apply RegMono.setJob_upd <;> rm_side)
  | (apply RegMono.append_upd <;> rm_side)
  | (apply RegMono.setQ_of; apply RegMono.append_upd <;> rm_side)
  | (apply RegMono.pushBack_of; apply RegMono.append_upd <;> rm_side)
  | (apply RegMono.setHolder_of; apply RegMono.append_upd <;> rm_side)
  | (exact RegMono.trans (RegMono.same (by simp)) (RegMono.setJobPh _ _ _))
  | exact RegMono.setJobPh _ _ _
  | exact RegMono.dequeue _ _ _
  | (refine RegMono.upd (RegMono.setJobPh _ _ _) ?_; first | rfl | (simp; done))
  | (refine RegMono.upd (RegMono.dequeue _ _ _) ?_; first | rfl | (simp; done)))

theorem forQ_ctxWaker (t : Nat) (c : Ctx) : (ctxWaker t c).forQ c.q = true := by
  cases c <;> simp [ctxWaker, Waker.forQ, Ctx.q]

/-- the poll that registers a waker: it is the context's own waker, and the context works for the job's queue (`FullInv.run1`) -/
theorem rg_jobAwait {s s' : State} {a : Nat} {o : Obs} (h : RegInv s) (hf : FullInv s)
    (act : Act) (ha : s.acts[a]? = some act) (hc : act.child = none) (j : Nat) (c : Ctx) (k : Pc)
    (hpc : act.pc = .jobAwait j c k) (hs : stepAct s a = some (s', o)) : RegInv s' := by
  have hrun : (s.pcAt a).runningQ = some (j, c.q) := by rw [pcAt_of ha, hpc]; rfl
  have hpq := hf.run1 a j c.q hrun
  wk_open
  split at hs
  · simp at hs
  · next jb hjb =>
    have hq : jb.q = c.q := by
      rw [jobPQ_of hjb] at hpq
      simp only [Option.some.injEq, Prod.mk.injEq] at hpq
      exact hpq.2
    try dsimp only at hs
    repeat' split at hs
    all_goals (try (simp at hs; done))
    all_goals (simp only [Option.some.injEq, Prod.mk.injEq] at hs; obtain ⟨rfl, _⟩ := hs)
    all_goals (first
      | (refine RegInv.mono h ?_
         first
           | (apply RegMono.goto_of; rm_shape)
           | rm_shape)
      | (-- the registering branch
         intro j' jb' w hj' hr'
         simp only [jobs_goto, State.setJob, List.getElem?_set] at hj'
         by_cases e : j = j'
         · subst e
           have hlt : j < s.jobs.length := lt_of_getElem?_some hjb
           simp [hlt] at hj'
           subst hj'
           simp only [Option.some.injEq] at hr'
           subst hr'
           show (ctxWaker act.thread c).forQ jb.q = true
           rw [hq]; exact forQ_ctxWaker _ c
         · simp [e] at hj'
           exact h j' jb' w hj' hr'))

set_option maxHeartbeats 4000000 in
set_option maxRecDepth 8000 in
theorem regInv_stepAct {s s' : State} {a : Nat} {o : Obs} (h : RegInv s) (hf : FullInv s) (hs : stepAct s a = some (s', o)) : RegInv s' := by
  have hs0 := hs
  unfold stepAct at hs
  split at hs
  · simp at hs
  next act ha =>
  split at hs
  · simp at hs
  next hchild =>
  have hc : act.child = none := by
    cases hcc : act.child <;> simp_all
  split at hs
  all_goals (try (simp at hs; done))
  all_goals (try (exact rg_jobAwait h hf act ha hc _ _ _ (by assumption) hs0))
  all_goals (try dsimp only at hs)
  all_goals (repeat' split at hs)
  all_goals (try (simp at hs; done))
  all_goals (try (simp only [Option.some.injEq, Prod.mk.injEq] at hs; obtain ⟨rfl, _⟩ := hs))
  all_goals (refine RegInv.mono h ?_)
  all_goals (first
      | rm_shape
      | (apply RegMono.goto_of; rm_shape)
      | (apply RegMono.setAct_of; rm_shape)
      | (apply RegMono.goto_of; apply RegMono.setHolder_of; rm_shape)
      | (apply RegMono.goto_of; apply RegMono.setHolder_of; apply RegMono.setQState_of; rm_shape)
      | skip)

/-! ### environment steps and reachability -/

theorem jobs_addAct (s0 : State) (t : Nat) (parent : Option Nat) (pc : Pc) (once : Bool) : (addAct s0 t parent pc once).1.jobs = s0.jobs := by
  unfold addAct
  cases parent with
  | none => rfl
  | some p => simp only; split <;> rfl

theorem jobs_invoke {s s' : State} {t a : Nat} {parent : Option Nat} {c : Call} (hs : invoke s t parent c = some (s', a)) : s'.jobs = s.jobs := by
  unfold invoke at hs
  cases c <;> simp only at hs
  all_goals (repeat' split at hs)
  all_goals (try (simp at hs; done))
  all_goals (
    have hs' := congrArg Prod.fst (Option.some.inj hs)
    simp only at hs'
    subst hs'
    rw [jobs_addAct]
    try (first | rfl | (split <;> (try split) <;> rfl)))

theorem jobs_retStep {s s' : State} {a r : Nat} (hs : retStep s a = some (s', r)) : s'.jobs = s.jobs := by
  unfold retStep at hs
  split at hs
  · split at hs
    · obtain ⟨rfl, _⟩ := Prod.mk.inj (Option.some.inj hs)
      split
      · split <;> rfl
      · rfl
    · simp at hs
  · simp at hs

/-- **A registered waker names the job's own queue, in every reachable state.** -/
theorem regInv_reachable {s : State} (hr : Reachable s) : RegInv s := by
  induction hr with
  | init nq ng max => intro j jb w hj; simp [initState] at hj
  | initP ps ng max => intro j jb w hj; simp [initStateP, initState] at hj
  | step l hprev hstep ih =>
    cases l with
    | act a =>
      simp only [next, Option.map_eq_some_iff] at hstep
      obtain ⟨⟨s1, o⟩, hs, rfl⟩ := hstep
      exact regInv_stepAct ih (fullInv_reachable hprev).2 hs
    | invoke t parent c =>
      simp only [next] at hstep
      split at hstep
      · simp only [Option.map_eq_some_iff] at hstep
        obtain ⟨⟨s1, a⟩, hs, rfl⟩ := hstep
        exact ih.same (jobs_invoke hs)
      · simp at hstep
    | bodyEnd a =>
      simp only [next, Option.map_eq_some_iff] at hstep
      obtain ⟨⟨s1, o⟩, hs, rfl⟩ := hstep
      unfold bodyEnd at hs
      repeat' split at hs
      all_goals (try (simp at hs; done))
      all_goals (obtain ⟨rfl, _⟩ := Prod.mk.inj (Option.some.inj hs); exact ih.same (by simp))
    | ret a =>
      simp only [next, Option.map_eq_some_iff] at hstep
      obtain ⟨⟨s1, r⟩, hs, rfl⟩ := hstep
      exact ih.same (jobs_retStep hs)
    | spuriousUnpark a =>
      simp only [next, Option.map_eq_some_iff] at hstep
      obtain ⟨⟨s1, o⟩, hs, rfl⟩ := hstep
      unfold spuriousUnpark at hs
      repeat' split at hs
      all_goals (try (simp at hs; done))
      all_goals (obtain ⟨rfl, _⟩ := Prod.mk.inj (Option.some.inj hs); exact ih.same (by simp))
    | spuriousPoll a =>
      simp only [next] at hstep
      unfold spuriousPoll at hstep
      repeat' split at hstep
      all_goals (try (simp at hstep; done))
      all_goals (cases (Option.some.inj hstep); exact ih.same (by simp))

end Desync
