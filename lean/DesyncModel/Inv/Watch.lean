/-
Pool invariants, proved about the abstract pool step `PStep`: who holds the threads-vector lock and the busy flags, which activity
is which pool thread, and I_watch — a queue on the schedule is never left without somebody who will look at the schedule:
a busy pool thread that has not yet decided to go to sleep, or a `schedule_thread` call that is still under way and has found
every thread it looked at so far in that condition.
-/
import DesyncModel.Inv.PoolAbs

namespace Desync
open Gen

theorem cls_poolOf (pc : Pc) (p : Nat) (ph : PtPh) (h : pc.cls = .pt p ph) : pc.poolOf = some p := by
  fun_induction Pc.cls pc <;> simp_all [Pc.poolOf]

theorem poolOf_cls (pc : Pc) (p : Nat) (h : pc.poolOf = some p) : (∃ ph, pc.cls = .pt p ph) ∨ (∃ ph, pc.cls = .st ph) := by
  fun_induction Pc.cls pc <;> simp_all [Pc.poolOf]

/-- the activity holds the lock of the threads vector -/
def PCls.tlHeld : PCls → Bool
  | .st (.scan _) | .st (.scanHeld _) | .st (.scanRel _ _) | .st (.scanUnlock _) | .st .spawnRel | .dpHang _ _ => true
  | _ => false

/-- the scan holds the busy flag of the thread at this index of the vector -/
def PCls.scanIdx : PCls → Option Nat
  | .st (.scanHeld i) | .st (.scanRel i _) => some i
  | _ => none

/-- the pool thread holds its own busy flag -/
def PCls.ownBL : PCls → Option Nat
  | .pt p .lockSched | .pt p .pop | .pt p (.unlockSched _) | .pt p (.unlockBusy _) => some p
  | _ => none

/-- the pool thread waits for a message -/
def PCls.rest : PCls → Bool
  | .pt _ .recv | .pt _ .recvd => true
  | _ => false

/-- the pool thread found the schedule empty and is about to clear its busy flag -/
def PCls.gave : PCls → Bool
  | .pt _ (.unlockBusy none) | .pt _ (.unlockSched none) => true
  | _ => false

def PCls.nzOk : PCls → Bool
  | .smSet n => decide (1 ≤ n)
  | .st (.spawn m) => decide (1 ≤ m)
  | _ => true

theorem PCls.plain_cases (c : PCls) (h : c.plain = true) : c = .neutral ∨ ∃ p, c = .pt p .work := by
  cases c with
  | neutral => exact Or.inl rfl
  | pt p ph => cases ph <;> simp_all [PCls.plain]
  | _ => simp_all [PCls.plain]

set_option hygiene false in
/-- split on what a plain class is (after a return to a continuation, or before a push) -/
macro "w_plain" : tactic => `(tactic| first
  | (rcases PCls.plain_cases _ ‹(X.cl a).plain = true› with h1 | ⟨p1, h1⟩)
  | (rcases PCls.plain_cases _ ‹(s.cl a).plain = true› with h1 | ⟨p1, h1⟩))

theorem tl_step {s X : State} {a : Nat}
    (hoth : ∀ b, b ≠ a → X.cl b = s.cl b ∨ (X.cl b).tlHeld = false)
    (hcase : (X.threadsLock = s.threadsLock ∧ ((X.cl a).tlHeld = true → (s.cl a).tlHeld = true)) ∨ (s.threadsLock = none ∧ X.threadsLock = some a)
             ∨ ((s.cl a).tlHeld = true ∧ (X.cl a).tlHeld = false))
    (h : ∀ b, (s.cl b).tlHeld = true → s.threadsLock = some b) : ∀ b, (X.cl b).tlHeld = true → X.threadsLock = some b := by
  intro b hb
  by_cases hba : b = a
  · subst hba
    rcases hcase with ⟨h1, h2⟩ | ⟨_, h2⟩ | ⟨_, h2⟩
    · rw [h1]; exact h b (h2 hb)
    · exact h2
    · rw [h2] at hb; cases hb
  · have hcl : X.cl b = s.cl b := by
      rcases hoth b hba with h1 | h1
      · exact h1
      · rw [h1] at hb; cases hb
    rw [hcl] at hb
    have hsb := h b hb
    rcases hcase with ⟨h1, _⟩ | ⟨h1, _⟩ | ⟨h1, _⟩
    · rw [h1]; exact hsb
    · rw [h1] at hsb; cases hsb
    · have := h a h1
      rw [hsb] at this
      exact absurd (Option.some.inj this) hba

theorem Base.cl {s X : State} {a : Nat} (hb : Base s a X) : ∀ b, b ≠ a → X.cl b = s.cl b := fun b h => by
  simp only [State.cl, hb.oth b h]
theorem Base.po' {s X : State} {a : Nat} (hb : Base s a X) : ∀ b, b ≠ a → X.po b = s.po b := fun b h => by
  simp only [State.po, hb.oth b h]

def TlInv (s : State) : Prop := ∀ b, (s.cl b).tlHeld = true → s.threadsLock = some b

set_option hygiene false in
macro "w_oth" : tactic => `(tactic| first
  | (intro b hba; exact Or.inl ((‹Base s a X›).cl b hba))
  | (intro b hba
     by_cases hbl : b = s.acts.length
     · subst hbl; right; simp [State.cl, ‹X.pcAt s.acts.length = _›, Pc.cls, PCls.tlHeld, PCls.scanIdx, PCls.ownBL, PCls.nzOk]
     · left; simp only [State.cl, (‹∀ b, b ≠ a → b ≠ s.acts.length → X.pcAt b = s.pcAt b›) b hba hbl])
  | (intro b hba; left; simp only [State.cl, (‹∀ b, b ≠ a → X.pcAt b = s.pcAt b›) b hba]))

theorem tl_pstep {s X : State} {a : Nat} (h : TlInv s) (hp : PStep s a X) : TlInv X := by
  cases hp
  all_goals (refine tl_step (a := a) ?_ ?_ h)
  all_goals (first | w_oth | skip)
  all_goals (first | (simp_all [PoolIs, PoolSame, PCls.tlHeld, PCls.plain]; done) | (w_plain <;> simp_all [PoolIs, PoolSame, PCls.tlHeld, PCls.plain]; done) | skip)

/-! ### which activity is which pool thread -/

structure PoInv (s : State) : Prop where
  uniq : ∀ a b p, s.po a = some p → s.po b = some p → a = b
  bound : ∀ a p, s.po a = some p → p < s.pthreads.length

theorem po_step {s X : State} {a : Nat} (hoth : ∀ b, b ≠ a → X.po b = s.po b) (ha : X.po a = s.po a ∨ X.po a = none)
    (hlen : s.pthreads.length ≤ X.pthreads.length) (h : PoInv s) : PoInv X := by
  have key : ∀ b p, X.po b = some p → s.po b = some p := by
    intro b p hb
    by_cases hba : b = a
    · subst hba
      rcases ha with h1 | h1
      · rw [← h1]; exact hb
      · rw [h1] at hb; cases hb
    · rw [← hoth b hba]; exact hb
  exact ⟨fun b c p hb hc => h.uniq b c p (key b p hb) (key c p hc), fun b p hb => Nat.lt_of_lt_of_le (h.bound b p (key b p hb)) hlen⟩

theorem po_spawn {s X : State} {a : Nat} (hoth : ∀ b, b ≠ a → b ≠ s.acts.length → X.po b = s.po b) (ha : X.po a = s.po a) (hal : a < s.acts.length)
    (hn : X.po s.acts.length = some s.pthreads.length) (hlen : X.pthreads.length = s.pthreads.length + 1) (h : PoInv s) : PoInv X := by
  have hsn : s.po s.acts.length = none := by simp [State.po, State.pcAt, Pc.poolOf]
  have key : ∀ b p, X.po b = some p → (b ≠ s.acts.length ∧ s.po b = some p) ∨ (b = s.acts.length ∧ p = s.pthreads.length) := by
    intro b p hb
    by_cases hbn : b = s.acts.length
    · subst hbn
      rw [hn] at hb
      exact Or.inr ⟨rfl, (Option.some.inj hb).symm⟩
    · left
      refine ⟨hbn, ?_⟩
      by_cases hba : b = a
      · subst hba; rw [← ha]; exact hb
      · rw [← hoth b hba hbn]; exact hb
  constructor
  · intro b c p hb hc
    rcases key b p hb with ⟨_, h1⟩ | ⟨h1, h2⟩ <;> rcases key c p hc with ⟨_, h3⟩ | ⟨h3, h4⟩
    · exact h.uniq b c p h1 h3
    · have := h.bound b p h1; omega
    · have := h.bound c p h3; omega
    · rw [h1, h3]
  · intro b p hb
    rcases key b p hb with ⟨_, h1⟩ | ⟨_, h2⟩
    · have := h.bound b p h1; omega
    · omega

set_option hygiene false in
macro "w_po_oth" : tactic => `(tactic| first
  | exact (‹Base s a X›).po'
  | (intro b hba; simp only [State.po, (‹∀ b, b ≠ a → X.pcAt b = s.pcAt b›) b hba]))

theorem po_pstep {s X : State} {a : Nat} (h : PoInv s) (hp : PStep s a X) : PoInv X := by
  cases hp
  case spawnYes m hc hl hlt hoth hnew hpo ha hX hc' =>
    refine po_spawn (a := a) ?_ hpo ha ?_ ?_ h
    · intro b hba hbl; simp only [State.po, hoth b hba hbl]
    · simp [State.po, hnew, Pc.poolOf]
    · rw [hX.1]; simp
  all_goals (refine po_step (a := a) (by w_po_oth) ?_ ?_ h)
  all_goals (first | exact Or.inl (‹Base s a X›).po | exact Or.inr ‹X.po a = none› | skip)
  all_goals (first | (simp_all [PoolIs, PoolSame]; done) | skip)

/-! ### who holds a busy flag -/

/-- the holder of the busy flag of thread `p` -/
def State.bl (s : State) (p : Nat) : Option Nat := (s.pthreads[p]?).bind (·.busyLock)

/-- activity `b` is at a point of the code where it holds the busy flag of thread `p` -/
def holdsBusy (s : State) (b p : Nat) : Prop :=
  (∃ i, (s.cl b).scanIdx = some i ∧ s.threadsVec[i]? = some p) ∨ (s.cl b).ownBL = some p

structure BlInv (s : State) : Prop where
  idx : ∀ b i, (s.cl b).scanIdx = some i → ∃ p, s.threadsVec[i]? = some p
  own : ∀ b p, holdsBusy s b p → s.bl p = some b

theorem bl_of_set {s X : State} {p0 : Nat} {pt0 v : PThr} (hX : X.pthreads = s.pthreads.set p0 v) (h0 : s.pthreads[p0]? = some pt0) :
    X.bl p0 = v.busyLock ∧ ∀ p, p ≠ p0 → X.bl p = s.bl p := by
  have hlt : p0 < s.pthreads.length := lt_of_getElem?_some h0
  constructor
  · simp [State.bl, hX, List.getElem?_set, hlt]
  · intro p hp
    simp [State.bl, hX, List.getElem?_set, Ne.symm hp]

theorem bl_of_set_same {s X : State} {p0 : Nat} {pt0 v : PThr} (hX : X.pthreads = s.pthreads.set p0 v) (h0 : s.pthreads[p0]? = some pt0)
    (hv : v.busyLock = pt0.busyLock) : ∀ p, X.bl p = s.bl p := by
  intro p
  by_cases hp : p = p0
  · subst hp
    rw [(bl_of_set hX h0).1, hv]
    simp [State.bl, h0]
  · exact (bl_of_set hX h0).2 p hp

/-- the vector is unchanged, or nobody but the mover is in a scan -/
def VecOk (s X : State) (a : Nat) : Prop := X.threadsVec = s.threadsVec ∨ ∀ b, b ≠ a → (s.cl b).scanIdx = none

theorem holdsBusy_oth {s X : State} {a b p : Nat} (hba : b ≠ a) (hcl : X.cl b = s.cl b) (hvec : VecOk s X a) (h : holdsBusy X b p) : holdsBusy s b p := by
  rcases h with ⟨i, h1, h2⟩ | h1
  · rw [hcl] at h1
    rcases hvec with hv | hv
    · exact Or.inl ⟨i, h1, by rw [← hv]; exact h2⟩
    · rw [hv b hba] at h1; cases h1
  · exact Or.inr (by rw [← hcl]; exact h1)

/-- no flag changes hands; the mover holds what it held -/
theorem bl_keep {s X : State} {a : Nat} (hoth : ∀ b, b ≠ a → X.cl b = s.cl b ∨ ((X.cl b).scanIdx = none ∧ (X.cl b).ownBL = none)) (hvec : VecOk s X a)
    (hbl : ∀ p, p < s.pthreads.length → X.bl p = s.bl p)
    (hidx : ∀ i, (X.cl a).scanIdx = some i → ∃ p, X.threadsVec[i]? = some p)
    (hmine : ∀ p, holdsBusy X a p → holdsBusy s a p) (h : BlInv s) : BlInv X := by
  have hlt : ∀ b p, s.bl p = some b → p < s.pthreads.length := by
    intro b p hb
    simp only [State.bl] at hb
    cases hp : s.pthreads[p]? with
    | none => rw [hp] at hb; cases hb
    | some v => exact lt_of_getElem?_some hp
  constructor
  · intro b i hb
    by_cases hba : b = a
    · subst hba; exact hidx i hb
    · rcases hoth b hba with h1 | ⟨h1, _⟩
      · rw [h1] at hb
        rcases hvec with hv | hv
        · rw [hv]; exact h.idx b i hb
        · rw [hv b hba] at hb; cases hb
      · rw [h1] at hb; cases hb
  · intro b p hb
    have hs : holdsBusy s b p := by
      by_cases hba : b = a
      · subst hba; exact hmine p hb
      · rcases hoth b hba with h1 | ⟨h1, h2⟩
        · exact holdsBusy_oth hba h1 hvec hb
        · rcases hb with ⟨i, h3, _⟩ | h3
          · rw [h1] at h3; cases h3
          · rw [h2] at h3; cases h3
    have := h.own b p hs
    rw [hbl p (hlt b p this)]; exact this

/-- the mover takes the free flag of `p0` -/
theorem bl_acquire {s X : State} {a p0 : Nat} (hoth : ∀ b, b ≠ a → X.cl b = s.cl b) (hvec : X.threadsVec = s.threadsVec)
    (h0 : s.bl p0 = none) (h1 : X.bl p0 = some a) (hbl : ∀ p, p ≠ p0 → X.bl p = s.bl p)
    (hidx : ∀ i, (X.cl a).scanIdx = some i → ∃ p, X.threadsVec[i]? = some p)
    (hmine : ∀ p, holdsBusy X a p → p = p0 ∨ holdsBusy s a p) (h : BlInv s) : BlInv X := by
  constructor
  · intro b i hb
    by_cases hba : b = a
    · subst hba; exact hidx i hb
    · rw [hoth b hba] at hb; rw [hvec]; exact h.idx b i hb
  · intro b p hb
    by_cases hba : b = a
    · subst hba
      rcases hmine p hb with rfl | h2
      · exact h1
      · have := h.own b p h2
        have hne : p ≠ p0 := fun e => by rw [e, h0] at this; cases this
        rw [hbl p hne]; exact this
    · have hs := holdsBusy_oth hba (hoth b hba) (Or.inl hvec) hb
      have := h.own b p hs
      have hne : p ≠ p0 := fun e => by rw [e, h0] at this; cases this
      rw [hbl p hne]; exact this

/-- the mover lets go of the flag of `p0`, the only one it held -/
theorem bl_release {s X : State} {a p0 : Nat} (hoth : ∀ b, b ≠ a → X.cl b = s.cl b) (hvec : X.threadsVec = s.threadsVec)
    (h0 : holdsBusy s a p0) (hbl : ∀ p, p ≠ p0 → X.bl p = s.bl p)
    (hidx : (X.cl a).scanIdx = none) (hown : (X.cl a).ownBL = none) (h : BlInv s) : BlInv X := by
  constructor
  · intro b i hb
    by_cases hba : b = a
    · subst hba; rw [hidx] at hb; cases hb
    · rw [hoth b hba] at hb; rw [hvec]; exact h.idx b i hb
  · intro b p hb
    by_cases hba : b = a
    · subst hba
      rcases hb with ⟨i, h3, _⟩ | h3
      · rw [hidx] at h3; cases h3
      · rw [hown] at h3; cases h3
    · have hs := holdsBusy_oth hba (hoth b hba) (Or.inl hvec) hb
      have := h.own b p hs
      have hne : p ≠ p0 := fun e => by
        have h4 := h.own a p0 h0
        rw [e, h4] at this
        exact hba (Option.some.inj this).symm
      rw [hbl p hne]; exact this

theorem PCls.scanIdx_tlHeld {c : PCls} {i : Nat} (h : c.scanIdx = some i) : c.tlHeld = true := by
  cases c with
  | st ph => cases ph <;> simp_all [PCls.scanIdx, PCls.tlHeld]
  | _ => simp_all [PCls.scanIdx]

theorem vecOk_of_free {s X : State} {a : Nat} (ht : TlInv s) (hl : s.threadsLock = none) : VecOk s X a := by
  right
  intro b _
  cases hi : (s.cl b).scanIdx with
  | none => rfl
  | some i => have := ht b (PCls.scanIdx_tlHeld hi); rw [hl] at this; cases this

theorem vecOk_of_mine {s X : State} {a : Nat} (ht : TlInv s) (hl : (s.cl a).tlHeld = true) : VecOk s X a := by
  right
  intro b hba
  cases hi : (s.cl b).scanIdx with
  | none => rfl
  | some i =>
    have h1 := ht b (PCls.scanIdx_tlHeld hi)
    have h2 := ht a hl
    rw [h1] at h2
    exact absurd (Option.some.inj h2) hba

theorem bl_same_of_pth {s X : State} (h : X.pthreads = s.pthreads) : ∀ p, p < s.pthreads.length → X.bl p = s.bl p := by
  intro p _; simp only [State.bl, h]

set_option hygiene false in
/-- the mover holds nothing after the step, or exactly what it held -/
macro "bl_mine" : tactic => `(tactic| (
  intro p hp
  first
  | (rcases hp with ⟨i, h3, h4⟩ | h3 <;> simp_all [PCls.scanIdx, PCls.ownBL, holdsBusy]; done)
  | (w_plain <;> (rcases hp with ⟨i, h3, h4⟩ | h3 <;> simp_all [PCls.scanIdx, PCls.ownBL, holdsBusy]); done)))

set_option hygiene false in
macro "bl_idx" : tactic => `(tactic| (
  intro i hi
  first
  | (simp_all [PCls.scanIdx]; done)
  | (w_plain <;> simp_all [PCls.scanIdx]; done)))

theorem bl_pstep {s X : State} {a : Nat} (ht : TlInv s) (h : BlInv s) (hp : PStep s a X) : BlInv X := by
  cases hp
  case neutral hb hc hX =>
    refine bl_keep (a := a) (fun b hba => Or.inl (hb.cl b hba)) (Or.inl hX.2.1) (bl_same_of_pth hX.1) ?_ ?_ h
    · intro i hi; rw [hc] at hi; rw [hX.2.1]; exact h.idx a i hi
    · intro p hp
      rcases hp with ⟨i, h3, h4⟩ | h3
      · exact Or.inl ⟨i, by rw [← hc]; exact h3, by rw [← hX.2.1]; exact h4⟩
      · exact Or.inr (by rw [← hc]; exact h3)
  case reap hb hc hl vec hsub hX hc' =>
    exact bl_keep (a := a) (fun b hba => Or.inl (hb.cl b hba)) (vecOk_of_free ht hl) (bl_same_of_pth hX.1) (by bl_idx) (by bl_mine) h
  case scanLock hb hc hl hX hc' =>
    exact bl_keep (a := a) (fun b hba => Or.inl (hb.cl b hba)) (Or.inl hX.2.1) (bl_same_of_pth hX.1) (by bl_idx) (by bl_mine) h
  case scanEnd i hb hc hv hX hc' =>
    exact bl_keep (a := a) (fun b hba => Or.inl (hb.cl b hba)) (Or.inl hX.2.1) (bl_same_of_pth hX.1) (by bl_idx) (by bl_mine) h
  case scanAcq i p pt hb hc hv hp hl hX hc' =>
    have hs := bl_of_set hX.1 hp
    refine bl_acquire (a := a) (p0 := p) hb.cl hX.2.1 (by simp [State.bl, hp, hl]) hs.1 hs.2 ?_ ?_ h
    · intro j hj; rw [hc'] at hj; simp only [PCls.scanIdx, Option.some.injEq] at hj; subst hj; rw [hX.2.1]; exact ⟨p, hv⟩
    · intro p' hp'
      left
      rcases hp' with ⟨j, h3, h4⟩ | h3
      · rw [hc'] at h3; simp only [PCls.scanIdx, Option.some.injEq] at h3; subst h3
        rw [hX.2.1, hv] at h4; exact (Option.some.inj h4).symm
      · rw [hc'] at h3; simp [PCls.ownBL] at h3
  case scanBusy i p pt hb hc hv hp hbusy hX hc' =>
    exact bl_release (a := a) (p0 := p) hb.cl hX.2.1 (Or.inl ⟨i, by rw [hc]; rfl, hv⟩) (bl_of_set hX.1 hp).2 (by rw [hc']; rfl) (by rw [hc']; rfl) h
  case scanSend i p pt hb hc hv hp hbusy hX hc' =>
    refine bl_keep (a := a) (fun b hba => Or.inl (hb.cl b hba)) (Or.inl hX.2.1) (fun p' _ => bl_of_set_same hX.1 hp rfl p') ?_ ?_ h
    · intro j hj; rw [hc'] at hj; simp only [PCls.scanIdx, Option.some.injEq] at hj; subst hj; rw [hX.2.1]; exact ⟨p, hv⟩
    · intro p' hp'
      rcases hp' with ⟨j, h3, h4⟩ | h3
      · rw [hc'] at h3; simp only [PCls.scanIdx, Option.some.injEq] at h3; subst h3
        exact Or.inl ⟨i, by rw [hc]; rfl, by rw [← hX.2.1]; exact h4⟩
      · rw [hc'] at h3; simp [PCls.ownBL] at h3
  case scanRel i p f pt hb hc hv hp hX hc' =>
    exact bl_release (a := a) (p0 := p) hb.cl hX.2.1 (Or.inl ⟨i, by rw [hc]; rfl, hv⟩) (bl_of_set hX.1 hp).2 (by rw [hc']; rfl) (by rw [hc']; rfl) h
  case scanUnlock f hb hc hX hc' =>
    exact bl_keep (a := a) (fun b hba => Or.inl (hb.cl b hba)) (Or.inl hX.2.1) (bl_same_of_pth hX.1) (by bl_idx) (by bl_mine) h
  case readMax hb hc hX hc' =>
    exact bl_keep (a := a) (fun b hba => Or.inl (hb.cl b hba)) (Or.inl hX.2.1) (bl_same_of_pth hX.1) (by bl_idx) (by bl_mine) h
  case spawnYes m hc hl hlt hoth hnew hpo ha hX hc' =>
    refine bl_keep (a := a) ?_ (vecOk_of_free ht hl) ?_ (by bl_idx) (by bl_mine) h
    · intro b hba
      by_cases hbl : b = s.acts.length
      · subst hbl; right; simp [State.cl, hnew, Pc.cls, PCls.scanIdx, PCls.ownBL]
      · left; simp only [State.cl, hoth b hba hbl]
    · intro p hp; simp only [State.bl, hX.1]; rw [List.getElem?_append_left hp]
  case spawnNo m hb hc hge hX hc' =>
    exact bl_keep (a := a) (fun b hba => Or.inl (hb.cl b hba)) (Or.inl hX.2.1) (bl_same_of_pth hX.1) (by bl_idx) (by bl_mine) h
  case spawnRel hb hc hX hc' =>
    exact bl_keep (a := a) (fun b hba => Or.inl (hb.cl b hba)) (Or.inl hX.2.1) (bl_same_of_pth hX.1) (by bl_idx) (by bl_mine) h
  case push q hb hc hX hc' =>
    exact bl_keep (a := a) (fun b hba => Or.inl (hb.cl b hba)) (Or.inl hX.2.1) (bl_same_of_pth hX.1) (by bl_idx) (by bl_mine) h
  case claim f hb hc hX =>
    refine bl_keep (a := a) (fun b hba => Or.inl (hb.cl b hba)) (Or.inl hX.2.1) (bl_same_of_pth hX.1) ?_ ?_ h
    · intro i hi; rw [hc] at hi; rw [hX.2.1]; exact h.idx a i hi
    · intro p hp
      rcases hp with ⟨i, h3, h4⟩ | h3
      · exact Or.inl ⟨i, by rw [← hc]; exact h3, by rw [← hX.2.1]; exact h4⟩
      · exact Or.inr (by rw [← hc]; exact h3)
  case ptRecv p hb hc hX hc' =>
    exact bl_keep (a := a) (fun b hba => Or.inl (hb.cl b hba)) (Or.inl hX.2.1) (bl_same_of_pth hX.1) (by bl_idx) (by bl_mine) h
  case ptGot p pt hb hc hpo hp hm hX hc' =>
    exact bl_keep (a := a) (fun b hba => Or.inl (hb.cl b hba)) (Or.inl hX.2.1) (fun p' _ => bl_of_set_same hX.1 hp rfl p') (by bl_idx) (by bl_mine) h
  case ptExit p pt hoth hc hpo hp hm hh hX hc' hpo' =>
    exact bl_keep (a := a) (fun b hba => Or.inl (by simp only [State.cl, hoth b hba])) (Or.inl hX.2.1) (fun p' _ => bl_of_set_same hX.1 hp rfl p') (by bl_idx) (by bl_mine) h
  case ptLockBusy p pt hb hc hp hl hX hc' =>
    have hs := bl_of_set hX.1 hp
    refine bl_acquire (a := a) (p0 := p) hb.cl hX.2.1 (by simp [State.bl, hp, hl]) hs.1 hs.2 (by bl_idx) ?_ h
    intro p' hp'
    left
    rcases hp' with ⟨j, h3, h4⟩ | h3
    · rw [hc'] at h3; simp [PCls.scanIdx] at h3
    · rw [hc'] at h3; simp only [PCls.ownBL, Option.some.injEq] at h3; exact h3.symm
  case ptLockSched p hb hc hX hc' =>
    exact bl_keep (a := a) (fun b hba => Or.inl (hb.cl b hba)) (Or.inl hX.2.1) (bl_same_of_pth hX.1) (by bl_idx) (by bl_mine) h
  case popEmpty p hb hc he hX hc' =>
    exact bl_keep (a := a) (fun b hba => Or.inl (hb.cl b hba)) (Or.inl hX.2.1) (bl_same_of_pth hX.1) (by bl_idx) (by bl_mine) h
  case popTake p q rest hb hc he hX hc' =>
    exact bl_keep (a := a) (fun b hba => Or.inl (hb.cl b hba)) (Or.inl hX.2.1) (bl_same_of_pth hX.1) (by bl_idx) (by bl_mine) h
  case popSkip p q rest hb hc he hX hc' =>
    exact bl_keep (a := a) (fun b hba => Or.inl (hb.cl b hba)) (Or.inl hX.2.1) (bl_same_of_pth hX.1) (by bl_idx) (by bl_mine) h
  case unlockSched p g hb hc hX hc' =>
    exact bl_keep (a := a) (fun b hba => Or.inl (hb.cl b hba)) (Or.inl hX.2.1) (bl_same_of_pth hX.1) (by bl_idx) (by bl_mine) h
  case unlockBusySome p q pt hb hc hp hX hc' =>
    exact bl_release (a := a) (p0 := p) hb.cl hX.2.1 (Or.inr (by rw [hc]; rfl)) (bl_of_set hX.1 hp).2 (by rw [hc']; rfl) (by rw [hc']; rfl) h
  case unlockBusyNone p pt hb hc hpo hp hX hc' =>
    exact bl_release (a := a) (p0 := p) hb.cl hX.2.1 (Or.inr (by rw [hc]; rfl)) (bl_of_set hX.1 hp).2 (by rw [hc']; rfl) (by rw [hc']; rfl) h
  case drainEnd p hb hc hX hc' =>
    exact bl_keep (a := a) (fun b hba => Or.inl (hb.cl b hba)) (Or.inl hX.2.1) (bl_same_of_pth hX.1) (by bl_idx) (by bl_mine) h
  case smSet n hb hc hX hc' =>
    exact bl_keep (a := a) (fun b hba => Or.inl (hb.cl b hba)) (Or.inl hX.2.1) (bl_same_of_pth hX.1) (by bl_idx) (by bl_mine) h
  case dpRead hb hc hX hc' =>
    exact bl_keep (a := a) (fun b hba => Or.inl (hb.cl b hba)) (Or.inl hX.2.1) (bl_same_of_pth hX.1) (by bl_idx) (by bl_mine) h
  case dpLock m hb hc hl hX hc' =>
    exact bl_keep (a := a) (fun b hba => Or.inl (hb.cl b hba)) (Or.inl hX.2.1) (bl_same_of_pth hX.1) (by bl_idx) (by bl_mine) h
  case dpHangPop m p g pt hb hc hv hp hX hc' =>
    exact bl_keep (a := a) (fun b hba => Or.inl (hb.cl b hba)) (vecOk_of_mine ht (by rw [hc]; rfl)) (fun p' _ => bl_of_set_same hX.1 hp rfl p') (by bl_idx) (by bl_mine) h
  case dpHangEnd m g hb hc hX hc' =>
    exact bl_keep (a := a) (fun b hba => Or.inl (hb.cl b hba)) (Or.inl hX.2.1) (bl_same_of_pth hX.1) (by bl_idx) (by bl_mine) h

/-! ### busy threads, their activities and their mailboxes -/

structure ThrInv (s : State) : Prop where
  exist : ∀ p pt, s.pthreads[p]? = some pt → pt.busy = true → ∃ w, s.po w = some p
  restOk : ∀ w p pt, s.po w = some p → s.pthreads[p]? = some pt → pt.busy = true → (s.cl w).rest = true → 0 < pt.mailbox
  live : ∀ p, p ∈ s.threadsVec → ∃ w, s.po w = some p
  hv : ∀ p, p ∈ s.threadsVec → ∃ pt, s.pthreads[p]? = some pt ∧ pt.hungUp = false
  nodup : s.threadsVec.Nodup

theorem pth_set_lookup {s X : State} {p0 : Nat} {pt0 v : PThr} (hX : X.pthreads = s.pthreads.set p0 v) (h0 : s.pthreads[p0]? = some pt0) (p : Nat) :
    X.pthreads[p]? = if p = p0 then some v else s.pthreads[p]? := by
  have hlt : p0 < s.pthreads.length := lt_of_getElem?_some h0
  rw [hX, List.getElem?_set]
  by_cases hp : p0 = p
  · subst hp; simp [hlt]
  · simp [hp, Ne.symm hp]

/-- what a step that only touches flags the thread invariant does not read does to the thread records -/
def PthSame (s X : State) : Prop :=
  ∀ p : Nat, (∀ pt' : PThr, X.pthreads[p]? = some pt' → ∃ pt : PThr, s.pthreads[p]? = some pt ∧ pt'.busy = pt.busy ∧ pt'.mailbox = pt.mailbox ∧ pt'.hungUp = pt.hungUp)
     ∧ (∀ pt : PThr, s.pthreads[p]? = some pt → ∃ pt' : PThr, X.pthreads[p]? = some pt' ∧ pt'.hungUp = pt.hungUp)

theorem pthSame_of_eq {s X : State} (h : X.pthreads = s.pthreads) : PthSame s X := by
  intro p; rw [h]; exact ⟨fun pt' h1 => ⟨pt', h1, rfl, rfl, rfl⟩, fun pt h1 => ⟨pt, h1, rfl⟩⟩

theorem pthSame_of_set {s X : State} {p0 : Nat} {pt0 v : PThr} (hX : X.pthreads = s.pthreads.set p0 v) (h0 : s.pthreads[p0]? = some pt0)
    (h1 : v.busy = pt0.busy) (h2 : v.mailbox = pt0.mailbox) (h3 : v.hungUp = pt0.hungUp) : PthSame s X := by
  intro p
  rw [pth_set_lookup hX h0 p]
  by_cases hp : p = p0
  · subst hp
    simp only [↓reduceIte, Option.some.injEq]
    exact ⟨fun pt' e => ⟨pt0, h0, by rw [← e]; exact ⟨h1, h2, h3⟩⟩, fun pt e => ⟨v, rfl, by rw [h0] at e; rw [← Option.some.inj e]; exact h3⟩⟩
  · simp only [hp, ↓reduceIte]
    exact ⟨fun pt' e => ⟨pt', e, rfl, rfl, rfl⟩, fun pt e => ⟨pt, e, rfl⟩⟩

theorem thr_keep {s X : State} {a : Nat} (hoth : ∀ b, b ≠ a → X.pcAt b = s.pcAt b) (hpo : X.po a = s.po a)
    (hrest : (X.cl a).rest = true → (s.cl a).rest = true) (hpth : PthSame s X) (hvec : X.threadsVec.Sublist s.threadsVec)
    (h : ThrInv s) : ThrInv X := by
  have hpo' : ∀ b, X.po b = s.po b := by
    intro b
    by_cases hba : b = a
    · subst hba; exact hpo
    · simp only [State.po, hoth b hba]
  constructor
  · intro p pt' hp hb
    obtain ⟨pt, h1, h2, _, _⟩ := (hpth p).1 pt' hp
    obtain ⟨w, hw⟩ := h.exist p pt h1 (by rw [← h2]; exact hb)
    exact ⟨w, by rw [hpo']; exact hw⟩
  · intro w p pt' hw hp hb hr
    obtain ⟨pt, h1, h2, h3, _⟩ := (hpth p).1 pt' hp
    rw [h3]
    refine h.restOk w p pt (by rw [← hpo']; exact hw) h1 (by rw [← h2]; exact hb) ?_
    by_cases hwa : w = a
    · subst hwa; exact hrest hr
    · simp only [State.cl, hoth w hwa] at hr; exact hr
  · intro p hp
    obtain ⟨w, hw⟩ := h.live p (hvec.subset hp)
    exact ⟨w, by rw [hpo']; exact hw⟩
  · intro p hp
    obtain ⟨pt, h1, h2⟩ := h.hv p (hvec.subset hp)
    obtain ⟨pt', h3, h4⟩ := (hpth p).2 pt h1
    exact ⟨pt', h3, by rw [h4]; exact h2⟩
  · exact h.nodup.sublist hvec

theorem po_all_of {s X : State} {a : Nat} (hoth : ∀ b, b ≠ a → X.pcAt b = s.pcAt b) (hpo : X.po a = s.po a) : ∀ b, X.po b = s.po b := by
  intro b
  by_cases hba : b = a
  · subst hba; exact hpo
  · simp only [State.po, hoth b hba]

/-- a scan hands a message to an idle thread of the vector -/
theorem thr_send {s X : State} {a p0 : Nat} {pt0 : PThr} (hoth : ∀ b, b ≠ a → X.pcAt b = s.pcAt b) (hpo : X.po a = s.po a)
    (hrest : (X.cl a).rest = false) (h0 : s.pthreads[p0]? = some pt0) (hmem : p0 ∈ s.threadsVec)
    (hX : X.pthreads = s.pthreads.set p0 { pt0 with busy := true, mailbox := pt0.mailbox + 1 }) (hvec : X.threadsVec = s.threadsVec)
    (h : ThrInv s) : ThrInv X := by
  have hpo' := po_all_of hoth hpo
  constructor
  · intro p pt' hp hb
    by_cases hpp : p = p0
    · subst hpp
      obtain ⟨w, hw⟩ := h.live p hmem
      exact ⟨w, by rw [hpo']; exact hw⟩
    · rw [pth_set_lookup hX h0 p] at hp
      simp only [hpp, ↓reduceIte] at hp
      obtain ⟨w, hw⟩ := h.exist p pt' hp hb
      exact ⟨w, by rw [hpo']; exact hw⟩
  · intro w p pt' hw hp hb hr
    rw [pth_set_lookup hX h0 p] at hp
    by_cases hpp : p = p0
    · subst hpp
      simp only [↓reduceIte, Option.some.injEq] at hp
      rw [← hp]; simp
    · simp only [hpp, ↓reduceIte] at hp
      refine h.restOk w p pt' (by rw [← hpo']; exact hw) hp hb ?_
      by_cases hwa : w = a
      · subst hwa; rw [hrest] at hr; cases hr
      · simp only [State.cl, hoth w hwa] at hr; exact hr
  · intro p hp
    rw [hvec] at hp
    obtain ⟨w, hw⟩ := h.live p hp
    exact ⟨w, by rw [hpo']; exact hw⟩
  · intro p hp
    rw [hvec] at hp
    obtain ⟨pt, h1, h2⟩ := h.hv p hp
    rw [pth_set_lookup hX h0 p]
    by_cases hpp : p = p0
    · subst hpp
      simp only [↓reduceIte]
      rw [h0] at h1
      exact ⟨_, rfl, by rw [← Option.some.inj h1] at h2; exact h2⟩
    · simp only [hpp, ↓reduceIte]; exact ⟨pt, h1, h2⟩
  · rw [hvec]; exact h.nodup

/-- a pool thread takes its message -/
theorem thr_got {s X : State} {a p0 : Nat} {pt0 : PThr} (hu : PoInv s) (hoth : ∀ b, b ≠ a → X.pcAt b = s.pcAt b) (hpo : X.po a = s.po a)
    (hpa : s.po a = some p0) (hrest : (X.cl a).rest = false) (h0 : s.pthreads[p0]? = some pt0)
    (hX : X.pthreads = s.pthreads.set p0 { pt0 with mailbox := pt0.mailbox - 1 }) (hvec : X.threadsVec = s.threadsVec)
    (h : ThrInv s) : ThrInv X := by
  have hpo' := po_all_of hoth hpo
  constructor
  · intro p pt' hp hb
    rw [pth_set_lookup hX h0 p] at hp
    by_cases hpp : p = p0
    · subst hpp; exact ⟨a, by rw [hpo']; exact hpa⟩
    · simp only [hpp, ↓reduceIte] at hp
      obtain ⟨w, hw⟩ := h.exist p pt' hp hb
      exact ⟨w, by rw [hpo']; exact hw⟩
  · intro w p pt' hw hp hb hr
    rw [pth_set_lookup hX h0 p] at hp
    rw [hpo'] at hw
    by_cases hpp : p = p0
    · subst hpp
      have : w = a := hu.uniq w a p hw hpa
      subst this
      rw [hrest] at hr; cases hr
    · simp only [hpp, ↓reduceIte] at hp
      refine h.restOk w p pt' hw hp hb ?_
      by_cases hwa : w = a
      · subst hwa; rw [hrest] at hr; cases hr
      · simp only [State.cl, hoth w hwa] at hr; exact hr
  · intro p hp
    rw [hvec] at hp
    obtain ⟨w, hw⟩ := h.live p hp
    exact ⟨w, by rw [hpo']; exact hw⟩
  · intro p hp
    rw [hvec] at hp
    obtain ⟨pt, h1, h2⟩ := h.hv p hp
    rw [pth_set_lookup hX h0 p]
    by_cases hpp : p = p0
    · subst hpp
      simp only [↓reduceIte]
      rw [h0] at h1
      exact ⟨_, rfl, by rw [← Option.some.inj h1] at h2; exact h2⟩
    · simp only [hpp, ↓reduceIte]; exact ⟨pt, h1, h2⟩
  · rw [hvec]; exact h.nodup

/-- a pool thread whose channel was closed finds its mailbox empty and exits -/
theorem thr_exit {s X : State} {a p0 : Nat} {pt0 : PThr} (hu : PoInv s) (hoth : ∀ b, b ≠ a → X.pcAt b = s.pcAt b) (hpo : X.po a = none)
    (hpa : s.po a = some p0) (hra : (s.cl a).rest = true) (h0 : s.pthreads[p0]? = some pt0) (hm : pt0.mailbox = 0) (hh : pt0.hungUp = true)
    (hX : X.pthreads = s.pthreads.set p0 { pt0 with exited := true }) (hvec : X.threadsVec = s.threadsVec)
    (h : ThrInv s) : ThrInv X := by
  have hpo' : ∀ b, b ≠ a → X.po b = s.po b := fun b hba => by simp only [State.po, hoth b hba]
  have hnb : pt0.busy = false := by
    cases hb : pt0.busy with
    | false => rfl
    | true => have := h.restOk a p0 pt0 hpa h0 hb hra; omega
  have hwne : ∀ w p, p ≠ p0 → s.po w = some p → w ≠ a := fun w p hp hw hwa => by
    subst hwa; rw [hpa] at hw; exact hp (Option.some.inj hw).symm
  constructor
  · intro p pt' hp hb
    rw [pth_set_lookup hX h0 p] at hp
    by_cases hpp : p = p0
    · subst hpp
      simp only [↓reduceIte, Option.some.injEq] at hp
      rw [← hp] at hb; simp only at hb; rw [hnb] at hb; cases hb
    · simp only [hpp, ↓reduceIte] at hp
      obtain ⟨w, hw⟩ := h.exist p pt' hp hb
      exact ⟨w, by rw [hpo' w (hwne w p hpp hw)]; exact hw⟩
  · intro w p pt' hw hp hb hr
    have hwa : w ≠ a := fun e => by subst e; rw [hpo] at hw; cases hw
    rw [hpo' w hwa] at hw
    rw [pth_set_lookup hX h0 p] at hp
    by_cases hpp : p = p0
    · subst hpp
      exact absurd (hu.uniq w a p hw hpa) hwa
    · simp only [hpp, ↓reduceIte] at hp
      simp only [State.cl, hoth w hwa] at hr
      exact h.restOk w p pt' hw hp hb hr
  · intro p hp
    rw [hvec] at hp
    obtain ⟨pt, h1, h2⟩ := h.hv p hp
    have hpp : p ≠ p0 := fun e => by subst e; rw [h0] at h1; rw [← Option.some.inj h1, hh] at h2; cases h2
    obtain ⟨w, hw⟩ := h.live p hp
    exact ⟨w, by rw [hpo' w (hwne w p hpp hw)]; exact hw⟩
  · intro p hp
    rw [hvec] at hp
    obtain ⟨pt, h1, h2⟩ := h.hv p hp
    rw [pth_set_lookup hX h0 p]
    by_cases hpp : p = p0
    · subst hpp
      simp only [↓reduceIte]
      rw [h0] at h1
      exact ⟨_, rfl, by rw [← Option.some.inj h1] at h2; exact h2⟩
    · simp only [hpp, ↓reduceIte]; exact ⟨pt, h1, h2⟩
  · rw [hvec]; exact h.nodup

/-- a pool thread that found nothing to do clears its busy flag -/
theorem thr_unbusy {s X : State} {a p0 : Nat} {pt0 : PThr} (hoth : ∀ b, b ≠ a → X.pcAt b = s.pcAt b) (hpo : X.po a = s.po a)
    (hpa : s.po a = some p0) (h0 : s.pthreads[p0]? = some pt0)
    (hX : X.pthreads = s.pthreads.set p0 { pt0 with busyLock := none, busy := false }) (hvec : X.threadsVec = s.threadsVec)
    (h : ThrInv s) : ThrInv X := by
  have hpo' := po_all_of hoth hpo
  constructor
  · intro p pt' hp hb
    rw [pth_set_lookup hX h0 p] at hp
    by_cases hpp : p = p0
    · subst hpp
      simp only [↓reduceIte, Option.some.injEq] at hp
      rw [← hp] at hb; cases hb
    · simp only [hpp, ↓reduceIte] at hp
      obtain ⟨w, hw⟩ := h.exist p pt' hp hb
      exact ⟨w, by rw [hpo']; exact hw⟩
  · intro w p pt' hw hp hb hr
    rw [pth_set_lookup hX h0 p] at hp
    rw [hpo'] at hw
    by_cases hpp : p = p0
    · subst hpp
      simp only [↓reduceIte, Option.some.injEq] at hp
      rw [← hp] at hb; cases hb
    · simp only [hpp, ↓reduceIte] at hp
      have hwa : w ≠ a := fun e => by subst e; rw [hpa] at hw; exact hpp (Option.some.inj hw).symm
      simp only [State.cl, hoth w hwa] at hr
      exact h.restOk w p pt' hw hp hb hr
  · intro p hp
    rw [hvec] at hp
    obtain ⟨w, hw⟩ := h.live p hp
    exact ⟨w, by rw [hpo']; exact hw⟩
  · intro p hp
    rw [hvec] at hp
    obtain ⟨pt, h1, h2⟩ := h.hv p hp
    rw [pth_set_lookup hX h0 p]
    by_cases hpp : p = p0
    · subst hpp
      simp only [↓reduceIte]
      rw [h0] at h1
      exact ⟨_, rfl, by rw [← Option.some.inj h1] at h2; exact h2⟩
    · simp only [hpp, ↓reduceIte]; exact ⟨pt, h1, h2⟩
  · rw [hvec]; exact h.nodup

theorem not_mem_dropLast_of_nodup {l : List Nat} {p : Nat} (hn : l.Nodup) (hl : l.getLast? = some p) : p ∉ l.dropLast := by
  induction l with
  | nil => simp at hl
  | cons x xs ih =>
    cases xs with
    | nil => simp
    | cons y ys =>
      have hn' := List.nodup_cons.mp hn
      have hl' : (y :: ys).getLast? = some p := by simpa [List.getLast?_cons_cons] using hl
      have hmem : p ∈ y :: ys := List.mem_of_getLast? hl'
      simp only [List.dropLast_cons₂, List.mem_cons, not_or]
      exact ⟨fun e => hn'.1 (e ▸ hmem), ih hn'.2 hl'⟩

/-- despawn closes the channel of the last thread of the vector -/
theorem thr_hang {s X : State} {a p0 : Nat} {pt0 : PThr} (hoth : ∀ b, b ≠ a → X.pcAt b = s.pcAt b) (hpo : X.po a = s.po a)
    (hrest : (X.cl a).rest = false) (h0 : s.pthreads[p0]? = some pt0) (hlast : s.threadsVec.getLast? = some p0)
    (hX : X.pthreads = s.pthreads.set p0 { pt0 with hungUp := true }) (hvec : X.threadsVec = s.threadsVec.dropLast)
    (h : ThrInv s) : ThrInv X := by
  have hpo' := po_all_of hoth hpo
  have hsub : X.threadsVec.Sublist s.threadsVec := by rw [hvec]; exact List.dropLast_sublist _
  constructor
  · intro p pt' hp hb
    rw [pth_set_lookup hX h0 p] at hp
    by_cases hpp : p = p0
    · subst hpp
      simp only [↓reduceIte, Option.some.injEq] at hp
      obtain ⟨w, hw⟩ := h.exist p pt0 h0 (by rw [← hp] at hb; exact hb)
      exact ⟨w, by rw [hpo']; exact hw⟩
    · simp only [hpp, ↓reduceIte] at hp
      obtain ⟨w, hw⟩ := h.exist p pt' hp hb
      exact ⟨w, by rw [hpo']; exact hw⟩
  · intro w p pt' hw hp hb hr
    rw [pth_set_lookup hX h0 p] at hp
    rw [hpo'] at hw
    have hr' : (s.cl w).rest = true := by
      by_cases hwa : w = a
      · subst hwa; rw [hrest] at hr; cases hr
      · simp only [State.cl, hoth w hwa] at hr; exact hr
    by_cases hpp : p = p0
    · subst hpp
      simp only [↓reduceIte, Option.some.injEq] at hp
      rw [← hp] at hb ⊢
      exact h.restOk w p pt0 hw h0 hb hr'
    · simp only [hpp, ↓reduceIte] at hp
      exact h.restOk w p pt' hw hp hb hr'
  · intro p hp
    obtain ⟨w, hw⟩ := h.live p (hsub.subset hp)
    exact ⟨w, by rw [hpo']; exact hw⟩
  · intro p hp
    obtain ⟨pt, h1, h2⟩ := h.hv p (hsub.subset hp)
    have hpp : p ≠ p0 := fun e => by
      subst e; rw [hvec] at hp; exact not_mem_dropLast_of_nodup h.nodup hlast hp
    rw [pth_set_lookup hX h0 p]
    simp only [hpp, ↓reduceIte]; exact ⟨pt, h1, h2⟩
  · exact h.nodup.sublist hsub

/-- a new thread: a new record, a new entry of the vector, a new activity -/
theorem thr_spawn {s X : State} {a : Nat} (hoth : ∀ b, b ≠ a → b ≠ s.acts.length → X.pcAt b = s.pcAt b) (hpo : X.po a = s.po a)
    (hrest : (X.cl a).rest = false) (hnew : X.pcAt s.acts.length = .ptRecv s.pthreads.length)
    (hX : X.pthreads = s.pthreads ++ [{ busy := false, busyLock := none, mailbox := 0, hungUp := false, exited := false }])
    (hvec : X.threadsVec = s.threadsVec ++ [s.pthreads.length]) (h : ThrInv s) : ThrInv X := by
  have hsn : s.po s.acts.length = none := by simp [State.po, State.pcAt, Pc.poolOf]
  have hpo' : ∀ b, b ≠ s.acts.length → X.po b = s.po b := by
    intro b hbn
    by_cases hba : b = a
    · subst hba; exact hpo
    · simp only [State.po, hoth b hba hbn]
  have hold : ∀ w p, s.po w = some p → X.po w = some p := by
    intro w p hw
    have : w ≠ s.acts.length := fun e => by rw [e, hsn] at hw; cases hw
    rw [hpo' w this]; exact hw
  have hlook : ∀ p pt', X.pthreads[p]? = some pt' → s.pthreads[p]? = some pt' ∨ (p = s.pthreads.length ∧ pt'.busy = false ∧ pt'.hungUp = false) := by
    intro p pt' hp
    rw [hX] at hp
    by_cases hlt : p < s.pthreads.length
    · rw [List.getElem?_append_left hlt] at hp; exact Or.inl hp
    · right
      have hge : s.pthreads.length ≤ p := Nat.le_of_not_lt hlt
      rw [List.getElem?_append_right hge] at hp
      cases hd : p - s.pthreads.length with
      | zero =>
        rw [hd] at hp
        simp only [List.getElem?_cons_zero, Option.some.injEq] at hp
        exact ⟨by omega, by rw [← hp], by rw [← hp]⟩
      | succ n => rw [hd] at hp; simp at hp
  constructor
  · intro p pt' hp hb
    rcases hlook p pt' hp with h1 | ⟨_, h2, _⟩
    · obtain ⟨w, hw⟩ := h.exist p pt' h1 hb
      exact ⟨w, hold w p hw⟩
    · rw [h2] at hb; cases hb
  · intro w p pt' hw hp hb hr
    rcases hlook p pt' hp with h1 | ⟨_, h2, _⟩
    · by_cases hwn : w = s.acts.length
      · subst hwn
        simp only [State.po, hnew, Pc.poolOf, Option.some.injEq] at hw
        have := lt_of_getElem?_some h1
        omega
      · rw [hpo' w hwn] at hw
        refine h.restOk w p pt' hw h1 hb ?_
        by_cases hwa : w = a
        · subst hwa; rw [hrest] at hr; cases hr
        · simp only [State.cl, hoth w hwa hwn] at hr; exact hr
    · rw [h2] at hb; cases hb
  · intro p hp
    rw [hvec, List.mem_append, List.mem_singleton] at hp
    rcases hp with hp | hp
    · obtain ⟨w, hw⟩ := h.live p hp
      exact ⟨w, hold w p hw⟩
    · subst hp
      exact ⟨s.acts.length, by simp [State.po, hnew, Pc.poolOf]⟩
  · intro p hp
    rw [hvec, List.mem_append, List.mem_singleton] at hp
    rcases hp with hp | hp
    · obtain ⟨pt, h1, h2⟩ := h.hv p hp
      refine ⟨pt, ?_, h2⟩
      rw [hX, List.getElem?_append_left (lt_of_getElem?_some h1)]; exact h1
    · subst hp
      exact ⟨{ busy := false, busyLock := none, mailbox := 0, hungUp := false, exited := false }, by rw [hX]; simp, rfl⟩
  · rw [hvec]
    refine List.nodup_append.mpr ⟨h.nodup, by simp, ?_⟩
    intro x hx y hy
    rw [List.mem_singleton] at hy
    subst hy
    obtain ⟨pt, h1, _⟩ := h.hv x hx
    have := lt_of_getElem?_some h1
    omega

set_option hygiene false in
macro "thr_rest" : tactic => `(tactic| first
  | (intro hr; simp_all [PCls.rest]; done)
  | (intro hr; w_plain <;> simp_all [PCls.rest]; done)
  | (simp_all [PCls.rest]; done)
  | (w_plain <;> simp_all [PCls.rest]; done))

theorem sub_of_eq {l l' : List Nat} (h : l' = l) : l'.Sublist l := by rw [h]; exact List.Sublist.refl _

theorem mem_of_getElem?_some {l : List Nat} {i p : Nat} (h : l[i]? = some p) : p ∈ l := List.mem_of_getElem? h

theorem thr_pstep {s X : State} {a : Nat} (hu : PoInv s) (h : ThrInv s) (hp : PStep s a X) : ThrInv X := by
  cases hp
  case neutral hb hc hX => exact thr_keep hb.oth hb.po (by thr_rest) (pthSame_of_eq hX.1) (sub_of_eq hX.2.1) h
  case reap hb hc hl vec hsub hX hc' => exact thr_keep hb.oth hb.po (by thr_rest) (pthSame_of_eq hX.1) (by rw [hX.2.1]; exact hsub) h
  case scanLock hb hc hl hX hc' => exact thr_keep hb.oth hb.po (by thr_rest) (pthSame_of_eq hX.1) (sub_of_eq hX.2.1) h
  case scanEnd i hb hc hv hX hc' => exact thr_keep hb.oth hb.po (by thr_rest) (pthSame_of_eq hX.1) (sub_of_eq hX.2.1) h
  case scanAcq i p pt hb hc hv hp hl hX hc' => exact thr_keep hb.oth hb.po (by thr_rest) (pthSame_of_set hX.1 hp rfl rfl rfl) (sub_of_eq hX.2.1) h
  case scanBusy i p pt hb hc hv hp hbusy hX hc' => exact thr_keep hb.oth hb.po (by thr_rest) (pthSame_of_set hX.1 hp rfl rfl rfl) (sub_of_eq hX.2.1) h
  case scanSend i p pt hb hc hv hp hbusy hX hc' =>
    exact thr_send hb.oth hb.po (by thr_rest) hp (mem_of_getElem?_some hv) hX.1 hX.2.1 h
  case scanRel i p f pt hb hc hv hp hX hc' => exact thr_keep hb.oth hb.po (by thr_rest) (pthSame_of_set hX.1 hp rfl rfl rfl) (sub_of_eq hX.2.1) h
  case scanUnlock f hb hc hX hc' => exact thr_keep hb.oth hb.po (by thr_rest) (pthSame_of_eq hX.1) (sub_of_eq hX.2.1) h
  case readMax hb hc hX hc' => exact thr_keep hb.oth hb.po (by thr_rest) (pthSame_of_eq hX.1) (sub_of_eq hX.2.1) h
  case spawnYes m hc hl hlt hoth hnew hpo ha hX hc' => exact thr_spawn hoth hpo (by thr_rest) hnew hX.1 hX.2.1 h
  case spawnNo m hb hc hge hX hc' => exact thr_keep hb.oth hb.po (by thr_rest) (pthSame_of_eq hX.1) (sub_of_eq hX.2.1) h
  case spawnRel hb hc hX hc' => exact thr_keep hb.oth hb.po (by thr_rest) (pthSame_of_eq hX.1) (sub_of_eq hX.2.1) h
  case push q hb hc hX hc' => exact thr_keep hb.oth hb.po (by thr_rest) (pthSame_of_eq hX.1) (sub_of_eq hX.2.1) h
  case claim f hb hc hX => exact thr_keep hb.oth hb.po (by thr_rest) (pthSame_of_eq hX.1) (sub_of_eq hX.2.1) h
  case ptRecv p hb hc hX hc' => exact thr_keep hb.oth hb.po (by thr_rest) (pthSame_of_eq hX.1) (sub_of_eq hX.2.1) h
  case ptGot p pt hb hc hpo hp hm hX hc' => exact thr_got hu hb.oth hb.po hpo (by thr_rest) hp hX.1 hX.2.1 h
  case ptExit p pt hoth hc hpo hp hm hh hX hc' hpo' => exact thr_exit hu hoth hpo' hpo (by thr_rest) hp hm hh hX.1 hX.2.1 h
  case ptLockBusy p pt hb hc hp hl hX hc' => exact thr_keep hb.oth hb.po (by thr_rest) (pthSame_of_set hX.1 hp rfl rfl rfl) (sub_of_eq hX.2.1) h
  case ptLockSched p hb hc hX hc' => exact thr_keep hb.oth hb.po (by thr_rest) (pthSame_of_eq hX.1) (sub_of_eq hX.2.1) h
  case popEmpty p hb hc he hX hc' => exact thr_keep hb.oth hb.po (by thr_rest) (pthSame_of_eq hX.1) (sub_of_eq hX.2.1) h
  case popTake p q rest hb hc he hX hc' => exact thr_keep hb.oth hb.po (by thr_rest) (pthSame_of_eq hX.1) (sub_of_eq hX.2.1) h
  case popSkip p q rest hb hc he hX hc' => exact thr_keep hb.oth hb.po (by thr_rest) (pthSame_of_eq hX.1) (sub_of_eq hX.2.1) h
  case unlockSched p g hb hc hX hc' => exact thr_keep hb.oth hb.po (by thr_rest) (pthSame_of_eq hX.1) (sub_of_eq hX.2.1) h
  case unlockBusySome p q pt hb hc hp hX hc' => exact thr_keep hb.oth hb.po (by thr_rest) (pthSame_of_set hX.1 hp rfl rfl rfl) (sub_of_eq hX.2.1) h
  case unlockBusyNone p pt hb hc hpo hp hX hc' => exact thr_unbusy hb.oth hb.po hpo hp hX.1 hX.2.1 h
  case drainEnd p hb hc hX hc' => exact thr_keep hb.oth hb.po (by thr_rest) (pthSame_of_eq hX.1) (sub_of_eq hX.2.1) h
  case smSet n hb hc hX hc' => exact thr_keep hb.oth hb.po (by thr_rest) (pthSame_of_eq hX.1) (sub_of_eq hX.2.1) h
  case dpRead hb hc hX hc' => exact thr_keep hb.oth hb.po (by thr_rest) (pthSame_of_eq hX.1) (sub_of_eq hX.2.1) h
  case dpLock m hb hc hl hX hc' => exact thr_keep hb.oth hb.po (by thr_rest) (pthSame_of_eq hX.1) (sub_of_eq hX.2.1) h
  case dpHangPop m p g pt hb hc hv hp hX hc' => exact thr_hang hb.oth hb.po (by thr_rest) hp hv hX.1 hX.2.1 h
  case dpHangEnd m g hb hc hX hc' => exact thr_keep hb.oth hb.po (by thr_rest) (pthSame_of_eq hX.1) (sub_of_eq hX.2.1) h

/-! ### the maximum is never zero (executions in which set_max_threads is never given 0) -/

structure NzInv (s : State) : Prop where
  max : 1 ≤ s.maxThreads
  cls : ∀ b, (s.cl b).nzOk = true

theorem nz_step {s X : State} {a : Nat} (hoth : ∀ b, b ≠ a → X.cl b = s.cl b ∨ (X.cl b).nzOk = true)
    (hmax : X.maxThreads = s.maxThreads ∨ s.cl a = .smSet X.maxThreads)
    (ha : (X.cl a).nzOk = true ∨ X.cl a = s.cl a ∨ X.cl a = .st (.spawn s.maxThreads)) (h : NzInv s) : NzInv X := by
  constructor
  · rcases hmax with h1 | h1
    · rw [h1]; exact h.max
    · have := h.cls a; rw [h1] at this; simpa [PCls.nzOk] using this
  · intro b
    by_cases hba : b = a
    · subst hba
      rcases ha with h1 | h1 | h1
      · exact h1
      · rw [h1]; exact h.cls b
      · rw [h1]; simpa [PCls.nzOk] using h.max
    · rcases hoth b hba with h1 | h1
      · rw [h1]; exact h.cls b
      · exact h1

theorem nz_pstep {s X : State} {a : Nat} (h : NzInv s) (hp : PStep s a X) : NzInv X := by
  cases hp
  all_goals (refine nz_step (a := a) ?_ ?_ ?_ h)
  all_goals (first | w_oth | skip)
  all_goals (first
    | (simp_all [PoolIs, PoolSame, PCls.nzOk, PCls.plain]; done)
    | (w_plain <;> simp_all [PoolIs, PoolSame, PCls.nzOk, PCls.plain]; done)
    | skip)

end Desync
