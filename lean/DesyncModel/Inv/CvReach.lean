/-
The condition-variable invariant holds in every reachable state.
-/
import DesyncModel.Inv.CvStep
import DesyncModel.Inv.HolderReach

namespace Desync
open Gen

theorem CvInv.same {s X : State} (h : CvInv s) (hpc : ∀ b, X.pcAt b = s.pcAt b) (hwok : ∀ b, X.isWoken b = s.isWoken b)
    (hrl : X.readyLock = s.readyLock) (hr : X.ready = s.ready) (hj : X.jobs = s.jobs) : CvInv X := by
  have hready : ∀ b, X.isReady b = s.isReady b := fun b => by simp only [State.isReady, hr]
  have hown : ∀ j, X.jobOwner j = s.jobOwner j := fun j => by simp only [State.jobOwner, hj]
  refine ⟨fun b => by rw [hpc]; exact h.wf b, by rw [hrl]; exact h.ml, fun b hb => by rw [hrl]; rw [hpc] at hb; exact h.rl b hb,
    fun b w hb => by rw [hrl]; rw [hpc] at hb; exact h.rl2 b w hb, fun b hb => by rw [hready]; rw [hpc] at hb; exact h.nr b hb, ?_⟩
  intro b hb
  rw [hpc] at hb
  rw [hwok, hready]
  rcases h.w b hb with h1 | h1 | ⟨c, j, h1, h2⟩
  · exact Or.inl h1
  · exact Or.inr (Or.inl h1)
  · exact Or.inr (Or.inr ⟨c, j, by rw [hpc]; exact h1, by rw [hown]; exact h2⟩)

theorem cvInv_of_empty (s : State) (ha : s.acts = []) (hrl : s.readyLock = []) : CvInv s := by
  have hpc : ∀ b, s.pcAt b = .dead := fun b => by simp [State.pcAt, ha]
  refine ⟨?_, ?_, ?_, ?_, ?_, ?_⟩
  · intro b; rw [hpc]; rfl
  · intro w x x' h1; rw [hrl] at h1; cases h1
  · intro b hb; rw [hpc] at hb; cases hb
  · intro b w hb; rw [hpc] at hb; cases hb
  · intro b hb; rw [hpc] at hb; cases hb
  · intro b hb; rw [hpc] at hb; cases hb

theorem cvInv_setChild {s : State} (h : CvInv s) (p : Nat) (c : Option Nat) :
    CvInv (match s.acts[p]? with | some pv => s.setAct p { pv with child := c } | none => s) := by
  split
  · next pv hpv =>
    refine CvInv.same h (fun b => pcAt_setAct_samepc _ p pv { pv with child := c } hpv rfl b) ?_ rfl rfl rfl
    intro b
    simp only [State.isWoken, State.setAct, List.getElem?_set]
    by_cases hpb : p = b
    · subst hpb
      have hlt := lt_of_getElem?_some hpv
      have : s.acts[p] = pv := by
        have := List.getElem?_eq_getElem hlt; rw [hpv] at this; exact (Option.some.inj this).symm
      simp [hlt, this]
    · simp [hpb]
  · exact h

theorem cvInv_addAct {s0 : State} (h0 : CvInv s0) (t : Nat) (parent : Option Nat) (pc : Pc) (once : Bool) (hq : pc.cvQuiet = true) :
    CvInv (addAct s0 t parent pc once).1 := by
  let n : Act := { thread := t, pc := pc, parent := parent, child := none, woken := false, result := none, mode := .await, once := once }
  have h1 : CvInv ({ s0 with acts := s0.acts ++ [n], nextOp := s0.nextOp + 1 } : State) := CvInv.append (n := n) h0 rfl hq rfl rfl rfl
  unfold addAct
  cases parent with
  | none => exact h1
  | some p =>
    simp only
    have := cvInv_setChild h1 p (some s0.acts.length)
    split
    · next pv hpv => simp only [n, hpv] at this; exact this
    · exact h1

theorem cvInv_invoke {s s' : State} {t a : Nat} {parent : Option Nat} {c : Call} (h : CvInv s)
    (hs : invoke s t parent c = some (s', a)) : CvInv s' := by
  unfold invoke at hs
  cases c <;> simp only at hs
  all_goals (repeat' split at hs)
  all_goals (try (simp at hs; done))
  all_goals (
    have hs' := congrArg Prod.fst (Option.some.inj hs)
    simp only at hs'
    subst hs'
    refine cvInv_addAct ?_ t parent _ _ (by simp [Pc.cvQuiet])
    first
      | exact h
      | exact CvInv.same h (fun b => rfl) (fun b => rfl) rfl rfl rfl
      | (refine CvInv.same h (fun b => ?_) (fun b => ?_) ?_ ?_ ?_ <;> first | rfl | (simp; done) | (split <;> (try split) <;> first | rfl | (simp; done))))

theorem cvInv_goto_env {s : State} {a : Nat} {act : Act} (h : CvInv s) (ha : s.acts[a]? = some act) (pc' : Pc)
    (hold : act.pc.cvSpecial = false) (hnew : act.pc.cvWf = true → pc'.cvQuiet = true) : CvInv (s.goto a pc') := by
  have hlt : a < s.acts.length := lt_of_getElem?_some ha
  have hpca := pcAt_of ha
  refine CvInv.frame (a := a) h (JobMono.same (by simp)) (by simp) (fun b => by simp) (fun b hb => pcAt_goto_ne _ hb) (fun b hb => isWoken_goto_ne _ hb)
    (by rw [hpca]; exact hold) ?_
  rw [pcAt_goto_self _ hlt]
  exact hnew (by rw [← hpca]; exact h.wf a)

theorem cvInv_bodyEnd {s s' : State} {a : Nat} {o : Obs} (h : CvInv s) (hs : bodyEnd s a = some (s', o)) : CvInv s' := by
  unfold bodyEnd at hs
  split at hs
  · next act ha =>
    split at hs
    · simp at hs
    · split at hs
      · next op k hpc =>
        obtain ⟨rfl, _⟩ := Prod.mk.inj (Option.some.inj hs)
        exact cvInv_goto_env h ha _ (by rw [hpc]; rfl) (by rw [hpc]; intro hw; simpa [Pc.cvWf, Pc.cvQuiet] using hw)
      · simp at hs
  · simp at hs

theorem cvInv_spuriousUnpark {s s' : State} {a : Nat} {o : Obs} (h : CvInv s) (hs : spuriousUnpark s a = some (s', o)) : CvInv s' := by
  unfold spuriousUnpark at hs
  split at hs
  · next act ha =>
    split at hs
    · next q j k hpc =>
      obtain ⟨rfl, _⟩ := Prod.mk.inj (Option.some.inj hs)
      exact cvInv_goto_env h ha _ (by rw [hpc]; rfl) (by rw [hpc]; intro hw; simpa [Pc.cvWf, Pc.cvQuiet] using hw)
    · simp at hs
  · simp at hs

theorem cvInv_spuriousPoll {s s' : State} {a : Nat} (h : CvInv s) (hs : spuriousPoll s a = some s') : CvInv s' := by
  unfold spuriousPoll at hs
  split at hs
  · next act ha =>
    split at hs
    · next f hpc => cases Option.some.inj hs; exact cvInv_goto_env h ha _ (by rw [hpc]; rfl) (fun _ => by simp [Pc.cvQuiet])
    · next u hpc => cases Option.some.inj hs; exact cvInv_goto_env h ha _ (by rw [hpc]; rfl) (fun _ => by simp [Pc.cvQuiet])
    · simp at hs
  · simp at hs

theorem cvInv_ret {s s' : State} {a r : Nat} (h : CvInv s) (hs : retStep s a = some (s', r)) : CvInv s' := by
  unfold retStep at hs
  split at hs
  · next act ha =>
    split at hs
    · next hpc =>
      obtain ⟨rfl, _⟩ := Prod.mk.inj (Option.some.inj hs)
      have hlt : a < s.acts.length := lt_of_getElem?_some ha
      have h1 : CvInv (s.setAct a { act with pc := .dead }) := by
        refine CvInv.frame (a := a) h (JobMono.same rfl) rfl (fun b => rfl) (fun b hb => pcAt_setAct_ne _ hb) (fun b hb => isWoken_setAct_ne _ hb)
          (by rw [pcAt_of ha, hpc]; rfl) ?_
        rw [pcAt_setAct_self _ hlt]; rfl
      split
      · next p hp => exact cvInv_setChild h1 p none
      · exact h1
    · simp at hs
  · simp at hs

/-- **The condition-variable invariant holds in every reachable state.** -/
theorem cvInv_reachable {s : State} (hr : Reachable s) : CvInv s := by
  induction hr with
  | init nq ng max => exact cvInv_of_empty _ (by simp [initState]) (by simp [initState])
  | initP ps ng max => exact cvInv_of_empty _ (by simp [initStateP, initState]) (by simp [initStateP, initState])
  | step l hprev hstep ih =>
    cases l with
    | act a =>
      simp only [next, Option.map_eq_some_iff] at hstep
      obtain ⟨⟨s1, o⟩, hs, rfl⟩ := hstep
      exact cvInv_stepAct ih hs
    | invoke t parent c =>
      simp only [next] at hstep
      split at hstep
      · simp only [Option.map_eq_some_iff] at hstep
        obtain ⟨⟨s1, a⟩, hs, rfl⟩ := hstep
        exact cvInv_invoke ih hs
      · simp at hstep
    | bodyEnd a =>
      simp only [next, Option.map_eq_some_iff] at hstep
      obtain ⟨⟨s1, o⟩, hs, rfl⟩ := hstep
      exact cvInv_bodyEnd ih hs
    | ret a =>
      simp only [next, Option.map_eq_some_iff] at hstep
      obtain ⟨⟨s1, r⟩, hs, rfl⟩ := hstep
      exact cvInv_ret ih hs
    | spuriousUnpark a =>
      simp only [next, Option.map_eq_some_iff] at hstep
      obtain ⟨⟨s1, o⟩, hs, rfl⟩ := hstep
      exact cvInv_spuriousUnpark ih hs
    | spuriousPoll a =>
      simp only [next] at hstep
      exact cvInv_spuriousPoll ih hstep

end Desync
