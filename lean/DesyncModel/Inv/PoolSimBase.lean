/-
Helpers for the simulation of `stepAct` by the abstract pool step `PStep`.
-/
import DesyncModel.Inv.PoolAbs
import DesyncModel.Tables.Pool

namespace Desync
open Gen

def WfAll (s : State) : Prop := ∀ b, (s.pcAt b).wf = true

theorem pcAt_goto_ne {X : State} {a b : Nat} (pc : Pc) (h : b ≠ a) : (X.goto a pc).pcAt b = X.pcAt b := by
  rw [pcAt_goto]; simp [Ne.symm h]

theorem pcAt_setAct_ne {X : State} {a b : Nat} (v : Act) (h : b ≠ a) : (X.setAct a v).pcAt b = X.pcAt b := by
  rw [pcAt_setAct]; simp [Ne.symm h]

theorem pcAt_goto_self {X : State} {a : Nat} (pc : Pc) (h : a < X.acts.length) : (X.goto a pc).pcAt a = pc := by
  rw [pcAt_goto]; simp [h]

theorem pcAt_setAct_self {X : State} {a : Nat} (v : Act) (h : a < X.acts.length) : (X.setAct a v).pcAt a = v.pc := by
  rw [pcAt_setAct]; simp [h]

@[simp] theorem pcAt_setSf (s : State) (u : Nat) (v : SyncFut) (c : Nat) : (s.setSf u v).pcAt c = s.pcAt c := rfl

@[simp] theorem pthreads_setPThr (s : State) (p : Nat) (v : PThr) : (s.setPThr p v).pthreads = s.pthreads.set p v := rfl

theorem pcAt_len (s : State) : s.pcAt s.acts.length = .dead := by
  simp [State.pcAt]

set_option hygiene false in
/-- the pcs of the other activities are untouched -/
macro "sim_oth" : tactic => `(tactic| (
  intro b hb
  simp only [pcAt_goto_ne _ hb, pcAt_setAct_ne _ hb, pcAt_setQ, pcAt_setJob, pcAt_setHolder, pcAt_setWoken, pcAt_notify, pcAt_setPThr, pcAt_setFut, pcAt_setGate,
             pcAt_takeReady, pcAt_dropReady, pcAt_setJobPh, pcAt_pushFront, pcAt_pushBack, pcAt_setQState, pcAt_dequeue, pcAt_setSf]
  first | done | rfl | (simp [State.pcAt, dequeue_acts]; done)))

@[simp] theorem acts_newJob (s : State) (q : Nat) (k : JobKind) : (s.newJob q k).1.acts = s.acts := rfl
@[simp] theorem pcAt_newJob (s : State) (q : Nat) (k : JobKind) (c : Nat) : (s.newJob q k).1.pcAt c = s.pcAt c := rfl
@[simp] theorem pthreads_newJob (s : State) (q : Nat) (k : JobKind) : (s.newJob q k).1.pthreads = s.pthreads := rfl
@[simp] theorem threadsVec_newJob (s : State) (q : Nat) (k : JobKind) : (s.newJob q k).1.threadsVec = s.threadsVec := rfl
@[simp] theorem threadsLock_newJob (s : State) (q : Nat) (k : JobKind) : (s.newJob q k).1.threadsLock = s.threadsLock := rfl
@[simp] theorem schedule_newJob (s : State) (q : Nat) (k : JobKind) : (s.newJob q k).1.schedule = s.schedule := rfl
@[simp] theorem maxThreads_newJob (s : State) (q : Nat) (k : JobKind) : (s.newJob q k).1.maxThreads = s.maxThreads := rfl

theorem dequeue_pool (s : State) (q a : Nat) :
    (s.dequeue q a).1.pthreads = s.pthreads ∧ (s.dequeue q a).1.threadsVec = s.threadsVec ∧ (s.dequeue q a).1.threadsLock = s.threadsLock ∧
    (s.dequeue q a).1.schedule = s.schedule ∧ (s.dequeue q a).1.maxThreads = s.maxThreads := by
  unfold State.dequeue
  split
  · split
    · split <;> simp
    · simp
  · simp

@[simp] theorem pthreads_dequeue (s : State) (q a : Nat) : (s.dequeue q a).1.pthreads = s.pthreads := (dequeue_pool s q a).1
@[simp] theorem threadsVec_dequeue' (s : State) (q a : Nat) : (s.dequeue q a).1.threadsVec = s.threadsVec := (dequeue_pool s q a).2.1
@[simp] theorem threadsLock_dequeue (s : State) (q a : Nat) : (s.dequeue q a).1.threadsLock = s.threadsLock := (dequeue_pool s q a).2.2.1
@[simp] theorem schedule_dequeue (s : State) (q a : Nat) : (s.dequeue q a).1.schedule = s.schedule := (dequeue_pool s q a).2.2.2.1
@[simp] theorem maxThreads_dequeue' (s : State) (q a : Nat) : (s.dequeue q a).1.maxThreads = s.maxThreads := (dequeue_pool s q a).2.2.2.2

set_option hygiene false in
macro "sim_cls" : tactic => `(tactic| first
  | rfl
  | (simp only [Pc.cls, Pc.poolOf, cls_ctxReady, cls_ctxPending, poolOf_ctxReady, poolOf_ctxPending]; done)
  | (simp only [Pc.cls, Pc.poolOf, cls_ctxReady, cls_ctxPending, poolOf_ctxReady, poolOf_ctxPending]; split <;> rfl))

set_option hygiene false in
/-- a function of the mover's pc has the value it had -/
macro "sim_self" : tactic => `(tactic| (
  simp only [State.cl, State.po]
  first
  | (rw [pcAt_goto_self _ (by simpa [dequeue_acts] using hlt), hpca, ‹act.pc = _›] <;> sim_cls)
  | (rw [pcAt_setAct_self _ (by simpa [dequeue_acts] using hlt), hpca, ‹act.pc = _›] <;> sim_cls)
  | (rw [pcAt_setQ, pcAt_goto_self _ (by simpa [dequeue_acts] using hlt), hpca, ‹act.pc = _›] <;> sim_cls)))

set_option hygiene false in
macro "sim_pool" : tactic => `(tactic| (
  refine ⟨?_, ?_, ?_, ?_, ?_⟩ <;> first | rfl | exact rfl | (simp only [pthreads_goto, threadsVec_goto, threadsLock_goto, schedule_goto, maxThreads_goto]; rfl) | (simp; done)))


end Desync
