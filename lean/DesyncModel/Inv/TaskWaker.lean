/-
Who is woken when a result arrives (C07, C08): the waker stored in a `SchedulerFuture`'s result slot, and the wakers a
`SyncFuture` registers on its `queue_ready` receiver and with the user future's event, are always the context waker of a
*polling task* — never a queue waker, a thread waker or a latch.  So `signal` (which takes the slot's waker and fires it) wakes
the task that is awaiting the future; it cannot, for instance, reschedule a queue in its place.  Every reachable state, every
kind of call.
-/
import DesyncModel.Inv.Reg
import DesyncModel.Inv.DrainStep
import DesyncModel.Inv.SlotStep
import DesyncModel.Inv.ResStep

namespace Desync
open Gen

def Waker.isTask : Waker → Bool
  | .task _ => true
  | _ => false

/-- nothing, or a task's context waker -/
def OptTask (w : Option Waker) : Prop := ∀ x, w = some x → x.isTask = true

theorem optTask_none : OptTask none := fun x h => by cases h
theorem optTask_task (t : Nat) : OptTask (some (Waker.task t)) := fun x h => by cases h; rfl

def FutsOk (L : List Fut) : Prop := ∀ (f : Nat) (fu : Fut), L[f]? = some fu → OptTask fu.waker
def SfsOk (L : List SyncFut) : Prop := ∀ (u : Nat) (sf : SyncFut), L[u]? = some sf → OptTask sf.readyWaker ∧ OptTask sf.userReg

theorem FutsOk.set {L : List Fut} (h : FutsOk L) (f0 : Nat) (v : Fut) (hv : OptTask v.waker) : FutsOk (L.set f0 v) := by
  intro f fu hf
  rw [List.getElem?_set] at hf
  split at hf
  · split at hf
    · cases hf; exact hv
    · cases hf
  · exact h f fu hf

theorem FutsOk.append {L l : List Fut} (h : FutsOk L) (hl : ∀ x ∈ l, x.waker = none) : FutsOk (L ++ l) := by
  intro f fu hf
  by_cases hlt : f < L.length
  · rw [List.getElem?_append_left hlt] at hf; exact h f fu hf
  · rw [List.getElem?_append_right (by omega)] at hf
    rw [hl fu (List.mem_of_getElem? hf)]; exact optTask_none

theorem SfsOk.set {L : List SyncFut} (h : SfsOk L) (u0 : Nat) (v : SyncFut) (hv : OptTask v.readyWaker ∧ OptTask v.userReg) : SfsOk (L.set u0 v) := by
  intro u sf hu
  rw [List.getElem?_set] at hu
  split at hu
  · split at hu
    · cases hu; exact hv
    · cases hu
  · exact h u sf hu

theorem SfsOk.append {L l : List SyncFut} (h : SfsOk L) (hl : ∀ x ∈ l, x.readyWaker = none ∧ x.userReg = none) : SfsOk (L ++ l) := by
  intro u sf hu
  by_cases hlt : u < L.length
  · rw [List.getElem?_append_left hlt] at hu; exact h u sf hu
  · rw [List.getElem?_append_right (by omega)] at hu
    have := hl sf (List.mem_of_getElem? hu)
    rw [this.1, this.2]; exact ⟨optTask_none, optTask_none⟩

structure TaskWakerInv (s : State) : Prop where
  fut : FutsOk s.futs
  sf : SfsOk s.sfs

@[simp] theorem futs_setFut (s : State) (f : Nat) (v : Fut) : (s.setFut f v).futs = s.futs.set f v := rfl
@[simp] theorem sfs_setSf (s : State) (u : Nat) (v : SyncFut) : (s.setSf u v).sfs = s.sfs.set u v := rfl
@[simp] theorem sfs_newJob (s : State) (q : Nat) (k : JobKind) : (s.newJob q k).1.sfs = s.sfs := rfl

set_option hygiene false in
macro "tw_norm" : tactic => `(tactic| simp only [futs_goto, futs_setAct, futs_setQ, futs_setJob, futs_setHolder, futs_setPThr, futs_setFut, futs_setGate,
    futs_setSf, futs_takeReady, futs_dropReady, futs_newJob, futs_setJobPh, futs_pushFront, futs_pushBack, futs_setQState, futs_setWoken, futs_notify,
    futs_dequeue, sfs_goto, sfs_setAct, sfs_setQ, sfs_setJob, sfs_setHolder, sfs_setPThr, sfs_setFut, sfs_setGate, sfs_setSf, sfs_takeReady,
    sfs_dropReady, sfs_newJob, sfs_setJobPh, sfs_pushFront, sfs_pushBack, sfs_setQState, sfs_setWoken, sfs_notify, sfs_dequeue])

theorem FutsOk.set' {L : List Fut} (h : FutsOk L) {f0 : Nat} {fu v : Fut} (hf : L[f0]? = some fu)
    (hv : v.waker = fu.waker ∨ OptTask v.waker) : FutsOk (L.set f0 v) := by
  refine FutsOk.set h f0 v ?_
  rcases hv with h1 | h1
  · rw [h1]; exact h f0 fu hf
  · exact h1

theorem SfsOk.set' {L : List SyncFut} (h : SfsOk L) {u0 : Nat} {sf v : SyncFut} (hf : L[u0]? = some sf)
    (hv1 : v.readyWaker = sf.readyWaker ∨ OptTask v.readyWaker) (hv2 : v.userReg = sf.userReg ∨ OptTask v.userReg) : SfsOk (L.set u0 v) := by
  refine SfsOk.set h u0 v ⟨?_, ?_⟩
  · rcases hv1 with h1 | h1
    · rw [h1]; exact (h u0 sf hf).1
    · exact h1
  · rcases hv2 with h1 | h1
    · rw [h1]; exact (h u0 sf hf).2
    · exact h1

set_option hygiene false in
macro "tw_opt" : tactic => `(tactic| first
  | exact Or.inl rfl
  | exact Or.inr optTask_none
  | exact Or.inr (optTask_task _))

set_option hygiene false in
macro "tw_fut" : tactic => `(tactic| first
  | exact h.fut
  | (refine FutsOk.set' h.fut (by assumption) ?_; tw_opt))

set_option hygiene false in
macro "tw_sf" : tactic => `(tactic| first
  | exact h.sf
  | (refine SfsOk.set' h.sf (by assumption) ?_ ?_ <;> tw_opt))

set_option maxHeartbeats 4000000 in
set_option maxRecDepth 8000 in
theorem taskWakerInv_stepAct {s s' : State} {a : Nat} {o : Obs} (h : TaskWakerInv s) (hs : stepAct s a = some (s', o)) : TaskWakerInv s' := by
  unfold stepAct at hs
  split at hs
  · simp at hs
  next act ha =>
  split at hs
  · simp at hs
  next hchild =>
  split at hs
  all_goals (try (simp at hs; done))
  all_goals (try dsimp only at hs)
  all_goals (repeat' split at hs)
  all_goals (try (simp at hs; done))
  all_goals (try (simp only [Option.some.injEq, Prod.mk.injEq] at hs; obtain ⟨rfl, _⟩ := hs))
  all_goals (refine ⟨?_, ?_⟩)
  all_goals (try tw_norm)
  all_goals (first | tw_fut | tw_sf | skip)

/-! ### environment steps and reachability -/

theorem TaskWakerInv.same {s X : State} (h : TaskWakerInv s) (hf : X.futs = s.futs) (hs : X.sfs = s.sfs) : TaskWakerInv X :=
  ⟨by rw [hf]; exact h.fut, by rw [hs]; exact h.sf⟩

theorem taskWakerInv_addAct {s0 : State} (h0 : TaskWakerInv s0) (t : Nat) (parent : Option Nat) (pc : Pc) (once : Bool) :
    TaskWakerInv (addAct s0 t parent pc once).1 := by
  unfold addAct
  cases parent with
  | none => exact h0.same rfl rfl
  | some p =>
    simp only
    split
    · exact h0.same rfl rfl
    · exact h0.same rfl rfl

theorem taskWakerInv_invoke {s s' : State} {t a : Nat} {parent : Option Nat} {c : Call} (h : TaskWakerInv s)
    (hs : invoke s t parent c = some (s', a)) : TaskWakerInv s' := by
  unfold invoke at hs
  cases c <;> simp only at hs
  all_goals (repeat' split at hs)
  all_goals (try (simp at hs; done))
  all_goals (
    have hs' := congrArg Prod.fst (Option.some.inj hs)
    simp only at hs'
    subst hs'
    refine taskWakerInv_addAct ?_ t parent _ _
    first
      | exact h
      | exact h.same rfl rfl
      | exact ⟨FutsOk.append h.fut (by simp), h.sf⟩
      | exact ⟨FutsOk.append h.fut (by simp), SfsOk.append h.sf (by simp)⟩
      | (refine ⟨?_, ?_⟩ <;> first
          | exact h.fut | exact h.sf
          | exact FutsOk.append h.fut (by simp)
          | (split <;> (try split) <;> first | exact h.fut | exact h.sf | exact FutsOk.append h.fut (by simp))))

theorem futs_retStep {s s' : State} {a r : Nat} (hs : retStep s a = some (s', r)) : s'.futs = s.futs ∧ s'.sfs = s.sfs := by
  unfold retStep at hs
  split at hs
  · split at hs
    · obtain ⟨rfl, _⟩ := Prod.mk.inj (Option.some.inj hs)
      split
      · split <;> exact ⟨rfl, rfl⟩
      · exact ⟨rfl, rfl⟩
    · simp at hs
  · simp at hs

/-- **Result slots and sync-futures only ever hold task wakers, in every reachable state.** -/
theorem taskWakerInv_reachable {s : State} (hr : Reachable s) : TaskWakerInv s := by
  induction hr with
  | init nq ng max => exact ⟨by intro f fu hf; simp [initState] at hf, by intro u sf hu; simp [initState] at hu⟩
  | initP ps ng max => exact ⟨by intro f fu hf; simp [initStateP, initState] at hf, by intro u sf hu; simp [initStateP, initState] at hu⟩
  | step l hprev hstep ih =>
    cases l with
    | act a =>
      simp only [next, Option.map_eq_some_iff] at hstep
      obtain ⟨⟨s1, o⟩, hs, rfl⟩ := hstep
      exact taskWakerInv_stepAct ih hs
    | invoke t parent c =>
      simp only [next] at hstep
      split at hstep
      · simp only [Option.map_eq_some_iff] at hstep
        obtain ⟨⟨s1, a⟩, hs, rfl⟩ := hstep
        exact taskWakerInv_invoke ih hs
      · simp at hstep
    | bodyEnd a =>
      simp only [next, Option.map_eq_some_iff] at hstep
      obtain ⟨⟨s1, o⟩, hs, rfl⟩ := hstep
      unfold bodyEnd at hs
      repeat' split at hs
      all_goals (try (simp at hs; done))
      all_goals (obtain ⟨rfl, _⟩ := Prod.mk.inj (Option.some.inj hs); exact ih.same (by simp) (by simp))
    | ret a =>
      simp only [next, Option.map_eq_some_iff] at hstep
      obtain ⟨⟨s1, r⟩, hs, rfl⟩ := hstep
      exact ih.same (futs_retStep hs).1 (futs_retStep hs).2
    | spuriousUnpark a =>
      simp only [next, Option.map_eq_some_iff] at hstep
      obtain ⟨⟨s1, o⟩, hs, rfl⟩ := hstep
      unfold spuriousUnpark at hs
      repeat' split at hs
      all_goals (try (simp at hs; done))
      all_goals (obtain ⟨rfl, _⟩ := Prod.mk.inj (Option.some.inj hs); exact ih.same (by simp) (by simp))
    | spuriousPoll a =>
      simp only [next] at hstep
      unfold spuriousPoll at hstep
      repeat' split at hstep
      all_goals (try (simp at hstep; done))
      all_goals (cases (Option.some.inj hstep); exact ih.same (by simp) (by simp))

end Desync
