/-
I_job: an activity runs job `j` for queue `q` exactly when `j` is held by it and belongs to `q`; the jobs in a queue's
list are exactly the queued jobs of that queue.
-/
import DesyncModel.Inv.JobProj
import DesyncModel.Inv.JobAbs
import DesyncModel.Inv.JobWf

namespace Desync
open Gen

/-- I_job for a state: the abstract invariant over `runningQ ∘ pcAt`, `jobPQ`, `qjobs` -/
abbrev JobInv (s : State) : Prop := JobInvF (fun a => (s.pcAt a).runningQ) s.jobPQ s.qjobs

theorem jobInv_init (nq ng max : Nat) : JobInv (initState nq ng max) := by
  refine ⟨?_, ?_, ?_, ?_⟩
  · intro a j q h; simp [initState, State.pcAt, Pc.runningQ] at h
  · intro a j q h; simp [initState, State.jobPQ] at h
  · intro q l j h hj
    simp only [initState, State.qjobs, List.getElem?_replicate] at h
    split at h <;> simp at h
    subst h; cases hj
  · intro q l h
    simp only [initState, State.qjobs, List.getElem?_replicate] at h
    split at h <;> simp at h
    subst h; exact List.nodup_nil

/-- A step of activity `a` that changes no job's phase or queue and no queue's job list, and after which `a` runs the
same job as before. -/
theorem JobInv.frame {s X : State} {a : Nat} {pc' : Pc} (h : JobInv s)
    (hpc : ∀ b, X.pcAt b = s.pcAt b) (hj : ∀ i, X.jobPQ i = s.jobPQ i) (hq : ∀ i, X.qjobs i = s.qjobs i)
    (hrun : pc'.runningQ = (s.pcAt a).runningQ) : JobInv (X.goto a pc') := by
  have hpc' : ∀ b, ((X.goto a pc').pcAt b).runningQ = (s.pcAt b).runningQ := by
    intro b
    rw [pcAt_goto]
    split
    · next hab => rw [hrun, hab.1]
    · rw [hpc]
  refine ⟨?_, ?_, ?_, ?_⟩
  · intro b j q hb; rw [hpc'] at hb; rw [jobPQ_goto, hj]; exact h.run1 b j q hb
  · intro b j q hb; rw [jobPQ_goto, hj] at hb; rw [hpc']; exact h.run2 b j q hb
  · intro q l j hl hm; rw [qjobs_goto, hq] at hl; rw [jobPQ_goto, hj]; exact h.queued q l j hl hm
  · intro q l hl; rw [qjobs_goto, hq] at hl; exact h.nodup q l hl

theorem JobInv.frame_setAct {s X : State} {a : Nat} {v : Act} (h : JobInv s)
    (hpc : ∀ b, X.pcAt b = s.pcAt b) (hj : ∀ i, X.jobPQ i = s.jobPQ i) (hq : ∀ i, X.qjobs i = s.qjobs i)
    (hrun : v.pc.runningQ = (s.pcAt a).runningQ) : JobInv (X.setAct a v) := by
  have hpc' : ∀ b, ((X.setAct a v).pcAt b).runningQ = (s.pcAt b).runningQ := by
    intro b
    rw [pcAt_setAct]
    split
    · next hab => rw [hrun, hab.1]
    · rw [hpc]
  refine ⟨?_, ?_, ?_, ?_⟩
  · intro b j q hb; rw [hpc'] at hb; rw [jobPQ_setAct, hj]; exact h.run1 b j q hb
  · intro b j q hb; rw [jobPQ_setAct, hj] at hb; rw [hpc']; exact h.run2 b j q hb
  · intro q l j hl hm; rw [qjobs_setAct, hq] at hl; rw [jobPQ_setAct, hj]; exact h.queued q l j hl hm
  · intro q l hl; rw [qjobs_setAct, hq] at hl; exact h.nodup q l hl

/-- the invariant reads only the program counters (through `runningQ`), `jobPQ` and `qjobs` -/
theorem JobInv.of_eq {s X : State} (h : JobInv s) (hpc : ∀ b, (X.pcAt b).runningQ = (s.pcAt b).runningQ)
    (hj : ∀ i, X.jobPQ i = s.jobPQ i) (hq : ∀ i, X.qjobs i = s.qjobs i) : JobInv X := by
  refine ⟨?_, ?_, ?_, ?_⟩
  · intro b j q hb; rw [hpc] at hb; rw [hj]; exact h.run1 b j q hb
  · intro b j q hb; rw [hj] at hb; rw [hpc]; exact h.run2 b j q hb
  · intro q l j hl hm; rw [hq] at hl; rw [hj]; exact h.queued q l j hl hm
  · intro q l hl; rw [hq] at hl; exact h.nodup q l hl

/-- how `goto` acts on "which job does each activity run" -/
theorem runR_goto {s X : State} {a : Nat} {pc' : Pc} (hlt : a < X.acts.length) (hpc : ∀ b, X.pcAt b = s.pcAt b) :
    ∀ b, ((X.goto a pc').pcAt b).runningQ = if b = a then pc'.runningQ else (s.pcAt b).runningQ := by
  intro b
  rw [pcAt_goto]
  by_cases hab : a = b
  · subst hab; simp [hlt]
  · have : ¬ b = a := fun e => hab e.symm
    simp [hab, this, hpc]

theorem runR_setAct {s X : State} {a : Nat} {v : Act} (hlt : a < X.acts.length) (hpc : ∀ b, X.pcAt b = s.pcAt b) :
    ∀ b, ((X.setAct a v).pcAt b).runningQ = if b = a then v.pc.runningQ else (s.pcAt b).runningQ := by
  intro b
  rw [pcAt_setAct]
  by_cases hab : a = b
  · subst hab; simp [hlt]
  · have : ¬ b = a := fun e => hab e.symm
    simp [hab, this, hpc]

theorem JobInv.retire {s X : State} {a j q : Nat} {pc' : Pc} {ph : Phase} (h : JobInv s)
    (hlt : a < X.acts.length) (hpc : ∀ b, X.pcAt b = s.pcAt b) (hold : (s.pcAt a).runningQ = some (j, q))
    (hph : ∀ b, ph ≠ .held b) (hphq : ph ≠ .queued)
    (hj : ∀ i, X.jobPQ i = if i = j then some (ph, q) else s.jobPQ i) (hq : ∀ i, X.qjobs i = s.qjobs i)
    (hnew : pc'.runningQ = none) : JobInv (X.goto a pc') := by
  have h1 : JobInvF (fun b => ((X.goto a pc').pcAt b).runningQ) X.jobPQ s.qjobs :=
    JobInvF.retire h hold hph hphq (by intro b; rw [runR_goto hlt hpc, hnew]) hj
  exact ⟨fun b j q hb => by rw [jobPQ_goto]; exact h1.run1 b j q hb, fun b j q hb => by rw [jobPQ_goto] at hb; exact h1.run2 b j q hb,
         fun q l j hl hm => by rw [qjobs_goto, hq] at hl; rw [jobPQ_goto]; exact h1.queued q l j hl hm,
         fun q l hl => by rw [qjobs_goto, hq] at hl; exact h1.nodup q l hl⟩

theorem JobInv.requeue {s X : State} {a j q : Nat} {pc' : Pc} (h : JobInv s)
    (hlt : a < X.acts.length) (hpc : ∀ b, X.pcAt b = s.pcAt b) (hold : (s.pcAt a).runningQ = some (j, q))
    (hj : ∀ i, X.jobPQ i = if i = j then some (.queued, q) else s.jobPQ i)
    (hq : ∀ i, X.qjobs i = if i = q then (s.qjobs q).map (j :: ·) else s.qjobs i)
    (hnew : pc'.runningQ = none) : JobInv (X.goto a pc') := by
  have h1 : JobInvF (fun b => ((X.goto a pc').pcAt b).runningQ) X.jobPQ X.qjobs :=
    JobInvF.requeue h hold (by intro b; rw [runR_goto hlt hpc, hnew]) hj hq
  exact ⟨fun b j q hb => by rw [jobPQ_goto]; exact h1.run1 b j q hb, fun b j q hb => by rw [jobPQ_goto] at hb; exact h1.run2 b j q hb,
         fun q l j hl hm => by rw [qjobs_goto] at hl; rw [jobPQ_goto]; exact h1.queued q l j hl hm,
         fun q l hl => by rw [qjobs_goto] at hl; exact h1.nodup q l hl⟩

theorem JobInv.take {s X : State} {a j q : Nat} {rest : List Nat} {pc' : Pc} (h : JobInv s)
    (hlt : a < X.acts.length) (hpc : ∀ b, X.pcAt b = s.pcAt b) (hidle : (s.pcAt a).runningQ = none)
    (hhead : s.qjobs q = some (j :: rest))
    (hj : ∀ i, X.jobPQ i = if i = j then some (.held a, q) else s.jobPQ i)
    (hq : ∀ i, X.qjobs i = if i = q then some rest else s.qjobs i)
    (hnew : pc'.runningQ = some (j, q)) : JobInv (X.goto a pc') := by
  have h1 : JobInvF (fun b => ((X.goto a pc').pcAt b).runningQ) X.jobPQ X.qjobs :=
    JobInvF.take h hidle hhead (by intro b; rw [runR_goto hlt hpc, hnew]) hj hq
  exact ⟨fun b j q hb => by rw [jobPQ_goto]; exact h1.run1 b j q hb, fun b j q hb => by rw [jobPQ_goto] at hb; exact h1.run2 b j q hb,
         fun q l j hl hm => by rw [qjobs_goto] at hl; rw [jobPQ_goto]; exact h1.queued q l j hl hm,
         fun q l hl => by rw [qjobs_goto] at hl; exact h1.nodup q l hl⟩

theorem JobInv.newHeld {s X : State} {a n q : Nat} {pc' : Pc} (h : JobInv s)
    (hlt : a < X.acts.length) (hpc : ∀ b, X.pcAt b = s.pcAt b) (hidle : (s.pcAt a).runningQ = none) (hfresh : s.jobPQ n = none)
    (hj : ∀ i, X.jobPQ i = if i = n then some (.held a, q) else s.jobPQ i) (hq : ∀ i, X.qjobs i = s.qjobs i)
    (hnew : pc'.runningQ = some (n, q)) : JobInv (X.goto a pc') := by
  have h1 : JobInvF (fun b => ((X.goto a pc').pcAt b).runningQ) X.jobPQ s.qjobs :=
    JobInvF.newHeld h hidle hfresh (by intro b; rw [runR_goto hlt hpc, hnew]) hj
  exact ⟨fun b j q hb => by rw [jobPQ_goto]; exact h1.run1 b j q hb, fun b j q hb => by rw [jobPQ_goto] at hb; exact h1.run2 b j q hb,
         fun q l j hl hm => by rw [qjobs_goto, hq] at hl; rw [jobPQ_goto]; exact h1.queued q l j hl hm,
         fun q l hl => by rw [qjobs_goto, hq] at hl; exact h1.nodup q l hl⟩

theorem JobInv.newQueued {s X : State} {a n q : Nat} {l0 : List Nat} {pc' : Pc} (h : JobInv s)
    (hpc : ∀ b, X.pcAt b = s.pcAt b) (hfresh : s.jobPQ n = none) (hq0 : s.qjobs q = some l0)
    (hj : ∀ i, X.jobPQ i = if i = n then some (.queued, q) else s.jobPQ i)
    (hq : ∀ i, X.qjobs i = if i = q then some (l0 ++ [n]) else s.qjobs i)
    (hrun : pc'.runningQ = (s.pcAt a).runningQ) : JobInv (X.goto a pc') := by
  have h0 : JobInvF (fun b => (s.pcAt b).runningQ) X.jobPQ X.qjobs := JobInvF.newQueued h hfresh hq0 hj hq
  have hpc' : ∀ b, ((X.goto a pc').pcAt b).runningQ = (s.pcAt b).runningQ := by
    intro b
    rw [pcAt_goto]
    split
    · next hab => rw [hrun, hab.1]
    · rw [hpc]
  exact ⟨fun b j q hb => by rw [hpc'] at hb; rw [jobPQ_goto]; exact h0.run1 b j q hb, fun b j q hb => by rw [jobPQ_goto] at hb; rw [hpc']; exact h0.run2 b j q hb,
         fun q l j hl hm => by rw [qjobs_goto] at hl; rw [jobPQ_goto]; exact h0.queued q l j hl hm,
         fun q l hl => by rw [qjobs_goto] at hl; exact h0.nodup q l hl⟩

end Desync
