/-
I_job: an activity runs job `j` for queue `q` exactly when `j` is held by it and belongs to `q`; the jobs in a queue's
list are exactly the queued jobs of that queue; an open job is in the hands of a runner or is the head of its queue;
while a job of a queue is in the hands of a runner no queued job of that queue is open.
-/
import DesyncModel.Inv.JobProj
import DesyncModel.Inv.JobAbs
import DesyncModel.Inv.OrderAbs
import DesyncModel.Inv.JobWf

namespace Desync
open Gen

/-- I_job for a state: the abstract invariant over `runningQ ∘ pcAt`, `jobPQ`, `qjobs`, `jobOpen` -/
abbrev JobInv (s : State) : Prop := JobInvF (fun a => (s.pcAt a).runningQ) s.jobPQ s.qjobs s.jobOpen

theorem jobInv_init (nq ng max : Nat) : JobInv (initState nq ng max) := by
  refine ⟨?_, ?_, ?_, ?_, ?_, ?_, ?_⟩
  · intro a j q h; simp [initState, State.pcAt, Pc.runningQ] at h
  · intro a j q h; simp [initState, State.jobPQ] at h
  · intro q l j h hj
    simp only [initState, State.qjobs, List.getElem?_replicate] at h
    split at h <;> simp at h
    subst h; cases hj
  · intro q l h
    simp only [initState, State.qjobs, List.getElem?_replicate] at h
    split at h <;> simp at h
    subst h; exact List.nodup_nil
  · intro j q h; simp [initState, State.jobPQ] at h
  · intro j h; simp [initState, State.jobOpen] at h
  · intro j1 j2 a q h; simp [initState, State.jobPQ] at h

theorem qjobs_initP {ps : List Bool} {ng max q : Nat} {l : List Nat} (h : (initStateP ps ng max).qjobs q = some l) : l = [] := by
  simp only [initStateP, State.qjobs, List.getElem?_map] at h
  cases hp : ps[q]? with
  | none => simp [hp] at h
  | some p => simp [hp] at h; exact h

theorem jobInv_initP (ps : List Bool) (ng max : Nat) : JobInv (initStateP ps ng max) := by
  refine ⟨?_, ?_, ?_, ?_, ?_, ?_, ?_⟩
  · intro a j q h; simp [initStateP, initState, State.pcAt, Pc.runningQ] at h
  · intro a j q h; simp [initStateP, initState, State.jobPQ] at h
  · intro q l j h hj; rw [qjobs_initP h] at hj; cases hj
  · intro q l h; rw [qjobs_initP h]; exact List.nodup_nil
  · intro j q h; simp [initStateP, initState, State.jobPQ] at h
  · intro j h; simp [initStateP, initState, State.jobOpen] at h
  · intro j1 j2 a q h; simp [initStateP, initState, State.jobPQ] at h

/-- the invariant reads only the program counters (through `runningQ`), `jobPQ`, `qjobs` and `jobOpen` -/
theorem JobInv.of_eq {s X : State} (h : JobInv s) (hpc : ∀ b, (X.pcAt b).runningQ = (s.pcAt b).runningQ)
    (hj : ∀ i, X.jobPQ i = s.jobPQ i) (hq : ∀ i, X.qjobs i = s.qjobs i) (ho : ∀ i, X.jobOpen i = s.jobOpen i) : JobInv X := by
  have e1 : (fun a => (X.pcAt a).runningQ) = (fun a => (s.pcAt a).runningQ) := funext hpc
  have e2 : X.jobPQ = s.jobPQ := funext hj
  have e3 : X.qjobs = s.qjobs := funext hq
  have e4 : X.jobOpen = s.jobOpen := funext ho
  show JobInvF _ _ _ _
  rw [e1, e2, e3, e4]; exact h

/-- the invariant reads only `acts`, `jobs` and `qs` -/
theorem JobInv.congr {X Y : State} (h : JobInv Y) (hA : X.acts = Y.acts) (hJ : X.jobs = Y.jobs) (hQ : X.qs = Y.qs) : JobInv X := by
  refine JobInv.of_eq h ?_ ?_ ?_ ?_
  · intro b; simp only [State.pcAt, hA]
  · intro i; simp only [State.jobPQ, hJ]
  · intro i; simp only [State.qjobs, hQ]
  · intro i; simp only [State.jobOpen, hJ]

/-- how `goto` acts on "which job does each activity run" -/
theorem runR_goto {s X : State} {a : Nat} {pc' : Pc} (hlt : a < X.acts.length) (hpc : ∀ b, X.pcAt b = s.pcAt b) :
    ∀ b, ((X.goto a pc').pcAt b).runningQ = if b = a then pc'.runningQ else (s.pcAt b).runningQ := by
  intro b
  rw [pcAt_goto]
  by_cases hab : a = b
  · subst hab; simp [hlt]
  · have : ¬ b = a := fun e => hab e.symm
    simp [hab, this, hpc]

theorem runR_goto_same {s X : State} {a : Nat} {pc' : Pc} (hpc : ∀ b, X.pcAt b = s.pcAt b) (hrun : pc'.runningQ = (s.pcAt a).runningQ) :
    ∀ b, ((X.goto a pc').pcAt b).runningQ = (s.pcAt b).runningQ := by
  intro b
  rw [pcAt_goto]
  split
  · next hab => rw [hrun, hab.1]
  · rw [hpc]

theorem runR_setAct_same {s X : State} {a : Nat} {v : Act} (hpc : ∀ b, X.pcAt b = s.pcAt b) (hrun : v.pc.runningQ = (s.pcAt a).runningQ) :
    ∀ b, ((X.setAct a v).pcAt b).runningQ = (s.pcAt b).runningQ := by
  intro b
  rw [pcAt_setAct]
  split
  · next hab => rw [hrun, hab.1]
  · rw [hpc]

/-- transport along pointwise equalities of the four projections -/
theorem JobInvF.congr {R R' J J' Q Q' O O'} (h : JobInvF R J Q O) (hR : ∀ b, R' b = R b) (hJ : ∀ i, J' i = J i) (hQ : ∀ i, Q' i = Q i) (hO : ∀ i, O' i = O i) :
    JobInvF R' J' Q' O' := by
  have e1 : R' = R := funext hR
  have e2 : J' = J := funext hJ
  have e3 : Q' = Q := funext hQ
  have e4 : O' = O := funext hO
  rw [e1, e2, e3, e4]; exact h

/-- A step of activity `a` that changes no job's phase or queue and no queue's job list, after which `a` runs the same
job as before, and that opens or closes only jobs that are in the hands of a runner. -/
theorem JobInv.frame {s X : State} {a : Nat} {pc' : Pc} (h : JobInv s)
    (hpc : ∀ b, X.pcAt b = s.pcAt b) (hj : ∀ i, X.jobPQ i = s.jobPQ i) (hq : ∀ i, X.qjobs i = s.qjobs i)
    (ho : ∀ i, X.jobOpen i = true → s.jobOpen i = true ∨ ∃ a q, s.jobPQ i = some (.held a, q))
    (hrun : pc'.runningQ = (s.pcAt a).runningQ) : JobInv (X.goto a pc') := by
  have h1 : JobInvF (fun b => (s.pcAt b).runningQ) s.jobPQ s.qjobs X.jobOpen := JobInvF.frameO h ho
  exact JobInvF.congr h1 (runR_goto_same hpc hrun) (fun i => by rw [jobPQ_goto, hj]) (fun i => by rw [qjobs_goto, hq]) (fun i => by rw [jobOpen_goto])

theorem JobInv.frame_setAct {s X : State} {a : Nat} {v : Act} (h : JobInv s)
    (hpc : ∀ b, X.pcAt b = s.pcAt b) (hj : ∀ i, X.jobPQ i = s.jobPQ i) (hq : ∀ i, X.qjobs i = s.qjobs i)
    (ho : ∀ i, X.jobOpen i = true → s.jobOpen i = true ∨ ∃ a q, s.jobPQ i = some (.held a, q))
    (hrun : v.pc.runningQ = (s.pcAt a).runningQ) : JobInv (X.setAct a v) := by
  have h1 : JobInvF (fun b => (s.pcAt b).runningQ) s.jobPQ s.qjobs X.jobOpen := JobInvF.frameO h ho
  exact JobInvF.congr h1 (runR_setAct_same hpc hrun) (fun i => by rw [jobPQ_setAct, hj]) (fun i => by rw [qjobs_setAct, hq]) (fun i => by rw [jobOpen_setAct])

theorem JobInv.retire {s X : State} {a j q : Nat} {pc' : Pc} {ph : Phase} (h : JobInv s)
    (hlt : a < X.acts.length) (hpc : ∀ b, X.pcAt b = s.pcAt b) (hold : (s.pcAt a).runningQ = some (j, q))
    (hph : ∀ b, ph ≠ .held b) (hphq : ph ≠ .queued)
    (hj : ∀ i, X.jobPQ i = if i = j then some (ph, q) else s.jobPQ i) (hq : ∀ i, X.qjobs i = s.qjobs i)
    (ho : ∀ i, X.jobOpen i = if i = j then false else s.jobOpen i)
    (hnew : pc'.runningQ = none) : JobInv (X.goto a pc') := by
  have h1 : JobInvF (fun b => ((X.goto a pc').pcAt b).runningQ) X.jobPQ s.qjobs X.jobOpen :=
    JobInvF.retire h hold hph hphq (by intro b; rw [runR_goto hlt hpc, hnew]) hj ho
  exact JobInvF.congr h1 (fun _ => rfl) (fun i => by rw [jobPQ_goto]) (fun i => by rw [qjobs_goto, hq]) (fun i => by rw [jobOpen_goto])

theorem JobInv.requeue {s X : State} {a j q : Nat} {l0 : List Nat} {pc' : Pc} (h : JobInv s) (hx : HeldExcl s.jobPQ)
    (hlt : a < X.acts.length) (hpc : ∀ b, X.pcAt b = s.pcAt b) (hold : (s.pcAt a).runningQ = some (j, q)) (hq0 : s.qjobs q = some l0)
    (hj : ∀ i, X.jobPQ i = if i = j then some (.queued, q) else s.jobPQ i)
    (hq : ∀ i, X.qjobs i = if i = q then some (j :: l0) else s.qjobs i)
    (ho : ∀ i, X.jobOpen i = s.jobOpen i)
    (hnew : pc'.runningQ = none) : JobInv (X.goto a pc') := by
  have h1 : JobInvF (fun b => ((X.goto a pc').pcAt b).runningQ) X.jobPQ X.qjobs s.jobOpen :=
    JobInvF.requeue h hx hold hq0 (by intro b; rw [runR_goto hlt hpc, hnew]) hj hq
  exact JobInvF.congr h1 (fun _ => rfl) (fun i => by rw [jobPQ_goto]) (fun i => by rw [qjobs_goto]) (fun i => by rw [jobOpen_goto, ho])

theorem JobInv.take {s X : State} {a j q : Nat} {rest : List Nat} {pc' : Pc} (h : JobInv s)
    (hlt : a < X.acts.length) (hpc : ∀ b, X.pcAt b = s.pcAt b) (hidle : (s.pcAt a).runningQ = none)
    (hhead : s.qjobs q = some (j :: rest))
    (hj : ∀ i, X.jobPQ i = if i = j then some (.held a, q) else s.jobPQ i)
    (hq : ∀ i, X.qjobs i = if i = q then some rest else s.qjobs i)
    (ho : ∀ i, X.jobOpen i = s.jobOpen i)
    (hnew : pc'.runningQ = some (j, q)) : JobInv (X.goto a pc') := by
  have h1 : JobInvF (fun b => ((X.goto a pc').pcAt b).runningQ) X.jobPQ X.qjobs s.jobOpen :=
    JobInvF.take h hidle hhead (by intro b; rw [runR_goto hlt hpc, hnew]) hj hq
  exact JobInvF.congr h1 (fun _ => rfl) (fun i => by rw [jobPQ_goto]) (fun i => by rw [qjobs_goto]) (fun i => by rw [jobOpen_goto, ho])

theorem JobInv.newHeld {s X : State} {a n q : Nat} {pc' : Pc} (h : JobInv s)
    (hlt : a < X.acts.length) (hpc : ∀ b, X.pcAt b = s.pcAt b) (hidle : (s.pcAt a).runningQ = none) (hfresh : s.jobPQ n = none)
    (hempty : s.qjobs q = some [])
    (hj : ∀ i, X.jobPQ i = if i = n then some (.held a, q) else s.jobPQ i) (hq : ∀ i, X.qjobs i = s.qjobs i)
    (ho : ∀ i, i ≠ n → X.jobOpen i = s.jobOpen i)
    (hnew : pc'.runningQ = some (n, q)) : JobInv (X.goto a pc') := by
  have h1 : JobInvF (fun b => ((X.goto a pc').pcAt b).runningQ) X.jobPQ s.qjobs X.jobOpen :=
    JobInvF.newHeld h hidle hfresh hempty (by intro b; rw [runR_goto hlt hpc, hnew]) hj ho
  exact JobInvF.congr h1 (fun _ => rfl) (fun i => by rw [jobPQ_goto]) (fun i => by rw [qjobs_goto, hq]) (fun i => by rw [jobOpen_goto])

theorem JobInv.newQueued {s X : State} {a n q : Nat} {l0 : List Nat} {pc' : Pc} (h : JobInv s)
    (hpc : ∀ b, X.pcAt b = s.pcAt b) (hfresh : s.jobPQ n = none) (hq0 : s.qjobs q = some l0)
    (hj : ∀ i, X.jobPQ i = if i = n then some (.queued, q) else s.jobPQ i)
    (hq : ∀ i, X.qjobs i = if i = q then some (l0 ++ [n]) else s.qjobs i)
    (ho : ∀ i, X.jobOpen i = if i = n then false else s.jobOpen i)
    (hrun : pc'.runningQ = (s.pcAt a).runningQ) : JobInv (X.goto a pc') := by
  have h0 : JobInvF (fun b => (s.pcAt b).runningQ) X.jobPQ X.qjobs X.jobOpen := JobInvF.newQueued h hfresh hq0 hj hq ho
  exact JobInvF.congr h0 (runR_goto_same hpc hrun) (fun i => by rw [jobPQ_goto]) (fun i => by rw [qjobs_goto]) (fun i => by rw [jobOpen_goto])

/-- side condition of `frame` for a `setJob` that keeps the open flag -/
theorem ho_setJob_keep {s : State} {j : Nat} {b v : Job} (hj : s.jobs[j]? = some b) (hk : v.begun = b.begun ∧ v.ended = b.ended) :
    ∀ i, (s.setJob j v).jobOpen i = true → s.jobOpen i = true ∨ ∃ a q, s.jobPQ i = some (.held a, q) := by
  intro i hi
  rw [jobOpen_setJob_keep hj hk.1 hk.2] at hi
  exact Or.inl hi

/-- side condition of `frame` for a `setJob` on a job that is in the hands of a runner -/
theorem ho_setJob_held {s : State} {j : Nat} {b v : Job} (hj : s.jobs[j]? = some b) (hh : ∃ a q, s.jobPQ j = some (.held a, q)) :
    ∀ i, (s.setJob j v).jobOpen i = true → s.jobOpen i = true ∨ ∃ a q, s.jobPQ i = some (.held a, q) := by
  intro i hi
  rw [jobOpen_setJob_of hj] at hi
  split at hi
  · next e => rw [e]; exact Or.inr hh
  · exact Or.inl hi

/-- at most one job per queue is in the hands of a runner: from the run-right invariant -/
theorem heldExcl_of {s : State} (hh : HolderInv s) (hw : WfInv s) (h : JobInv s) : HeldExcl s.jobPQ := by
  intro j1 j2 a1 a2 q h1 h2
  have r1 := h.run2 a1 j1 q h1
  have r2 := h.run2 a2 j2 q h2
  have o1 := (hh.iff a1 q).mp (holds_of_runningQ (hw a1) r1)
  have o2 := (hh.iff a2 q).mp (holds_of_runningQ (hw a2) r2)
  rw [o1] at o2
  have ha : a1 = a2 := by simpa using o2
  subst ha
  rw [r1] at r2
  simpa using congrArg Prod.fst (Option.some.inj r2)


/-! ### the job invariant together with the order invariant -/

abbrev OrderInv (s : State) : Prop := OrderInvF s.jobPQ s.qjobs s.jobB s.jobE s.jobs.length

structure FullInv (s : State) : Prop where
  job : JobInv s
  ord : OrderInv s

theorem FullInv.run1 {s : State} (h : FullInv s) : ∀ a j q, (s.pcAt a).runningQ = some (j, q) → s.jobPQ j = some (.held a, q) := h.job.run1
theorem FullInv.run2 {s : State} (h : FullInv s) : ∀ a j q, s.jobPQ j = some (.held a, q) → (s.pcAt a).runningQ = some (j, q) := h.job.run2
theorem FullInv.queued {s : State} (h : FullInv s) : ∀ q l j, s.qjobs q = some l → j ∈ l → s.jobPQ j = some (.queued, q) := h.job.queued
theorem FullInv.nodup {s : State} (h : FullInv s) : ∀ q l, s.qjobs q = some l → l.Nodup := h.job.nodup

theorem fullInv_init (nq ng max : Nat) : FullInv (initState nq ng max) := by
  refine ⟨jobInv_init nq ng max, ?_, ?_, ?_, ?_, ?_⟩
  · intro j pq h; simp [initState, State.jobPQ] at h
  · intro q l h
    simp only [initState, State.qjobs, List.getElem?_replicate] at h
    split at h <;> simp at h
    subst h; exact List.Pairwise.nil
  · intro j1 j2 a q h; simp [initState, State.jobPQ] at h
  · intro j q h; simp [initState, State.jobPQ] at h
  · intro j1 j2 q p1 p2 _ h; simp [initState, State.jobPQ] at h

theorem fullInv_initP (ps : List Bool) (ng max : Nat) : FullInv (initStateP ps ng max) := by
  refine ⟨jobInv_initP ps ng max, ?_, ?_, ?_, ?_, ?_⟩
  · intro j pq h; simp [initStateP, initState, State.jobPQ] at h
  · intro q l h; rw [qjobs_initP h]; exact List.Pairwise.nil
  · intro j1 j2 a q h; simp [initStateP, initState, State.jobPQ] at h
  · intro j q h; simp [initStateP, initState, State.jobPQ] at h
  · intro j1 j2 q p1 p2 _ h; simp [initStateP, initState, State.jobPQ] at h

theorem OrderInvF.congr {J J' Q Q' B B' E E' N N'} (h : OrderInvF J Q B E N) (hJ : ∀ i, J' i = J i) (hQ : ∀ i, Q' i = Q i) (hB : ∀ i, B' i = B i) (hE : ∀ i, E' i = E i) (hN : N' = N) :
    OrderInvF J' Q' B' E' N' := by
  have e2 : J' = J := funext hJ
  have e3 : Q' = Q := funext hQ
  have e4 : B' = B := funext hB
  have e5 : E' = E := funext hE
  rw [e2, e3, e4, e5, hN]; exact h

theorem FullInv.of_eq {s X : State} (h : FullInv s) (hpc : ∀ b, (X.pcAt b).runningQ = (s.pcAt b).runningQ)
    (hj : ∀ i, X.jobPQ i = s.jobPQ i) (hq : ∀ i, X.qjobs i = s.qjobs i) (hb : ∀ i, X.jobB i = s.jobB i) (he : ∀ i, X.jobE i = s.jobE i)
    (hn : X.jobs.length = s.jobs.length) : FullInv X :=
  ⟨JobInv.of_eq h.job hpc hj hq (fun i => by rw [jobOpen_eq, jobOpen_eq, hb, he]), OrderInvF.congr h.ord hj hq hb he hn⟩

theorem FullInv.congr {X Y : State} (h : FullInv Y) (hA : X.acts = Y.acts) (hJ : X.jobs = Y.jobs) (hQ : X.qs = Y.qs) : FullInv X := by
  refine FullInv.of_eq h ?_ ?_ ?_ ?_ ?_ (by rw [hJ])
  · intro b; simp only [State.pcAt, hA]
  · intro i; simp only [State.jobPQ, hJ]
  · intro i; simp only [State.qjobs, hQ]
  · intro i; simp only [State.jobB, hJ]
  · intro i; simp only [State.jobE, hJ]

theorem open_of_be {s X : State} (hb : ∀ i, X.jobB i = true → s.jobB i = true ∨ ∃ a q, s.jobPQ i = some (.held a, q))
    (he : ∀ i, s.jobE i = true → X.jobE i = true) :
    ∀ i, X.jobOpen i = true → s.jobOpen i = true ∨ ∃ a q, s.jobPQ i = some (.held a, q) := by
  intro i hi
  rw [jobOpen_eq] at hi
  simp at hi
  rcases hb i hi.1 with h1 | h1
  · left
    rw [jobOpen_eq]
    simp only [h1, Bool.true_and, Bool.not_eq_eq_eq_not, Bool.not_true]
    cases hx : s.jobE i with
    | false => rfl
    | true => have := he i hx; rw [hi.2] at this; cases this
  · exact Or.inr h1

theorem FullInv.frame {s X : State} {a : Nat} {pc' : Pc} (h : FullInv s) (hx : HeldExcl s.jobPQ)
    (hpc : ∀ b, X.pcAt b = s.pcAt b) (hj : ∀ i, X.jobPQ i = s.jobPQ i) (hq : ∀ i, X.qjobs i = s.qjobs i)
    (hb : ∀ i, X.jobB i = true → s.jobB i = true ∨ ∃ a q, s.jobPQ i = some (.held a, q))
    (he : ∀ i, s.jobE i = true → X.jobE i = true) (hn : X.jobs.length = s.jobs.length)
    (hrun : pc'.runningQ = (s.pcAt a).runningQ) : FullInv (X.goto a pc') := by
  refine ⟨JobInv.frame h.job hpc hj hq (open_of_be hb he) hrun, ?_⟩
  have h1 : OrderInvF s.jobPQ s.qjobs X.jobB X.jobE s.jobs.length := OrderInvF.frameBE h.job hx h.ord hb he
  exact OrderInvF.congr h1 (fun i => by rw [jobPQ_goto, hj]) (fun i => by rw [qjobs_goto, hq]) (fun i => by rw [jobB_goto]) (fun i => by rw [jobE_goto])
    (by rw [show (X.goto a pc').jobs = X.jobs by unfold State.goto; split <;> rfl, hn])

theorem FullInv.frame_setAct {s X : State} {a : Nat} {v : Act} (h : FullInv s) (hx : HeldExcl s.jobPQ)
    (hpc : ∀ b, X.pcAt b = s.pcAt b) (hj : ∀ i, X.jobPQ i = s.jobPQ i) (hq : ∀ i, X.qjobs i = s.qjobs i)
    (hb : ∀ i, X.jobB i = true → s.jobB i = true ∨ ∃ a q, s.jobPQ i = some (.held a, q))
    (he : ∀ i, s.jobE i = true → X.jobE i = true) (hn : X.jobs.length = s.jobs.length)
    (hrun : v.pc.runningQ = (s.pcAt a).runningQ) : FullInv (X.setAct a v) := by
  refine ⟨JobInv.frame_setAct h.job hpc hj hq (open_of_be hb he) hrun, ?_⟩
  have h1 : OrderInvF s.jobPQ s.qjobs X.jobB X.jobE s.jobs.length := OrderInvF.frameBE h.job hx h.ord hb he
  exact OrderInvF.congr h1 (fun i => by rw [jobPQ_setAct, hj]) (fun i => by rw [qjobs_setAct, hq]) (fun i => by rw [jobB_setAct]) (fun i => by rw [jobE_setAct]) hn

theorem FullInv.retire {s X : State} {a j q : Nat} {pc' : Pc} (h : FullInv s)
    (hlt : a < X.acts.length) (hpc : ∀ b, X.pcAt b = s.pcAt b) (hold : (s.pcAt a).runningQ = some (j, q))
    (hj : ∀ i, X.jobPQ i = if i = j then some (.done, q) else s.jobPQ i) (hq : ∀ i, X.qjobs i = s.qjobs i)
    (hb : ∀ i, X.jobB i = s.jobB i) (he : ∀ i, X.jobE i = if i = j then true else s.jobE i) (hn : X.jobs.length = s.jobs.length)
    (hnew : pc'.runningQ = none) : FullInv (X.goto a pc') := by
  refine ⟨JobInv.retire (ph := .done) h.job hlt hpc hold (by intro c; simp) (by simp) hj hq ?_ hnew, ?_⟩
  · intro i
    rw [jobOpen_eq, jobOpen_eq, hb, he]
    split <;> simp
  · have h1 : OrderInvF X.jobPQ s.qjobs s.jobB X.jobE s.jobs.length := OrderInvF.retire h.job h.ord hold hj he
    exact OrderInvF.congr h1 (fun i => by rw [jobPQ_goto]) (fun i => by rw [qjobs_goto, hq]) (fun i => by rw [jobB_goto, hb]) (fun i => by rw [jobE_goto]) (by rw [jobs_goto, hn])

theorem FullInv.requeue {s X : State} {a j q : Nat} {l0 : List Nat} {pc' : Pc} (h : FullInv s) (hx : HeldExcl s.jobPQ)
    (hlt : a < X.acts.length) (hpc : ∀ b, X.pcAt b = s.pcAt b) (hold : (s.pcAt a).runningQ = some (j, q)) (hq0 : s.qjobs q = some l0)
    (hj : ∀ i, X.jobPQ i = if i = j then some (.queued, q) else s.jobPQ i)
    (hq : ∀ i, X.qjobs i = if i = q then some (j :: l0) else s.qjobs i)
    (hb : ∀ i, X.jobB i = s.jobB i) (he : ∀ i, X.jobE i = s.jobE i) (hn : X.jobs.length = s.jobs.length)
    (hnew : pc'.runningQ = none) : FullInv (X.goto a pc') := by
  refine ⟨JobInv.requeue h.job hx hlt hpc hold hq0 hj hq (fun i => by rw [jobOpen_eq, jobOpen_eq, hb, he]) hnew, ?_⟩
  have h1 : OrderInvF X.jobPQ X.qjobs s.jobB s.jobE s.jobs.length := OrderInvF.requeue h.job hx h.ord hold hq0 hj hq
  exact OrderInvF.congr h1 (fun i => by rw [jobPQ_goto]) (fun i => by rw [qjobs_goto]) (fun i => by rw [jobB_goto, hb]) (fun i => by rw [jobE_goto, he]) (by rw [jobs_goto, hn])

theorem FullInv.take {s X : State} {a j q : Nat} {rest : List Nat} {pc' : Pc} (h : FullInv s)
    (hlt : a < X.acts.length) (hpc : ∀ b, X.pcAt b = s.pcAt b) (hidle : (s.pcAt a).runningQ = none)
    (hhead : s.qjobs q = some (j :: rest))
    (hj : ∀ i, X.jobPQ i = if i = j then some (.held a, q) else s.jobPQ i)
    (hq : ∀ i, X.qjobs i = if i = q then some rest else s.qjobs i)
    (hb : ∀ i, X.jobB i = s.jobB i) (he : ∀ i, X.jobE i = s.jobE i) (hn : X.jobs.length = s.jobs.length)
    (hnew : pc'.runningQ = some (j, q)) : FullInv (X.goto a pc') := by
  refine ⟨JobInv.take h.job hlt hpc hidle hhead hj hq (fun i => by rw [jobOpen_eq, jobOpen_eq, hb, he]) hnew, ?_⟩
  have h1 : OrderInvF X.jobPQ X.qjobs s.jobB s.jobE s.jobs.length := OrderInvF.take h.job h.ord hhead hj hq
  exact OrderInvF.congr h1 (fun i => by rw [jobPQ_goto]) (fun i => by rw [qjobs_goto]) (fun i => by rw [jobB_goto, hb]) (fun i => by rw [jobE_goto, he]) (by rw [jobs_goto, hn])

theorem FullInv.newHeld {s X : State} {a q : Nat} {pc' : Pc} (h : FullInv s)
    (hlt : a < X.acts.length) (hpc : ∀ b, X.pcAt b = s.pcAt b) (hidle : (s.pcAt a).runningQ = none)
    (hempty : s.qjobs q = some []) (hnoh : ∀ j a', s.jobPQ j ≠ some (.held a', q))
    (hj : ∀ i, X.jobPQ i = if i = s.jobs.length then some (.held a, q) else s.jobPQ i) (hq : ∀ i, X.qjobs i = s.qjobs i)
    (hb : ∀ i, i ≠ s.jobs.length → X.jobB i = s.jobB i) (he : ∀ i, i ≠ s.jobs.length → X.jobE i = s.jobE i)
    (hn : X.jobs.length = s.jobs.length + 1)
    (hnew : pc'.runningQ = some (s.jobs.length, q)) : FullInv (X.goto a pc') := by
  refine ⟨JobInv.newHeld h.job hlt hpc hidle (jobPQ_fresh s) hempty hj hq (fun i hi => by rw [jobOpen_eq, jobOpen_eq, hb i hi, he i hi]) hnew, ?_⟩
  have hnoq : ∀ j, s.jobPQ j ≠ some (.queued, q) := by
    intro j hq'
    obtain ⟨l, hl, hm⟩ := h.job.member j q hq'
    rw [hempty] at hl; simp at hl; subst hl; cases hm
  have h1 : OrderInvF X.jobPQ s.qjobs X.jobB X.jobE (s.jobs.length + 1) :=
    OrderInvF.newHeld h.ord (fun i hi => jobPQ_none_of_ge s i hi) hnoq hnoh hj hb he
  exact OrderInvF.congr h1 (fun i => by rw [jobPQ_goto]) (fun i => by rw [qjobs_goto, hq]) (fun i => by rw [jobB_goto]) (fun i => by rw [jobE_goto]) (by rw [jobs_goto, hn])

theorem FullInv.newQueued {s X : State} {a q : Nat} {l0 : List Nat} {pc' : Pc} (h : FullInv s)
    (hpc : ∀ b, X.pcAt b = s.pcAt b) (hq0 : s.qjobs q = some l0)
    (hj : ∀ i, X.jobPQ i = if i = s.jobs.length then some (.queued, q) else s.jobPQ i)
    (hq : ∀ i, X.qjobs i = if i = q then some (l0 ++ [s.jobs.length]) else s.qjobs i)
    (hb : ∀ i, X.jobB i = s.jobB i) (he : ∀ i, X.jobE i = s.jobE i) (hn : X.jobs.length = s.jobs.length + 1)
    (hrun : pc'.runningQ = (s.pcAt a).runningQ) : FullInv (X.goto a pc') := by
  have hbN : s.jobB s.jobs.length = false := jobB_fresh s _ (Nat.le_refl _)
  have heN : s.jobE s.jobs.length = false := jobE_fresh s _ (Nat.le_refl _)
  refine ⟨JobInv.newQueued h.job hpc (jobPQ_fresh s) hq0 hj hq ?_ hrun, ?_⟩
  · intro i
    rw [jobOpen_eq, jobOpen_eq, hb, he]
    split
    · next e => rw [e, hbN]; rfl
    · rfl
  · have h1 : OrderInvF X.jobPQ X.qjobs X.jobB X.jobE (s.jobs.length + 1) :=
      OrderInvF.newQueued h.job h.ord (fun i hi => jobPQ_none_of_ge s i hi) hq0 hj hq
        (B' := X.jobB) (E' := X.jobE) (fun i => by rw [hb]; by_cases e : i = s.jobs.length <;> simp [e, hbN]) (fun i _ => he i)
    exact OrderInvF.congr h1 (fun i => by rw [jobPQ_goto]) (fun i => by rw [qjobs_goto]) (fun i => by rw [jobB_goto]) (fun i => by rw [jobE_goto]) (by rw [jobs_goto, hn])

/-- side conditions of `frame` for a `setJob` -/
theorem hb_setJob_keep {s : State} {j : Nat} {b v : Job} (hj : s.jobs[j]? = some b) (hk : v.begun = b.begun) :
    ∀ i, (s.setJob j v).jobB i = true → s.jobB i = true ∨ ∃ a q, s.jobPQ i = some (.held a, q) := by
  intro i hi
  rw [jobB_setJob_of hj] at hi
  split at hi
  · next e => rw [e, jobB_of hj, ← hk]; exact Or.inl hi
  · exact Or.inl hi

theorem hb_setJob_held {s : State} {j : Nat} {b v : Job} (hj : s.jobs[j]? = some b) (hh : ∃ a q, s.jobPQ j = some (.held a, q)) :
    ∀ i, (s.setJob j v).jobB i = true → s.jobB i = true ∨ ∃ a q, s.jobPQ i = some (.held a, q) := by
  intro i hi
  rw [jobB_setJob_of hj] at hi
  split at hi
  · next e => rw [e]; exact Or.inr hh
  · exact Or.inl hi

theorem he_setJob {s : State} {j : Nat} {b v : Job} (hj : s.jobs[j]? = some b) (hk : b.ended = true → v.ended = true) :
    ∀ i, s.jobE i = true → (s.setJob j v).jobE i = true := by
  intro i hi
  rw [jobE_setJob_of hj]
  split
  · next e => rw [e, jobE_of hj] at hi; exact hk hi
  · exact hi

end Desync
