/-
The queue a SchedulerFuture is the designated poller of (C07 / C08, defect F6).

`WaitingForPoll(f)` means: only future `f` may run this queue again.  `Drop for SchedulerFuture` hands such a queue back, but it
looks at the queue only when its own `draining` flag is set.  The invariant: whenever a queue is `WaitingForPoll(f)`, future
`f` exists, belongs to that very queue and has `draining` set — so dropping `f` always releases the queue
(`C07.dropped_poller_hands_back`), and no other future's drop ever touches it.
-/
import DesyncModel.Inv.SigStep
import DesyncModel.Tables
namespace Desync
open Gen

def State.futQ (s : State) (f : Nat) : Option Nat := (s.futs[f]?).map (·.q)
def State.futDr (s : State) (f : Nat) : Bool := match s.futs[f]? with | some fu => fu.draining | none => false
def State.qSt (s : State) (q : Nat) : Option QState := (s.qs[q]?).map (·.state)

theorem futQ_of {s : State} {f : Nat} {fu : Fut} (h : s.futs[f]? = some fu) : s.futQ f = some fu.q := by simp [State.futQ, h]
theorem futDr_of {s : State} {f : Nat} {fu : Fut} (h : s.futs[f]? = some fu) : s.futDr f = fu.draining := by simp [State.futDr, h]
theorem qSt_of {s : State} {q : Nat} {v : JobQ} (h : s.qs[q]? = some v) : s.qSt q = some v.state := by simp [State.qSt, h]

theorem futQ_congr {X s : State} (h : X.futs = s.futs) (f : Nat) : X.futQ f = s.futQ f := by simp only [State.futQ, h]
theorem futDr_congr {X s : State} (h : X.futs = s.futs) (f : Nat) : X.futDr f = s.futDr f := by simp only [State.futDr, h]
theorem qSt_congr {X s : State} (h : X.qs = s.qs) (q : Nat) : X.qSt q = s.qSt q := by simp only [State.qSt, h]

theorem futQ_setFut {s : State} {f : Nat} {fu v : Fut} (hf : s.futs[f]? = some fu) (hq : v.q = fu.q) (i : Nat) :
    (s.setFut f v).futQ i = s.futQ i := by
  have hlt : f < s.futs.length := (List.getElem?_eq_some_iff.mp hf).1
  simp only [State.futQ, State.setFut, List.getElem?_set]
  by_cases h : f = i
  · subst h
    have hg : s.futs[f] = fu := (List.getElem?_eq_some_iff.mp hf).2
    simp [hlt, hq, hg]
  · simp [h]

theorem futDr_setFut {s : State} {f : Nat} {fu : Fut} (hf : s.futs[f]? = some fu) (v : Fut) (i : Nat) :
    (s.setFut f v).futDr i = if i = f then v.draining else s.futDr i := by
  have hlt : f < s.futs.length := (List.getElem?_eq_some_iff.mp hf).1
  simp only [State.futDr, State.setFut, List.getElem?_set]
  by_cases h : f = i
  · subst h; simp [hlt]
  · have : ¬ i = f := fun e => h e.symm
    simp [h, this]

theorem qSt_setQ {s : State} {q : Nat} {v : JobQ} (hv : s.qs[q]? = some v) (v' : JobQ) (i : Nat) :
    (s.setQ q v').qSt i = if i = q then some v'.state else s.qSt i := by
  have hlt : q < s.qs.length := (List.getElem?_eq_some_iff.mp hv).1
  simp only [State.qSt, State.setQ, List.getElem?_set]
  by_cases h : q = i
  · subst h; simp [hlt]
  · have : ¬ i = q := fun e => h e.symm
    simp [h, this]

@[simp] theorem futQ_setQ (s : State) (q : Nat) (v : JobQ) (i : Nat) : (s.setQ q v).futQ i = s.futQ i := futQ_congr (by simp) i
@[simp] theorem futQ_setJob (s : State) (j : Nat) (v : Job) (i : Nat) : (s.setJob j v).futQ i = s.futQ i := futQ_congr (by simp) i
@[simp] theorem futQ_setGate (s : State) (g : Nat) (v : Gate) (i : Nat) : (s.setGate g v).futQ i = s.futQ i := futQ_congr (by simp) i
@[simp] theorem futQ_setAct (s : State) (a : Nat) (v : Act) (i : Nat) : (s.setAct a v).futQ i = s.futQ i := futQ_congr (by simp) i
@[simp] theorem futQ_setSf (s : State) (u : Nat) (v : SyncFut) (i : Nat) : (s.setSf u v).futQ i = s.futQ i := futQ_congr (by simp) i
@[simp] theorem futQ_setPThr (s : State) (p : Nat) (v : PThr) (i : Nat) : (s.setPThr p v).futQ i = s.futQ i := futQ_congr (by simp) i
@[simp] theorem futQ_setHolder (s : State) (q : Nat) (h : Option Nat) (i : Nat) : (s.setHolder q h).futQ i = s.futQ i := futQ_congr (by simp) i
@[simp] theorem futQ_takeReady (s : State) (w a : Nat) (i : Nat) : (s.takeReady w a).futQ i = s.futQ i := futQ_congr (by simp) i
@[simp] theorem futQ_dropReady (s : State) (w : Nat) (i : Nat) : (s.dropReady w).futQ i = s.futQ i := futQ_congr (by simp) i
@[simp] theorem futQ_goto (s : State) (a : Nat) (pc : Pc) (i : Nat) : (s.goto a pc).futQ i = s.futQ i := futQ_congr (by simp) i
@[simp] theorem futQ_setWoken (s : State) (a : Nat) (b : Bool) (i : Nat) : (s.setWoken a b).futQ i = s.futQ i := futQ_congr (by simp) i
@[simp] theorem futQ_notify (s : State) (w : Nat) (i : Nat) : (s.notify w).futQ i = s.futQ i := futQ_congr (by simp) i
@[simp] theorem futQ_setJobPh (s : State) (j : Nat) (ph : Phase) (i : Nat) : (s.setJobPh j ph).futQ i = s.futQ i := futQ_congr (by simp) i
@[simp] theorem futQ_setQState (s : State) (q : Nat) (st : QState) (i : Nat) : (s.setQState q st).futQ i = s.futQ i := futQ_congr (by simp) i
@[simp] theorem futQ_pushFront (s : State) (q j : Nat) (i : Nat) : (s.pushFront q j).futQ i = s.futQ i := futQ_congr (by simp) i
@[simp] theorem futQ_pushBack (s : State) (q j : Nat) (i : Nat) : (s.pushBack q j).futQ i = s.futQ i := futQ_congr (by simp) i
@[simp] theorem futDr_setQ (s : State) (q : Nat) (v : JobQ) (i : Nat) : (s.setQ q v).futDr i = s.futDr i := futDr_congr (by simp) i
@[simp] theorem futDr_setJob (s : State) (j : Nat) (v : Job) (i : Nat) : (s.setJob j v).futDr i = s.futDr i := futDr_congr (by simp) i
@[simp] theorem futDr_setGate (s : State) (g : Nat) (v : Gate) (i : Nat) : (s.setGate g v).futDr i = s.futDr i := futDr_congr (by simp) i
@[simp] theorem futDr_setAct (s : State) (a : Nat) (v : Act) (i : Nat) : (s.setAct a v).futDr i = s.futDr i := futDr_congr (by simp) i
@[simp] theorem futDr_setSf (s : State) (u : Nat) (v : SyncFut) (i : Nat) : (s.setSf u v).futDr i = s.futDr i := futDr_congr (by simp) i
@[simp] theorem futDr_setPThr (s : State) (p : Nat) (v : PThr) (i : Nat) : (s.setPThr p v).futDr i = s.futDr i := futDr_congr (by simp) i
@[simp] theorem futDr_setHolder (s : State) (q : Nat) (h : Option Nat) (i : Nat) : (s.setHolder q h).futDr i = s.futDr i := futDr_congr (by simp) i
@[simp] theorem futDr_takeReady (s : State) (w a : Nat) (i : Nat) : (s.takeReady w a).futDr i = s.futDr i := futDr_congr (by simp) i
@[simp] theorem futDr_dropReady (s : State) (w : Nat) (i : Nat) : (s.dropReady w).futDr i = s.futDr i := futDr_congr (by simp) i
@[simp] theorem futDr_goto (s : State) (a : Nat) (pc : Pc) (i : Nat) : (s.goto a pc).futDr i = s.futDr i := futDr_congr (by simp) i
@[simp] theorem futDr_setWoken (s : State) (a : Nat) (b : Bool) (i : Nat) : (s.setWoken a b).futDr i = s.futDr i := futDr_congr (by simp) i
@[simp] theorem futDr_notify (s : State) (w : Nat) (i : Nat) : (s.notify w).futDr i = s.futDr i := futDr_congr (by simp) i
@[simp] theorem futDr_setJobPh (s : State) (j : Nat) (ph : Phase) (i : Nat) : (s.setJobPh j ph).futDr i = s.futDr i := futDr_congr (by simp) i
@[simp] theorem futDr_setQState (s : State) (q : Nat) (st : QState) (i : Nat) : (s.setQState q st).futDr i = s.futDr i := futDr_congr (by simp) i
@[simp] theorem futDr_pushFront (s : State) (q j : Nat) (i : Nat) : (s.pushFront q j).futDr i = s.futDr i := futDr_congr (by simp) i
@[simp] theorem futDr_pushBack (s : State) (q j : Nat) (i : Nat) : (s.pushBack q j).futDr i = s.futDr i := futDr_congr (by simp) i
@[simp] theorem qSt_setJob (s : State) (j : Nat) (v : Job) (i : Nat) : (s.setJob j v).qSt i = s.qSt i := qSt_congr (by simp) i
@[simp] theorem qSt_setGate (s : State) (g : Nat) (v : Gate) (i : Nat) : (s.setGate g v).qSt i = s.qSt i := qSt_congr (by simp) i
@[simp] theorem qSt_setAct (s : State) (a : Nat) (v : Act) (i : Nat) : (s.setAct a v).qSt i = s.qSt i := qSt_congr (by simp) i
@[simp] theorem qSt_setSf (s : State) (u : Nat) (v : SyncFut) (i : Nat) : (s.setSf u v).qSt i = s.qSt i := qSt_congr (by simp) i
@[simp] theorem qSt_setPThr (s : State) (p : Nat) (v : PThr) (i : Nat) : (s.setPThr p v).qSt i = s.qSt i := qSt_congr (by simp) i
@[simp] theorem qSt_setHolder (s : State) (q : Nat) (h : Option Nat) (i : Nat) : (s.setHolder q h).qSt i = s.qSt i := qSt_congr (by simp) i
@[simp] theorem qSt_takeReady (s : State) (w a : Nat) (i : Nat) : (s.takeReady w a).qSt i = s.qSt i := qSt_congr (by simp) i
@[simp] theorem qSt_dropReady (s : State) (w : Nat) (i : Nat) : (s.dropReady w).qSt i = s.qSt i := qSt_congr (by simp) i
@[simp] theorem qSt_goto (s : State) (a : Nat) (pc : Pc) (i : Nat) : (s.goto a pc).qSt i = s.qSt i := qSt_congr (by simp) i
@[simp] theorem qSt_setWoken (s : State) (a : Nat) (b : Bool) (i : Nat) : (s.setWoken a b).qSt i = s.qSt i := qSt_congr (by simp) i
@[simp] theorem qSt_notify (s : State) (w : Nat) (i : Nat) : (s.notify w).qSt i = s.qSt i := qSt_congr (by simp) i
@[simp] theorem qSt_setFut (s : State) (f : Nat) (v : Fut) (i : Nat) : (s.setFut f v).qSt i = s.qSt i := qSt_congr (by simp) i

/-- a queue update whose new state is `waitingForPoll f` only if the old one was creates no new designated poller -/
theorem qSt_setQ_wfp {s : State} {q : Nat} {v v' : JobQ} (hv : s.qs[q]? = some v)
    (h : ∀ f, v'.state = .waitingForPoll f → v.state = .waitingForPoll f) :
    ∀ i f, (s.setQ q v').qSt i = some (.waitingForPoll f) → s.qSt i = some (.waitingForPoll f) := by
  intro i f hi
  rw [qSt_setQ hv] at hi
  split at hi
  · next e =>
    subst e
    simp only [Option.some.injEq] at hi
    rw [qSt_of hv, h f hi]
  · exact hi

/-! ### no decision table makes a queue wait for a poller it was not already waiting for -/

theorem desyncPush_wfp {st : QState} {f : Nat} (h : (desyncPush st).1 = .waitingForPoll f) : st = .waitingForPoll f := by
  cases st <;> simp_all [desyncPush]
theorem syncDecide_wfp {st : QState} {e : Bool} {f : Nat} (h : (syncDecide st e).1 = .waitingForPoll f) : st = .waitingForPoll f := by
  cases st <;> cases e <;> simp_all [syncDecide]
theorem syncNoPanicDecide_wfp {st : QState} {e : Bool} {f : Nat} (h : (syncNoPanicDecide st e).1 = .waitingForPoll f) : st = .waitingForPoll f := by
  cases st <;> cases e <;> simp_all [syncNoPanicDecide]
theorem trySyncDecide_wfp {st : QState} {e : Bool} {f : Nat} (h : (trySyncDecide st e).1 = .waitingForPoll f) : st = .waitingForPoll f := by
  cases st <;> cases e <;> simp_all [trySyncDecide]
theorem pollDecide_wfp {self : Nat} {st : QState} {f : Nat} (h : (pollDecide self st).1 = .waitingForPoll f) : st = .waitingForPoll f := by
  cases st <;> simp_all [pollDecide]
  split at h <;> simp_all
theorem futureDropDecide_wfp {self : Nat} {st : QState} {f : Nat} (h : (futureDropDecide self st).1 = .waitingForPoll f) : st = .waitingForPoll f := by
  cases st <;> simp_all [futureDropDecide]
  split at h <;> simp_all
theorem claim_wfp {st : QState} {f : Nat} (h : (claim st).1 = .waitingForPoll f) : st = .waitingForPoll f := by
  cases st <;> simp_all [claim]
theorem reschedule_wfp {st : QState} {e : Bool} {f : Nat} (h : (reschedule st e).1 = .waitingForPoll f) : st = .waitingForPoll f := by
  cases st <;> cases e <;> simp_all [reschedule]
theorem nextToRun_wfp {st : QState} {f : Nat} (h : (nextToRun st).1 = .waitingForPoll f) : st = .waitingForPoll f := by
  cases st <;> simp_all [nextToRun]
theorem drainPending_wfp {st : QState} {f : Nat} (h : (drainPending st).1 = .waitingForPoll f) : st = .waitingForPoll f := by
  cases st <;> simp_all [drainPending]
theorem drainExit_wfp {st : QState} {e : Bool} {f : Nat} (h : (drainExit st e).1 = .waitingForPoll f) : st = .waitingForPoll f := by
  cases st <;> cases e <;> simp_all [drainExit]
theorem runOnePending_wfp {st : QState} {f : Nat} (h : (runOnePending st).1 = .waitingForPoll f) : st = .waitingForPoll f := by
  cases st <;> simp_all [runOnePending]
theorem wakeQueue_wfp {st : QState} {f : Nat} (h : (wakeQueue st).1 = .waitingForPoll f) : st = .waitingForPoll f := by
  cases st <;> simp_all [wakeQueue]
theorem wakeThread_wfp {st : QState} {f : Nat} (h : wakeThread st = .waitingForPoll f) : st = .waitingForPoll f := by
  cases st <;> simp_all [wakeThread]

/-- the pair (future, queue) of the drain the program counter is inside of -/
def Ctx.taskPair : Ctx → Option (Nat × Nat)
  | .task f _ q => some (f, q)
  | _ => none

def Pc.taskPair : Pc → Option (Nat × Nat)
  | .begin _ k | .body _ k => k.taskPair
  | .stReap k | .stScanLock k | .stScan _ k | .stScanHeld _ k | .stScanRel _ _ k
  | .stScanUnlock _ k | .stReadMax k | .stSpawn _ k | .stSpawnRel k => k.taskPair
  | .rqCs _ k | .rqNotifyAcq _ _ _ k | .rqNotify _ _ _ k | .rqNotifyRel _ _ _ k | .rqPush _ k => k.taskPair
  | .resumeSend _ k | .waking _ k | .openSend _ k | .wqCs _ k | .wtCs _ _ k | .wtUnpark _ k | .lwCs _ k | .dwCs _ k => k.taskPair
  | .jobStart _ c _ | .jobAwait _ c _ | .jobBodyDone _ c _ | .jobEnd _ c _ | .jobSignal _ c _
  | .jobSigDrop _ c _ | .jobDrop _ c _ | .jobDropNotify _ c _ | .suspSignal _ c _ | .suspSigDrop _ c _ => c.taskPair
  | .dqCheck f q | .dqDequeue f q | .dqStore2 f q | .dqIdle2 f q | .dqIdle f q => some (f, q)
  | .dqRequeue f _ _ q | .dqCheck2 f _ q | .dqSetWfw f _ q | .dqStore f _ q | .dqSetWfp f _ q => some (f, q)
  | .pfPollRel _ next => next.taskPair
  | .dqWakeWith _ _ _ k => k.taskPair
  | .fdDrop _ k => k.taskPair
  | _ => none

theorem taskPair_ctxReady (k : Pc) (c : Ctx) : (ctxReady k c).taskPair = c.taskPair ∨ (∃ q, c = .caller q) := by
  cases c <;> simp [ctxReady, Pc.taskPair, Ctx.taskPair]
theorem taskPair_ctxPending (j : Nat) (k : Pc) (c : Ctx) : (ctxPending j k c).taskPair = c.taskPair := by
  cases c <;> simp [ctxPending, Pc.taskPair, Ctx.taskPair]

/-- the future for which the (innermost) program counter is about to write `waitingForPoll` -/
def Pc.wfpOf : Pc → Option Nat
  | .begin _ k | .body _ k => k.wfpOf
  | .stReap k | .stScanLock k | .stScan _ k | .stScanHeld _ k | .stScanRel _ _ k
  | .stScanUnlock _ k | .stReadMax k | .stSpawn _ k | .stSpawnRel k => k.wfpOf
  | .rqCs _ k | .rqNotifyAcq _ _ _ k | .rqNotify _ _ _ k | .rqNotifyRel _ _ _ k | .rqPush _ k => k.wfpOf
  | .resumeSend _ k | .waking _ k | .openSend _ k | .wqCs _ k | .wtCs _ _ k | .wtUnpark _ k | .lwCs _ k | .dwCs _ k => k.wfpOf
  | .dqSetWfp f _ _ => some f
  | .pfPollRel _ next => next.wfpOf
  | .dqWakeWith _ _ _ k => k.wfpOf
  | .fdDrop _ k => k.wfpOf
  | _ => none

@[simp] theorem wfpOf_ctxPending (j : Nat) (k : Pc) (c : Ctx) : (ctxPending j k c).wfpOf = none := by cases c <;> rfl

theorem plainFor_taskPair {q : Nat} {k : Pc} (h : k.plainFor q = true) : k.taskPair = none := by
  cases k <;> simp_all [Pc.plainFor, Pc.taskPair]
theorem plainFor_wfpOf {q : Nat} {k : Pc} (h : k.plainFor q = true) : k.wfpOf = none := by
  cases k <;> simp_all [Pc.plainFor, Pc.wfpOf]

structure DrainInv (s : State) : Prop where
  /-- a program counter inside the drain of future `f` names the queue `f` belongs to -/
  pl : ∀ a f q, (s.pcAt a).taskPair = some (f, q) → s.futQ f = some q
  /-- the flag is up before the state is written -/
  dr : ∀ a f, (s.pcAt a).wfpOf = some f → s.futDr f = true
  /-- a queue waits only for a future of its own whose flag is up -/
  wq : ∀ q f, s.qSt q = some (.waitingForPoll f) → s.futDr f = true ∧ s.futQ f = some q

/-- activity `a` moves; futures and queue states are untouched (or a queue state changes without designating a new poller) -/
theorem DrainInv.frame {s X : State} {a : Nat} {pc' : Pc} (h : DrainInv s)
    (hpc : ∀ b, X.pcAt b = s.pcAt b) (hfq0 : ∀ f, X.futQ f = s.futQ f) (hfd0 : ∀ f, X.futDr f = s.futDr f)
    (hqs : ∀ q f, X.qSt q = some (.waitingForPoll f) → s.qSt q = some (.waitingForPoll f))
    (hrun : pc'.taskPair = none ∨ pc'.taskPair = (s.pcAt a).taskPair)
    (hwf : pc'.wfpOf = none ∨ pc'.wfpOf = (s.pcAt a).wfpOf) : DrainInv (X.goto a pc') := by
  have hfq : ∀ f, (X.goto a pc').futQ f = s.futQ f := fun f => by rw [futQ_congr (futs_goto X a pc') f, hfq0]
  have hfd : ∀ f, (X.goto a pc').futDr f = s.futDr f := fun f => by rw [futDr_congr (futs_goto X a pc') f, hfd0]
  refine ⟨?_, ?_, ?_⟩
  · intro b f q hr
    rw [hfq]
    rcases pcAt_goto_cases X a b pc' with ⟨e, rfl⟩ | e <;> rw [e] at hr
    · rcases hrun with hn | he
      · rw [hn] at hr; cases hr
      · rw [he] at hr; exact h.pl b f q hr
    · rw [hpc] at hr; exact h.pl b f q hr
  · intro b f hb
    rw [hfd]
    rcases pcAt_goto_cases X a b pc' with ⟨e, rfl⟩ | e <;> rw [e] at hb
    · rcases hwf with hn | he
      · rw [hn] at hb; cases hb
      · rw [he] at hb; exact h.dr b f hb
    · rw [hpc] at hb; exact h.dr b f hb
  · intro q f hq
    rw [hfd, hfq]
    have : (X.goto a pc').qSt q = X.qSt q := qSt_congr (by simp) q
    rw [this] at hq
    exact h.wq q f (hqs q f hq)

theorem DrainInv.frame_setAct {s X : State} {a : Nat} {v : Act} (h : DrainInv s)
    (hpc : ∀ b, X.pcAt b = s.pcAt b) (hfq0 : ∀ f, X.futQ f = s.futQ f) (hfd0 : ∀ f, X.futDr f = s.futDr f)
    (hqs : ∀ q f, X.qSt q = some (.waitingForPoll f) → s.qSt q = some (.waitingForPoll f))
    (hrun : v.pc.taskPair = none ∨ v.pc.taskPair = (s.pcAt a).taskPair)
    (hwf : v.pc.wfpOf = none ∨ v.pc.wfpOf = (s.pcAt a).wfpOf) : DrainInv (X.setAct a v) := by
  have hfq : ∀ f, (X.setAct a v).futQ f = s.futQ f := fun f => by rw [futQ_congr (futs_setAct X a v) f, hfq0]
  have hfd : ∀ f, (X.setAct a v).futDr f = s.futDr f := fun f => by rw [futDr_congr (futs_setAct X a v) f, hfd0]
  refine ⟨?_, ?_, ?_⟩
  · intro b f q hr
    rw [hfq]
    rcases pcAt_setAct_cases X a b v with ⟨e, rfl⟩ | e <;> rw [e] at hr
    · rcases hrun with hn | he
      · rw [hn] at hr; cases hr
      · rw [he] at hr; exact h.pl b f q hr
    · rw [hpc] at hr; exact h.pl b f q hr
  · intro b f hb
    rw [hfd]
    rcases pcAt_setAct_cases X a b v with ⟨e, rfl⟩ | e <;> rw [e] at hb
    · rcases hwf with hn | he
      · rw [hn] at hb; cases hb
      · rw [he] at hb; exact h.dr b f hb
    · rw [hpc] at hb; exact h.dr b f hb
  · intro q f hq
    rw [hfd, hfq]
    have : (X.setAct a v).qSt q = X.qSt q := qSt_congr (by simp) q
    rw [this] at hq
    exact h.wq q f (hqs q f hq)

theorem qSt_setQState_wfp {s : State} {q : Nat} {st : QState} (hne : ∀ f, st ≠ .waitingForPoll f) :
    ∀ i f, (s.setQState q st).qSt i = some (.waitingForPoll f) → s.qSt i = some (.waitingForPoll f) := by
  intro i f hi
  unfold State.setQState at hi
  split at hi
  · next v hv => exact qSt_setQ_wfp (v' := { v with state := st }) hv (fun f' h' => absurd h' (hne f')) i f hi
  · exact hi

theorem qSt_setQ_keep {s : State} {q : Nat} {v v' : JobQ} (hv : s.qs[q]? = some v) (h : v'.state = v.state) (i : Nat) :
    (s.setQ q v').qSt i = s.qSt i := by
  rw [qSt_setQ hv]
  split
  · next e => rw [e, qSt_of hv, h]
  · rfl

@[simp] theorem qSt_pushFront (s : State) (q j i : Nat) : (s.pushFront q j).qSt i = s.qSt i := by
  unfold State.pushFront; split
  · next v hv => exact qSt_setQ_keep (v' := { v with jobs := j :: v.jobs }) hv rfl i
  · rfl
@[simp] theorem qSt_pushBack (s : State) (q j i : Nat) : (s.pushBack q j).qSt i = s.qSt i := by
  unfold State.pushBack; split
  · next v hv => exact qSt_setQ_keep (v' := { v with jobs := v.jobs ++ [j] }) hv rfl i
  · rfl
@[simp] theorem qSt_setJobPh (s : State) (j : Nat) (ph : Phase) (i : Nat) : (s.setJobPh j ph).qSt i = s.qSt i := qSt_congr (by simp) i
@[simp] theorem qSt_dequeue (s : State) (q a i : Nat) : (s.dequeue q a).1.qSt i = s.qSt i := by
  unfold State.dequeue
  split
  · next v hv =>
    split
    · split
      · next j' rest _ => simp only [qSt_setJobPh]; exact qSt_setQ_keep (v' := { v with jobs := rest }) hv rfl i
      · rfl
    · rfl
  · rfl

/-- activity `a` moves to `pc'`; a pair or a pending write it newly carries, and a queue that newly waits for a poller, are justified -/
theorem DrainInv.move {s X : State} {a : Nat} {pc' : Pc} (h : DrainInv s)
    (hpc : ∀ b, X.pcAt b = s.pcAt b) (hfq0 : ∀ f, X.futQ f = s.futQ f) (hfd0 : ∀ f, X.futDr f = s.futDr f)
    (hqs : ∀ q f, X.qSt q = some (.waitingForPoll f) → s.qSt q = some (.waitingForPoll f) ∨ (s.futDr f = true ∧ s.futQ f = some q))
    (hpl : ∀ f q, pc'.taskPair = some (f, q) → (s.pcAt a).taskPair = some (f, q) ∨ s.futQ f = some q)
    (hdr : ∀ f, pc'.wfpOf = some f → (s.pcAt a).wfpOf = some f ∨ s.futDr f = true) : DrainInv (X.goto a pc') := by
  have hfq : ∀ f, (X.goto a pc').futQ f = s.futQ f := fun f => by rw [futQ_congr (futs_goto X a pc') f, hfq0]
  have hfd : ∀ f, (X.goto a pc').futDr f = s.futDr f := fun f => by rw [futDr_congr (futs_goto X a pc') f, hfd0]
  refine ⟨?_, ?_, ?_⟩
  · intro b f q hr
    rw [hfq]
    rcases pcAt_goto_cases X a b pc' with ⟨e, rfl⟩ | e <;> rw [e] at hr
    · rcases hpl f q hr with h1 | h1
      · exact h.pl b f q h1
      · exact h1
    · rw [hpc] at hr; exact h.pl b f q hr
  · intro b f hb
    rw [hfd]
    rcases pcAt_goto_cases X a b pc' with ⟨e, rfl⟩ | e <;> rw [e] at hb
    · rcases hdr f hb with h1 | h1
      · exact h.dr b f h1
      · exact h1
    · rw [hpc] at hb; exact h.dr b f hb
  · intro q f hq
    rw [hfd, hfq]
    have : (X.goto a pc').qSt q = X.qSt q := qSt_congr (by simp) q
    rw [this] at hq
    rcases hqs q f hq with h1 | h1
    · exact h.wq q f h1
    · exact h1

theorem qSt_initP {ps : List Bool} {ng max q : Nat} {st : QState} (h : (initStateP ps ng max).qSt q = some st) : st = .panicked ∨ st = .idle := by
  simp only [initStateP, State.qSt, List.getElem?_map] at h
  cases hp : ps[q]? with
  | none => simp [hp] at h
  | some p => cases p <;> simp [hp] at h <;> simp [← h]

end Desync
