/-
SlotInv holds in every reachable state; consequence: the operation of future_sync never starts before its slot.
-/
import DesyncModel.Inv.SlotStep
namespace Desync
open Gen

theorem slotInv_init (nq ng max : Nat) : SlotInv (initState nq ng max) :=
  ⟨fun u h => by simp [initState, State.sfB] at h, fun u h => by simp [initState, State.sfR] at h⟩
theorem slotInv_initP (ps : List Bool) (ng max : Nat) : SlotInv (initStateP ps ng max) :=
  ⟨fun u h => by simp [initStateP, initState, State.sfB] at h, fun u h => by simp [initStateP, initState, State.sfR] at h⟩

theorem SlotInv.same {s X : State} (h : SlotInv s) (hs : X.sfs = s.sfs) (hj : X.jobs = s.jobs) : SlotInv X :=
  SlotInv.frame h hs (fun _ hu => slotBegun_congr hj hu)

/-- a new sync-future is appended: its flags are down -/
theorem SlotInv.append_sf {s X : State} {sf : SyncFut} (h : SlotInv s) (hs : X.sfs = s.sfs ++ [sf]) (hj : X.jobs = s.jobs)
    (h1 : sf.userBegun = false) (h2 : sf.readySent = false) : SlotInv X := by
  have key : ∀ u, (X.sfB u = s.sfB u ∧ X.sfR u = s.sfR u) ∨ (X.sfB u = false ∧ X.sfR u = false) := by
    intro u
    simp only [State.sfB, State.sfR, hs]
    by_cases hlt : u < s.sfs.length
    · left; rw [List.getElem?_append_left hlt]; exact ⟨rfl, rfl⟩
    · by_cases he : u = s.sfs.length
      · right; subst he; simp [h1, h2]
      · left
        have e1 : (s.sfs ++ [sf])[u]? = none := by simp; omega
        have e2 : s.sfs[u]? = none := by simp; omega
        rw [e1, e2]; exact ⟨rfl, rfl⟩
  refine ⟨?_, ?_⟩
  · intro u hb
    rcases key u with ⟨e1, e2⟩ | ⟨e1, _⟩
    · rw [e2]; rw [e1] at hb; exact h.ub u hb
    · rw [e1] at hb; cases hb
  · intro u hr
    rcases key u with ⟨_, e2⟩ | ⟨_, e2⟩
    · rw [e2] at hr; exact slotBegun_congr hj (h.rb u hr)
    · rw [e2] at hr; cases hr

theorem slotInv_setChild {s : State} (h : SlotInv s) (p : Nat) (c : Option Nat) :
    SlotInv (match s.acts[p]? with | some pv => s.setAct p { pv with child := c } | none => s) := by
  split
  · exact SlotInv.same h (by simp) (by simp)
  · exact h

theorem slotInv_addAct {s0 : State} (h0 : SlotInv s0) (t : Nat) (parent : Option Nat) (pc : Pc) (once : Bool) : SlotInv (addAct s0 t parent pc once).1 := by
  let n : Act := { thread := t, pc := pc, parent := parent, child := none, woken := false, result := none, mode := .await, once := once }
  have h1 : SlotInv ({ s0 with acts := s0.acts ++ [n], nextOp := s0.nextOp + 1 } : State) := SlotInv.same h0 rfl rfl
  unfold addAct
  cases parent with
  | none => exact h1
  | some p =>
    simp only
    have := slotInv_setChild h1 p (some s0.acts.length)
    split
    · next pv hpv => simp only [n, hpv] at this; exact this
    · exact h1

theorem slotInv_invoke {s s' : State} {t a : Nat} {parent : Option Nat} {c : Call} (h : SlotInv s)
    (hs : invoke s t parent c = some (s', a)) : SlotInv s' := by
  unfold invoke at hs
  cases c <;> simp only at hs
  all_goals (repeat' split at hs)
  all_goals (try (simp at hs; done))
  all_goals (
    have hs' := congrArg Prod.fst (Option.some.inj hs)
    simp only at hs'
    subst hs'
    refine slotInv_addAct ?_ t parent _ _
    first
      | exact h
      | exact SlotInv.same h rfl rfl
      | exact SlotInv.append_sf h rfl rfl rfl rfl
      | (refine SlotInv.same h ?_ ?_ <;> first | rfl | (simp; done) | (split <;> (try split) <;> first | rfl | (simp; done))))

theorem slotInv_bodyEnd {s s' : State} {a : Nat} {o : Obs} (h : SlotInv s) (hs : bodyEnd s a = some (s', o)) : SlotInv s' := by
  unfold bodyEnd at hs
  split at hs
  · split at hs
    · simp at hs
    · split at hs
      · obtain ⟨rfl, _⟩ := Prod.mk.inj (Option.some.inj hs); exact SlotInv.same h (by simp) (by simp)
      · simp at hs
  · simp at hs

theorem slotInv_spuriousUnpark {s s' : State} {a : Nat} {o : Obs} (h : SlotInv s) (hs : spuriousUnpark s a = some (s', o)) : SlotInv s' := by
  unfold spuriousUnpark at hs
  split at hs
  · split at hs
    · obtain ⟨rfl, _⟩ := Prod.mk.inj (Option.some.inj hs); exact SlotInv.same h (by simp) (by simp)
    · simp at hs
  · simp at hs

theorem slotInv_spuriousPoll {s s' : State} {a : Nat} (h : SlotInv s) (hs : spuriousPoll s a = some s') : SlotInv s' := by
  unfold spuriousPoll at hs
  split at hs
  · split at hs
    · cases Option.some.inj hs; exact SlotInv.same h (by simp) (by simp)
    · cases Option.some.inj hs; exact SlotInv.same h (by simp) (by simp)
    · simp at hs
  · simp at hs

theorem slotInv_ret {s s' : State} {a r : Nat} (h : SlotInv s) (hs : retStep s a = some (s', r)) : SlotInv s' := by
  unfold retStep at hs
  split at hs
  · next act ha =>
    split at hs
    · obtain ⟨rfl, _⟩ := Prod.mk.inj (Option.some.inj hs)
      have h1 : SlotInv (s.setAct a { act with pc := .dead }) := SlotInv.same h (by simp) (by simp)
      split
      · next p hp => exact slotInv_setChild h1 p none
      · exact h1
    · simp at hs
  · simp at hs

theorem slotInv_reachable {s : State} (hr : Reachable s) : SlotInv s := by
  induction hr with
  | init nq ng max => exact slotInv_init nq ng max
  | initP ps ng max => exact slotInv_initP ps ng max
  | step l hprev hstep ih =>
    cases l with
    | act a =>
      simp only [next, Option.map_eq_some_iff] at hstep
      obtain ⟨⟨s1, o⟩, hs, rfl⟩ := hstep
      exact slotInv_stepAct ih hs
    | invoke t parent c =>
      simp only [next] at hstep
      split at hstep
      · simp only [Option.map_eq_some_iff] at hstep
        obtain ⟨⟨s1, a⟩, hs, rfl⟩ := hstep
        exact slotInv_invoke ih hs
      · simp at hstep
    | bodyEnd a =>
      simp only [next, Option.map_eq_some_iff] at hstep
      obtain ⟨⟨s1, o⟩, hs, rfl⟩ := hstep
      exact slotInv_bodyEnd ih hs
    | ret a =>
      simp only [next, Option.map_eq_some_iff] at hstep
      obtain ⟨⟨s1, r⟩, hs, rfl⟩ := hstep
      exact slotInv_ret ih hs
    | spuriousUnpark a =>
      simp only [next, Option.map_eq_some_iff] at hstep
      obtain ⟨⟨s1, o⟩, hs, rfl⟩ := hstep
      exact slotInv_spuriousUnpark ih hs
    | spuriousPoll a =>
      simp only [next] at hstep
      exact slotInv_spuriousPoll ih hstep

/-- **The operation of `future_sync` is started only inside its slot**: in every reachable state, if the user operation of a
sync-future has been begun then a slot job of that sync-future has been begun — so (C02, `inOrder_reachable`) every
operation accepted on the object before that slot job has ended. -/
theorem future_sync_starts_in_its_slot {s : State} (hr : Reachable s) {u : Nat} {sf : SyncFut} (hu : s.sfs[u]? = some sf) (hb : sf.userBegun = true) :
    ∃ (j : Nat) (jb : Job) (r : Nat), s.jobs[j]? = some jb ∧ jb.kind = JobKind.slot u r ∧ jb.begun = true ∧
      ∀ (j1 : Nat) (b1 : Job), s.jobs[j1]? = some b1 → b1.q = jb.q → j1 < j → b1.ended = true := by
  have h := slotInv_reachable hr
  obtain ⟨j, jb, r, h1, h2, h3⟩ := h.rb u (h.ub u (by rw [sfB_of hu]; exact hb))
  exact ⟨j, jb, r, h1, h2, h3, fun j1 b1 hb1 hq hlt => inOrder_reachable hr j1 j b1 jb hb1 h1 hq hlt h3⟩

end Desync
