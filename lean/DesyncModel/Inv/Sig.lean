/-
A job executes its signal step at most once (C07: the result of a future operation is handed over once; C03: no
operation is completed twice).

`sig` is a ghost flag of a job, set by the `jobSignal` step.  The invariant: a job whose flag is set is never in a queue's
list, and whoever has it in hand is past the signal (at `jobSigDrop` / `jobDrop`, possibly inside the wake-up and
reschedule calls made from there).  Consequently an activity standing at `jobSignal j` finds `sig = false`.
-/
import DesyncModel.Inv.JobReach
namespace Desync
open Gen

def State.jobSig (s : State) (j : Nat) : Bool := match s.jobs[j]? with | some b => b.sig | none => false

theorem jobSig_of {s : State} {j : Nat} {b : Job} (h : s.jobs[j]? = some b) : s.jobSig j = b.sig := by simp [State.jobSig, h]

@[simp] theorem jobSig_setQ (s : State) (q : Nat) (v : JobQ) (i : Nat) : (s.setQ q v).jobSig i = s.jobSig i := rfl
@[simp] theorem jobSig_setFut (s : State) (f : Nat) (v : Fut) (i : Nat) : (s.setFut f v).jobSig i = s.jobSig i := rfl
@[simp] theorem jobSig_setGate (s : State) (g : Nat) (v : Gate) (i : Nat) : (s.setGate g v).jobSig i = s.jobSig i := rfl
@[simp] theorem jobSig_setAct (s : State) (a : Nat) (v : Act) (i : Nat) : (s.setAct a v).jobSig i = s.jobSig i := rfl
@[simp] theorem jobSig_setSf (s : State) (u : Nat) (v : SyncFut) (i : Nat) : (s.setSf u v).jobSig i = s.jobSig i := rfl
@[simp] theorem jobSig_setPThr (s : State) (p : Nat) (v : PThr) (i : Nat) : (s.setPThr p v).jobSig i = s.jobSig i := rfl
@[simp] theorem jobSig_setHolder (s : State) (q : Nat) (h : Option Nat) (i : Nat) : (s.setHolder q h).jobSig i = s.jobSig i := rfl
@[simp] theorem jobSig_takeReady (s : State) (w a : Nat) (i : Nat) : (s.takeReady w a).jobSig i = s.jobSig i := rfl
@[simp] theorem jobSig_dropReady (s : State) (w : Nat) (i : Nat) : (s.dropReady w).jobSig i = s.jobSig i := rfl
@[simp] theorem jobSig_goto (s : State) (a : Nat) (pc : Pc) (i : Nat) : (s.goto a pc).jobSig i = s.jobSig i := by unfold State.goto; split <;> rfl
@[simp] theorem jobSig_setWoken (s : State) (a : Nat) (b : Bool) (i : Nat) : (s.setWoken a b).jobSig i = s.jobSig i := by unfold State.setWoken; split <;> rfl
@[simp] theorem jobSig_notify (s : State) (w : Nat) (i : Nat) : (s.notify w).jobSig i = s.jobSig i := by unfold State.notify; split <;> (try split) <;> rfl
@[simp] theorem jobSig_setQState (s : State) (q : Nat) (st : QState) (i : Nat) : (s.setQState q st).jobSig i = s.jobSig i := by unfold State.setQState; split <;> rfl
@[simp] theorem jobSig_pushBack (s : State) (q j : Nat) (i : Nat) : (s.pushBack q j).jobSig i = s.jobSig i := by unfold State.pushBack; split <;> rfl
@[simp] theorem jobSig_pushFront (s : State) (q j : Nat) (i : Nat) : (s.pushFront q j).jobSig i = s.jobSig i := by unfold State.pushFront; split <;> rfl

theorem jobSig_setJob_of {s : State} {j : Nat} {b : Job} (hj : s.jobs[j]? = some b) (v : Job) (i : Nat) :
    (s.setJob j v).jobSig i = if i = j then v.sig else s.jobSig i := by
  have hlt : j < s.jobs.length := (List.getElem?_eq_some_iff.mp hj).1
  simp only [State.jobSig, State.setJob, List.getElem?_set]
  by_cases h : i = j
  · subst h; simp [hlt]
  · have : ¬ j = i := fun e => h e.symm
    simp [h, this]

theorem jobSig_setJob_keep {s : State} {j : Nat} {b v : Job} (hj : s.jobs[j]? = some b) (hk : v.sig = b.sig) (i : Nat) :
    (s.setJob j v).jobSig i = s.jobSig i := by
  rw [jobSig_setJob_of hj]
  split
  · next e => rw [e, jobSig_of hj, hk]
  · rfl

@[simp] theorem jobSig_setJobPh (s : State) (j : Nat) (ph : Phase) (i : Nat) : (s.setJobPh j ph).jobSig i = s.jobSig i := by
  unfold State.setJobPh
  split
  · next v hv => exact jobSig_setJob_keep (v := { v with ph := ph }) hv rfl i
  · rfl

theorem jobSig_fresh (s : State) (i : Nat) (h : s.jobs.length ≤ i) : s.jobSig i = false := by
  have : s.jobs[i]? = none := by simpa using h
  simp [State.jobSig, this]

theorem jobSig_append {s X : State} {nj : Job} (h : X.jobs = s.jobs ++ [nj]) (hn : nj.sig = false) (i : Nat) :
    X.jobSig i = s.jobSig i := by
  simp only [State.jobSig]
  by_cases hlt : i < s.jobs.length
  · simp [h, List.getElem?_append_left hlt]
  · by_cases he : i = s.jobs.length
    · subst he; simp [h, hn]
    · have h1 : (s.jobs ++ [nj])[i]? = none := by simp; omega
      have h2 : s.jobs[i]? = none := by simp; omega
      simp [h, h1, h2]

@[simp] theorem jobSig_newJob (s : State) (q : Nat) (kind : JobKind) (i : Nat) : (s.newJob q kind).1.jobSig i = s.jobSig i :=
  jobSig_append (s := s) (nj := { q := q, kind := kind, ph := .queued, begun := false, ended := false, reg := none }) rfl rfl i

/-- the innermost job program counter is past the signal step -/
def Pc.postSig : Pc → Bool
  | .begin _ k | .body _ k => k.postSig
  | .stReap k | .stScanLock k | .stScan _ k | .stScanHeld _ k | .stScanRel _ _ k
  | .stScanUnlock _ k | .stReadMax k | .stSpawn _ k | .stSpawnRel k => k.postSig
  | .rqCs _ k | .rqNotifyAcq _ _ _ k | .rqNotify _ _ _ k | .rqNotifyRel _ _ _ k | .rqPush _ k => k.postSig
  | .resumeSend _ k | .waking _ k | .openSend _ k | .wqCs _ k | .wtCs _ _ k | .wtUnpark _ k | .lwCs _ k | .dwCs _ k => k.postSig
  | .jobSigDrop _ _ _ | .jobDrop _ _ _ => true
  | .pfPollRel _ next => next.postSig
  | .dqWakeWith _ _ _ k => k.postSig
  | .fdDrop _ k => k.postSig
  | _ => false

@[simp] theorem postSig_ctxPending (j : Nat) (k : Pc) (c : Ctx) : (ctxPending j k c).postSig = false := by cases c <;> rfl

theorem pcAt_goto_cases (X : State) (a b : Nat) (pc' : Pc) :
    ((X.goto a pc').pcAt b = pc' ∧ b = a) ∨ ((X.goto a pc').pcAt b = X.pcAt b) := by
  rw [pcAt_goto]; split
  · next hab => exact Or.inl ⟨rfl, hab.1.symm⟩
  · exact Or.inr rfl

theorem pcAt_setAct_cases (X : State) (a b : Nat) (v : Act) :
    ((X.setAct a v).pcAt b = v.pc ∧ b = a) ∨ ((X.setAct a v).pcAt b = X.pcAt b) := by
  rw [pcAt_setAct]; split
  · next hab => exact Or.inl ⟨rfl, hab.1.symm⟩
  · exact Or.inr rfl

structure SigInv (s : State) : Prop where
  /-- whoever has a signalled job in hand is past the signal step -/
  holders : ∀ a j q, (s.pcAt a).runningQ = some (j, q) → s.jobSig j = true → (s.pcAt a).postSig = true
  /-- a signalled job is never (back) in a queue -/
  queued : ∀ q l j, s.qjobs q = some l → j ∈ l → s.jobSig j = false

/-- a step that raises no flag: every job in a list was there before or is unsignalled; every job in hand was in the
same hand before (and the hand did not go back before the signal) or is unsignalled -/
theorem SigInv.step {s s' : State} (h : SigInv s)
    (hg : ∀ i, s'.jobSig i = true → s.jobSig i = true)
    (hq : ∀ q l' j, s'.qjobs q = some l' → j ∈ l' → s.jobSig j = false ∨ ∃ l, s.qjobs q = some l ∧ j ∈ l)
    (hpc : ∀ b j q, (s'.pcAt b).runningQ = some (j, q) → s.jobSig j = false ∨
      ((s.pcAt b).runningQ = some (j, q) ∧ ((s.pcAt b).postSig = true → (s'.pcAt b).postSig = true))) : SigInv s' := by
  refine ⟨?_, ?_⟩
  · intro b j q hr hs
    have hs0 := hg j hs
    rcases hpc b j q hr with hf | ⟨hr0, hp⟩
    · rw [hs0] at hf; cases hf
    · exact hp (h.holders b j q hr0 hs0)
  · intro q l' j hl hm
    cases hx : s'.jobSig j with
    | false => rfl
    | true =>
      have hs0 := hg j hx
      rcases hq q l' j hl hm with hf | ⟨l, hl0, hm0⟩
      · rw [hs0] at hf; cases hf
      · have := h.queued q l j hl0 hm0; rw [hs0] at this; cases this

/-- activity `a` moves; no list and no flag changes -/
theorem SigInv.frame {s X : State} {a : Nat} {pc' : Pc} (h : SigInv s)
    (hpc : ∀ b, X.pcAt b = s.pcAt b) (hq : ∀ i, X.qjobs i = s.qjobs i) (hg : ∀ i, X.jobSig i = s.jobSig i)
    (hrun : pc'.runningQ = none ∨ (pc'.runningQ = (s.pcAt a).runningQ ∧ ((s.pcAt a).postSig = true → pc'.postSig = true))) :
    SigInv (X.goto a pc') := by
  refine SigInv.step h (fun i hi => by rw [jobSig_goto, hg] at hi; exact hi)
    (fun q l' j hl hm => Or.inr ⟨l', by rw [qjobs_goto, hq] at hl; exact hl, hm⟩) ?_
  intro b j q hr
  rcases pcAt_goto_cases X a b pc' with ⟨e, rfl⟩ | e <;> rw [e] at hr ⊢
  · rcases hrun with hn | ⟨he, hp⟩
    · rw [hn] at hr; cases hr
    · exact Or.inr ⟨by rw [← he]; exact hr, hp⟩
  · rw [hpc] at hr ⊢
    exact Or.inr ⟨hr, id⟩

theorem SigInv.frame_setAct {s X : State} {a : Nat} {v : Act} (h : SigInv s)
    (hpc : ∀ b, X.pcAt b = s.pcAt b) (hq : ∀ i, X.qjobs i = s.qjobs i) (hg : ∀ i, X.jobSig i = s.jobSig i)
    (hrun : v.pc.runningQ = none ∨ (v.pc.runningQ = (s.pcAt a).runningQ ∧ ((s.pcAt a).postSig = true → v.pc.postSig = true))) :
    SigInv (X.setAct a v) := by
  refine SigInv.step h (fun i hi => by rw [jobSig_setAct, hg] at hi; exact hi)
    (fun q l' j hl hm => Or.inr ⟨l', by rw [qjobs_setAct, hq] at hl; exact hl, hm⟩) ?_
  intro b j q hr
  rcases pcAt_setAct_cases X a b v with ⟨e, rfl⟩ | e <;> rw [e] at hr ⊢
  · rcases hrun with hn | ⟨he, hp⟩
    · rw [hn] at hr; cases hr
    · exact Or.inr ⟨by rw [← he]; exact hr, hp⟩
  · rw [hpc] at hr ⊢
    exact Or.inr ⟨hr, id⟩

/-! ### the steps that move jobs -/

/-- a job is taken from the head of a queue: it was in the list, so it is unsignalled -/
theorem SigInv.dequeue_take {s : State} {a q j : Nat} {pc' : Pc} (h : SigInv s)
    (hd : (s.dequeue q a).2 = some j) (hnew : pc'.runningQ = some (j, q)) :
    SigInv ((s.dequeue q a).1.goto a pc') := by
  obtain ⟨v, rest, hv, hjobs, hX⟩ := dequeue_some hd
  rw [hX]
  have hqj : s.qjobs q = some (j :: rest) := by rw [qjobs_of hv, hjobs]
  have hjs : s.jobSig j = false := h.queued q _ j hqj (by simp)
  refine SigInv.step h ?_ ?_ ?_
  · intro i hi; simpa using hi
  · intro q' l' j' hl hm
    rw [qjobs_goto, qjobs_setJobPh, qjobs_setQ_of hv] at hl
    split at hl
    · next e =>
      subst e
      simp only [Option.some.injEq] at hl
      subst hl
      exact Or.inr ⟨_, hqj, by simp [hm]⟩
    · exact Or.inr ⟨l', hl, hm⟩
  · intro b j' q' hr
    rcases pcAt_goto_cases ((s.setQ q { v with jobs := rest }).setJobPh j (.held a)) a b pc' with ⟨e, rfl⟩ | e <;> rw [e] at hr ⊢
    · rw [hnew] at hr
      simp only [Option.some.injEq, Prod.mk.injEq] at hr
      rw [← hr.1]; exact Or.inl hjs
    · simp only [pcAt_setJobPh, pcAt_setQ] at hr ⊢
      exact Or.inr ⟨hr, id⟩

theorem SigInv.dequeue_none {s : State} {a q : Nat} {pc' : Pc} (h : SigInv s)
    (hd : (s.dequeue q a).2 = none)
    (hrun : pc'.runningQ = none ∨ (pc'.runningQ = (s.pcAt a).runningQ ∧ ((s.pcAt a).postSig = true → pc'.postSig = true))) :
    SigInv ((s.dequeue q a).1.goto a pc') := by
  rw [Desync.dequeue_none hd]
  exact SigInv.frame h (fun _ => rfl) (fun _ => rfl) (fun _ => rfl) hrun

/-- the job in hand goes back to the front of its queue: whoever requeues is before the signal, so the job is unsignalled -/
theorem SigInv.requeue_front {s : State} {a q j : Nat} {pc' : Pc} (h : SigInv s)
    (hold : (s.pcAt a).runningQ = some (j, q)) (hpre : (s.pcAt a).postSig = false) (hnew : pc'.runningQ = none) :
    SigInv (((s.pushFront q j).setJobPh j .queued).goto a pc') := by
  have hjs : s.jobSig j = false := by
    cases hx : s.jobSig j with
    | false => rfl
    | true => have := h.holders a j q hold hx; rw [hpre] at this; cases this
  refine SigInv.step h ?_ ?_ ?_
  · intro i hi; simpa using hi
  · intro q' l' j' hl hm
    rw [qjobs_goto, qjobs_setJobPh, qjobs_pushFront] at hl
    split at hl
    · next e =>
      subst e
      cases hq0 : s.qjobs q' with
      | none => rw [hq0] at hl; cases hl
      | some l0 =>
        rw [hq0] at hl
        simp only [Option.map_some, Option.some.injEq] at hl
        subst hl
        rcases List.mem_cons.mp hm with e | hm0
        · rw [e]; exact Or.inl hjs
        · exact Or.inr ⟨l0, rfl, hm0⟩
    · exact Or.inr ⟨l', hl, hm⟩
  · intro b j' q' hr
    rcases pcAt_goto_cases ((s.pushFront q j).setJobPh j .queued) a b pc' with ⟨e, rfl⟩ | e <;> rw [e] at hr ⊢
    · rw [hnew] at hr; cases hr
    · simp only [pcAt_setJobPh, pcAt_pushFront] at hr ⊢
      exact Or.inr ⟨hr, id⟩

/-- a new job is appended to the table and to a queue's list (or given straight to its creator): it is unsignalled -/
theorem SigInv.new_job {s X : State} {a q : Nat} {pc' : Pc} (h : SigInv s)
    (hpc : ∀ b, X.pcAt b = s.pcAt b) (hg : ∀ i, X.jobSig i = s.jobSig i)
    (hq : ∀ q' l' j', X.qjobs q' = some l' → j' ∈ l' → j' = s.jobs.length ∨ ∃ l, s.qjobs q' = some l ∧ j' ∈ l)
    (hrun : pc'.runningQ = none ∨ pc'.runningQ = some (s.jobs.length, q) ∨
      (pc'.runningQ = (s.pcAt a).runningQ ∧ ((s.pcAt a).postSig = true → pc'.postSig = true))) :
    SigInv (X.goto a pc') := by
  have hfresh : s.jobSig s.jobs.length = false := jobSig_fresh s _ (Nat.le_refl _)
  refine SigInv.step h (fun i hi => by rw [jobSig_goto, hg] at hi; exact hi) ?_ ?_
  · intro q' l' j' hl hm
    rw [qjobs_goto] at hl
    rcases hq q' l' j' hl hm with e | hx
    · rw [e]; exact Or.inl hfresh
    · exact Or.inr hx
  · intro b j' q' hr
    rcases pcAt_goto_cases X a b pc' with ⟨e, rfl⟩ | e <;> rw [e] at hr ⊢
    · rcases hrun with hn | hn | ⟨he, hp⟩
      · rw [hn] at hr; cases hr
      · rw [hn] at hr
        simp only [Option.some.injEq, Prod.mk.injEq] at hr
        rw [← hr.1]; exact Or.inl hfresh
      · exact Or.inr ⟨by rw [← he]; exact hr, hp⟩
    · rw [hpc] at hr ⊢
      exact Or.inr ⟨hr, id⟩

end Desync
