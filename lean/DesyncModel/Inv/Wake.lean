/-
I_wake, pool context (C06), for executions in which no returned future is polled (`ReachableNT`): a queue that a pool thread
has parked in `WaitingForWake` has, for the suspended operation at its head, the queue's waker still registered with the
awaited event or a `WakeQueue` wake-up for the queue on its way.  The delicate window is between the poll that registers the
waker and the critical section that marks the queue as waiting: a wake-up that lands there finds the queue `Running`, makes
it `AwokenWhileRunning`, and the pool thread then polls again instead of parking.
-/
import DesyncModel.Inv.NoTask
import DesyncModel.Inv.ParkReach
import DesyncModel.Inv.JobReach

namespace Desync
open Gen

/-- a `WakeQueue(q)` wake-up is on its way in this activity: `q`'s waker is in a list of wakers still to be fired, or the
activity is about to run `WakeQueue::wake` for `q` -/
def Pc.wakesQ : Pc → Nat → Bool
  | .waking ws k, q => ws.contains (.queue q) || k.wakesQ q
  | .wqCs q' k, q => q' == q || k.wakesQ q
  | .begin _ k, q | .body _ k, q | .unwinding k, q => k.wakesQ q
  | .stReap k, q | .stScanLock k, q | .stScan _ k, q | .stScanHeld _ k, q | .stScanRel _ _ k, q
  | .stScanUnlock _ k, q | .stReadMax k, q | .stSpawn _ k, q | .stSpawnRel k, q => k.wakesQ q
  | .rqCs _ k, q | .rqNotifyAcq _ _ _ k, q | .rqNotify _ _ _ k, q | .rqNotifyRel _ _ _ k, q | .rqPush _ k, q => k.wakesQ q
  | .resumeSend _ k, q | .openSend _ k, q | .wtCs _ _ k, q | .wtUnpark _ k, q | .lwCs _ k, q | .dwCs _ k, q => k.wakesQ q
  | .rjDequeue _ k, q | .rjPending _ _ k, q | .rjParkCheck _ _ k, q | .rjPark _ _ k, q | .rjParked _ _ k, q => k.wakesQ q
  | .jobStart _ c k, q | .jobAwait _ c k, q | .jobBodyDone _ c k, q | .jobEnd _ c k, q | .jobSignal _ c k, q
  | .jobSigDrop _ c k, q | .jobDrop _ c k, q | .jobDropNotify _ c k, q | .suspSignal _ c k, q | .suspSigDrop _ c k, q =>
      (match c with | .caller _ => k.wakesQ q | _ => false)
  | .pfPollRel _ next, q => next.wakesQ q
  | .dqWakeWith _ _ _ k, q => k.wakesQ q
  | .fdDrop _ k, q => k.wakesQ q
  | _, _ => false

/-- the pool thread has polled job `j` of queue `q` (which registered the queue's waker) and is about to put it back -/
def Pc.requeuing : Pc → Option (Nat × Nat)
  | .pdRequeue _ q j => some (q, j)
  | .begin _ k | .body _ k => k.requeuing
  | .stReap k | .stScanLock k | .stScan _ k | .stScanHeld _ k | .stScanRel _ _ k
  | .stScanUnlock _ k | .stReadMax k | .stSpawn _ k | .stSpawnRel k => k.requeuing
  | .rqCs _ k | .rqNotifyAcq _ _ _ k | .rqNotify _ _ _ k | .rqNotifyRel _ _ _ k | .rqPush _ k => k.requeuing
  | .resumeSend _ k | .waking _ k | .openSend _ k | .wqCs _ k | .wtCs _ _ k | .wtUnpark _ k | .lwCs _ k | .dwCs _ k => k.requeuing
  | .rjDequeue _ k | .rjPending _ _ k | .rjParkCheck _ _ k | .rjPark _ _ k | .rjParked _ _ k => k.requeuing
  | .jobStart _ c k | .jobAwait _ c k | .jobBodyDone _ c k | .jobEnd _ c k | .jobSignal _ c k
  | .jobSigDrop _ c k | .jobDrop _ c k | .jobDropNotify _ c k | .suspSignal _ c k | .suspSigDrop _ c k =>
      (match c with | .caller _ => k.requeuing | _ => none)
  | .pfPollRel _ next => next.requeuing
  | .dqWakeWith _ _ _ k => k.requeuing
  | .fdDrop _ k => k.requeuing
  | _ => none

/-- the pool thread has put the polled job back and is about to mark queue `q` as waiting -/
def Pc.pending : Pc → Option Nat
  | .pdPending _ q => some q
  | .begin _ k | .body _ k => k.pending
  | .stReap k | .stScanLock k | .stScan _ k | .stScanHeld _ k | .stScanRel _ _ k
  | .stScanUnlock _ k | .stReadMax k | .stSpawn _ k | .stSpawnRel k => k.pending
  | .rqCs _ k | .rqNotifyAcq _ _ _ k | .rqNotify _ _ _ k | .rqNotifyRel _ _ _ k | .rqPush _ k => k.pending
  | .resumeSend _ k | .waking _ k | .openSend _ k | .wqCs _ k | .wtCs _ _ k | .wtUnpark _ k | .lwCs _ k | .dwCs _ k => k.pending
  | .rjDequeue _ k | .rjPending _ _ k | .rjParkCheck _ _ k | .rjPark _ _ k | .rjParked _ _ k => k.pending
  | .jobStart _ c k | .jobAwait _ c k | .jobBodyDone _ c k | .jobEnd _ c k | .jobSignal _ c k
  | .jobSigDrop _ c k | .jobDrop _ c k | .jobDropNotify _ c k | .suspSignal _ c k | .suspSigDrop _ c k =>
      (match c with | .caller _ => k.pending | _ => none)
  | .pfPollRel _ next => next.pending
  | .dqWakeWith _ _ _ k => k.pending
  | .fdDrop _ k => k.pending
  | _ => none

@[simp] theorem wakesQ_ctxReady (k : Pc) (c : Ctx) (q : Nat) : (ctxReady k c).wakesQ q = (match c with | .caller _ => k.wakesQ q | _ => false) := by
  cases c <;> simp [ctxReady, Pc.wakesQ]
@[simp] theorem wakesQ_ctxPending (j : Nat) (k : Pc) (c : Ctx) (q : Nat) : (ctxPending j k c).wakesQ q = (match c with | .caller _ => k.wakesQ q | _ => false) := by
  cases c <;> simp [ctxPending, Pc.wakesQ]
@[simp] theorem requeuing_ctxReady (k : Pc) (c : Ctx) : (ctxReady k c).requeuing = (match c with | .caller _ => k.requeuing | _ => none) := by
  cases c <;> simp [ctxReady, Pc.requeuing]
@[simp] theorem requeuing_ctxPending (j : Nat) (k : Pc) (c : Ctx) :
    (ctxPending j k c).requeuing = (match c with | .caller _ => k.requeuing | .pool _ q => some (q, j) | .task _ _ _ => none) := by
  cases c <;> simp [ctxPending, Pc.requeuing]
@[simp] theorem pending_ctxReady (k : Pc) (c : Ctx) : (ctxReady k c).pending = (match c with | .caller _ => k.pending | _ => none) := by
  cases c <;> simp [ctxReady, Pc.pending]
@[simp] theorem pending_ctxPending (j : Nat) (k : Pc) (c : Ctx) : (ctxPending j k c).pending = (match c with | .caller _ => k.pending | _ => none) := by
  cases c <;> simp [ctxPending, Pc.pending]

theorem requeuing_holds (pc : Pc) (q j : Nat) (h : pc.requeuing = some (q, j)) : pc.holds q = true := by
  fun_induction Pc.requeuing pc <;> simp_all [Pc.holds]

theorem pending_holds (pc : Pc) (q : Nat) (h : pc.pending = some q) : pc.holds q = true := by
  fun_induction Pc.pending pc <;> simp_all [Pc.holds]

theorem plainFor_facts {k : Pc} {q : Nat} (h : k.plainFor q = true) : k.holds q = true ∧ k.requeuing = none ∧ k.pending = none := by
  cases k <;> simp_all [Pc.plainFor, Pc.holds, Pc.requeuing, Pc.pending]

/-- an activity in the park loop of a queue owns that queue's run right and is not a pool thread requeuing a job -/
theorem parks_facts (pc : Pc) (q : Nat) (hc : pc.callerOk = true) (hp : pc.parks q = true) :
    pc.holds q = true ∧ pc.requeuing = none ∧ pc.pending = none := by
  cases pc <;> simp_all [Pc.parks, Pc.callerOk, Pc.holds, Pc.requeuing, Pc.pending]
  all_goals (exact plainFor_facts (by assumption))

/-- the pool thread that is about to put job `j` back is the one that has it in hand -/
theorem requeuing_runningQ (pc : Pc) (q j : Nat) (hc : pc.callerOk = true) (h : pc.requeuing = some (q, j)) : pc.runningQ = some (j, q) := by
  fun_induction Pc.requeuing pc <;> simp_all [Pc.runningQ, Pc.callerOk]
  all_goals (first
    | (have := (plainFor_facts (by assumption)).2.1; simp_all)
    | (cases ‹Ctx› <;> simp_all <;> (have := (plainFor_facts (by assumption)).2.1; simp_all)))

/-- the waker registered with the event job `j` awaits -/
def State.regW (s : State) (j : Nat) : Option Waker := (s.jobs[j]?).bind (·.reg)

/-- queue `q`'s own waker is registered for job `j` -/
def Reg (s : State) (q j : Nat) : Prop := s.regW j = some (.queue q)

/-- a `WakeQueue(q)` wake-up is on its way -/
def Flight (s : State) (q : Nat) : Prop := ∃ a, (s.pcAt a).wakesQ q = true

structure WakeInv (s : State) : Prop where
  parked : ∀ q, s.qSt q = some .waitingForWake → ∃ j rest, s.qjobs q = some (j :: rest) ∧ (Reg s q j ∨ Flight s q)
  poll1 : ∀ a q j, (s.pcAt a).requeuing = some (q, j) → Reg s q j ∨ Flight s q ∨ s.qSt q = some .awokenWhileRunning
  poll2 : ∀ a q, (s.pcAt a).pending = some q →
    ∃ j rest, s.qjobs q = some (j :: rest) ∧ (Reg s q j ∨ Flight s q ∨ s.qSt q = some .awokenWhileRunning)

/-- what a step of activity `a` does to the state and the job list of queue `q`, as far as I_wake cares -/
inductive QRel (s X : State) (a q : Nat) : Prop
  | same (h1 : X.qSt q = s.qSt q) (h2 : X.qjobs q = s.qjobs q)
  /-- a decision table that neither parks the queue nor forgets a remembered wake-up; jobs may be appended -/
  | tab (st st' : QState) (h1 : s.qSt q = some st) (h2 : X.qSt q = some st') (h3 : st' = .waitingForWake → st = .waitingForWake)
      (h4 : st = .awokenWhileRunning → st' = .awokenWhileRunning)
      (h5 : X.qjobs q = s.qjobs q ∨ ∃ l l', s.qjobs q = some l ∧ X.qjobs q = some (l ++ l'))
  /-- the mover owns the queue's run right: its obligations are stated separately -/
  | hold (h : (s.pcAt a).holds q = true)

/-- the step executed `WakeQueue::wake` on `q` -/
def Landed (s X : State) (q : Nat) : Prop := ∃ st, s.qSt q = some st ∧ X.qSt q = some (wakeQueue st).1

theorem wakeQueue_not_wfw (st : QState) : (wakeQueue st).1 ≠ .waitingForWake := by cases st <;> simp [wakeQueue]
theorem wakeQueue_awoken {st : QState} (h : st = .running ∨ st = .awokenWhileRunning) : (wakeQueue st).1 = .awokenWhileRunning := by
  rcases h with rfl | rfl <;> rfl

/-- a queue owned by an activity that is not in a park loop is `Running` or `AwokenWhileRunning` -/
theorem held_running {s : State} (hh : HolderInv s) (hw : WfInv s) (hp : ParkInv s) {b q : Nat} (hb : (s.pcAt b).holds q = true)
    (hnp : ∀ c, (s.pcAt c).parks q = true → c ≠ b) {st : QState} (hst : s.qSt q = some st) : st = .running ∨ st = .awokenWhileRunning := by
  have ho := (hh.iff b q).mp hb
  simp only [State.qSt] at hst
  cases hq : s.qs[q]? with
  | none => rw [hq] at hst; cases hst
  | some v =>
    rw [hq] at hst
    simp only [Option.map_some, Option.some.injEq] at hst
    have hheld := hh.held b q v ho hq
    rw [hst] at hheld
    cases st <;> simp_all [QState.held]
    -- waitingForUnpark: somebody is in the park loop and owns the queue
    obtain ⟨c, hc⟩ := hp.park q (by simp [State.qSt, hq, hst])
    have hch := (parks_facts _ q (hw c) hc).1
    have := (hh.iff c q).mp hch
    rw [ho] at this
    exact hnp c hc (by simpa using this.symm)

/-- the pool thread that has polled job `j` (or has just put it back) is not in a park loop, so its queue is `Running` or
`AwokenWhileRunning` -/
theorem poller_running {s : State} (hh : HolderInv s) (hw : WfInv s) (hp : ParkInv s) {b q : Nat}
    (hb : (∃ j, (s.pcAt b).requeuing = some (q, j)) ∨ (s.pcAt b).pending = some q) {st : QState} (hst : s.qSt q = some st) :
    st = .running ∨ st = .awokenWhileRunning := by
  have hhold : (s.pcAt b).holds q = true := by
    rcases hb with ⟨j, h1⟩ | h1
    · exact requeuing_holds _ q j h1
    · exact pending_holds _ q h1
  refine held_running hh hw hp hhold ?_ hst
  intro c hc hcb
  subst hcb
  have hf := parks_facts _ q (hw c) hc
  rcases hb with ⟨j, h1⟩ | h1
  · rw [hf.2.1] at h1; cases h1
  · rw [hf.2.2] at h1; cases h1

/-- two activities cannot both own the run right of a queue -/
theorem holders_eq {s : State} (hh : HolderInv s) {a b q : Nat} (ha : (s.pcAt a).holds q = true) (hb : (s.pcAt b).holds q = true) : a = b := by
  have h1 := (hh.iff a q).mp ha
  have h2 := (hh.iff b q).mp hb
  rw [h1] at h2
  simpa using h2

/-- The general step.  The mover `a`: its own clauses in the new state and the parked clause of the queues it owns are
obligations (`hnew1`, `hnew2`, `hpark`); for everything else it is enough to say how wake-ups in flight (`hfl`),
registrations (`hreg`) and each queue's state and list (`hq`) changed. -/
theorem WakeInv.step {s X : State} {a : Nat} (h : WakeInv s) (hh : HolderInv s) (hw : WfInv s) (hf : FullInv s) (hp : ParkInv s)
    (hothW : ∀ b, b ≠ a → ∀ q, (s.pcAt b).wakesQ q = true → (X.pcAt b).wakesQ q = true ∨ Landed s X q)
    (hothR : ∀ b, b ≠ a → ∀ q j, (X.pcAt b).requeuing = some (q, j) → (s.pcAt b).requeuing = some (q, j))
    (hothP : ∀ b, b ≠ a → ∀ q, (X.pcAt b).pending = some q → (s.pcAt b).pending = some q)
    (hfl : ∀ q, (s.pcAt a).wakesQ q = true → (X.pcAt a).wakesQ q = true ∨ Landed s X q)
    (hreg : ∀ q j, Reg s q j → Reg X q j ∨ Flight X q ∨ ∃ q', (s.pcAt a).runningQ = some (j, q'))
    (hq : ∀ q, QRel s X a q)
    (hpark : ∀ q, (s.pcAt a).holds q = true → X.qSt q = some .waitingForWake →
      ∃ j rest, X.qjobs q = some (j :: rest) ∧ (Reg X q j ∨ Flight X q))
    (hnew1 : ∀ q j, (X.pcAt a).requeuing = some (q, j) → Reg X q j ∨ Flight X q ∨ X.qSt q = some .awokenWhileRunning)
    (hnew2 : ∀ q, (X.pcAt a).pending = some q →
      ∃ j rest, X.qjobs q = some (j :: rest) ∧ (Reg X q j ∨ Flight X q ∨ X.qSt q = some .awokenWhileRunning)) : WakeInv X := by
  -- wake-ups in flight stay in flight or land
  have tfl : ∀ q, Flight s q → Flight X q ∨ Landed s X q := by
    intro q ⟨c, hc⟩
    by_cases hca : c = a
    · subst hca
      rcases hfl q hc with h1 | h1
      · exact Or.inl ⟨c, h1⟩
      · exact Or.inr h1
    · rcases hothW c hca q hc with h1 | h1
      · exact Or.inl ⟨c, h1⟩
      · exact Or.inr h1
  -- a registration stays, or its wake-up is now in flight, unless the mover itself is polling the job
  have treg : ∀ q j, Reg s q j → (∀ q', (s.pcAt a).runningQ ≠ some (j, q')) → Reg X q j ∨ Flight X q := by
    intro q j hr hno
    rcases hreg q j hr with h1 | h1 | ⟨q', h1⟩
    · exact Or.inl h1
    · exact Or.inr h1
    · exact absurd h1 (hno q')
  -- a queued job is not in the mover's hands
  have hqueued : ∀ q l j, s.qjobs q = some l → j ∈ l → ∀ q', (s.pcAt a).runningQ ≠ some (j, q') := by
    intro q l j hl hj q' hr
    have h1 := hf.queued q l j hl hj
    have h2 := hf.run1 a j q' hr
    rw [h1] at h2; cases h2
  refine ⟨?_, ?_, ?_⟩
  · -- parked
    intro q hst
    rcases hq q with ⟨h1, h2⟩ | ⟨st, st', h1, h2, h3, h4, h5⟩ | hhold
    · rw [h1] at hst
      obtain ⟨j, rest, hl, hc⟩ := h.parked q hst
      refine ⟨j, rest, by rw [h2]; exact hl, ?_⟩
      rcases hc with hc | hc
      · exact treg q j hc (hqueued q _ j hl List.mem_cons_self)
      · rcases tfl q hc with h6 | ⟨st0, h6, h7⟩
        · exact Or.inr h6
        · rw [← h1] at hst; rw [h1] at hst; rw [hst] at h6
          -- the landing would have changed the state
          have : X.qSt q = some (wakeQueue st0).1 := h7
          rw [h1, hst] at this
          have e : st0 = .waitingForWake := (Option.some.inj h6).symm
          subst e
          simp [wakeQueue] at this
    · rw [h2] at hst
      have e : st' = .waitingForWake := Option.some.inj hst
      have e0 := h3 e
      subst e0
      obtain ⟨j, rest, hl, hc⟩ := h.parked q h1
      have hl' : ∃ rest', X.qjobs q = some (j :: rest') := by
        rcases h5 with h5 | ⟨l, l', h5, h6⟩
        · exact ⟨rest, by rw [h5]; exact hl⟩
        · rw [hl] at h5
          have : l = j :: rest := (Option.some.inj h5).symm
          subst this
          exact ⟨rest ++ l', by rw [h6]; rfl⟩
      obtain ⟨rest', hl'⟩ := hl'
      refine ⟨j, rest', hl', ?_⟩
      rcases hc with hc | hc
      · exact treg q j hc (hqueued q _ j hl List.mem_cons_self)
      · rcases tfl q hc with h6 | ⟨st0, h6, h7⟩
        · exact Or.inr h6
        · rw [h2] at h7
          have := Option.some.inj h7
          rw [e] at this
          exact absurd this.symm (wakeQueue_not_wfw st0)
    · exact hpark q hhold hst
  · -- poll1
    intro b q j hb
    by_cases hba : b = a
    · subst hba; exact hnew1 q j hb
    · replace hb := hothR b hba q j hb
      have hbh := requeuing_holds _ q j hb
      have hrunb : (s.pcAt b).runningQ = some (j, q) → True := fun _ => trivial
      rcases hq q with ⟨h1, h2⟩ | ⟨st, st', h1, h2, h3, h4, h5⟩ | hhold
      · rcases h.poll1 b q j hb with hc | hc | hc
        · rcases hreg q j hc with h6 | h6 | ⟨q', h6⟩
          · exact Or.inl h6
          · exact Or.inr (Or.inl h6)
          · -- the mover polls `j`: but `b` has `j` in hand
            exfalso
            have hb2 : (s.pcAt b).runningQ = some (j, q) := requeuing_runningQ _ q j (hw b) hb
            have e1 := hf.run1 a j q' h6
            have e2 := hf.run1 b j q hb2
            rw [e1] at e2
            simp only [Option.some.injEq, Prod.mk.injEq, Phase.held.injEq] at e2
            exact hba e2.1.symm
        · rcases tfl q hc with h6 | ⟨st0, h6, h7⟩
          · exact Or.inr (Or.inl h6)
          · right; right
            rw [h7, wakeQueue_awoken (poller_running hh hw hp (Or.inl ⟨j, hb⟩) h6)]
        · exact Or.inr (Or.inr (by rw [h1]; exact hc))
      · rcases h.poll1 b q j hb with hc | hc | hc
        · rcases hreg q j hc with h6 | h6 | ⟨q', h6⟩
          · exact Or.inl h6
          · exact Or.inr (Or.inl h6)
          · exfalso
            have hb2 : (s.pcAt b).runningQ = some (j, q) := requeuing_runningQ _ q j (hw b) hb
            have e1 := hf.run1 a j q' h6
            have e2 := hf.run1 b j q hb2
            rw [e1] at e2
            simp only [Option.some.injEq, Prod.mk.injEq, Phase.held.injEq] at e2
            exact hba e2.1.symm
        · rcases tfl q hc with h6 | ⟨st0, h6, h7⟩
          · exact Or.inr (Or.inl h6)
          · right; right
            rw [h7, wakeQueue_awoken (poller_running hh hw hp (Or.inl ⟨j, hb⟩) h6)]
        · right; right
          rw [h1] at hc
          rw [h2, h4 (Option.some.inj hc)]
      · exact absurd (holders_eq hh hhold hbh) (fun e => hba e.symm)
  · -- poll2
    intro b q hb
    by_cases hba : b = a
    · subst hba; exact hnew2 q hb
    · replace hb := hothP b hba q hb
      have hbh := pending_holds _ q hb
      obtain ⟨j, rest, hl, hc⟩ := h.poll2 b q hb
      have hnotmine := hqueued q _ j hl List.mem_cons_self
      rcases hq q with ⟨h1, h2⟩ | ⟨st, st', h1, h2, h3, h4, h5⟩ | hhold
      · refine ⟨j, rest, by rw [h2]; exact hl, ?_⟩
        rcases hc with hc | hc | hc
        · rcases treg q j hc hnotmine with h6 | h6
          · exact Or.inl h6
          · exact Or.inr (Or.inl h6)
        · rcases tfl q hc with h6 | ⟨st0, h6, h7⟩
          · exact Or.inr (Or.inl h6)
          · right; right
            rw [h7, wakeQueue_awoken (poller_running hh hw hp (Or.inr hb) h6)]
        · exact Or.inr (Or.inr (by rw [h1]; exact hc))
      · have hl' : ∃ rest', X.qjobs q = some (j :: rest') := by
          rcases h5 with h5 | ⟨l, l', h5, h6⟩
          · exact ⟨rest, by rw [h5]; exact hl⟩
          · rw [hl] at h5
            have : l = j :: rest := (Option.some.inj h5).symm
            subst this
            exact ⟨rest ++ l', by rw [h6]; rfl⟩
        obtain ⟨rest', hl'⟩ := hl'
        refine ⟨j, rest', hl', ?_⟩
        rcases hc with hc | hc | hc
        · rcases treg q j hc hnotmine with h6 | h6
          · exact Or.inl h6
          · exact Or.inr (Or.inl h6)
        · rcases tfl q hc with h6 | ⟨st0, h6, h7⟩
          · exact Or.inr (Or.inl h6)
          · right; right
            rw [h7, wakeQueue_awoken (poller_running hh hw hp (Or.inr hb) h6)]
        · right; right
          rw [h1] at hc
          rw [h2, h4 (Option.some.inj hc)]
      · exact absurd (holders_eq hh hhold hbh) (fun e => hba e.symm)

/-- a step after which every activity is, for I_wake, where it was (or nowhere), no registration changed, and each queue is
unchanged or was rewritten by a soft table -/
theorem WakeInv.soft {s X : State} (h : WakeInv s) (hh : HolderInv s) (hw : WfInv s) (hf : FullInv s) (hp : ParkInv s)
    (hW : ∀ b q, (s.pcAt b).wakesQ q = true → (X.pcAt b).wakesQ q = true ∨ Landed s X q)
    (hR : ∀ b q j, (X.pcAt b).requeuing = some (q, j) → (s.pcAt b).requeuing = some (q, j))
    (hP : ∀ b q, (X.pcAt b).pending = some q → (s.pcAt b).pending = some q)
    (hreg : ∀ q j, Reg s q j → Reg X q j ∨ Flight X q)
    (hq : ∀ q, (X.qSt q = s.qSt q ∧ X.qjobs q = s.qjobs q) ∨
      ∃ st st', s.qSt q = some st ∧ X.qSt q = some st' ∧ (st' = .waitingForWake → st = .waitingForWake) ∧
        (st = .awokenWhileRunning → st' = .awokenWhileRunning) ∧ (X.qjobs q = s.qjobs q ∨ ∃ l l', s.qjobs q = some l ∧ X.qjobs q = some (l ++ l'))) :
    WakeInv X := by
  -- the mover of the general lemma is an index no activity has
  have hdead : ∀ Y : State, Y.acts.length ≤ s.acts.length + X.acts.length → Y.pcAt (s.acts.length + X.acts.length) = .dead := by
    intro Y hY
    have : Y.acts[s.acts.length + X.acts.length]? = none := List.getElem?_eq_none hY
    simp [State.pcAt, this]
  have hs := hdead s (by omega)
  have hX := hdead X (by omega)
  refine WakeInv.step (a := s.acts.length + X.acts.length) h hh hw hf hp (fun b _ => hW b) (fun b _ => hR b) (fun b _ => hP b) ?_ ?_ ?_ ?_ ?_ ?_
  · intro q hq'; rw [hs] at hq'; simp [Pc.wakesQ] at hq'
  · intro q j hr
    rcases hreg q j hr with h1 | h1
    · exact Or.inl h1
    · exact Or.inr (Or.inl h1)
  · intro q
    rcases hq q with ⟨h1, h2⟩ | ⟨st, st', h1, h2, h3, h4, h5⟩
    · exact QRel.same h1 h2
    · exact QRel.tab st st' h1 h2 h3 h4 h5
  · intro q hq'; rw [hs] at hq'; simp [Pc.holds] at hq'
  · intro q j hq'; rw [hX] at hq'; simp [Pc.requeuing] at hq'
  · intro q hq'; rw [hX] at hq'; simp [Pc.pending] at hq'

end Desync
