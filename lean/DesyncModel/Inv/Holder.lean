/-
I_runRight: the ghost `holder` field names, for every queue, exactly the activity whose program
counter lies in the region of the code that owns the run right of that queue; and a queue that has
a holder is in one of the three states in which only the holder may touch its jobs.
-/
import DesyncModel.Model
import DesyncModel.Lemmas
import DesyncModel.Setters

namespace Desync
open Gen

/-- the queue a pool thread has just taken from the schedule -/
def gotHolds : Option Nat → Nat → Bool
  | some q', q => q' == q
  | none, _ => false

/-- Does an activity at program counter `pc` own the run right of queue `q`? -/
def Pc.holds : Pc → Nat → Bool
  | .begin _ k, q | .body _ k, q | .unwinding k, q => k.holds q
  | .stReap k, q | .stScanLock k, q | .stScan _ k, q | .stScanHeld _ k, q | .stScanRel _ _ k, q
  | .stScanUnlock _ k, q | .stReadMax k, q | .stSpawn _ k, q | .stSpawnRel k, q => k.holds q
  | .rqCs _ k, q | .rqNotifyAcq _ _ _ k, q | .rqNotify _ _ _ k, q | .rqNotifyRel _ _ _ k, q | .rqPush _ k, q => k.holds q
  | .resumeSend _ k, q | .waking _ k, q | .openSend _ k, q | .wqCs _ k, q | .wtCs _ _ k, q | .wtUnpark _ k, q | .lwCs _ k, q | .dwCs _ k, q => k.holds q
  | .siIdle q' _, q => q' == q
  | .sdPush q' _, q | .sdCheck q' _, q | .sdIdle q', q => q' == q
  | .sbClaimRel q' _ c, q => c && q' == q
  | .sbRelReady q' _, q | .sbStealTest q' _, q | .sbStealIdle q' _, q => q' == q
  | .rjDequeue _ k, q | .rjPending _ _ k, q | .rjParkCheck _ _ k, q | .rjPark _ _ k, q | .rjParked _ _ k, q => k.holds q
  | .jobStart _ c k, q | .jobAwait _ c k, q | .jobBodyDone _ c k, q | .jobEnd _ c k, q | .jobSignal _ c k, q
  | .jobSigDrop _ c k, q | .jobDrop _ c k, q | .jobDropNotify _ c k, q | .suspSignal _ c k, q | .suspSigDrop _ c k, q =>
      (match c with | .caller _ => k.holds q | .pool _ q' => q' == q | .task _ _ q' => q' == q)
  | .ptUnlockSched _ g, q | .ptUnlockBusy _ g, q => gotHolds g q
  | .pdDequeue _ q', q | .pdRequeue _ q' _, q | .pdPending _ q', q | .pdExit _ q', q => q' == q
  | .pfPollRel _ next, q => next.holds q
  | .dqCheck _ q', q | .dqDequeue _ q', q | .dqRequeue _ _ _ q', q | .dqCheck2 _ _ q', q | .dqSetWfw _ _ q', q
  | .dqStore _ _ q', q | .dqSetWfp _ _ q', q | .dqStore2 _ q', q | .dqIdle2 _ q', q | .dqIdle _ q', q => q' == q
  | .dqWakeWith _ _ _ k, q => k.holds q
  | .fdDrop _ k, q => k.holds q
  | _, _ => false

def State.pcAt (s : State) (a : Nat) : Pc :=
  match s.acts[a]? with
  | some v => v.pc
  | none => .dead

/-- the three states in which a holder exists -/
def QState.held : QState → Bool
  | .running | .awokenWhileRunning | .waitingForUnpark => true
  | _ => false

structure HolderInv (s : State) : Prop where
  len : s.holder.length = s.qs.length
  iff : ∀ (a q : Nat), (s.pcAt a).holds q = true ↔ s.holder[q]? = some (some a)
  held : ∀ (a q : Nat) (v : JobQ), s.holder[q]? = some (some a) → s.qs[q]? = some v → v.state.held = true

theorem holderInv_init (nq ng max : Nat) : HolderInv (initState nq ng max) := by
  refine ⟨by simp [initState], ?_, ?_⟩
  · intro a q
    simp [initState, State.pcAt, Pc.holds, List.getElem?_replicate]
  · intro a q v h
    simp [initState, List.getElem?_replicate] at h

theorem holderInv_initP (ps : List Bool) (ng max : Nat) : HolderInv (initStateP ps ng max) := by
  refine ⟨by simp [initStateP, initState], ?_, ?_⟩
  · intro a q
    simp [initStateP, initState, State.pcAt, Pc.holds, List.getElem?_replicate]
  · intro a q v h
    simp [initStateP, initState, List.getElem?_replicate] at h

end Desync

namespace Desync
open Gen

/-! ### how the setters act on the fields the invariant reads -/

@[simp] theorem pcAt_setAct (s : State) (a b : Nat) (v : Act) :
    (s.setAct a v).pcAt b = if a = b ∧ a < s.acts.length then v.pc else s.pcAt b := by
  simp only [State.pcAt, State.setAct, List.getElem?_set]
  by_cases hab : a = b
  · subst hab
    by_cases hlt : a < s.acts.length
    · simp [hlt]
    · have : s.acts[a]? = none := by simpa using Nat.le_of_not_lt hlt
      simp [hlt, this]
  · simp [hab]

theorem pcAt_goto (s : State) (a b : Nat) (pc : Pc) :
    (s.goto a pc).pcAt b = if a = b ∧ a < s.acts.length then pc else s.pcAt b := by
  unfold State.goto
  split
  · next v hv => simp
  · next hv =>
    have : ¬ a < s.acts.length := by
      intro hlt
      have := List.getElem?_eq_getElem hlt
      simp_all
    simp [this]

@[simp] theorem qs_setQ (s : State) (q : Nat) (v : JobQ) : (s.setQ q v).qs = s.qs.set q v := rfl
@[simp] theorem holder_setHolder (s : State) (q : Nat) (h : Option Nat) : (s.setHolder q h).holder = s.holder.set q h := rfl
@[simp] theorem pcAt_setQ (s : State) (q : Nat) (v : JobQ) (b : Nat) : (s.setQ q v).pcAt b = s.pcAt b := rfl
@[simp] theorem pcAt_setJob (s : State) (j : Nat) (v : Job) (b : Nat) : (s.setJob j v).pcAt b = s.pcAt b := rfl
@[simp] theorem pcAt_setHolder (s : State) (q : Nat) (h : Option Nat) (b : Nat) : (s.setHolder q h).pcAt b = s.pcAt b := rfl

theorem setQState_eq (s : State) (q : Nat) (st : QState) (v : JobQ) (h : s.qs[q]? = some v) :
    s.setQState q st = s.setQ q { v with state := st } := by
  simp [State.setQState, h]

end Desync

namespace Desync
open Gen

/-- queue states seen by `s'` come from `s` and a state in which a holder exists stays such -/
def StatesOk (s s' : State) : Prop :=
  ∀ (q : Nat) (v' : JobQ), s'.qs[q]? = some v' → ∃ v, s.qs[q]? = some v ∧ (v.state.held = true → v'.state.held = true)

theorem StatesOk.refl' (s s' : State) (h : s'.qs = s.qs) : StatesOk s s' := by
  intro q v' hv; exact ⟨v', by rw [← h]; exact hv, id⟩

/-- A step of activity `a` that neither takes nor gives up a run right. -/
theorem HolderInv.keep {s s' : State} {a : Nat} {pc' : Pc} (h : HolderInv s)
    (hpc : ∀ b q, (s'.pcAt b).holds q = if a = b then pc'.holds q else (s.pcAt b).holds q)
    (hho : s'.holder = s.holder) (hqlen : s'.qs.length = s.qs.length)
    (hsame : ∀ q, pc'.holds q = (s.pcAt a).holds q) (hst : StatesOk s s') : HolderInv s' := by
  refine ⟨by rw [hho, hqlen]; exact h.len, ?_, ?_⟩
  · intro b q
    rw [hpc, hho]
    by_cases hab : a = b
    · subst hab; simp only [↓reduceIte]; rw [hsame]; exact h.iff a q
    · simp only [hab, ↓reduceIte]; exact h.iff b q
  · intro b q v' hb hv'
    rw [hho] at hb
    obtain ⟨v, hv, himp⟩ := hst q v' hv'
    exact himp (h.held b q v hb hv)

/-- A step in which activity `a` takes (`nh = some a`) or gives up (`nh = none`) the run right of `q0`. -/
theorem HolderInv.update {s s' : State} {a : Nat} {pc' : Pc} (h : HolderInv s) (q0 : Nat) (nh : Option Nat)
    (hpc : ∀ b q, (s'.pcAt b).holds q = if a = b then pc'.holds q else (s.pcAt b).holds q)
    (hho : s'.holder = s.holder.set q0 nh) (hqlen : s'.qs.length = s.qs.length) (hq0 : q0 < s.qs.length)
    (hnh : nh = none ∨ nh = some a)
    (hholds : ∀ q, pc'.holds q = if q = q0 then (nh == some a) else (s.pcAt a).holds q)
    (hpre : s.holder[q0]? = some none ∨ s.holder[q0]? = some (some a))
    (hst0 : nh = some a → ∀ v', s'.qs[q0]? = some v' → v'.state.held = true)
    (hst : ∀ (q : Nat) (v' : JobQ), q ≠ q0 → s'.qs[q]? = some v' → ∃ v, s.qs[q]? = some v ∧ (v.state.held = true → v'.state.held = true)) :
    HolderInv s' := by
  have hlen := h.len
  have hq0h : q0 < s.holder.length := by omega
  refine ⟨by rw [hho, hqlen]; simp [hlen], ?_, ?_⟩
  · intro b q
    rw [hpc, hho, List.getElem?_set]
    by_cases hq : q0 = q
    · subst hq
      simp only [↓reduceIte, hq0h]
      by_cases hab : a = b
      · subst hab
        simp only [↓reduceIte, hholds]
        rcases hnh with rfl | rfl <;> simp
      · simp only [hab, ↓reduceIte]
        constructor
        · intro hb
          have := (h.iff b q0).mp hb
          rcases hpre with hp | hp <;> rw [hp] at this <;> simp at this
          exact absurd this hab
        · intro hb
          rcases hnh with rfl | rfl
          · simp at hb
          · simp at hb; exact absurd hb hab
    · simp only [hq, ↓reduceIte]
      by_cases hab : a = b
      · subst hab
        simp only [↓reduceIte, hholds, Ne.symm hq]
        exact h.iff a q
      · simp only [hab, ↓reduceIte]; exact h.iff b q
  · intro b q v' hb hv'
    rw [hho, List.getElem?_set] at hb
    by_cases hq : q0 = q
    · subst hq
      simp only [↓reduceIte, hq0h] at hb
      rcases hnh with rfl | rfl
      · simp at hb
      · exact hst0 rfl v' hv'
    · simp only [hq, ↓reduceIte] at hb
      obtain ⟨v, hv, himp⟩ := hst q v' (Ne.symm hq) hv'
      exact himp (h.held b q v hb hv)

end Desync
