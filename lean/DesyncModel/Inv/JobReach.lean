/-
I_job (and the well-formedness of caller continuations) hold in every reachable state; consequences.
-/
import DesyncModel.Inv.JobStep
import DesyncModel.Inv.HolderReach
import DesyncModel.Spec

namespace Desync
open Gen

/-! ### environment steps -/

theorem wfInv_of_same {s X : State} (h : WfInv s) (hpc : ∀ b, (X.pcAt b).callerOk = (s.pcAt b).callerOk) : WfInv X :=
  fun b => by rw [hpc]; exact h b

theorem jobInv_wf_setChild {s : State} (hw : WfInv s) (h : FullInv s) (p : Nat) (c : Option Nat) :
    WfInv (match s.acts[p]? with | some pv => s.setAct p { pv with child := c } | none => s) ∧
    FullInv (match s.acts[p]? with | some pv => s.setAct p { pv with child := c } | none => s) := by
  split
  · next pv hpv =>
    have hpc : ∀ b, (s.setAct p { pv with child := c }).pcAt b = s.pcAt b := fun b => pcAt_setAct_samepc _ p pv { pv with child := c } hpv rfl b
    exact ⟨wfInv_of_same hw (fun b => by rw [hpc]), FullInv.of_eq h (fun b => by rw [hpc]) (fun _ => rfl) (fun _ => rfl) (fun _ => rfl) (fun _ => rfl) rfl⟩
  · exact ⟨hw, h⟩

theorem jobInv_wf_addAct {s s0 : State} (hw : WfInv s) (h : FullInv s) (t : Nat) (parent : Option Nat) (pc : Pc) (once : Bool)
    (hpc1 : pc.callerOk = true) (hpc2 : pc.runningQ = none) (hacts : s0.acts = s.acts) (hj : s0.jobs = s.jobs) (hq : s0.qs = s.qs) :
    WfInv (addAct s0 t parent pc once).1 ∧ FullInv (addAct s0 t parent pc once).1 := by
  have hw0 : WfInv s0 := fun b => by simp only [State.pcAt, hacts]; exact hw b
  have h0 : FullInv s0 := FullInv.congr h hacts hj hq
  let n : Act := { thread := t, pc := pc, parent := parent, child := none, woken := false, result := none, mode := .await, once := once }
  have hw1 : WfInv ({ s0 with acts := s0.acts ++ [n], nextOp := s0.nextOp + 1 } : State) := callerOk_pcAt_append hw0 rfl hpc1
  have h1 : FullInv ({ s0 with acts := s0.acts ++ [n], nextOp := s0.nextOp + 1 } : State) := FullInv.append_act h0 rfl hpc2 rfl rfl
  unfold addAct
  cases parent with
  | none => exact ⟨hw1, h1⟩
  | some p =>
    simp only
    have := jobInv_wf_setChild hw1 h1 p (some s0.acts.length)
    split
    · next pv hpv => simp only [n, hpv] at this; exact this
    · exact ⟨hw1, h1⟩

theorem jobInv_wf_invoke {s s' : State} {t a : Nat} {parent : Option Nat} {c : Call} (hw : WfInv s) (h : FullInv s)
    (hs : invoke s t parent c = some (s', a)) : WfInv s' ∧ FullInv s' := by
  unfold invoke at hs
  cases c <;> simp only at hs
  all_goals (repeat' split at hs)
  all_goals (try (simp at hs; done))
  all_goals (
    have hs' := congrArg Prod.fst (Option.some.inj hs)
    simp only at hs'
    subst hs'
    refine jobInv_wf_addAct hw h t parent _ _ (by simp [Pc.callerOk, JobKind.isErased]) (by simp [Pc.runningQ]) ?_ ?_ ?_ <;>
      (first | rfl | (split <;> (try split) <;> rfl)))

theorem jobInv_wf_bodyEnd {s s' : State} {a : Nat} {o : Obs} (hw : WfInv s) (h : FullInv s) (hx : HeldExcl s.jobPQ) (hs : bodyEnd s a = some (s', o)) : WfInv s' ∧ FullInv s' := by
  unfold bodyEnd at hs
  split at hs
  · next act ha =>
    split at hs
    · simp at hs
    · split at hs
      · next op k hpc =>
        obtain ⟨rfl, _⟩ := Prod.mk.inj (Option.some.inj hs)
        have hk := hw a
        rw [pcAt_of ha, hpc] at hk
        exact ⟨WfInv.keep_goto (s := s) (fun b => hw b) (by simpa [Pc.callerOk] using hk),
               FullInv.frame h hx (fun _ => rfl) (fun _ => rfl) (fun _ => rfl) (fun _ hi => Or.inl hi) (fun _ hi => hi) rfl (by rw [pcAt_of ha, hpc]; rfl)⟩
      · simp at hs
  · simp at hs

theorem jobInv_wf_spuriousUnpark {s s' : State} {a : Nat} {o : Obs} (hw : WfInv s) (h : FullInv s) (hx : HeldExcl s.jobPQ) (hs : spuriousUnpark s a = some (s', o)) : WfInv s' ∧ FullInv s' := by
  unfold spuriousUnpark at hs
  split at hs
  · next act ha =>
    split at hs
    · next q j k hpc =>
      obtain ⟨rfl, _⟩ := Prod.mk.inj (Option.some.inj hs)
      have hk := hw a
      rw [pcAt_of ha, hpc] at hk
      exact ⟨WfInv.keep_goto (s := s) (fun b => hw b) (by simpa [Pc.callerOk] using hk),
             FullInv.frame h hx (fun _ => rfl) (fun _ => rfl) (fun _ => rfl) (fun _ hi => Or.inl hi) (fun _ hi => hi) rfl (by rw [pcAt_of ha, hpc]; rfl)⟩
    · simp at hs
  · simp at hs

theorem jobInv_wf_spuriousPoll {s s' : State} {a : Nat} (hw : WfInv s) (h : FullInv s) (hx : HeldExcl s.jobPQ) (hs : spuriousPoll s a = some s') : WfInv s' ∧ FullInv s' := by
  unfold spuriousPoll at hs
  split at hs
  · next act ha =>
    split at hs
    · next f hpc =>
      cases Option.some.inj hs
      exact ⟨WfInv.keep_goto (s := s) (fun b => hw b) (by simp [Pc.callerOk]),
             FullInv.frame h hx (fun _ => rfl) (fun _ => rfl) (fun _ => rfl) (fun _ hi => Or.inl hi) (fun _ hi => hi) rfl (by rw [pcAt_of ha, hpc]; rfl)⟩
    · next u hpc =>
      cases Option.some.inj hs
      exact ⟨WfInv.keep_goto (s := s) (fun b => hw b) (by simp [Pc.callerOk]),
             FullInv.frame h hx (fun _ => rfl) (fun _ => rfl) (fun _ => rfl) (fun _ hi => Or.inl hi) (fun _ hi => hi) rfl (by rw [pcAt_of ha, hpc]; rfl)⟩
    · simp at hs
  · simp at hs

theorem jobInv_wf_ret {s s' : State} {a r : Nat} (hw : WfInv s) (h : FullInv s) (hx : HeldExcl s.jobPQ) (hs : retStep s a = some (s', r)) : WfInv s' ∧ FullInv s' := by
  unfold retStep at hs
  split at hs
  · next act ha =>
    split at hs
    · next hpc =>
      obtain ⟨rfl, _⟩ := Prod.mk.inj (Option.some.inj hs)
      have hw1 : WfInv (s.setAct a { act with pc := .dead }) := WfInv.keep_setAct (s := s) (fun b => hw b) (by simp [Pc.callerOk])
      have h1 : FullInv (s.setAct a { act with pc := .dead }) :=
        FullInv.frame_setAct h hx (fun _ => rfl) (fun _ => rfl) (fun _ => rfl) (fun _ hi => Or.inl hi) (fun _ hi => hi) rfl (by rw [pcAt_of ha, hpc]; rfl)
      split
      · next p hp => exact jobInv_wf_setChild hw1 h1 p none
      · exact ⟨hw1, h1⟩
    · simp at hs
  · simp at hs

/-- **I_job and the well-formedness of caller continuations hold in every reachable state.** -/
theorem fullInv_reachable {s : State} (hr : Reachable s) : WfInv s ∧ FullInv s := by
  induction hr with
  | init nq ng max => exact ⟨wfInv_init nq ng max, fullInv_init nq ng max⟩
  | initP ps ng max => exact ⟨wfInv_initP ps ng max, fullInv_initP ps ng max⟩
  | step l hprev hstep ih =>
    obtain ⟨hw, h⟩ := ih
    have hh := holderInv_reachable hprev
    have hx := heldExcl_of hh hw h.job
    cases l with
    | act a =>
      simp only [next, Option.map_eq_some_iff] at hstep
      obtain ⟨⟨s1, o⟩, hs, rfl⟩ := hstep
      exact ⟨wfInv_stepAct hw hs, fullInv_stepAct hh hw h hs⟩
    | invoke t parent c =>
      simp only [next] at hstep
      split at hstep
      · simp only [Option.map_eq_some_iff] at hstep
        obtain ⟨⟨s1, a⟩, hs, rfl⟩ := hstep
        exact jobInv_wf_invoke hw h hs
      · simp at hstep
    | bodyEnd a =>
      simp only [next, Option.map_eq_some_iff] at hstep
      obtain ⟨⟨s1, o⟩, hs, rfl⟩ := hstep
      exact jobInv_wf_bodyEnd hw h hx hs
    | ret a =>
      simp only [next, Option.map_eq_some_iff] at hstep
      obtain ⟨⟨s1, r⟩, hs, rfl⟩ := hstep
      exact jobInv_wf_ret hw h hx hs
    | spuriousUnpark a =>
      simp only [next, Option.map_eq_some_iff] at hstep
      obtain ⟨⟨s1, o⟩, hs, rfl⟩ := hstep
      exact jobInv_wf_spuriousUnpark hw h hx hs
    | spuriousPoll a =>
      simp only [next] at hstep
      exact jobInv_wf_spuriousPoll hw h hx hstep

/-- a job that is being run is run by an activity that owns the run right of the job's queue -/
theorem held_job_owner_holds {s : State} (hr : Reachable s) {j a : Nat} {b : Job} (hb : s.jobs[j]? = some b) (hph : b.ph = .held a) :
    (s.pcAt a).holds b.q = true ∧ s.holder[b.q]? = some (some a) := by
  obtain ⟨hw, hf⟩ := fullInv_reachable hr
  have h := hf.job
  have hrun := h.run2 a j b.q (by rw [jobPQ_of hb, hph])
  have hholds := holds_of_runningQ (hw a) hrun
  exact ⟨hholds, ((holderInv_reachable hr).iff a b.q).mp hholds⟩

/-- **two jobs of one queue are never being run at the same time** — by different threads or by one -/
theorem running_jobs_exclusive {s : State} (hr : Reachable s) {j1 j2 a1 a2 : Nat} {b1 b2 : Job}
    (h1 : s.jobs[j1]? = some b1) (h2 : s.jobs[j2]? = some b2) (hq : b1.q = b2.q)
    (hp1 : b1.ph = .held a1) (hp2 : b2.ph = .held a2) : j1 = j2 := by
  obtain ⟨hw, hf⟩ := fullInv_reachable hr
  have h := hf.job
  have o1 := (held_job_owner_holds hr h1 hp1).2
  have o2 := (held_job_owner_holds hr h2 hp2).2
  rw [hq] at o1
  rw [o1] at o2
  have ha : a1 = a2 := by simpa using o2
  subst ha
  have r1 := h.run2 a1 j1 b1.q (by rw [jobPQ_of h1, hp1])
  have r2 := h.run2 a1 j2 b2.q (by rw [jobPQ_of h2, hp2])
  rw [r1] at r2
  simpa using congrArg Prod.fst (Option.some.inj r2)

end Desync

namespace Desync
open Gen

/-- **C01 in the model: at most one operation per object is open** — between the invocation of its closure and its
completion or destruction, including every suspension of a future operation at an await — in every reachable state:
any number of objects, threads and calls, any pool size, any interleaving. -/
theorem exclusive_reachable {s : State} (hr : Reachable s) : Exclusive s := by
  obtain ⟨hw, hf⟩ := fullInv_reachable hr
  have h := hf.job
  intro j1 j2 b1 b2 h1 h2 hq ho1 ho2
  have o1 : s.jobOpen j1 = true := by rw [jobOpen_of h1]; exact ho1
  have o2 : s.jobOpen j2 = true := by rw [jobOpen_of h2]; exact ho2
  have p1 := jobPQ_of h1
  have p2 := jobPQ_of h2
  rcases h.open1 j1 o1 with ⟨a1, q1, e1⟩ | ⟨q1, l1, e1, hl1⟩ <;> rcases h.open1 j2 o2 with ⟨a2, q2, e2⟩ | ⟨q2, l2, e2, hl2⟩
  · rw [p1] at e1; rw [p2] at e2
    simp at e1 e2
    exact running_jobs_exclusive hr h1 h2 hq e1.1 e2.1
  · rw [p1] at e1; rw [p2] at e2
    simp at e1 e2
    have := h.open4 j1 j2 a1 b1.q (by rw [p1, e1.1]) (by rw [p2, e2.1, hq])
    rw [o2] at this; cases this
  · rw [p1] at e1; rw [p2] at e2
    simp at e1 e2
    have := h.open4 j2 j1 a2 b2.q (by rw [p2, e2.1]) (by rw [p1, e1.1, hq])
    rw [o1] at this; cases this
  · rw [p1] at e1; rw [p2] at e2
    simp at e1 e2
    have hq12 : q1 = q2 := by rw [← e1.2, ← e2.2, hq]
    subst hq12
    rw [hl1] at hl2
    simp at hl2
    exact hl2.1

end Desync

namespace Desync
open Gen

theorem jobInv_reachable {s : State} (hr : Reachable s) : WfInv s ∧ JobInv s :=
  ⟨(fullInv_reachable hr).1, (fullInv_reachable hr).2.job⟩

/-- **C02 in the model: operations run in the order in which their scheduling calls were made.**  Job ids are allocated
inside the scheduling call, under the queue lock; in every reachable state an operation has begun only if every operation
accepted earlier on the same object has ended. -/
theorem inOrder_reachable {s : State} (hr : Reachable s) : InOrder s := by
  obtain ⟨_, hf⟩ := fullInv_reachable hr
  intro j1 j2 b1 b2 h1 h2 hq hlt hb
  have := hf.ord.order j1 j2 b1.q b1.ph b2.ph hlt (jobPQ_of h1) (by rw [jobPQ_of h2, hq]) (by rw [jobB_of h2]; exact hb)
  rw [jobE_of h1] at this
  exact this

end Desync
