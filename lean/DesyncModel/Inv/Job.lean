/-
Job-level vocabulary: which job an activity is running, for which queue, and the shape of caller-side continuations.
-/
import DesyncModel.Inv.HolderLemmas

namespace Desync
open Gen

/-- the queue a job-running context works for -/
def Ctx.q : Ctx → Nat
  | .caller q => q
  | .pool _ q => q
  | .task _ _ q => q

/-- The job an activity is running right now, and the queue it runs it for (looking through the pcs that only carry a
continuation).  A job is "being run" from the critical section that dequeued it (or created it, for sync_immediate)
to the one that requeues it, finishes it or destroys it. -/
def Pc.runningQ : Pc → Option (Nat × Nat)
  | .begin _ k | .body _ k => k.runningQ
  | .stReap k | .stScanLock k | .stScan _ k | .stScanHeld _ k | .stScanRel _ _ k
  | .stScanUnlock _ k | .stReadMax k | .stSpawn _ k | .stSpawnRel k => k.runningQ
  | .rqCs _ k | .rqNotifyAcq _ _ _ k | .rqNotify _ _ _ k | .rqNotifyRel _ _ _ k | .rqPush _ k => k.runningQ
  | .resumeSend _ k | .waking _ k | .openSend _ k | .wqCs _ k | .wtCs _ _ k | .wtUnpark _ k | .lwCs _ k | .dwCs _ k => k.runningQ
  | .rjPending q j _ | .rjParkCheck q j _ | .rjPark q j _ | .rjParked q j _ => some (j, q)
  | .jobStart j c _ | .jobAwait j c _ | .jobBodyDone j c _ | .jobEnd j c _ | .jobSignal j c _
  | .jobSigDrop j c _ | .jobDrop j c _ | .suspSignal j c _ | .suspSigDrop j c _ => some (j, c.q)
  | .pdRequeue _ q j => some (j, q)
  | .dqRequeue _ j _ q => some (j, q)
  | .siIdle q j => some (j, q)
  | .pfPollRel _ next => next.runningQ
  | .dqWakeWith _ _ _ k => k.runningQ
  | .fdDrop _ k => k.runningQ
  | _ => none

/-- lifetime-erased jobs are created by `sync` only (never through `schedule_job_desync`) -/
def JobKind.isErased : JobKind → Bool
  | .erasedDrain _ _ | .erasedBg _ _ => true
  | _ => false

/-- a continuation of run_one_job_now's callers: sync_drain's or sync_background's loop on queue `q` -/
def Pc.plainFor (q : Nat) : Pc → Bool
  | .sdCheck q' _ => q' == q
  | .sbStealTest q' _ => q' == q
  | _ => false

/-- every caller-side job-running pc inside carries a plain continuation for its own queue -/
def Pc.callerOk : Pc → Bool
  | .begin _ k | .body _ k | .unwinding k => k.callerOk
  | .stReap k | .stScanLock k | .stScan _ k | .stScanHeld _ k | .stScanRel _ _ k
  | .stScanUnlock _ k | .stReadMax k | .stSpawn _ k | .stSpawnRel k => k.callerOk
  | .rqCs _ k | .rqNotifyAcq _ _ _ k | .rqNotify _ _ _ k | .rqNotifyRel _ _ _ k | .rqPush _ k => k.callerOk
  | .resumeSend _ k | .waking _ k | .openSend _ k | .wqCs _ k | .wtCs _ _ k | .wtUnpark _ k | .lwCs _ k | .dwCs _ k => k.callerOk
  | .rjDequeue q k | .rjPending q _ k | .rjParkCheck q _ k | .rjPark q _ k | .rjParked q _ k => k.plainFor q
  | .jobStart _ c k | .jobAwait _ c k | .jobBodyDone _ c k | .jobEnd _ c k | .jobSignal _ c k
  | .jobSigDrop _ c k | .jobDrop _ c k | .jobDropNotify _ c k | .suspSignal _ c k | .suspSigDrop _ c k =>
      (match c with | .caller q => k.plainFor q | _ => true)
  | .pfPollRel _ next => next.callerOk
  | .dqWakeWith _ _ _ k => k.callerOk
  | .fdDrop _ k => k.callerOk
  | .dsPush _ kind => !kind.isErased
  | _ => true

theorem plainFor_holds {q : Nat} {k : Pc} (h : k.plainFor q = true) : k.holds q = true := by
  cases k <;> simp_all [Pc.plainFor, Pc.holds]

theorem plainFor_running {q : Nat} {k : Pc} (h : k.plainFor q = true) : k.runningQ = none := by
  cases k <;> simp_all [Pc.plainFor, Pc.runningQ]

theorem plainFor_callerOk {q : Nat} {k : Pc} (h : k.plainFor q = true) : k.callerOk = true := by
  cases k <;> simp_all [Pc.plainFor, Pc.callerOk]

/-- an activity that is running a job for queue `q` owns the run right of `q` -/
theorem holds_of_runningQ : ∀ {pc : Pc} {j q : Nat}, pc.callerOk = true → pc.runningQ = some (j, q) → pc.holds q = true := by
  intro pc
  induction pc <;> intro j q hw hr <;> simp only [Pc.runningQ, Pc.callerOk, Pc.holds] at hw hr ⊢ <;> (try (simp at hr; done))
  all_goals (first
    | (rename_i ih; exact ih hw hr)
    | (rename_i c _ _; cases c <;> simp_all [Ctx.q, plainFor_holds])
    | (simp_all [plainFor_holds])
    | (simp_all))

@[simp] theorem callerOk_ctxReady (k : Pc) (c : Ctx) : (ctxReady k c).callerOk = (match c with | .caller q => k.callerOk | _ => true) := by
  cases c <;> simp [ctxReady, Pc.callerOk]
@[simp] theorem callerOk_ctxPending (j : Nat) (k : Pc) (c : Ctx) : (ctxPending j k c).callerOk = (match c with | .caller q => k.plainFor q | _ => true) := by
  cases c <;> simp [ctxPending, Pc.callerOk]
@[simp] theorem runningQ_ctxPending (j : Nat) (k : Pc) (c : Ctx) : (ctxPending j k c).runningQ = some (j, c.q) := by
  cases c <;> simp [ctxPending, Pc.runningQ, Ctx.q]

end Desync
