/-
The erased-job invariant: the steps that create, finish or stop waiting for an erased job, and the steps whose state
change the frame tactic cannot see through.
-/
import DesyncModel.Inv.ErasedInv
import DesyncModel.Inv.JobCases

namespace Desync
open Gen

theorem jobD_setJobPh_mono {s : State} {j : Nat} {b : Job} {ph : Phase} (hj : s.jobs[j]? = some b) (hnd : b.ph ≠ .done) :
    ∀ i, s.jobD i = true → (s.setJobPh j ph).jobD i = true := by
  unfold State.setJobPh
  rw [hj]
  exact jobD_setJob_mono hj (fun e => absurd e hnd)

theorem e_sdCheck {s s' : State} {a : Nat} {o : Obs} (h : ErasedInv s) (act : Act) (ha : s.acts[a]? = some act) (hc : act.child = none)
    (q j : Nat) (hpc : act.pc = .sdCheck q j) (hs : stepAct s a = some (s', o)) : ErasedInv s' := by
  have hlt : a < s.acts.length := lt_of_getElem?_some ha
  have hpca := pcAt_of ha
  unfold stepAct at hs
  simp only [ha, hc, hpc, Option.isSome_none, Bool.false_eq_true, ↓reduceIte] at hs
  split at hs
  · simp at hs
  next jb hjb =>
  split at hs
  · next hdone =>
    simp only [Option.some.injEq, Prod.mk.injEq] at hs; obtain ⟨rfl, _⟩ := hs
    refine ErasedInv.exit h hlt ?_ (Or.inr rfl)
    intro j' bg hk
    cases hd : s.jobD j' with
    | true => rfl
    | false =>
      have := h.waits j' a bg hk hd
      rw [hpca, hpc] at this
      simp only [Pc.awaited, Option.some.injEq] at this
      rw [← this, jobD_of hjb] at hd
      rw [hd] at hdone; cases hdone
  · simp only [Option.some.injEq, Prod.mk.injEq] at hs; obtain ⟨rfl, _⟩ := hs
    exact ErasedInv.frame h (fun _ => rfl) (fun _ => rfl) (fun _ hd => hd) (fun _ => rfl) rfl (by rw [hpca, hpc]; rfl) (Or.inr rfl)

theorem e_sbTest {s s' : State} {a : Nat} {o : Obs} (h : ErasedInv s) (act : Act) (ha : s.acts[a]? = some act) (hc : act.child = none)
    (q j : Nat) (hpc : act.pc = .sbTest q j) (hs : stepAct s a = some (s', o)) : ErasedInv s' := by
  have hlt : a < s.acts.length := lt_of_getElem?_some ha
  have hpca := pcAt_of ha
  unfold stepAct at hs
  simp only [ha, hc, hpc, Option.isSome_none, Bool.false_eq_true, ↓reduceIte] at hs
  split at hs
  · next hrdy =>
    simp only [Option.some.injEq, Prod.mk.injEq] at hs; obtain ⟨rfl, _⟩ := hs
    refine ErasedInv.exit h hlt ?_ (Or.inr rfl)
    intro j' bg hk
    obtain ⟨j0, hk0⟩ := h.readyHasJob a hrdy
    have := h.unique j' j0 a bg true hk hk0
    rw [this]
    exact h.readyDone j0 a hk0 hrdy
  · simp only [Option.some.injEq, Prod.mk.injEq] at hs; obtain ⟨rfl, _⟩ := hs
    exact ErasedInv.frame h (fun _ => rfl) (fun _ => rfl) (fun _ hd => hd) (fun _ => rfl) rfl (by rw [hpca, hpc]; rfl) (Or.inr rfl)

/-- dequeue: a queued job becomes held -/
theorem ErasedInv.dequeue_goto {s : State} {a q : Nat} {pc' : Pc} (hj : JobInv s) (h : ErasedInv s)
    (hA : pc'.awaited = (s.pcAt a).awaited) (hF : pc'.fresh = (s.pcAt a).fresh ∨ pc'.fresh = false) :
    ErasedInv ((s.dequeue q a).1.goto a pc') := by
  cases hd : (s.dequeue q a).2 with
  | none =>
    rw [Desync.dequeue_none hd]
    exact ErasedInv.frame h (fun _ => rfl) (fun _ => rfl) (fun _ hd => hd) (fun _ => rfl) rfl hA hF
  | some j =>
    obtain ⟨v, rest, hv, hjobs, hX⟩ := dequeue_some hd
    rw [hX]
    have hjq := hj.queued q _ j (by rw [qjobs_of hv, hjobs]) (by simp)
    obtain ⟨b, hb, hbph, _⟩ := jobPQ_some hjq
    refine ErasedInv.frame h (fun c => by simp) (fun i => by simp) ?_ (fun c => by simp) (by simp) hA hF
    intro i hi
    have hb' : (s.setQ q { v with jobs := rest }).jobs[j]? = some b := hb
    have := jobD_setJobPh_mono (ph := .held a) hb' (by rw [hbph]; simp) i (by simpa using hi)
    exact this

theorem e_rjDequeue {s s' : State} {a : Nat} {o : Obs} (hj : JobInv s) (h : ErasedInv s) (act : Act) (ha : s.acts[a]? = some act) (hc : act.child = none)
    (q : Nat) (k : Pc) (hpc : act.pc = .rjDequeue q k) (hs : stepAct s a = some (s', o)) : ErasedInv s' := by
  have hpca := pcAt_of ha
  unfold stepAct at hs
  simp only [ha, hc, hpc, Option.isSome_none, Bool.false_eq_true, ↓reduceIte] at hs
  cases hd : (s.dequeue q a).2 <;> simp only [hd, Option.some.injEq, Prod.mk.injEq] at hs <;> obtain ⟨rfl, _⟩ := hs <;>
    exact ErasedInv.dequeue_goto hj h (by rw [hpca, hpc]; rfl) (Or.inl (by rw [hpca, hpc]; rfl))

theorem e_pdDequeue {s s' : State} {a : Nat} {o : Obs} (hj : JobInv s) (h : ErasedInv s) (act : Act) (ha : s.acts[a]? = some act) (hc : act.child = none)
    (p q : Nat) (hpc : act.pc = .pdDequeue p q) (hs : stepAct s a = some (s', o)) : ErasedInv s' := by
  have hpca := pcAt_of ha
  unfold stepAct at hs
  simp only [ha, hc, hpc, Option.isSome_none, Bool.false_eq_true, ↓reduceIte] at hs
  cases hd : (s.dequeue q a).2 <;> simp only [hd, Option.some.injEq, Prod.mk.injEq] at hs <;> obtain ⟨rfl, _⟩ := hs <;>
    exact ErasedInv.dequeue_goto hj h (by rw [hpca, hpc]; rfl) (Or.inr rfl)

theorem e_dqDequeue {s s' : State} {a : Nat} {o : Obs} (hj : JobInv s) (h : ErasedInv s) (act : Act) (ha : s.acts[a]? = some act) (hc : act.child = none)
    (f q : Nat) (hpc : act.pc = .dqDequeue f q) (hs : stepAct s a = some (s', o)) : ErasedInv s' := by
  have hpca := pcAt_of ha
  unfold stepAct at hs
  simp only [ha, hc, hpc, Option.isSome_none, Bool.false_eq_true, ↓reduceIte] at hs
  cases hd : (s.dequeue q a).2 with
  | some j =>
    simp only [hd, Option.some.injEq, Prod.mk.injEq] at hs; obtain ⟨rfl, _⟩ := hs
    have h1 := ErasedInv.dequeue_goto (q := q) (pc' := .jobStart j (.task f (s.dequeue q a).1.latches.length q) .dead) hj h (by rw [hpca, hpc]; rfl) (Or.inr rfl)
    exact ErasedInv.congr h1 (goto_congr _ _ rfl) (by rw [jobs_goto', jobs_goto']) (by rw [ready_goto, ready_goto])
  | none =>
    simp only [hd, Option.some.injEq, Prod.mk.injEq] at hs; obtain ⟨rfl, _⟩ := hs
    exact ErasedInv.dequeue_goto hj h (by rw [hpca, hpc]; rfl) (Or.inr rfl)

/-- requeue: the held job goes back to the front of its queue -/
theorem ErasedInv.requeue_goto {s : State} {a q j : Nat} {pc' : Pc} (hj : JobInv s) (h : ErasedInv s)
    (hold : (s.pcAt a).runningQ = some (j, q))
    (hA : pc'.awaited = (s.pcAt a).awaited) (hF : pc'.fresh = (s.pcAt a).fresh ∨ pc'.fresh = false) :
    ErasedInv (((s.pushFront q j).setJobPh j .queued).goto a pc') := by
  obtain ⟨b, hb, hbph, _⟩ := jobPQ_some (hj.run1 a j q hold)
  have hb' : (s.pushFront q j).jobs[j]? = some b := by
    unfold State.pushFront; split <;> simpa using hb
  refine ErasedInv.frame h (fun c => by simp) (fun i => by simp) ?_ (fun c => by simp) (by simp) hA hF
  intro i hi
  exact jobD_setJobPh_mono (ph := .queued) hb' (by rw [hbph]; simp) i (by simpa using hi)

theorem e_pdRequeue {s s' : State} {a : Nat} {o : Obs} (hj : JobInv s) (h : ErasedInv s) (act : Act) (ha : s.acts[a]? = some act) (hc : act.child = none)
    (p q j : Nat) (hpc : act.pc = .pdRequeue p q j) (hs : stepAct s a = some (s', o)) : ErasedInv s' := by
  have hpca := pcAt_of ha
  unfold stepAct at hs
  simp only [ha, hc, hpc, Option.isSome_none, Bool.false_eq_true, ↓reduceIte] at hs
  simp only [Option.some.injEq, Prod.mk.injEq] at hs; obtain ⟨rfl, _⟩ := hs
  exact ErasedInv.requeue_goto hj h (by rw [hpca, hpc]; rfl) (by rw [hpca, hpc]; rfl) (Or.inr rfl)

theorem e_dqRequeue {s s' : State} {a : Nat} {o : Obs} (hj : JobInv s) (h : ErasedInv s) (act : Act) (ha : s.acts[a]? = some act) (hc : act.child = none)
    (f j l q : Nat) (hpc : act.pc = .dqRequeue f j l q) (hs : stepAct s a = some (s', o)) : ErasedInv s' := by
  have hpca := pcAt_of ha
  unfold stepAct at hs
  simp only [ha, hc, hpc, Option.isSome_none, Bool.false_eq_true, ↓reduceIte] at hs
  simp only [Option.some.injEq, Prod.mk.injEq] at hs; obtain ⟨rfl, _⟩ := hs
  exact ErasedInv.requeue_goto hj h (by rw [hpca, hpc]; rfl) (by rw [hpca, hpc]; rfl) (Or.inr rfl)


theorem e_jobDrop {s s' : State} {a : Nat} {o : Obs} (hj : JobInv s) (h : ErasedInv s) (act : Act) (ha : s.acts[a]? = some act) (hc : act.child = none)
    (j : Nat) (c : Ctx) (k : Pc) (hpc : act.pc = .jobDrop j c k) (hs : stepAct s a = some (s', o)) : ErasedInv s' := by
  have hpca := pcAt_of ha
  have hold : (s.pcAt a).runningQ = some (j, c.q) := by rw [hpca, hpc]; rfl
  unfold stepAct at hs
  simp only [ha, hc, hpc, Option.isSome_none, Bool.false_eq_true, ↓reduceIte] at hs
  split at hs
  · simp at hs
  next jb hjb =>
  have hheld := hj.run1 a j c.q hold
  rw [jobPQ_of hjb] at hheld
  simp at hheld
  have hnd : s.jobD j = false := by rw [jobD_of hjb, hheld.1]; rfl
  split at hs
  · next owner body hkind =>
    split at hs
    · simp at hs
    · simp only [Option.some.injEq, Prod.mk.injEq] at hs; obtain ⟨rfl, _⟩ := hs
      refine ErasedInv.dropBg (j0 := j) (o0 := owner) h rfl (fun _ => rfl) (by rw [jobK_of hjb]; simp [kOf, hkind]) hnd ?_ ?_ ?_
        (by rw [hpca, hpc]; simp only [Pc.awaited]) (Or.inl (by rw [hpca, hpc]; simp only [Pc.fresh]))
      · intro i
        show (s.setJob j { jb with ph := .done, ended := true }).jobK i = s.jobK i
        exact jobK_setJob_keep (v := { jb with ph := .done, ended := true }) hjb rfl i
      · intro i
        show (s.setJob j { jb with ph := .done, ended := true }).jobD i = _
        rw [jobD_setJob_of hjb]; rfl
      · intro b
        show (owner :: s.ready).contains b = _
        by_cases e : b = owner
        · simp [e]
        · simp [State.isReady, e]
  · simp only [Option.some.injEq, Prod.mk.injEq] at hs; obtain ⟨rfl, _⟩ := hs
    refine ErasedInv.frame h (fun _ => rfl) (fun i => jobK_setJob_keep (v := { jb with ph := .done, ended := true }) hjb rfl i) (jobD_setJob_mono hjb (fun _ => rfl)) (fun _ => rfl) rfl
      (by rw [hpca, hpc]; simp only [Pc.awaited, awaited_ctxReady]) (Or.inl (by rw [hpca, hpc]; simp only [Pc.fresh, fresh_ctxReady]))

/-- a job that is not erased is appended to the job table -/
theorem ErasedInv.append_plain {s X : State} {a : Nat} {nj : Job} {pc' : Pc} (h : ErasedInv s)
    (hpc : ∀ b, X.pcAt b = s.pcAt b) (hJ : X.jobs = s.jobs ++ [nj]) (hne : kOf nj = none)
    (hr : ∀ b, X.isReady b = s.isReady b) (hlen : X.acts.length = s.acts.length)
    (hA : pc'.awaited = (s.pcAt a).awaited) (hF : pc'.fresh = (s.pcAt a).fresh ∨ pc'.fresh = false) : ErasedInv (X.goto a pc') := by
  refine ErasedInv.frame h hpc ?_ ?_ hr hlen hA hF
  · intro i
    rw [jobK_of_append hJ]
    split
    · next e => rw [e, jobK_fresh, hne]
    · rfl
  · intro i hi
    rw [jobD_of_append hJ]
    split
    · next e => rw [e, jobD_fresh] at hi; cases hi
    · exact hi

theorem e_syDecide {s s' : State} {a : Nat} {o : Obs} (h : ErasedInv s) (act : Act) (ha : s.acts[a]? = some act) (hc : act.child = none)
    (q : Nat) (b : Body) (hpc : act.pc = .syDecide q b) (hs : stepAct s a = some (s', o)) : ErasedInv s' := by
  have hpca := pcAt_of ha
  unfold stepAct at hs
  simp only [ha, hc, hpc, Option.isSome_none, Bool.false_eq_true, ↓reduceIte] at hs
  split at hs
  · simp at hs
  next v hv =>
  repeat' split at hs
  all_goals (simp only [Option.some.injEq, Prod.mk.injEq] at hs; obtain ⟨rfl, _⟩ := hs)
  · exact ErasedInv.append_plain (nj := ⟨q, .immediate a b, .held a, true, false, none, false⟩) h (fun _ => rfl) rfl rfl (fun _ => rfl) rfl
      (by rw [hpca, hpc]; rfl) (Or.inr rfl)
  all_goals (exact ErasedInv.frame h (fun _ => rfl) (fun _ => rfl) (fun _ hd => hd) (fun _ => rfl) rfl (by rw [hpca, hpc]; rfl) (by first | exact Or.inl (by rw [hpca, hpc]; rfl) | exact Or.inr rfl))

theorem e_tsDecide {s s' : State} {a : Nat} {o : Obs} (h : ErasedInv s) (act : Act) (ha : s.acts[a]? = some act) (hc : act.child = none)
    (q : Nat) (b : Body) (hpc : act.pc = .tsDecide q b) (hs : stepAct s a = some (s', o)) : ErasedInv s' := by
  have hpca := pcAt_of ha
  unfold stepAct at hs
  simp only [ha, hc, hpc, Option.isSome_none, Bool.false_eq_true, ↓reduceIte] at hs
  split at hs
  · simp at hs
  next v hv =>
  repeat' split at hs
  all_goals (simp only [Option.some.injEq, Prod.mk.injEq] at hs; obtain ⟨rfl, _⟩ := hs)
  · exact ErasedInv.append_plain (nj := ⟨q, .immediate a b, .held a, true, false, none, false⟩) h (fun _ => rfl) rfl rfl (fun _ => rfl) rfl
      (by rw [hpca, hpc]; rfl) (Or.inr rfl)
  · exact ErasedInv.frame_setAct h (fun _ => rfl) (fun _ => rfl) (fun _ hd => hd) (fun _ => rfl) rfl (by rw [hpca, hpc]; rfl) (Or.inr rfl)
  · exact ErasedInv.frame h (fun _ => rfl) (fun _ => rfl) (fun _ hd => hd) (fun _ => rfl) rfl (by rw [hpca, hpc]; rfl) (Or.inr rfl)

theorem e_dsPush {s s' : State} {a : Nat} {o : Obs} (hw : WfInv s) (h : ErasedInv s) (act : Act) (ha : s.acts[a]? = some act) (hc : act.child = none)
    (q : Nat) (kind : JobKind) (hpc : act.pc = .dsPush q kind) (hs : stepAct s a = some (s', o)) : ErasedInv s' := by
  have hpca := pcAt_of ha
  have hk := hw a
  rw [hpca, hpc] at hk
  simp only [Pc.callerOk, Bool.not_eq_eq_eq_not, Bool.not_true] at hk
  have hne : kOf ⟨q, kind, .queued, false, false, none, false⟩ = none := by
    cases kind <;> simp_all [kOf, JobKind.isErased]
  unfold stepAct at hs
  simp only [ha, hc, hpc, Option.isSome_none, Bool.false_eq_true, ↓reduceIte] at hs
  split at hs
  · simp at hs
  next v hv =>
  repeat' split at hs
  all_goals (simp only [Option.some.injEq, Prod.mk.injEq] at hs; obtain ⟨rfl, _⟩ := hs)
  all_goals (exact ErasedInv.append_plain (nj := ⟨q, kind, .queued, false, false, none, false⟩) h (fun _ => rfl) rfl hne (fun _ => rfl) rfl (by rw [hpca, hpc]; rfl) (Or.inr rfl))

theorem e_sdPush {s s' : State} {a : Nat} {o : Obs} (h : ErasedInv s) (act : Act) (ha : s.acts[a]? = some act) (hc : act.child = none)
    (q : Nat) (b : Body) (hpc : act.pc = .sdPush q b) (hs : stepAct s a = some (s', o)) : ErasedInv s' := by
  have hlt : a < s.acts.length := lt_of_getElem?_some ha
  have hpca := pcAt_of ha
  unfold stepAct at hs
  simp only [ha, hc, hpc, Option.isSome_none, Bool.false_eq_true, ↓reduceIte] at hs
  simp only [Option.some.injEq, Prod.mk.injEq] at hs; obtain ⟨rfl, _⟩ := hs
  refine ErasedInv.push (bg := false) h hlt (by unfold State.pushBack; split <;> rfl) (fun c => by rw [pcAt_pushBack]; rfl) (by rw [hpca, hpc]; rfl) ?_ ?_ (fun c => by rw [isReady_pushBack]; rfl) (by simp [Pc.awaited]) rfl
  · intro i
    rw [jobK_pushBack, jobK_of_append (s := s) (nj := ⟨q, .erasedDrain a b, .queued, false, false, none, false⟩) rfl]; rfl
  · intro i
    rw [jobD_pushBack, jobD_of_append (s := s) (nj := ⟨q, .erasedDrain a b, .queued, false, false, none, false⟩) rfl]; rfl

theorem e_sbPush {s s' : State} {a : Nat} {o : Obs} (h : ErasedInv s) (act : Act) (ha : s.acts[a]? = some act) (hc : act.child = none)
    (q : Nat) (b : Body) (hpc : act.pc = .sbPush q b) (hs : stepAct s a = some (s', o)) : ErasedInv s' := by
  have hlt : a < s.acts.length := lt_of_getElem?_some ha
  have hpca := pcAt_of ha
  unfold stepAct at hs
  simp only [ha, hc, hpc, Option.isSome_none, Bool.false_eq_true, ↓reduceIte] at hs
  split at hs
  · simp at hs
  next v hv =>
  repeat' split at hs
  all_goals (simp only [Option.some.injEq, Prod.mk.injEq] at hs; obtain ⟨rfl, _⟩ := hs)
  all_goals (refine ErasedInv.push (bg := true) h hlt rfl (fun c => rfl) (by rw [hpca, hpc]; rfl) ?_ ?_ (fun c => rfl) (by simp [Pc.awaited]) rfl)
  all_goals (intro i; first
    | (rw [jobK_setQ, jobK_of_append (s := s) (nj := ⟨q, .erasedBg a b, .queued, false, false, none, false⟩) rfl]; rfl)
    | (rw [jobD_setQ, jobD_of_append (s := s) (nj := ⟨q, .erasedBg a b, .queued, false, false, none, false⟩) rfl]; rfl))

theorem ErasedInv.spawn_goto {s X : State} {a : Nat} {n : Act} {pc' : Pc} (h : ErasedInv s) (hA : X.acts = s.acts ++ [n]) (hJ : X.jobs = s.jobs) (hR : X.ready = s.ready)
    (hlt : a < s.acts.length) (hAw : pc'.awaited = (s.pcAt a).awaited) (hF : pc'.fresh = (s.pcAt a).fresh ∨ pc'.fresh = false) : ErasedInv (X.goto a pc') := by
  have hX : ErasedInv X := ErasedInv.append_act h hA hJ hR
  have hpa : X.pcAt a = s.pcAt a := by simp only [State.pcAt, hA, List.getElem?_append_left hlt]
  refine ErasedInv.frame hX (fun _ => rfl) (fun _ => rfl) (fun _ hd => hd) (fun _ => rfl) rfl (by rw [hpa]; exact hAw) (by rw [hpa]; exact hF)

theorem e_stSpawn {s s' : State} {a : Nat} {o : Obs} (h : ErasedInv s) (act : Act) (ha : s.acts[a]? = some act) (hc : act.child = none)
    (m : Nat) (k : Pc) (hpc : act.pc = .stSpawn m k) (hs : stepAct s a = some (s', o)) : ErasedInv s' := by
  have hlt : a < s.acts.length := lt_of_getElem?_some ha
  have hpca := pcAt_of ha
  unfold stepAct at hs
  simp only [ha, hc, hpc, Option.isSome_none, Bool.false_eq_true, ↓reduceIte] at hs
  split at hs
  · simp at hs
  · split at hs
    · simp only [Option.some.injEq, Prod.mk.injEq] at hs; obtain ⟨rfl, _⟩ := hs
      exact ErasedInv.spawn_goto h rfl rfl rfl hlt (by rw [hpca, hpc]; rfl) (Or.inl (by rw [hpca, hpc]; rfl))
    · simp only [Option.some.injEq, Prod.mk.injEq] at hs; obtain ⟨rfl, _⟩ := hs
      exact ErasedInv.frame h (fun _ => rfl) (fun _ => rfl) (fun _ hd => hd) (fun _ => rfl) rfl (by rw [hpca, hpc]; rfl) (Or.inl (by rw [hpca, hpc]; rfl))

end Desync
