/-
I_park (C04 / C06, the "thread inside sync" context): a queue in the `WaitingForUnpark` state always has a sync caller in the
park loop of `run_one_job_now` for that queue — the state is written only by the caller that then parks, and that caller leaves
the loop only after the state has been taken back to `Running` / `AwokenWhileRunning` (by `WakeThread::wake`).  So the thread a
`WakeThread` wake-up is meant for is there to re-check the state.
-/
import DesyncModel.Inv.PendStep

namespace Desync
open Gen

/-- the activity is in the park loop of `run_one_job_now` for queue `q` -/
def Pc.parks : Pc → Nat → Bool
  | .rjParkCheck q' _ _, q | .rjPark q' _ _, q | .rjParked q' _ _, q => q' == q
  | _, _ => false

structure ParkInv (s : State) : Prop where
  park : ∀ q, s.qSt q = some .waitingForUnpark → ∃ a, (s.pcAt a).parks q = true

theorem ParkInv.step {s X : State} {a : Nat} (h : ParkInv s)
    (hoth : ∀ b, b ≠ a → ∀ q, (s.pcAt b).parks q = true → (X.pcAt b).parks q = true)
    (hq : ∀ q, X.qSt q = some .waitingForUnpark → s.qSt q = some .waitingForUnpark ∨ (X.pcAt a).parks q = true)
    (hmine : ∀ q, (s.pcAt a).parks q = true → (X.pcAt a).parks q = true ∨ X.qSt q ≠ some .waitingForUnpark) : ParkInv X := by
  refine ⟨?_⟩
  intro q hp
  rcases hq q hp with h1 | h1
  · obtain ⟨b, h2⟩ := h.park q h1
    by_cases hba : b = a
    · subst hba
      rcases hmine q h2 with h3 | h3
      · exact ⟨b, h3⟩
      · exact absurd hp h3
    · exact ⟨b, hoth b hba q h2⟩
  · exact ⟨a, h1⟩

theorem ParkInv.step' {s X : State} {a : Nat} (h : ParkInv s)
    (hoth : ∀ b, b ≠ a → X.pcAt b = s.pcAt b)
    (hq : ∀ q, X.qSt q = some .waitingForUnpark → s.qSt q = some .waitingForUnpark ∨ (X.pcAt a).parks q = true)
    (hmine : ∀ q, (s.pcAt a).parks q = true → (X.pcAt a).parks q = true ∨ X.qSt q ≠ some .waitingForUnpark) : ParkInv X :=
  ParkInv.step h (fun b hba q hp => by rw [hoth b hba]; exact hp) hq hmine

/-! ### only `run_one_job_now` writes `WaitingForUnpark`, and it then parks -/

theorem desyncPush_wfu {st : QState} (h : (desyncPush st).1 = .waitingForUnpark) : st = .waitingForUnpark := by
  cases st <;> simp_all [desyncPush]
theorem reschedule_wfu {st : QState} {e : Bool} (h : (reschedule st e).1 = .waitingForUnpark) : st = .waitingForUnpark := by
  cases st <;> cases e <;> simp_all [reschedule]
theorem syncDecide_wfu {st : QState} {e : Bool} (h : (syncDecide st e).1 = .waitingForUnpark) : st = .waitingForUnpark := by
  cases st <;> cases e <;> simp_all [syncDecide]
theorem syncNoPanicDecide_wfu {st : QState} {e : Bool} (h : (syncNoPanicDecide st e).1 = .waitingForUnpark) : st = .waitingForUnpark := by
  cases st <;> cases e <;> simp_all [syncNoPanicDecide]
theorem trySyncDecide_wfu {st : QState} {e : Bool} (h : (trySyncDecide st e).1 = .waitingForUnpark) : st = .waitingForUnpark := by
  cases st <;> cases e <;> simp_all [trySyncDecide]
theorem pollDecide_wfu {self : Nat} {st : QState} (h : (pollDecide self st).1 = .waitingForUnpark) : st = .waitingForUnpark := by
  cases st <;> simp_all [pollDecide]
  split at h <;> simp_all
theorem futureDropDecide_wfu {self : Nat} {st : QState} (h : (futureDropDecide self st).1 = .waitingForUnpark) : st = .waitingForUnpark := by
  cases st <;> simp_all [futureDropDecide]
  split at h <;> simp_all
theorem claim_wfu {st : QState} (h : (claim st).1 = .waitingForUnpark) : st = .waitingForUnpark := by
  cases st <;> simp_all [claim]
theorem nextToRun_wfu {st : QState} (h : (nextToRun st).1 = .waitingForUnpark) : st = .waitingForUnpark := by
  cases st <;> simp_all [nextToRun]
theorem drainPending_wfu {st : QState} (h : (drainPending st).1 = .waitingForUnpark) : st = .waitingForUnpark := by
  cases st <;> simp_all [drainPending]
theorem drainExit_wfu {st : QState} {e : Bool} (h : (drainExit st e).1 = .waitingForUnpark) : st = .waitingForUnpark := by
  cases st <;> cases e <;> simp_all [drainExit]
theorem runOnePending_wfu {st : QState} (h : (runOnePending st).1 = .waitingForUnpark) : st = .waitingForUnpark ∨ (runOnePending st).2 = .park := by
  cases st <;> simp_all [runOnePending]
theorem wakeQueue_wfu {st : QState} (h : (wakeQueue st).1 = .waitingForUnpark) : st = .waitingForUnpark := by
  cases st <;> simp_all [wakeQueue]
theorem wakeThread_wfu {st : QState} (h : wakeThread st = .waitingForUnpark) : st = .waitingForUnpark := by
  cases st <;> simp_all [wakeThread]
theorem parkCheck_leaves {st : QState} (h : parkCheck st ≠ .park) : st ≠ .waitingForUnpark := by
  intro e; subst e; simp [parkCheck] at h

end Desync
