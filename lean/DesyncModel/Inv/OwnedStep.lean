/-
OwnedInv is preserved by every internal step.
-/
import DesyncModel.Inv.Owned
namespace Desync
open Gen

set_option hygiene false in
macro "held_table" : tactic => `(tactic| first
  | exact fun hk => desyncPush_heldNew hk | exact fun hk => futureDropDecide_heldNew hk | exact fun hk => reschedule_heldNew hk
  | exact fun hk => drainPending_heldNew hk | exact fun hk => drainExit_heldNew hk | exact fun hk => runOnePending_heldNew hk
  | exact fun hk => wakeQueue_heldNew hk | exact fun hk => wakeThread_heldNew hk
  | (intro hk; apply syncDecide_heldKeep _ _ hk <;> assumption)
  | (intro hk; apply syncNoPanicDecide_heldKeep _ _ hk <;> assumption)
  | (intro hk; apply trySyncDecide_heldKeep _ hk <;> assumption)
  | (intro hk; apply pollDecide_heldKeep _ hk <;> first | assumption | (simp_all; done))
  | (intro hk; apply claim_heldKeep _ hk <;> first | assumption | (simp_all; done))
  | (intro hk; apply nextToRun_heldKeep _ hk <;> first | assumption | (simp_all; done))
  | exact id)

set_option hygiene false in
macro "own_peel" : tactic => `(tactic| first
  | (intro i; first | rfl | (simp only [qSt_setJob, qSt_setGate, qSt_setAct, qSt_setSf, qSt_setPThr, qSt_setHolder, qSt_takeReady, qSt_dropReady, qSt_goto, qSt_setWoken, qSt_notify,
                     qSt_setFut, qSt_setJobPh, qSt_pushFront, qSt_pushBack, qSt_dequeue]; (first | done | rfl)) | (refine qSt_congr ?_ i; (first | rfl | (simp; done))))
  | (intro i; first | rfl | (simp only [hol_setQ, hol_setJob, hol_setGate, hol_setAct, hol_setSf, hol_setPThr, hol_takeReady, hol_dropReady, hol_goto, hol_setWoken, hol_notify,
                     hol_setFut, hol_setJobPh, hol_setQState, hol_pushFront, hol_pushBack, hol_dequeue]; (first | done | rfl)) | (refine hol_congr ?_ i; (first | rfl | (simp; done)))))

set_option hygiene false in
macro "own_side" : tactic => `(tactic| first
  | rfl | assumption | (simp; done) | (held_table)
  | (exact drainPending_release (by assumption)) | (exact drainExit_release (by assumption)))

set_option hygiene false in
macro "own_shape" : tactic => `(tactic| first
  | exact h
  | (refine OwnedInv.same h ?_ ?_ <;> first | rfl | (simp; done))
  -- a table rewrites the state, the owner stays
  | (apply OwnedInv.keepY hh h <;> own_side)
  -- the caller becomes the owner
  | (apply OwnedInv.grantY hh h <;> own_side)
  | (apply OwnedInv.grantZ hh h
     · assumption
     · intro i hne
       simp only [State.qSt, State.setQ]
       rw [List.getElem?_set_ne (Ne.symm hne)]
     · rfl)
  -- the same, with other fields of the state updated on top
  | (apply OwnedInv.keepY_upd hh h <;> own_side)
  | (refine OwnedInv.of_eq h (fun i => ?_) (fun i => ?_)
     · exact (qSt_congr rfl i).trans (qSt_dequeue _ _ _ i)
     · exact (hol_congr rfl i).trans (hol_dequeue _ _ _ i))
  -- the owner lets go
  | (apply OwnedInv.releaseY hh h <;> own_side)
  | (refine OwnedInv.litY hh h ?_ ?_ ?_ <;> first | rfl | (simp; done)))

set_option maxHeartbeats 4000000 in
set_option maxRecDepth 8000 in
theorem ownedInv_stepAct {s s' : State} {a : Nat} {o : Obs} (hh : HolderInv s) (h : OwnedInv s)
    (hs : stepAct s a = some (s', o)) : OwnedInv s' := by
  unfold stepAct at hs
  split at hs
  · simp at hs
  next act ha =>
  split at hs
  · simp at hs
  next hchild =>
  split at hs
  all_goals (try (simp at hs; done))
  all_goals (try dsimp only at hs)
  all_goals (repeat' split at hs)
  all_goals (try (simp at hs; done))
  all_goals (try (simp only [Option.some.injEq, Prod.mk.injEq] at hs; obtain ⟨rfl, _⟩ := hs))
  all_goals (first
      | ((refine OwnedInv.of_eq h ?_ ?_) <;> own_peel)
      | (apply OwnedInv.goto_of; own_shape)
      | (apply OwnedInv.setAct_of; own_shape)
      | (apply OwnedInv.goto_of; apply OwnedInv.setJob_of; own_shape)
      | own_shape
      | skip)

end Desync
