/-
`KindInv` holds in every reachable state.
-/
import DesyncModel.Inv.KindStep

namespace Desync
open Gen

theorem kindInv_addAct {s s0 : State} (h : KindInv s) (hF : FutsMono s.futs s0.futs) (hS : SfsMono s.sfs s0.sfs)
    (hacts : s0.acts = s.acts) (hjobs : s0.jobs = s.jobs) (t : Nat) (parent : Option Nat) (pc : Pc) (once : Bool)
    (hpc : ∀ q kind, (q, kind) ∈ pc.dsPushes → KindOk s0.futs s0.sfs q kind) : KindInv (addAct s0 t parent pc once).1 := by
  have hpcs : ∀ b, s0.pcAt b = s.pcAt b := fun b => by simp only [State.pcAt, hacts]
  refine ⟨?_, ?_⟩
  · intro b q kind hb
    rw [(futs_addAct s0 t parent pc once).1, (futs_addAct s0 t parent pc once).2]
    rw [pcAt_addAct] at hb
    split at hb
    · exact hpc q kind hb
    · rw [hpcs] at hb; exact (h.pcs b q kind hb).mono hF hS
  · intro j jb hj
    rw [(futs_addAct s0 t parent pc once).1, (futs_addAct s0 t parent pc once).2]
    rw [jobs_addAct, hjobs] at hj
    exact (h.jobs j jb hj).mono hF hS

theorem futQ_append_last (F : List Fut) (x : Fut) : futQ (F ++ [x]) F.length = some x.q := by simp [futQ]
theorem futQ_append_two0 (F : List Fut) (x y : Fut) : futQ (F ++ [x, y]) F.length = some x.q := by
  simp [futQ]
theorem futQ_append_two1 (F : List Fut) (x y : Fut) : futQ (F ++ [x, y]) (F.length + 1) = some y.q := by
  simp [futQ]
theorem sfQ_append_last (S : List SyncFut) (x : SyncFut) : sfQ (S ++ [x]) S.length = some x.q := by simp [sfQ]

theorem kindInv_invoke {s s' : State} {t a : Nat} {parent : Option Nat} {c : Call} (h : KindInv s)
    (hs : invoke s t parent c = some (s', a)) : KindInv s' := by
  unfold invoke at hs
  cases c <;> simp only at hs
  all_goals (repeat' split at hs)
  all_goals (try (simp at hs; done))
  all_goals (
    have hs' := congrArg Prod.fst (Option.some.inj hs)
    simp only at hs'
    subst hs'
    refine kindInv_addAct h ?_ ?_ ?_ ?_ t parent _ _ ?_)
  all_goals (first
    | exact FutsMono.refl _
    | exact SfsMono.refl _
    | exact FutsMono.append _ _
    | exact SfsMono.append _ _
    | rfl
    | (split <;> (try split) <;> first | rfl | exact FutsMono.append _ _ | exact SfsMono.refl _ | exact FutsMono.refl _)
    | (intro q kind hm
       simp only [Pc.dsPushes, List.mem_singleton, Prod.mk.injEq] at hm
       obtain ⟨rfl, rfl⟩ := hm
       first
         | trivial
         | exact futQ_append_last _ _
         | exact ⟨futQ_append_last _ _, sfQ_append_last _ _⟩
         | exact ⟨futQ_append_two0 _ _ _, futQ_append_two1 _ _ _⟩
         | (simp only [KindOk]; first | exact futQ_append_last _ _ | (split <;> (try split) <;> exact futQ_append_last _ _)))
    | (intro q kind hm; simp [Pc.dsPushes] at hm)
    | skip)

theorem kindInv_env {s s' : State} (h : KindInv s) (hf : s'.futs = s.futs) (hsf : s'.sfs = s.sfs) (hj : s'.jobs = s.jobs)
    (hd : DsSub s s') : KindInv s' :=
  kindInv_of_two (a := 0) h (by rw [hf]; exact FutsMono.refl _) (by rw [hsf]; exact SfsMono.refl _) (KindMono.same hj) hd

theorem dsSub_goto_env {s : State} {a : Nat} {act : Act} (ha : s.acts[a]? = some act) (pc' : Pc)
    (hnew : ∀ x, x ∈ pc'.dsPushes → x ∈ act.pc.dsPushes) : DsSub s (s.goto a pc') :=
  DsSub.goto (fun _ => rfl) (fun x hx => by rw [pcAt_of ha]; exact hnew x hx)

theorem dsSub_retStep {s s' : State} {a r : Nat} (hs : retStep s a = some (s', r)) : DsSub s s' := by
  unfold retStep at hs
  split at hs
  · next act ha =>
    split at hs
    · next hpc =>
      obtain ⟨rfl, _⟩ := Prod.mk.inj (Option.some.inj hs)
      have h1 : DsSub s (s.setAct a { act with pc := .dead }) :=
        DsSub.setAct (fun _ => rfl) (by intro x hx; simp [Pc.dsPushes] at hx)
      split
      · next p hp =>
        split
        · next pv hpv =>
          intro b q kind hb
          rw [pcAt_setAct_samepc _ p pv { pv with child := none } hpv rfl b] at hb
          exact h1 b q kind hb
        · exact h1
      · exact h1
    · simp at hs
  · simp at hs

/-- **A job's futures belong to the job's queue, in every reachable state.** -/
theorem kindInv_reachable {s : State} (hr : Reachable s) : KindInv s := by
  induction hr with
  | init nq ng max =>
    exact ⟨by intro a q kind hm; simp [State.pcAt, initState, Pc.dsPushes] at hm, by intro j jb hj; simp [initState] at hj⟩
  | initP ps ng max =>
    exact ⟨by intro a q kind hm; simp [State.pcAt, initStateP, initState, Pc.dsPushes] at hm, by intro j jb hj; simp [initStateP, initState] at hj⟩
  | step l hprev hstep ih =>
    cases l with
    | act a =>
      simp only [next, Option.map_eq_some_iff] at hstep
      obtain ⟨⟨s1, o⟩, hs, rfl⟩ := hstep
      exact kindInv_stepAct ih hs
    | invoke t parent c =>
      simp only [next] at hstep
      split at hstep
      · simp only [Option.map_eq_some_iff] at hstep
        obtain ⟨⟨s1, a⟩, hs, rfl⟩ := hstep
        exact kindInv_invoke ih hs
      · simp at hstep
    | bodyEnd a =>
      simp only [next, Option.map_eq_some_iff] at hstep
      obtain ⟨⟨s1, o⟩, hs, rfl⟩ := hstep
      unfold bodyEnd at hs
      split at hs
      · next act ha =>
        split at hs
        · simp at hs
        · split at hs
          · next op k hpc =>
            obtain ⟨rfl, _⟩ := Prod.mk.inj (Option.some.inj hs)
            exact kindInv_env ih (by simp) (by simp) (by simp) (dsSub_goto_env ha _ (by rw [hpc]; intro x hx; simpa [Pc.dsPushes] using hx))
          · simp at hs
      · simp at hs
    | ret a =>
      simp only [next, Option.map_eq_some_iff] at hstep
      obtain ⟨⟨s1, r⟩, hs, rfl⟩ := hstep
      have hfs := futs_retStep hs
      have hjs := jobs_retStep hs
      exact kindInv_env ih hfs.1 hfs.2 hjs (dsSub_retStep hs)
    | spuriousUnpark a =>
      simp only [next, Option.map_eq_some_iff] at hstep
      obtain ⟨⟨s1, o⟩, hs, rfl⟩ := hstep
      unfold spuriousUnpark at hs
      split at hs
      · next act ha =>
        split at hs
        · next q j k hpc =>
          obtain ⟨rfl, _⟩ := Prod.mk.inj (Option.some.inj hs)
          exact kindInv_env ih (by simp) (by simp) (by simp) (dsSub_goto_env ha _ (by rw [hpc]; intro x hx; simpa [Pc.dsPushes] using hx))
        · simp at hs
      · simp at hs
    | spuriousPoll a =>
      simp only [next] at hstep
      unfold spuriousPoll at hstep
      split at hstep
      · next act ha =>
        split at hstep
        · next f hpc =>
          cases Option.some.inj hstep
          exact kindInv_env ih (by simp) (by simp) (by simp) (dsSub_goto_env ha _ (by intro x hx; simp [Pc.dsPushes] at hx))
        · next u hpc =>
          cases Option.some.inj hstep
          exact kindInv_env ih (by simp) (by simp) (by simp) (dsSub_goto_env ha _ (by intro x hx; simp [Pc.dsPushes] at hx))
        · simp at hstep
      · simp at hstep

end Desync
