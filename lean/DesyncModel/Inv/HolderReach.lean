/-
The holder invariant holds in every reachable state (all labels, not only internal steps).
-/
import DesyncModel.Inv.HolderStep

namespace Desync
open Gen

theorem holderInv_bodyEnd {s s' : State} {a : Nat} {o : Obs} (h : HolderInv s) (hs : bodyEnd s a = some (s', o)) : HolderInv s' := by
  unfold bodyEnd at hs
  split at hs
  · next act ha =>
    have hlt : a < s.acts.length := lt_of_getElem?_some ha
    have hpca := pcAt_of ha
    split at hs
    · simp at hs
    · split at hs
      · next op k hpc =>
        simp only [Option.some.injEq, Prod.mk.injEq] at hs; obtain ⟨rfl, _⟩ := hs
        refine HolderInv.keep h (hpc_goto (fun b q => rfl) hlt) (by simp) (by simp) ?_ (StatesOk.refl' _ _ (by simp))
        intro q; rw [hpca, hpc]; simp [Pc.holds]
      · simp at hs
  · simp at hs

theorem holderInv_spuriousUnpark {s s' : State} {a : Nat} {o : Obs} (h : HolderInv s) (hs : spuriousUnpark s a = some (s', o)) : HolderInv s' := by
  unfold spuriousUnpark at hs
  split at hs
  · next act ha =>
    have hlt : a < s.acts.length := lt_of_getElem?_some ha
    have hpca := pcAt_of ha
    split at hs
    · next q j k hpc =>
      simp only [Option.some.injEq, Prod.mk.injEq] at hs; obtain ⟨rfl, _⟩ := hs
      refine HolderInv.keep h (hpc_goto (fun b q => rfl) hlt) (by simp) (by simp) ?_ (StatesOk.refl' _ _ (by simp))
      intro q; rw [hpca, hpc]; simp [Pc.holds]
    · simp at hs
  · simp at hs

theorem holderInv_spuriousPoll {s s' : State} {a : Nat} (h : HolderInv s) (hs : spuriousPoll s a = some s') : HolderInv s' := by
  unfold spuriousPoll at hs
  split at hs
  · next act ha =>
    have hlt : a < s.acts.length := lt_of_getElem?_some ha
    have hpca := pcAt_of ha
    split at hs
    · next f hpc =>
      simp only [Option.some.injEq] at hs; subst hs
      refine HolderInv.keep h (hpc_goto (fun b q => rfl) hlt) (by simp) (by simp) ?_ (StatesOk.refl' _ _ (by simp))
      intro q; rw [hpca, hpc]; simp [Pc.holds]
    · next u hpc =>
      simp only [Option.some.injEq] at hs; subst hs
      refine HolderInv.keep h (hpc_goto (fun b q => rfl) hlt) (by simp) (by simp) ?_ (StatesOk.refl' _ _ (by simp))
      intro q; rw [hpca, hpc]; simp [Pc.holds]
    · simp at hs
  · simp at hs

/-- changing only the `child` link of an activity does not change any program counter -/
theorem pcAt_setAct_samepc (s : State) (p : Nat) (pv v : Act) (hp : s.acts[p]? = some pv) (hv : v.pc = pv.pc) (b : Nat) :
    (s.setAct p v).pcAt b = s.pcAt b := by
  rw [pcAt_setAct]
  by_cases hpb : p = b
  · subst hpb
    have hlt := lt_of_getElem?_some hp
    have : s.acts[p] = pv := by
      have := List.getElem?_eq_getElem hlt; rw [hp] at this; exact (Option.some.inj this).symm
    simp [hlt, hv, State.pcAt, this]
  · simp [hpb]

theorem holderInv_ret {s s' : State} {a r : Nat} (h : HolderInv s) (hs : retStep s a = some (s', r)) : HolderInv s' := by
  unfold retStep at hs
  split at hs
  · next act ha =>
    have hlt : a < s.acts.length := lt_of_getElem?_some ha
    have hpca := pcAt_of ha
    split at hs
    · next hpc =>
      simp only [Option.some.injEq, Prod.mk.injEq] at hs; obtain ⟨rfl, _⟩ := hs
      -- first the activity itself goes from `ret` to `dead`
      have h1 : HolderInv (s.setAct a { act with pc := .dead }) := by
        refine HolderInv.keep h (hpc_setAct (fun b q => rfl) hlt) rfl rfl ?_ (StatesOk.refl' _ _ rfl)
        intro q; rw [hpca, hpc]; simp [Pc.holds]
      -- then the parent's child link is cleared
      split
      · next p hp =>
        split
        · next pv hpv =>
          refine HolderInv.keep (a := p) (pc' := pv.pc) h1 ?_ rfl rfl ?_ (StatesOk.refl' _ _ rfl)
          · intro b q
            rw [pcAt_setAct_samepc _ p pv { pv with child := none } hpv rfl]
            by_cases hpb : p = b
            · subst hpb; simp [State.pcAt, hpv]
            · simp [hpb]
          · intro q; simp [State.pcAt, hpv]
        · exact h1
      · exact h1
    · simp at hs
  · simp at hs

end Desync

namespace Desync
open Gen

theorem holderInv_of_same {s X : State} (h : HolderInv s) (hpc : ∀ b q, (X.pcAt b).holds q = (s.pcAt b).holds q)
    (hho : X.holder = s.holder) (hqs : X.qs = s.qs) : HolderInv X := by
  refine ⟨by rw [hho, hqs]; exact h.len, ?_, ?_⟩
  · intro b q; rw [hpc, hho]; exact h.iff b q
  · intro b q v hb hv; rw [hho] at hb; rw [hqs] at hv; exact h.held b q v hb hv

theorem holderInv_setChild {s : State} (h : HolderInv s) (p : Nat) (c : Option Nat) :
    HolderInv (match s.acts[p]? with
      | some pv => s.setAct p { pv with child := c }
      | none => s) := by
  split
  · next pv hpv =>
    refine holderInv_of_same h ?_ rfl rfl
    intro b q
    rw [pcAt_setAct_samepc _ p pv { pv with child := c } hpv rfl]
  · exact h

theorem holderInv_addAct {s s0 : State} (h : HolderInv s) (t : Nat) (parent : Option Nat) (pc : Pc) (once : Bool)
    (hpc : ∀ q, pc.holds q = false) (hacts : s0.acts = s.acts) (hho : s0.holder = s.holder) (hqs : s0.qs = s.qs) :
    HolderInv (addAct s0 t parent pc once).1 := by
  have h1 : HolderInv ({ s0 with acts := s0.acts ++ [({ thread := t, pc := pc, parent := parent, child := none, woken := false, result := none, mode := .await, once := once } : Act)], nextOp := s0.nextOp + 1 } : State) :=
    holderInv_of_same h (holds_pcAt_append (n := { thread := t, pc := pc, parent := parent, child := none, woken := false, result := none, mode := .await, once := once }) (by simp [hacts]) hpc) hho hqs
  unfold addAct
  cases parent with
  | none => exact h1
  | some p =>
    simp only
    have := holderInv_setChild h1 p (some s0.acts.length)
    split
    · next pv hpv => simp only [hpv] at this; exact this
    · exact h1

theorem holderInv_invoke {s s' : State} {t a : Nat} {parent : Option Nat} {c : Call} (h : HolderInv s)
    (hs : invoke s t parent c = some (s', a)) : HolderInv s' := by
  unfold invoke at hs
  cases c <;> simp only at hs
  all_goals (repeat' split at hs)
  all_goals (try (simp at hs; done))
  all_goals (
    have hs' := congrArg Prod.fst (Option.some.inj hs)
    simp only at hs'
    subst hs'
    refine holderInv_addAct h t parent _ _ (by intro q; simp [Pc.holds]) ?_ ?_ ?_ <;>
      (first | rfl | (split <;> (try split) <;> rfl)))

end Desync

namespace Desync

/-- **I_runRight holds in every reachable state**: any number of objects, threads, calls, pool
size; any interleaving of internal steps with the environment's calls, closure ends, returns and
spurious wake-ups. -/
theorem holderInv_reachable {s : State} (hr : Reachable s) : HolderInv s := by
  refine Reachable.induction (P := HolderInv) holderInv_init holderInv_initP ?_ s hr
  intro s l s' h hstep
  cases l with
  | act a =>
    simp only [next] at hstep
    cases hsa : stepAct s a with
    | none => simp [hsa] at hstep
    | some r =>
      simp [hsa] at hstep
      subst hstep
      exact holderInv_stepAct h (o := r.2) (by rw [hsa])
  | invoke t parent c =>
    simp only [next] at hstep
    split at hstep
    · cases hi : invoke s t parent c with
      | none => simp [hi] at hstep
      | some r =>
        simp [hi] at hstep; subst hstep
        exact holderInv_invoke h (a := r.2) (by rw [hi])
    · simp at hstep
  | bodyEnd a =>
    simp only [next] at hstep
    cases hb : bodyEnd s a with
    | none => simp [hb] at hstep
    | some r => simp [hb] at hstep; subst hstep; exact holderInv_bodyEnd h (o := r.2) (by rw [hb])
  | ret a =>
    simp only [next] at hstep
    cases hb : retStep s a with
    | none => simp [hb] at hstep
    | some r => simp [hb] at hstep; subst hstep; exact holderInv_ret h (r := r.2) (by rw [hb])
  | spuriousUnpark a =>
    simp only [next] at hstep
    cases hb : spuriousUnpark s a with
    | none => simp [hb] at hstep
    | some r => simp [hb] at hstep; subst hstep; exact holderInv_spuriousUnpark h (o := r.2) (by rw [hb])
  | spuriousPoll a =>
    simp only [next] at hstep
    exact holderInv_spuriousPoll h hstep

/-- Corollary (exclusivity of the run right): two activities never own the run right of the same
queue at the same time. -/
theorem run_right_exclusive {s : State} (hr : Reachable s) (a b q : Nat)
    (ha : (s.pcAt a).holds q = true) (hb : (s.pcAt b).holds q = true) : a = b := by
  have h := holderInv_reachable hr
  have h1 := (h.iff a q).mp ha
  have h2 := (h.iff b q).mp hb
  rw [h1] at h2
  exact Option.some.inj (Option.some.inj h2)

end Desync
