/-
DrainInv is preserved by every internal step.
-/
import DesyncModel.Inv.Drain
namespace Desync
open Gen

theorem DrainInv.of_eq {s X : State} (h : DrainInv s) (hpc : ∀ b, X.pcAt b = s.pcAt b) (hf : X.futs = s.futs) (hq : X.qs = s.qs) : DrainInv X :=
  ⟨fun a f q hr => by rw [futQ_congr hf]; rw [hpc] at hr; exact h.pl a f q hr,
   fun a f hb => by rw [futDr_congr hf]; rw [hpc] at hb; exact h.dr a f hb,
   fun q f hq' => by rw [futDr_congr hf, futQ_congr hf]; rw [qSt_congr hq] at hq'; exact h.wq q f hq'⟩

theorem DrainInv.of_eq' {s X : State} (h : DrainInv s) (hpc : ∀ b, X.pcAt b = s.pcAt b) (hfq : ∀ f, X.futQ f = s.futQ f) (hfd : ∀ f, X.futDr f = s.futDr f)
    (hqs : ∀ q f, X.qSt q = some (.waitingForPoll f) → s.qSt q = some (.waitingForPoll f)) : DrainInv X :=
  ⟨fun a f q hr => by rw [hfq]; rw [hpc] at hr; exact h.pl a f q hr,
   fun a f hb => by rw [hfd]; rw [hpc] at hb; exact h.dr a f hb,
   fun q f hq' => by rw [hfd, hfq]; exact h.wq q f (hqs q f hq')⟩

theorem DrainInv.congr {X Y : State} (h : DrainInv Y) (hA : X.acts = Y.acts) (hF : X.futs = Y.futs) (hQ : X.qs = Y.qs) : DrainInv X :=
  DrainInv.of_eq h (fun b => by simp only [State.pcAt, hA]) hF hQ

theorem DrainInv.append_act {s X : State} {n : Act} (h : DrainInv s) (hA : X.acts = s.acts ++ [n]) (hn1 : n.pc.taskPair = none) (hn2 : n.pc.wfpOf = none)
    (hF : X.futs = s.futs) (hQ : X.qs = s.qs) : DrainInv X := by
  have key : ∀ b, X.pcAt b = s.pcAt b ∨ (X.pcAt b = n.pc) := by
    intro b
    simp only [State.pcAt, hA]
    by_cases hlt : b < s.acts.length
    · left; rw [List.getElem?_append_left hlt]
    · by_cases hbe : b = s.acts.length
      · right; subst hbe; simp
      · left
        have h1 : (s.acts ++ [n])[b]? = none := by simp; omega
        have h2 : s.acts[b]? = none := by simp; omega
        rw [h1, h2]
  refine ⟨?_, ?_, ?_⟩
  · intro b f q hr
    rw [futQ_congr hF]
    rcases key b with e | e <;> rw [e] at hr
    · exact h.pl b f q hr
    · rw [hn1] at hr; cases hr
  · intro b f hb
    rw [futDr_congr hF]
    rcases key b with e | e <;> rw [e] at hb
    · exact h.dr b f hb
    · rw [hn2] at hb; cases hb
  · intro q f hq
    rw [futDr_congr hF, futQ_congr hF]; rw [qSt_congr hQ] at hq; exact h.wq q f hq

set_option hygiene false in
macro "wfp_table" : tactic => `(tactic| first
  | exact desyncPush_wfp (by assumption) | exact syncDecide_wfp (by assumption) | exact syncNoPanicDecide_wfp (by assumption)
  | exact trySyncDecide_wfp (by assumption) | exact pollDecide_wfp (by assumption) | exact futureDropDecide_wfp (by assumption)
  | exact claim_wfp (by assumption) | exact reschedule_wfp (by assumption) | exact nextToRun_wfp (by assumption)
  | exact drainPending_wfp (by assumption) | exact drainExit_wfp (by assumption) | exact runOnePending_wfp (by assumption)
  | exact wakeQueue_wfp (by assumption) | exact wakeThread_wfp (by assumption))

set_option hygiene false in
macro "drain_side" : tactic => `(tactic| first
      | (intro b; (try simp only [pcAt_setQ, pcAt_setJob, pcAt_setHolder, pcAt_setWoken, pcAt_notify, pcAt_setPThr, pcAt_setFut, pcAt_setGate,
                             pcAt_takeReady, pcAt_dropReady, pcAt_setJobPh, pcAt_pushFront, pcAt_pushBack, pcAt_setQState, pcAt_dequeue]); first | done | rfl)
      -- futures: untouched, or a field other than `q` / `draining` is written
      | (intro f'; (try simp only [futQ_setQ, futQ_setJob, futQ_setGate, futQ_setAct, futQ_setSf, futQ_setPThr, futQ_setHolder, futQ_takeReady, futQ_dropReady,
                             futQ_goto, futQ_setWoken, futQ_notify, futQ_setJobPh, futQ_setQState, futQ_pushFront, futQ_pushBack]);
           first | done | rfl | (exact futQ_congr (by first | rfl | simp) f') | (apply futQ_setFut <;> first | assumption | rfl))
      | (intro f'; (try simp only [futDr_setQ, futDr_setJob, futDr_setGate, futDr_setAct, futDr_setSf, futDr_setPThr, futDr_setHolder, futDr_takeReady, futDr_dropReady,
                             futDr_goto, futDr_setWoken, futDr_notify, futDr_setJobPh, futDr_setQState, futDr_pushFront, futDr_pushBack]);
           first | done | rfl | (exact futDr_congr (by first | rfl | simp) f')
                 | (rw [futDr_setFut (by assumption)]; split <;> first | rfl | (rename_i e; rw [e, futDr_of (by assumption)]) | (rename_i e; rw [e, futDr_of (by assumption)]; rfl)))
      -- queue states: untouched, or written from a decision table, or set to a literal that is not waitingForPoll
      | (intro q' f' hq';
         (try simp only [qSt_setJob, qSt_setGate, qSt_setAct, qSt_setSf, qSt_setPThr, qSt_setHolder, qSt_takeReady, qSt_dropReady, qSt_goto, qSt_setWoken, qSt_notify,
                         qSt_setFut, qSt_setJobPh, qSt_pushFront, qSt_pushBack, qSt_dequeue] at hq');
         first
         | exact hq'
         | (rw [qSt_congr (by first | rfl | simp)] at hq'; exact hq')
         | (refine qSt_setQState_wfp (fun f'' => by simp) _ _ hq')
         | (have hq2 := qSt_setQState_wfp (fun f'' => by simp) _ _ hq'; simpa using hq2)
         | (refine qSt_setQ_wfp (by assumption) (fun f'' hf'' => ?_) _ _ hq'; first | exact hf'' | wfp_table | (simp at hf'')))
      | (rw [hpca, ‹act.pc = _›]; simp only [Pc.taskPair, Pc.wfpOf, taskPair_ctxPending, wfpOf_ctxPending, Ctx.taskPair];
         first
         | (left; rfl)
         | (right; rfl)
         | (rename_i c _ _; cases c <;> simp [Ctx.taskPair])
         | simp))

theorem holds_of_taskPair : ∀ {pc : Pc} {f q : Nat}, pc.taskPair = some (f, q) → pc.holds q = true := by
  intro pc
  induction pc <;> intro f q hr <;> simp only [Pc.taskPair, Pc.holds] at hr ⊢ <;> (try (simp at hr; done))
  all_goals (first
    | (rename_i ih; exact ih hr)
    | (rename_i c _ _; cases c <;> simp_all [Ctx.taskPair])
    | (simp_all))

theorem wfpOf_taskPair : ∀ {pc : Pc} {f : Nat}, pc.wfpOf = some f → ∃ q, pc.taskPair = some (f, q) := by
  intro pc
  induction pc <;> intro f hr <;> simp only [Pc.taskPair, Pc.wfpOf] at hr ⊢ <;> (try (simp at hr; done))
  all_goals (first
    | (rename_i ih; exact ih hr)
    | (simp_all))

/-- while activity `a` is inside the drain of future `f` no queue waits for `f` and no other activity is about to make one wait for it -/
theorem drain_is_exclusive {s : State} (hh : HolderInv s) (h : DrainInv s) {a f q : Nat} (hp : (s.pcAt a).taskPair = some (f, q)) :
    (∀ q', s.qSt q' ≠ some (.waitingForPoll f)) ∧ (∀ b, (s.pcAt b).wfpOf = some f → b = a) := by
  have hq := h.pl a f q hp
  have hold := (hh.iff a q).mp (holds_of_taskPair hp)
  refine ⟨?_, ?_⟩
  · intro q' hw
    have := (h.wq q' f hw).2
    rw [hq] at this
    simp only [Option.some.injEq] at this
    subst this
    simp only [State.qSt] at hw
    cases hv : s.qs[q]? with
    | none => simp [hv] at hw
    | some v =>
      simp only [hv, Option.map_some, Option.some.injEq] at hw
      have := hh.held a q v hold hv
      rw [hw] at this
      simp [QState.held] at this
  · intro b hb
    obtain ⟨q', hp'⟩ := wfpOf_taskPair hb
    have hq' := h.pl b f q' hp'
    rw [hq] at hq'
    simp only [Option.some.injEq] at hq'
    subst hq'
    have holdb := (hh.iff b q).mp (holds_of_taskPair hp')
    rw [hold] at holdb
    simpa using holdb.symm

/-- a step of the drain of `f` that writes `f`'s record (result slot, waker, the draining flag) -/
theorem DrainInv.write_fut' {s X : State} {a f q : Nat} {fu v : Fut} {pc' : Pc} (hh : HolderInv s) (h : DrainInv s)
    (hp : (s.pcAt a).taskPair = some (f, q)) (hf : s.futs[f]? = some fu) (hvq : v.q = fu.q)
    (hXf : X.futs = (s.setFut f v).futs) (hXq : X.qs = s.qs) (hself : X.pcAt a = pc') (hother : ∀ b, b ≠ a → X.pcAt b = s.pcAt b)
    (hrun : pc'.taskPair = none ∨ pc'.taskPair = (s.pcAt a).taskPair)
    (hwf : pc'.wfpOf = none ∨ (pc'.wfpOf = some f ∧ v.draining = true)) : DrainInv X := by
  obtain ⟨hnoq, hnob⟩ := drain_is_exclusive hh h hp
  have hfq : ∀ i, X.futQ i = s.futQ i := fun i => by rw [futQ_congr hXf]; exact futQ_setFut hf hvq i
  have hfd : ∀ i, X.futDr i = if i = f then v.draining else s.futDr i := fun i => by rw [futDr_congr hXf]; exact futDr_setFut hf v i
  refine ⟨?_, ?_, ?_⟩
  · intro b f' q' hr
    rw [hfq]
    by_cases hb : b = a
    · subst hb; rw [hself] at hr
      rcases hrun with hn | he
      · rw [hn] at hr; cases hr
      · rw [he] at hr; exact h.pl b f' q' hr
    · rw [hother b hb] at hr; exact h.pl b f' q' hr
  · intro b f' hb'
    rw [hfd]
    by_cases hb : b = a
    · subst hb; rw [hself] at hb'
      rcases hwf with hn | ⟨he, hd⟩
      · rw [hn] at hb'; cases hb'
      · rw [he] at hb'; simp only [Option.some.injEq] at hb'; subst hb'; simp [hd]
    · rw [hother b hb] at hb'
      split
      · next e' => subst e'; exact absurd (hnob b hb') hb
      · exact h.dr b f' hb'
  · intro q' f' hq'
    rw [hfq, hfd]
    have hq0 : s.qSt q' = some (.waitingForPoll f') := by rw [qSt_congr hXq] at hq'; exact hq'
    split
    · next e' => subst e'; exact absurd hq0 (hnoq q')
    · exact h.wq q' f' hq0

theorem DrainInv.write_fut {s : State} {a f q : Nat} {fu v : Fut} {pc' : Pc} (hh : HolderInv s) (h : DrainInv s) (hlt : a < s.acts.length)
    (hp : (s.pcAt a).taskPair = some (f, q)) (hf : s.futs[f]? = some fu) (hvq : v.q = fu.q)
    (hrun : pc'.taskPair = none ∨ pc'.taskPair = (s.pcAt a).taskPair)
    (hwf : pc'.wfpOf = none ∨ (pc'.wfpOf = some f ∧ v.draining = true)) : DrainInv ((s.setFut f v).goto a pc') := by
  refine DrainInv.write_fut' hh h hp hf hvq (by simp) (by simp) ?_ ?_ hrun hwf
  · rw [pcAt_goto]; exact if_pos ⟨rfl, (hlt : a < (s.setFut f v).acts.length)⟩
  · intro b hb; rw [pcAt_goto]; split
    · next hab => exact absurd hab.1.symm hb
    · rw [pcAt_setFut]

theorem DrainInv.write_fut_setAct {s : State} {a f q : Nat} {fu v : Fut} {w : Act} (hh : HolderInv s) (h : DrainInv s) (hlt : a < s.acts.length)
    (hp : (s.pcAt a).taskPair = some (f, q)) (hf : s.futs[f]? = some fu) (hvq : v.q = fu.q)
    (hrun : w.pc.taskPair = none ∨ w.pc.taskPair = (s.pcAt a).taskPair)
    (hwf : w.pc.wfpOf = none ∨ (w.pc.wfpOf = some f ∧ v.draining = true)) : DrainInv ((s.setFut f v).setAct a w) := by
  refine DrainInv.write_fut' hh h hp hf hvq (by simp) (by simp) ?_ ?_ hrun hwf
  · rw [pcAt_setAct]; exact if_pos ⟨rfl, (hlt : a < (s.setFut f v).acts.length)⟩
  · intro b hb; rw [pcAt_setAct]; split
    · next hab => exact absurd hab.1.symm hb
    · rw [pcAt_setFut]

theorem futs_dequeue (s : State) (q a : Nat) : (s.dequeue q a).1.futs = s.futs := by
  unfold State.dequeue
  split
  · split
    · split <;> simp
    · rfl
  · rfl

theorem d_dequeue {s s' : State} {a : Nat} {o : Obs} (hw : WfInv s) (h : DrainInv s) (act : Act) (ha : s.acts[a]? = some act) (hc : act.child = none)
    (hs : stepAct s a = some (s', o))
    (hpc : (∃ q k, act.pc = .rjDequeue q k) ∨ (∃ p q, act.pc = .pdDequeue p q) ∨ (∃ f q, act.pc = .dqDequeue f q)) : DrainInv s' := by
  have hpca := pcAt_of ha
  have hwk := hw a
  have hfr : ∀ (q : Nat) (pc' : Pc), (pc'.taskPair = none ∨ pc'.taskPair = (s.pcAt a).taskPair) → (pc'.wfpOf = none ∨ pc'.wfpOf = (s.pcAt a).wfpOf) →
      DrainInv ((s.dequeue q a).1.goto a pc') := fun q pc' h1 h2 =>
    DrainInv.frame h (fun b => by simp) (fun f => futQ_congr (futs_dequeue s q a) f) (fun f => futDr_congr (futs_dequeue s q a) f)
      (fun q' f' hq' => by rw [qSt_dequeue] at hq'; exact hq') h1 h2
  rcases hpc with ⟨q, k, hpc⟩ | ⟨p, q, hpc⟩ | ⟨f, q, hpc⟩
  · rw [hpca, hpc] at hwk
    simp only [Pc.callerOk] at hwk
    unfold stepAct at hs
    simp only [ha, hc, hpc, Option.isSome_none, Bool.false_eq_true, ↓reduceIte] at hs
    cases hd : (s.dequeue q a).2 with
    | some j =>
      simp only [hd, Option.some.injEq, Prod.mk.injEq] at hs; obtain ⟨rfl, _⟩ := hs
      exact hfr q _ (Or.inl rfl) (Or.inl rfl)
    | none =>
      simp only [hd, Option.some.injEq, Prod.mk.injEq] at hs; obtain ⟨rfl, _⟩ := hs
      exact hfr q _ (Or.inl (plainFor_taskPair hwk)) (Or.inl (plainFor_wfpOf hwk))
  · unfold stepAct at hs
    simp only [ha, hc, hpc, Option.isSome_none, Bool.false_eq_true, ↓reduceIte] at hs
    cases hd : (s.dequeue q a).2 with
    | some j =>
      simp only [hd, Option.some.injEq, Prod.mk.injEq] at hs; obtain ⟨rfl, _⟩ := hs
      exact hfr q _ (Or.inl rfl) (Or.inl rfl)
    | none =>
      simp only [hd, Option.some.injEq, Prod.mk.injEq] at hs; obtain ⟨rfl, _⟩ := hs
      exact hfr q _ (Or.inl rfl) (Or.inl rfl)
  · unfold stepAct at hs
    simp only [ha, hc, hpc, Option.isSome_none, Bool.false_eq_true, ↓reduceIte] at hs
    cases hd : (s.dequeue q a).2 with
    | some j =>
      simp only [hd, Option.some.injEq, Prod.mk.injEq] at hs; obtain ⟨rfl, _⟩ := hs
      have h1 := hfr q (.jobStart j (.task f (s.dequeue q a).1.latches.length q) .dead) (Or.inr (by rw [hpca, hpc]; rfl)) (Or.inl rfl)
      exact DrainInv.congr h1 (goto_congr _ _ rfl) (by simp) (by rw [qs_goto', qs_goto'])
    | none =>
      simp only [hd, Option.some.injEq, Prod.mk.injEq] at hs; obtain ⟨rfl, _⟩ := hs
      exact hfr q _ (Or.inr (by rw [hpca, hpc]; rfl)) (Or.inl rfl)

theorem d_drainFut {s s' : State} {a : Nat} {o : Obs} (hh : HolderInv s) (h : DrainInv s) (act : Act) (ha : s.acts[a]? = some act) (hc : act.child = none)
    (hs : stepAct s a = some (s', o))
    (hpc : (∃ f q, act.pc = .dqCheck f q) ∨ (∃ f l q, act.pc = .dqCheck2 f l q) ∨ (∃ f l q, act.pc = .dqStore f l q) ∨ (∃ f q, act.pc = .dqStore2 f q)) : DrainInv s' := by
  have hlt : a < s.acts.length := lt_of_getElem?_some ha
  have hpca := pcAt_of ha
  rcases hpc with ⟨f, q, hpc⟩ | ⟨f, l, q, hpc⟩ | ⟨f, l, q, hpc⟩ | ⟨f, q, hpc⟩
  all_goals (
    have hp : (s.pcAt a).taskPair = some (f, q) := by rw [hpca, hpc]; rfl
    unfold stepAct at hs
    simp only [ha, hc, hpc, Option.isSome_none, Bool.false_eq_true, ↓reduceIte] at hs
    cases hf : s.futs[f]? with
    | none => simp [hf] at hs
    | some fu =>
      simp only [hf] at hs
      repeat' split at hs
      all_goals (simp only [Option.some.injEq, Prod.mk.injEq] at hs; obtain ⟨rfl, _⟩ := hs)
      all_goals (first
        | (exact DrainInv.write_fut hh h hlt hp hf rfl (Or.inr (by rw [hp]; rfl)) (Or.inl rfl))
        | (exact DrainInv.write_fut hh h hlt hp hf rfl (Or.inr (by rw [hp]; rfl)) (Or.inr ⟨rfl, rfl⟩))
        | (exact DrainInv.write_fut_setAct hh h hlt hp hf rfl (Or.inr (by rw [hp]; rfl)) (Or.inl rfl))
        | (exact DrainInv.frame h (fun b => rfl) (fun _ => rfl) (fun _ => rfl) (fun _ _ hq' => hq') (Or.inr (by rw [hp]; rfl)) (Or.inl rfl))))

/-- the queue is marked as waiting to be polled by `f`: the flag is up and `f` belongs to this queue -/
theorem d_dqSetWfp {s s' : State} {a : Nat} {o : Obs} (h : DrainInv s) (act : Act) (ha : s.acts[a]? = some act) (hc : act.child = none)
    (f l q : Nat) (hpc : act.pc = .dqSetWfp f l q) (hs : stepAct s a = some (s', o)) : DrainInv s' := by
  have hpca := pcAt_of ha
  have hdr : s.futDr f = true := h.dr a f (by rw [hpca, hpc]; rfl)
  have hfq : s.futQ f = some q := h.pl a f q (by rw [hpca, hpc]; rfl)
  unfold stepAct at hs
  simp only [ha, hc, hpc, Option.isSome_none, Bool.false_eq_true, ↓reduceIte] at hs
  simp only [Option.some.injEq, Prod.mk.injEq] at hs; obtain ⟨rfl, _⟩ := hs
  refine DrainInv.move h (fun b => by simp [State.pcAt]) (fun i => futQ_congr (by simp) i) (fun i => futDr_congr (by simp) i) ?_
    (fun f' q' hp => by simp [Pc.taskPair] at hp) (fun f' hp => by simp [Pc.wfpOf] at hp)
  intro q' f' hq'
  simp only [qSt_setHolder] at hq'
  unfold State.setQState at hq'
  split at hq'
  · next v hv =>
    rw [qSt_setQ (s := { s with doubles := s.doubles ++ [some (Waker.queue q, Waker.task act.thread)] }) hv] at hq'
    split at hq'
    · next e =>
      subst e
      simp only [Option.some.injEq, QState.waitingForPoll.injEq] at hq'
      subst hq'
      exact Or.inr ⟨hdr, hfq⟩
    · exact Or.inl hq'
  · exact Or.inl hq'

theorem d_pfPoll {s s' : State} {a : Nat} {o : Obs} (h : DrainInv s) (act : Act) (ha : s.acts[a]? = some act) (hc : act.child = none)
    (f : Nat) (hpc : act.pc = .pfPoll f) (hs : stepAct s a = some (s', o)) : DrainInv s' := by
  have hpca := pcAt_of ha
  unfold stepAct at hs
  simp only [ha, hc, hpc, Option.isSome_none, Bool.false_eq_true, ↓reduceIte] at hs
  cases hf : s.futs[f]? with
  | none => simp [hf] at hs
  | some fu =>
    simp only [hf] at hs
    split at hs
    · simp only [Option.some.injEq, Prod.mk.injEq] at hs; obtain ⟨rfl, _⟩ := hs
      exact DrainInv.frame_setAct h (fun b => by simp) (fun i => futQ_setFut (v := { fu with res := .returned }) hf rfl i)
        (fun i => by rw [futDr_setFut hf]; split <;> first | rfl | (rename_i e; rw [e, futDr_of hf])) (fun _ _ hq' => by simpa using hq') (Or.inl rfl) (Or.inl rfl)
    · cases hv : s.qs[fu.q]? with
      | none => simp [hv] at hs
      | some v =>
        simp only [hv] at hs
        have hqs : ∀ (X : State), X.qs = (s.setQ fu.q { v with state := (pollDecide f v.state).1 }).qs →
            ∀ q' f', X.qSt q' = some (.waitingForPoll f') → s.qSt q' = some (.waitingForPoll f') ∨ (s.futDr f' = true ∧ s.futQ f' = some q') := by
          intro X hX q' f' hq'
          rw [qSt_congr hX] at hq'
          exact Or.inl (qSt_setQ_wfp hv (fun f'' hf'' => pollDecide_wfp hf'') q' f' hq')
        repeat' split at hs
        all_goals (simp only [Option.some.injEq, Prod.mk.injEq] at hs; obtain ⟨rfl, _⟩ := hs)
        all_goals (
          refine DrainInv.move h (fun b => by simp) (fun i => futQ_congr (by simp) i) (fun i => futDr_congr (by simp) i) (hqs _ (by simp)) ?_ ?_
          · intro f' q' hp
            first
              | (simp [Pc.taskPair] at hp; done)
              | (simp only [Pc.taskPair, Option.some.injEq, Prod.mk.injEq] at hp; obtain ⟨rfl, rfl⟩ := hp; exact Or.inr (futQ_of hf))
          · intro f' hp; first | (simp [Pc.wfpOf] at hp; done) | (exfalso; simp [Pc.wfpOf] at hp))

theorem d_jobDrop {s s' : State} {a : Nat} {o : Obs} (hw : WfInv s) (h : DrainInv s) (act : Act) (ha : s.acts[a]? = some act) (hc : act.child = none)
    (hs : stepAct s a = some (s', o))
    (hpc : (∃ j c k, act.pc = .jobDrop j c k) ∨ (∃ j c k, act.pc = .jobDropNotify j c k)) : DrainInv s' := by
  have hpca := pcAt_of ha
  have hwk := hw a
  rcases hpc with ⟨j, c, k, hpc⟩ | ⟨j, c, k, hpc⟩
  all_goals (
    rw [hpca, hpc] at hwk
    simp only [Pc.callerOk] at hwk
    have hready : ((ctxReady k c).taskPair = none ∨ (ctxReady k c).taskPair = (s.pcAt a).taskPair) ∧ ((ctxReady k c).wfpOf = none ∨ (ctxReady k c).wfpOf = (s.pcAt a).wfpOf) := by
      rw [hpca, hpc]
      cases c with
      | caller q => exact ⟨Or.inl (plainFor_taskPair hwk), Or.inl (plainFor_wfpOf hwk)⟩
      | pool p q => exact ⟨Or.inl rfl, Or.inl rfl⟩
      | task f l q => exact ⟨Or.inr rfl, Or.inl rfl⟩
    have hnot : ((Pc.jobDropNotify j c k).taskPair = none ∨ (Pc.jobDropNotify j c k).taskPair = (s.pcAt a).taskPair) ∧ ((Pc.jobDropNotify j c k).wfpOf = none ∨ (Pc.jobDropNotify j c k).wfpOf = (s.pcAt a).wfpOf) := by
      rw [hpca, hpc]; exact ⟨Or.inr rfl, Or.inl rfl⟩
    unfold stepAct at hs
    simp only [ha, hc, hpc, Option.isSome_none, Bool.false_eq_true, ↓reduceIte] at hs
    cases hjb : s.jobs[j]? with
    | none => simp [hjb] at hs
    | some jb =>
      simp only [hjb] at hs
      repeat' split at hs
      all_goals (try (simp at hs; done))
      all_goals (simp only [Option.some.injEq, Prod.mk.injEq] at hs; obtain ⟨rfl, _⟩ := hs)
      all_goals (first
        | (refine DrainInv.frame h ?_ ?_ ?_ ?_ hready.1 hready.2
           · intro b; first | rfl | simp
           · intro i; exact futQ_congr (by first | rfl | simp) i
           · intro i; exact futDr_congr (by first | rfl | simp) i
           · intro q' f' hq'; first | exact hq' | (rw [qSt_notify] at hq'; exact hq') | (rw [qSt_congr (by first | rfl | simp)] at hq'; exact hq'))
        | (refine DrainInv.frame h ?_ ?_ ?_ ?_ hnot.1 hnot.2
           · intro b; first | rfl | simp
           · intro i; exact futQ_congr (by first | rfl | simp) i
           · intro i; exact futDr_congr (by first | rfl | simp) i
           · intro q' f' hq'; first | exact hq' | (rw [qSt_congr (by first | rfl | simp)] at hq'; exact hq'))))

theorem DrainInv.spawn_goto {s X : State} {a : Nat} {n : Act} {pc' : Pc} (h : DrainInv s) (hA : X.acts = s.acts ++ [n]) (hn1 : n.pc.taskPair = none) (hn2 : n.pc.wfpOf = none)
    (hF : X.futs = s.futs) (hQ : X.qs = s.qs) (hlt : a < s.acts.length)
    (hrun : pc'.taskPair = none ∨ pc'.taskPair = (s.pcAt a).taskPair) (hwf : pc'.wfpOf = none ∨ pc'.wfpOf = (s.pcAt a).wfpOf) : DrainInv (X.goto a pc') := by
  have hX := DrainInv.append_act h hA hn1 hn2 hF hQ
  have e : X.pcAt a = s.pcAt a := by simp only [State.pcAt, hA, List.getElem?_append_left hlt]
  refine DrainInv.frame hX (fun _ => rfl) (fun _ => rfl) (fun _ => rfl) (fun _ _ hq' => hq') ?_ ?_
  · rw [e]; exact hrun
  · rw [e]; exact hwf

theorem d_stSpawn {s s' : State} {a : Nat} {o : Obs} (h : DrainInv s) (act : Act) (ha : s.acts[a]? = some act) (hc : act.child = none)
    (m : Nat) (k : Pc) (hpc : act.pc = .stSpawn m k) (hs : stepAct s a = some (s', o)) : DrainInv s' := by
  have hlt : a < s.acts.length := lt_of_getElem?_some ha
  have hpca := pcAt_of ha
  unfold stepAct at hs
  simp only [ha, hc, hpc, Option.isSome_none, Bool.false_eq_true, ↓reduceIte] at hs
  split at hs
  · simp at hs
  · split at hs
    · simp only [Option.some.injEq, Prod.mk.injEq] at hs; obtain ⟨rfl, _⟩ := hs
      exact DrainInv.spawn_goto h rfl (by rfl) (by rfl) rfl rfl hlt (Or.inr (by rw [hpca, hpc]; rfl)) (Or.inr (by rw [hpca, hpc]; rfl))
    · simp only [Option.some.injEq, Prod.mk.injEq] at hs; obtain ⟨rfl, _⟩ := hs
      exact DrainInv.frame h (fun c => rfl) (fun i => rfl) (fun i => rfl) (fun _ _ hq' => hq') (Or.inr (by rw [hpca, hpc]; rfl)) (Or.inr (by rw [hpca, hpc]; rfl))

theorem d_sbPrune {s s' : State} {a : Nat} {o : Obs} (h : DrainInv s) (act : Act) (ha : s.acts[a]? = some act) (hc : act.child = none)
    (q : Nat) (hpc : act.pc = .sbPrune q) (hs : stepAct s a = some (s', o)) : DrainInv s' := by
  unfold stepAct at hs
  simp only [ha, hc, hpc, Option.isSome_none, Bool.false_eq_true, ↓reduceIte] at hs
  split at hs
  · simp at hs
  next v hv =>
  simp only [Option.some.injEq, Prod.mk.injEq] at hs; obtain ⟨rfl, _⟩ := hs
  have h1 : DrainInv (s.goto a Pc.ret) := DrainInv.frame h (fun c => rfl) (fun i => rfl) (fun i => rfl) (fun _ _ hq' => hq') (Or.inl rfl) (Or.inl rfl)
  have hv' : (s.goto a Pc.ret).qs[q]? = some v := by rw [qs_goto']; exact hv
  exact DrainInv.of_eq' h1 (fun b => rfl) (fun i => futQ_congr (by simp) i) (fun i => futDr_congr (by simp) i)
    (fun q' f' hq' => qSt_setQ_wfp (v' := { v with waiters := v.waiters.filter (fun w => s.waiterLive w) }) hv' (fun f'' hf'' => hf'') q' f' hq')

set_option maxHeartbeats 4000000 in
set_option maxRecDepth 8000 in
theorem drainInv_stepAct {s s' : State} {a : Nat} {o : Obs} (hh : HolderInv s) (hw : WfInv s) (h : DrainInv s)
    (hs : stepAct s a = some (s', o)) : DrainInv s' := by
  have hs0 := hs
  unfold stepAct at hs
  split at hs
  · simp at hs
  next act ha =>
  split at hs
  · simp at hs
  next hchild =>
  have hlt : a < s.acts.length := lt_of_getElem?_some ha
  have hpca := pcAt_of ha
  have hc : act.child = none := by
    cases hcc : act.child <;> simp_all
  split at hs
  all_goals (try (simp at hs; done))
  all_goals (try (first
      | exact d_dequeue hw h act ha hc hs0 (Or.inl ⟨_, _, by assumption⟩)
      | exact d_dequeue hw h act ha hc hs0 (Or.inr (Or.inl ⟨_, _, by assumption⟩))
      | exact d_dequeue hw h act ha hc hs0 (Or.inr (Or.inr ⟨_, _, by assumption⟩))
      | exact d_drainFut hh h act ha hc hs0 (Or.inl ⟨_, _, by assumption⟩)
      | exact d_drainFut hh h act ha hc hs0 (Or.inr (Or.inl ⟨_, _, _, by assumption⟩))
      | exact d_drainFut hh h act ha hc hs0 (Or.inr (Or.inr (Or.inl ⟨_, _, _, by assumption⟩)))
      | exact d_drainFut hh h act ha hc hs0 (Or.inr (Or.inr (Or.inr ⟨_, _, by assumption⟩)))
      | exact d_dqSetWfp h act ha hc _ _ _ (by assumption) hs0
      | exact d_pfPoll h act ha hc _ (by assumption) hs0
      | exact d_jobDrop hw h act ha hc hs0 (Or.inl ⟨_, _, _, by assumption⟩)
      | exact d_jobDrop hw h act ha hc hs0 (Or.inr ⟨_, _, _, by assumption⟩)
      | exact d_stSpawn h act ha hc _ _ (by assumption) hs0
      | exact d_sbPrune h act ha hc _ (by assumption) hs0))
  all_goals (try dsimp only at hs)
  all_goals (repeat' split at hs)
  all_goals (try (simp at hs; done))
  all_goals (try (simp only [Option.some.injEq, Prod.mk.injEq] at hs; obtain ⟨rfl, _⟩ := hs))
  all_goals (first
      | ((refine DrainInv.frame h ?_ ?_ ?_ ?_ ?_ ?_) <;> drain_side)
      | ((refine DrainInv.frame_setAct h ?_ ?_ ?_ ?_ ?_ ?_) <;> drain_side)
      | skip)

end Desync
