/-
Caller-side continuations are well-formed in every state (`Pc.callerOk`): preserved by every internal step.
-/
import DesyncModel.Inv.Job
import DesyncModel.Inv.Pool

namespace Desync
open Gen

def WfInv (s : State) : Prop := ∀ b, (s.pcAt b).callerOk = true

theorem wfInv_init (nq ng max : Nat) : WfInv (initState nq ng max) := by
  intro b; simp [initState, State.pcAt, Pc.callerOk]

theorem wfInv_initP (ps : List Bool) (ng max : Nat) : WfInv (initStateP ps ng max) := by
  intro b; simp [initStateP, initState, State.pcAt, Pc.callerOk]

theorem WfInv.keep_goto {s X : State} {a : Nat} {pc' : Pc}
    (hX : ∀ b, (X.pcAt b).callerOk = true) (hok : pc'.callerOk = true) : WfInv (X.goto a pc') := by
  intro b
  rw [pcAt_goto]
  split
  · exact hok
  · exact hX b

theorem WfInv.keep_setAct {s X : State} {a : Nat} {v : Act}
    (hX : ∀ b, (X.pcAt b).callerOk = true) (hok : v.pc.callerOk = true) : WfInv (X.setAct a v) := by
  intro b
  rw [pcAt_setAct]
  split
  · exact hok
  · exact hX b

theorem callerOk_pcAt_append {s X : State} {n : Act} (h : WfInv s) (hacts : X.acts = s.acts ++ [n]) (hn : n.pc.callerOk = true) :
    ∀ b, (X.pcAt b).callerOk = true := by
  intro b
  have hb := h b
  simp only [State.pcAt, hacts] at hb ⊢
  by_cases hlt : b < s.acts.length
  · rw [List.getElem?_append_left hlt]; exact hb
  · by_cases hbe : b = s.acts.length
    · subst hbe; simp [hn]
    · have : (s.acts ++ [n])[b]? = none := by simp; omega
      rw [this]; rfl

set_option hygiene false in
macro "wf_side" : tactic => `(tactic| first
      | (intro b; simp only [pcAt_setQ, pcAt_setJob, pcAt_setHolder, pcAt_setWoken, pcAt_notify, pcAt_setPThr, pcAt_setFut, pcAt_setGate,
                             pcAt_takeReady, pcAt_dropReady, pcAt_setJobPh, pcAt_pushFront, pcAt_pushBack, pcAt_setQState, pcAt_dequeue]; exact h b)
      | (intro b; exact h b)
      | (intro b; simp only [State.pcAt, dequeue_acts]; exact h b)
      | (exact callerOk_pcAt_append h rfl (by simp [Pc.callerOk]))
      | ((try simp only [Pc.callerOk, callerOk_ctxReady, callerOk_ctxPending, Pc.plainFor, beq_self_eq_true] at hk);
         first
         | (simp only [Pc.callerOk, callerOk_ctxReady, callerOk_ctxPending, Pc.plainFor, beq_self_eq_true]; done)
         | ((try simp only [Pc.callerOk, callerOk_ctxReady, callerOk_ctxPending, Pc.plainFor, beq_self_eq_true]);
            first | exact hk | exact plainFor_callerOk hk | trivial | (split <;> first | trivial | exact hk | exact plainFor_callerOk hk | (simp_all; done)))))

set_option maxHeartbeats 4000000 in
set_option maxRecDepth 8000 in
theorem wfInv_stepAct {s s' : State} {a : Nat} {o : Obs} (h : WfInv s)
    (hs : stepAct s a = some (s', o)) : WfInv s' := by
  unfold stepAct at hs
  split at hs
  · simp at hs
  next act ha =>
  split at hs
  · simp at hs
  next hchild =>
  have hlt : a < s.acts.length := lt_of_getElem?_some ha
  have hpca := pcAt_of ha
  have hk := h a
  rw [hpca] at hk
  split at hs
  all_goals (try (simp at hs; done))
  all_goals (try dsimp only at hs)
  all_goals (repeat' split at hs)
  all_goals (try (simp at hs; done))
  all_goals (try (simp only [Option.some.injEq, Prod.mk.injEq] at hs; obtain ⟨rfl, _⟩ := hs))
  all_goals (try (rw [‹act.pc = _›] at hk))
  all_goals (first
      | ((refine WfInv.keep_goto (s := s) ?_ ?_) <;> wf_side)
      | ((refine WfInv.keep_setAct (s := s) ?_ ?_) <;> wf_side)
      | skip)

end Desync
