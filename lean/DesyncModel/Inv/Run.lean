/-
The closure of an operation is invoked at most once (C03: no operation is duplicated; C04: sync runs its closure once;
C05: the value is freed once).

`ran j` = job `j` carries a closure (desync / sync / after, including the drop closure) and that closure has been invoked.
The invariant: such a job is never in a queue's list, and whoever has it in hand is inside or past the closure (waiting for
the body to return, at `jobBodyDone`, or finishing the job).  Consequently an activity standing at the step that invokes
the closure (`jobStart` of a closure job, `jobAwait` of an `after` job) finds `begun = false`.
-/
import DesyncModel.Inv.SigStep
namespace Desync
open Gen

/-- kinds whose operation is a closure run as a harness body (the others are futures polled repeatedly) -/
def JobKind.hasBody : JobKind → Bool
  | .plain _ | .immediate _ _ | .erasedDrain _ _ | .erasedBg _ _ | .after _ _ _ => true
  | _ => false

def Job.ran (b : Job) : Bool := b.begun && b.kind.hasBody

def State.jobRan (s : State) (j : Nat) : Bool := match s.jobs[j]? with | some b => b.ran | none => false

theorem jobRan_of {s : State} {j : Nat} {b : Job} (h : s.jobs[j]? = some b) : s.jobRan j = b.ran := by simp [State.jobRan, h]

@[simp] theorem jobRan_setQ (s : State) (q : Nat) (v : JobQ) (i : Nat) : (s.setQ q v).jobRan i = s.jobRan i := rfl
@[simp] theorem jobRan_setFut (s : State) (f : Nat) (v : Fut) (i : Nat) : (s.setFut f v).jobRan i = s.jobRan i := rfl
@[simp] theorem jobRan_setGate (s : State) (g : Nat) (v : Gate) (i : Nat) : (s.setGate g v).jobRan i = s.jobRan i := rfl
@[simp] theorem jobRan_setAct (s : State) (a : Nat) (v : Act) (i : Nat) : (s.setAct a v).jobRan i = s.jobRan i := rfl
@[simp] theorem jobRan_setSf (s : State) (u : Nat) (v : SyncFut) (i : Nat) : (s.setSf u v).jobRan i = s.jobRan i := rfl
@[simp] theorem jobRan_setPThr (s : State) (p : Nat) (v : PThr) (i : Nat) : (s.setPThr p v).jobRan i = s.jobRan i := rfl
@[simp] theorem jobRan_setHolder (s : State) (q : Nat) (h : Option Nat) (i : Nat) : (s.setHolder q h).jobRan i = s.jobRan i := rfl
@[simp] theorem jobRan_takeReady (s : State) (w a : Nat) (i : Nat) : (s.takeReady w a).jobRan i = s.jobRan i := rfl
@[simp] theorem jobRan_dropReady (s : State) (w : Nat) (i : Nat) : (s.dropReady w).jobRan i = s.jobRan i := rfl
@[simp] theorem jobRan_goto (s : State) (a : Nat) (pc : Pc) (i : Nat) : (s.goto a pc).jobRan i = s.jobRan i := by unfold State.goto; split <;> rfl
@[simp] theorem jobRan_setWoken (s : State) (a : Nat) (b : Bool) (i : Nat) : (s.setWoken a b).jobRan i = s.jobRan i := by unfold State.setWoken; split <;> rfl
@[simp] theorem jobRan_notify (s : State) (w : Nat) (i : Nat) : (s.notify w).jobRan i = s.jobRan i := by unfold State.notify; split <;> (try split) <;> rfl
@[simp] theorem jobRan_setQState (s : State) (q : Nat) (st : QState) (i : Nat) : (s.setQState q st).jobRan i = s.jobRan i := by unfold State.setQState; split <;> rfl
@[simp] theorem jobRan_pushBack (s : State) (q j : Nat) (i : Nat) : (s.pushBack q j).jobRan i = s.jobRan i := by unfold State.pushBack; split <;> rfl
@[simp] theorem jobRan_pushFront (s : State) (q j : Nat) (i : Nat) : (s.pushFront q j).jobRan i = s.jobRan i := by unfold State.pushFront; split <;> rfl

theorem jobRan_setJob_of {s : State} {j : Nat} {b : Job} (hj : s.jobs[j]? = some b) (v : Job) (i : Nat) :
    (s.setJob j v).jobRan i = if i = j then v.ran else s.jobRan i := by
  have hlt : j < s.jobs.length := (List.getElem?_eq_some_iff.mp hj).1
  simp only [State.jobRan, State.setJob, List.getElem?_set]
  by_cases h : i = j
  · subst h; simp [hlt]
  · have : ¬ j = i := fun e => h e.symm
    simp [h, this]

theorem jobRan_setJob_keep {s : State} {j : Nat} {b v : Job} (hj : s.jobs[j]? = some b) (hk : v.ran = b.ran) (i : Nat) :
    (s.setJob j v).jobRan i = s.jobRan i := by
  rw [jobRan_setJob_of hj]
  split
  · next e => rw [e, jobRan_of hj, hk]
  · rfl

@[simp] theorem jobRan_setJobPh (s : State) (j : Nat) (ph : Phase) (i : Nat) : (s.setJobPh j ph).jobRan i = s.jobRan i := by
  unfold State.setJobPh
  split
  · next v hv => exact jobRan_setJob_keep (v := { v with ph := ph }) hv rfl i
  · rfl

theorem jobRan_fresh (s : State) (i : Nat) (h : s.jobs.length ≤ i) : s.jobRan i = false := by
  have : s.jobs[i]? = none := by simpa using h
  simp [State.jobRan, this]

theorem jobRan_append {s X : State} {nj : Job} (h : X.jobs = s.jobs ++ [nj]) (hn : nj.ran = false) (i : Nat) :
    X.jobRan i = s.jobRan i := by
  simp only [State.jobRan]
  by_cases hlt : i < s.jobs.length
  · simp [h, List.getElem?_append_left hlt]
  · by_cases he : i = s.jobs.length
    · subst he; simp [h, hn]
    · have h1 : (s.jobs ++ [nj])[i]? = none := by simp; omega
      have h2 : s.jobs[i]? = none := by simp; omega
      simp [h, h1, h2]

theorem jobRan_append_ne {s X : State} {nj : Job} (h : X.jobs = s.jobs ++ [nj]) (i : Nat) (hne : i ≠ s.jobs.length) :
    X.jobRan i = s.jobRan i := by
  simp only [State.jobRan]
  by_cases hlt : i < s.jobs.length
  · simp [h, List.getElem?_append_left hlt]
  · have h1 : (s.jobs ++ [nj])[i]? = none := by simp; omega
    have h2 : s.jobs[i]? = none := by simp; omega
    simp [h, h1, h2]

@[simp] theorem jobRan_newJob (s : State) (q : Nat) (kind : JobKind) (i : Nat) : (s.newJob q kind).1.jobRan i = s.jobRan i :=
  jobRan_append (s := s) (nj := { q := q, kind := kind, ph := .queued, begun := false, ended := false, reg := none }) rfl rfl i

/-- the innermost job program counter is inside or past the closure of the job -/
def Pc.inBody : Pc → Bool
  | .begin _ k | .body _ k => k.inBody
  | .stReap k | .stScanLock k | .stScan _ k | .stScanHeld _ k | .stScanRel _ _ k
  | .stScanUnlock _ k | .stReadMax k | .stSpawn _ k | .stSpawnRel k => k.inBody
  | .rqCs _ k | .rqNotifyAcq _ _ _ k | .rqNotify _ _ _ k | .rqNotifyRel _ _ _ k | .rqPush _ k => k.inBody
  | .resumeSend _ k | .waking _ k | .openSend _ k | .wqCs _ k | .wtCs _ _ k | .wtUnpark _ k | .lwCs _ k | .dwCs _ k => k.inBody
  | .jobBodyDone _ _ _ | .jobSignal _ _ _ | .jobSigDrop _ _ _ | .jobDrop _ _ _ | .siIdle _ _ => true
  | .pfPollRel _ next => next.inBody
  | .dqWakeWith _ _ _ k => k.inBody
  | .fdDrop _ k => k.inBody
  | _ => false

@[simp] theorem inBody_ctxPending (j : Nat) (k : Pc) (c : Ctx) : (ctxPending j k c).inBody = false := by cases c <;> rfl

structure RunInv (s : State) : Prop where
  /-- whoever has a signalled job in hand is past the signal step -/
  holders : ∀ a j q, (s.pcAt a).runningQ = some (j, q) → s.jobRan j = true → (s.pcAt a).inBody = true
  /-- a signalled job is never (back) in a queue -/
  queued : ∀ q l j, s.qjobs q = some l → j ∈ l → s.jobRan j = false

/-- a step that raises no flag: every job in a list was there before or is unsignalled; every job in hand was in the
same hand before (and the hand did not go back before the signal) or is unsignalled -/
theorem RunInv.step {s s' : State} (h : RunInv s)
    (hg : ∀ i, s'.jobRan i = true → s.jobRan i = true)
    (hq : ∀ q l' j, s'.qjobs q = some l' → j ∈ l' → s.jobRan j = false ∨ ∃ l, s.qjobs q = some l ∧ j ∈ l)
    (hpc : ∀ b j q, (s'.pcAt b).runningQ = some (j, q) → s.jobRan j = false ∨
      ((s.pcAt b).runningQ = some (j, q) ∧ ((s.pcAt b).inBody = true → (s'.pcAt b).inBody = true))) : RunInv s' := by
  refine ⟨?_, ?_⟩
  · intro b j q hr hs
    have hs0 := hg j hs
    rcases hpc b j q hr with hf | ⟨hr0, hp⟩
    · rw [hs0] at hf; cases hf
    · exact hp (h.holders b j q hr0 hs0)
  · intro q l' j hl hm
    cases hx : s'.jobRan j with
    | false => rfl
    | true =>
      have hs0 := hg j hx
      rcases hq q l' j hl hm with hf | ⟨l, hl0, hm0⟩
      · rw [hs0] at hf; cases hf
      · have := h.queued q l j hl0 hm0; rw [hs0] at this; cases this

/-- activity `a` moves; no list and no flag changes -/
theorem RunInv.frame {s X : State} {a : Nat} {pc' : Pc} (h : RunInv s)
    (hpc : ∀ b, X.pcAt b = s.pcAt b) (hq : ∀ i, X.qjobs i = s.qjobs i) (hg : ∀ i, X.jobRan i = s.jobRan i)
    (hrun : pc'.runningQ = none ∨ (pc'.runningQ = (s.pcAt a).runningQ ∧ ((s.pcAt a).inBody = true → pc'.inBody = true))) :
    RunInv (X.goto a pc') := by
  refine RunInv.step h (fun i hi => by rw [jobRan_goto, hg] at hi; exact hi)
    (fun q l' j hl hm => Or.inr ⟨l', by rw [qjobs_goto, hq] at hl; exact hl, hm⟩) ?_
  intro b j q hr
  rcases pcAt_goto_cases X a b pc' with ⟨e, rfl⟩ | e <;> rw [e] at hr ⊢
  · rcases hrun with hn | ⟨he, hp⟩
    · rw [hn] at hr; cases hr
    · exact Or.inr ⟨by rw [← he]; exact hr, hp⟩
  · rw [hpc] at hr ⊢
    exact Or.inr ⟨hr, id⟩

theorem RunInv.frame_setAct {s X : State} {a : Nat} {v : Act} (h : RunInv s)
    (hpc : ∀ b, X.pcAt b = s.pcAt b) (hq : ∀ i, X.qjobs i = s.qjobs i) (hg : ∀ i, X.jobRan i = s.jobRan i)
    (hrun : v.pc.runningQ = none ∨ (v.pc.runningQ = (s.pcAt a).runningQ ∧ ((s.pcAt a).inBody = true → v.pc.inBody = true))) :
    RunInv (X.setAct a v) := by
  refine RunInv.step h (fun i hi => by rw [jobRan_setAct, hg] at hi; exact hi)
    (fun q l' j hl hm => Or.inr ⟨l', by rw [qjobs_setAct, hq] at hl; exact hl, hm⟩) ?_
  intro b j q hr
  rcases pcAt_setAct_cases X a b v with ⟨e, rfl⟩ | e <;> rw [e] at hr ⊢
  · rcases hrun with hn | ⟨he, hp⟩
    · rw [hn] at hr; cases hr
    · exact Or.inr ⟨by rw [← he]; exact hr, hp⟩
  · rw [hpc] at hr ⊢
    exact Or.inr ⟨hr, id⟩

/-! ### the steps that move jobs -/

/-- a job is taken from the head of a queue: it was in the list, so it is unsignalled -/
theorem RunInv.dequeue_take {s : State} {a q j : Nat} {pc' : Pc} (h : RunInv s)
    (hd : (s.dequeue q a).2 = some j) (hnew : pc'.runningQ = some (j, q)) :
    RunInv ((s.dequeue q a).1.goto a pc') := by
  obtain ⟨v, rest, hv, hjobs, hX⟩ := dequeue_some hd
  rw [hX]
  have hqj : s.qjobs q = some (j :: rest) := by rw [qjobs_of hv, hjobs]
  have hjs : s.jobRan j = false := h.queued q _ j hqj (by simp)
  refine RunInv.step h ?_ ?_ ?_
  · intro i hi; simpa using hi
  · intro q' l' j' hl hm
    rw [qjobs_goto, qjobs_setJobPh, qjobs_setQ_of hv] at hl
    split at hl
    · next e =>
      subst e
      simp only [Option.some.injEq] at hl
      subst hl
      exact Or.inr ⟨_, hqj, by simp [hm]⟩
    · exact Or.inr ⟨l', hl, hm⟩
  · intro b j' q' hr
    rcases pcAt_goto_cases ((s.setQ q { v with jobs := rest }).setJobPh j (.held a)) a b pc' with ⟨e, rfl⟩ | e <;> rw [e] at hr ⊢
    · rw [hnew] at hr
      simp only [Option.some.injEq, Prod.mk.injEq] at hr
      rw [← hr.1]; exact Or.inl hjs
    · simp only [pcAt_setJobPh, pcAt_setQ] at hr ⊢
      exact Or.inr ⟨hr, id⟩

theorem RunInv.dequeue_none {s : State} {a q : Nat} {pc' : Pc} (h : RunInv s)
    (hd : (s.dequeue q a).2 = none)
    (hrun : pc'.runningQ = none ∨ (pc'.runningQ = (s.pcAt a).runningQ ∧ ((s.pcAt a).inBody = true → pc'.inBody = true))) :
    RunInv ((s.dequeue q a).1.goto a pc') := by
  rw [Desync.dequeue_none hd]
  exact RunInv.frame h (fun _ => rfl) (fun _ => rfl) (fun _ => rfl) hrun

/-- the job in hand goes back to the front of its queue: whoever requeues is before the signal, so the job is unsignalled -/
theorem RunInv.requeue_front {s : State} {a q j : Nat} {pc' : Pc} (h : RunInv s)
    (hold : (s.pcAt a).runningQ = some (j, q)) (hpre : (s.pcAt a).inBody = false) (hnew : pc'.runningQ = none) :
    RunInv (((s.pushFront q j).setJobPh j .queued).goto a pc') := by
  have hjs : s.jobRan j = false := by
    cases hx : s.jobRan j with
    | false => rfl
    | true => have := h.holders a j q hold hx; rw [hpre] at this; cases this
  refine RunInv.step h ?_ ?_ ?_
  · intro i hi; simpa using hi
  · intro q' l' j' hl hm
    rw [qjobs_goto, qjobs_setJobPh, qjobs_pushFront] at hl
    split at hl
    · next e =>
      subst e
      cases hq0 : s.qjobs q' with
      | none => rw [hq0] at hl; cases hl
      | some l0 =>
        rw [hq0] at hl
        simp only [Option.map_some, Option.some.injEq] at hl
        subst hl
        rcases List.mem_cons.mp hm with e | hm0
        · rw [e]; exact Or.inl hjs
        · exact Or.inr ⟨l0, rfl, hm0⟩
    · exact Or.inr ⟨l', hl, hm⟩
  · intro b j' q' hr
    rcases pcAt_goto_cases ((s.pushFront q j).setJobPh j .queued) a b pc' with ⟨e, rfl⟩ | e <;> rw [e] at hr ⊢
    · rw [hnew] at hr; cases hr
    · simp only [pcAt_setJobPh, pcAt_pushFront] at hr ⊢
      exact Or.inr ⟨hr, id⟩

/-- a new job is appended to the table and to a queue's list (or given straight to its creator): it is unsignalled -/
theorem RunInv.new_job {s X : State} {a q : Nat} {pc' : Pc} (h : RunInv s)
    (hpc : ∀ b, X.pcAt b = s.pcAt b) (hg : ∀ i, X.jobRan i = s.jobRan i)
    (hq : ∀ q' l' j', X.qjobs q' = some l' → j' ∈ l' → j' = s.jobs.length ∨ ∃ l, s.qjobs q' = some l ∧ j' ∈ l)
    (hrun : pc'.runningQ = none ∨ pc'.runningQ = some (s.jobs.length, q) ∨
      (pc'.runningQ = (s.pcAt a).runningQ ∧ ((s.pcAt a).inBody = true → pc'.inBody = true))) :
    RunInv (X.goto a pc') := by
  have hfresh : s.jobRan s.jobs.length = false := jobRan_fresh s _ (Nat.le_refl _)
  refine RunInv.step h (fun i hi => by rw [jobRan_goto, hg] at hi; exact hi) ?_ ?_
  · intro q' l' j' hl hm
    rw [qjobs_goto] at hl
    rcases hq q' l' j' hl hm with e | hx
    · rw [e]; exact Or.inl hfresh
    · exact Or.inr hx
  · intro b j' q' hr
    rcases pcAt_goto_cases X a b pc' with ⟨e, rfl⟩ | e <;> rw [e] at hr ⊢
    · rcases hrun with hn | hn | ⟨he, hp⟩
      · rw [hn] at hr; cases hr
      · rw [hn] at hr
        simp only [Option.some.injEq, Prod.mk.injEq] at hr
        rw [← hr.1]; exact Or.inl hfresh
      · exact Or.inr ⟨by rw [← he]; exact hr, hp⟩
    · rw [hpc] at hr ⊢
      exact Or.inr ⟨hr, id⟩

end Desync
