/-
I_pending is preserved by every internal step.
-/
import DesyncModel.Inv.Pend

namespace Desync
open Gen

set_option hygiene false in
/-- the table in hand did not make the queue pending out of another state -/
macro "pend_tab" : tactic => `(tactic| first
  | (have e := syncDecide_pend hp; exact Or.inl (by rw [qSt_of ‹s.qs[_]? = some _›, e]))
  | (have e := syncNoPanicDecide_pend hp; exact Or.inl (by rw [qSt_of ‹s.qs[_]? = some _›, e]))
  | (have e := trySyncDecide_pend hp; exact Or.inl (by rw [qSt_of ‹s.qs[_]? = some _›, e]))
  | (have e := pollDecide_pend hp; exact Or.inl (by rw [qSt_of ‹s.qs[_]? = some _›, e]))
  | (have e := futureDropDecide_pend hp; exact Or.inl (by rw [qSt_of ‹s.qs[_]? = some _›, e]))
  | (have e := claim_pend hp; exact Or.inl (by rw [qSt_of ‹s.qs[_]? = some _›, e]))
  | (exact absurd hp (fun h => nextToRun_pend h))
  | (have e := drainPending_pend hp; exact Or.inl (by rw [qSt_of ‹s.qs[_]? = some _›, e]))
  | (have e := drainExit_pend hp; exact Or.inl (by rw [qSt_of ‹s.qs[_]? = some _›, e]))
  | (have e := runOnePending_pend hp; exact Or.inl (by rw [qSt_of ‹s.qs[_]? = some _›, e]))
  | (have e := wakeQueue_pend hp; exact Or.inl (by rw [qSt_of ‹s.qs[_]? = some _›, e]))
  | (have e := wakeThread_pend hp; exact Or.inl (by rw [qSt_of ‹s.qs[_]? = some _›, e]))
  | (exact Or.inl (by rw [qSt_of ‹s.qs[_]? = some _›, hp])))

set_option hygiene false in
/-- a queue that is pending after the step was pending before -/
macro "pend_q" : tactic => `(tactic| (
  intro q hp
  simp only [qSt_goto, qSt_setAct, qSt_setHolder, qSt_setJob, qSt_setGate, qSt_setSf, qSt_setPThr, qSt_takeReady, qSt_dropReady, qSt_setWoken,
             qSt_notify, qSt_setFut, qSt_pushFront, qSt_pushBack, qSt_setJobPh, qSt_dequeue] at hp
  first
  | exact Or.inl hp
  | (simp only [State.qSt] at hp ⊢; exact Or.inl hp)
  | (rcases qSt_setQState_cases hp with h1 | h1
     · cases h1
     · exact Or.inl h1)
  | (rw [qSt_setQ ‹s.qs[_]? = some _›] at hp
     split at hp
     · next e =>
       subst e
       simp only [Option.some.injEq] at hp
       pend_tab
     · exact Or.inl hp)))

set_option hygiene false in
macro "pend_mine" : tactic => `(tactic| (
  intro q hp
  rw [hpca, ‹act.pc = _›] at hp
  first
  | (simp [Pc.pushes] at hp; done)
  | (left
     first
     | (rw [pcAt_goto_self _ (by simpa [dequeue_acts] using hlt)]; simp [Pc.pushes] at hp ⊢; first | exact hp | exact hp.2 | (simp_all; done))
     | (rw [pcAt_setAct_self _ (by simpa [dequeue_acts] using hlt)]; simp [Pc.pushes] at hp ⊢; first | exact hp | exact hp.2 | (simp_all; done)))))

set_option hygiene false in
macro "pend_open" : tactic => `(tactic| (
  have hlt : a < s.acts.length := lt_of_getElem?_some ha
  have hpca := pcAt_of ha
  unfold stepAct at hs
  simp only [ha, hc, hpc, Option.isSome_none, Bool.false_eq_true, ↓reduceIte] at hs))

set_option hygiene false in
macro "pend_fin" : tactic => `(tactic| (
  all_goals (try (simp at hs; done))
  all_goals (simp only [Option.some.injEq, Prod.mk.injEq] at hs; obtain ⟨rfl, _⟩ := hs)))

/-- the state seen through the three things the invariant reads -/
theorem PendInv.of_view {Y X : State} (h : PendInv Y) (hq : ∀ q, X.qSt q = Y.qSt q) (hs : X.schedule = Y.schedule) (hp : ∀ b, X.pcAt b = Y.pcAt b) : PendInv X :=
  ⟨fun q hq' => by rw [hs]; rw [hq] at hq'; rcases h.pend q hq' with h1 | ⟨b, h1⟩; exact Or.inl h1; exact Or.inr ⟨b, by rw [hp]; exact h1⟩⟩

theorem pend_stSpawn {s s' : State} {a : Nat} {o : Obs} (h : PendInv s) (act : Act) (ha : s.acts[a]? = some act) (hc : act.child = none) (m : Nat) (k : Pc)
    (hpc : act.pc = .stSpawn m k) (hs : stepAct s a = some (s', o)) : PendInv s' := by
  pend_open
  split at hs
  · simp at hs
  · split at hs
    · pend_fin
      refine PendInv.step (a := a) h ?_ (fun q hm => Or.inl (by simpa using hm)) (fun q hp => Or.inl (by simp only [qSt_goto] at hp; exact hp)) ?_
      · intro b hba q hp
        rw [pcAt_goto_ne _ hba]
        have hbl : b < s.acts.length := by
          by_cases hb : b < s.acts.length
          · exact hb
          · have h1 : s.acts[b]? = none := List.getElem?_eq_none (Nat.le_of_not_lt hb)
            have : s.pcAt b = .dead := by simp [State.pcAt, h1]
            rw [this] at hp; simp [Pc.pushes] at hp
        simp only [State.pcAt, List.getElem?_append_left hbl]
        exact hp
      · intro q hp; rw [hpca, hpc] at hp; simp [Pc.pushes] at hp
    · pend_fin
      exact PendInv.step' (a := a) h (by sim_oth) (by simp) (fun q hp => Or.inl (by simpa using hp)) (by intro q hp; rw [hpca, hpc] at hp; simp [Pc.pushes] at hp)

theorem pend_push {s : State} {a q0 : Nat} {pc' : Pc} (h : PendInv s) (hlt : a < s.acts.length) (hsl : s.schedLock = none ∨ True)
    (hmine : ∀ q, (s.pcAt a).pushes q = true → q = q0) :
    PendInv (({ s with schedule := s.schedule ++ [q0] } : State).goto a pc') := by
  refine PendInv.step (a := a) h ?_ ?_ ?_ ?_
  · intro b hba q hp; rw [pcAt_goto_ne _ hba]; exact hp
  · intro q hm; left; simp only [schedule_goto]; exact List.mem_append_left _ hm
  · intro q hp; left; simp only [qSt_goto] at hp; exact hp
  · intro q hp; right; simp only [schedule_goto]; rw [hmine q hp]; simp

theorem pend_rqPush {s s' : State} {a : Nat} {o : Obs} (h : PendInv s) (act : Act) (ha : s.acts[a]? = some act) (hc : act.child = none) (q : Nat) (k : Pc)
    (hpc : act.pc = .rqPush q k) (hs : stepAct s a = some (s', o)) : PendInv s' := by
  pend_open
  split at hs
  pend_fin
  exact pend_push h hlt (Or.inr trivial) (by intro q' hp; rw [hpca, hpc] at hp; simp [Pc.pushes] at hp; exact hp.symm)

theorem pend_dsSched {s s' : State} {a : Nat} {o : Obs} (h : PendInv s) (act : Act) (ha : s.acts[a]? = some act) (hc : act.child = none) (q : Nat)
    (hpc : act.pc = .dsSched q) (hs : stepAct s a = some (s', o)) : PendInv s' := by
  pend_open
  split at hs
  pend_fin
  exact pend_push h hlt (Or.inr trivial) (by intro q' hp; rw [hpca, hpc] at hp; simp [Pc.pushes] at hp; exact hp.symm)

theorem pend_ptPop {s s' : State} {a : Nat} {o : Obs} (h : PendInv s) (act : Act) (ha : s.acts[a]? = some act) (hc : act.child = none) (p : Nat)
    (hpc : act.pc = .ptPop p) (hs : stepAct s a = some (s', o)) : PendInv s' := by
  pend_open
  split at hs
  · pend_fin
    exact PendInv.step' (a := a) h (by sim_oth) (by simp) (fun q hp => Or.inl (by simp only [qSt_goto] at hp; exact hp)) (by intro q hp; rw [hpca, hpc] at hp; simp [Pc.pushes] at hp)
  · next q0 rest he =>
    split at hs
    · simp at hs
    · next v hv =>
      have hkey : ∀ (X : State) (pc' : Pc), X = (({ s with schedule := rest } : State).setQ q0 { v with state := (nextToRun v.state).1 }) →
          PendInv (X.goto a pc') ∧ PendInv ((X.setHolder q0 (some a)).goto a pc') := by
        intro X pc' hX
        have hqs : ∀ q, X.qSt q = some .pending → s.qSt q = some .pending ∧ q ≠ q0 := by
          intro q hp
          rw [hX] at hp
          have hv' : ({ s with schedule := rest } : State).qs[q0]? = some v := hv
          rw [qSt_setQ hv'] at hp
          split at hp
          · simp only [Option.some.injEq] at hp; exact absurd hp (fun e => nextToRun_pend e)
          · next hne => exact ⟨hp, hne⟩
        have hsch : X.schedule = rest := by rw [hX]; rfl
        have hpcs : ∀ b, X.pcAt b = s.pcAt b := by intro b; rw [hX]; rfl
        have main : ∀ Y : State, (∀ q, Y.qSt q = X.qSt q) → Y.schedule = X.schedule → (∀ b, Y.pcAt b = X.pcAt b) → PendInv (Y.goto a pc') := by
          intro Y hYq hYs hYp
          refine PendInv.step (a := a) h ?_ ?_ ?_ ?_
          · intro b hba q hp; rw [pcAt_goto_ne _ hba, hYp, hpcs]; exact hp
          · intro q hm
            rw [he] at hm
            rcases List.mem_cons.mp hm with e | hm'
            · right
              intro hp
              simp only [qSt_goto] at hp
              rw [hYq] at hp
              exact (hqs q hp).2 e
            · left; simp only [schedule_goto]; rw [hYs, hsch]; exact hm'
          · intro q hp; left; simp only [qSt_goto] at hp; rw [hYq] at hp; exact (hqs q hp).1
          · intro q hp; rw [hpca, hpc] at hp; simp [Pc.pushes] at hp
        exact ⟨main X (fun _ => rfl) rfl (fun _ => rfl), main (X.setHolder q0 (some a)) (fun q => by simp) rfl (fun b => rfl)⟩
      split at hs
      · pend_fin
        exact (hkey _ _ rfl).2
      · pend_fin
        exact (hkey _ _ rfl).1

/-- a step that rewrites the state of one queue (and perhaps other things the invariant does not read) -/
theorem pend_table {s X : State} {a q0 : Nat} {v : JobQ} {st' : QState} (h : PendInv s) (hv : s.qs[q0]? = some v)
    (hXq : ∀ q, X.qSt q = if q = q0 then some st' else s.qSt q)
    (hsch : X.schedule = s.schedule) (hoth : ∀ b, b ≠ a → X.pcAt b = s.pcAt b)
    (htab : st' = .pending → v.state = .pending ∨ (X.pcAt a).pushes q0 = true)
    (hmine : ∀ q, (s.pcAt a).pushes q = true → (X.pcAt a).pushes q = true ∨ q ∈ X.schedule) : PendInv X := by
  refine PendInv.step' (a := a) h hoth hsch ?_ hmine
  intro q hp
  rw [hXq] at hp
  split at hp
  · next e =>
    subst e
    rcases htab (Option.some.inj hp) with h1 | h1
    · left; rw [qSt_of hv, h1]
    · exact Or.inr h1
  · exact Or.inl hp

theorem claim_never_pending {st : QState} (h : (claim st).1 = .pending) : False := by
  cases st <;> simp_all [claim]

set_option hygiene false in
/-- the mover was not about to push anything -/
macro "pend_nomine" : tactic => `(tactic| (intro q hp; rw [hpca, hpc] at hp; simp [Pc.pushes] at hp))

set_option hygiene false in
macro "pend_self" : tactic => `(tactic| first
  | (rw [pcAt_goto_self _ (by simpa [dequeue_acts] using hlt)])
  | (rw [pcAt_setAct_self _ (by simpa [dequeue_acts] using hlt)]))

theorem pend_dsPush {s s' : State} {a : Nat} {o : Obs} (h : PendInv s) (act : Act) (ha : s.acts[a]? = some act) (hc : act.child = none) (q : Nat) (kind : JobKind)
    (hpc : act.pc = .dsPush q kind) (hs : stepAct s a = some (s', o)) : PendInv s' := by
  pend_open
  split at hs
  · simp at hs
  · next v hv =>
    have hXq : ∀ (pc' : Pc) (q' : Nat), ((((s.newJob q kind).1).setQ q { v with jobs := v.jobs ++ [(s.newJob q kind).2], state := (desyncPush v.state).1 }).goto a pc').qSt q'
        = if q' = q then some (desyncPush v.state).1 else s.qSt q' := by
      intro pc' q'
      simp only [qSt_goto]
      have hv' : (s.newJob q kind).1.qs[q]? = some v := hv
      rw [qSt_setQ hv']
      rfl
    try dsimp only at hs
    split at hs
    · next hr =>
      pend_fin
      refine pend_table (a := a) h hv (hXq _) (by simp) (by sim_oth) ?_ (by pend_nomine)
      intro _; right; pend_self; simp [Pc.pushes]
    · split at hs
      · next hr1 hr2 =>
        pend_fin
        refine pend_table (a := a) h hv (hXq _) (by simp) (by sim_oth) ?_ (by pend_nomine)
        intro hp; left
        rcases desyncPush_pend hp with h1 | h1
        · exact h1
        · exact absurd h1 hr1
      · next hr1 hr2 =>
        pend_fin
        refine pend_table (a := a) h hv (hXq _) (by simp) (by sim_oth) ?_ (by pend_nomine)
        intro hp; left
        rcases desyncPush_pend hp with h1 | h1
        · exact h1
        · exact absurd h1 hr1

theorem pend_rqCs {s s' : State} {a : Nat} {o : Obs} (h : PendInv s) (act : Act) (ha : s.acts[a]? = some act) (hc : act.child = none) (q : Nat) (k : Pc)
    (hpc : act.pc = .rqCs q k) (hs : stepAct s a = some (s', o)) : PendInv s' := by
  pend_open
  split at hs
  · simp at hs
  · next v hv =>
    pend_fin
    refine pend_table (a := a) (st' := (reschedule v.state v.jobs.isEmpty).1) h hv ?_ (by simp) (by sim_oth) ?_ (by pend_nomine)
    · intro q'; simp only [qSt_goto]; rw [qSt_setQ hv]
    · intro hp
      rcases reschedule_pend hp with h1 | h1
      · exact Or.inl h1
      · right; pend_self; simp [Pc.pushes, h1]

theorem pend_sbPush {s s' : State} {a : Nat} {o : Obs} (h : PendInv s) (act : Act) (ha : s.acts[a]? = some act) (hc : act.child = none) (q : Nat) (b : Body)
    (hpc : act.pc = .sbPush q b) (hs : stepAct s a = some (s', o)) : PendInv s' := by
  pend_open
  split at hs
  · simp at hs
  · next v hv =>
    have hXq : ∀ (pc' : Pc) (q' : Nat), ((((s.newJob q (.erasedBg a b)).1).setQ q { v with jobs := v.jobs ++ [(s.newJob q (.erasedBg a b)).2] }).goto a pc').qSt q'
        = if q' = q then some v.state else s.qSt q' := by
      intro pc' q'
      simp only [qSt_goto]
      have hv' : (s.newJob q (.erasedBg a b)).1.qs[q]? = some v := hv
      rw [qSt_setQ hv']
      rfl
    try dsimp only at hs
    split at hs
    · pend_fin
      exact pend_table (a := a) h hv (hXq _) (by simp) (by sim_oth) (fun hp => Or.inl hp) (by pend_nomine)
    · pend_fin
      exact pend_table (a := a) h hv (hXq _) (by simp) (by sim_oth) (fun hp => Or.inl hp) (by pend_nomine)

theorem pend_sbPrune {s s' : State} {a : Nat} {o : Obs} (h : PendInv s) (act : Act) (ha : s.acts[a]? = some act) (hc : act.child = none) (q : Nat)
    (hpc : act.pc = .sbPrune q) (hs : stepAct s a = some (s', o)) : PendInv s' := by
  pend_open
  split at hs
  · simp at hs
  · next v hv =>
    pend_fin
    refine pend_table (a := a) (st' := v.state) h hv ?_ (by simp) ?_ (fun hp => Or.inl hp) (by pend_nomine)
    · intro q'
      have hv' : (s.goto a .ret).qs[q]? = some v := by simpa using hv
      rw [qSt_setQ hv']
      simp only [qSt_goto]
    · intro b hba
      simp only [pcAt_setQ]
      exact pcAt_goto_ne _ hba

theorem pend_dqDequeue {s s' : State} {a : Nat} {o : Obs} (h : PendInv s) (act : Act) (ha : s.acts[a]? = some act) (hc : act.child = none) (f q : Nat)
    (hpc : act.pc = .dqDequeue f q) (hs : stepAct s a = some (s', o)) : PendInv s' := by
  pend_open
  try dsimp only at hs
  split at hs
  · pend_fin
    refine PendInv.step' (a := a) h (by sim_oth) (by simp) ?_ (by pend_nomine)
    intro q' hp
    left
    simp only [qSt_goto] at hp
    have hp' : (s.dequeue q a).1.qSt q' = some .pending := hp
    rw [qSt_dequeue] at hp'
    exact hp'
  · pend_fin
    refine PendInv.step' (a := a) h (by sim_oth) (by simp) ?_ (by pend_nomine)
    intro q' hp
    left
    simpa using hp

theorem pend_sbClaim {s s' : State} {a : Nat} {o : Obs} (h : PendInv s) (act : Act) (ha : s.acts[a]? = some act) (hc : act.child = none) (q j : Nat)
    (hpc : act.pc = .sbClaim q j) (hs : stepAct s a = some (s', o)) : PendInv s' := by
  pend_open
  split at hs
  · simp at hs
  · split at hs
    · simp at hs
    · next v hv =>
      try dsimp only at hs
      split at hs
      · pend_fin
        refine PendInv.step (a := a) h ?_ ?_ ?_ (by pend_nomine)
        · intro b hba q' hp; rw [pcAt_goto_ne _ hba]; exact hp
        · intro q' hm
          by_cases hq : q' = q
          · right
            subst hq
            intro hp
            simp only [qSt_goto, qSt_setHolder] at hp
            have hp' : (s.setQ q' { v with state := (claim v.state).1 }).qSt q' = some .pending := hp
            rw [qSt_setQ hv] at hp'
            simp only [↓reduceIte, Option.some.injEq] at hp'
            exact claim_never_pending hp'
          · left
            simp only [schedule_goto]
            show q' ∈ List.filter (fun x => x != q) (s.setQ q { v with state := (claim v.state).1 }).schedule
            simp [hm, hq]
        · intro q' hp
          left
          simp only [qSt_goto, qSt_setHolder] at hp
          have hp' : (s.setQ q { v with state := (claim v.state).1 }).qSt q' = some .pending := hp
          rw [qSt_setQ hv] at hp'
          split at hp'
          · simp only [Option.some.injEq] at hp'; exact absurd hp' (fun e => claim_never_pending e)
          · exact hp'
      · pend_fin
        refine PendInv.step' (a := a) h (by sim_oth) (by simp) ?_ (by pend_nomine)
        intro q' hp
        left
        simp only [qSt_goto] at hp
        have hp' : (s.setQ q { v with state := (claim v.state).1 }).qSt q' = some .pending := hp
        rw [qSt_setQ hv] at hp'
        split at hp'
        · simp only [Option.some.injEq] at hp'; exact absurd hp' (fun e => claim_never_pending e)
        · exact hp'

set_option maxHeartbeats 4000000 in
set_option maxRecDepth 8000 in
theorem pendInv_stepAct {s s' : State} {a : Nat} {o : Obs} (h : PendInv s) (hs : stepAct s a = some (s', o)) : PendInv s' := by
  have hs0 := hs
  unfold stepAct at hs
  split at hs
  · simp at hs
  next act ha =>
  split at hs
  · simp at hs
  next hchild =>
  have hlt : a < s.acts.length := lt_of_getElem?_some ha
  have hpca := pcAt_of ha
  have hc : act.child = none := by
    cases hcc : act.child <;> simp_all
  split at hs
  all_goals (try (simp at hs; done))
  all_goals (try (first
      | exact pend_stSpawn h act ha hc _ _ (by assumption) hs0
      | exact pend_rqPush h act ha hc _ _ (by assumption) hs0
      | exact pend_dsSched h act ha hc _ (by assumption) hs0
      | exact pend_ptPop h act ha hc _ (by assumption) hs0
      | exact pend_dsPush h act ha hc _ _ (by assumption) hs0
      | exact pend_rqCs h act ha hc _ _ (by assumption) hs0
      | exact pend_sbPush h act ha hc _ _ (by assumption) hs0
      | exact pend_sbPrune h act ha hc _ (by assumption) hs0
      | exact pend_dqDequeue h act ha hc _ _ (by assumption) hs0
      | exact pend_sbClaim h act ha hc _ _ (by assumption) hs0))
  all_goals (try dsimp only at hs)
  all_goals (repeat' split at hs)
  all_goals (try (simp at hs; done))
  all_goals (try (simp only [Option.some.injEq, Prod.mk.injEq] at hs; obtain ⟨rfl, _⟩ := hs))
  all_goals (first
      | (refine PendInv.step' (a := a) h ?_ ?_ ?_ ?_
         · sim_oth
         · first | rfl | (simp; done)
         · pend_q
         · pend_mine)
      | skip)
  -- sync / try_sync on an idle, empty queue: the state is rewritten and an `immediate` job record is added
  all_goals (
    apply pend_table (a := a) h ‹s.qs[_]? = some _›
    case hXq =>
      intro q'
      simp only [qSt_goto, qSt_setHolder]
      exact qSt_setQ ‹s.qs[_]? = some _› _ q'
    case hsch => simp
    case hoth => sim_oth
    case htab =>
      intro hp; left
      first | exact syncDecide_pend hp | exact trySyncDecide_pend hp
    case hmine => pend_mine)

end Desync
