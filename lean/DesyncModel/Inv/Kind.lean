/-
A job's completion future belongs to the job's own queue (C07, C08, C13).

`future_desync`, `after`, `future_sync` and `suspend` create their futures for a queue and then push a job that names them onto
*that* queue.  As an invariant of every reachable state: the `SchedulerFuture` a queued job will signal (and, for the slot job of
`future_sync`, the `SyncFuture` it serves) belongs to the queue the job sits in.  So `.sync()` on a returned future, which
synchronises with the future's queue, waits on the object its operation really runs on, and a `WaitingForPoll(f)` queue is the
queue of `f`'s own job.
-/
import DesyncModel.Inv.FutMono
import DesyncModel.Inv.JobMono

namespace Desync
open Gen

def futQ (F : List Fut) (r : Nat) : Option Nat := (F[r]?).map (·.q)
def sfQ (S : List SyncFut) (u : Nat) : Option Nat := (S[u]?).map (·.q)

/-- the futures named by a job kind belong to queue `q` -/
def KindOk (F : List Fut) (S : List SyncFut) (q : Nat) : JobKind → Prop
  | .fut _ _ r => futQ F r = some q
  | .after _ _ r => futQ F r = some q
  | .slot u r => futQ F r = some q ∧ sfQ S u = some q
  | .susp _ _ fs r => futQ F fs = some q ∧ futQ F r = some q
  | _ => True

theorem futQ_mono {F F' : List Fut} (h : FutsMono F F') {r q : Nat} (hq : futQ F r = some q) : futQ F' r = some q := by
  unfold futQ at hq ⊢
  cases hf : F[r]? with
  | none => rw [hf] at hq; cases hq
  | some fu =>
    rw [hf] at hq
    obtain ⟨fu', h1, h2⟩ := h r fu hf
    rw [h1]; simp only [Option.map_some, Option.some.injEq] at hq ⊢; rw [h2]; exact hq

theorem sfQ_mono {S S' : List SyncFut} (h : SfsMono S S') {u q : Nat} (hq : sfQ S u = some q) : sfQ S' u = some q := by
  unfold sfQ at hq ⊢
  cases hf : S[u]? with
  | none => rw [hf] at hq; cases hq
  | some sf =>
    rw [hf] at hq
    obtain ⟨sf', h1, _, h2, _⟩ := h u sf hf
    rw [h1]; simp only [Option.map_some, Option.some.injEq] at hq ⊢; rw [h2]; exact hq

theorem KindOk.mono {F F' : List Fut} {S S' : List SyncFut} (hF : FutsMono F F') (hS : SfsMono S S') {q : Nat} {k : JobKind}
    (h : KindOk F S q k) : KindOk F' S' q k := by
  cases k <;> simp only [KindOk] at h ⊢
  · exact futQ_mono hF h
  · exact futQ_mono hF h
  · exact ⟨futQ_mono hF h.1, sfQ_mono hS h.2⟩
  · exact ⟨futQ_mono hF h.1, futQ_mono hF h.2⟩

/-- the `schedule_job_desync` calls an activity has in progress: at its head or inside a continuation -/
def Pc.dsPushes : Pc → List (Nat × JobKind)
  | .dsPush q kind => [(q, kind)]
  | .begin _ k | .body _ k | .unwinding k => k.dsPushes
  | .stReap k | .stScanLock k | .stScan _ k | .stScanHeld _ k | .stScanRel _ _ k
  | .stScanUnlock _ k | .stReadMax k | .stSpawn _ k | .stSpawnRel k => k.dsPushes
  | .rqCs _ k | .rqNotifyAcq _ _ _ k | .rqNotify _ _ _ k | .rqNotifyRel _ _ _ k | .rqPush _ k => k.dsPushes
  | .resumeSend _ k | .waking _ k | .openSend _ k | .wqCs _ k | .wtCs _ _ k | .wtUnpark _ k | .lwCs _ k | .dwCs _ k => k.dsPushes
  | .rjDequeue _ k | .rjPending _ _ k | .rjParkCheck _ _ k | .rjPark _ _ k | .rjParked _ _ k => k.dsPushes
  | .jobStart _ _ k | .jobAwait _ _ k | .jobBodyDone _ _ k | .jobEnd _ _ k | .jobSignal _ _ k
  | .jobSigDrop _ _ k | .jobDrop _ _ k | .jobDropNotify _ _ k | .suspSignal _ _ k | .suspSigDrop _ _ k => k.dsPushes
  | .pfPollRel _ next => next.dsPushes
  | .dqWakeWith _ _ _ k => k.dsPushes
  | .fdDrop _ k => k.dsPushes
  | _ => []

@[simp] theorem dsPushes_ctxReady (k : Pc) (c : Ctx) : (ctxReady k c).dsPushes = (match c with | .caller _ => k.dsPushes | _ => []) := by
  cases c <;> simp [ctxReady, Pc.dsPushes]
@[simp] theorem dsPushes_ctxPending (j : Nat) (k : Pc) (c : Ctx) : (ctxPending j k c).dsPushes = (match c with | .caller _ => k.dsPushes | _ => []) := by
  cases c <;> simp [ctxPending, Pc.dsPushes]

/-- job kinds that name no future -/
def JobKind.plainK : JobKind → Bool
  | .plain _ | .immediate _ _ | .erasedDrain _ _ | .erasedBg _ _ => true
  | _ => false

theorem KindOk.of_plain {F S q} {k : JobKind} (h : k.plainK = true) : KindOk F S q k := by
  cases k <;> simp_all [JobKind.plainK, KindOk]

structure KindInv (s : State) : Prop where
  pcs : ∀ (a q : Nat) (kind : JobKind), (q, kind) ∈ (s.pcAt a).dsPushes → KindOk s.futs s.sfs q kind
  jobs : ∀ (j : Nat) (jb : Job), s.jobs[j]? = some jb → KindOk s.futs s.sfs jb.q jb.kind

/-- two-state: every job of `X` is a job of `s` (same queue, same kind), or names no future, or is what activity `a` was pushing -/
def KindMono (s X : State) (a : Nat) : Prop :=
  ∀ (j : Nat) (jb' : Job), X.jobs[j]? = some jb' →
    (∃ jb, s.jobs[j]? = some jb ∧ jb'.q = jb.q ∧ jb'.kind = jb.kind) ∨ jb'.kind.plainK = true ∨ (jb'.q, jb'.kind) ∈ (s.pcAt a).dsPushes

theorem KindMono.refl (s : State) (a : Nat) : KindMono s s a := fun _ jb h => Or.inl ⟨jb, h, rfl, rfl⟩
theorem KindMono.same {s X : State} {a : Nat} (h : X.jobs = s.jobs) : KindMono s X a := fun j jb hj => Or.inl ⟨jb, by rw [← h]; exact hj, rfl, rfl⟩
theorem KindMono.upd {s X Y : State} {a : Nat} (h : KindMono s X a) (hy : Y.jobs = X.jobs) : KindMono s Y a := by
  intro j jb hj; rw [hy] at hj; exact h j jb hj

theorem KindMono.setJob {s : State} {a j : Nat} {b v : Job} (hb : s.jobs[j]? = some b) (hq : v.q = b.q) (hk : v.kind = b.kind) :
    KindMono s (s.setJob j v) a := by
  intro j' jb hj
  have hlt : j < s.jobs.length := (List.getElem?_eq_some_iff.mp hb).1
  simp only [State.setJob, List.getElem?_set] at hj
  by_cases e : j = j'
  · subst e
    simp [hlt] at hj
    subst hj
    exact Or.inl ⟨b, hb, hq, hk⟩
  · simp [e] at hj
    exact Or.inl ⟨jb, hj, rfl, rfl⟩

theorem KindMono.setJobPh (s : State) (a j : Nat) (ph : Phase) : KindMono s (s.setJobPh j ph) a := by
  unfold State.setJobPh
  split
  · next v hv => exact KindMono.setJob (v := { v with ph := ph }) hv rfl rfl
  · exact KindMono.refl s a

theorem KindMono.trans_same {s X Y : State} {a : Nat} (h1 : X.jobs = s.jobs) (h2 : KindMono X Y a) (hpc : X.pcAt a = s.pcAt a) : KindMono s Y a := by
  intro j jb hj
  rcases h2 j jb hj with ⟨jb0, a1, a2, a3⟩ | a1 | a1
  · exact Or.inl ⟨jb0, by rw [← h1]; exact a1, a2, a3⟩
  · exact Or.inr (Or.inl a1)
  · exact Or.inr (Or.inr (by rw [← hpc]; exact a1))

theorem KindMono.append {s X : State} {a : Nat} {l : List Job} (hX : X.jobs = s.jobs ++ l)
    (hl : ∀ x ∈ l, x.kind.plainK = true ∨ (x.q, x.kind) ∈ (s.pcAt a).dsPushes) : KindMono s X a := by
  intro j jb hj
  rw [hX] at hj
  by_cases hlt : j < s.jobs.length
  · rw [List.getElem?_append_left hlt] at hj
    exact Or.inl ⟨jb, hj, rfl, rfl⟩
  · rw [List.getElem?_append_right (by omega)] at hj
    exact Or.inr (hl jb (List.mem_of_getElem? hj))

theorem KindMono.dequeue (s : State) (q a b : Nat) : KindMono s (s.dequeue q b).1 a := by
  cases hd : (s.dequeue q b).2 with
  | none => rw [Desync.dequeue_none hd]; exact KindMono.refl s a
  | some j =>
    obtain ⟨v, rest, hv, hjobs, hX⟩ := dequeue_some hd
    rw [hX]
    exact KindMono.trans_same (X := s.setQ q { v with jobs := rest }) rfl (KindMono.setJobPh _ a j _) rfl

theorem KindMono.goto_of {s Y : State} {a b : Nat} {pc : Pc} (h : KindMono s Y a) : KindMono s (Y.goto b pc) a := KindMono.upd h (by simp)
theorem KindMono.setAct_of {s Y : State} {a b : Nat} {v : Act} (h : KindMono s Y a) : KindMono s (Y.setAct b v) a := KindMono.upd h (by simp)
theorem KindMono.setHolder_of {s Y : State} {a q : Nat} {x : Option Nat} (h : KindMono s Y a) : KindMono s (Y.setHolder q x) a := KindMono.upd h (by simp)
theorem KindMono.setQState_of {s Y : State} {a q : Nat} {st : QState} (h : KindMono s Y a) : KindMono s (Y.setQState q st) a := KindMono.upd h (by simp)
theorem KindMono.setQ_of {s Y : State} {a q : Nat} {v : JobQ} (h : KindMono s Y a) : KindMono s (Y.setQ q v) a := KindMono.upd h (by simp)
theorem KindMono.pushBack_of {s Y : State} {a q j : Nat} (h : KindMono s Y a) : KindMono s (Y.pushBack q j) a := KindMono.upd h (by simp)

theorem KindMono.setJob_upd {s Z : State} {a j : Nat} {b v : Job} (hZ : Z.jobs = (s.setJob j v).jobs) (hb : s.jobs[j]? = some b) (hq : v.q = b.q)
    (hk : v.kind = b.kind) : KindMono s Z a :=
  KindMono.upd (KindMono.setJob hb hq hk) hZ

theorem KindMono.append_upd {s Z : State} {a : Nat} {l : List Job} (hZ : Z.jobs = s.jobs ++ l)
    (hl : ∀ x ∈ l, x.kind.plainK = true ∨ (x.q, x.kind) ∈ (s.pcAt a).dsPushes) : KindMono s Z a := KindMono.append hZ hl

end Desync
