/-
I_job is preserved by every internal step.
-/
import DesyncModel.Inv.JobCases

namespace Desync
open Gen

set_option hygiene false in
macro "job_side" : tactic => `(tactic| first
      | (intro b; (try simp only [pcAt_setQ, pcAt_setJob, pcAt_setHolder, pcAt_setWoken, pcAt_notify, pcAt_setPThr, pcAt_setFut, pcAt_setGate,
                             pcAt_takeReady, pcAt_dropReady, pcAt_setJobPh, pcAt_pushFront, pcAt_pushBack, pcAt_setQState, pcAt_dequeue]); first | done | rfl)
      | (intro i; (try simp only [jobPQ_setQ, jobPQ_setFut, jobPQ_setGate, jobPQ_setAct, jobPQ_setSf, jobPQ_setPThr, jobPQ_setHolder, jobPQ_takeReady,
                             jobPQ_dropReady, jobPQ_setWoken, jobPQ_notify, jobPQ_setQState, jobPQ_pushBack, jobPQ_pushFront]);
           first | done | rfl | (apply jobPQ_setJob_keep <;> first | assumption | rfl))
      | (intro i; (try simp only [qjobs_setJob, qjobs_setFut, qjobs_setGate, qjobs_setAct, qjobs_setSf, qjobs_setPThr, qjobs_setHolder, qjobs_takeReady,
                             qjobs_dropReady, qjobs_setWoken, qjobs_notify, qjobs_setQState, qjobs_setJobPh]);
           first | done | rfl | (apply qjobs_setQ_keep <;> first | assumption | rfl))
      -- begun flags: unchanged, or changed only for a job in the hands of a runner
      | (intro i hi;
         (try simp only [jobB_setQ, jobB_setFut, jobB_setGate, jobB_setAct, jobB_setSf, jobB_setPThr, jobB_setHolder, jobB_takeReady,
                         jobB_dropReady, jobB_setWoken, jobB_notify, jobB_setQState, jobB_pushBack, jobB_pushFront, jobB_setJobPh] at hi);
         exact Or.inl hi)
      | (intro i; (try simp only [jobB_setQ, jobB_setFut, jobB_setGate, jobB_setAct, jobB_setSf, jobB_setPThr, jobB_setHolder, jobB_takeReady,
                         jobB_dropReady, jobB_setWoken, jobB_notify, jobB_setQState, jobB_pushBack, jobB_pushFront, jobB_setJobPh]);
         revert i;
         first
         | (apply hb_setJob_keep <;> first | assumption | rfl)
         | (apply hb_setJob_held <;> first | assumption | exact ⟨a, _, h.run1 a _ _ (by rw [hpca, ‹act.pc = _›]; rfl)⟩))
      -- ended flags are never reset
      | (intro i hi;
         (try simp only [jobE_setQ, jobE_setFut, jobE_setGate, jobE_setAct, jobE_setSf, jobE_setPThr, jobE_setHolder, jobE_takeReady,
                         jobE_dropReady, jobE_setWoken, jobE_notify, jobE_setQState, jobE_pushBack, jobE_pushFront, jobE_setJobPh]);
         first
         | exact hi
         | (revert i; apply he_setJob <;> first | assumption | (intro hk; first | exact hk | rfl)))
      | rfl
      | (simp only [jobs_length_setJob]; done)
      | (simp; done)
      | ((rw [hpca, ‹act.pc = _›]) <;> (simp only [Pc.runningQ, runningQ_ctxPending, Ctx.q]; done))
      | ((rw [hpca, ‹act.pc = _›]) <;> (simp only [Pc.runningQ, runningQ_ctxPending, Ctx.q]; rename_i c _ _; cases c <;> rfl)))

set_option maxHeartbeats 4000000 in
set_option maxRecDepth 8000 in
theorem fullInv_stepAct {s s' : State} {a : Nat} {o : Obs} (hh : HolderInv s) (hw : WfInv s) (h : FullInv s)
    (hs : stepAct s a = some (s', o)) : FullInv s' := by
  have hs0 := hs
  have hx := heldExcl_of hh hw h.job
  unfold stepAct at hs
  split at hs
  · simp at hs
  next act ha =>
  split at hs
  · simp at hs
  next hchild =>
  have hlt : a < s.acts.length := lt_of_getElem?_some ha
  have hpca := pcAt_of ha
  have hc : act.child = none := by
    cases hcc : act.child <;> simp_all
  split at hs
  all_goals (try (simp at hs; done))
  all_goals (try (first
      | exact j_rjDequeue hw h hx act ha hc _ _ (by assumption) hs0
      | exact j_pdDequeue h hx act ha hc _ _ (by assumption) hs0
      | exact j_dqDequeue h hx act ha hc _ _ (by assumption) hs0
      | exact j_pdRequeue hh hw h hx act ha hc _ _ _ (by assumption) hs0
      | exact j_dqRequeue hh hw h hx act ha hc _ _ _ _ (by assumption) hs0
      | exact j_jobDrop hw h hx act ha hc _ _ _ (by assumption) hs0
      | exact j_jobDropNotify hw h hx act ha hc _ _ _ (by assumption) hs0
      | exact j_siIdle h hx act ha hc _ _ (by assumption) hs0
      | exact j_rjPending h hx act ha hc _ _ _ (by assumption) hs0
      | exact j_rjParkCheck h hx act ha hc _ _ _ (by assumption) hs0
      | exact j_syDecide hh hw h hx act ha hc _ _ (by assumption) hs0
      | exact j_tsDecide hh hw h hx act ha hc _ _ (by assumption) hs0
      | exact j_dsPush h hx act ha hc _ _ (by assumption) hs0
      | exact j_sdPush hh h hx act ha hc _ _ (by assumption) hs0
      | exact j_sbPush h hx act ha hc _ _ (by assumption) hs0
      | exact j_stSpawn h hx act ha hc _ _ (by assumption) hs0
      | exact j_sbPrune h hx act ha hc _ (by assumption) hs0
      | exact j_ptPop h hx act ha hc _ (by assumption) hs0))
  all_goals (try dsimp only at hs)
  all_goals (repeat' split at hs)
  all_goals (try (simp at hs; done))
  all_goals (try (simp only [Option.some.injEq, Prod.mk.injEq] at hs; obtain ⟨rfl, _⟩ := hs))
  all_goals (first
      | ((refine FullInv.frame h hx ?_ ?_ ?_ ?_ ?_ ?_ ?_) <;> job_side)
      | ((refine FullInv.frame_setAct h hx ?_ ?_ ?_ ?_ ?_ ?_ ?_) <;> job_side)
      | skip)



end Desync
