/-
I_job is preserved by every internal step.
-/
import DesyncModel.Inv.JobCases

namespace Desync
open Gen

set_option hygiene false in
macro "job_side" : tactic => `(tactic| first
      | (intro b; (try simp only [pcAt_setQ, pcAt_setJob, pcAt_setHolder, pcAt_setWoken, pcAt_notify, pcAt_setPThr, pcAt_setFut, pcAt_setGate,
                             pcAt_takeReady, pcAt_dropReady, pcAt_setJobPh, pcAt_pushFront, pcAt_pushBack, pcAt_setQState, pcAt_dequeue]); first | done | rfl)
      | (intro i; (try simp only [jobPQ_setQ, jobPQ_setFut, jobPQ_setGate, jobPQ_setAct, jobPQ_setSf, jobPQ_setPThr, jobPQ_setHolder, jobPQ_takeReady,
                             jobPQ_dropReady, jobPQ_setWoken, jobPQ_notify, jobPQ_setQState, jobPQ_pushBack, jobPQ_pushFront]);
           first | done | rfl | (apply jobPQ_setJob_keep <;> first | assumption | rfl))
      | (intro i; (try simp only [qjobs_setJob, qjobs_setFut, qjobs_setGate, qjobs_setAct, qjobs_setSf, qjobs_setPThr, qjobs_setHolder, qjobs_takeReady,
                             qjobs_dropReady, qjobs_setWoken, qjobs_notify, qjobs_setQState, qjobs_setJobPh]);
           first | done | rfl | (apply qjobs_setQ_keep <;> first | assumption | rfl))
      | (intro i hi;
         (try simp only [jobOpen_setQ, jobOpen_setFut, jobOpen_setGate, jobOpen_setAct, jobOpen_setSf, jobOpen_setPThr, jobOpen_setHolder, jobOpen_takeReady,
                         jobOpen_dropReady, jobOpen_setWoken, jobOpen_notify, jobOpen_setQState, jobOpen_pushBack, jobOpen_pushFront, jobOpen_setJobPh] at hi);
         exact Or.inl hi)
      | (intro i; (try simp only [jobOpen_setQ, jobOpen_setFut, jobOpen_setGate, jobOpen_setAct, jobOpen_setSf, jobOpen_setPThr, jobOpen_setHolder, jobOpen_takeReady,
                         jobOpen_dropReady, jobOpen_setWoken, jobOpen_notify, jobOpen_setQState, jobOpen_pushBack, jobOpen_pushFront, jobOpen_setJobPh]);
         revert i;
         first
         | (apply ho_setJob_keep <;> first | assumption | exact ⟨rfl, rfl⟩)
         | (apply ho_setJob_held <;> first | assumption | exact ⟨a, _, h.run1 a _ _ (by rw [hpca, ‹act.pc = _›]; rfl)⟩))
      | ((rw [hpca, ‹act.pc = _›]) <;> (simp only [Pc.runningQ, runningQ_ctxPending, Ctx.q]; done))
      | ((rw [hpca, ‹act.pc = _›]) <;> (simp only [Pc.runningQ, runningQ_ctxPending, Ctx.q]; rename_i c _ _; cases c <;> rfl)))

set_option maxHeartbeats 4000000 in
set_option maxRecDepth 8000 in
theorem jobInv_stepAct {s s' : State} {a : Nat} {o : Obs} (hh : HolderInv s) (hw : WfInv s) (h : JobInv s)
    (hs : stepAct s a = some (s', o)) : JobInv s' := by
  have hs0 := hs
  unfold stepAct at hs
  split at hs
  · simp at hs
  next act ha =>
  split at hs
  · simp at hs
  next hchild =>
  have hlt : a < s.acts.length := lt_of_getElem?_some ha
  have hpca := pcAt_of ha
  have hc : act.child = none := by
    cases hcc : act.child <;> simp_all
  split at hs
  all_goals (try (simp at hs; done))
  all_goals (try (first
      | exact j_rjDequeue hw h act ha hc _ _ (by assumption) hs0
      | exact j_pdDequeue h act ha hc _ _ (by assumption) hs0
      | exact j_dqDequeue h act ha hc _ _ (by assumption) hs0
      | exact j_pdRequeue hh hw h act ha hc _ _ _ (by assumption) hs0
      | exact j_dqRequeue hh hw h act ha hc _ _ _ _ (by assumption) hs0
      | exact j_jobDrop hw h act ha hc _ _ _ (by assumption) hs0
      | exact j_jobDropNotify hw h act ha hc _ _ _ (by assumption) hs0
      | exact j_siIdle h act ha hc _ _ (by assumption) hs0
      | exact j_rjPending h act ha hc _ _ _ (by assumption) hs0
      | exact j_rjParkCheck h act ha hc _ _ _ (by assumption) hs0
      | exact j_syDecide h act ha hc _ _ (by assumption) hs0
      | exact j_tsDecide h act ha hc _ _ (by assumption) hs0
      | exact j_dsPush h act ha hc _ _ (by assumption) hs0
      | exact j_sdPush hh h act ha hc _ _ (by assumption) hs0
      | exact j_sbPush h act ha hc _ _ (by assumption) hs0
      | exact j_stSpawn h act ha hc _ _ (by assumption) hs0
      | exact j_sbPrune h act ha hc _ (by assumption) hs0
      | exact j_ptPop h act ha hc _ (by assumption) hs0))
  all_goals (try dsimp only at hs)
  all_goals (repeat' split at hs)
  all_goals (try (simp at hs; done))
  all_goals (try (simp only [Option.some.injEq, Prod.mk.injEq] at hs; obtain ⟨rfl, _⟩ := hs))
  all_goals (first
      | ((refine JobInv.frame h ?_ ?_ ?_ ?_ ?_) <;> job_side)
      | ((refine JobInv.frame_setAct h ?_ ?_ ?_ ?_ ?_) <;> job_side)
      | skip)


end Desync
