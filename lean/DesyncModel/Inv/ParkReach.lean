/-
I_park holds in every reachable state.
-/
import DesyncModel.Inv.ParkStep
import DesyncModel.Inv.HolderReach

namespace Desync
open Gen

theorem ParkInv.same {s X : State} (h : ParkInv s) (hqs : X.qs = s.qs) (hsch : X.schedule = s.schedule)
    (hpc : ∀ b q, (s.pcAt b).parks q = true → (X.pcAt b).parks q = true) : ParkInv X := by
  refine ⟨?_⟩
  intro q hp
  rw [qSt_congr hqs] at hp
  obtain ⟨b, h1⟩ := h.park q hp
  exact ⟨b, hpc b q h1⟩

theorem parkInv_init (nq ng max : Nat) : ParkInv (initState nq ng max) := by
  refine ⟨?_⟩
  intro q hs
  simp only [initState, State.qSt, List.getElem?_replicate] at hs
  split at hs <;> simp at hs

theorem parkInv_initP (ps : List Bool) (ng max : Nat) : ParkInv (initStateP ps ng max) := by
  refine ⟨?_⟩
  intro q hs
  rcases qSt_initP hs with h | h <;> cases h

theorem parkInv_setChild {s : State} (h : ParkInv s) (p : Nat) (c : Option Nat) :
    ParkInv (match s.acts[p]? with | some pv => s.setAct p { pv with child := c } | none => s) := by
  split
  · next pv hpv =>
    exact ParkInv.same h rfl rfl (fun b q hp => by rw [pcAt_setAct_samepc _ p pv { pv with child := c } hpv rfl]; exact hp)
  · exact h

theorem parkInv_addAct {s0 : State} (h0 : ParkInv s0) (t : Nat) (parent : Option Nat) (pc : Pc) (once : Bool) :
    ParkInv (addAct s0 t parent pc once).1 := by
  let n : Act := { thread := t, pc := pc, parent := parent, child := none, woken := false, result := none, mode := .await, once := once }
  have h1 : ParkInv ({ s0 with acts := s0.acts ++ [n], nextOp := s0.nextOp + 1 } : State) := by
    refine ParkInv.same h0 rfl rfl ?_
    intro b q hp
    have hb : b < s0.acts.length := by
      by_cases hb : b < s0.acts.length
      · exact hb
      · have h1 : s0.acts[b]? = none := List.getElem?_eq_none (Nat.le_of_not_lt hb)
        have : s0.pcAt b = .dead := by simp [State.pcAt, h1]
        rw [this] at hp; simp [Pc.parks] at hp
    simp only [State.pcAt, List.getElem?_append_left hb]
    exact hp
  unfold addAct
  cases parent with
  | none => exact h1
  | some p =>
    simp only
    have := parkInv_setChild h1 p (some s0.acts.length)
    split
    · next pv hpv => simp only [n, hpv] at this; exact this
    · exact h1

theorem parkInv_invoke {s s' : State} {t a : Nat} {parent : Option Nat} {c : Call} (h : ParkInv s)
    (hs : invoke s t parent c = some (s', a)) : ParkInv s' := by
  unfold invoke at hs
  cases c <;> simp only at hs
  all_goals (repeat' split at hs)
  all_goals (try (simp at hs; done))
  all_goals (
    have hs' := congrArg Prod.fst (Option.some.inj hs)
    simp only at hs'
    subst hs'
    refine parkInv_addAct ?_ t parent _ _
    first
      | exact h
      | exact ParkInv.same h rfl rfl (fun b q hp => hp)
      | (refine ParkInv.same h ?_ ?_ (fun b q hp => ?_) <;> first | rfl | exact hp | (simp; done) | (split <;> (try split) <;> first | rfl | exact hp | (simp; done))))

theorem parkInv_goto_nopush {s : State} {a : Nat} {act : Act} (h : ParkInv s) (ha : s.acts[a]? = some act) (pc' : Pc)
    (hno : ∀ q, act.pc.parks q = false) : ParkInv (s.goto a pc') := by
  refine ParkInv.same h (by simp) (by simp) ?_
  intro b q hp
  by_cases hba : b = a
  · subst hba; rw [pcAt_of ha, hno] at hp; cases hp
  · rw [pcAt_goto_ne _ hba]; exact hp

theorem parkInv_bodyEnd {s s' : State} {a : Nat} {o : Obs} (h : ParkInv s) (hs : bodyEnd s a = some (s', o)) : ParkInv s' := by
  unfold bodyEnd at hs
  split at hs
  · next act ha =>
    split at hs
    · simp at hs
    · split at hs
      · next op k hpc =>
        obtain ⟨rfl, _⟩ := Prod.mk.inj (Option.some.inj hs)
        exact parkInv_goto_nopush h ha _ (by intro q; rw [hpc]; rfl)
      · simp at hs
  · simp at hs

theorem parkInv_spuriousUnpark {s s' : State} {a : Nat} {o : Obs} (h : ParkInv s) (hs : spuriousUnpark s a = some (s', o)) : ParkInv s' := by
  unfold spuriousUnpark at hs
  split at hs
  · next act ha =>
    split at hs
    · next q j k hpc =>
      obtain ⟨rfl, _⟩ := Prod.mk.inj (Option.some.inj hs)
      refine ParkInv.same h (by simp) (by simp) ?_
      intro b q' hp
      by_cases hba : b = a
      · subst hba
        rw [pcAt_of ha, hpc] at hp
        rw [pcAt_goto_self _ (lt_of_getElem?_some ha)]
        simpa [Pc.parks] using hp
      · rw [pcAt_goto_ne _ hba]; exact hp
    · simp at hs
  · simp at hs

theorem parkInv_spuriousPoll {s s' : State} {a : Nat} (h : ParkInv s) (hs : spuriousPoll s a = some s') : ParkInv s' := by
  unfold spuriousPoll at hs
  split at hs
  · next act ha =>
    split at hs
    · next f hpc => cases Option.some.inj hs; exact parkInv_goto_nopush h ha _ (by intro q; rw [hpc]; rfl)
    · next u hpc => cases Option.some.inj hs; exact parkInv_goto_nopush h ha _ (by intro q; rw [hpc]; rfl)
    · simp at hs
  · simp at hs

theorem parkInv_ret {s s' : State} {a r : Nat} (h : ParkInv s) (hs : retStep s a = some (s', r)) : ParkInv s' := by
  unfold retStep at hs
  split at hs
  · next act ha =>
    split at hs
    · next hpc =>
      obtain ⟨rfl, _⟩ := Prod.mk.inj (Option.some.inj hs)
      have h1 : ParkInv (s.setAct a { act with pc := .dead }) := by
        refine ParkInv.same h rfl rfl ?_
        intro b q hp
        by_cases hba : b = a
        · subst hba; rw [pcAt_of ha, hpc] at hp; simp [Pc.parks] at hp
        · rw [pcAt_setAct_ne _ hba]; exact hp
      split
      · next p hp => exact parkInv_setChild h1 p none
      · exact h1
    · simp at hs
  · simp at hs

/-- **I_park holds in every reachable state.** -/
theorem parkInv_reachable {s : State} (hr : Reachable s) : ParkInv s := by
  induction hr with
  | init nq ng max => exact parkInv_init nq ng max
  | initP ps ng max => exact parkInv_initP ps ng max
  | step l hprev hstep ih =>
    cases l with
    | act a =>
      simp only [next, Option.map_eq_some_iff] at hstep
      obtain ⟨⟨s1, o⟩, hs, rfl⟩ := hstep
      exact parkInv_stepAct ih hs
    | invoke t parent c =>
      simp only [next] at hstep
      split at hstep
      · simp only [Option.map_eq_some_iff] at hstep
        obtain ⟨⟨s1, a⟩, hs, rfl⟩ := hstep
        exact parkInv_invoke ih hs
      · simp at hstep
    | bodyEnd a =>
      simp only [next, Option.map_eq_some_iff] at hstep
      obtain ⟨⟨s1, o⟩, hs, rfl⟩ := hstep
      exact parkInv_bodyEnd ih hs
    | ret a =>
      simp only [next, Option.map_eq_some_iff] at hstep
      obtain ⟨⟨s1, r⟩, hs, rfl⟩ := hstep
      exact parkInv_ret ih hs
    | spuriousUnpark a =>
      simp only [next, Option.map_eq_some_iff] at hstep
      obtain ⟨⟨s1, o⟩, hs, rfl⟩ := hstep
      exact parkInv_spuriousUnpark ih hs
    | spuriousPoll a =>
      simp only [next] at hstep
      exact parkInv_spuriousPoll ih hstep

end Desync
