/-
An activity never changes thread: `threadOf` is constant along internal steps.
-/
import DesyncModel.Inv.WakeStep

namespace Desync
open Gen

theorem threadOf_setAct (s : State) (a b : Nat) (v : Act) :
    (s.setAct a v).threadOf b = if a = b ∧ a < s.acts.length then v.thread else s.threadOf b := by
  simp only [State.threadOf, State.setAct, List.getElem?_set]
  by_cases hab : a = b
  · subst hab
    by_cases hlt : a < s.acts.length
    · simp [hlt]
    · simp [hlt]
  · simp [hab]

theorem threadOf_of {s : State} {a : Nat} {act : Act} (ha : s.acts[a]? = some act) : s.threadOf a = act.thread := by
  simp [State.threadOf, ha]

theorem threadOf_setAct_same (s : State) (a : Nat) (pv v : Act) (hp : s.acts[a]? = some pv) (hv : v.thread = pv.thread) (b : Nat) :
    (s.setAct a v).threadOf b = s.threadOf b := by
  rw [threadOf_setAct]
  split
  · next e => rw [← e.1, threadOf_of hp, hv]
  · rfl

@[simp] theorem threadOf_goto (s : State) (a : Nat) (pc : Pc) (b : Nat) : (s.goto a pc).threadOf b = s.threadOf b := by
  unfold State.goto
  split
  · next v hv => exact threadOf_setAct_same s a v { v with pc := pc } hv rfl b
  · rfl

@[simp] theorem threadOf_setQ (s : State) (q : Nat) (v : JobQ) (b : Nat) : (s.setQ q v).threadOf b = s.threadOf b := rfl
@[simp] theorem threadOf_setJob (s : State) (j : Nat) (v : Job) (b : Nat) : (s.setJob j v).threadOf b = s.threadOf b := rfl
@[simp] theorem threadOf_setHolder (s : State) (q : Nat) (h : Option Nat) (b : Nat) : (s.setHolder q h).threadOf b = s.threadOf b := rfl
@[simp] theorem threadOf_setPThr (s : State) (p : Nat) (v : PThr) (c : Nat) : (s.setPThr p v).threadOf c = s.threadOf c := rfl
@[simp] theorem threadOf_setFut (s : State) (f : Nat) (v : Fut) (c : Nat) : (s.setFut f v).threadOf c = s.threadOf c := rfl
@[simp] theorem threadOf_setGate (s : State) (g : Nat) (v : Gate) (c : Nat) : (s.setGate g v).threadOf c = s.threadOf c := rfl
@[simp] theorem threadOf_setSf (s : State) (u : Nat) (v : SyncFut) (c : Nat) : (s.setSf u v).threadOf c = s.threadOf c := rfl
@[simp] theorem threadOf_takeReady (s : State) (w a c : Nat) : (s.takeReady w a).threadOf c = s.threadOf c := rfl
@[simp] theorem threadOf_dropReady (s : State) (w c : Nat) : (s.dropReady w).threadOf c = s.threadOf c := rfl
@[simp] theorem threadOf_newJob (s : State) (q : Nat) (k : JobKind) (c : Nat) : (s.newJob q k).1.threadOf c = s.threadOf c := rfl
@[simp] theorem threadOf_setJobPh (s : State) (j : Nat) (ph : Phase) (c : Nat) : (s.setJobPh j ph).threadOf c = s.threadOf c := by
  simp [State.threadOf]
@[simp] theorem threadOf_pushFront (s : State) (q j c : Nat) : (s.pushFront q j).threadOf c = s.threadOf c := by simp [State.threadOf]
@[simp] theorem threadOf_pushBack (s : State) (q j c : Nat) : (s.pushBack q j).threadOf c = s.threadOf c := by simp [State.threadOf]
@[simp] theorem threadOf_setQState (s : State) (q : Nat) (st : QState) (c : Nat) : (s.setQState q st).threadOf c = s.threadOf c := by simp [State.threadOf]
@[simp] theorem threadOf_dequeue (s : State) (q a c : Nat) : (s.dequeue q a).1.threadOf c = s.threadOf c := by
  simp [State.threadOf, dequeue_acts]
@[simp] theorem threadOf_setWoken (s : State) (a : Nat) (b : Bool) (c : Nat) : (s.setWoken a b).threadOf c = s.threadOf c := by
  unfold State.setWoken
  split
  · next v hv => exact threadOf_setAct_same s a v { v with woken := b } hv rfl c
  · rfl
@[simp] theorem threadOf_notify (s : State) (w c : Nat) : (s.notify w).threadOf c = s.threadOf c := by
  unfold State.notify
  split
  · next v hv =>
    split
    · exact threadOf_setAct_same s w v { v with woken := true } hv rfl c
    · rfl
  · rfl

set_option maxHeartbeats 4000000 in
set_option maxRecDepth 8000 in
theorem threadOf_stepAct {s s' : State} {a : Nat} {o : Obs} (hs : stepAct s a = some (s', o)) :
    ∀ b, b < s.acts.length → s'.threadOf b = s.threadOf b := by
  unfold stepAct at hs
  split at hs
  · simp at hs
  next act ha =>
  split at hs
  · simp at hs
  next hchild =>
  have hta := threadOf_of ha
  split at hs
  all_goals (try (simp at hs; done))
  all_goals (try dsimp only at hs)
  all_goals (repeat' split at hs)
  all_goals (try (simp at hs; done))
  all_goals (try (simp only [Option.some.injEq, Prod.mk.injEq] at hs; obtain ⟨rfl, _⟩ := hs))
  all_goals (intro b hb)
  all_goals (first
    | rfl
    | (simp only [threadOf_goto, threadOf_setQ, threadOf_setJob, threadOf_setHolder, threadOf_setPThr, threadOf_setFut, threadOf_setGate,
        threadOf_setSf, threadOf_takeReady, threadOf_dropReady, threadOf_newJob, threadOf_setJobPh, threadOf_pushFront, threadOf_pushBack,
        threadOf_setQState, threadOf_dequeue, threadOf_setWoken, threadOf_notify]; done)
    | (simp only [threadOf_goto, threadOf_setQ, threadOf_setJob, threadOf_setHolder, threadOf_setPThr, threadOf_setFut, threadOf_setGate,
        threadOf_setSf, threadOf_takeReady, threadOf_dropReady, threadOf_newJob, threadOf_setJobPh, threadOf_pushFront, threadOf_pushBack,
        threadOf_setQState, threadOf_dequeue, threadOf_setWoken, threadOf_notify]; rfl)
    | (simp only [threadOf_goto, threadOf_setQ, threadOf_setJob, threadOf_setHolder, threadOf_setPThr, threadOf_setFut, threadOf_setGate,
        threadOf_setSf, threadOf_takeReady, threadOf_dropReady, threadOf_newJob, threadOf_setJobPh, threadOf_pushFront, threadOf_pushBack,
        threadOf_setQState, threadOf_dequeue, threadOf_setWoken, threadOf_notify, threadOf_setAct]
       split
       · next e => rw [← e.1]; exact hta.symm
       · first | rfl | (simp [State.threadOf]; done))
    | (simp only [threadOf_goto]; simp [State.threadOf, List.getElem?_append_left hb]; done)
    | (simp only [threadOf_goto]; simp [State.threadOf, dequeue_acts]; done)
    | skip)

end Desync
