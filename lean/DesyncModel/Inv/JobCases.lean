/-
I_job, the steps that do something to a job: dequeue, requeue, finish/destroy, sync_immediate, scheduling a new job.
-/
import DesyncModel.Inv.JobInv
import DesyncModel.Tables.Sync
import DesyncModel.Tables.TrySync
namespace Desync
open Gen

theorem goto_congr {X Y : State} (a : Nat) (pc : Pc) (hA : X.acts = Y.acts) :
    (X.goto a pc).acts = (Y.goto a pc).acts := by
  unfold State.goto
  rw [hA]
  split <;> simp [State.setAct, hA]

theorem jobs_goto' (X : State) (a : Nat) (pc : Pc) : (X.goto a pc).jobs = X.jobs := by unfold State.goto; split <;> rfl
theorem qs_goto' (X : State) (a : Nat) (pc : Pc) : (X.goto a pc).qs = X.qs := by unfold State.goto; split <;> rfl

theorem FullInv.dequeue_take {s : State} {a q j : Nat} {pc' : Pc} (h : FullInv s) (hlt : a < s.acts.length)
    (hidle : (s.pcAt a).runningQ = none) (hd : (s.dequeue q a).2 = some j) (hnew : pc'.runningQ = some (j, q)) :
    FullInv ((s.dequeue q a).1.goto a pc') := by
  obtain ⟨v, rest, hv, hjobs, hX⟩ := dequeue_some hd
  rw [hX]
  have hqj : s.qjobs q = some (j :: rest) := by rw [qjobs_of hv, hjobs]
  have hjq := h.queued q _ j hqj (by simp)
  obtain ⟨b, hb, hbph, hbq⟩ := jobPQ_some hjq
  refine FullInv.take h ?_ ?_ hidle hqj ?_ ?_ ?_ ?_ ?_ hnew
  · simpa using hlt
  · intro c; simp
  · intro i
    rw [jobPQ_setJobPh_of (b := b) (by simpa using hb)]
    simp [hbq]
  · intro i
    rw [qjobs_setJobPh, qjobs_setQ_of hv]
  · intro i; simp
  · intro i; simp
  · simp

theorem FullInv.dequeue_none {s : State} {a q : Nat} {pc' : Pc} (h : FullInv s) (hx : HeldExcl s.jobPQ)
    (hd : (s.dequeue q a).2 = none) (hrun : pc'.runningQ = (s.pcAt a).runningQ) :
    FullInv ((s.dequeue q a).1.goto a pc') := by
  rw [Desync.dequeue_none hd]
  exact FullInv.frame h hx (fun _ => rfl) (fun _ => rfl) (fun _ => rfl) (fun _ hi => Or.inl hi) (fun _ hi => hi) rfl hrun

theorem j_rjDequeue {s s' : State} {a : Nat} {o : Obs} (hw : WfInv s) (h : FullInv s) (hx : HeldExcl s.jobPQ) (act : Act) (ha : s.acts[a]? = some act) (hc : act.child = none)
    (q : Nat) (k : Pc) (hpc : act.pc = .rjDequeue q k) (hs : stepAct s a = some (s', o)) : FullInv s' := by
  have hlt : a < s.acts.length := lt_of_getElem?_some ha
  have hpca := pcAt_of ha
  have hwk := hw a
  rw [hpca, hpc] at hwk
  simp only [Pc.callerOk] at hwk
  have hidle : (s.pcAt a).runningQ = none := by rw [hpca, hpc]; rfl
  unfold stepAct at hs
  simp only [ha, hc, hpc, Option.isSome_none, Bool.false_eq_true, ↓reduceIte] at hs
  cases hd : (s.dequeue q a).2 with
  | some j =>
    simp only [hd, Option.some.injEq, Prod.mk.injEq] at hs; obtain ⟨rfl, _⟩ := hs
    exact FullInv.dequeue_take h hlt hidle hd (by simp [Pc.runningQ, Ctx.q])
  | none =>
    simp only [hd, Option.some.injEq, Prod.mk.injEq] at hs; obtain ⟨rfl, _⟩ := hs
    exact FullInv.dequeue_none h hx hd (by rw [hidle]; exact plainFor_running hwk)

theorem j_pdDequeue {s s' : State} {a : Nat} {o : Obs} (h : FullInv s) (hx : HeldExcl s.jobPQ) (act : Act) (ha : s.acts[a]? = some act) (hc : act.child = none)
    (p q : Nat) (hpc : act.pc = .pdDequeue p q) (hs : stepAct s a = some (s', o)) : FullInv s' := by
  have hlt : a < s.acts.length := lt_of_getElem?_some ha
  have hpca := pcAt_of ha
  have hidle : (s.pcAt a).runningQ = none := by rw [hpca, hpc]; rfl
  unfold stepAct at hs
  simp only [ha, hc, hpc, Option.isSome_none, Bool.false_eq_true, ↓reduceIte] at hs
  cases hd : (s.dequeue q a).2 with
  | some j =>
    simp only [hd, Option.some.injEq, Prod.mk.injEq] at hs; obtain ⟨rfl, _⟩ := hs
    exact FullInv.dequeue_take h hlt hidle hd (by simp [Pc.runningQ, Ctx.q])
  | none =>
    simp only [hd, Option.some.injEq, Prod.mk.injEq] at hs; obtain ⟨rfl, _⟩ := hs
    exact FullInv.dequeue_none h hx hd (by rw [hidle]; rfl)

theorem j_dqDequeue {s s' : State} {a : Nat} {o : Obs} (h : FullInv s) (hx : HeldExcl s.jobPQ) (act : Act) (ha : s.acts[a]? = some act) (hc : act.child = none)
    (f q : Nat) (hpc : act.pc = .dqDequeue f q) (hs : stepAct s a = some (s', o)) : FullInv s' := by
  have hlt : a < s.acts.length := lt_of_getElem?_some ha
  have hpca := pcAt_of ha
  have hidle : (s.pcAt a).runningQ = none := by rw [hpca, hpc]; rfl
  unfold stepAct at hs
  simp only [ha, hc, hpc, Option.isSome_none, Bool.false_eq_true, ↓reduceIte] at hs
  cases hd : (s.dequeue q a).2 with
  | some j =>
    simp only [hd, Option.some.injEq, Prod.mk.injEq] at hs; obtain ⟨rfl, _⟩ := hs
    have h1 := FullInv.dequeue_take (pc' := .jobStart j (.task f (s.dequeue q a).1.latches.length q) .dead) h hlt hidle hd (by simp [Pc.runningQ, Ctx.q])
    exact FullInv.congr h1 (goto_congr _ _ rfl) (by rw [jobs_goto', jobs_goto']) (by rw [qs_goto', qs_goto'])
  | none =>
    simp only [hd, Option.some.injEq, Prod.mk.injEq] at hs; obtain ⟨rfl, _⟩ := hs
    exact FullInv.dequeue_none h hx hd (by rw [hidle]; rfl)


theorem FullInv.requeue_front {s : State} {a q j : Nat} {pc' : Pc} (hh : HolderInv s) (hw : WfInv s) (h : FullInv s) (hx : HeldExcl s.jobPQ) (hlt : a < s.acts.length)
    (hold : (s.pcAt a).runningQ = some (j, q)) (hnew : pc'.runningQ = none) :
    FullInv (((s.pushFront q j).setJobPh j .queued).goto a pc') := by
  have hjq := h.run1 a j q hold
  obtain ⟨b, hb, hbph, hbq⟩ := jobPQ_some hjq
  -- the queue exists: `a` owns its run right
  have hho := (hh.iff a q).mp (holds_of_runningQ (hw a) hold)
  have hqlt : q < s.qs.length := by
    have := (List.getElem?_eq_some_iff.mp hho).1; rw [hh.len] at this; exact this
  have hv : s.qs[q]? = some s.qs[q] := List.getElem?_eq_getElem hqlt
  refine FullInv.requeue (l0 := s.qs[q].jobs) h hx ?_ ?_ hold (qjobs_of hv) ?_ ?_ ?_ ?_ ?_ hnew
  · simpa using hlt
  · intro c; simp
  · intro i
    have hb' : (s.pushFront q j).jobs[j]? = some b := by
      unfold State.pushFront; split <;> simpa using hb
    rw [jobPQ_setJobPh_of hb']
    simp [hbq]
  · intro i
    rw [qjobs_setJobPh, qjobs_pushFront, qjobs_of hv]; rfl
  · intro i; simp
  · intro i; simp
  · rw [jobs_length_setJobPh]; unfold State.pushFront; split <;> rfl

theorem j_pdRequeue {s s' : State} {a : Nat} {o : Obs} (hh : HolderInv s) (hw : WfInv s) (h : FullInv s) (hx : HeldExcl s.jobPQ) (act : Act) (ha : s.acts[a]? = some act) (hc : act.child = none)
    (p q j : Nat) (hpc : act.pc = .pdRequeue p q j) (hs : stepAct s a = some (s', o)) : FullInv s' := by
  have hlt : a < s.acts.length := lt_of_getElem?_some ha
  have hpca := pcAt_of ha
  unfold stepAct at hs
  simp only [ha, hc, hpc, Option.isSome_none, Bool.false_eq_true, ↓reduceIte] at hs
  simp only [Option.some.injEq, Prod.mk.injEq] at hs; obtain ⟨rfl, _⟩ := hs
  exact FullInv.requeue_front hh hw h hx hlt (by rw [hpca, hpc]; rfl) rfl

theorem j_dqRequeue {s s' : State} {a : Nat} {o : Obs} (hh : HolderInv s) (hw : WfInv s) (h : FullInv s) (hx : HeldExcl s.jobPQ) (act : Act) (ha : s.acts[a]? = some act) (hc : act.child = none)
    (f j l q : Nat) (hpc : act.pc = .dqRequeue f j l q) (hs : stepAct s a = some (s', o)) : FullInv s' := by
  have hlt : a < s.acts.length := lt_of_getElem?_some ha
  have hpca := pcAt_of ha
  unfold stepAct at hs
  simp only [ha, hc, hpc, Option.isSome_none, Bool.false_eq_true, ↓reduceIte] at hs
  simp only [Option.some.injEq, Prod.mk.injEq] at hs; obtain ⟨rfl, _⟩ := hs
  exact FullInv.requeue_front hh hw h hx hlt (by rw [hpca, hpc]; rfl) rfl

/-- the job that `a` runs is finished or destroyed by a `setJob` -/
theorem FullInv.retire_setJob {s X : State} {a q j : Nat} {b v : Job} {pc' : Pc} (h : FullInv s) (hlt : a < X.acts.length)
    (hpc : ∀ c, X.pcAt c = s.pcAt c) (hX : ∀ i, X.jobPQ i = (s.setJob j v).jobPQ i) (hq : ∀ i, X.qjobs i = s.qjobs i)
    (hXb : ∀ i, X.jobB i = (s.setJob j v).jobB i) (hXe : ∀ i, X.jobE i = (s.setJob j v).jobE i) (hn : X.jobs.length = s.jobs.length)
    (hold : (s.pcAt a).runningQ = some (j, q)) (hb : s.jobs[j]? = some b) (hvq : v.q = b.q) (hvph : v.ph = .done) (hve : v.ended = true) (hvb : v.begun = b.begun)
    (hnew : pc'.runningQ = none) : FullInv (X.goto a pc') := by
  have hjq := h.run1 a j q hold
  rw [jobPQ_of hb] at hjq
  simp at hjq
  refine FullInv.retire h hlt hpc hold ?_ hq ?_ ?_ hn hnew
  · intro i
    rw [hX, jobPQ_setJob_of hb, hvph, hvq, hjq.2]
  · intro i
    rw [hXb, jobB_setJob_of hb]
    split
    · next e => rw [e, jobB_of hb, hvb]
    · rfl
  · intro i
    rw [hXe, jobE_setJob_of hb, hve]

theorem ctxReady_running {k : Pc} {c : Ctx} (hw : (match c with | .caller q => k.plainFor q | _ => true) = true) : (ctxReady k c).runningQ = none := by
  cases c <;> simp_all [ctxReady, Pc.runningQ]
  exact plainFor_running hw


theorem j_jobDrop {s s' : State} {a : Nat} {o : Obs} (hw : WfInv s) (h : FullInv s) (hx : HeldExcl s.jobPQ) (act : Act) (ha : s.acts[a]? = some act) (hc : act.child = none)
    (j : Nat) (c : Ctx) (k : Pc) (hpc : act.pc = .jobDrop j c k) (hs : stepAct s a = some (s', o)) : FullInv s' := by
  have hlt : a < s.acts.length := lt_of_getElem?_some ha
  have hpca := pcAt_of ha
  have hwk := hw a
  rw [hpca, hpc] at hwk
  simp only [Pc.callerOk] at hwk
  have hold : (s.pcAt a).runningQ = some (j, c.q) := by rw [hpca, hpc]; rfl
  unfold stepAct at hs
  simp only [ha, hc, hpc, Option.isSome_none, Bool.false_eq_true, ↓reduceIte] at hs
  split at hs
  · simp at hs
  next jb hjb =>
  split at hs
  · split at hs
    · simp at hs
    · simp only [Option.some.injEq, Prod.mk.injEq] at hs; obtain ⟨rfl, _⟩ := hs
      have h1 := FullInv.retire_setJob (X := s.setJob j { jb with ph := .done, ended := true }) (pc' := .jobDropNotify j c k) h (by simpa using hlt) (fun _ => rfl) (fun _ => rfl) (fun _ => rfl) (fun _ => rfl) (fun _ => rfl) (by simp) hold hjb rfl rfl rfl rfl rfl
      exact FullInv.congr h1 (goto_congr _ _ rfl) (by rw [jobs_goto', jobs_goto']) (by rw [qs_goto', qs_goto'])
  · simp only [Option.some.injEq, Prod.mk.injEq] at hs; obtain ⟨rfl, _⟩ := hs
    exact FullInv.retire_setJob h (by simpa using hlt) (fun _ => rfl) (fun _ => rfl) (fun _ => rfl) (fun _ => rfl) (fun _ => rfl) (by simp) hold hjb rfl rfl rfl rfl (ctxReady_running hwk)

theorem j_jobDropNotify {s s' : State} {a : Nat} {o : Obs} (hw : WfInv s) (h : FullInv s) (hx : HeldExcl s.jobPQ) (act : Act) (ha : s.acts[a]? = some act) (hc : act.child = none)
    (j : Nat) (c : Ctx) (k : Pc) (hpc : act.pc = .jobDropNotify j c k) (hs : stepAct s a = some (s', o)) : FullInv s' := by
  have hpca := pcAt_of ha
  have hwk := hw a
  rw [hpca, hpc] at hwk
  simp only [Pc.callerOk] at hwk
  unfold stepAct at hs
  simp only [ha, hc, hpc, Option.isSome_none, Bool.false_eq_true, ↓reduceIte] at hs
  repeat' split at hs
  all_goals (try (simp at hs; done))
  all_goals (simp only [Option.some.injEq, Prod.mk.injEq] at hs; obtain ⟨rfl, _⟩ := hs)
  all_goals (refine FullInv.frame h hx (fun b => by simp) (fun i => by simp) (fun i => by simp) (fun _ hi => Or.inl (by first | exact hi | simpa using hi)) (fun _ hi => by first | exact hi | simpa using hi) (by first | rfl | simp) ?_)
  all_goals (rw [hpca, hpc, ctxReady_running hwk]; rfl)

theorem j_siIdle {s s' : State} {a : Nat} {o : Obs} (h : FullInv s) (hx : HeldExcl s.jobPQ) (act : Act) (ha : s.acts[a]? = some act) (hc : act.child = none)
    (q j : Nat) (hpc : act.pc = .siIdle q j) (hs : stepAct s a = some (s', o)) : FullInv s' := by
  have hlt : a < s.acts.length := lt_of_getElem?_some ha
  have hpca := pcAt_of ha
  have hold : (s.pcAt a).runningQ = some (j, q) := by rw [hpca, hpc]; rfl
  unfold stepAct at hs
  simp only [ha, hc, hpc, Option.isSome_none, Bool.false_eq_true, ↓reduceIte] at hs
  split at hs
  · simp at hs
  next jb hjb =>
  simp only [Option.some.injEq, Prod.mk.injEq] at hs; obtain ⟨rfl, _⟩ := hs
  exact FullInv.retire_setJob (v := { jb with ended := true, ph := .done }) h (by simpa using hlt) (fun b => by simp) (fun i => by simp) (fun i => by simp) (fun i => by simp) (fun i => by simp) (by simp) hold hjb rfl rfl rfl rfl rfl


theorem qjobs_setQ_state {s : State} {q : Nat} {v : JobQ} (hq : s.qs[q]? = some v) (st : QState) (w : List Nat) (i : Nat) :
    (s.setQ q { state := st, jobs := v.jobs, waiters := w }).qjobs i = s.qjobs i :=
  qjobs_setQ_keep (v' := { state := st, jobs := v.jobs, waiters := w }) hq rfl i

theorem j_rjPending {s s' : State} {a : Nat} {o : Obs} (h : FullInv s) (hx : HeldExcl s.jobPQ) (act : Act) (ha : s.acts[a]? = some act) (hc : act.child = none)
    (q j : Nat) (k : Pc) (hpc : act.pc = .rjPending q j k) (hs : stepAct s a = some (s', o)) : FullInv s' := by
  have hlt : a < s.acts.length := lt_of_getElem?_some ha
  have hpca := pcAt_of ha
  have hold : (s.pcAt a).runningQ = some (j, q) := by rw [hpca, hpc]; rfl
  obtain ⟨jb, hjb, _, _⟩ := jobPQ_some (h.run1 a j q hold)
  unfold stepAct at hs
  simp only [ha, hc, hpc, Option.isSome_none, Bool.false_eq_true, ↓reduceIte] at hs
  split at hs
  · simp at hs
  next v hv =>
  split at hs
  · simp only [Option.some.injEq, Prod.mk.injEq] at hs; obtain ⟨rfl, _⟩ := hs
    exact FullInv.frame h hx (fun b => by simp) (fun i => by simp) (fun i => qjobs_setQ_state hv _ _ i) (fun _ hi => Or.inl (by first | exact hi | simpa using hi)) (fun _ hi => by first | exact hi | simpa using hi) (by first | rfl | simp) (by rw [hold]; rfl)
  · split at hs
    · simp only [Option.some.injEq, Prod.mk.injEq] at hs; obtain ⟨rfl, _⟩ := hs
      exact FullInv.frame h hx (fun b => by simp) (fun i => by simp) (fun i => qjobs_setQ_state hv _ _ i) (fun _ hi => Or.inl (by first | exact hi | simpa using hi)) (fun _ hi => by first | exact hi | simpa using hi) (by first | rfl | simp) (by rw [hold]; rfl)
    · have hjb' : (s.setQ q { v with state := (runOnePending v.state).1 }).jobs[j]? = some jb := hjb
      simp only [hjb'] at hs
      simp only [Option.some.injEq, Prod.mk.injEq] at hs; obtain ⟨rfl, _⟩ := hs
      exact FullInv.retire_setJob (v := { jb with ph := .done, ended := true }) h (by simpa using hlt) (fun b => by simp) (fun i => rfl)
        (fun i => by rw [qjobs_setJob]; exact qjobs_setQ_state hv _ _ i) (fun i => rfl) (fun i => rfl) (by simp) hold hjb rfl rfl rfl rfl rfl

theorem j_rjParkCheck {s s' : State} {a : Nat} {o : Obs} (h : FullInv s) (hx : HeldExcl s.jobPQ) (act : Act) (ha : s.acts[a]? = some act) (hc : act.child = none)
    (q j : Nat) (k : Pc) (hpc : act.pc = .rjParkCheck q j k) (hs : stepAct s a = some (s', o)) : FullInv s' := by
  have hlt : a < s.acts.length := lt_of_getElem?_some ha
  have hpca := pcAt_of ha
  have hold : (s.pcAt a).runningQ = some (j, q) := by rw [hpca, hpc]; rfl
  obtain ⟨jb, hjb, _, _⟩ := jobPQ_some (h.run1 a j q hold)
  unfold stepAct at hs
  simp only [ha, hc, hpc, Option.isSome_none, Bool.false_eq_true, ↓reduceIte, hjb] at hs
  split at hs
  · simp only [Option.some.injEq, Prod.mk.injEq] at hs; obtain ⟨rfl, _⟩ := hs
    exact FullInv.frame h hx (fun b => rfl) (fun i => rfl) (fun i => rfl) (fun _ hi => Or.inl (by first | exact hi | simpa using hi)) (fun _ hi => by first | exact hi | simpa using hi) (by first | rfl | simp) (by rw [hold]; rfl)
  · simp only [Option.some.injEq, Prod.mk.injEq] at hs; obtain ⟨rfl, _⟩ := hs
    exact FullInv.frame h hx (fun b => rfl) (fun i => rfl) (fun i => rfl) (fun _ hi => Or.inl (by first | exact hi | simpa using hi)) (fun _ hi => by first | exact hi | simpa using hi) (by first | rfl | simp) (by rw [hold]; rfl)
  · simp only [Option.some.injEq, Prod.mk.injEq] at hs; obtain ⟨rfl, _⟩ := hs
    exact FullInv.retire_setJob (v := { jb with ph := .done, ended := true }) h (by simpa using hlt) (fun b => rfl) (fun i => rfl) (fun i => rfl) (fun i => rfl) (fun i => rfl) (by simp) hold hjb rfl rfl rfl rfl rfl


theorem jobPQ_of_append {Y s : State} {nj : Job} (hJ : Y.jobs = s.jobs ++ [nj]) (i : Nat) :
    Y.jobPQ i = if i = s.jobs.length then some (nj.ph, nj.q) else s.jobPQ i := by
  simp only [State.jobPQ, hJ]
  by_cases h : i = s.jobs.length
  · subst h; simp
  · by_cases hlt : i < s.jobs.length
    · simp [h, List.getElem?_append_left hlt]
    · have h1 : (s.jobs ++ [nj])[i]? = none := by simp; omega
      have h2 : s.jobs[i]? = none := by simp; omega
      simp [h, h1, h2]

theorem j_syDecide {s s' : State} {a : Nat} {o : Obs} (hh : HolderInv s) (hw : WfInv s) (h : FullInv s) (hx : HeldExcl s.jobPQ) (act : Act) (ha : s.acts[a]? = some act) (hc : act.child = none)
    (q : Nat) (b : Body) (hpc : act.pc = .syDecide q b) (hs : stepAct s a = some (s', o)) : FullInv s' := by
  have hlt : a < s.acts.length := lt_of_getElem?_some ha
  have hpca := pcAt_of ha
  have hidle : (s.pcAt a).runningQ = none := by rw [hpca, hpc]; rfl
  unfold stepAct at hs
  simp only [ha, hc, hpc, Option.isSome_none, Bool.false_eq_true, ↓reduceIte] at hs
  split at hs
  · simp at hs
  next v hv =>
  split at hs
  · simp only [Option.some.injEq, Prod.mk.injEq] at hs; obtain ⟨rfl, _⟩ := hs
    have hidleSt : v.state = .idle ∧ v.jobs.isEmpty = true := by first | exact ((syncDecide_immediate_iff _ _).mp ‹_›) | exact ((trySync_immediate_iff _ _).mp ‹_›)
    refine FullInv.newHeld (q := q) h (by simpa using hlt) (fun c => rfl) hidle ?_ ?_ ?_ ?_ ?_ ?_ ?_ (by simp [Pc.runningQ])
    · rw [qjobs_of hv]; simpa using hidleSt.2
    · -- nobody holds a job of an idle queue
      intro j' a' hj'
      have r := h.run2 a' j' q hj'
      have ho := (hh.iff a' q).mp (holds_of_runningQ (hw a') r)
      have := hh.held a' q v ho hv
      rw [hidleSt.1] at this; simp [QState.held] at this
    · intro i; rw [jobPQ_setHolder]; exact jobPQ_of_append (nj := ⟨q, .immediate a b, .held a, true, false, none, false⟩) (by rfl) i
    · intro i; exact qjobs_setQ_state hv _ _ i
    · intro i hi; rw [jobB_setHolder, jobB_of_append (s := s) (nj := ⟨q, .immediate a b, .held a, true, false, none, false⟩) (by rfl)]; simp [hi]
    · intro i hi; rw [jobE_setHolder, jobE_of_append (s := s) (nj := ⟨q, .immediate a b, .held a, true, false, none, false⟩) (by rfl)]; simp [hi]
    · simp
  · split at hs
    · simp only [Option.some.injEq, Prod.mk.injEq] at hs; obtain ⟨rfl, _⟩ := hs
      exact FullInv.frame h hx (fun c => rfl) (fun i => rfl) (fun i => qjobs_setQ_state hv _ _ i) (fun _ hi => Or.inl (by first | exact hi | simpa using hi)) (fun _ hi => by first | exact hi | simpa using hi) (by first | rfl | simp) (by rw [hidle]; rfl)
    · split at hs <;>
      · simp only [Option.some.injEq, Prod.mk.injEq] at hs; obtain ⟨rfl, _⟩ := hs
        exact FullInv.frame h hx (fun c => rfl) (fun i => rfl) (fun i => qjobs_setQ_state hv _ _ i) (fun _ hi => Or.inl (by first | exact hi | simpa using hi)) (fun _ hi => by first | exact hi | simpa using hi) (by first | rfl | simp) (by rw [hidle]; rfl)

theorem j_tsDecide {s s' : State} {a : Nat} {o : Obs} (hh : HolderInv s) (hw : WfInv s) (h : FullInv s) (hx : HeldExcl s.jobPQ) (act : Act) (ha : s.acts[a]? = some act) (hc : act.child = none)
    (q : Nat) (b : Body) (hpc : act.pc = .tsDecide q b) (hs : stepAct s a = some (s', o)) : FullInv s' := by
  have hlt : a < s.acts.length := lt_of_getElem?_some ha
  have hpca := pcAt_of ha
  have hidle : (s.pcAt a).runningQ = none := by rw [hpca, hpc]; rfl
  unfold stepAct at hs
  simp only [ha, hc, hpc, Option.isSome_none, Bool.false_eq_true, ↓reduceIte] at hs
  split at hs
  · simp at hs
  next v hv =>
  split at hs
  · simp only [Option.some.injEq, Prod.mk.injEq] at hs; obtain ⟨rfl, _⟩ := hs
    have hidleSt : v.state = .idle ∧ v.jobs.isEmpty = true := by first | exact ((syncDecide_immediate_iff _ _).mp ‹_›) | exact ((trySync_immediate_iff _ _).mp ‹_›)
    refine FullInv.newHeld (q := q) h (by simpa using hlt) (fun c => rfl) hidle ?_ ?_ ?_ ?_ ?_ ?_ ?_ (by simp [Pc.runningQ])
    · rw [qjobs_of hv]; simpa using hidleSt.2
    · -- nobody holds a job of an idle queue
      intro j' a' hj'
      have r := h.run2 a' j' q hj'
      have ho := (hh.iff a' q).mp (holds_of_runningQ (hw a') r)
      have := hh.held a' q v ho hv
      rw [hidleSt.1] at this; simp [QState.held] at this
    · intro i; rw [jobPQ_setHolder]; exact jobPQ_of_append (nj := ⟨q, .immediate a b, .held a, true, false, none, false⟩) (by rfl) i
    · intro i; exact qjobs_setQ_state hv _ _ i
    · intro i hi; rw [jobB_setHolder, jobB_of_append (s := s) (nj := ⟨q, .immediate a b, .held a, true, false, none, false⟩) (by rfl)]; simp [hi]
    · intro i hi; rw [jobE_setHolder, jobE_of_append (s := s) (nj := ⟨q, .immediate a b, .held a, true, false, none, false⟩) (by rfl)]; simp [hi]
    · simp
  · split at hs
    · simp only [Option.some.injEq, Prod.mk.injEq] at hs; obtain ⟨rfl, _⟩ := hs
      exact FullInv.frame_setAct h hx (fun c => rfl) (fun i => rfl) (fun i => qjobs_setQ_state hv _ _ i) (fun _ hi => Or.inl (by first | exact hi | simpa using hi)) (fun _ hi => by first | exact hi | simpa using hi) (by first | rfl | simp) (by rw [hidle]; rfl)
    · simp only [Option.some.injEq, Prod.mk.injEq] at hs; obtain ⟨rfl, _⟩ := hs
      exact FullInv.frame h hx (fun c => rfl) (fun i => rfl) (fun i => qjobs_setQ_state hv _ _ i) (fun _ hi => Or.inl (by first | exact hi | simpa using hi)) (fun _ hi => by first | exact hi | simpa using hi) (by first | rfl | simp) (by rw [hidle]; rfl)


/-- a new job is appended to the job table and to the back of queue `q` -/
theorem FullInv.push_new {s X : State} {a q : Nat} {v : JobQ} {pc' : Pc} (h : FullInv s) (hv : s.qs[q]? = some v)
    (hpc : ∀ c, X.pcAt c = s.pcAt c)
    (hj : ∀ i, X.jobPQ i = if i = s.jobs.length then some (.queued, q) else s.jobPQ i)
    (hq : ∀ i, X.qjobs i = if i = q then some (v.jobs ++ [s.jobs.length]) else s.qjobs i)
    (hb : ∀ i, X.jobB i = s.jobB i) (he : ∀ i, X.jobE i = s.jobE i) (hn : X.jobs.length = s.jobs.length + 1)
    (hrun : pc'.runningQ = (s.pcAt a).runningQ) : FullInv (X.goto a pc') :=
  FullInv.newQueued h hpc (qjobs_of hv) hj hq hb he hn hrun

theorem j_dsPush {s s' : State} {a : Nat} {o : Obs} (h : FullInv s) (hx : HeldExcl s.jobPQ) (act : Act) (ha : s.acts[a]? = some act) (hc : act.child = none)
    (q : Nat) (kind : JobKind) (hpc : act.pc = .dsPush q kind) (hs : stepAct s a = some (s', o)) : FullInv s' := by
  have hpca := pcAt_of ha
  have hidle : (s.pcAt a).runningQ = none := by rw [hpca, hpc]; rfl
  unfold stepAct at hs
  simp only [ha, hc, hpc, Option.isSome_none, Bool.false_eq_true, ↓reduceIte] at hs
  split at hs
  · simp at hs
  next v hv =>
  have hv' : (s.newJob q kind).1.qs[q]? = some v := hv
  repeat' split at hs
  all_goals (simp only [Option.some.injEq, Prod.mk.injEq] at hs; obtain ⟨rfl, _⟩ := hs)
  all_goals (refine FullInv.push_new h hv (fun c => rfl) ?_ ?_ ?_ ?_ ?_ (by rw [hidle]; rfl))
  all_goals (first
    | (intro i; rw [jobPQ_setQ]; exact jobPQ_newJob s q kind i)
    | (intro i; rw [qjobs_setQ_of hv']; simp; done)
    | (intro i; simp; done)
    | (simp; done))

theorem j_sdPush {s s' : State} {a : Nat} {o : Obs} (hh : HolderInv s) (h : FullInv s) (hx : HeldExcl s.jobPQ) (act : Act) (ha : s.acts[a]? = some act) (hc : act.child = none)
    (q : Nat) (b : Body) (hpc : act.pc = .sdPush q b) (hs : stepAct s a = some (s', o)) : FullInv s' := by
  have hpca := pcAt_of ha
  have hidle : (s.pcAt a).runningQ = none := by rw [hpca, hpc]; rfl
  unfold stepAct at hs
  simp only [ha, hc, hpc, Option.isSome_none, Bool.false_eq_true, ↓reduceIte] at hs
  simp only [Option.some.injEq, Prod.mk.injEq] at hs; obtain ⟨rfl, _⟩ := hs
  -- the queue exists: the caller owns its run right
  have hholds : (s.pcAt a).holds q = true := by rw [hpca, hpc]; simp [Pc.holds]
  have hho := (hh.iff a q).mp hholds
  have hqlt : q < s.qs.length := by
    have := (List.getElem?_eq_some_iff.mp hho).1; rw [hh.len] at this; exact this
  obtain ⟨v, hv⟩ : ∃ v, s.qs[q]? = some v := ⟨s.qs[q], List.getElem?_eq_getElem hqlt⟩
  have hv' : (s.newJob q (.erasedDrain a b)).1.qs[q]? = some v := hv
  refine FullInv.push_new h hv (fun c => by simp) ?_ ?_ ?_ ?_ ?_ (by rw [hidle]; rfl)
  · intro i; rw [jobPQ_pushBack]; exact jobPQ_newJob s q _ i
  · intro i
    unfold State.pushBack
    rw [hv']
    simp only [newJob_snd]
    rw [qjobs_setQ_of hv']; simp
  · intro i; simp
  · intro i; simp
  · unfold State.pushBack; rw [hv']; simp

theorem j_sbPush {s s' : State} {a : Nat} {o : Obs} (h : FullInv s) (hx : HeldExcl s.jobPQ) (act : Act) (ha : s.acts[a]? = some act) (hc : act.child = none)
    (q : Nat) (b : Body) (hpc : act.pc = .sbPush q b) (hs : stepAct s a = some (s', o)) : FullInv s' := by
  have hpca := pcAt_of ha
  have hidle : (s.pcAt a).runningQ = none := by rw [hpca, hpc]; rfl
  unfold stepAct at hs
  simp only [ha, hc, hpc, Option.isSome_none, Bool.false_eq_true, ↓reduceIte] at hs
  split at hs
  · simp at hs
  next v hv =>
  have hv' : (s.newJob q (.erasedBg a b)).1.qs[q]? = some v := hv
  repeat' split at hs
  all_goals (simp only [Option.some.injEq, Prod.mk.injEq] at hs; obtain ⟨rfl, _⟩ := hs)
  all_goals (refine FullInv.push_new h hv (fun c => rfl) ?_ ?_ ?_ ?_ ?_ (by rw [hidle]; rfl))
  all_goals (first
    | (intro i; rw [jobPQ_setQ]; exact jobPQ_newJob s q _ i)
    | (intro i; rw [qjobs_setQ_of hv']; simp; done)
    | (intro i; simp; done)
    | (simp; done))


theorem FullInv.append_act {s X : State} {n : Act} (h : FullInv s) (hA : X.acts = s.acts ++ [n]) (hn : n.pc.runningQ = none)
    (hJ : X.jobs = s.jobs) (hQ : X.qs = s.qs) : FullInv X := by
  refine FullInv.of_eq h ?_ (fun i => by simp only [State.jobPQ, hJ]) (fun i => by simp only [State.qjobs, hQ]) (fun i => by simp only [State.jobB, hJ]) (fun i => by simp only [State.jobE, hJ]) (by rw [hJ])
  intro b
  simp only [State.pcAt, hA]
  by_cases hlt : b < s.acts.length
  · rw [List.getElem?_append_left hlt]
  · by_cases hbe : b = s.acts.length
    · subst hbe; simp [hn, Pc.runningQ]
    · have h1 : (s.acts ++ [n])[b]? = none := by simp; omega
      have h2 : s.acts[b]? = none := by simp; omega
      rw [h1, h2]

theorem FullInv.spawn_goto {s X : State} {a : Nat} {n : Act} {pc' : Pc} (h : FullInv s) (hx : HeldExcl s.jobPQ) (hA : X.acts = s.acts ++ [n]) (hn : n.pc.runningQ = none)
    (hJ : X.jobs = s.jobs) (hQ : X.qs = s.qs) (hlt : a < s.acts.length) (hrun : pc'.runningQ = (s.pcAt a).runningQ) : FullInv (X.goto a pc') := by
  have hX : FullInv X := FullInv.append_act h hA hn hJ hQ
  have hxX : HeldExcl X.jobPQ := by
    have : X.jobPQ = s.jobPQ := funext (fun i => by simp only [State.jobPQ, hJ])
    rw [this]; exact hx
  refine FullInv.frame hX hxX (fun _ => rfl) (fun _ => rfl) (fun _ => rfl) (fun _ hi => Or.inl hi) (fun _ hi => hi) rfl ?_
  rw [hrun]
  simp only [State.pcAt, hA, List.getElem?_append_left hlt]

theorem j_stSpawn {s s' : State} {a : Nat} {o : Obs} (h : FullInv s) (hx : HeldExcl s.jobPQ) (act : Act) (ha : s.acts[a]? = some act) (hc : act.child = none)
    (m : Nat) (k : Pc) (hpc : act.pc = .stSpawn m k) (hs : stepAct s a = some (s', o)) : FullInv s' := by
  have hlt : a < s.acts.length := lt_of_getElem?_some ha
  have hpca := pcAt_of ha
  unfold stepAct at hs
  simp only [ha, hc, hpc, Option.isSome_none, Bool.false_eq_true, ↓reduceIte] at hs
  split at hs
  · simp at hs
  · split at hs
    · simp only [Option.some.injEq, Prod.mk.injEq] at hs; obtain ⟨rfl, _⟩ := hs
      exact FullInv.spawn_goto h hx rfl (by rfl) rfl rfl hlt (by rw [hpca, hpc]; rfl)
    · simp only [Option.some.injEq, Prod.mk.injEq] at hs; obtain ⟨rfl, _⟩ := hs
      exact FullInv.frame h hx (fun c => rfl) (fun i => rfl) (fun i => rfl) (fun _ hi => Or.inl (by first | exact hi | simpa using hi)) (fun _ hi => by first | exact hi | simpa using hi) (by first | rfl | simp) (by rw [hpca, hpc]; rfl)

theorem j_sbPrune {s s' : State} {a : Nat} {o : Obs} (h : FullInv s) (hx : HeldExcl s.jobPQ) (act : Act) (ha : s.acts[a]? = some act) (hc : act.child = none)
    (q : Nat) (hpc : act.pc = .sbPrune q) (hs : stepAct s a = some (s', o)) : FullInv s' := by
  have hpca := pcAt_of ha
  unfold stepAct at hs
  simp only [ha, hc, hpc, Option.isSome_none, Bool.false_eq_true, ↓reduceIte] at hs
  split at hs
  · simp at hs
  next v hv =>
  simp only [Option.some.injEq, Prod.mk.injEq] at hs; obtain ⟨rfl, _⟩ := hs
  have h1 : FullInv (s.goto a Pc.ret) := FullInv.frame h hx (fun c => rfl) (fun i => rfl) (fun i => rfl) (fun _ hi => Or.inl (by first | exact hi | simpa using hi)) (fun _ hi => by first | exact hi | simpa using hi) (by first | rfl | simp) (by rw [hpca, hpc]; rfl)
  refine FullInv.of_eq h1 (fun b => rfl) (fun i => rfl) ?_ (fun i => rfl) (fun i => rfl) rfl
  intro i
  have hv' : (s.goto a Pc.ret).qs[q]? = some v := by rw [qs_goto']; exact hv
  exact qjobs_setQ_state hv' _ _ i

theorem j_ptPop {s s' : State} {a : Nat} {o : Obs} (h : FullInv s) (hx : HeldExcl s.jobPQ) (act : Act) (ha : s.acts[a]? = some act) (hc : act.child = none)
    (p : Nat) (hpc : act.pc = .ptPop p) (hs : stepAct s a = some (s', o)) : FullInv s' := by
  have hpca := pcAt_of ha
  have hidle : (s.pcAt a).runningQ = none := by rw [hpca, hpc]; rfl
  unfold stepAct at hs
  simp only [ha, hc, hpc, Option.isSome_none, Bool.false_eq_true, ↓reduceIte] at hs
  repeat' split at hs
  all_goals (try (simp at hs; done))
  all_goals (simp only [Option.some.injEq, Prod.mk.injEq] at hs; obtain ⟨rfl, _⟩ := hs)
  all_goals (refine FullInv.frame h hx (fun c => rfl) (fun i => rfl) ?_ (fun _ hi => Or.inl (by first | exact hi | simpa using hi)) (fun _ hi => by first | exact hi | simpa using hi) (by first | rfl | simp) (by rw [hidle]; rfl))
  all_goals (first | (intro i; rfl) | (intro i; rw [qjobs_setHolder]; exact qjobs_setQ_state (s := { s with schedule := _ }) (by assumption) _ _ i) | (intro i; exact qjobs_setQ_state (s := { s with schedule := _ }) (by assumption) _ _ i))

end Desync
