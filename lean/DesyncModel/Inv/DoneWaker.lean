/-
The waker the slot job of `future_sync` leaves on the `task_finished` channel is for the sync-future's own queue (C08).

While the user's future runs, the slot job of `future_sync` is suspended on the `task_finished` receiver with its context's waker
registered there (`SyncFut.doneWaker`).  As an invariant of every reachable state that waker is the `WakeQueue` waker of the
sync-future's queue, a `WakeThread` waker for that queue, or a latch: when the user future completes — or the `SyncFuture` is
dropped, which drops the sender — the wake-up goes to the queue that holds the slot, so the slot is released on the right object.
Uses `KindInv` (the slot job of sync-future `u` sits in `u`'s queue) and the job invariant of C01 (the context polling a job works
for the job's queue).
-/
import DesyncModel.Inv.KindReach

namespace Desync
open Gen

def DoneOk (L : List SyncFut) : Prop := ∀ (u : Nat) (sf : SyncFut) (w : Waker), L[u]? = some sf → sf.doneWaker = some w → w.forQ sf.q = true

theorem DoneOk.set' {L : List SyncFut} (h : DoneOk L) {u0 : Nat} {sf v : SyncFut} (hf : L[u0]? = some sf) (hq : v.q = sf.q)
    (hv : v.doneWaker = sf.doneWaker ∨ v.doneWaker = none) : DoneOk (L.set u0 v) := by
  intro u x w hu hw
  rw [List.getElem?_set] at hu
  split at hu
  · split at hu
    · cases hu
      rcases hv with h1 | h1
      · rw [hq]; exact h u0 sf w hf (by rw [← h1]; exact hw)
      · rw [h1] at hw; cases hw
    · cases hu
  · exact h u x w hu hw

theorem DoneOk.append {L l : List SyncFut} (h : DoneOk L) (hl : ∀ x ∈ l, x.doneWaker = none) : DoneOk (L ++ l) := by
  intro u sf w hu hw
  by_cases hlt : u < L.length
  · rw [List.getElem?_append_left hlt] at hu; exact h u sf w hu hw
  · rw [List.getElem?_append_right (by omega)] at hu
    rw [hl sf (List.mem_of_getElem? hu)] at hw; cases hw

set_option hygiene false in
macro "dn_sf" : tactic => `(tactic| first
  | exact h
  | (refine DoneOk.set' h (by assumption) ?_ ?_ <;> first | rfl | exact Or.inl rfl | exact Or.inr rfl))

/-- the poll that leaves the waker: it is the polling context's own waker, the context works for the slot job's queue, and the
slot job sits in its sync-future's queue -/
theorem dn_jobAwait {s s' : State} {a : Nat} {o : Obs} (h : DoneOk s.sfs) (hf : FullInv s) (hk : KindInv s)
    (act : Act) (ha : s.acts[a]? = some act) (hc : act.child = none) (j : Nat) (c : Ctx) (k : Pc)
    (hpc : act.pc = .jobAwait j c k) (hs : stepAct s a = some (s', o)) : DoneOk s'.sfs := by
  have hrun : (s.pcAt a).runningQ = some (j, c.q) := by rw [pcAt_of ha, hpc]; rfl
  have hpq := hf.run1 a j c.q hrun
  wk_open
  split at hs
  · simp at hs
  · next jb hjb =>
    have hq : jb.q = c.q := by
      rw [jobPQ_of hjb] at hpq
      simp only [Option.some.injEq, Prod.mk.injEq] at hpq
      exact hpq.2
    have hkj := hk.jobs j jb hjb
    try dsimp only at hs
    repeat' split at hs
    all_goals (try (simp at hs; done))
    all_goals (simp only [Option.some.injEq, Prod.mk.injEq] at hs; obtain ⟨rfl, _⟩ := hs)
    all_goals (try tw_norm)
    all_goals (first
      | exact h
      | (-- the registering branch: `jb.kind = .slot u r`, `s.sfs[u]? = some sf`
         have hkind := ‹jb.kind = JobKind.slot _ _›
         have hsf := ‹s.sfs[_]? = some _›
         rw [hkind] at hkj
         have hsq := hkj.2
         simp only [sfQ, hsf, Option.map_some, Option.some.injEq] at hsq
         intro u' x w hu hw
         rw [List.getElem?_set] at hu
         split at hu
         · split at hu
           · cases hu
             simp only [Option.some.injEq] at hw
             subst hw
             dsimp only
             rw [hsq, hq]; exact forQ_ctxWaker _ c
           · cases hu
         · exact h u' x w hu hw))

set_option maxHeartbeats 4000000 in
set_option maxRecDepth 8000 in
theorem doneOk_stepAct {s s' : State} {a : Nat} {o : Obs} (h : DoneOk s.sfs) (hf : FullInv s) (hk : KindInv s)
    (hs : stepAct s a = some (s', o)) : DoneOk s'.sfs := by
  have hs0 := hs
  unfold stepAct at hs
  split at hs
  · simp at hs
  next act ha =>
  split at hs
  · simp at hs
  next hchild =>
  have hc : act.child = none := by
    cases hcc : act.child <;> simp_all
  split at hs
  all_goals (try (simp at hs; done))
  all_goals (try (exact dn_jobAwait h hf hk act ha hc _ _ _ (by assumption) hs0))
  all_goals (try dsimp only at hs)
  all_goals (repeat' split at hs)
  all_goals (try (simp at hs; done))
  all_goals (try (simp only [Option.some.injEq, Prod.mk.injEq] at hs; obtain ⟨rfl, _⟩ := hs))
  all_goals (try tw_norm)
  all_goals (first | dn_sf | skip)

theorem doneOk_invoke {s s' : State} {t a : Nat} {parent : Option Nat} {c : Call} (h : DoneOk s.sfs)
    (hs : invoke s t parent c = some (s', a)) : DoneOk s'.sfs := by
  unfold invoke at hs
  cases c <;> simp only at hs
  all_goals (repeat' split at hs)
  all_goals (try (simp at hs; done))
  all_goals (
    have hs' := congrArg Prod.fst (Option.some.inj hs)
    simp only at hs'
    subst hs'
    rw [(futs_addAct _ t parent _ _).2]
    first
      | exact h
      | exact DoneOk.append h (by simp)
      | (split <;> (try split) <;> first | exact h | exact DoneOk.append h (by simp)))

/-- **The slot job's completion waker is for its sync-future's queue, in every reachable state.** -/
theorem doneOk_reachable {s : State} (hr : Reachable s) : DoneOk s.sfs := by
  induction hr with
  | init nq ng max => intro u sf w hu; simp [initState] at hu
  | initP ps ng max => intro u sf w hu; simp [initStateP, initState] at hu
  | step l hprev hstep ih =>
    have hmono := futMono_next hstep
    cases l with
    | act a =>
      simp only [next, Option.map_eq_some_iff] at hstep
      obtain ⟨⟨s1, o⟩, hs, rfl⟩ := hstep
      exact doneOk_stepAct ih (fullInv_reachable hprev).2 (kindInv_reachable hprev) hs
    | invoke t parent c =>
      simp only [next] at hstep
      split at hstep
      · simp only [Option.map_eq_some_iff] at hstep
        obtain ⟨⟨s1, a⟩, hs, rfl⟩ := hstep
        exact doneOk_invoke ih hs
      · simp at hstep
    | bodyEnd a =>
      simp only [next, Option.map_eq_some_iff] at hstep
      obtain ⟨⟨s1, o⟩, hs, rfl⟩ := hstep
      unfold bodyEnd at hs
      repeat' split at hs
      all_goals (try (simp at hs; done))
      all_goals (obtain ⟨rfl, _⟩ := Prod.mk.inj (Option.some.inj hs); simp only [sfs_goto]; exact ih)
    | ret a =>
      simp only [next, Option.map_eq_some_iff] at hstep
      obtain ⟨⟨s1, r⟩, hs, rfl⟩ := hstep
      rw [(futs_retStep hs).2]; exact ih
    | spuriousUnpark a =>
      simp only [next, Option.map_eq_some_iff] at hstep
      obtain ⟨⟨s1, o⟩, hs, rfl⟩ := hstep
      unfold spuriousUnpark at hs
      repeat' split at hs
      all_goals (try (simp at hs; done))
      all_goals (obtain ⟨rfl, _⟩ := Prod.mk.inj (Option.some.inj hs); simp only [sfs_goto]; exact ih)
    | spuriousPoll a =>
      simp only [next] at hstep
      unfold spuriousPoll at hstep
      repeat' split at hstep
      all_goals (try (simp at hstep; done))
      all_goals (cases (Option.some.inj hstep); simp only [sfs_goto]; exact ih)

end Desync
