/-
The thread-context half of I_wake is preserved by every internal step.
-/
import DesyncModel.Inv.WakeT
import DesyncModel.Inv.ThreadStable

namespace Desync
open Gen

/-- `WakeTInv.soft` with the conditions on the activities stated for the mover only -/
theorem WakeTInv.soft' {s X : State} {a : Nat} (h : WakeTInv s) (hh : HolderInv s) (hw : WfInv s) (hf : FullInv s) (hp : ParkInv s)
    (hthr : ∀ b, b < s.acts.length → X.threadOf b = s.threadOf b)
    (hoth : ∀ b, b ≠ a → X.pcAt b = s.pcAt b)
    (hWa : ∀ q t, (s.pcAt a).wakesT q t = true → (X.pcAt a).wakesT q t = true ∨ LandedT s X q)
    (hPa : ∀ q j, (X.pcAt a).parkedJ = some (q, j) → (s.pcAt a).parkedJ = some (q, j))
    (hLa : ∀ q j, (X.pcAt a).polledT = some (q, j) → (s.pcAt a).polledT = some (q, j))
    (hreg : ∀ q j t, RegT s q j t → RegT X q j t ∨ FlightT X q t)
    (hq : ∀ q, X.qSt q = s.qSt q ∨
      ∃ st st', s.qSt q = some st ∧ X.qSt q = some st' ∧ (st' = .waitingForUnpark → st = .waitingForUnpark) ∧
        (st = .awokenWhileRunning → st' = .awokenWhileRunning)) :
    WakeTInv X := by
  refine WakeTInv.soft h hh hw hf hp hthr ?_ ?_ ?_ hreg hq
  · intro b q t hb
    by_cases hba : b = a
    · subst hba; exact hWa q t hb
    · left; rw [hoth b hba]; exact hb
  · intro b q j hb
    by_cases hba : b = a
    · subst hba; exact hPa q j hb
    · rw [hoth b hba] at hb; exact hb
  · intro b q j hb
    by_cases hba : b = a
    · subst hba; exact hLa q j hb
    · rw [hoth b hba] at hb; exact hb

/-- one queue's record is replaced -/
theorem hqT_of_set {s X : State} {q0 : Nat} {v v' : JobQ} (hv : s.qs[q0]? = some v) (hX : X.qs = s.qs.set q0 v')
    (h3 : v'.state = .waitingForUnpark → v.state = .waitingForUnpark) (h4 : v.state = .awokenWhileRunning → v'.state = .awokenWhileRunning) :
    ∀ q, X.qSt q = s.qSt q ∨
      ∃ st st', s.qSt q = some st ∧ X.qSt q = some st' ∧ (st' = .waitingForUnpark → st = .waitingForUnpark) ∧
        (st = .awokenWhileRunning → st' = .awokenWhileRunning) := by
  intro q
  have hlen := lt_of_getElem?_some hv
  by_cases hq : q = q0
  · subst hq
    right
    exact ⟨v.state, v'.state, by simp [State.qSt, hv], by simp [State.qSt, hX, hlen], h3, h4⟩
  · left
    have : ¬ q0 = q := fun e => hq e.symm
    simp [State.qSt, hX, List.getElem?_set, this]

theorem pollDecide_aw {self : Nat} {st : QState} (h : st = .awokenWhileRunning) : (pollDecide self st).1 = .awokenWhileRunning := by subst h; rfl
theorem syncNoPanicDecide_aw {st : QState} {e : Bool} (h : st = .awokenWhileRunning) : (syncNoPanicDecide st e).1 = .awokenWhileRunning := by subst h; cases e <;> rfl

set_option hygiene false in
macro "wt_W" : tactic => `(tactic| (
  intro q t hq
  left
  rw [hpca, ‹act.pc = _›] at hq
  first
  | (rw [pcAt_goto_self _ (by simpa [dequeue_acts] using hlt)])
  | (rw [pcAt_setAct_self _ (by simpa [dequeue_acts] using hlt)])
  | (rw [pcAt_setQ, pcAt_goto_self _ (by simpa [dequeue_acts] using hlt)])
  first
  | exact hq
  | (simp only [Pc.wakesT, wakesT_ctxReady, wakesT_ctxPending] at hq ⊢; first | exact hq | (simp_all; done) | (split at hq <;> simp_all))
  | (cases ‹Ctx› <;> simp_all [Pc.wakesT, ctxReady, ctxPending])))

set_option hygiene false in
macro "wt_P" : tactic => `(tactic| (
  intro q j hq
  rw [hpca, ‹act.pc = _›]
  first
  | (rw [pcAt_goto_self _ (by simpa [dequeue_acts] using hlt)] at hq)
  | (rw [pcAt_setAct_self _ (by simpa [dequeue_acts] using hlt)] at hq)
  | (rw [pcAt_setQ, pcAt_goto_self _ (by simpa [dequeue_acts] using hlt)] at hq)
  first
  | exact hq
  | (simp only [Pc.parkedJ, parkedJ_ctxReady, parkedJ_ctxPending] at hq ⊢; first | exact hq | (simp_all; done) | (split at hq <;> simp_all))
  | (cases ‹Ctx› <;> simp_all [Pc.parkedJ, ctxReady, ctxPending])))

set_option hygiene false in
macro "wt_L" : tactic => `(tactic| (
  intro q j hq
  rw [hpca, ‹act.pc = _›]
  first
  | (rw [pcAt_goto_self _ (by simpa [dequeue_acts] using hlt)] at hq)
  | (rw [pcAt_setAct_self _ (by simpa [dequeue_acts] using hlt)] at hq)
  | (rw [pcAt_setQ, pcAt_goto_self _ (by simpa [dequeue_acts] using hlt)] at hq)
  first
  | exact hq
  | (simp only [Pc.polledT, polledT_ctxReady, polledT_ctxPending] at hq ⊢; first | exact hq | (simp_all; done) | (split at hq <;> simp_all))
  | (cases ‹Ctx› <;> simp_all [Pc.polledT, ctxReady, ctxPending])))

set_option hygiene false in
macro "wt_reg" : tactic => `(tactic| (
  intro q j t hr
  left
  unfold RegT at hr ⊢
  rw [← hr]
  first
  | rfl
  | (refine regW_congr ?_ j; first | rfl | (simp; done))
  | (apply regW_append
     case hX => first | rfl | (simp only [jobs_goto, jobs_setQ, jobs_setHolder, jobs_setAct]; rfl)
     case hn => rfl)
  | (apply regW_setJob_keep (hb := ‹s.jobs[_]? = some _›)
     case hX => first | rfl | (simp only [jobs_goto, jobs_setFut, jobs_setGate, jobs_setSf, jobs_setAct, jobs_setQ, jobs_setHolder]; rfl)
     case hr => rfl)))

set_option hygiene false in
macro "wt_q" : tactic => `(tactic| first
  | (intro q; left; refine qSt_congr ?_ q; first | rfl | (simp; done))
  | (intro q; left; simp only [qSt_goto, qSt_pushBack, qSt_pushFront, qSt_dequeue, qSt_setJobPh, qSt_setJob, qSt_setHolder, qSt_setAct]; done)
  | (apply hqT_of_set ‹s.qs[_]? = some _›
     case hX => first | rfl | (simp only [qs_goto, qs_setHolder, qs_setAct, qs_setQ, qs_setJob]; rfl)
     case h3 => intro hx; first | exact desyncPush_wfu hx | exact syncDecide_wfu hx | exact syncNoPanicDecide_wfu hx | exact trySyncDecide_wfu hx | exact claim_wfu hx | exact reschedule_wfu hx | exact nextToRun_wfu hx | exact wakeQueue_wfu hx | exact futureDropDecide_wfu hx | exact pollDecide_wfu hx | exact hx
     case h4 => intro hx; first | exact desyncPush_aw hx | exact syncDecide_aw hx | exact syncNoPanicDecide_aw hx | exact trySyncDecide_aw hx | exact claim_aw hx | exact reschedule_aw hx | exact nextToRun_aw hx | exact wakeQueue_aw hx | exact futureDropDecide_aw hx | exact pollDecide_aw hx | exact hx))


/-- A step of the owner of queue `q0` that rewrites only that queue's record (and perhaps job phases), after which the
mover is neither a caller that has just polled nor one in the park loop. -/
theorem WakeTInv.holder {s X : State} {a q0 : Nat} (h : WakeTInv s) (hh : HolderInv s) (hw : WfInv s) (hf : FullInv s) (hp : ParkInv s)
    (hthr : ∀ b, b < s.acts.length → X.threadOf b = s.threadOf b)
    (hold : (s.pcAt a).holds q0 = true)
    (hoth : ∀ b, b ≠ a → X.pcAt b = s.pcAt b)
    (hWa : ∀ q t, (s.pcAt a).wakesT q t = true → (X.pcAt a).wakesT q t = true)
    (hPa : (X.pcAt a).parkedJ = none) (hLa : (X.pcAt a).polledT = none)
    (hreg : ∀ j, X.regW j = s.regW j)
    (hqs : ∀ q, q ≠ q0 → X.qSt q = s.qSt q) : WakeTInv X := by
  refine WakeTInv.step (a := a) h hh hw hf hp hthr ?_ ?_ ?_ ?_ ?_ ?_ ?_ ?_
  · intro b hba q t hb; left; rw [hoth b hba]; exact hb
  · intro b hba q j hb; rw [hoth b hba] at hb; exact hb
  · intro b hba q j hb; rw [hoth b hba] at hb; exact hb
  · intro q t hq; exact Or.inl (hWa q t hq)
  · intro q j t hr; left; unfold RegT at hr ⊢; rw [hreg]; exact hr
  · intro q
    by_cases hq : q = q0
    · subst hq; exact QRelT.hold hold
    · exact QRelT.same (hqs q hq)
  · intro q j hq; rw [hPa] at hq; cases hq
  · intro q j hq; rw [hLa] at hq; cases hq

theorem wt_sdPush {s s' : State} {a : Nat} {o : Obs} (h : WakeTInv s) (hh : HolderInv s) (hw : WfInv s) (hf : FullInv s) (hp : ParkInv s)
    (act : Act) (ha : s.acts[a]? = some act) (hc : act.child = none) (q : Nat) (b : Body)
    (hpc : act.pc = .sdPush q b) (hs : stepAct s a = some (s', o)) : WakeTInv s' := by
  have hthr := threadOf_stepAct hs
  wk_open
  wk_fin
  have hold : (s.pcAt a).holds q = true := by rw [hpca, hpc]; simp [Pc.holds]
  refine WakeTInv.holder (a := a) (q0 := q) h hh hw hf hp hthr hold (by sim_oth) ?_ ?_ ?_ ?_ ?_
  · intro q' t hq'; rw [hpca, hpc] at hq'; simp [Pc.wakesT] at hq'
  · rw [pcAt_goto_self _ (by simpa using hlt)]; rfl
  · rw [pcAt_goto_self _ (by simpa using hlt)]; rfl
  · intro j
    apply regW_append
    case hX => simp only [jobs_goto, jobs_pushBack]; rfl
    case hn => rfl
  · intro q' hq'
    simp only [qSt_goto, qSt_pushBack]; rfl

theorem wt_idle {s X : State} {a q : Nat} {pc' : Pc} (h : WakeTInv s) (hh : HolderInv s) (hw : WfInv s) (hf : FullInv s) (hp : ParkInv s)
    (hlt : a < s.acts.length) (hold : (s.pcAt a).holds q = true) (hnow : ∀ q' t, (s.pcAt a).wakesT q' t = false)
    (hP : pc'.parkedJ = none) (hL : pc'.polledT = none) (Y : State) (hY : ∀ i, Y.regW i = s.regW i) (hYq : Y.qs = s.qs) (hYa : Y.acts = s.acts)
    (hX : X = ((Y.setQState q .idle).setHolder q none).goto a pc')
    (hthr : ∀ b, b < s.acts.length → X.threadOf b = s.threadOf b) : WakeTInv X := by
  subst hX
  have hlt' : a < ((Y.setQState q .idle).setHolder q none).acts.length := by simp [hYa, hlt]
  have hpcY : ∀ b, Y.pcAt b = s.pcAt b := fun b => by simp only [State.pcAt, hYa]
  refine WakeTInv.holder (a := a) (q0 := q) h hh hw hf hp hthr hold ?_ ?_ ?_ ?_ ?_ ?_
  · intro b hb; rw [pcAt_goto_ne _ hb]; simp only [pcAt_setHolder, pcAt_setQState]; exact hpcY b
  · intro q' t hq'; rw [hnow] at hq'; cases hq'
  · rw [pcAt_goto_self _ hlt']; exact hP
  · rw [pcAt_goto_self _ hlt']; exact hL
  · intro j
    refine (regW_congr ?_ j).trans (hY j)
    simp
  · intro q' hq'
    simp only [qSt_goto, qSt_setHolder]; rw [qSt_setQState_ne _ _ hq']; exact qSt_congr hYq q'

theorem wt_siIdle {s s' : State} {a : Nat} {o : Obs} (h : WakeTInv s) (hh : HolderInv s) (hw : WfInv s) (hf : FullInv s) (hp : ParkInv s)
    (act : Act) (ha : s.acts[a]? = some act) (hc : act.child = none) (q j : Nat)
    (hpc : act.pc = .siIdle q j) (hs : stepAct s a = some (s', o)) : WakeTInv s' := by
  have hthr := threadOf_stepAct hs
  wk_open
  split at hs
  · simp at hs
  · next jb hjb =>
    wk_fin
    exact wt_idle h hh hw hf hp hlt (by rw [hpca, hpc]; simp [Pc.holds]) (by intro q' t; rw [hpca, hpc]; rfl) rfl rfl _
      (fun i => regW_setJob_keep (v := { jb with ended := true, ph := .done }) rfl hjb rfl i) rfl rfl rfl hthr

theorem wt_sdIdle {s s' : State} {a : Nat} {o : Obs} (h : WakeTInv s) (hh : HolderInv s) (hw : WfInv s) (hf : FullInv s) (hp : ParkInv s)
    (act : Act) (ha : s.acts[a]? = some act) (hc : act.child = none) (q : Nat)
    (hpc : act.pc = .sdIdle q) (hs : stepAct s a = some (s', o)) : WakeTInv s' := by
  have hthr := threadOf_stepAct hs
  wk_open
  wk_fin
  exact wt_idle h hh hw hf hp hlt (by rw [hpca, hpc]; simp [Pc.holds]) (by intro q' t; rw [hpca, hpc]; rfl) rfl rfl s (fun i => rfl) rfl rfl rfl hthr

theorem wt_sbStealIdle {s s' : State} {a : Nat} {o : Obs} (h : WakeTInv s) (hh : HolderInv s) (hw : WfInv s) (hf : FullInv s) (hp : ParkInv s)
    (act : Act) (ha : s.acts[a]? = some act) (hc : act.child = none) (q j : Nat)
    (hpc : act.pc = .sbStealIdle q j) (hs : stepAct s a = some (s', o)) : WakeTInv s' := by
  have hthr := threadOf_stepAct hs
  wk_open
  wk_fin
  exact wt_idle h hh hw hf hp hlt (by rw [hpca, hpc]; simp [Pc.holds]) (by intro q' t; rw [hpca, hpc]; rfl) rfl rfl s (fun i => rfl) rfl rfl rfl hthr

/-- a dequeue by the owner -/
theorem wt_dequeue {s X : State} {a q : Nat} {pc' : Pc} (h : WakeTInv s) (hh : HolderInv s) (hw : WfInv s) (hf : FullInv s) (hp : ParkInv s)
    (hlt : a < s.acts.length) (hold : (s.pcAt a).holds q = true)
    (hW : ∀ q' t, (s.pcAt a).wakesT q' t = true → pc'.wakesT q' t = true) (hP : pc'.parkedJ = none) (hL : pc'.polledT = none)
    (hX : X = (s.dequeue q a).1.goto a pc') (hthr : ∀ b, b < s.acts.length → X.threadOf b = s.threadOf b) : WakeTInv X := by
  subst hX
  have hlt' : a < (s.dequeue q a).1.acts.length := by simpa [dequeue_acts] using hlt
  refine WakeTInv.holder (a := a) (q0 := q) h hh hw hf hp hthr hold ?_ ?_ ?_ ?_ ?_ ?_
  · intro b hb; rw [pcAt_goto_ne _ hb]; exact pcAt_dequeue s q a b
  · intro q' t hq'; rw [pcAt_goto_self _ hlt']; exact hW q' t hq'
  · rw [pcAt_goto_self _ hlt']; exact hP
  · rw [pcAt_goto_self _ hlt']; exact hL
  · intro j; exact (regW_congr (by simp) j).trans (regW_dequeue s q a j)
  · intro q' hq'
    simp only [qSt_goto, qSt_dequeue]

theorem caller_cont_noneT {k : Pc} {q : Nat} (h : k.plainFor q = true) : k.parkedJ = none ∧ k.polledT = none ∧ k.holds q = true :=
  ⟨(plainFor_factsT h).2, (plainFor_factsT h).1, (plainFor_facts h).1⟩

theorem wt_rjDequeue {s s' : State} {a : Nat} {o : Obs} (h : WakeTInv s) (hh : HolderInv s) (hw : WfInv s) (hf : FullInv s) (hp : ParkInv s)
    (act : Act) (ha : s.acts[a]? = some act) (hc : act.child = none) (q : Nat) (k : Pc)
    (hpc : act.pc = .rjDequeue q k) (hs : stepAct s a = some (s', o)) : WakeTInv s' := by
  have hthr := threadOf_stepAct hs
  wk_open
  have hk := caller_cont_noneT (by have := hw a; rw [hpca, hpc] at this; simpa [Pc.callerOk] using this : k.plainFor q = true)
  have hold : (s.pcAt a).holds q = true := by rw [hpca, hpc]; simpa [Pc.holds] using hk.2.2
  try dsimp only at hs
  split at hs
  · wk_fin
    refine wt_dequeue h hh hw hf hp hlt hold ?_ ?_ ?_ rfl hthr
    · intro q' t hq'; rw [hpca, hpc] at hq'; simpa [Pc.wakesT] using hq'
    · simpa [Pc.parkedJ] using hk.1
    · simpa [Pc.polledT] using hk.2.1
  · wk_fin
    refine wt_dequeue h hh hw hf hp hlt hold ?_ hk.1 hk.2.1 rfl hthr
    intro q' t hq'; rw [hpca, hpc] at hq'; simpa [Pc.wakesT] using hq'

theorem wt_pdDequeue {s s' : State} {a : Nat} {o : Obs} (h : WakeTInv s) (hh : HolderInv s) (hw : WfInv s) (hf : FullInv s) (hp : ParkInv s)
    (act : Act) (ha : s.acts[a]? = some act) (hc : act.child = none) (p q : Nat)
    (hpc : act.pc = .pdDequeue p q) (hs : stepAct s a = some (s', o)) : WakeTInv s' := by
  have hthr := threadOf_stepAct hs
  wk_open
  have hold : (s.pcAt a).holds q = true := by rw [hpca, hpc]; simp [Pc.holds]
  try dsimp only at hs
  split at hs
  · wk_fin
    exact wt_dequeue h hh hw hf hp hlt hold (by intro q' t hq'; rw [hpca, hpc] at hq'; simp [Pc.wakesT] at hq') (by simp [Pc.parkedJ]) (by simp [Pc.polledT]) rfl hthr
  · wk_fin
    exact wt_dequeue h hh hw hf hp hlt hold (by intro q' t hq'; rw [hpca, hpc] at hq'; simp [Pc.wakesT] at hq') rfl rfl rfl hthr

/-- the owner rewrites the state of its queue -/
theorem wt_ownTable {s : State} {a q : Nat} {pc' : Pc} {v : JobQ} {st' : QState} (h : WakeTInv s) (hh : HolderInv s) (hw : WfInv s) (hf : FullInv s) (hp : ParkInv s)
    (hlt : a < s.acts.length) (hold : (s.pcAt a).holds q = true) (hv : s.qs[q]? = some v)
    (hW : ∀ q' t, (s.pcAt a).wakesT q' t = true → pc'.wakesT q' t = true) (hP : pc'.parkedJ = none) (hL : pc'.polledT = none)
    (X : State) (hXq : X.qs = s.qs.set q { v with state := st' }) (hXa : X.acts = s.acts) (hXr : ∀ j, X.regW j = s.regW j)
    (hthr : ∀ b, b < s.acts.length → (X.goto a pc').threadOf b = s.threadOf b) :
    WakeTInv (X.goto a pc') := by
  have hlt' : a < X.acts.length := by rw [hXa]; exact hlt
  refine WakeTInv.holder (a := a) (q0 := q) h hh hw hf hp hthr hold ?_ ?_ ?_ ?_ ?_ ?_
  · intro b hb; rw [pcAt_goto_ne _ hb]; simp only [State.pcAt, hXa]
  · intro q' t hq'; rw [pcAt_goto_self _ hlt']; exact hW q' t hq'
  · rw [pcAt_goto_self _ hlt']; exact hP
  · rw [pcAt_goto_self _ hlt']; exact hL
  · intro j; exact (regW_congr (by simp) j).trans (hXr j)
  · intro q' hq'
    have hne : ¬ q = q' := fun e => hq' e.symm
    simp only [qSt_goto]; simp [State.qSt, hXq, List.getElem?_set, hne]

theorem wt_pdExit {s s' : State} {a : Nat} {o : Obs} (h : WakeTInv s) (hh : HolderInv s) (hw : WfInv s) (hf : FullInv s) (hp : ParkInv s)
    (act : Act) (ha : s.acts[a]? = some act) (hc : act.child = none) (p q : Nat)
    (hpc : act.pc = .pdExit p q) (hs : stepAct s a = some (s', o)) : WakeTInv s' := by
  have hthr := threadOf_stepAct hs
  wk_open
  have hold : (s.pcAt a).holds q = true := by rw [hpca, hpc]; simp [Pc.holds]
  split at hs
  · simp at hs
  · next v hv =>
    try dsimp only at hs
    split at hs
    · wk_fin
      exact wt_ownTable h hh hw hf hp hlt hold hv (by intro q' t hq'; rw [hpca, hpc] at hq'; simp [Pc.wakesT] at hq') rfl rfl _ rfl rfl (fun j => rfl) hthr
    · wk_fin
      exact wt_ownTable h hh hw hf hp hlt hold hv (by intro q' t hq'; rw [hpca, hpc] at hq'; simp [Pc.wakesT] at hq') rfl rfl _ rfl rfl (fun j => rfl) hthr

theorem wt_pdPending {s s' : State} {a : Nat} {o : Obs} (h : WakeTInv s) (hh : HolderInv s) (hw : WfInv s) (hf : FullInv s) (hp : ParkInv s)
    (act : Act) (ha : s.acts[a]? = some act) (hc : act.child = none) (p q : Nat)
    (hpc : act.pc = .pdPending p q) (hs : stepAct s a = some (s', o)) : WakeTInv s' := by
  have hthr := threadOf_stepAct hs
  wk_open
  have hold : (s.pcAt a).holds q = true := by rw [hpca, hpc]; simp [Pc.holds]
  split at hs
  · simp at hs
  · next v hv =>
    try dsimp only at hs
    split at hs
    · wk_fin
      exact wt_ownTable h hh hw hf hp hlt hold hv (by intro q' t hq'; rw [hpca, hpc] at hq'; simp [Pc.wakesT] at hq') rfl rfl
        ((s.setQ q { v with state := (drainPending v.state).1 }).setHolder q none) rfl rfl (fun j => rfl) hthr
    · wk_fin
      exact wt_ownTable h hh hw hf hp hlt hold hv (by intro q' t hq'; rw [hpca, hpc] at hq'; simp [Pc.wakesT] at hq') rfl rfl _ rfl rfl (fun j => rfl) hthr

theorem wt_pdRequeue {s s' : State} {a : Nat} {o : Obs} (h : WakeTInv s) (hh : HolderInv s) (hw : WfInv s) (hf : FullInv s) (hp : ParkInv s)
    (act : Act) (ha : s.acts[a]? = some act) (hc : act.child = none) (p q j : Nat)
    (hpc : act.pc = .pdRequeue p q j) (hs : stepAct s a = some (s', o)) : WakeTInv s' := by
  have hthr := threadOf_stepAct hs
  wk_open
  wk_fin
  have hold : (s.pcAt a).holds q = true := by rw [hpca, hpc]; simp [Pc.holds]
  have hlt' : a < ((s.pushFront q j).setJobPh j .queued).acts.length := by simpa using hlt
  refine WakeTInv.holder (a := a) (q0 := q) h hh hw hf hp hthr hold (by sim_oth) ?_ ?_ ?_ ?_ ?_
  · intro q' t hq'; rw [hpca, hpc] at hq'; simp [Pc.wakesT] at hq'
  · rw [pcAt_goto_self _ hlt']; rfl
  · rw [pcAt_goto_self _ hlt']; rfl
  · intro i
    exact (regW_congr (show (((s.pushFront q j).setJobPh j .queued).goto a (.pdPending p q)).jobs = ((s.pushFront q j).setJobPh j .queued).jobs by simp) i).trans
      ((regW_setJobPh (s.pushFront q j) j .queued i).trans (regW_congr (show (s.pushFront q j).jobs = s.jobs by simp) i))
  · intro q' hq'; simp

theorem oth_factsT {s X : State} {a : Nat} (hoth : ∀ b, b ≠ a → X.pcAt b = s.pcAt b) :
    (∀ b, b ≠ a → ∀ q t, (s.pcAt b).wakesT q t = true → (X.pcAt b).wakesT q t = true ∨ LandedT s X q) ∧
    (∀ b, b ≠ a → ∀ q j, (X.pcAt b).parkedJ = some (q, j) → (s.pcAt b).parkedJ = some (q, j)) ∧
    (∀ b, b ≠ a → ∀ q j, (X.pcAt b).polledT = some (q, j) → (s.pcAt b).polledT = some (q, j)) :=
  ⟨fun b hb q t h => Or.inl (by rw [hoth b hb]; exact h), fun b hb q j h => by rw [hoth b hb] at h; exact h, fun b hb q j h => by rw [hoth b hb] at h; exact h⟩

theorem flightT_mono {s X : State} {a q t : Nat} (hoth : ∀ b, b ≠ a → X.pcAt b = s.pcAt b)
    (hmine : (s.pcAt a).wakesT q t = true → (X.pcAt a).wakesT q t = true) (h : FlightT s q t) : FlightT X q t := by
  obtain ⟨c, hc⟩ := h
  by_cases hca : c = a
  · subst hca; exact ⟨c, hmine hc⟩
  · exact ⟨c, by rw [hoth c hca]; exact hc⟩

theorem wt_rjPending {s s' : State} {a : Nat} {o : Obs} (h : WakeTInv s) (hh : HolderInv s) (hw : WfInv s) (hf : FullInv s) (hp : ParkInv s)
    (act : Act) (ha : s.acts[a]? = some act) (hc : act.child = none) (q j : Nat) (k : Pc)
    (hpc : act.pc = .rjPending q j k) (hs : stepAct s a = some (s', o)) : WakeTInv s' := by
  have hthr := threadOf_stepAct hs
  wk_open
  have hk := caller_cont_noneT (by have := hw a; rw [hpca, hpc] at this; simpa [Pc.callerOk] using this : k.plainFor q = true)
  have hold : (s.pcAt a).holds q = true := by rw [hpca, hpc]; simpa [Pc.holds] using hk.2.2
  have hWk : ∀ pc' : Pc, (∀ q' t, k.wakesT q' t = true → pc'.wakesT q' t = true) → ∀ q' t, (s.pcAt a).wakesT q' t = true → pc'.wakesT q' t = true := by
    intro pc' hx q' t hq'; rw [hpca, hpc] at hq'; exact hx q' t (by simpa [Pc.wakesT] using hq')
  split at hs
  · simp at hs
  · next v hv =>
    try dsimp only at hs
    split at hs
    · -- the caller parks
      wk_fin
      have hlen := lt_of_getElem?_some hv
      have hlt' : a < (s.setQ q { v with state := (runOnePending v.state).1 }).acts.length := by simpa using hlt
      have hoth : ∀ b, b ≠ a → ((s.setQ q { v with state := (runOnePending v.state).1 }).goto a (.rjParkCheck q j k)).pcAt b = s.pcAt b := by sim_oth
      have hmine : ∀ q' t, (s.pcAt a).wakesT q' t = true → (((s.setQ q { v with state := (runOnePending v.state).1 }).goto a (.rjParkCheck q j k)).pcAt a).wakesT q' t = true := by
        intro q' t hq'; rw [pcAt_goto_self _ hlt']; exact hWk _ (by intro q'' t' hx; simpa [Pc.wakesT] using hx) q' t hq'
      have hregs : ∀ i, ((s.setQ q { v with state := (runOnePending v.state).1 }).goto a (.rjParkCheck q j k)).regW i = s.regW i := fun i => regW_congr (by simp) i
      obtain ⟨o1, o2, o3⟩ := oth_factsT hoth
      refine WakeTInv.step (a := a) h hh hw hf hp hthr o1 o2 o3 ?_ ?_ ?_ ?_ ?_
      · intro q' t hq'; exact Or.inl (hmine q' t hq')
      · intro q' j' t hr; left; unfold RegT at hr ⊢; rw [hregs]; exact hr
      · intro q'
        by_cases hq' : q' = q
        · subst hq'; exact QRelT.hold hold
        · have hne : ¬ q = q' := fun e => hq' e.symm
          exact QRelT.same (by simp [State.qSt, List.getElem?_set, hne])
      · intro q' j' hq' hst
        rw [pcAt_goto_self _ hlt'] at hq'
        simp only [Pc.parkedJ, Option.some.injEq, Prod.mk.injEq] at hq'
        obtain ⟨rfl, rfl⟩ := hq'
        rw [hthr a hlt]
        rcases h.polled a q j (by rw [hpca, hpc]; rfl) with hcl | hcl | hcl
        · left; unfold RegT at hcl ⊢; rw [hregs]; exact hcl
        · exact Or.inr (flightT_mono hoth (hmine q _) hcl)
        · exfalso
          rw [qSt_of hv] at hcl
          have e : v.state = .awokenWhileRunning := Option.some.inj hcl
          simp [State.qSt, hlen, e, runOnePending] at hst
      · intro q' j' hq'
        rw [pcAt_goto_self _ hlt'] at hq'
        simp only [Pc.polledT] at hq'
        rw [hk.2.1] at hq'; cases hq'
    · split at hs
      · wk_fin
        exact wt_ownTable h hh hw hf hp hlt hold hv (hWk _ (by intro q' t hq'; simpa [Pc.wakesT] using hq'))
          (by simpa [Pc.parkedJ] using hk.1) (by simpa [Pc.polledT] using hk.2.1) _ rfl rfl (fun j => rfl) hthr
      · split at hs
        · next jb hjb =>
          wk_fin
          refine wt_ownTable h hh hw hf hp hlt hold hv (hWk _ (by intro q' t hq'; simpa [Pc.wakesT] using hq')) rfl rfl _ rfl rfl ?_ hthr
          intro j'
          exact regW_setJob_keep (s := s) (v := { jb with ph := .done, ended := true }) rfl hjb rfl j'
        · wk_fin
          exact wt_ownTable h hh hw hf hp hlt hold hv (hWk _ (by intro q' t hq'; simpa [Pc.wakesT] using hq')) rfl rfl _ rfl rfl (fun j => rfl) hthr


theorem wt_rjParkCheck {s s' : State} {a : Nat} {o : Obs} (h : WakeTInv s) (hh : HolderInv s) (hw : WfInv s) (hf : FullInv s) (hp : ParkInv s)
    (act : Act) (ha : s.acts[a]? = some act) (hc : act.child = none) (q j : Nat) (k : Pc)
    (hpc : act.pc = .rjParkCheck q j k) (hs : stepAct s a = some (s', o)) : WakeTInv s' := by
  have hthr := threadOf_stepAct hs
  wk_open
  have hk := caller_cont_noneT (by have := hw a; rw [hpca, hpc] at this; simpa [Pc.callerOk] using this : k.plainFor q = true)
  split at hs
  rotate_left 2
  · split at hs
    all_goals (
      wk_fin
      refine WakeTInv.soft' (a := a) h hh hw hf hp hthr (by sim_oth) ?_ ?_ ?_ ?_ ?_
      · intro q' t hq'; left; rw [hpca, hpc] at hq'; rw [pcAt_goto_self _ (by simpa using hlt)]; simpa [Pc.wakesT] using hq'
      · intro q' j' hq'; rw [pcAt_goto_self _ (by simpa using hlt)] at hq'; simp [Pc.parkedJ] at hq'
      · intro q' j' hq'; rw [pcAt_goto_self _ (by simpa using hlt)] at hq'; simp [Pc.polledT] at hq'
      · intro q' j' t hr; left; unfold RegT at hr ⊢; rw [← hr]
        first
        | (refine regW_congr ?_ j'; first | rfl | (simp; done))
        | (apply regW_setJob_keep (hb := ‹s.jobs[_]? = some _›)
           case hX => simp only [jobs_goto]; rfl
           case hr => rfl)
      · intro q'; left; simp)
  · wk_fin
    refine WakeTInv.soft' (a := a) h hh hw hf hp hthr (by sim_oth) ?_ ?_ ?_ ?_ ?_
    · intro q' t hq'; left; rw [hpca, hpc] at hq'; rw [pcAt_goto_self _ (by simpa using hlt)]; simpa [Pc.wakesT] using hq'
    · intro q' j' hq'; rw [pcAt_goto_self _ (by simpa using hlt)] at hq'; simp only [Pc.parkedJ] at hq'; rw [hk.1] at hq'; cases hq'
    · intro q' j' hq'; rw [pcAt_goto_self _ (by simpa using hlt)] at hq'; simp only [Pc.polledT] at hq'; rw [hk.2.1] at hq'; cases hq'
    · intro q' j' t hr; left; unfold RegT at hr ⊢; rw [← hr]; exact regW_congr (by simp) j'
    · intro q'; left; simp
  · wk_fin
    refine WakeTInv.soft' (a := a) h hh hw hf hp hthr (by sim_oth) ?_ ?_ ?_ ?_ ?_
    · intro q' t hq'; left; rw [hpca, hpc] at hq'; rw [pcAt_goto_self _ (by simpa using hlt)]; simpa [Pc.wakesT] using hq'
    · intro q' j' hq'; rw [pcAt_goto_self _ (by simpa using hlt)] at hq'; rw [hpca, hpc]; simpa [Pc.parkedJ] using hq'
    · intro q' j' hq'; rw [pcAt_goto_self _ (by simpa using hlt)] at hq'; simp only [Pc.polledT] at hq'; rw [hk.2.1] at hq'; cases hq'
    · intro q' j' t hr; left; unfold RegT at hr ⊢; rw [← hr]; exact regW_congr (by simp) j'
    · intro q'; left; simp

theorem wt_wtCs {s s' : State} {a : Nat} {o : Obs} (h : WakeTInv s) (hh : HolderInv s) (hw : WfInv s) (hf : FullInv s) (hp : ParkInv s)
    (act : Act) (ha : s.acts[a]? = some act) (hc : act.child = none) (q th : Nat) (k : Pc)
    (hpc : act.pc = .wtCs q th k) (hs : stepAct s a = some (s', o)) : WakeTInv s' := by
  have hthr := threadOf_stepAct hs
  wk_open
  split at hs
  · simp at hs
  · next v hv =>
    wk_fin
    have hlt' : a < (s.setQ q { v with state := wakeThread v.state }).acts.length := by simpa using hlt
    have hlen := lt_of_getElem?_some hv
    refine WakeTInv.soft' (a := a) h hh hw hf hp hthr (by sim_oth) ?_ ?_ ?_ ?_ ?_
    · intro q' t hq'
      rw [hpca, hpc] at hq'
      by_cases hqq : q' = q
      · subst hqq
        right
        exact ⟨v.state, qSt_of hv, by simp [State.qSt, hlen]⟩
      · left
        rw [pcAt_goto_self _ hlt']
        have hne : ¬ q = q' := fun e => hqq e.symm
        simpa [Pc.wakesT, hne] using hq'
    · intro q' j' hq'
      rw [pcAt_goto_self _ hlt'] at hq'
      rw [hpca, hpc]; simpa [Pc.parkedJ] using hq'
    · intro q' j' hq'
      rw [pcAt_goto_self _ hlt'] at hq'
      rw [hpca, hpc]; simpa [Pc.polledT] using hq'
    · intro q' j' t hr; left; unfold RegT at hr ⊢; rw [← hr]; exact regW_congr (by simp) j'
    · exact hqT_of_set (v' := { v with state := wakeThread v.state }) hv (by simp) wakeThread_wfu wakeThread_aw

theorem wt_waking {s s' : State} {a : Nat} {o : Obs} (h : WakeTInv s) (hh : HolderInv s) (hw : WfInv s) (hf : FullInv s) (hp : ParkInv s)
    (act : Act) (ha : s.acts[a]? = some act) (hc : act.child = none) (ws : List Waker) (k : Pc)
    (hpc : act.pc = .waking ws k) (hs : stepAct s a = some (s', o)) : WakeTInv s' := by
  have hthr := threadOf_stepAct hs
  wk_open
  split at hs
  all_goals (
    wk_fin
    refine WakeTInv.soft' (a := a) h hh hw hf hp hthr (by sim_oth) ?_ ?_ ?_ ?_ ?_
    · intro q' t hq'
      left
      rw [hpca, hpc] at hq'
      rw [pcAt_goto_self _ (by simpa using hlt)]
      simp only [Pc.wakesT, List.contains_cons, List.contains_nil, Bool.or_eq_true, beq_iff_eq, Bool.false_or, Bool.and_eq_true] at hq' ⊢
      first
      | exact hq'
      | (rcases hq' with (e | e) | e
         · first | (left; cases e; exact ⟨rfl, rfl⟩) | (cases e)
         · first | exact Or.inr (Or.inl e) | exact Or.inl e
         · first | exact Or.inr (Or.inr e) | exact Or.inr e)
    · intro q' j' hq'
      rw [pcAt_goto_self _ (by simpa using hlt)] at hq'
      rw [hpca, hpc]; simpa [Pc.parkedJ] using hq'
    · intro q' j' hq'
      rw [pcAt_goto_self _ (by simpa using hlt)] at hq'
      rw [hpca, hpc]; simpa [Pc.polledT] using hq'
    · intro q' j' t hr; left; unfold RegT at hr ⊢; rw [← hr]; exact regW_congr (by simp) j'
    · intro q'; left; simp [State.qSt])

/-- the event a job awaits fires: its registered waker is taken out of the slot and is now on its way -/
theorem fire_regT {s X : State} {a j0 : Nat} {jb : Job} {pc' : Pc} (hjb : s.jobs[j0]? = some jb)
    (hXj : X.jobs = (s.setJob j0 { jb with reg := none }).jobs) (hXa : X.pcAt a = pc')
    (hw : ∀ q t, jb.reg = some (.thread q t) → pc'.wakesT q t = true) :
    ∀ q j t, RegT s q j t → RegT X q j t ∨ FlightT X q t := by
  intro q j t hr
  by_cases hj : j = j0
  · subst hj
    right
    refine ⟨a, ?_⟩
    rw [hXa]
    apply hw
    simpa [RegT, State.regW, hjb] using hr
  · left
    unfold RegT at hr ⊢
    rw [← hr]
    simp only [State.regW, hXj, State.setJob, List.getElem?_set]
    have : ¬ j0 = j := fun e => hj e.symm
    simp [this]

set_option hygiene false in
macro "wt_plain" : tactic => `(tactic| (
  refine WakeTInv.soft' (a := a) h hh hw hf hp hthr ?_ ?_ ?_ ?_ ?_ ?_
  · sim_oth
  · wt_W
  · wt_P
  · wt_L
  · wt_reg
  · wt_q))

theorem wt_openSend {s s' : State} {a : Nat} {o : Obs} (h : WakeTInv s) (hh : HolderInv s) (hw : WfInv s) (hf : FullInv s) (hp : ParkInv s)
    (act : Act) (ha : s.acts[a]? = some act) (hc : act.child = none) (g : Nat) (k : Pc)
    (hpc : act.pc = .openSend g k) (hs : stepAct s a = some (s', o)) : WakeTInv s' := by
  have hthr := threadOf_stepAct hs
  wk_open
  split at hs
  · simp at hs
  · next gt hgt =>
    split at hs
    · wk_fin; wt_plain
    · next op rest hwait =>
      try dsimp only at hs
      split at hs
      · repeat' split at hs
        all_goals (try (simp at hs; done))
        all_goals (simp only [Option.some.injEq, Prod.mk.injEq] at hs; obtain ⟨rfl, _⟩ := hs)
        all_goals wt_plain
      · next j0 hj0 =>
        split at hs
        · simp at hs
        · next jb hjb =>
          try dsimp only at hs
          split at hs
          · next w hwreg =>
            wk_fin
            refine WakeTInv.soft' (a := a) h hh hw hf hp hthr (by sim_oth) ?_ ?_ ?_ ?_ ?_
            · wt_W
            · wt_P
            · wt_L
            · refine fire_regT (a := a) hjb (by simp [State.setJob]) (pcAt_goto_self _ (by simpa using hlt)) ?_
              intro q t hq
              rw [hwreg] at hq
              cases hq
              simp [Pc.wakesT]
            · wt_q
          · next hwreg =>
            wk_fin
            refine WakeTInv.soft' (a := a) h hh hw hf hp hthr (by sim_oth) ?_ ?_ ?_ ?_ ?_
            · wt_W
            · wt_P
            · wt_L
            · refine fire_regT (a := a) hjb (by simp [State.setJob]) (pcAt_goto_self _ (by simpa using hlt)) ?_
              intro q t hq
              rw [hwreg] at hq
              cases hq
            · wt_q

theorem wt_resumeSend {s s' : State} {a : Nat} {o : Obs} (h : WakeTInv s) (hh : HolderInv s) (hw : WfInv s) (hf : FullInv s) (hp : ParkInv s)
    (act : Act) (ha : s.acts[a]? = some act) (hc : act.child = none) (op : Nat) (k : Pc)
    (hpc : act.pc = .resumeSend op k) (hs : stepAct s a = some (s', o)) : WakeTInv s' := by
  have hthr := threadOf_stepAct hs
  wk_open
  split at hs
  · simp at hs
  · next j0 hj0 =>
    split at hs
    · simp at hs
    · next jb hjb =>
      split at hs
      · next op' g fs r hk =>
        split at hs
        · simp at hs
        · next gt hgt =>
          try dsimp only at hs
          split at hs
          · next w hwreg =>
            wk_fin
            refine WakeTInv.soft' (a := a) h hh hw hf hp hthr (by sim_oth) ?_ ?_ ?_ ?_ ?_
            · wt_W
            · wt_P
            · wt_L
            · refine fire_regT (a := a) hjb (by simp [State.setJob]) (pcAt_goto_self _ (by simpa using hlt)) ?_
              intro q t hq
              rw [hwreg] at hq
              cases hq
              simp [Pc.wakesT]
            · wt_q
          · next hwreg =>
            wk_fin
            refine WakeTInv.soft' (a := a) h hh hw hf hp hthr (by sim_oth) ?_ ?_ ?_ ?_ ?_
            · wt_W
            · wt_P
            · wt_L
            · refine fire_regT (a := a) hjb (by simp [State.setJob]) (pcAt_goto_self _ (by simpa using hlt)) ?_
              intro q t hq
              rw [hwreg] at hq
              cases hq
            · wt_q
      · simp at hs

/-- the poll that registers the context's waker with the event the job awaits -/
theorem wt_register {s : State} {a j : Nat} {jb : Job} {c : Ctx} {k : Pc} {act : Act}
    (h : WakeTInv s) (hh : HolderInv s) (hw : WfInv s) (hf : FullInv s) (hp : ParkInv s)
    (ha : s.acts[a]? = some act) (hpc : act.pc = .jobAwait j c k) (hjb : s.jobs[j]? = some jb) :
    WakeTInv ((s.setJob j { jb with reg := some (ctxWaker act.thread c) }).goto a (ctxPending j k c)) := by
  have hlt : a < s.acts.length := lt_of_getElem?_some ha
  have hpca := pcAt_of ha
  have hlt' : a < (s.setJob j { jb with reg := some (ctxWaker act.thread c) }).acts.length := by simpa using hlt
  have hjlt : j < s.jobs.length := lt_of_getElem?_some hjb
  have hoth : ∀ b, b ≠ a → ((s.setJob j { jb with reg := some (ctxWaker act.thread c) }).goto a (ctxPending j k c)).pcAt b = s.pcAt b := by
    intro b hb; rw [pcAt_goto_ne _ hb]; rfl
  have hqst : ∀ i, ((s.setJob j { jb with reg := some (ctxWaker act.thread c) }).goto a (ctxPending j k c)).qSt i = s.qSt i := by intro i; simp
  have hregne : ∀ i, i ≠ j → ((s.setJob j { jb with reg := some (ctxWaker act.thread c) }).goto a (ctxPending j k c)).regW i = s.regW i := by
    intro i hi
    have : ¬ j = i := fun e => hi e.symm
    simp [State.regW, State.setJob, List.getElem?_set, this]
  have hregj : ((s.setJob j { jb with reg := some (ctxWaker act.thread c) }).goto a (ctxPending j k c)).regW j = some (ctxWaker act.thread c) := by
    simp [State.regW, State.setJob, List.getElem?_set, hjlt]
  have hrun : (s.pcAt a).runningQ = some (j, c.q) := by rw [hpca, hpc]; rfl
  have hthr : ∀ b, b < s.acts.length → ((s.setJob j { jb with reg := some (ctxWaker act.thread c) }).goto a (ctxPending j k c)).threadOf b = s.threadOf b := by
    intro b _; simp
  obtain ⟨o1, o2, o3⟩ := oth_factsT hoth
  refine WakeTInv.step (a := a) h hh hw hf hp hthr o1 o2 o3 ?_ ?_ ?_ ?_ ?_
  · intro q t hq
    left
    rw [hpca, hpc] at hq
    rw [pcAt_goto_self _ hlt']
    cases c <;> simp_all [Pc.wakesT, ctxPending]
  · intro q j' t hr
    by_cases hj : j' = j
    · subst hj; exact Or.inr (Or.inr ⟨c.q, hrun⟩)
    · left; unfold RegT at hr ⊢; rw [hregne j' hj]; exact hr
  · intro q; exact QRelT.same (hqst q)
  · intro q j' hq hst
    rw [pcAt_goto_self _ hlt'] at hq
    cases c with
    | caller q0 =>
      have hk := caller_cont_noneT (by have := hw a; rw [hpca, hpc] at this; simpa [Pc.callerOk] using this : k.plainFor q0 = true)
      simp only [ctxPending, Pc.parkedJ] at hq
      rw [hk.1] at hq; cases hq
    | pool p q0 => simp [ctxPending, Pc.parkedJ] at hq
    | task f l q0 => simp [ctxPending, Pc.parkedJ] at hq
  · intro q j' hq
    rw [pcAt_goto_self _ hlt'] at hq
    cases c with
    | caller q0 =>
      simp only [ctxPending, Pc.polledT, Option.some.injEq, Prod.mk.injEq] at hq
      obtain ⟨rfl, rfl⟩ := hq
      left
      unfold RegT
      rw [hregj, hthr a hlt, threadOf_of ha]; rfl
    | pool p q0 => simp [ctxPending, Pc.polledT] at hq
    | task f l q0 => simp [ctxPending, Pc.polledT] at hq

theorem wt_jobAwait {s s' : State} {a : Nat} {o : Obs} (hnt : NoTaskInv s) (h : WakeTInv s) (hh : HolderInv s) (hw : WfInv s) (hf : FullInv s) (hp : ParkInv s)
    (act : Act) (ha : s.acts[a]? = some act) (hc : act.child = none) (j : Nat) (c : Ctx) (k : Pc)
    (hpc : act.pc = .jobAwait j c k) (hs : stepAct s a = some (s', o)) : WakeTInv s' := by
  have hthr := threadOf_stepAct hs
  wk_open
  split at hs
  · simp at hs
  · next jb hjb =>
    have hns : jb.kind.isSlot = false := hnt.jobs jb (List.mem_of_getElem? hjb)
    try dsimp only at hs
    repeat' split at hs
    all_goals (try (simp at hs; done))
    all_goals (simp only [Option.some.injEq, Prod.mk.injEq] at hs; obtain ⟨rfl, _⟩ := hs)
    all_goals (first
      | wt_plain
      | exact wt_register h hh hw hf hp ha hpc hjb
      | (exfalso; simp_all [JobKind.isSlot]; done))

theorem wt_stSpawn {s s' : State} {a : Nat} {o : Obs} (h : WakeTInv s) (hh : HolderInv s) (hw : WfInv s) (hf : FullInv s) (hp : ParkInv s)
    (act : Act) (ha : s.acts[a]? = some act) (hc : act.child = none) (m : Nat) (k : Pc)
    (hpc : act.pc = .stSpawn m k) (hs : stepAct s a = some (s', o)) : WakeTInv s' := by
  have hthr := threadOf_stepAct hs
  wk_open
  split at hs
  · simp at hs
  · split at hs
    · wk_fin
      have hdead : ∀ b, ¬ b < s.acts.length → s.pcAt b = .dead := by
        intro b hb
        have : s.acts[b]? = none := List.getElem?_eq_none (Nat.le_of_not_lt hb)
        simp [State.pcAt, this]
      have hlt2 : a < s.acts.length + 1 := by omega
      refine WakeTInv.soft h hh hw hf hp hthr ?_ ?_ ?_ ?_ ?_
      · intro b q t hb
        left
        by_cases hba : b = a
        · subst hba
          rw [pcAt_goto_self _ (by simpa using hlt2)]
          rw [hpca, hpc] at hb; simpa [Pc.wakesT] using hb
        · rw [pcAt_goto_ne _ hba, pcAt_spawned]
          by_cases hbl : b < s.acts.length
          · simp [hbl, hb]
          · rw [hdead b hbl] at hb; simp [Pc.wakesT] at hb
      · intro b q j hb
        by_cases hba : b = a
        · subst hba
          rw [pcAt_goto_self _ (by simpa using hlt2)] at hb
          rw [hpca, hpc]; simpa [Pc.parkedJ] using hb
        · rw [pcAt_goto_ne _ hba, pcAt_spawned] at hb
          by_cases hbl : b < s.acts.length
          · simpa [hbl] using hb
          · by_cases hbe : b = s.acts.length
            · simp [hbe, Pc.parkedJ] at hb
            · simp [hbl, hbe, Pc.parkedJ] at hb
      · intro b q j hb
        by_cases hba : b = a
        · subst hba
          rw [pcAt_goto_self _ (by simpa using hlt2)] at hb
          rw [hpca, hpc]; simpa [Pc.polledT] using hb
        · rw [pcAt_goto_ne _ hba, pcAt_spawned] at hb
          by_cases hbl : b < s.acts.length
          · simpa [hbl] using hb
          · by_cases hbe : b = s.acts.length
            · simp [hbe, Pc.polledT] at hb
            · simp [hbl, hbe, Pc.polledT] at hb
      · intro q j t hr; left; unfold RegT at hr ⊢; rw [← hr]; exact regW_congr (by simp) j
      · intro q; left; simp [State.qSt]
    · wk_fin
      wt_plain

set_option maxHeartbeats 4000000 in
set_option maxRecDepth 8000 in
theorem wakeTInv_stepAct {s s' : State} {a : Nat} {o : Obs} (hnt : NoTaskInv s) (hh : HolderInv s) (hw : WfInv s) (hf : FullInv s) (hp : ParkInv s)
    (h : WakeTInv s) (hs : stepAct s a = some (s', o)) : WakeTInv s' := by
  have hs0 := hs
  have hthr := threadOf_stepAct hs
  unfold stepAct at hs
  split at hs
  · simp at hs
  next act ha =>
  split at hs
  · simp at hs
  next hchild =>
  have hlt : a < s.acts.length := lt_of_getElem?_some ha
  have hpca := pcAt_of ha
  have hntw := hnt.pcs a
  rw [hpca] at hntw
  have hc : act.child = none := by
    cases hcc : act.child <;> simp_all
  split at hs
  all_goals (try (simp at hs; done))
  all_goals (try (first
      | exact wt_sdPush h hh hw hf hp act ha hc _ _ (by assumption) hs0
      | exact wt_siIdle h hh hw hf hp act ha hc _ _ (by assumption) hs0
      | exact wt_sdIdle h hh hw hf hp act ha hc _ (by assumption) hs0
      | exact wt_sbStealIdle h hh hw hf hp act ha hc _ _ (by assumption) hs0
      | exact wt_rjDequeue h hh hw hf hp act ha hc _ _ (by assumption) hs0
      | exact wt_pdDequeue h hh hw hf hp act ha hc _ _ (by assumption) hs0
      | exact wt_pdExit h hh hw hf hp act ha hc _ _ (by assumption) hs0
      | exact wt_rjPending h hh hw hf hp act ha hc _ _ _ (by assumption) hs0
      | exact wt_rjParkCheck h hh hw hf hp act ha hc _ _ _ (by assumption) hs0
      | exact wt_pdRequeue h hh hw hf hp act ha hc _ _ _ (by assumption) hs0
      | exact wt_pdPending h hh hw hf hp act ha hc _ _ (by assumption) hs0
      | exact wt_wtCs h hh hw hf hp act ha hc _ _ _ (by assumption) hs0
      | exact wt_waking h hh hw hf hp act ha hc _ _ (by assumption) hs0
      | exact wt_openSend h hh hw hf hp act ha hc _ _ (by assumption) hs0
      | exact wt_resumeSend h hh hw hf hp act ha hc _ _ (by assumption) hs0
      | exact wt_jobAwait hnt h hh hw hf hp act ha hc _ _ _ (by assumption) hs0
      | exact wt_stSpawn h hh hw hf hp act ha hc _ _ (by assumption) hs0))
  all_goals (try dsimp only at hs)
  all_goals (repeat' split at hs)
  all_goals (try (simp at hs; done))
  all_goals (try (simp only [Option.some.injEq, Prod.mk.injEq] at hs; obtain ⟨rfl, _⟩ := hs))
  all_goals (try (rw [‹act.pc = _›] at hntw; simp [Pc.noTask] at hntw; done))
  all_goals (first
      | (refine WakeTInv.soft' (a := a) h hh hw hf hp hthr ?_ ?_ ?_ ?_ ?_ ?_
         · sim_oth
         · wt_W
         · wt_P
         · wt_L
         · wt_reg
         · wt_q)
      | skip)
  done

end Desync
