/-
SlotInv is preserved by every internal step.
-/
import DesyncModel.Inv.Slot
import DesyncModel.Inv.JobMono
namespace Desync
open Gen

theorem slotBegun_mono {s X : State} (hm : JobMono s X) {u : Nat} (h : slotBegun s u) : slotBegun X u := by
  obtain ⟨j, jb, r, h1, h2, h3⟩ := h
  obtain ⟨jb', a1, a2, _, a4, _⟩ := hm j jb h1
  exact ⟨j, jb', r, a1, by rw [a2]; exact h2, a4 h3⟩

/-- the step rewrites sync-future `u` (on a state `Y` with the sync-futures of `s`) -/
theorem SlotInv.setSf {s Y X : State} {u : Nat} {sf v : SyncFut} (h : SlotInv s) (hm : JobMono s X) (hY : Y.sfs = s.sfs)
    (hv : s.sfs[u]? = some sf) (hX : X.sfs = (Y.setSf u v).sfs)
    (hB : v.userBegun = true → sf.userBegun = true ∨ v.readySent = true)
    (hR : v.readySent = true → sf.readySent = true ∨ slotBegun X u)
    (hR0 : sf.readySent = true → v.readySent = true) : SlotInv X := by
  have hvY : Y.sfs[u]? = some sf := by rw [hY]; exact hv
  have eB : ∀ i, X.sfB i = if i = u then v.userBegun else s.sfB i := fun i => by
    rw [sfB_congr hX, sfB_setSf hvY]; split <;> first | rfl | exact sfB_congr hY i
  have eR : ∀ i, X.sfR i = if i = u then v.readySent else s.sfR i := fun i => by
    rw [sfR_congr hX, sfR_setSf hvY]; split <;> first | rfl | exact sfR_congr hY i
  refine SlotInv.step h ?_ ?_ ?_ (fun i hi => slotBegun_mono hm hi)
  · intro i hi
    rw [eB] at hi
    rw [eR]
    by_cases e : i = u
    · subst e
      simp only [↓reduceIte] at hi ⊢
      rcases hB hi with h1 | h1
      · left; rw [sfB_of hv]; exact h1
      · right; exact h1
    · simp only [e, ↓reduceIte] at hi ⊢
      exact Or.inl hi
  · intro i hi
    rw [eR] at hi
    by_cases e : i = u
    · subst e
      simp only [↓reduceIte] at hi
      rcases hR hi with h1 | h1
      · left; rw [sfR_of hv]; exact h1
      · right; exact h1
    · simp only [e, ↓reduceIte] at hi
      exact Or.inl hi
  · intro i hi
    rw [eR]
    by_cases e : i = u
    · subst e
      simp only [↓reduceIte]
      rw [sfR_of hv] at hi; exact hR0 hi
    · simp only [e, ↓reduceIte]; exact hi

theorem sfs_dequeue (s : State) (q a : Nat) : (s.dequeue q a).1.sfs = s.sfs := by
  unfold State.dequeue
  split
  · split
    · split <;> simp
    · rfl
  · rfl

/-- the slot job announces its slot in the step in which it is begun -/
theorem SlotInv.announce {s X : State} {j u r : Nat} {jb : Job} {sf v : SyncFut} {jb' : Job} (h : SlotInv s) (hm : JobMono s X)
    (hv : s.sfs[u]? = some sf) (hX : X.sfs = ((s.setJob j jb').setSf u v).sfs)
    (hjb : s.jobs[j]? = some jb) (hk : jb.kind = .slot u r) (hXj : X.jobs = (s.setJob j jb').jobs) (hk' : jb'.kind = jb.kind) (hb' : jb'.begun = true)
    (hvB : v.userBegun = sf.userBegun) (hvR : v.readySent = true) : SlotInv X := by
  have hlt : j < s.jobs.length := (List.getElem?_eq_some_iff.mp hjb).1
  have hXj' : X.jobs[j]? = some jb' := by rw [hXj]; simp [State.setJob, hlt]
  exact SlotInv.setSf (Y := s.setJob j jb') h hm (by simp) hv hX (fun hh => Or.inl (hvB ▸ hh))
    (fun _ => Or.inr ⟨j, jb', r, hXj', by rw [hk', hk], hb'⟩) (fun _ => hvR)

/-- the step leaves the sync-futures alone -/
theorem SlotInv.keep {s X : State} (h : SlotInv s) (hm : JobMono s X) (hs : X.sfs = s.sfs) : SlotInv X :=
  SlotInv.frame h hs (fun _ hu => slotBegun_mono hm hu)

set_option maxHeartbeats 4000000 in
set_option maxRecDepth 8000 in
theorem slotInv_stepAct {s s' : State} {a : Nat} {o : Obs} (h : SlotInv s) (hs : stepAct s a = some (s', o)) : SlotInv s' := by
  have hm := jobMono_stepAct hs
  unfold stepAct at hs
  split at hs
  · simp at hs
  next act ha =>
  split at hs
  · simp at hs
  next hchild =>
  split at hs
  all_goals (try (simp at hs; done))
  all_goals (try dsimp only at hs)
  all_goals (repeat' split at hs)
  all_goals (try (simp at hs; done))
  all_goals (try (simp only [Option.some.injEq, Prod.mk.injEq] at hs; obtain ⟨rfl, _⟩ := hs))
  all_goals (first
      | (refine SlotInv.keep h hm ?_; first | rfl | (simp; done) | (simp [sfs_dequeue]; done) | exact sfs_dequeue _ _ _ | (simp only [sfs_goto, sfs_setQ, sfs_pushBack]; rfl))
      | (apply SlotInv.announce h hm
         case hX => first | (simp only [sfs_goto, sfs_setAct, sfs_setGate]; done) | (simp only [sfs_goto, sfs_setAct, sfs_setGate]; rfl) | rfl
         case hv => assumption
         case hjb => assumption
         case hk => assumption
         case hXj => first | (simp only [jobs_goto, jobs_setSf]; done) | (simp only [jobs_goto, jobs_setSf]; rfl) | rfl
         case hk' => rfl
         case hb' => rfl
         case hvB => rfl
         case hvR => rfl)
      | (apply SlotInv.setSf h hm
         case hX => first | (simp only [sfs_goto, sfs_setAct, sfs_setGate]; done) | (simp only [sfs_goto, sfs_setAct, sfs_setGate]; rfl) | rfl
         case hv => assumption
         case hY => first | rfl | (simp; done)
         case hB => first | exact fun hh => Or.inl hh | (intro _; right; assumption)
         case hR => first
                    | exact fun hh => Or.inl hh
                    | (intro _; right; rename_i jb _ _ _ _ _ _; exact ⟨_, { jb with begun := true }, _, by simp [State.setJob, lt_of_getElem?_some ‹_›], by assumption, rfl⟩)
         case hR0 => first | exact id | exact fun _ => rfl)
      | skip)

end Desync
