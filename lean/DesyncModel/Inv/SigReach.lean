/-
SigInv holds in every reachable state; consequences: a job is signalled at most once, and only by the activity that runs it.
-/
import DesyncModel.Inv.SigStep
namespace Desync
open Gen

theorem sigInv_init (nq ng max : Nat) : SigInv (initState nq ng max) := by
  refine ⟨?_, ?_⟩
  · intro a j q hr hs; simp [initState, State.jobSig] at hs
  · intro q l j hl hm
    simp only [initState, State.qjobs, List.getElem?_replicate] at hl
    split at hl <;> simp at hl
    subst hl; simp at hm

theorem sigInv_initP (ps : List Bool) (ng max : Nat) : SigInv (initStateP ps ng max) := by
  refine ⟨?_, ?_⟩
  · intro a j q hr hs; simp [initStateP, initState, State.jobSig] at hs
  · intro q l j hl hm; rw [qjobs_initP hl] at hm; cases hm

theorem sigInv_setChild {s : State} (h : SigInv s) (p : Nat) (c : Option Nat) :
    SigInv (match s.acts[p]? with | some pv => s.setAct p { pv with child := c } | none => s) := by
  split
  · next pv hpv =>
    exact SigInv.of_eq h (fun b => pcAt_setAct_samepc _ p pv { pv with child := c } hpv rfl b) (fun _ => rfl) (fun _ => rfl)
  · exact h

theorem sigInv_addAct {s s0 : State} (h : SigInv s) (t : Nat) (parent : Option Nat) (pc : Pc) (once : Bool)
    (hpc2 : pc.runningQ = none) (hacts : s0.acts = s.acts) (hj : s0.jobs = s.jobs) (hq : s0.qs = s.qs) :
    SigInv (addAct s0 t parent pc once).1 := by
  have h0 : SigInv s0 := SigInv.congr h hacts hj hq
  let n : Act := { thread := t, pc := pc, parent := parent, child := none, woken := false, result := none, mode := .await, once := once }
  have h1 : SigInv ({ s0 with acts := s0.acts ++ [n], nextOp := s0.nextOp + 1 } : State) := SigInv.append_act h0 rfl hpc2 rfl rfl
  unfold addAct
  cases parent with
  | none => exact h1
  | some p =>
    simp only
    have := sigInv_setChild h1 p (some s0.acts.length)
    split
    · next pv hpv => simp only [n, hpv] at this; exact this
    · exact h1

theorem sigInv_invoke {s s' : State} {t a : Nat} {parent : Option Nat} {c : Call} (h : SigInv s)
    (hs : invoke s t parent c = some (s', a)) : SigInv s' := by
  unfold invoke at hs
  cases c <;> simp only at hs
  all_goals (repeat' split at hs)
  all_goals (try (simp at hs; done))
  all_goals (
    have hs' := congrArg Prod.fst (Option.some.inj hs)
    simp only at hs'
    subst hs'
    refine sigInv_addAct h t parent _ _ (by simp [Pc.runningQ]) ?_ ?_ ?_ <;>
      (first | rfl | (split <;> (try split) <;> rfl)))

theorem sigInv_bodyEnd {s s' : State} {a : Nat} {o : Obs} (h : SigInv s) (hs : bodyEnd s a = some (s', o)) : SigInv s' := by
  unfold bodyEnd at hs
  split at hs
  · next act ha =>
    split at hs
    · simp at hs
    · split at hs
      · next op k hpc =>
        obtain ⟨rfl, _⟩ := Prod.mk.inj (Option.some.inj hs)
        exact SigInv.frame h (fun _ => rfl) (fun _ => rfl) (fun _ => rfl) (Or.inr ⟨by rw [pcAt_of ha, hpc]; rfl, by rw [pcAt_of ha, hpc]; exact id⟩)
      · simp at hs
  · simp at hs

theorem sigInv_spuriousUnpark {s s' : State} {a : Nat} {o : Obs} (h : SigInv s) (hs : spuriousUnpark s a = some (s', o)) : SigInv s' := by
  unfold spuriousUnpark at hs
  split at hs
  · next act ha =>
    split at hs
    · next q j k hpc =>
      obtain ⟨rfl, _⟩ := Prod.mk.inj (Option.some.inj hs)
      exact SigInv.frame h (fun _ => rfl) (fun _ => rfl) (fun _ => rfl) (Or.inr ⟨by rw [pcAt_of ha, hpc]; rfl, by rw [pcAt_of ha, hpc]; exact id⟩)
    · simp at hs
  · simp at hs

theorem sigInv_spuriousPoll {s s' : State} {a : Nat} (h : SigInv s) (hs : spuriousPoll s a = some s') : SigInv s' := by
  unfold spuriousPoll at hs
  split at hs
  · next act ha =>
    split at hs
    · cases Option.some.inj hs
      exact SigInv.frame h (fun _ => rfl) (fun _ => rfl) (fun _ => rfl) (Or.inl rfl)
    · cases Option.some.inj hs
      exact SigInv.frame h (fun _ => rfl) (fun _ => rfl) (fun _ => rfl) (Or.inl rfl)
    · simp at hs
  · simp at hs

theorem sigInv_ret {s s' : State} {a r : Nat} (h : SigInv s) (hs : retStep s a = some (s', r)) : SigInv s' := by
  unfold retStep at hs
  split at hs
  · next act ha =>
    split at hs
    · next hpc =>
      obtain ⟨rfl, _⟩ := Prod.mk.inj (Option.some.inj hs)
      have h1 : SigInv (s.setAct a { act with pc := .dead }) :=
        SigInv.frame_setAct h (fun _ => rfl) (fun _ => rfl) (fun _ => rfl) (Or.inl rfl)
      split
      · next p hp => exact sigInv_setChild h1 p none
      · exact h1
    · simp at hs
  · simp at hs

/-- **SigInv holds in every reachable state.** -/
theorem sigInv_reachable {s : State} (hr : Reachable s) : SigInv s := by
  induction hr with
  | init nq ng max => exact sigInv_init nq ng max
  | initP ps ng max => exact sigInv_initP ps ng max
  | step l hprev hstep ih =>
    have hh := holderInv_reachable hprev
    obtain ⟨hw, hf⟩ := fullInv_reachable hprev
    cases l with
    | act a =>
      simp only [next, Option.map_eq_some_iff] at hstep
      obtain ⟨⟨s1, o⟩, hs, rfl⟩ := hstep
      exact sigInv_stepAct hh hw hf ih hs
    | invoke t parent c =>
      simp only [next] at hstep
      split at hstep
      · simp only [Option.map_eq_some_iff] at hstep
        obtain ⟨⟨s1, a⟩, hs, rfl⟩ := hstep
        exact sigInv_invoke ih hs
      · simp at hstep
    | bodyEnd a =>
      simp only [next, Option.map_eq_some_iff] at hstep
      obtain ⟨⟨s1, o⟩, hs, rfl⟩ := hstep
      exact sigInv_bodyEnd ih hs
    | ret a =>
      simp only [next, Option.map_eq_some_iff] at hstep
      obtain ⟨⟨s1, r⟩, hs, rfl⟩ := hstep
      exact sigInv_ret ih hs
    | spuriousUnpark a =>
      simp only [next, Option.map_eq_some_iff] at hstep
      obtain ⟨⟨s1, o⟩, hs, rfl⟩ := hstep
      exact sigInv_spuriousUnpark ih hs
    | spuriousPoll a =>
      simp only [next] at hstep
      exact sigInv_spuriousPoll ih hstep

/-- **A job is signalled at most once**: an activity that stands at the signal step of job `j` finds the job unsignalled, in
every reachable state — whichever thread runs the job, however often it was suspended, requeued and taken over. -/
theorem signal_at_most_once {s : State} (hr : Reachable s) {a j : Nat} {c : Ctx} {k : Pc} {jb : Job}
    (hpc : s.pcAt a = .jobSignal j c k) (hj : s.jobs[j]? = some jb) : jb.sig = false := by
  have h := sigInv_reachable hr
  cases hx : jb.sig with
  | false => rfl
  | true =>
    have := h.holders a j c.q (by rw [hpc]; rfl) (by rw [jobSig_of hj]; exact hx)
    rw [hpc] at this
    simp [Pc.postSig] at this

/-- a signalled job is in no queue: it can never be run (and so never be signalled) again -/
theorem signalled_job_not_queued {s : State} (hr : Reachable s) {q j : Nat} {v : JobQ} {jb : Job}
    (hv : s.qs[q]? = some v) (hm : j ∈ v.jobs) (hj : s.jobs[j]? = some jb) : jb.sig = false := by
  have := (sigInv_reachable hr).queued q v.jobs j (qjobs_of hv) hm
  rw [jobSig_of hj] at this
  exact this

end Desync
