/-
I_result (C07, C13): while the result slot of a future holds `Ok`, the operation it belongs to has finished — the slot of a
`future_desync` / `after` / `future_sync` / suspend-completion future is written by the signal step of a job that has ended;
the slot of the future returned by `suspend` (finished_suspending) is written by its suspend job, which has begun (so, by
C02, everything scheduled before the suspend request has ended).
-/
import DesyncModel.Inv.PoolSimBase
import DesyncModel.Inv.JobMono

namespace Desync
open Gen

/-- the suspend jobs whose `finished_suspending` signal the activity is about to send (at most one, at the head; the
continuations are searched too so that a return to a continuation never adds an entry) -/
def Pc.suspSigs : Pc → List Nat
  | .suspSignal j c k => j :: (match c with | .caller _ => k.suspSigs | _ => [])
  | .begin _ k | .body _ k | .unwinding k => k.suspSigs
  | .stReap k | .stScanLock k | .stScan _ k | .stScanHeld _ k | .stScanRel _ _ k
  | .stScanUnlock _ k | .stReadMax k | .stSpawn _ k | .stSpawnRel k => k.suspSigs
  | .rqCs _ k | .rqNotifyAcq _ _ _ k | .rqNotify _ _ _ k | .rqNotifyRel _ _ _ k | .rqPush _ k => k.suspSigs
  | .resumeSend _ k | .waking _ k | .openSend _ k | .wqCs _ k | .wtCs _ _ k | .wtUnpark _ k | .lwCs _ k | .dwCs _ k => k.suspSigs
  | .rjDequeue _ k | .rjPending _ _ k | .rjParkCheck _ _ k | .rjPark _ _ k | .rjParked _ _ k => k.suspSigs
  | .jobStart _ c k | .jobAwait _ c k | .jobBodyDone _ c k | .jobEnd _ c k | .jobSignal _ c k
  | .jobSigDrop _ c k | .jobDrop _ c k | .jobDropNotify _ c k | .suspSigDrop _ c k =>
      (match c with | .caller _ => k.suspSigs | _ => [])
  | .pfPollRel _ next => next.suspSigs
  | .dqWakeWith _ _ _ k => k.suspSigs
  | .fdDrop _ k => k.suspSigs
  | _ => []

@[simp] theorem suspSigs_ctxReady (k : Pc) (c : Ctx) : (ctxReady k c).suspSigs = (match c with | .caller _ => k.suspSigs | _ => []) := by
  cases c <;> simp [ctxReady, Pc.suspSigs]
@[simp] theorem suspSigs_ctxPending (j : Nat) (k : Pc) (c : Ctx) : (ctxPending j k c).suspSigs = (match c with | .caller _ => k.suspSigs | _ => []) := by
  cases c <;> simp [ctxPending, Pc.suspSigs]

/-- job `jb` is entitled to have written `Ok` into the slot of future `r` -/
def Signaller (jb : Job) (r : Nat) : Prop :=
  (jb.kind.res = some r ∧ jb.ended = true) ∨ (∃ op g r', jb.kind = .susp op g r r' ∧ jb.begun = true)

theorem Signaller.mono {jb jb' : Job} {r : Nat} (h : Signaller jb r) (hk : jb'.kind = jb.kind) (hb : jb.begun = true → jb'.begun = true)
    (he : jb.ended = true → jb'.ended = true) : Signaller jb' r := by
  rcases h with ⟨h1, h2⟩ | ⟨op, g, r', h1, h2⟩
  · exact Or.inl ⟨by rw [hk]; exact h1, he h2⟩
  · exact Or.inr ⟨op, g, r', by rw [hk]; exact h1, hb h2⟩

structure ResInv (s : State) : Prop where
  sus : ∀ (a j : Nat), j ∈ (s.pcAt a).suspSigs → ∃ jb : Job, s.jobs[j]? = some jb ∧ jb.begun = true
  ok : ∀ (r : Nat) (fu : Fut), s.futs[r]? = some fu → fu.res = .ok → ∃ (j : Nat) (jb : Job), s.jobs[j]? = some jb ∧ Signaller jb r

/-- the general step: no slot becomes `Ok` (or the job that wrote it is exhibited), the mover's pending suspend signal is
accounted for -/
theorem ResInv.step {s X : State} {a : Nat} (h : ResInv s) (hm : JobMono s X) (hoth : ∀ b, b ≠ a → X.pcAt b = s.pcAt b)
    (hsus : ∀ j : Nat, j ∈ (X.pcAt a).suspSigs → j ∈ (s.pcAt a).suspSigs ∨ ∃ jb : Job, X.jobs[j]? = some jb ∧ jb.begun = true)
    (hf : ∀ (r : Nat) (fu' : Fut), X.futs[r]? = some fu' → fu'.res = .ok → (∃ fu : Fut, s.futs[r]? = some fu ∧ fu.res = .ok) ∨ ∃ (j : Nat) (jb : Job), X.jobs[j]? = some jb ∧ Signaller jb r) :
    ResInv X := by
  constructor
  · intro b j hb
    have key : j ∈ (s.pcAt b).suspSigs ∨ ∃ jb, X.jobs[j]? = some jb ∧ jb.begun = true := by
      by_cases hba : b = a
      · subst hba; exact hsus j hb
      · rw [hoth b hba] at hb; exact Or.inl hb
    rcases key with h1 | h1
    · obtain ⟨jb, h2, h3⟩ := h.sus b j h1
      obtain ⟨jb', h4, _, _, h5, _⟩ := hm j jb h2
      exact ⟨jb', h4, h5 h3⟩
    · exact h1
  · intro r fu' h1 h2
    rcases hf r fu' h1 h2 with ⟨fu, h3, h4⟩ | h3
    · obtain ⟨j, jb, h5, h6⟩ := h.ok r fu h3 h4
      obtain ⟨jb', h7, h8, _, h9, h10⟩ := hm j jb h5
      exact ⟨j, jb', h7, h6.mono h8 h9 h10⟩
    · exact h3

/-- the usual case: the result slots are untouched (or rewritten without producing `Ok`) -/
theorem ok_of_same {s X : State} (h : X.futs = s.futs) :
    ∀ (r : Nat) (fu' : Fut), X.futs[r]? = some fu' → fu'.res = .ok → (∃ fu : Fut, s.futs[r]? = some fu ∧ fu.res = .ok) ∨ ∃ (j : Nat) (jb : Job), X.jobs[j]? = some jb ∧ Signaller jb r :=
  fun r fu' h1 h2 => Or.inl ⟨fu', by rw [← h]; exact h1, h2⟩

theorem ok_of_setFut {s X : State} {f : Nat} {fu v : Fut} (h : X.futs = s.futs.set f v) (hfu : s.futs[f]? = some fu) (hv : v.res = .ok → fu.res = .ok) :
    ∀ (r : Nat) (fu' : Fut), X.futs[r]? = some fu' → fu'.res = .ok → (∃ fu : Fut, s.futs[r]? = some fu ∧ fu.res = .ok) ∨ ∃ (j : Nat) (jb : Job), X.jobs[j]? = some jb ∧ Signaller jb r := by
  intro r fu' h1 h2
  left
  rw [h, List.getElem?_set] at h1
  by_cases hr : f = r
  · subst hr
    simp only [↓reduceIte, lt_of_getElem?_some hfu, Option.some.injEq] at h1
    subst h1
    exact ⟨fu, hfu, hv h2⟩
  · simp only [hr, ↓reduceIte] at h1
    exact ⟨fu', h1, h2⟩

end Desync
