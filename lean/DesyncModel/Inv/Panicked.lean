/-
A panicked object stays panicked and nobody runs it (C15).

Executions may start in states in which some objects have already panicked (`Reachable.initP`): the panic has finished
unwinding and the guard has marked the queue.  From there on: `panicked` is absorbing — no decision table and no runner ever
writes another state into such a queue —, no activity ever owns it and none of its jobs is ever run.  Every other theorem of
the model holds in these executions too (they are about every reachable state), which is the "other objects remain fully
usable" half at the level of the safety properties.
-/
import DesyncModel.Inv.OwnedReach
namespace Desync
open Gen

/-! ### every decision table maps `panicked` to `panicked` -/
theorem desyncPush_pan : (desyncPush .panicked).1 = .panicked := rfl
theorem syncDecide_pan (e : Bool) : (syncDecide .panicked e).1 = .panicked := by cases e <;> rfl
theorem syncNoPanicDecide_pan (e : Bool) : (syncNoPanicDecide .panicked e).1 = .panicked := by cases e <;> rfl
theorem trySyncDecide_pan (e : Bool) : (trySyncDecide .panicked e).1 = .panicked := by cases e <;> rfl
theorem pollDecide_pan (self : Nat) : (pollDecide self .panicked).1 = .panicked := rfl
theorem futureDropDecide_pan (self : Nat) : (futureDropDecide self .panicked).1 = .panicked := rfl
theorem claim_pan : (claim .panicked).1 = .panicked := rfl
theorem reschedule_pan (e : Bool) : (reschedule .panicked e).1 = .panicked := by cases e <;> rfl
theorem nextToRun_pan : (nextToRun .panicked).1 = .panicked := rfl
theorem drainPending_pan : (drainPending .panicked).1 = .panicked := rfl
theorem drainExit_pan (e : Bool) : (drainExit .panicked e).1 = .panicked := by cases e <;> rfl
theorem runOnePending_pan : (runOnePending .panicked).1 = .panicked := rfl
theorem wakeQueue_pan : (wakeQueue .panicked).1 = .panicked := rfl
theorem wakeThread_pan : wakeThread .panicked = .panicked := rfl

/-- `Pan s X`: every queue that is panicked in `s` is panicked in `X` -/
def Pan (s X : State) : Prop := ∀ q, s.qSt q = some .panicked → X.qSt q = some .panicked

theorem Pan.refl (s : State) : Pan s s := fun _ h => h
theorem Pan.same {s Y : State} (hq : Y.qs = s.qs) : Pan s Y := fun q h => by rw [qSt_congr hq]; exact h
theorem Pan.upd {s X Y : State} (h : Pan s X) (hq : Y.qs = X.qs) : Pan s Y := fun q hp => by rw [qSt_congr hq]; exact h q hp
theorem Pan.goto_of {s Y : State} {a : Nat} {pc : Pc} (h : Pan s Y) : Pan s (Y.goto a pc) := Pan.upd h (by simp)
theorem Pan.setAct_of {s Y : State} {a : Nat} {v : Act} (h : Pan s Y) : Pan s (Y.setAct a v) := Pan.upd h (by simp)
theorem Pan.setJob_of {s Y : State} {j : Nat} {v : Job} (h : Pan s Y) : Pan s (Y.setJob j v) := Pan.upd h (by simp)
theorem Pan.setHolder_of {s Y : State} {q : Nat} {x : Option Nat} (h : Pan s Y) : Pan s (Y.setHolder q x) := Pan.upd h (by simp)

/-- a table rewrites the state of queue `q'` (on a state `Y` with the queues of `s`) -/
theorem Pan.table {s Y : State} {q' : Nat} {v v' : JobQ} (hq : Y.qs = s.qs) (hv : s.qs[q']? = some v)
    (hk : v.state = .panicked → v'.state = .panicked) : Pan s (Y.setQ q' v') := by
  intro q hp
  rw [qSt_setQ (by rw [hq]; exact hv)]
  split
  · next e =>
    subst e
    rw [qSt_of hv] at hp
    simp only [Option.some.injEq] at hp
    rw [hk hp]
  · rw [qSt_congr hq]; exact hp

/-- a runner writes a literal state into the queue it owns: that queue is not panicked (an owned queue is in a "somebody
runs it" state) -/
theorem Pan.lit {s Y : State} {q' a : Nat} {st : QState} (hh : HolderInv s) (hq : Y.qs = s.qs) (hold : (s.pcAt a).holds q' = true) :
    Pan s (Y.setQState q' st) := by
  have ho := (hh.iff a q').mp hold
  unfold State.setQState
  split
  · next v hv =>
    have hv' : s.qs[q']? = some v := by rw [← hq]; exact hv
    refine Pan.table hq hv' (fun hpan => ?_)
    have := hh.held a q' v ho hv'
    rw [hpan] at this; simp [QState.held] at this
  · exact Pan.same hq

/-- the table form over a state whose other fields were updated afterwards -/
theorem Pan.table_upd {s Z : State} {q' : Nat} {v v' : JobQ} (hZq : Z.qs = (s.setQ q' v').qs) (hv : s.qs[q']? = some v)
    (hk : v.state = .panicked → v'.state = .panicked) : Pan s Z :=
  Pan.upd (Pan.table rfl hv hk) hZq

set_option hygiene false in
macro "pan_table" : tactic => `(tactic| first
  | exact fun hk => by rw [hk]; exact desyncPush_pan
  | exact fun hk => by rw [hk]; exact syncDecide_pan _
  | exact fun hk => by rw [hk]; exact syncNoPanicDecide_pan _
  | exact fun hk => by rw [hk]; exact trySyncDecide_pan _
  | exact fun hk => by rw [hk]; exact pollDecide_pan _
  | exact fun hk => by rw [hk]; exact futureDropDecide_pan _
  | exact fun hk => by rw [hk]; exact claim_pan
  | exact fun hk => by rw [hk]; exact reschedule_pan _
  | exact fun hk => by rw [hk]; exact nextToRun_pan
  | exact fun hk => by rw [hk]; exact drainPending_pan
  | exact fun hk => by rw [hk]; exact drainExit_pan _
  | exact fun hk => by rw [hk]; exact runOnePending_pan
  | exact fun hk => by rw [hk]; exact wakeQueue_pan
  | exact fun hk => by rw [hk]; exact wakeThread_pan
  | exact id)

set_option hygiene false in
macro "pan_side" : tactic => `(tactic| first
  | rfl | assumption | (simp; done) | (pan_table)
  | (rw [hpca, ‹act.pc = _›]; simp [Pc.holds]; done))

set_option hygiene false in
macro "pan_shape" : tactic => `(tactic| first
  | exact Pan.refl _
  | (refine Pan.same ?_; first | rfl | (simp; done))
  | (apply Pan.table <;> pan_side)
  | (apply Pan.setHolder_of; apply Pan.table <;> pan_side)
  | (apply Pan.setHolder_of; apply Pan.lit hh (a := a) <;> pan_side)
  | (apply Pan.setHolder_of; apply Pan.table_upd <;> pan_side)
  | (apply Pan.table_upd <;> pan_side)
  | (refine Pan.upd (Pan.same (Y := (State.dequeue _ _ _).1) ?_) rfl; first | rfl | (simp; done)))

theorem qs_dequeue_pan (s : State) (q a : Nat) : Pan s (s.dequeue q a).1 := by
  intro q' hp
  rw [qSt_dequeue]; exact hp

set_option maxHeartbeats 4000000 in
set_option maxRecDepth 8000 in
/-- **`panicked` is absorbing for every internal step** -/
theorem pan_stepAct {s s' : State} {a : Nat} {o : Obs} (hh : HolderInv s) (hs : stepAct s a = some (s', o)) : Pan s s' := by
  unfold stepAct at hs
  split at hs
  · simp at hs
  next act ha =>
  split at hs
  · simp at hs
  next hchild =>
  have hpca := pcAt_of ha
  split at hs
  all_goals (try (simp at hs; done))
  all_goals (try dsimp only at hs)
  all_goals (repeat' split at hs)
  all_goals (try (simp at hs; done))
  all_goals (try (simp only [Option.some.injEq, Prod.mk.injEq] at hs; obtain ⟨rfl, _⟩ := hs))
  all_goals (first
      | pan_shape
      | (apply Pan.goto_of; pan_shape)
      | (apply Pan.setAct_of; pan_shape)
      | (apply Pan.goto_of; apply Pan.setJob_of; pan_shape)
      | (apply Pan.goto_of; exact qs_dequeue_pan _ _ _)
      | (apply Pan.goto_of; exact Pan.upd (qs_dequeue_pan _ _ _) rfl)
      | (intro q' hp; simp only [qSt_goto, qSt_setJobPh, qSt_pushFront, qSt_pushBack]; exact hp)
      | skip)

theorem pan_setChild (s : State) (p : Nat) (c : Option Nat) :
    Pan s (match s.acts[p]? with | some pv => s.setAct p { pv with child := c } | none => s) := by
  split
  · exact Pan.setAct_of (Pan.refl s)
  · exact Pan.refl s

theorem pan_addAct (s s0 : State) (h0 : Pan s s0) (t : Nat) (parent : Option Nat) (pc : Pc) (once : Bool) : Pan s (addAct s0 t parent pc once).1 := by
  let n : Act := { thread := t, pc := pc, parent := parent, child := none, woken := false, result := none, mode := .await, once := once }
  have h1 : Pan s ({ s0 with acts := s0.acts ++ [n], nextOp := s0.nextOp + 1 } : State) := Pan.upd h0 rfl
  unfold addAct
  cases parent with
  | none => exact h1
  | some p =>
    simp only
    split
    · exact Pan.setAct_of h1
    · exact h1

theorem pan_invoke {s s' : State} {t a : Nat} {parent : Option Nat} {c : Call} (hs : invoke s t parent c = some (s', a)) : Pan s s' := by
  unfold invoke at hs
  cases c <;> simp only at hs
  all_goals (repeat' split at hs)
  all_goals (try (simp at hs; done))
  all_goals (
    have hs' := congrArg Prod.fst (Option.some.inj hs)
    simp only at hs'
    subst hs'
    refine pan_addAct s _ ?_ t parent _ _
    first
      | exact Pan.refl s
      | exact Pan.same rfl
      | (refine Pan.same ?_; first | rfl | (simp; done) | (split <;> (try split) <;> first | rfl | (simp; done))))

/-- **`panicked` is absorbing**: whatever step the model takes — any activity, any new call, a closure returning, a call
returning, spurious wake-ups — a queue that is panicked stays panicked. -/
theorem panicked_is_absorbing {s s' : State} (hr : Reachable s) (l : Label) (hstep : next s l = some s') : Pan s s' := by
  have hh := holderInv_reachable hr
  cases l with
  | act a =>
    simp only [next, Option.map_eq_some_iff] at hstep
    obtain ⟨⟨s1, o⟩, hs, rfl⟩ := hstep
    exact pan_stepAct hh hs
  | invoke t parent c =>
    simp only [next] at hstep
    split at hstep
    · simp only [Option.map_eq_some_iff] at hstep
      obtain ⟨⟨s1, a⟩, hs, rfl⟩ := hstep
      exact pan_invoke hs
    · simp at hstep
  | bodyEnd a =>
    simp only [next, Option.map_eq_some_iff] at hstep
    obtain ⟨⟨s1, o⟩, hs, rfl⟩ := hstep
    unfold bodyEnd at hs
    split at hs
    · split at hs
      · simp at hs
      · split at hs
        · obtain ⟨rfl, _⟩ := Prod.mk.inj (Option.some.inj hs); exact Pan.goto_of (Pan.refl s)
        · simp at hs
    · simp at hs
  | ret a =>
    simp only [next, Option.map_eq_some_iff] at hstep
    obtain ⟨⟨s1, r⟩, hs, rfl⟩ := hstep
    unfold retStep at hs
    split at hs
    · split at hs
      · obtain ⟨rfl, _⟩ := Prod.mk.inj (Option.some.inj hs)
        split
        · split
          · exact Pan.setAct_of (Pan.setAct_of (Pan.refl s))
          · exact Pan.setAct_of (Pan.refl s)
        · exact Pan.setAct_of (Pan.refl s)
      · simp at hs
    · simp at hs
  | spuriousUnpark a =>
    simp only [next, Option.map_eq_some_iff] at hstep
    obtain ⟨⟨s1, o⟩, hs, rfl⟩ := hstep
    unfold spuriousUnpark at hs
    split at hs
    · split at hs
      · obtain ⟨rfl, _⟩ := Prod.mk.inj (Option.some.inj hs); exact Pan.goto_of (Pan.refl s)
      · simp at hs
    · simp at hs
  | spuriousPoll a =>
    simp only [next] at hstep
    unfold spuriousPoll at hstep
    split at hstep
    · split at hstep
      · cases Option.some.inj hstep; exact Pan.goto_of (Pan.refl s)
      · cases Option.some.inj hstep; exact Pan.goto_of (Pan.refl s)
      · simp at hstep
    · simp at hstep

/-- **Nobody runs a panicked object**: in every reachable state a panicked queue has no owner, no activity's program counter
is inside the code that runs it, and none of its jobs is in the hands of a runner — whatever is scheduled on it is never run. -/
theorem panicked_queue_runs_nothing {s : State} (hr : Reachable s) {q : Nat} {v : JobQ} (hv : s.qs[q]? = some v) (hp : v.state = .panicked) :
    (∀ a, (s.pcAt a).holds q = false) ∧ (∀ (j : Nat) (jb : Job) (a : Nat), s.jobs[j]? = some jb → jb.q = q → jb.ph ≠ Phase.held a) := by
  have hh := holderInv_reachable hr
  have hnone : ∀ a, (s.pcAt a).holds q = false := by
    intro a
    cases hx : (s.pcAt a).holds q with
    | false => rfl
    | true =>
      have := hh.held a q v ((hh.iff a q).mp hx) hv
      rw [hp] at this; simp [QState.held] at this
  refine ⟨hnone, ?_⟩
  intro j jb a hj hq hph
  have := (held_job_owner_holds hr hj hph).1
  rw [hq, hnone a] at this; cases this

/-- non-vacuity: a reachable state with a panicked object and a healthy one -/
example : ∃ s, Reachable s ∧ s.qSt 0 = some .panicked ∧ s.qSt 1 = some .idle :=
  ⟨_, Reachable.initP [true, false] 0 1, rfl, rfl⟩

end Desync
