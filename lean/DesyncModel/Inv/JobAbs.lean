/-
The job invariant over abstract projections, and how it survives what can happen to a job: it is taken from its queue,
put back at the front, finished or destroyed, created held (sync_immediate), created queued, or touched by its runner.

`R a`   = the job activity `a` is running and the queue it runs it for;
`J j`   = phase and queue of job `j`;   `Q q` = the job list of queue `q`;   `O j` = is job `j` open (begun and not ended).
-/
import DesyncModel.Inv.JobProj
namespace Desync
open Gen

structure JobInvF (R : Nat → Option (Nat × Nat)) (J : Nat → Option (Phase × Nat)) (Q : Nat → Option (List Nat)) (O : Nat → Bool) : Prop where
  run1 : ∀ a j q, R a = some (j, q) → J j = some (.held a, q)
  run2 : ∀ a j q, J j = some (.held a, q) → R a = some (j, q)
  queued : ∀ q l j, Q q = some l → j ∈ l → J j = some (.queued, q)
  nodup : ∀ q l, Q q = some l → l.Nodup
  member : ∀ j q, J j = some (.queued, q) → ∃ l, Q q = some l ∧ j ∈ l
  /-- an open job is in the hands of a runner, or it is the head of its queue (a suspended future operation) -/
  open1 : ∀ j, O j = true → (∃ a q, J j = some (.held a, q)) ∨ (∃ q l, J j = some (.queued, q) ∧ Q q = some (j :: l))
  /-- while a job of a queue is in the hands of a runner no queued job of that queue is open -/
  open4 : ∀ j1 j2 a q, J j1 = some (.held a, q) → J j2 = some (.queued, q) → O j2 = false

/-- at most one job per queue is in the hands of a runner (supplied by the run-right invariant) -/
def HeldExcl (J : Nat → Option (Phase × Nat)) : Prop :=
  ∀ j1 j2 a1 a2 q, J j1 = some (.held a1, q) → J j2 = some (.held a2, q) → j1 = j2

theorem JobInvF.frameO {R J Q O O'} (h : JobInvF R J Q O)
    (hO : ∀ i, O' i = true → O i = true ∨ ∃ a q, J i = some (.held a, q)) : JobInvF R J Q O' := by
  obtain ⟨h1, h2, h3, h4, h5, h6, h7⟩ := h
  refine ⟨h1, h2, h3, h4, h5, ?_, ?_⟩
  · intro j hj
    rcases hO j hj with ho | ⟨a, q, hh⟩
    · exact h6 j ho
    · exact Or.inl ⟨a, q, hh⟩
  · intro j1 j2 a q hh hq
    cases hx : O' j2 with
    | false => rfl
    | true =>
      rcases hO j2 hx with ho | ⟨a', q', hh'⟩
      · have := h7 j1 j2 a q hh hq; rw [ho] at this; cases this
      · rw [hq] at hh'; cases hh'

theorem JobInvF.retire {R R' J J' Q O O'} {a j q : Nat} {ph : Phase} (h : JobInvF R J Q O)
    (hold : R a = some (j, q)) (hph : ∀ b, ph ≠ .held b) (hphq : ph ≠ .queued)
    (hR : ∀ b, R' b = if b = a then none else R b)
    (hJ : ∀ i, J' i = if i = j then some (ph, q) else J i)
    (hO : ∀ i, O' i = if i = j then false else O i) : JobInvF R' J' Q O' := by
  obtain ⟨h1, h2, h3, h4, h5, h6, h7⟩ := h
  have hja := h1 a j q hold
  refine ⟨?_, ?_, ?_, h4, ?_, ?_, ?_⟩
  · grind
  · grind
  · grind
  · intro i q' hi
    rw [hJ] at hi
    split at hi
    · simp at hi; exact absurd hi.1 hphq
    · exact h5 i q' hi
  · intro i hi
    rw [hO] at hi
    split at hi
    · cases hi
    · next hne =>
      rcases h6 i hi with ⟨a', q', hh⟩ | ⟨q', l, hq', hl⟩
      · exact Or.inl ⟨a', q', by rw [hJ]; simp [hne, hh]⟩
      · exact Or.inr ⟨q', l, by rw [hJ]; simp [hne, hq'], hl⟩
  · intro j1 j2 a' q' hh hq'
    rw [hJ] at hh hq'
    split at hh
    · simp at hh; exact absurd hh.1 (hph a')
    · split at hq'
      · simp at hq'; exact absurd hq'.1 hphq
      · next hne2 => rw [hO]; simp [hne2]; exact h7 j1 j2 a' q' hh hq'

theorem JobInvF.requeue {R R' J J' Q Q' O} {a j q : Nat} {l0 : List Nat} (h : JobInvF R J Q O) (hx : HeldExcl J)
    (hold : R a = some (j, q)) (hq0 : Q q = some l0)
    (hR : ∀ b, R' b = if b = a then none else R b)
    (hJ : ∀ i, J' i = if i = j then some (.queued, q) else J i)
    (hQ : ∀ i, Q' i = if i = q then some (j :: l0) else Q i) : JobInvF R' J' Q' O := by
  obtain ⟨h1, h2, h3, h4, h5, h6, h7⟩ := h
  have hja := h1 a j q hold
  have hjl : j ∉ l0 := by
    intro hm; have := h3 q l0 j hq0 hm; rw [hja] at this; simp at this
  refine ⟨?_, ?_, ?_, ?_, ?_, ?_, ?_⟩
  · grind
  · grind
  · intro q' l j' hl hm
    rw [hQ] at hl
    split at hl
    · next e =>
      subst e
      simp at hl; subst hl
      rcases List.mem_cons.mp hm with hm1 | hm1
      · rw [hJ]; simp [hm1]
      · have hq1 := h3 q' l0 j' hq0 hm1
        have hne : j' ≠ j := by intro e; rw [e] at hm1; exact hjl hm1
        rw [hJ]; simp [hne]; exact hq1
    · next hne' =>
      have hq1 := h3 q' l j' hl hm
      have hne : j' ≠ j := by intro e; rw [e, hja] at hq1; simp at hq1
      rw [hJ]; simp [hne]; exact hq1
  · intro q' l hl
    rw [hQ] at hl
    split at hl
    · simp at hl; subst hl; exact List.nodup_cons.mpr ⟨hjl, h4 q l0 hq0⟩
    · exact h4 q' l hl
  · intro i q' hi
    rw [hJ] at hi
    split at hi
    · next e =>
      simp at hi; subst hi
      exact ⟨j :: l0, by rw [hQ]; simp, by simp [e]⟩
    · obtain ⟨l, hl, hm⟩ := h5 i q' hi
      by_cases hqq : q' = q
      · subst hqq; rw [hq0] at hl; simp at hl; subst hl
        exact ⟨j :: l0, by rw [hQ]; simp, by simp [hm]⟩
      · exact ⟨l, by rw [hQ]; simp [hqq, hl], hm⟩
  · intro i hi
    by_cases hij : i = j
    · subst hij
      exact Or.inr ⟨q, l0, by rw [hJ]; simp, by rw [hQ]; simp⟩
    · rcases h6 i hi with ⟨a', q', hh⟩ | ⟨q', l, hq', hl⟩
      · exact Or.inl ⟨a', q', by rw [hJ]; simp [hij, hh]⟩
      · by_cases hqq : q' = q
        · subst hqq
          have := h7 j i a q' hja hq'
          rw [hi] at this; cases this
        · exact Or.inr ⟨q', l, by rw [hJ]; simp [hij, hq'], by rw [hQ]; simp [hqq, hl]⟩
  · intro j1 j2 a' q' hh hq'
    rw [hJ] at hh hq'
    split at hh
    · simp at hh
    · next hne1 =>
      split at hq'
      · next e =>
        simp at hq'; subst hq'
        have := hx j1 j a' a q hh hja
        exact absurd this hne1
      · exact h7 j1 j2 a' q' hh hq'

theorem JobInvF.take {R R' J J' Q Q' O} {a j q : Nat} {rest : List Nat} (h : JobInvF R J Q O)
    (hidle : R a = none) (hhead : Q q = some (j :: rest))
    (hR : ∀ b, R' b = if b = a then some (j, q) else R b)
    (hJ : ∀ i, J' i = if i = j then some (.held a, q) else J i)
    (hQ : ∀ i, Q' i = if i = q then some rest else Q i) : JobInvF R' J' Q' O := by
  obtain ⟨h1, h2, h3, h4, h5, h6, h7⟩ := h
  have hn := h4 q _ hhead
  have hjq := h3 q _ j hhead (by simp)
  have hjr : j ∉ rest := (List.nodup_cons.mp hn).1
  refine ⟨?_, ?_, ?_, ?_, ?_, ?_, ?_⟩
  · grind
  · grind
  · intro q' l j' hl hm
    rw [hQ] at hl
    split at hl
    · next e =>
      subst e
      simp at hl; subst hl
      have hq1 := h3 q' _ j' hhead (by simp [hm])
      have hne : j' ≠ j := by intro e; rw [e] at hm; exact hjr hm
      rw [hJ]; simp [hne]; exact hq1
    · next hne' =>
      have hq1 := h3 q' l j' hl hm
      have hne : j' ≠ j := by
        intro e; rw [e, hjq] at hq1; simp at hq1; exact hne' hq1.symm
      rw [hJ]; simp [hne]; exact hq1
  · intro q' l hl
    rw [hQ] at hl
    split at hl
    · simp at hl; subst hl; exact (List.nodup_cons.mp hn).2
    · exact h4 q' l hl
  · intro i q' hi
    rw [hJ] at hi
    split at hi
    · simp at hi
    · next hne =>
      obtain ⟨l, hl, hm⟩ := h5 i q' hi
      by_cases hqq : q' = q
      · subst hqq; rw [hhead] at hl; simp at hl; subst hl
        rcases List.mem_cons.mp hm with e | hm1
        · exact absurd e hne
        · exact ⟨rest, by rw [hQ]; simp, hm1⟩
      · exact ⟨l, by rw [hQ]; simp [hqq, hl], hm⟩
  · intro i hi
    by_cases hij : i = j
    · subst hij; exact Or.inl ⟨a, q, by rw [hJ]; simp⟩
    · rcases h6 i hi with ⟨a', q', hh⟩ | ⟨q', l, hq', hl⟩
      · exact Or.inl ⟨a', q', by rw [hJ]; simp [hij, hh]⟩
      · by_cases hqq : q' = q
        · subst hqq; rw [hhead] at hl; simp at hl; exact absurd hl.1.symm hij
        · exact Or.inr ⟨q', l, by rw [hJ]; simp [hij, hq'], by rw [hQ]; simp [hqq, hl]⟩
  · intro j1 j2 a' q' hh hq'
    rw [hJ] at hh hq'
    split at hq'
    · simp at hq'
    · next hne2 =>
      split at hh
      · simp at hh
        obtain ⟨rfl, rfl⟩ := hh
        -- j2 is queued in q and is not the old head: it cannot be open
        cases ho : O j2 with
        | false => rfl
        | true =>
          exfalso
          rcases h6 j2 ho with ⟨a', q', hh'⟩ | ⟨q', l, hq2, hl⟩
          · rw [hq'] at hh'; simp at hh'
          · rw [hq'] at hq2; simp at hq2; subst hq2
            rw [hhead] at hl; simp at hl; exact hne2 hl.1.symm
      · exact h7 j1 j2 a' q' hh hq'

theorem JobInvF.newHeld {R R' J J' Q O O'} {a n q : Nat} (h : JobInvF R J Q O)
    (hidle : R a = none) (hfresh : J n = none) (hempty : Q q = some [])
    (hR : ∀ b, R' b = if b = a then some (n, q) else R b)
    (hJ : ∀ i, J' i = if i = n then some (.held a, q) else J i)
    (hO : ∀ i, i ≠ n → O' i = O i) : JobInvF R' J' Q O' := by
  obtain ⟨h1, h2, h3, h4, h5, h6, h7⟩ := h
  refine ⟨?_, ?_, ?_, h4, ?_, ?_, ?_⟩
  · grind
  · grind
  · grind
  · intro i q' hi
    rw [hJ] at hi
    split at hi
    · simp at hi
    · exact h5 i q' hi
  · intro i hi
    by_cases hin : i = n
    · subst hin; exact Or.inl ⟨a, q, by rw [hJ]; simp⟩
    · rw [hO i hin] at hi
      rcases h6 i hi with ⟨a', q', hh⟩ | ⟨q', l, hq', hl⟩
      · exact Or.inl ⟨a', q', by rw [hJ]; simp [hin, hh]⟩
      · exact Or.inr ⟨q', l, by rw [hJ]; simp [hin, hq'], hl⟩
  · intro j1 j2 a' q' hh hq'
    rw [hJ] at hh hq'
    split at hq'
    · simp at hq'
    · next hne2 =>
      rw [hO j2 hne2]
      split at hh
      · simp at hh
        obtain ⟨rfl, rfl⟩ := hh
        obtain ⟨l, hl, hm⟩ := h5 j2 _ hq'
        rw [hempty] at hl; simp at hl; subst hl; cases hm
      · exact h7 j1 j2 a' q' hh hq'

theorem JobInvF.newQueued {R J J' Q Q' O O'} {n q : Nat} {l0 : List Nat} (h : JobInvF R J Q O)
    (hfresh : J n = none) (hq : Q q = some l0)
    (hJ : ∀ i, J' i = if i = n then some (.queued, q) else J i)
    (hQ : ∀ i, Q' i = if i = q then some (l0 ++ [n]) else Q i)
    (hO : ∀ i, O' i = if i = n then false else O i) : JobInvF R J' Q' O' := by
  obtain ⟨h1, h2, h3, h4, h5, h6, h7⟩ := h
  have hnl : n ∉ l0 := by
    intro hm; have := h3 q l0 n hq hm; rw [hfresh] at this; cases this
  refine ⟨?_, ?_, ?_, ?_, ?_, ?_, ?_⟩
  · grind
  · grind
  · intro q' l j' hl hm
    rw [hQ] at hl
    split at hl
    · next e =>
      subst e
      simp at hl; subst hl
      rcases List.mem_append.mp hm with hm1 | hm2
      · have hq1 := h3 q' l0 j' hq hm1
        have hne : j' ≠ n := by intro e; rw [e] at hm1; exact hnl hm1
        rw [hJ]; simp [hne]; exact hq1
      · simp at hm2; rw [hJ]; simp [hm2]
    · have hq1 := h3 q' l j' hl hm
      have hne : j' ≠ n := by intro e; subst e; rw [hfresh] at hq1; cases hq1
      rw [hJ]; simp [hne]; exact hq1
  · intro q' l hl
    rw [hQ] at hl
    split at hl
    · simp at hl; subst hl
      have hn := h4 q l0 hq
      refine List.nodup_append.mpr ⟨hn, by simp, ?_⟩
      intro x hx y hy
      simp at hy; subst hy
      intro e; subst e; exact hnl hx
    · exact h4 q' l hl
  · intro i q' hi
    rw [hJ] at hi
    split at hi
    · next e => simp at hi; subst hi; exact ⟨l0 ++ [n], by rw [hQ]; simp, by simp [e]⟩
    · obtain ⟨l, hl, hm⟩ := h5 i q' hi
      by_cases hqq : q' = q
      · subst hqq; rw [hq] at hl; simp at hl; subst hl
        exact ⟨l0 ++ [n], by rw [hQ]; simp, by simp [hm]⟩
      · exact ⟨l, by rw [hQ]; simp [hqq, hl], hm⟩
  · intro i hi
    rw [hO] at hi
    split at hi
    · cases hi
    · next hin =>
      rcases h6 i hi with ⟨a', q', hh⟩ | ⟨q', l, hq', hl⟩
      · exact Or.inl ⟨a', q', by rw [hJ]; simp [hin, hh]⟩
      · by_cases hqq : q' = q
        · subst hqq; rw [hq] at hl; simp at hl; subst hl
          exact Or.inr ⟨q', l ++ [n], by rw [hJ]; simp [hin, hq'], by rw [hQ]; simp⟩
        · exact Or.inr ⟨q', l, by rw [hJ]; simp [hin, hq'], by rw [hQ]; simp [hqq, hl]⟩
  · intro j1 j2 a' q' hh hq'
    rw [hO]
    split
    · rfl
    · next hne2 =>
      rw [hJ] at hh hq'
      simp only [hne2, ↓reduceIte] at hq'
      split at hh
      · simp at hh
      · exact h7 j1 j2 a' q' hh hq'

end Desync
