/-
The job invariant over abstract projections, and how it survives the five things that happen to a job: it is taken from
its queue, put back at the front, finished or destroyed, created held (sync_immediate), created queued.
-/
import DesyncModel.Inv.JobProj
namespace Desync
open Gen

/-- the job invariant over abstract projections: which job each activity runs, phase and queue of each job, job list of each queue -/
structure JobInvF (R : Nat → Option (Nat × Nat)) (J : Nat → Option (Phase × Nat)) (Q : Nat → Option (List Nat)) : Prop where
  run1 : ∀ a j q, R a = some (j, q) → J j = some (.held a, q)
  run2 : ∀ a j q, J j = some (.held a, q) → R a = some (j, q)
  queued : ∀ q l j, Q q = some l → j ∈ l → J j = some (.queued, q)
  nodup : ∀ q l, Q q = some l → l.Nodup

theorem JobInvF.retire {R R' J J' Q} {a j q : Nat} {ph : Phase} (h : JobInvF R J Q)
    (hold : R a = some (j, q)) (hph : ∀ b, ph ≠ .held b) (hphq : ph ≠ .queued)
    (hR : ∀ b, R' b = if b = a then none else R b)
    (hJ : ∀ i, J' i = if i = j then some (ph, q) else J i) : JobInvF R' J' Q := by
  obtain ⟨h1, h2, h3, h4⟩ := h
  refine ⟨?_, ?_, ?_, h4⟩
  · grind
  · grind
  · grind

theorem JobInvF.requeue {R R' J J' Q Q'} {a j q : Nat} (h : JobInvF R J Q)
    (hold : R a = some (j, q))
    (hR : ∀ b, R' b = if b = a then none else R b)
    (hJ : ∀ i, J' i = if i = j then some (.queued, q) else J i)
    (hQ : ∀ i, Q' i = if i = q then (Q q).map (j :: ·) else Q i) : JobInvF R' J' Q' := by
  obtain ⟨h1, h2, h3, h4⟩ := h
  refine ⟨?_, ?_, ?_, ?_⟩
  · grind
  · grind
  · intro q' l j' hl hm
    rw [hQ] at hl
    split at hl
    · next e =>
      subst e
      cases hq : Q q' with
      | none => simp [hq] at hl
      | some l0 =>
        simp [hq] at hl; subst hl
        rcases List.mem_cons.mp hm with hm | hm
        · subst hm; grind
        · have := h3 q' l0 j' hq hm
          have := h1 a j q' hold
          grind
    · have := h3 q' l j' hl hm
      have := h1 a j q hold
      grind
  · intro q' l hl
    rw [hQ] at hl
    split at hl
    · cases hq : Q q with
      | none => simp [hq] at hl
      | some l0 =>
        simp [hq] at hl; subst hl
        have hn := h4 q l0 hq
        have : j ∉ l0 := by
          intro hm
          have := h3 q l0 j hq hm
          have := h1 a j q hold
          grind
        exact List.nodup_cons.mpr ⟨this, hn⟩
    · exact h4 q' l hl

theorem JobInvF.take {R R' J J' Q Q'} {a j q : Nat} {rest : List Nat} (h : JobInvF R J Q)
    (hidle : R a = none) (hhead : Q q = some (j :: rest))
    (hR : ∀ b, R' b = if b = a then some (j, q) else R b)
    (hJ : ∀ i, J' i = if i = j then some (.held a, q) else J i)
    (hQ : ∀ i, Q' i = if i = q then some rest else Q i) : JobInvF R' J' Q' := by
  obtain ⟨h1, h2, h3, h4⟩ := h
  have hn := h4 q _ hhead
  have hjq := h3 q _ j hhead (by simp)
  refine ⟨?_, ?_, ?_, ?_⟩
  · grind
  · grind
  · intro q' l j' hl hm
    rw [hQ] at hl
    split at hl
    · next e =>
      subst e
      simp at hl; subst hl
      have hq1 := h3 q' _ j' hhead (by simp [hm])
      have hne : j' ≠ j := by intro e; subst e; exact (List.nodup_cons.mp hn).1 hm
      rw [hJ]; simp [hne]; exact hq1
    · next hne' =>
      have hq1 := h3 q' l j' hl hm
      have hne : j' ≠ j := by
        intro e; subst e; rw [hjq] at hq1; simp at hq1; exact hne' hq1.symm
      rw [hJ]; simp [hne]; exact hq1
  · intro q' l hl
    rw [hQ] at hl
    split at hl
    · simp at hl; subst hl; exact (List.nodup_cons.mp hn).2
    · exact h4 q' l hl

theorem JobInvF.newHeld {R R' J J' Q} {a n q : Nat} (h : JobInvF R J Q)
    (hidle : R a = none) (hfresh : J n = none)
    (hR : ∀ b, R' b = if b = a then some (n, q) else R b)
    (hJ : ∀ i, J' i = if i = n then some (.held a, q) else J i) : JobInvF R' J' Q := by
  obtain ⟨h1, h2, h3, h4⟩ := h
  refine ⟨?_, ?_, ?_, h4⟩
  · grind
  · grind
  · grind

theorem JobInvF.newQueued {R J J' Q Q'} {n q : Nat} {l0 : List Nat} (h : JobInvF R J Q)
    (hfresh : J n = none) (hq : Q q = some l0)
    (hJ : ∀ i, J' i = if i = n then some (.queued, q) else J i)
    (hQ : ∀ i, Q' i = if i = q then some (l0 ++ [n]) else Q i) : JobInvF R J' Q' := by
  obtain ⟨h1, h2, h3, h4⟩ := h
  have hnl : n ∉ l0 := by
    intro hm; have := h3 q l0 n hq hm; rw [hfresh] at this; cases this
  refine ⟨?_, ?_, ?_, ?_⟩
  · grind
  · grind
  · intro q' l j' hl hm
    rw [hQ] at hl
    split at hl
    · next e =>
      subst e
      simp at hl; subst hl
      rcases List.mem_append.mp hm with hm1 | hm2
      · have hq1 := h3 q' l0 j' hq hm1
        have hne : j' ≠ n := by intro e; rw [e] at hm1; exact hnl hm1
        rw [hJ]; simp [hne]; exact hq1
      · simp at hm2; rw [hJ]; simp [hm2]
    · have hq1 := h3 q' l j' hl hm
      have hne : j' ≠ n := by intro e; subst e; rw [hfresh] at hq1; cases hq1
      rw [hJ]; simp [hne]; exact hq1
  · intro q' l hl
    rw [hQ] at hl
    split at hl
    · simp at hl; subst hl
      have hn := h4 q l0 hq
      refine List.nodup_append.mpr ⟨hn, by simp, ?_⟩
      intro x hx y hy
      simp at hy; subst hy
      intro e; subst e; exact hnl hx
    · exact h4 q' l hl

end Desync
