/-
The thread-context half of I_wake holds in every state reachable without polling a returned future or using `future_sync`.
-/
import DesyncModel.Inv.WakeTStep
import DesyncModel.Inv.WakeReach

namespace Desync
open Gen

/-- an environment step: queues and registrations untouched, every activity keeps (or loses) its place -/
theorem wakeT_env {s X : State} (hr : Reachable s) (h : WakeTInv s) (hq : X.qs = s.qs) (hj : X.jobs = s.jobs)
    (hthr : ∀ b, b < s.acts.length → X.threadOf b = s.threadOf b)
    (hpc : ∀ b, X.pcAt b = s.pcAt b ∨ ((∀ q t, (s.pcAt b).wakesT q t = true → (X.pcAt b).wakesT q t = true) ∧
        (∀ q j, (X.pcAt b).parkedJ = some (q, j) → (s.pcAt b).parkedJ = some (q, j)) ∧
        (∀ q j, (X.pcAt b).polledT = some (q, j) → (s.pcAt b).polledT = some (q, j)))) : WakeTInv X := by
  obtain ⟨hw, hf⟩ := fullInv_reachable hr
  refine WakeTInv.soft h (holderInv_reachable hr) hw hf (parkInv_reachable hr) hthr ?_ ?_ ?_ ?_ ?_
  · intro b q t hb
    left
    rcases hpc b with e | e
    · rw [e]; exact hb
    · exact e.1 q t hb
  · intro b q j hb
    rcases hpc b with e | e
    · rw [e] at hb; exact hb
    · exact e.2.1 q j hb
  · intro b q j hb
    rcases hpc b with e | e
    · rw [e] at hb; exact hb
    · exact e.2.2 q j hb
  · intro q j t hr'; left; unfold RegT at hr' ⊢; rw [← hr']; exact regW_congr hj j
  · intro q; left; exact qSt_congr hq q

theorem threadOf_addAct (s0 : State) (t : Nat) (parent : Option Nat) (pc : Pc) (once : Bool) (b : Nat) (hb : b < s0.acts.length) :
    (addAct s0 t parent pc once).1.threadOf b = s0.threadOf b := by
  have key : ∀ (Y : State), Y.acts = s0.acts ++ [({ thread := t, pc := pc, parent := parent, child := none, woken := false, result := none, mode := .await, once := once } : Act)] →
      Y.threadOf b = s0.threadOf b := by
    intro Y hY
    simp only [State.threadOf, hY, List.getElem?_append_left hb]
  unfold addAct
  cases parent with
  | none => exact key _ rfl
  | some p =>
    simp only
    split
    · next pv hpv =>
      show (State.setAct _ p _).threadOf b = _
      rw [threadOf_setAct_same _ p pv { pv with child := some s0.acts.length } hpv rfl b]
      exact key _ rfl
    · exact key _ rfl

theorem wakeT_addAct {s s0 : State} (hr : Reachable s) (h : WakeTInv s) (t : Nat) (parent : Option Nat) (pc : Pc) (once : Bool)
    (hn : (∀ q t', pc.wakesT q t' = false) ∧ pc.parkedJ = none ∧ pc.polledT = none)
    (ha : s0.acts = s.acts) (hq : s0.qs = s.qs) (hj : s0.jobs = s.jobs) : WakeTInv (addAct s0 t parent pc once).1 := by
  have hpc0 : ∀ b, s0.pcAt b = s.pcAt b := fun b => by simp only [State.pcAt, ha]
  have hth0 : ∀ b, s0.threadOf b = s.threadOf b := fun b => by simp only [State.threadOf, ha]
  refine wakeT_env hr h ((addAct_fields s0 t parent pc once).1.trans hq) ((addAct_fields s0 t parent pc once).2.trans hj) ?_ ?_
  · intro b hb
    rw [threadOf_addAct s0 t parent pc once b (by rw [ha]; exact hb)]
    exact hth0 b
  · intro b
    rw [pcAt_addAct]
    split
    · next hb =>
      right
      refine ⟨fun q t' hq' => ?_, fun q j hq' => ?_, fun q j hq' => ?_⟩
      · have : s.pcAt b = .dead := by rw [hb, ha]; simp [State.pcAt]
        rw [this] at hq'; simp [Pc.wakesT] at hq'
      · rw [hn.2.1] at hq'; cases hq'
      · rw [hn.2.2] at hq'; cases hq'
    · exact Or.inl (hpc0 b)

theorem wakeT_invoke {s s' : State} {t a : Nat} {parent : Option Nat} {c : Call} (hr : Reachable s) (h : WakeTInv s)
    (hok : labelNT (.invoke t parent c) = true) (hs : invoke s t parent c = some (s', a)) : WakeTInv s' := by
  unfold invoke at hs
  cases c <;> simp only at hs
  all_goals (try (simp [labelNT] at hok; done))
  all_goals (repeat' split at hs)
  all_goals (try (simp at hs; done))
  all_goals (
    have hs' := congrArg Prod.fst (Option.some.inj hs)
    simp only at hs'
    subst hs'
    refine wakeT_addAct hr h t parent _ _ ?_ ?_ ?_ ?_
    · exact ⟨fun q t' => by simp [Pc.wakesT], by simp [Pc.parkedJ], by simp [Pc.polledT]⟩
    · first | rfl | (split <;> (try split) <;> rfl)
    · first | rfl | (split <;> (try split) <;> rfl)
    · first | rfl | (split <;> (try split) <;> rfl))

theorem wakeT_goto_env {s : State} {a : Nat} {act : Act} (hr : Reachable s) (h : WakeTInv s) (ha : s.acts[a]? = some act) (pc' : Pc)
    (hW : ∀ q t, act.pc.wakesT q t = true → pc'.wakesT q t = true)
    (hP : ∀ q j, pc'.parkedJ = some (q, j) → act.pc.parkedJ = some (q, j)) (hL : ∀ q j, pc'.polledT = some (q, j) → act.pc.polledT = some (q, j)) :
    WakeTInv (s.goto a pc') := by
  have hpca := pcAt_of ha
  refine wakeT_env hr h (by simp) (by simp) (fun b _ => threadOf_goto s a pc' b) ?_
  intro b
  by_cases hba : b = a
  · subst hba
    right
    rw [pcAt_goto_self _ (lt_of_getElem?_some ha), hpca]
    exact ⟨hW, hP, hL⟩
  · exact Or.inl (pcAt_goto_ne _ hba)

theorem wakeT_bodyEnd {s s' : State} {a : Nat} {o : Obs} (hr : Reachable s) (h : WakeTInv s) (hs : bodyEnd s a = some (s', o)) : WakeTInv s' := by
  unfold bodyEnd at hs
  split at hs
  · next act ha =>
    split at hs
    · simp at hs
    · split at hs
      · next op k hpc =>
        obtain ⟨rfl, _⟩ := Prod.mk.inj (Option.some.inj hs)
        refine wakeT_goto_env hr h ha _ ?_ ?_ ?_ <;> rw [hpc] <;> simp [Pc.wakesT, Pc.parkedJ, Pc.polledT]
      · simp at hs
  · simp at hs

theorem wakeT_spuriousUnpark {s s' : State} {a : Nat} {o : Obs} (hr : Reachable s) (h : WakeTInv s) (hs : spuriousUnpark s a = some (s', o)) : WakeTInv s' := by
  unfold spuriousUnpark at hs
  split at hs
  · next act ha =>
    split at hs
    · next q j k hpc =>
      obtain ⟨rfl, _⟩ := Prod.mk.inj (Option.some.inj hs)
      refine wakeT_goto_env hr h ha _ ?_ ?_ ?_ <;> rw [hpc] <;> simp [Pc.wakesT, Pc.parkedJ, Pc.polledT]
    · simp at hs
  · simp at hs

theorem retStep_thread {s s' : State} {a r : Nat} (hs : retStep s a = some (s', r)) (b : Nat) : s'.threadOf b = s.threadOf b := by
  unfold retStep at hs
  split at hs
  · next act ha =>
    split at hs
    · next hpc =>
      obtain ⟨rfl, _⟩ := Prod.mk.inj (Option.some.inj hs)
      have h1 : (s.setAct a { act with pc := .dead }).threadOf b = s.threadOf b := threadOf_setAct_same s a act { act with pc := .dead } ha rfl b
      split
      · next p hp =>
        split
        · next pv hpv =>
          rw [threadOf_setAct_same _ p pv { pv with child := none } hpv rfl b]
          exact h1
        · exact h1
      · exact h1
    · simp at hs
  · simp at hs

theorem wakeT_ret {s s' : State} {a r : Nat} (hr : Reachable s) (h : WakeTInv s) (hs : retStep s a = some (s', r)) : WakeTInv s' := by
  obtain ⟨h1, h2, h3⟩ := retStep_view hs
  refine wakeT_env hr h h1 h2 (fun b _ => retStep_thread hs b) ?_
  intro b
  rcases h3 b with e | ⟨e1, e2⟩
  · exact Or.inl e
  · right
    rw [e1, e2]
    exact ⟨fun q t hq => by simp [Pc.wakesT] at hq, fun q j hq => by simp [Pc.parkedJ] at hq, fun q j hq => by simp [Pc.polledT] at hq⟩

theorem wakeT_init (s : State) (ha : s.acts = []) : WakeTInv s := by
  have hpc : ∀ b, s.pcAt b = .dead := fun b => by simp [State.pcAt, ha]
  refine ⟨?_, ?_⟩
  · intro a q j hb; rw [hpc] at hb; simp [Pc.parkedJ] at hb
  · intro a q j hb; rw [hpc] at hb; simp [Pc.polledT] at hb

/-- **The thread-context half of I_wake holds in every state reachable without polling a returned future.** -/
theorem wakeTInv_reachable {s : State} (hr : ReachableNT s) : WakeTInv s := by
  induction hr with
  | init nq ng max => exact wakeT_init _ (by simp [initState])
  | initP ps ng max => exact wakeT_init _ (by simp [initStateP, initState])
  | step l hprev hok hstep ih =>
    have hr := hprev.reachable
    cases l with
    | act a =>
      simp only [next, Option.map_eq_some_iff] at hstep
      obtain ⟨⟨s1, o⟩, hs, rfl⟩ := hstep
      obtain ⟨hw, hf⟩ := fullInv_reachable hr
      exact wakeTInv_stepAct (ntWake_reachable hprev).nt (holderInv_reachable hr) hw hf (parkInv_reachable hr) ih hs
    | invoke t parent c =>
      simp only [next] at hstep
      split at hstep
      · simp only [Option.map_eq_some_iff] at hstep
        obtain ⟨⟨s1, a⟩, hs, rfl⟩ := hstep
        exact wakeT_invoke hr ih hok hs
      · simp at hstep
    | bodyEnd a =>
      simp only [next, Option.map_eq_some_iff] at hstep
      obtain ⟨⟨s1, o⟩, hs, rfl⟩ := hstep
      exact wakeT_bodyEnd hr ih hs
    | ret a =>
      simp only [next, Option.map_eq_some_iff] at hstep
      obtain ⟨⟨s1, r⟩, hs, rfl⟩ := hstep
      exact wakeT_ret hr ih hs
    | spuriousUnpark a =>
      simp only [next, Option.map_eq_some_iff] at hstep
      obtain ⟨⟨s1, o⟩, hs, rfl⟩ := hstep
      exact wakeT_spuriousUnpark hr ih hs
    | spuriousPoll a => simp [labelNT] at hok

end Desync
