/-
I_wake is preserved by every internal step (of an execution without task-context steps).
-/
import DesyncModel.Inv.Wake

namespace Desync
open Gen

/-- `WakeInv.soft` with the conditions on the activities stated for the mover only -/
theorem WakeInv.soft' {s X : State} {a : Nat} (h : WakeInv s) (hh : HolderInv s) (hw : WfInv s) (hf : FullInv s) (hp : ParkInv s)
    (hoth : ∀ b, b ≠ a → X.pcAt b = s.pcAt b)
    (hWa : ∀ q, (s.pcAt a).wakesQ q = true → (X.pcAt a).wakesQ q = true ∨ Landed s X q)
    (hRa : ∀ q j, (X.pcAt a).requeuing = some (q, j) → (s.pcAt a).requeuing = some (q, j))
    (hPa : ∀ q, (X.pcAt a).pending = some q → (s.pcAt a).pending = some q)
    (hreg : ∀ q j, Reg s q j → Reg X q j ∨ Flight X q)
    (hq : ∀ q, (X.qSt q = s.qSt q ∧ X.qjobs q = s.qjobs q) ∨
      ∃ st st', s.qSt q = some st ∧ X.qSt q = some st' ∧ (st' = .waitingForWake → st = .waitingForWake) ∧
        (st = .awokenWhileRunning → st' = .awokenWhileRunning) ∧ (X.qjobs q = s.qjobs q ∨ ∃ l l', s.qjobs q = some l ∧ X.qjobs q = some (l ++ l'))) :
    WakeInv X := by
  refine WakeInv.soft h hh hw hf hp ?_ ?_ ?_ hreg hq
  · intro b q hb
    by_cases hba : b = a
    · subst hba; exact hWa q hb
    · left; rw [hoth b hba]; exact hb
  · intro b q j hb
    by_cases hba : b = a
    · subst hba; exact hRa q j hb
    · rw [hoth b hba] at hb; exact hb
  · intro b q hb
    by_cases hba : b = a
    · subst hba; exact hPa q hb
    · rw [hoth b hba] at hb; exact hb

theorem qjobs_congr {X s : State} (h : X.qs = s.qs) (q : Nat) : X.qjobs q = s.qjobs q := by simp only [State.qjobs, h]
theorem regW_congr {X s : State} (h : X.jobs = s.jobs) (j : Nat) : X.regW j = s.regW j := by simp only [State.regW, h]

theorem regW_setJob_keep {s X : State} {j0 : Nat} {b v : Job} (hX : X.jobs = (s.setJob j0 v).jobs) (hb : s.jobs[j0]? = some b) (hr : v.reg = b.reg) (j : Nat) :
    X.regW j = s.regW j := by
  simp only [State.regW, hX, State.setJob, List.getElem?_set]
  by_cases hj : j0 = j
  · subst hj
    have hlt := lt_of_getElem?_some hb
    have e : s.jobs[j0] = b := by
      have := List.getElem?_eq_getElem hlt; rw [hb] at this; exact (Option.some.inj this).symm
    simp [hlt, hr, e]
  · simp [hj]

/-- one queue's record is replaced -/
theorem hq_of_set {s X : State} {q0 : Nat} {v v' : JobQ} (hv : s.qs[q0]? = some v) (hX : X.qs = s.qs.set q0 v')
    (h3 : v'.state = .waitingForWake → v.state = .waitingForWake) (h4 : v.state = .awokenWhileRunning → v'.state = .awokenWhileRunning)
    (h5 : v'.jobs = v.jobs ∨ ∃ l', v'.jobs = v.jobs ++ l') :
    ∀ q, (X.qSt q = s.qSt q ∧ X.qjobs q = s.qjobs q) ∨
      ∃ st st', s.qSt q = some st ∧ X.qSt q = some st' ∧ (st' = .waitingForWake → st = .waitingForWake) ∧
        (st = .awokenWhileRunning → st' = .awokenWhileRunning) ∧ (X.qjobs q = s.qjobs q ∨ ∃ l l', s.qjobs q = some l ∧ X.qjobs q = some (l ++ l')) := by
  intro q
  have hlen := lt_of_getElem?_some hv
  by_cases hq : q = q0
  · subst hq
    right
    refine ⟨v.state, v'.state, by simp [State.qSt, hv], by simp [State.qSt, hX, hlen], h3, h4, ?_⟩
    have e : s.qs[q] = v := by
      have := List.getElem?_eq_getElem hlen; rw [hv] at this; exact (Option.some.inj this).symm
    rcases h5 with h5 | ⟨l', h5⟩
    · left; simp [State.qjobs, hX, hlen, h5, e]
    · right; exact ⟨v.jobs, l', by simp [State.qjobs, hv], by simp [State.qjobs, hX, hlen, h5]⟩
  · left
    have : ¬ q0 = q := fun e => hq e.symm
    simp [State.qSt, State.qjobs, hX, List.getElem?_set, this]

/-! ### the tables that are not the owner's: they never park a queue and never forget a remembered wake-up -/

theorem desyncPush_wfw {st : QState} (h : (desyncPush st).1 = .waitingForWake) : st = .waitingForWake := by cases st <;> simp_all [desyncPush]
theorem desyncPush_aw {st : QState} (h : st = .awokenWhileRunning) : (desyncPush st).1 = .awokenWhileRunning := by subst h; rfl
theorem syncDecide_wfw {st : QState} {e : Bool} (h : (syncDecide st e).1 = .waitingForWake) : st = .waitingForWake := by cases st <;> cases e <;> simp_all [syncDecide]
theorem syncDecide_aw {st : QState} {e : Bool} (h : st = .awokenWhileRunning) : (syncDecide st e).1 = .awokenWhileRunning := by subst h; cases e <;> rfl
theorem trySyncDecide_wfw {st : QState} {e : Bool} (h : (trySyncDecide st e).1 = .waitingForWake) : st = .waitingForWake := by cases st <;> cases e <;> simp_all [trySyncDecide]
theorem trySyncDecide_aw {st : QState} {e : Bool} (h : st = .awokenWhileRunning) : (trySyncDecide st e).1 = .awokenWhileRunning := by subst h; cases e <;> rfl
theorem claim_wfw {st : QState} (h : (claim st).1 = .waitingForWake) : st = .waitingForWake := by cases st <;> simp_all [claim]
theorem claim_aw {st : QState} (h : st = .awokenWhileRunning) : (claim st).1 = .awokenWhileRunning := by subst h; rfl
theorem reschedule_wfw {st : QState} {e : Bool} (h : (reschedule st e).1 = .waitingForWake) : st = .waitingForWake := by cases st <;> cases e <;> simp_all [reschedule]
theorem reschedule_aw {st : QState} {e : Bool} (h : st = .awokenWhileRunning) : (reschedule st e).1 = .awokenWhileRunning := by subst h; cases e <;> rfl
theorem nextToRun_wfw {st : QState} (h : (nextToRun st).1 = .waitingForWake) : st = .waitingForWake := by cases st <;> simp_all [nextToRun]
theorem nextToRun_aw {st : QState} (h : st = .awokenWhileRunning) : (nextToRun st).1 = .awokenWhileRunning := by subst h; rfl
theorem wakeThread_wfw {st : QState} (h : wakeThread st = .waitingForWake) : st = .waitingForWake := by cases st <;> simp_all [wakeThread]
theorem wakeThread_aw {st : QState} (h : st = .awokenWhileRunning) : wakeThread st = .awokenWhileRunning := by subst h; rfl
theorem futureDropDecide_wfw {self : Nat} {st : QState} (h : (futureDropDecide self st).1 = .waitingForWake) : st = .waitingForWake := by
  cases st <;> simp_all [futureDropDecide]
  split at h <;> simp_all
theorem futureDropDecide_aw {self : Nat} {st : QState} (h : st = .awokenWhileRunning) : (futureDropDecide self st).1 = .awokenWhileRunning := by subst h; rfl

set_option hygiene false in
/-- rewrite the mover's new and old program counters -/
macro "wk_pcs" : tactic => `(tactic| (
  first
  | (rw [pcAt_goto_self _ (by simpa [dequeue_acts] using hlt)] at *)
  | (rw [pcAt_setAct_self _ (by simpa [dequeue_acts] using hlt)] at *)
  | (rw [pcAt_setQ, pcAt_goto_self _ (by simpa [dequeue_acts] using hlt)] at *)))

set_option hygiene false in
macro "wk_W" : tactic => `(tactic| (
  intro q hq
  left
  rw [hpca, ‹act.pc = _›] at hq
  first
  | (rw [pcAt_goto_self _ (by simpa [dequeue_acts] using hlt)])
  | (rw [pcAt_setAct_self _ (by simpa [dequeue_acts] using hlt)])
  | (rw [pcAt_setQ, pcAt_goto_self _ (by simpa [dequeue_acts] using hlt)])
  first
  | exact hq
  | (simp only [Pc.wakesQ, wakesQ_ctxReady, wakesQ_ctxPending] at hq ⊢; first | exact hq | (simp_all; done) | (split at hq <;> simp_all))
  | (cases ‹Ctx› <;> simp_all [Pc.wakesQ, ctxReady, ctxPending])))

set_option hygiene false in
macro "wk_R" : tactic => `(tactic| (
  intro q j hq
  rw [hpca, ‹act.pc = _›]
  first
  | (rw [pcAt_goto_self _ (by simpa [dequeue_acts] using hlt)] at hq)
  | (rw [pcAt_setAct_self _ (by simpa [dequeue_acts] using hlt)] at hq)
  | (rw [pcAt_setQ, pcAt_goto_self _ (by simpa [dequeue_acts] using hlt)] at hq)
  first
  | exact hq
  | (simp only [Pc.requeuing, requeuing_ctxReady, requeuing_ctxPending] at hq ⊢; first | exact hq | (simp_all; done) | (split at hq <;> simp_all))
  | (cases ‹Ctx› <;> simp_all [Pc.requeuing, ctxReady, ctxPending])))

set_option hygiene false in
macro "wk_P" : tactic => `(tactic| (
  intro q hq
  rw [hpca, ‹act.pc = _›]
  first
  | (rw [pcAt_goto_self _ (by simpa [dequeue_acts] using hlt)] at hq)
  | (rw [pcAt_setAct_self _ (by simpa [dequeue_acts] using hlt)] at hq)
  | (rw [pcAt_setQ, pcAt_goto_self _ (by simpa [dequeue_acts] using hlt)] at hq)
  first
  | exact hq
  | (simp only [Pc.pending, pending_ctxReady, pending_ctxPending] at hq ⊢; first | exact hq | (simp_all; done) | (split at hq <;> simp_all))
  | (cases ‹Ctx› <;> simp_all [Pc.pending, ctxReady, ctxPending])))

set_option hygiene false in
macro "wk_reg" : tactic => `(tactic| (
  intro q j hr
  left
  unfold Reg at hr ⊢
  rw [← hr]
  first
  | rfl
  | (refine regW_congr ?_ j; first | rfl | (simp; done))
  | (apply regW_append
     case hX => first | rfl | (simp only [jobs_goto, jobs_setQ, jobs_setHolder, jobs_setAct]; rfl)
     case hn => rfl)
  | (apply regW_setJob_keep (hb := ‹s.jobs[_]? = some _›)
     case hX => first | rfl | (simp only [jobs_goto, jobs_setFut, jobs_setGate, jobs_setSf, jobs_setAct, jobs_setQ, jobs_setHolder]; rfl)
     case hr => rfl)))

set_option hygiene false in
macro "wk_q" : tactic => `(tactic| first
  | (intro q; left; constructor
     · refine qSt_congr ?_ q; first | rfl | (simp; done)
     · refine qjobs_congr ?_ q; first | rfl | (simp; done))
  | (apply hq_of_set ‹s.qs[_]? = some _›
     case hX => first | rfl | (simp only [qs_goto, qs_setHolder, qs_setAct, qs_setQ, qs_setJob]; rfl)
     case h3 => intro hx; first | exact desyncPush_wfw hx | exact syncDecide_wfw hx | exact trySyncDecide_wfw hx | exact claim_wfw hx | exact reschedule_wfw hx | exact nextToRun_wfw hx | exact wakeThread_wfw hx | exact futureDropDecide_wfw hx | exact hx
     case h4 => intro hx; first | exact desyncPush_aw hx | exact syncDecide_aw hx | exact trySyncDecide_aw hx | exact claim_aw hx | exact reschedule_aw hx | exact nextToRun_aw hx | exact wakeThread_aw hx | exact futureDropDecide_aw hx | exact hx
     case h5 => first | exact Or.inl rfl | exact Or.inr ⟨_, rfl⟩))

theorem regW_append {s X : State} {nj : Job} (hX : X.jobs = s.jobs ++ [nj]) (hn : nj.reg = none) (j : Nat) : X.regW j = s.regW j := by
  simp only [State.regW, hX]
  by_cases hlt : j < s.jobs.length
  · rw [List.getElem?_append_left hlt]
  · by_cases he : j = s.jobs.length
    · subst he; simp [hn]
    · have h1 : (s.jobs ++ [nj])[j]? = none := by simp; omega
      have h2 : s.jobs[j]? = none := by simp; omega
      rw [h1, h2]

/-- a queue somebody owns is not parked -/
theorem no_wfw_held {s : State} (hh : HolderInv s) {a q : Nat} (hold : (s.pcAt a).holds q = true) : s.qSt q ≠ some .waitingForWake := by
  intro hst
  have ho := (hh.iff a q).mp hold
  simp only [State.qSt] at hst
  cases hq : s.qs[q]? with
  | none => rw [hq] at hst; cases hst
  | some v =>
    rw [hq] at hst
    simp only [Option.map_some, Option.some.injEq] at hst
    have := hh.held a q v ho hq
    rw [hst] at this; simp [QState.held] at this

/-- A step of the owner of queue `q0` that rewrites only that queue's record (and perhaps job phases), leaves it un-parked,
and after which the mover is not a pool thread between a poll and the parking decision. -/
theorem WakeInv.holder {s X : State} {a q0 : Nat} (h : WakeInv s) (hh : HolderInv s) (hw : WfInv s) (hf : FullInv s) (hp : ParkInv s)
    (hold : (s.pcAt a).holds q0 = true)
    (hoth : ∀ b, b ≠ a → X.pcAt b = s.pcAt b)
    (hWa : ∀ q, (s.pcAt a).wakesQ q = true → (X.pcAt a).wakesQ q = true)
    (hRa : (X.pcAt a).requeuing = none) (hPa : (X.pcAt a).pending = none)
    (hreg : ∀ j, X.regW j = s.regW j)
    (hqs : ∀ q, q ≠ q0 → X.qSt q = s.qSt q ∧ X.qjobs q = s.qjobs q)
    (hnw : X.qSt q0 ≠ some .waitingForWake) : WakeInv X := by
  refine WakeInv.step (a := a) h hh hw hf hp ?_ ?_ ?_ ?_ ?_ ?_ ?_ ?_ ?_
  · intro b hba q hb; left; rw [hoth b hba]; exact hb
  · intro b hba q j hb; rw [hoth b hba] at hb; exact hb
  · intro b hba q hb; rw [hoth b hba] at hb; exact hb
  · intro q hq; exact Or.inl (hWa q hq)
  · intro q j hr; left; unfold Reg at hr ⊢; rw [hreg]; exact hr
  · intro q
    by_cases hq : q = q0
    · subst hq; exact QRel.hold hold
    · exact QRel.same (hqs q hq).1 (hqs q hq).2
  · intro q hq hst
    by_cases hq0 : q = q0
    · subst hq0; exact absurd hst hnw
    · rw [(hqs q hq0).1] at hst
      exact absurd hst (no_wfw_held hh hq)
  · intro q j hq; rw [hRa] at hq; cases hq
  · intro q hq; rw [hPa] at hq; cases hq

theorem qjobs_pushBack_ne (s : State) {q i : Nat} (j : Nat) (h : i ≠ q) : (s.pushBack q j).qjobs i = s.qjobs i := by
  unfold State.pushBack
  split
  · next v hv => rw [qjobs_setQ_of hv]; simp [h]
  · rfl

theorem qjobs_dequeue_ne (s : State) {q i : Nat} (a : Nat) (h : i ≠ q) : (s.dequeue q a).1.qjobs i = s.qjobs i := by
  unfold State.dequeue
  split
  · next v hv =>
    split
    · split
      · simp only [qjobs_setJobPh]; rw [qjobs_setQ_of hv]; simp [h]
      · rfl
    · rfl
  · rfl

theorem regW_setJobPh (s : State) (j : Nat) (ph : Phase) (i : Nat) : (s.setJobPh j ph).regW i = s.regW i := by
  unfold State.setJobPh
  split
  · next v hv => exact regW_setJob_keep (v := { v with ph := ph }) rfl hv rfl i
  · rfl

theorem regW_dequeue (s : State) (q a i : Nat) : (s.dequeue q a).1.regW i = s.regW i := by
  unfold State.dequeue
  split
  · split
    · split
      · rw [regW_setJobPh]; rfl
      · rfl
    · rfl
  · rfl

theorem qSt_setQState_ne (s : State) {q i : Nat} (st : QState) (h : i ≠ q) : (s.setQState q st).qSt i = s.qSt i := by
  unfold State.setQState
  split
  · next v hv => rw [qSt_setQ hv]; simp [h]
  · rfl

theorem qSt_setQState_self (s : State) (q : Nat) (st : QState) : (s.setQState q st).qSt q = some st ∨ (s.setQState q st).qSt q = none := by
  unfold State.setQState
  split
  · next v hv => left; rw [qSt_setQ hv]; simp
  · next hv => right; simp [State.qSt, hv]

set_option hygiene false in
macro "wk_open" : tactic => `(tactic| (
  have hlt : a < s.acts.length := lt_of_getElem?_some ha
  have hpca := pcAt_of ha
  unfold stepAct at hs
  simp only [ha, hc, hpc, Option.isSome_none, Bool.false_eq_true, ↓reduceIte] at hs))

set_option hygiene false in
macro "wk_fin" : tactic => `(tactic| (
  all_goals (try (simp at hs; done))
  all_goals (simp only [Option.some.injEq, Prod.mk.injEq] at hs; obtain ⟨rfl, _⟩ := hs)))

/-- the continuation of a caller-side program counter of `run_one_job_now` is `sync`'s loop: nothing for I_wake -/
theorem caller_cont_none {k : Pc} {q : Nat} (h : k.plainFor q = true) : k.requeuing = none ∧ k.pending = none ∧ k.holds q = true :=
  ⟨(plainFor_facts h).2.1, (plainFor_facts h).2.2, (plainFor_facts h).1⟩

theorem wk_sdPush {s s' : State} {a : Nat} {o : Obs} (h : WakeInv s) (hh : HolderInv s) (hw : WfInv s) (hf : FullInv s) (hp : ParkInv s)
    (act : Act) (ha : s.acts[a]? = some act) (hc : act.child = none) (q : Nat) (b : Body)
    (hpc : act.pc = .sdPush q b) (hs : stepAct s a = some (s', o)) : WakeInv s' := by
  wk_open
  wk_fin
  have hold : (s.pcAt a).holds q = true := by rw [hpca, hpc]; simp [Pc.holds]
  refine WakeInv.holder (a := a) (q0 := q) h hh hw hf hp hold (by sim_oth) ?_ ?_ ?_ ?_ ?_ ?_
  · intro q' hq'; rw [hpca, hpc] at hq'; simp [Pc.wakesQ] at hq'
  · rw [pcAt_goto_self _ (by simpa using hlt)]; rfl
  · rw [pcAt_goto_self _ (by simpa using hlt)]; rfl
  · intro j
    apply regW_append
    case hX => simp only [jobs_goto, jobs_pushBack]; rfl
    case hn => rfl
  · intro q' hq'
    constructor
    · simp only [qSt_goto, qSt_pushBack]; rfl
    · simp only [qjobs_goto]; rw [qjobs_pushBack_ne _ _ hq']; rfl
  · simp only [qSt_goto, qSt_pushBack]
    exact no_wfw_held hh hold

theorem wk_idle {s : State} {a q : Nat} {pc' : Pc} (h : WakeInv s) (hh : HolderInv s) (hw : WfInv s) (hf : FullInv s) (hp : ParkInv s)
    (hlt : a < s.acts.length) (hold : (s.pcAt a).holds q = true) (hnow : ∀ q', (s.pcAt a).wakesQ q' = false)
    (hR : pc'.requeuing = none) (hP : pc'.pending = none) (Y : State) (hY : ∀ i, Y.regW i = s.regW i) (hYq : Y.qs = s.qs) (hYa : Y.acts = s.acts) :
    WakeInv (((Y.setQState q .idle).setHolder q none).goto a pc') := by
  have hlt' : a < ((Y.setQState q .idle).setHolder q none).acts.length := by simp [hYa, hlt]
  have hpcY : ∀ b, Y.pcAt b = s.pcAt b := fun b => by simp only [State.pcAt, hYa]
  refine WakeInv.holder (a := a) (q0 := q) h hh hw hf hp hold ?_ ?_ ?_ ?_ ?_ ?_ ?_
  · intro b hb; rw [pcAt_goto_ne _ hb]; simp only [pcAt_setHolder, pcAt_setQState]; exact hpcY b
  · intro q' hq'; rw [hnow] at hq'; cases hq'
  · rw [pcAt_goto_self _ hlt']; exact hR
  · rw [pcAt_goto_self _ hlt']; exact hP
  · intro j
    refine (regW_congr ?_ j).trans (hY j)
    simp
  · intro q' hq'
    constructor
    · simp only [qSt_goto, qSt_setHolder]; rw [qSt_setQState_ne _ _ hq']; exact qSt_congr hYq q'
    · simp only [qjobs_goto, qjobs_setHolder, qjobs_setQState]; exact qjobs_congr hYq q'
  · simp only [qSt_goto, qSt_setHolder]
    rcases qSt_setQState_self Y q .idle with e | e <;> (rw [e]; simp)

theorem wk_siIdle {s s' : State} {a : Nat} {o : Obs} (h : WakeInv s) (hh : HolderInv s) (hw : WfInv s) (hf : FullInv s) (hp : ParkInv s)
    (act : Act) (ha : s.acts[a]? = some act) (hc : act.child = none) (q j : Nat)
    (hpc : act.pc = .siIdle q j) (hs : stepAct s a = some (s', o)) : WakeInv s' := by
  wk_open
  split at hs
  · simp at hs
  · next jb hjb =>
    wk_fin
    exact wk_idle h hh hw hf hp hlt (by rw [hpca, hpc]; simp [Pc.holds]) (by intro q'; rw [hpca, hpc]; rfl) rfl rfl _
      (fun i => regW_setJob_keep (v := { jb with ended := true, ph := .done }) rfl hjb rfl i) rfl rfl

theorem wk_sdIdle {s s' : State} {a : Nat} {o : Obs} (h : WakeInv s) (hh : HolderInv s) (hw : WfInv s) (hf : FullInv s) (hp : ParkInv s)
    (act : Act) (ha : s.acts[a]? = some act) (hc : act.child = none) (q : Nat)
    (hpc : act.pc = .sdIdle q) (hs : stepAct s a = some (s', o)) : WakeInv s' := by
  wk_open
  wk_fin
  exact wk_idle h hh hw hf hp hlt (by rw [hpca, hpc]; simp [Pc.holds]) (by intro q'; rw [hpca, hpc]; rfl) rfl rfl s (fun i => rfl) rfl rfl

theorem wk_sbStealIdle {s s' : State} {a : Nat} {o : Obs} (h : WakeInv s) (hh : HolderInv s) (hw : WfInv s) (hf : FullInv s) (hp : ParkInv s)
    (act : Act) (ha : s.acts[a]? = some act) (hc : act.child = none) (q j : Nat)
    (hpc : act.pc = .sbStealIdle q j) (hs : stepAct s a = some (s', o)) : WakeInv s' := by
  wk_open
  wk_fin
  exact wk_idle h hh hw hf hp hlt (by rw [hpca, hpc]; simp [Pc.holds]) (by intro q'; rw [hpca, hpc]; rfl) rfl rfl s (fun i => rfl) rfl rfl

/-- a dequeue by the owner -/
theorem wk_dequeue {s : State} {a q : Nat} {pc' : Pc} (h : WakeInv s) (hh : HolderInv s) (hw : WfInv s) (hf : FullInv s) (hp : ParkInv s)
    (hlt : a < s.acts.length) (hold : (s.pcAt a).holds q = true)
    (hW : ∀ q', (s.pcAt a).wakesQ q' = true → pc'.wakesQ q' = true) (hR : pc'.requeuing = none) (hP : pc'.pending = none) :
    WakeInv ((s.dequeue q a).1.goto a pc') := by
  have hlt' : a < (s.dequeue q a).1.acts.length := by simpa [dequeue_acts] using hlt
  refine WakeInv.holder (a := a) (q0 := q) h hh hw hf hp hold ?_ ?_ ?_ ?_ ?_ ?_ ?_
  · intro b hb; rw [pcAt_goto_ne _ hb]; exact pcAt_dequeue s q a b
  · intro q' hq'; rw [pcAt_goto_self _ hlt']; exact hW q' hq'
  · rw [pcAt_goto_self _ hlt']; exact hR
  · rw [pcAt_goto_self _ hlt']; exact hP
  · intro j; exact (regW_congr (by simp) j).trans (regW_dequeue s q a j)
  · intro q' hq'
    exact ⟨by simp only [qSt_goto, qSt_dequeue], by simp only [qjobs_goto]; exact qjobs_dequeue_ne s a hq'⟩
  · simp only [qSt_goto, qSt_dequeue]; exact no_wfw_held hh hold

theorem wk_rjDequeue {s s' : State} {a : Nat} {o : Obs} (h : WakeInv s) (hh : HolderInv s) (hw : WfInv s) (hf : FullInv s) (hp : ParkInv s)
    (act : Act) (ha : s.acts[a]? = some act) (hc : act.child = none) (q : Nat) (k : Pc)
    (hpc : act.pc = .rjDequeue q k) (hs : stepAct s a = some (s', o)) : WakeInv s' := by
  wk_open
  have hk := caller_cont_none (by have := hw a; rw [hpca, hpc] at this; simpa [Pc.callerOk] using this : k.plainFor q = true)
  have hold : (s.pcAt a).holds q = true := by rw [hpca, hpc]; simpa [Pc.holds] using hk.2.2
  try dsimp only at hs
  split at hs
  · wk_fin
    refine wk_dequeue h hh hw hf hp hlt hold ?_ ?_ ?_
    · intro q' hq'; rw [hpca, hpc] at hq'; simpa [Pc.wakesQ] using hq'
    · simpa [Pc.requeuing] using hk.1
    · simpa [Pc.pending] using hk.2.1
  · wk_fin
    refine wk_dequeue h hh hw hf hp hlt hold ?_ hk.1 hk.2.1
    intro q' hq'; rw [hpca, hpc] at hq'; simpa [Pc.wakesQ] using hq'

theorem wk_pdDequeue {s s' : State} {a : Nat} {o : Obs} (h : WakeInv s) (hh : HolderInv s) (hw : WfInv s) (hf : FullInv s) (hp : ParkInv s)
    (act : Act) (ha : s.acts[a]? = some act) (hc : act.child = none) (p q : Nat)
    (hpc : act.pc = .pdDequeue p q) (hs : stepAct s a = some (s', o)) : WakeInv s' := by
  wk_open
  have hold : (s.pcAt a).holds q = true := by rw [hpca, hpc]; simp [Pc.holds]
  try dsimp only at hs
  split at hs
  · wk_fin
    exact wk_dequeue h hh hw hf hp hlt hold (by intro q' hq'; rw [hpca, hpc] at hq'; simp [Pc.wakesQ] at hq') (by simp [Pc.requeuing]) (by simp [Pc.pending])
  · wk_fin
    exact wk_dequeue h hh hw hf hp hlt hold (by intro q' hq'; rw [hpca, hpc] at hq'; simp [Pc.wakesQ] at hq') rfl rfl

theorem drainExit_wfw {st : QState} {e : Bool} (h : (drainExit st e).1 = .waitingForWake) : st = .waitingForWake := by
  cases st <;> cases e <;> simp_all [drainExit]
theorem runOnePending_wfw {st : QState} (h : (runOnePending st).1 = .waitingForWake) : st = .waitingForWake := by
  cases st <;> simp_all [runOnePending]

/-- the owner rewrites the state of its queue with a table that does not park it -/
theorem wk_ownTable {s : State} {a q : Nat} {pc' : Pc} {v : JobQ} {st' : QState} (h : WakeInv s) (hh : HolderInv s) (hw : WfInv s) (hf : FullInv s) (hp : ParkInv s)
    (hlt : a < s.acts.length) (hold : (s.pcAt a).holds q = true) (hv : s.qs[q]? = some v) (hst : st' = .waitingForWake → v.state = .waitingForWake)
    (hW : ∀ q', (s.pcAt a).wakesQ q' = true → pc'.wakesQ q' = true) (hR : pc'.requeuing = none) (hP : pc'.pending = none)
    (X : State) (hXq : X.qs = s.qs.set q { v with state := st' }) (hXa : X.acts = s.acts) (hXr : ∀ j, X.regW j = s.regW j) :
    WakeInv (X.goto a pc') := by
  have hlt' : a < X.acts.length := by rw [hXa]; exact hlt
  refine WakeInv.holder (a := a) (q0 := q) h hh hw hf hp hold ?_ ?_ ?_ ?_ ?_ ?_ ?_
  · intro b hb; rw [pcAt_goto_ne _ hb]; simp only [State.pcAt, hXa]
  · intro q' hq'; rw [pcAt_goto_self _ hlt']; exact hW q' hq'
  · rw [pcAt_goto_self _ hlt']; exact hR
  · rw [pcAt_goto_self _ hlt']; exact hP
  · intro j; exact (regW_congr (by simp) j).trans (hXr j)
  · intro q' hq'
    have hne : ¬ q = q' := fun e => hq' e.symm
    constructor
    · simp only [qSt_goto]; simp [State.qSt, hXq, List.getElem?_set, hne]
    · simp only [qjobs_goto]; simp [State.qjobs, hXq, List.getElem?_set, hne]
  · simp only [qSt_goto]
    have hlen := lt_of_getElem?_some hv
    intro hx
    simp only [State.qSt, hXq, List.getElem?_set, hlen] at hx
    simp at hx
    exact no_wfw_held hh hold (by rw [qSt_of hv, hst hx])

theorem wk_pdExit {s s' : State} {a : Nat} {o : Obs} (h : WakeInv s) (hh : HolderInv s) (hw : WfInv s) (hf : FullInv s) (hp : ParkInv s)
    (act : Act) (ha : s.acts[a]? = some act) (hc : act.child = none) (p q : Nat)
    (hpc : act.pc = .pdExit p q) (hs : stepAct s a = some (s', o)) : WakeInv s' := by
  wk_open
  have hold : (s.pcAt a).holds q = true := by rw [hpca, hpc]; simp [Pc.holds]
  split at hs
  · simp at hs
  · next v hv =>
    try dsimp only at hs
    split at hs
    · wk_fin
      exact wk_ownTable h hh hw hf hp hlt hold hv drainExit_wfw (by intro q' hq'; rw [hpca, hpc] at hq'; simp [Pc.wakesQ] at hq') rfl rfl _ rfl rfl (fun j => rfl)
    · wk_fin
      exact wk_ownTable h hh hw hf hp hlt hold hv drainExit_wfw (by intro q' hq'; rw [hpca, hpc] at hq'; simp [Pc.wakesQ] at hq') rfl rfl _ rfl rfl (fun j => rfl)

theorem wk_rjPending {s s' : State} {a : Nat} {o : Obs} (h : WakeInv s) (hh : HolderInv s) (hw : WfInv s) (hf : FullInv s) (hp : ParkInv s)
    (act : Act) (ha : s.acts[a]? = some act) (hc : act.child = none) (q j : Nat) (k : Pc)
    (hpc : act.pc = .rjPending q j k) (hs : stepAct s a = some (s', o)) : WakeInv s' := by
  wk_open
  have hk := caller_cont_none (by have := hw a; rw [hpca, hpc] at this; simpa [Pc.callerOk] using this : k.plainFor q = true)
  have hold : (s.pcAt a).holds q = true := by rw [hpca, hpc]; simpa [Pc.holds] using hk.2.2
  have hWk : ∀ pc' : Pc, (∀ q', k.wakesQ q' = true → pc'.wakesQ q' = true) → ∀ q', (s.pcAt a).wakesQ q' = true → pc'.wakesQ q' = true := by
    intro pc' hx q' hq'; rw [hpca, hpc] at hq'; exact hx q' (by simpa [Pc.wakesQ] using hq')
  split at hs
  · simp at hs
  · next v hv =>
    try dsimp only at hs
    split at hs
    · wk_fin
      exact wk_ownTable h hh hw hf hp hlt hold hv runOnePending_wfw (hWk _ (by intro q' hq'; simpa [Pc.wakesQ] using hq'))
        (by simpa [Pc.requeuing] using hk.1) (by simpa [Pc.pending] using hk.2.1) _ rfl rfl (fun j => rfl)
    · split at hs
      · wk_fin
        exact wk_ownTable h hh hw hf hp hlt hold hv runOnePending_wfw (hWk _ (by intro q' hq'; simpa [Pc.wakesQ] using hq'))
          (by simpa [Pc.requeuing] using hk.1) (by simpa [Pc.pending] using hk.2.1) _ rfl rfl (fun j => rfl)
      · split at hs
        · next jb hjb =>
          wk_fin
          refine wk_ownTable h hh hw hf hp hlt hold hv runOnePending_wfw (hWk _ (by intro q' hq'; simpa [Pc.wakesQ] using hq')) rfl rfl _ rfl rfl ?_
          intro j'
          exact regW_setJob_keep (s := s) (v := { jb with ph := .done, ended := true }) rfl hjb rfl j'
        · wk_fin
          exact wk_ownTable h hh hw hf hp hlt hold hv runOnePending_wfw (hWk _ (by intro q' hq'; simpa [Pc.wakesQ] using hq')) rfl rfl _ rfl rfl (fun j => rfl)

/-- facts every step of activity `a` that leaves the other activities alone gives to `WakeInv.step` -/
theorem oth_facts {s X : State} {a : Nat} (hoth : ∀ b, b ≠ a → X.pcAt b = s.pcAt b) :
    (∀ b, b ≠ a → ∀ q, (s.pcAt b).wakesQ q = true → (X.pcAt b).wakesQ q = true ∨ Landed s X q) ∧
    (∀ b, b ≠ a → ∀ q j, (X.pcAt b).requeuing = some (q, j) → (s.pcAt b).requeuing = some (q, j)) ∧
    (∀ b, b ≠ a → ∀ q, (X.pcAt b).pending = some q → (s.pcAt b).pending = some q) :=
  ⟨fun b hb q h => Or.inl (by rw [hoth b hb]; exact h), fun b hb q j h => by rw [hoth b hb] at h; exact h, fun b hb q h => by rw [hoth b hb] at h; exact h⟩

theorem flight_keep {s X : State} {a q : Nat} (hoth : ∀ b, b ≠ a → X.pcAt b = s.pcAt b) (hmine : (s.pcAt a).wakesQ q = false) (h : Flight s q) : Flight X q := by
  obtain ⟨c, hc⟩ := h
  by_cases hca : c = a
  · subst hca; rw [hmine] at hc; cases hc
  · exact ⟨c, by rw [hoth c hca]; exact hc⟩

theorem wk_pdRequeue {s s' : State} {a : Nat} {o : Obs} (h : WakeInv s) (hh : HolderInv s) (hw : WfInv s) (hf : FullInv s) (hp : ParkInv s)
    (act : Act) (ha : s.acts[a]? = some act) (hc : act.child = none) (p q j : Nat)
    (hpc : act.pc = .pdRequeue p q j) (hs : stepAct s a = some (s', o)) : WakeInv s' := by
  wk_open
  wk_fin
  have hold : (s.pcAt a).holds q = true := by rw [hpca, hpc]; simp [Pc.holds]
  have hnow : ∀ q', (s.pcAt a).wakesQ q' = false := by intro q'; rw [hpca, hpc]; rfl
  have hoth : ∀ b, b ≠ a → (((s.pushFront q j).setJobPh j .queued).goto a (.pdPending p q)).pcAt b = s.pcAt b := by sim_oth
  have hlt' : a < ((s.pushFront q j).setJobPh j .queued).acts.length := by simpa using hlt
  have hregs : ∀ i, (((s.pushFront q j).setJobPh j .queued).goto a (.pdPending p q)).regW i = s.regW i := by
    intro i
    exact (regW_congr (show (((s.pushFront q j).setJobPh j .queued).goto a (.pdPending p q)).jobs = ((s.pushFront q j).setJobPh j .queued).jobs by simp) i).trans
      ((regW_setJobPh (s.pushFront q j) j .queued i).trans (regW_congr (show (s.pushFront q j).jobs = s.jobs by simp) i))
  have hqst : ∀ i, (((s.pushFront q j).setJobPh j .queued).goto a (.pdPending p q)).qSt i = s.qSt i := by intro i; simp
  obtain ⟨o1, o2, o3⟩ := oth_facts hoth
  refine WakeInv.step (a := a) h hh hw hf hp o1 o2 o3 ?_ ?_ ?_ ?_ ?_ ?_
  · intro q' hq'; rw [hnow] at hq'; cases hq'
  · intro q' j' hr; left; unfold Reg at hr ⊢; rw [hregs]; exact hr
  · intro q'
    by_cases hq' : q' = q
    · subst hq'; exact QRel.hold hold
    · refine QRel.same (hqst q') ?_
      simp only [qjobs_goto, qjobs_setJobPh]; rw [qjobs_pushFront]; simp [hq']
  · intro q' hq' hst
    rw [hqst] at hst
    exact absurd hst (no_wfw_held hh hq')
  · intro q' j' hq'; rw [pcAt_goto_self _ hlt'] at hq'; simp [Pc.requeuing] at hq'
  · intro q' hq'
    rw [pcAt_goto_self _ hlt'] at hq'
    have e : q = q' := by simpa [Pc.pending] using hq'
    subst e
    -- the queue exists: the mover owns it
    have hqlen : q < s.qs.length := by
      have := (hh.iff a q).mp hold
      have h2 : q < s.holder.length := lt_of_getElem?_some this
      rw [hh.len] at h2; exact h2
    obtain ⟨v, hv⟩ : ∃ v, s.qs[q]? = some v := ⟨s.qs[q], List.getElem?_eq_getElem hqlen⟩
    refine ⟨j, v.jobs, ?_, ?_⟩
    · simp only [qjobs_goto, qjobs_setJobPh]; rw [qjobs_pushFront]; simp [State.qjobs, hv]
    · rcases h.poll1 a q j (by rw [hpca, hpc]; rfl) with hc | hc | hc
      · left; unfold Reg at hc ⊢; rw [hregs]; exact hc
      · exact Or.inr (Or.inl (flight_keep hoth (hnow q) hc))
      · exact Or.inr (Or.inr (by rw [hqst]; exact hc))

theorem drainPending_nowfw {st : QState} (h2 : (drainPending st).2 = false) (h : (drainPending st).1 = .waitingForWake) : st = .waitingForWake := by
  cases st <;> simp_all [drainPending]
theorem drainPending_aw_continues {st : QState} (h : st = .awokenWhileRunning) : (drainPending st).2 = false := by subst h; rfl

theorem wk_pdPending {s s' : State} {a : Nat} {o : Obs} (h : WakeInv s) (hh : HolderInv s) (hw : WfInv s) (hf : FullInv s) (hp : ParkInv s)
    (act : Act) (ha : s.acts[a]? = some act) (hc : act.child = none) (p q : Nat)
    (hpc : act.pc = .pdPending p q) (hs : stepAct s a = some (s', o)) : WakeInv s' := by
  wk_open
  have hold : (s.pcAt a).holds q = true := by rw [hpca, hpc]; simp [Pc.holds]
  have hnow : ∀ q', (s.pcAt a).wakesQ q' = false := by intro q'; rw [hpca, hpc]; rfl
  split at hs
  · simp at hs
  · next v hv =>
    try dsimp only at hs
    split at hs
    · next hr =>
      wk_fin
      have hlen := lt_of_getElem?_some hv
      have hoth : ∀ b, b ≠ a → (((s.setQ q { v with state := (drainPending v.state).1 }).setHolder q none).goto a (.ptLockBusy p)).pcAt b = s.pcAt b := by sim_oth
      have hlt' : a < ((s.setQ q { v with state := (drainPending v.state).1 }).setHolder q none).acts.length := by simpa using hlt
      obtain ⟨o1, o2, o3⟩ := oth_facts hoth
      have hregs : ∀ i, (((s.setQ q { v with state := (drainPending v.state).1 }).setHolder q none).goto a (.ptLockBusy p)).regW i = s.regW i :=
        fun i => regW_congr (by simp) i
      refine WakeInv.step (a := a) h hh hw hf hp o1 o2 o3 ?_ ?_ ?_ ?_ ?_ ?_
      · intro q' hq'; rw [hnow] at hq'; cases hq'
      · intro q' j' hr'; left; unfold Reg at hr' ⊢; rw [hregs]; exact hr'
      · intro q'
        by_cases hq' : q' = q
        · subst hq'; exact QRel.hold hold
        · have hne : ¬ q = q' := fun e => hq' e.symm
          refine QRel.same ?_ ?_
          · simp [State.qSt, List.getElem?_set, hne]
          · simp [State.qjobs, List.getElem?_set, hne]
      · intro q' hq' hst
        by_cases hqq : q' = q
        · subst hqq
          obtain ⟨j, rest, hl, hcl⟩ := h.poll2 a q' (by rw [hpca, hpc]; rfl)
          refine ⟨j, rest, ?_, ?_⟩
          · rw [qjobs_of hv] at hl
            simp [State.qjobs, List.getElem?_set, hlen]
            exact Option.some.inj hl
          · rcases hcl with hcl | hcl | hcl
            · left; unfold Reg at hcl ⊢; rw [hregs]; exact hcl
            · exact Or.inr (flight_keep hoth (hnow q') hcl)
            · rw [qSt_of hv] at hcl
              have := drainPending_aw_continues (Option.some.inj hcl)
              rw [this] at hr; cases hr
        · have hne : ¬ q = q' := fun e => hqq e.symm
          have : ((((s.setQ q { v with state := (drainPending v.state).1 }).setHolder q none).goto a (.ptLockBusy p))).qSt q' = s.qSt q' := by
            simp [State.qSt, List.getElem?_set, hne]
          rw [this] at hst
          exact absurd hst (no_wfw_held hh hq')
      · intro q' j' hq'; rw [pcAt_goto_self _ hlt'] at hq'; simp [Pc.requeuing] at hq'
      · intro q' hq'; rw [pcAt_goto_self _ hlt'] at hq'; simp [Pc.pending] at hq'
    · next hr =>
      wk_fin
      exact wk_ownTable h hh hw hf hp hlt hold hv (drainPending_nowfw (by simpa using hr))
        (by intro q' hq'; rw [hnow] at hq'; cases hq') rfl rfl _ rfl rfl (fun j => rfl)

theorem wakeQueue_wfw {st : QState} (h : (wakeQueue st).1 = .waitingForWake) : st = .waitingForWake := absurd h (wakeQueue_not_wfw st)
theorem wakeQueue_aw {st : QState} (h : st = .awokenWhileRunning) : (wakeQueue st).1 = .awokenWhileRunning := by subst h; rfl

theorem wk_wqCs {s s' : State} {a : Nat} {o : Obs} (h : WakeInv s) (hh : HolderInv s) (hw : WfInv s) (hf : FullInv s) (hp : ParkInv s)
    (act : Act) (ha : s.acts[a]? = some act) (hc : act.child = none) (q : Nat) (k : Pc)
    (hpc : act.pc = .wqCs q k) (hs : stepAct s a = some (s', o)) : WakeInv s' := by
  wk_open
  split at hs
  · simp at hs
  · next v hv =>
    wk_fin
    have hlt' : a < (s.setQ q { v with state := (wakeQueue v.state).1 }).acts.length := by simpa using hlt
    have hlen := lt_of_getElem?_some hv
    refine WakeInv.soft' (a := a) h hh hw hf hp (by sim_oth) ?_ ?_ ?_ ?_ ?_
    · intro q' hq'
      rw [hpca, hpc] at hq'
      by_cases hqq : q' = q
      · subst hqq
        right
        exact ⟨v.state, qSt_of hv, by simp [State.qSt, hlen]⟩
      · left
        rw [pcAt_goto_self _ hlt']
        have hne : ¬ q = q' := fun e => hqq e.symm
        simp only [Pc.wakesQ, Bool.or_eq_true, beq_iff_eq, hne, false_or] at hq'
        split <;> simpa [Pc.wakesQ] using hq'
    · intro q' j' hq'
      rw [pcAt_goto_self _ hlt'] at hq'
      rw [hpca, hpc]
      simp only [Pc.requeuing] at hq' ⊢
      split at hq' <;> simpa [Pc.requeuing] using hq'
    · intro q' hq'
      rw [pcAt_goto_self _ hlt'] at hq'
      rw [hpca, hpc]
      simp only [Pc.pending] at hq' ⊢
      split at hq' <;> simpa [Pc.pending] using hq'
    · intro q' j' hr; left; unfold Reg at hr ⊢; rw [← hr]; exact regW_congr (by simp) j'
    · exact hq_of_set (v' := { v with state := (wakeQueue v.state).1 }) hv (by simp) wakeQueue_wfw wakeQueue_aw (Or.inl rfl)

theorem wk_waking {s s' : State} {a : Nat} {o : Obs} (h : WakeInv s) (hh : HolderInv s) (hw : WfInv s) (hf : FullInv s) (hp : ParkInv s)
    (act : Act) (ha : s.acts[a]? = some act) (hc : act.child = none) (ws : List Waker) (k : Pc)
    (hpc : act.pc = .waking ws k) (hs : stepAct s a = some (s', o)) : WakeInv s' := by
  wk_open
  split at hs
  all_goals (
    wk_fin
    refine WakeInv.soft' (a := a) h hh hw hf hp (by sim_oth) ?_ ?_ ?_ ?_ ?_
    · intro q' hq'
      left
      rw [hpca, hpc] at hq'
      rw [pcAt_goto_self _ (by simpa using hlt)]
      simp only [Pc.wakesQ, List.contains_cons, List.contains_nil, Bool.or_eq_true, beq_iff_eq, Bool.false_or] at hq' ⊢
      first
      | exact hq'
      | (rcases hq' with (e | e) | e
         · first | (left; cases e; rfl) | (cases e)
         · first | exact Or.inr (Or.inl e) | exact Or.inl e
         · first | exact Or.inr (Or.inr e) | exact Or.inr e)
    · intro q' j' hq'
      rw [pcAt_goto_self _ (by simpa using hlt)] at hq'
      rw [hpca, hpc]; simpa [Pc.requeuing] using hq'
    · intro q' hq'
      rw [pcAt_goto_self _ (by simpa using hlt)] at hq'
      rw [hpca, hpc]; simpa [Pc.pending] using hq'
    · intro q' j' hr; left; unfold Reg at hr ⊢; rw [← hr]; exact regW_congr (by simp) j'
    · intro q'; left; exact ⟨by simp [State.qSt], by simp [State.qjobs]⟩)

/-- the event a job awaits fires: its registered waker is taken out of the slot and is now on its way -/
theorem fire_reg {s X : State} {a j0 : Nat} {jb : Job} {pc' : Pc} (hjb : s.jobs[j0]? = some jb)
    (hXj : X.jobs = (s.setJob j0 { jb with reg := none }).jobs) (hXa : X.pcAt a = pc')
    (hw : ∀ q, jb.reg = some (.queue q) → pc'.wakesQ q = true) :
    ∀ q j, Reg s q j → Reg X q j ∨ Flight X q := by
  intro q j hr
  by_cases hj : j = j0
  · subst hj
    right
    refine ⟨a, ?_⟩
    rw [hXa]
    apply hw
    simpa [Reg, State.regW, hjb] using hr
  · left
    unfold Reg at hr ⊢
    rw [← hr]
    simp only [State.regW, hXj, State.setJob, List.getElem?_set]
    have : ¬ j0 = j := fun e => hj e.symm
    simp [this]

set_option hygiene false in
/-- the side conditions of `WakeInv.soft'` for a step that touches neither the queues nor the registrations -/
macro "wk_plain" : tactic => `(tactic| (
  refine WakeInv.soft' (a := a) h hh hw hf hp ?_ ?_ ?_ ?_ ?_ ?_
  · sim_oth
  · wk_W
  · wk_R
  · wk_P
  · wk_reg
  · wk_q))

theorem wk_openSend {s s' : State} {a : Nat} {o : Obs} (h : WakeInv s) (hh : HolderInv s) (hw : WfInv s) (hf : FullInv s) (hp : ParkInv s)
    (act : Act) (ha : s.acts[a]? = some act) (hc : act.child = none) (g : Nat) (k : Pc)
    (hpc : act.pc = .openSend g k) (hs : stepAct s a = some (s', o)) : WakeInv s' := by
  wk_open
  split at hs
  · simp at hs
  · next gt hgt =>
    split at hs
    · wk_fin; wk_plain
    · next op rest hwait =>
      try dsimp only at hs
      split at hs
      · -- the operation is the user future of a future_sync
        repeat' split at hs
        all_goals (try (simp at hs; done))
        all_goals (simp only [Option.some.injEq, Prod.mk.injEq] at hs; obtain ⟨rfl, _⟩ := hs)
        all_goals wk_plain
      · next j0 hj0 =>
        split at hs
        · simp at hs
        · next jb hjb =>
          try dsimp only at hs
          split at hs
          · next w hwreg =>
            wk_fin
            refine WakeInv.soft' (a := a) h hh hw hf hp (by sim_oth) ?_ ?_ ?_ ?_ ?_
            · wk_W
            · wk_R
            · wk_P
            · refine fire_reg (a := a) hjb (by simp [State.setJob]) (pcAt_goto_self _ (by simpa using hlt)) ?_
              intro q hq
              rw [hwreg] at hq
              cases hq
              simp [Pc.wakesQ]
            · wk_q
          · next hwreg =>
            wk_fin
            refine WakeInv.soft' (a := a) h hh hw hf hp (by sim_oth) ?_ ?_ ?_ ?_ ?_
            · wk_W
            · wk_R
            · wk_P
            · refine fire_reg (a := a) hjb (by simp [State.setJob]) (pcAt_goto_self _ (by simpa using hlt)) ?_
              intro q hq
              rw [hwreg] at hq
              cases hq
            · wk_q

theorem wk_resumeSend {s s' : State} {a : Nat} {o : Obs} (h : WakeInv s) (hh : HolderInv s) (hw : WfInv s) (hf : FullInv s) (hp : ParkInv s)
    (act : Act) (ha : s.acts[a]? = some act) (hc : act.child = none) (op : Nat) (k : Pc)
    (hpc : act.pc = .resumeSend op k) (hs : stepAct s a = some (s', o)) : WakeInv s' := by
  wk_open
  split at hs
  · simp at hs
  · next j0 hj0 =>
    split at hs
    · simp at hs
    · next jb hjb =>
      split at hs
      · next op' g fs r hk =>
        split at hs
        · simp at hs
        · next gt hgt =>
          try dsimp only at hs
          split at hs
          · next w hwreg =>
            wk_fin
            refine WakeInv.soft' (a := a) h hh hw hf hp (by sim_oth) ?_ ?_ ?_ ?_ ?_
            · wk_W
            · wk_R
            · wk_P
            · refine fire_reg (a := a) hjb (by simp [State.setJob]) (pcAt_goto_self _ (by simpa using hlt)) ?_
              intro q hq
              rw [hwreg] at hq
              cases hq
              simp [Pc.wakesQ]
            · wk_q
          · next hwreg =>
            wk_fin
            refine WakeInv.soft' (a := a) h hh hw hf hp (by sim_oth) ?_ ?_ ?_ ?_ ?_
            · wk_W
            · wk_R
            · wk_P
            · refine fire_reg (a := a) hjb (by simp [State.setJob]) (pcAt_goto_self _ (by simpa using hlt)) ?_
              intro q hq
              rw [hwreg] at hq
              cases hq
            · wk_q
      · simp at hs

/-- the poll that registers the context's waker with the event the job awaits -/
theorem wk_register {s : State} {a j : Nat} {jb : Job} {c : Ctx} {k : Pc} {act : Act}
    (h : WakeInv s) (hh : HolderInv s) (hw : WfInv s) (hf : FullInv s) (hp : ParkInv s)
    (ha : s.acts[a]? = some act) (hpc : act.pc = .jobAwait j c k) (hjb : s.jobs[j]? = some jb) (hnt : (Pc.jobAwait j c k).noTask = true) :
    WakeInv ((s.setJob j { jb with reg := some (ctxWaker act.thread c) }).goto a (ctxPending j k c)) := by
  have hlt : a < s.acts.length := lt_of_getElem?_some ha
  have hpca := pcAt_of ha
  have hlt' : a < (s.setJob j { jb with reg := some (ctxWaker act.thread c) }).acts.length := by simpa using hlt
  have hjlt : j < s.jobs.length := lt_of_getElem?_some hjb
  have hoth : ∀ b, b ≠ a → ((s.setJob j { jb with reg := some (ctxWaker act.thread c) }).goto a (ctxPending j k c)).pcAt b = s.pcAt b := by
    intro b hb; rw [pcAt_goto_ne _ hb]; rfl
  have hqst : ∀ i, ((s.setJob j { jb with reg := some (ctxWaker act.thread c) }).goto a (ctxPending j k c)).qSt i = s.qSt i := by intro i; simp
  have hqj : ∀ i, ((s.setJob j { jb with reg := some (ctxWaker act.thread c) }).goto a (ctxPending j k c)).qjobs i = s.qjobs i := by intro i; simp
  have hregne : ∀ i, i ≠ j → ((s.setJob j { jb with reg := some (ctxWaker act.thread c) }).goto a (ctxPending j k c)).regW i = s.regW i := by
    intro i hi
    have : ¬ j = i := fun e => hi e.symm
    simp [State.regW, State.setJob, List.getElem?_set, this]
  have hregj : ((s.setJob j { jb with reg := some (ctxWaker act.thread c) }).goto a (ctxPending j k c)).regW j = some (ctxWaker act.thread c) := by
    simp [State.regW, State.setJob, List.getElem?_set, hjlt]
  have hrun : (s.pcAt a).runningQ = some (j, c.q) := by rw [hpca, hpc]; rfl
  obtain ⟨o1, o2, o3⟩ := oth_facts hoth
  refine WakeInv.step (a := a) h hh hw hf hp o1 o2 o3 ?_ ?_ ?_ ?_ ?_ ?_
  · intro q hq
    left
    rw [hpca, hpc] at hq
    rw [pcAt_goto_self _ hlt']
    cases c <;> simp_all [Pc.wakesQ, ctxPending]
  · intro q j' hr
    by_cases hj : j' = j
    · subst hj; exact Or.inr (Or.inr ⟨c.q, hrun⟩)
    · left; unfold Reg at hr ⊢; rw [hregne j' hj]; exact hr
  · intro q; exact QRel.same (hqst q) (hqj q)
  · intro q hq hst
    rw [hqst] at hst
    exact absurd hst (no_wfw_held hh hq)
  · intro q j' hq
    rw [pcAt_goto_self _ hlt'] at hq
    cases c with
    | caller q0 =>
      have hk := caller_cont_none (by have := hw a; rw [hpca, hpc] at this; simpa [Pc.callerOk] using this : k.plainFor q0 = true)
      simp only [ctxPending, Pc.requeuing] at hq
      rw [hk.1] at hq; cases hq
    | pool p q0 =>
      simp only [ctxPending, Pc.requeuing, Option.some.injEq, Prod.mk.injEq] at hq
      obtain ⟨rfl, rfl⟩ := hq
      left
      unfold Reg
      rw [hregj]; rfl
    | task f l q0 => simp [Pc.noTask] at hnt
  · intro q hq
    rw [pcAt_goto_self _ hlt'] at hq
    cases c with
    | caller q0 =>
      have hk := caller_cont_none (by have := hw a; rw [hpca, hpc] at this; simpa [Pc.callerOk] using this : k.plainFor q0 = true)
      simp only [ctxPending, Pc.pending] at hq
      rw [hk.2.1] at hq; cases hq
    | pool p q0 => simp [ctxPending, Pc.pending] at hq
    | task f l q0 => simp [Pc.noTask] at hnt

theorem wk_jobAwait {s s' : State} {a : Nat} {o : Obs} (hnt : NoTaskInv s) (h : WakeInv s) (hh : HolderInv s) (hw : WfInv s) (hf : FullInv s) (hp : ParkInv s)
    (act : Act) (ha : s.acts[a]? = some act) (hc : act.child = none) (j : Nat) (c : Ctx) (k : Pc)
    (hpc : act.pc = .jobAwait j c k) (hs : stepAct s a = some (s', o)) : WakeInv s' := by
  have hntw := hnt.pcs a
  wk_open
  rw [hpca, hpc] at hntw
  split at hs
  · simp at hs
  · next jb hjb =>
    have hns : jb.kind.isSlot = false := hnt.jobs jb (List.mem_of_getElem? hjb)
    try dsimp only at hs
    repeat' split at hs
    all_goals (try (simp at hs; done))
    all_goals (simp only [Option.some.injEq, Prod.mk.injEq] at hs; obtain ⟨rfl, _⟩ := hs)
    all_goals (first
      | wk_plain
      | exact wk_register h hh hw hf hp ha hpc hjb hntw
      | (exfalso; simp_all [JobKind.isSlot]; done))

theorem pcAt_spawned (s : State) (pt : PThr) (n : Act) (tl : Option Nat) (b : Nat) :
    ({ s with pthreads := s.pthreads ++ [pt], threadsVec := s.threadsVec ++ [s.pthreads.length], threadsLock := tl, acts := s.acts ++ [n] } : State).pcAt b =
      if b < s.acts.length then s.pcAt b else if b = s.acts.length then n.pc else .dead := by
  simp only [State.pcAt]
  by_cases hbl : b < s.acts.length
  · simp [hbl, List.getElem?_append_left hbl]
  · by_cases hbe : b = s.acts.length
    · subst hbe; simp
    · have h2 : (s.acts ++ [n])[b]? = none := by simp; omega
      simp [hbl, hbe, h2]

theorem wk_stSpawn {s s' : State} {a : Nat} {o : Obs} (h : WakeInv s) (hh : HolderInv s) (hw : WfInv s) (hf : FullInv s) (hp : ParkInv s)
    (act : Act) (ha : s.acts[a]? = some act) (hc : act.child = none) (m : Nat) (k : Pc)
    (hpc : act.pc = .stSpawn m k) (hs : stepAct s a = some (s', o)) : WakeInv s' := by
  wk_open
  split at hs
  · simp at hs
  · split at hs
    · wk_fin
      have hdead : ∀ b, ¬ b < s.acts.length → s.pcAt b = .dead := by
        intro b hb
        have : s.acts[b]? = none := List.getElem?_eq_none (Nat.le_of_not_lt hb)
        simp [State.pcAt, this]
      have hlt2 : a < s.acts.length + 1 := by omega
      refine WakeInv.soft h hh hw hf hp ?_ ?_ ?_ ?_ ?_
      · intro b q hb
        left
        by_cases hba : b = a
        · subst hba
          rw [pcAt_goto_self _ (by simpa using hlt2)]
          rw [hpca, hpc] at hb; simpa [Pc.wakesQ] using hb
        · rw [pcAt_goto_ne _ hba, pcAt_spawned]
          by_cases hbl : b < s.acts.length
          · simp [hbl, hb]
          · rw [hdead b hbl] at hb; simp [Pc.wakesQ] at hb
      · intro b q j hb
        by_cases hba : b = a
        · subst hba
          rw [pcAt_goto_self _ (by simpa using hlt2)] at hb
          rw [hpca, hpc]; simpa [Pc.requeuing] using hb
        · rw [pcAt_goto_ne _ hba, pcAt_spawned] at hb
          by_cases hbl : b < s.acts.length
          · simpa [hbl] using hb
          · by_cases hbe : b = s.acts.length
            · simp [hbl, hbe, Pc.requeuing] at hb
            · simp [hbl, hbe, Pc.requeuing] at hb
      · intro b q hb
        by_cases hba : b = a
        · subst hba
          rw [pcAt_goto_self _ (by simpa using hlt2)] at hb
          rw [hpca, hpc]; simpa [Pc.pending] using hb
        · rw [pcAt_goto_ne _ hba, pcAt_spawned] at hb
          by_cases hbl : b < s.acts.length
          · simpa [hbl] using hb
          · by_cases hbe : b = s.acts.length
            · simp [hbl, hbe, Pc.pending] at hb
            · simp [hbl, hbe, Pc.pending] at hb
      · intro q j hr; left; unfold Reg at hr ⊢; rw [← hr]; exact regW_congr (by simp) j
      · intro q; left; exact ⟨by simp [State.qSt], by simp [State.qjobs]⟩
    · wk_fin
      wk_plain

set_option maxHeartbeats 4000000 in
set_option maxRecDepth 8000 in
theorem wakeInv_stepAct {s s' : State} {a : Nat} {o : Obs} (hnt : NoTaskInv s) (hh : HolderInv s) (hw : WfInv s) (hf : FullInv s) (hp : ParkInv s)
    (h : WakeInv s) (hs : stepAct s a = some (s', o)) : WakeInv s' := by
  have hs0 := hs
  unfold stepAct at hs
  split at hs
  · simp at hs
  next act ha =>
  split at hs
  · simp at hs
  next hchild =>
  have hlt : a < s.acts.length := lt_of_getElem?_some ha
  have hpca := pcAt_of ha
  have hntw := hnt.pcs a
  rw [hpca] at hntw
  have hc : act.child = none := by
    cases hcc : act.child <;> simp_all
  split at hs
  all_goals (try (simp at hs; done))
  all_goals (try (first
      | exact wk_sdPush h hh hw hf hp act ha hc _ _ (by assumption) hs0
      | exact wk_siIdle h hh hw hf hp act ha hc _ _ (by assumption) hs0
      | exact wk_sdIdle h hh hw hf hp act ha hc _ (by assumption) hs0
      | exact wk_sbStealIdle h hh hw hf hp act ha hc _ _ (by assumption) hs0
      | exact wk_rjDequeue h hh hw hf hp act ha hc _ _ (by assumption) hs0
      | exact wk_pdDequeue h hh hw hf hp act ha hc _ _ (by assumption) hs0
      | exact wk_pdExit h hh hw hf hp act ha hc _ _ (by assumption) hs0
      | exact wk_rjPending h hh hw hf hp act ha hc _ _ _ (by assumption) hs0
      | exact wk_pdRequeue h hh hw hf hp act ha hc _ _ _ (by assumption) hs0
      | exact wk_pdPending h hh hw hf hp act ha hc _ _ (by assumption) hs0
      | exact wk_wqCs h hh hw hf hp act ha hc _ _ (by assumption) hs0
      | exact wk_waking h hh hw hf hp act ha hc _ _ (by assumption) hs0
      | exact wk_openSend h hh hw hf hp act ha hc _ _ (by assumption) hs0
      | exact wk_resumeSend h hh hw hf hp act ha hc _ _ (by assumption) hs0
      | exact wk_jobAwait hnt h hh hw hf hp act ha hc _ _ _ (by assumption) hs0
      | exact wk_stSpawn h hh hw hf hp act ha hc _ _ (by assumption) hs0))
  all_goals (try dsimp only at hs)
  all_goals (repeat' split at hs)
  all_goals (try (simp at hs; done))
  all_goals (try (simp only [Option.some.injEq, Prod.mk.injEq] at hs; obtain ⟨rfl, _⟩ := hs))
  -- the task-context program counters do not occur
  all_goals (try (rw [‹act.pc = _›] at hntw; simp [Pc.noTask] at hntw; done))
  all_goals (first
      | (refine WakeInv.soft' (a := a) h hh hw hf hp ?_ ?_ ?_ ?_ ?_ ?_
         · sim_oth
         · wk_W
         · wk_R
         · wk_P
         · wk_reg
         · wk_q)
      | skip)
  done

end Desync
