/-
Projections of the state that the job invariants read — phase and queue of a job, the job list of a queue — and how
the state setters act on them.
-/
import DesyncModel.Inv.Job

namespace Desync
open Gen

/-- phase and queue of job `j` -/
def State.jobPQ (s : State) (j : Nat) : Option (Phase × Nat) := (s.jobs[j]?).map (fun b => (b.ph, b.q))
/-- the job list of queue `q` -/
def State.qjobs (s : State) (q : Nat) : Option (List Nat) := (s.qs[q]?).map (·.jobs)

theorem jobPQ_of {s : State} {j : Nat} {b : Job} (h : s.jobs[j]? = some b) : s.jobPQ j = some (b.ph, b.q) := by simp [State.jobPQ, h]
theorem qjobs_of {s : State} {q : Nat} {v : JobQ} (h : s.qs[q]? = some v) : s.qjobs q = some v.jobs := by simp [State.qjobs, h]

@[simp] theorem jobPQ_setQ (s : State) (q : Nat) (v : JobQ) (i : Nat) : (s.setQ q v).jobPQ i = s.jobPQ i := rfl
@[simp] theorem qjobs_setFut (s : State) (f : Nat) (v : Fut) (i : Nat) : (s.setFut f v).qjobs i = s.qjobs i := rfl
@[simp] theorem jobPQ_setFut (s : State) (f : Nat) (v : Fut) (i : Nat) : (s.setFut f v).jobPQ i = s.jobPQ i := rfl
@[simp] theorem qjobs_setGate (s : State) (g : Nat) (v : Gate) (i : Nat) : (s.setGate g v).qjobs i = s.qjobs i := rfl
@[simp] theorem jobPQ_setGate (s : State) (g : Nat) (v : Gate) (i : Nat) : (s.setGate g v).jobPQ i = s.jobPQ i := rfl
@[simp] theorem qjobs_setAct (s : State) (a : Nat) (v : Act) (i : Nat) : (s.setAct a v).qjobs i = s.qjobs i := rfl
@[simp] theorem jobPQ_setAct (s : State) (a : Nat) (v : Act) (i : Nat) : (s.setAct a v).jobPQ i = s.jobPQ i := rfl
@[simp] theorem qjobs_setSf (s : State) (u : Nat) (v : SyncFut) (i : Nat) : (s.setSf u v).qjobs i = s.qjobs i := rfl
@[simp] theorem jobPQ_setSf (s : State) (u : Nat) (v : SyncFut) (i : Nat) : (s.setSf u v).jobPQ i = s.jobPQ i := rfl
@[simp] theorem qjobs_setPThr (s : State) (p : Nat) (v : PThr) (i : Nat) : (s.setPThr p v).qjobs i = s.qjobs i := rfl
@[simp] theorem jobPQ_setPThr (s : State) (p : Nat) (v : PThr) (i : Nat) : (s.setPThr p v).jobPQ i = s.jobPQ i := rfl
@[simp] theorem qjobs_setHolder (s : State) (q : Nat) (h : Option Nat) (i : Nat) : (s.setHolder q h).qjobs i = s.qjobs i := rfl
@[simp] theorem jobPQ_setHolder (s : State) (q : Nat) (h : Option Nat) (i : Nat) : (s.setHolder q h).jobPQ i = s.jobPQ i := rfl
@[simp] theorem qjobs_takeReady (s : State) (w a : Nat) (i : Nat) : (s.takeReady w a).qjobs i = s.qjobs i := rfl
@[simp] theorem jobPQ_takeReady (s : State) (w a : Nat) (i : Nat) : (s.takeReady w a).jobPQ i = s.jobPQ i := rfl
@[simp] theorem qjobs_dropReady (s : State) (w : Nat) (i : Nat) : (s.dropReady w).qjobs i = s.qjobs i := rfl
@[simp] theorem jobPQ_dropReady (s : State) (w : Nat) (i : Nat) : (s.dropReady w).jobPQ i = s.jobPQ i := rfl

@[simp] theorem qjobs_setJob (s : State) (j : Nat) (v : Job) (i : Nat) : (s.setJob j v).qjobs i = s.qjobs i := rfl
@[simp] theorem jobPQ_goto (s : State) (a : Nat) (pc : Pc) (i : Nat) : (s.goto a pc).jobPQ i = s.jobPQ i := by unfold State.goto; split <;> rfl
@[simp] theorem qjobs_goto (s : State) (a : Nat) (pc : Pc) (i : Nat) : (s.goto a pc).qjobs i = s.qjobs i := by unfold State.goto; split <;> rfl
@[simp] theorem jobPQ_setWoken (s : State) (a : Nat) (b : Bool) (i : Nat) : (s.setWoken a b).jobPQ i = s.jobPQ i := by unfold State.setWoken; split <;> rfl
@[simp] theorem qjobs_setWoken (s : State) (a : Nat) (b : Bool) (i : Nat) : (s.setWoken a b).qjobs i = s.qjobs i := by unfold State.setWoken; split <;> rfl
@[simp] theorem jobPQ_notify (s : State) (w : Nat) (i : Nat) : (s.notify w).jobPQ i = s.jobPQ i := by unfold State.notify; split <;> (try split) <;> rfl
@[simp] theorem qjobs_notify (s : State) (w : Nat) (i : Nat) : (s.notify w).qjobs i = s.qjobs i := by unfold State.notify; split <;> (try split) <;> rfl
@[simp] theorem jobPQ_setQState (s : State) (q : Nat) (st : QState) (i : Nat) : (s.setQState q st).jobPQ i = s.jobPQ i := by unfold State.setQState; split <;> rfl
@[simp] theorem jobPQ_pushBack (s : State) (q j : Nat) (i : Nat) : (s.pushBack q j).jobPQ i = s.jobPQ i := by unfold State.pushBack; split <;> rfl
@[simp] theorem jobPQ_pushFront (s : State) (q j : Nat) (i : Nat) : (s.pushFront q j).jobPQ i = s.jobPQ i := by unfold State.pushFront; split <;> rfl
@[simp] theorem qjobs_setJobPh (s : State) (j : Nat) (ph : Phase) (i : Nat) : (s.setJobPh j ph).qjobs i = s.qjobs i := by unfold State.setJobPh; split <;> rfl

theorem jobPQ_setJob (s : State) (j : Nat) (v : Job) (i : Nat) :
    (s.setJob j v).jobPQ i = if i = j ∧ j < s.jobs.length then some (v.ph, v.q) else s.jobPQ i := by
  simp only [State.jobPQ, State.setJob, List.getElem?_set]
  by_cases h : j = i
  · subst h; by_cases hl : j < s.jobs.length <;> simp [hl]
  · have : ¬ i = j := fun e => h e.symm
    simp [h, this]

/-- a job update that keeps phase and queue is invisible to the invariants -/
theorem jobPQ_setJob_keep {s : State} {j : Nat} {b v : Job} (hj : s.jobs[j]? = some b) (h1 : v.ph = b.ph) (h2 : v.q = b.q) (i : Nat) :
    (s.setJob j v).jobPQ i = s.jobPQ i := by
  rw [jobPQ_setJob]
  split
  · next h => rw [h.1, jobPQ_of hj, h1, h2]
  · rfl

theorem qjobs_setQ (s : State) (q : Nat) (v : JobQ) (i : Nat) :
    (s.setQ q v).qjobs i = if i = q ∧ q < s.qs.length then some v.jobs else s.qjobs i := by
  simp only [State.qjobs, State.setQ, List.getElem?_set]
  by_cases h : q = i
  · subst h; by_cases hl : q < s.qs.length <;> simp [hl]
  · have : ¬ i = q := fun e => h e.symm
    simp [h, this]

/-- a queue update that keeps the job list is invisible to the invariants -/
theorem qjobs_setQ_keep {s : State} {q : Nat} {v v' : JobQ} (hq : s.qs[q]? = some v) (h1 : v'.jobs = v.jobs) (i : Nat) :
    (s.setQ q v').qjobs i = s.qjobs i := by
  rw [qjobs_setQ]
  split
  · next h => rw [h.1, qjobs_of hq, h1]
  · rfl

@[simp] theorem qjobs_setQState (s : State) (q : Nat) (st : QState) (i : Nat) : (s.setQState q st).qjobs i = s.qjobs i := by
  unfold State.setQState
  split
  · next v hv => exact qjobs_setQ_keep (v' := { v with state := st }) hv rfl i
  · rfl

end Desync

namespace Desync
open Gen

theorem jobPQ_some {s : State} {j : Nat} {ph : Phase} {q : Nat} (h : s.jobPQ j = some (ph, q)) :
    ∃ b, s.jobs[j]? = some b ∧ b.ph = ph ∧ b.q = q := by
  simp only [State.jobPQ] at h
  cases hb : s.jobs[j]? with
  | none => simp [hb] at h
  | some b => simp [hb] at h; exact ⟨b, rfl, h.1, h.2⟩

theorem jobPQ_setJob_of {s : State} {j : Nat} {b : Job} (hj : s.jobs[j]? = some b) (v : Job) (i : Nat) :
    (s.setJob j v).jobPQ i = if i = j then some (v.ph, v.q) else s.jobPQ i := by
  have hlt : j < s.jobs.length := (List.getElem?_eq_some_iff.mp hj).1
  rw [jobPQ_setJob]
  by_cases h : i = j <;> simp [h, hlt]

theorem jobPQ_setJobPh_of {s : State} {j : Nat} {b : Job} (hj : s.jobs[j]? = some b) (ph : Phase) (i : Nat) :
    (s.setJobPh j ph).jobPQ i = if i = j then some (ph, b.q) else s.jobPQ i := by
  unfold State.setJobPh
  rw [hj]
  exact jobPQ_setJob_of hj _ i

theorem qjobs_setQ_of {s : State} {q : Nat} {v : JobQ} (hq : s.qs[q]? = some v) (v' : JobQ) (i : Nat) :
    (s.setQ q v').qjobs i = if i = q then some v'.jobs else s.qjobs i := by
  have hlt : q < s.qs.length := (List.getElem?_eq_some_iff.mp hq).1
  rw [qjobs_setQ]
  by_cases h : i = q <;> simp [h, hlt]

theorem qjobs_pushFront (s : State) (q j i : Nat) :
    (s.pushFront q j).qjobs i = if i = q then (s.qjobs q).map (j :: ·) else s.qjobs i := by
  unfold State.pushFront
  cases hq : s.qs[q]? with
  | none =>
    simp only
    by_cases h : i = q
    · subst h; simp [State.qjobs, hq]
    · simp [h]
  | some v =>
    simp only
    rw [qjobs_setQ_of hq]
    by_cases h : i = q
    · subst h; simp [State.qjobs, hq]
    · simp [h]

theorem jobPQ_fresh (s : State) : s.jobPQ s.jobs.length = none := by simp [State.jobPQ]

theorem jobPQ_newJob (s : State) (q : Nat) (kind : JobKind) (i : Nat) :
    (s.newJob q kind).1.jobPQ i = if i = s.jobs.length then some (.queued, q) else s.jobPQ i := by
  simp only [State.newJob, State.jobPQ]
  by_cases h : i = s.jobs.length
  · subst h; simp
  · by_cases hlt : i < s.jobs.length
    · simp [h, List.getElem?_append_left hlt]
    · have : s.jobs.length < i := by omega
      have h1 : (s.jobs ++ [({ q := q, kind := kind, ph := Phase.queued, begun := false, ended := false, reg := none } : Job)])[i]? = none := by
        simp; omega
      have h2 : s.jobs[i]? = none := by simp; omega
      simp [h, h1, h2]

@[simp] theorem newJob_snd (s : State) (q : Nat) (kind : JobKind) : (s.newJob q kind).2 = s.jobs.length := rfl
@[simp] theorem qjobs_newJob (s : State) (q : Nat) (kind : JobKind) (i : Nat) : (s.newJob q kind).1.qjobs i = s.qjobs i := rfl
@[simp] theorem pcAt_newJob (s : State) (q : Nat) (kind : JobKind) (b : Nat) : (s.newJob q kind).1.pcAt b = s.pcAt b := rfl
@[simp] theorem acts_newJob (s : State) (q : Nat) (kind : JobKind) : (s.newJob q kind).1.acts = s.acts := rfl
@[simp] theorem qs_newJob (s : State) (q : Nat) (kind : JobKind) : (s.newJob q kind).1.qs = s.qs := rfl

theorem dequeue_some {s : State} {q a j : Nat} (h : (s.dequeue q a).2 = some j) :
    ∃ v rest, s.qs[q]? = some v ∧ v.jobs = j :: rest ∧ (s.dequeue q a).1 = (s.setQ q { v with jobs := rest }).setJobPh j (.held a) := by
  unfold State.dequeue at h ⊢
  split at h
  · next v hv =>
    split at h
    · split at h
      · next j' rest hj =>
        simp at h; subst h
        refine ⟨v, rest, hv, hj, ?_⟩
        simp [*]
      · simp at h
    · simp at h
  · simp at h

theorem dequeue_none {s : State} {q a : Nat} (h : (s.dequeue q a).2 = none) : (s.dequeue q a).1 = s := by
  unfold State.dequeue at h ⊢
  split
  · split
    · split
      · next j rest hj => simp [*] at h
      · rfl
    · rfl
  · rfl

end Desync

namespace Desync
open Gen

/-- is job `j` open: its closure has been invoked and it has neither completed nor been destroyed -/
def State.jobOpen (s : State) (j : Nat) : Bool :=
  match s.jobs[j]? with
  | some b => b.begun && !b.ended
  | none => false

theorem jobOpen_of {s : State} {j : Nat} {b : Job} (h : s.jobs[j]? = some b) : s.jobOpen j = (b.begun && !b.ended) := by simp [State.jobOpen, h]

@[simp] theorem jobOpen_setQ (s : State) (q : Nat) (v : JobQ) (i : Nat) : (s.setQ q v).jobOpen i = s.jobOpen i := rfl
@[simp] theorem jobOpen_setFut (s : State) (f : Nat) (v : Fut) (i : Nat) : (s.setFut f v).jobOpen i = s.jobOpen i := rfl
@[simp] theorem jobOpen_setGate (s : State) (g : Nat) (v : Gate) (i : Nat) : (s.setGate g v).jobOpen i = s.jobOpen i := rfl
@[simp] theorem jobOpen_setAct (s : State) (a : Nat) (v : Act) (i : Nat) : (s.setAct a v).jobOpen i = s.jobOpen i := rfl
@[simp] theorem jobOpen_setSf (s : State) (u : Nat) (v : SyncFut) (i : Nat) : (s.setSf u v).jobOpen i = s.jobOpen i := rfl
@[simp] theorem jobOpen_setPThr (s : State) (p : Nat) (v : PThr) (i : Nat) : (s.setPThr p v).jobOpen i = s.jobOpen i := rfl
@[simp] theorem jobOpen_setHolder (s : State) (q : Nat) (h : Option Nat) (i : Nat) : (s.setHolder q h).jobOpen i = s.jobOpen i := rfl
@[simp] theorem jobOpen_takeReady (s : State) (w a : Nat) (i : Nat) : (s.takeReady w a).jobOpen i = s.jobOpen i := rfl
@[simp] theorem jobOpen_dropReady (s : State) (w : Nat) (i : Nat) : (s.dropReady w).jobOpen i = s.jobOpen i := rfl
@[simp] theorem jobOpen_goto (s : State) (a : Nat) (pc : Pc) (i : Nat) : (s.goto a pc).jobOpen i = s.jobOpen i := by unfold State.goto; split <;> rfl
@[simp] theorem jobOpen_setWoken (s : State) (a : Nat) (b : Bool) (i : Nat) : (s.setWoken a b).jobOpen i = s.jobOpen i := by unfold State.setWoken; split <;> rfl
@[simp] theorem jobOpen_notify (s : State) (w : Nat) (i : Nat) : (s.notify w).jobOpen i = s.jobOpen i := by unfold State.notify; split <;> (try split) <;> rfl
@[simp] theorem jobOpen_setQState (s : State) (q : Nat) (st : QState) (i : Nat) : (s.setQState q st).jobOpen i = s.jobOpen i := by unfold State.setQState; split <;> rfl
@[simp] theorem jobOpen_pushBack (s : State) (q j : Nat) (i : Nat) : (s.pushBack q j).jobOpen i = s.jobOpen i := by unfold State.pushBack; split <;> rfl
@[simp] theorem jobOpen_pushFront (s : State) (q j : Nat) (i : Nat) : (s.pushFront q j).jobOpen i = s.jobOpen i := by unfold State.pushFront; split <;> rfl

theorem jobOpen_setJob_of {s : State} {j : Nat} {b : Job} (hj : s.jobs[j]? = some b) (v : Job) (i : Nat) :
    (s.setJob j v).jobOpen i = if i = j then (v.begun && !v.ended) else s.jobOpen i := by
  have hlt : j < s.jobs.length := (List.getElem?_eq_some_iff.mp hj).1
  simp only [State.jobOpen, State.setJob, List.getElem?_set]
  by_cases h : i = j
  · subst h; simp [hlt]
  · have : ¬ j = i := fun e => h e.symm
    simp [h, this]

theorem jobOpen_setJob_keep {s : State} {j : Nat} {b v : Job} (hj : s.jobs[j]? = some b) (h1 : v.begun = b.begun) (h2 : v.ended = b.ended) (i : Nat) :
    (s.setJob j v).jobOpen i = s.jobOpen i := by
  rw [jobOpen_setJob_of hj]
  split
  · next h => rw [h, jobOpen_of hj, h1, h2]
  · rfl

@[simp] theorem jobOpen_setJobPh (s : State) (j : Nat) (ph : Phase) (i : Nat) : (s.setJobPh j ph).jobOpen i = s.jobOpen i := by
  unfold State.setJobPh
  split
  · next v hv => exact jobOpen_setJob_keep (v := { v with ph := ph }) hv rfl rfl i
  · rfl

theorem jobOpen_fresh (s : State) : s.jobOpen s.jobs.length = false := by simp [State.jobOpen]

theorem jobOpen_of_append {Y s : State} {nj : Job} (hJ : Y.jobs = s.jobs ++ [nj]) (i : Nat) :
    Y.jobOpen i = if i = s.jobs.length then (nj.begun && !nj.ended) else s.jobOpen i := by
  simp only [State.jobOpen, hJ]
  by_cases h : i = s.jobs.length
  · subst h; simp
  · by_cases hlt : i < s.jobs.length
    · simp [h, List.getElem?_append_left hlt]
    · have h1 : (s.jobs ++ [nj])[i]? = none := by simp; omega
      have h2 : s.jobs[i]? = none := by simp; omega
      simp [h, h1, h2]

@[simp] theorem jobOpen_newJob (s : State) (q : Nat) (kind : JobKind) (i : Nat) : (s.newJob q kind).1.jobOpen i = s.jobOpen i := by
  rw [jobOpen_of_append (s := s) (nj := { q := q, kind := kind, ph := .queued, begun := false, ended := false, reg := none }) rfl]
  split
  · next h => rw [h, jobOpen_fresh]; rfl
  · rfl

end Desync

namespace Desync
open Gen

/-- has job `j` begun / ended -/
def State.jobB (s : State) (j : Nat) : Bool := match s.jobs[j]? with | some b => b.begun | none => false
def State.jobE (s : State) (j : Nat) : Bool := match s.jobs[j]? with | some b => b.ended | none => false

theorem jobOpen_eq (s : State) (j : Nat) : s.jobOpen j = (s.jobB j && !s.jobE j) := by
  simp only [State.jobOpen, State.jobB, State.jobE]; split <;> simp
theorem jobB_of {s : State} {j : Nat} {b : Job} (h : s.jobs[j]? = some b) : s.jobB j = b.begun := by simp [State.jobB, h]
theorem jobE_of {s : State} {j : Nat} {b : Job} (h : s.jobs[j]? = some b) : s.jobE j = b.ended := by simp [State.jobE, h]

@[simp] theorem jobB_setQ (s : State) (q : Nat) (v : JobQ) (i : Nat) : (s.setQ q v).jobB i = s.jobB i := rfl
@[simp] theorem jobB_setFut (s : State) (f : Nat) (v : Fut) (i : Nat) : (s.setFut f v).jobB i = s.jobB i := rfl
@[simp] theorem jobB_setGate (s : State) (g : Nat) (v : Gate) (i : Nat) : (s.setGate g v).jobB i = s.jobB i := rfl
@[simp] theorem jobB_setAct (s : State) (a : Nat) (v : Act) (i : Nat) : (s.setAct a v).jobB i = s.jobB i := rfl
@[simp] theorem jobB_setSf (s : State) (u : Nat) (v : SyncFut) (i : Nat) : (s.setSf u v).jobB i = s.jobB i := rfl
@[simp] theorem jobB_setPThr (s : State) (p : Nat) (v : PThr) (i : Nat) : (s.setPThr p v).jobB i = s.jobB i := rfl
@[simp] theorem jobB_setHolder (s : State) (q : Nat) (h : Option Nat) (i : Nat) : (s.setHolder q h).jobB i = s.jobB i := rfl
@[simp] theorem jobB_takeReady (s : State) (w a : Nat) (i : Nat) : (s.takeReady w a).jobB i = s.jobB i := rfl
@[simp] theorem jobB_dropReady (s : State) (w : Nat) (i : Nat) : (s.dropReady w).jobB i = s.jobB i := rfl
@[simp] theorem jobB_goto (s : State) (a : Nat) (pc : Pc) (i : Nat) : (s.goto a pc).jobB i = s.jobB i := by unfold State.goto; split <;> rfl
@[simp] theorem jobB_setWoken (s : State) (a : Nat) (b : Bool) (i : Nat) : (s.setWoken a b).jobB i = s.jobB i := by unfold State.setWoken; split <;> rfl
@[simp] theorem jobB_notify (s : State) (w : Nat) (i : Nat) : (s.notify w).jobB i = s.jobB i := by unfold State.notify; split <;> (try split) <;> rfl
@[simp] theorem jobB_setQState (s : State) (q : Nat) (st : QState) (i : Nat) : (s.setQState q st).jobB i = s.jobB i := by unfold State.setQState; split <;> rfl
@[simp] theorem jobB_pushBack (s : State) (q j : Nat) (i : Nat) : (s.pushBack q j).jobB i = s.jobB i := by unfold State.pushBack; split <;> rfl
@[simp] theorem jobB_pushFront (s : State) (q j : Nat) (i : Nat) : (s.pushFront q j).jobB i = s.jobB i := by unfold State.pushFront; split <;> rfl

theorem jobB_setJob_of {s : State} {j : Nat} {b : Job} (hj : s.jobs[j]? = some b) (v : Job) (i : Nat) :
    (s.setJob j v).jobB i = if i = j then v.begun else s.jobB i := by
  have hlt : j < s.jobs.length := (List.getElem?_eq_some_iff.mp hj).1
  simp only [State.jobB, State.setJob, List.getElem?_set]
  by_cases h : i = j
  · subst h; simp [hlt]
  · have : ¬ j = i := fun e => h e.symm
    simp [h, this]

@[simp] theorem jobB_setJobPh (s : State) (j : Nat) (ph : Phase) (i : Nat) : (s.setJobPh j ph).jobB i = s.jobB i := by
  unfold State.setJobPh
  split
  · next v hv =>
    rw [jobB_setJob_of hv]
    by_cases e : i = j
    · simp [e, jobB_of hv]
    · simp [e]
  · rfl

theorem jobB_fresh (s : State) (i : Nat) (h : s.jobs.length ≤ i) : s.jobB i = false := by
  have : s.jobs[i]? = none := by simpa using h
  simp [State.jobB, this]

theorem jobB_of_append {Y s : State} {nj : Job} (hJ : Y.jobs = s.jobs ++ [nj]) (i : Nat) :
    Y.jobB i = if i = s.jobs.length then nj.begun else s.jobB i := by
  simp only [State.jobB, hJ]
  by_cases h : i = s.jobs.length
  · subst h; simp
  · by_cases hlt : i < s.jobs.length
    · simp [h, List.getElem?_append_left hlt]
    · have h1 : (s.jobs ++ [nj])[i]? = none := by simp; omega
      have h2 : s.jobs[i]? = none := by simp; omega
      simp [h, h1, h2]

@[simp] theorem jobB_newJob (s : State) (q : Nat) (kind : JobKind) (i : Nat) : (s.newJob q kind).1.jobB i = s.jobB i := by
  rw [jobB_of_append (s := s) (nj := { q := q, kind := kind, ph := .queued, begun := false, ended := false, reg := none }) rfl]
  split
  · next h => rw [h, jobB_fresh s _ (Nat.le_refl _)]
  · rfl

@[simp] theorem jobE_setQ (s : State) (q : Nat) (v : JobQ) (i : Nat) : (s.setQ q v).jobE i = s.jobE i := rfl
@[simp] theorem jobE_setFut (s : State) (f : Nat) (v : Fut) (i : Nat) : (s.setFut f v).jobE i = s.jobE i := rfl
@[simp] theorem jobE_setGate (s : State) (g : Nat) (v : Gate) (i : Nat) : (s.setGate g v).jobE i = s.jobE i := rfl
@[simp] theorem jobE_setAct (s : State) (a : Nat) (v : Act) (i : Nat) : (s.setAct a v).jobE i = s.jobE i := rfl
@[simp] theorem jobE_setSf (s : State) (u : Nat) (v : SyncFut) (i : Nat) : (s.setSf u v).jobE i = s.jobE i := rfl
@[simp] theorem jobE_setPThr (s : State) (p : Nat) (v : PThr) (i : Nat) : (s.setPThr p v).jobE i = s.jobE i := rfl
@[simp] theorem jobE_setHolder (s : State) (q : Nat) (h : Option Nat) (i : Nat) : (s.setHolder q h).jobE i = s.jobE i := rfl
@[simp] theorem jobE_takeReady (s : State) (w a : Nat) (i : Nat) : (s.takeReady w a).jobE i = s.jobE i := rfl
@[simp] theorem jobE_dropReady (s : State) (w : Nat) (i : Nat) : (s.dropReady w).jobE i = s.jobE i := rfl
@[simp] theorem jobE_goto (s : State) (a : Nat) (pc : Pc) (i : Nat) : (s.goto a pc).jobE i = s.jobE i := by unfold State.goto; split <;> rfl
@[simp] theorem jobE_setWoken (s : State) (a : Nat) (b : Bool) (i : Nat) : (s.setWoken a b).jobE i = s.jobE i := by unfold State.setWoken; split <;> rfl
@[simp] theorem jobE_notify (s : State) (w : Nat) (i : Nat) : (s.notify w).jobE i = s.jobE i := by unfold State.notify; split <;> (try split) <;> rfl
@[simp] theorem jobE_setQState (s : State) (q : Nat) (st : QState) (i : Nat) : (s.setQState q st).jobE i = s.jobE i := by unfold State.setQState; split <;> rfl
@[simp] theorem jobE_pushBack (s : State) (q j : Nat) (i : Nat) : (s.pushBack q j).jobE i = s.jobE i := by unfold State.pushBack; split <;> rfl
@[simp] theorem jobE_pushFront (s : State) (q j : Nat) (i : Nat) : (s.pushFront q j).jobE i = s.jobE i := by unfold State.pushFront; split <;> rfl

theorem jobE_setJob_of {s : State} {j : Nat} {b : Job} (hj : s.jobs[j]? = some b) (v : Job) (i : Nat) :
    (s.setJob j v).jobE i = if i = j then v.ended else s.jobE i := by
  have hlt : j < s.jobs.length := (List.getElem?_eq_some_iff.mp hj).1
  simp only [State.jobE, State.setJob, List.getElem?_set]
  by_cases h : i = j
  · subst h; simp [hlt]
  · have : ¬ j = i := fun e => h e.symm
    simp [h, this]

@[simp] theorem jobE_setJobPh (s : State) (j : Nat) (ph : Phase) (i : Nat) : (s.setJobPh j ph).jobE i = s.jobE i := by
  unfold State.setJobPh
  split
  · next v hv =>
    rw [jobE_setJob_of hv]
    by_cases e : i = j
    · simp [e, jobE_of hv]
    · simp [e]
  · rfl

theorem jobE_fresh (s : State) (i : Nat) (h : s.jobs.length ≤ i) : s.jobE i = false := by
  have : s.jobs[i]? = none := by simpa using h
  simp [State.jobE, this]

theorem jobE_of_append {Y s : State} {nj : Job} (hJ : Y.jobs = s.jobs ++ [nj]) (i : Nat) :
    Y.jobE i = if i = s.jobs.length then nj.ended else s.jobE i := by
  simp only [State.jobE, hJ]
  by_cases h : i = s.jobs.length
  · subst h; simp
  · by_cases hlt : i < s.jobs.length
    · simp [h, List.getElem?_append_left hlt]
    · have h1 : (s.jobs ++ [nj])[i]? = none := by simp; omega
      have h2 : s.jobs[i]? = none := by simp; omega
      simp [h, h1, h2]

@[simp] theorem jobE_newJob (s : State) (q : Nat) (kind : JobKind) (i : Nat) : (s.newJob q kind).1.jobE i = s.jobE i := by
  rw [jobE_of_append (s := s) (nj := { q := q, kind := kind, ph := .queued, begun := false, ended := false, reg := none }) rfl]
  split
  · next h => rw [h, jobE_fresh s _ (Nat.le_refl _)]
  · rfl


theorem jobPQ_none_of_ge (s : State) (i : Nat) (h : s.jobs.length ≤ i) : s.jobPQ i = none := by
  have : s.jobs[i]? = none := by simpa using h
  simp [State.jobPQ, this]

theorem lt_of_jobPQ {s : State} {j : Nat} {pq : Phase × Nat} (h : s.jobPQ j = some pq) : j < s.jobs.length := by
  rcases Nat.lt_or_ge j s.jobs.length with hl | hn
  · exact hl
  · rw [jobPQ_none_of_ge s j hn] at h; cases h

@[simp] theorem jobs_length_setJob (s : State) (j : Nat) (v : Job) : (s.setJob j v).jobs.length = s.jobs.length := by simp [State.setJob]
@[simp] theorem jobs_length_newJob (s : State) (q : Nat) (kind : JobKind) : (s.newJob q kind).1.jobs.length = s.jobs.length + 1 := by simp [State.newJob]
@[simp] theorem jobs_length_setJobPh (s : State) (j : Nat) (ph : Phase) : (s.setJobPh j ph).jobs.length = s.jobs.length := by
  unfold State.setJobPh; split <;> simp

end Desync
