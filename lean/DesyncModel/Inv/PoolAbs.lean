/-
The thread pool seen on its own: what an activity is to the pool (`Pc.cls`: scheduling a thread, being a pool thread at a
given point of its loop, resizing the pool, or nothing of the kind), whose pool thread it is (`Pc.poolOf`), and the abstract
transition relation `PStep` that every internal step of the scheduler model refines (`Inv/PoolSim.lean`).  `PStep` mentions only
the five pool fields of the state (thread records, threads vector, its lock, the schedule, the maximum) and the classes of
the activities; the invariants of `Inv/Watch*.lean` are proved about `PStep` and transported to `stepAct`.
-/
import DesyncModel.Inv.HolderLemmas

namespace Desync
open Gen

/-- where a `schedule_thread` call is -/
inductive StPh where
  | reap | scanLock | scan (i : Nat) | scanHeld (i : Nat) | scanRel (i : Nat) (found : Bool) | scanUnlock (found : Bool)
  | readMax | spawn (m : Nat) | spawnRel
  deriving DecidableEq, Repr

/-- where a pool thread is in its loop (`work` = it has a queue and is draining it) -/
inductive PtPh where
  | recv | recvd | lockBusy | lockSched | pop | unlockSched (got : Option Nat) | unlockBusy (got : Option Nat) | work
  deriving DecidableEq, Repr

inductive PCls where
  | neutral
  | st (ph : StPh)
  | pt (p : Nat) (ph : PtPh)
  | smSet (n : Nat)
  | dpLock (m : Nat)
  | dpHang (m : Nat) (gone : List Nat)
  deriving DecidableEq, Repr

/-- what the activity is doing as far as the pool is concerned (looking through the pcs that only carry a continuation) -/
def Pc.cls : Pc → PCls
  | .begin _ k | .body _ k | .unwinding k => k.cls
  | .stReap _ => .st .reap
  | .stScanLock _ => .st .scanLock
  | .stScan i _ => .st (.scan i)
  | .stScanHeld i _ => .st (.scanHeld i)
  | .stScanRel i f _ => .st (.scanRel i f)
  | .stScanUnlock f _ => .st (.scanUnlock f)
  | .stReadMax _ => .st .readMax
  | .stSpawn m _ => .st (.spawn m)
  | .stSpawnRel _ => .st .spawnRel
  | .rqCs _ k | .rqNotifyAcq _ _ _ k | .rqNotify _ _ _ k | .rqNotifyRel _ _ _ k | .rqPush _ k => k.cls
  | .resumeSend _ k | .waking _ k | .openSend _ k | .wqCs _ k | .wtCs _ _ k | .wtUnpark _ k | .lwCs _ k | .dwCs _ k => k.cls
  | .rjDequeue _ k | .rjPending _ _ k | .rjParkCheck _ _ k | .rjPark _ _ k | .rjParked _ _ k => k.cls
  | .jobStart _ c k | .jobAwait _ c k | .jobBodyDone _ c k | .jobEnd _ c k | .jobSignal _ c k
  | .jobSigDrop _ c k | .jobDrop _ c k | .jobDropNotify _ c k | .suspSignal _ c k | .suspSigDrop _ c k =>
      (match c with | .caller _ => k.cls | .pool p _ => .pt p .work | .task _ _ _ => .neutral)
  | .ptRecv p => .pt p .recv
  | .ptRecvd p => .pt p .recvd
  | .ptLockBusy p => .pt p .lockBusy
  | .ptLockSched p => .pt p .lockSched
  | .ptPop p => .pt p .pop
  | .ptUnlockSched p g => .pt p (.unlockSched g)
  | .ptUnlockBusy p g => .pt p (.unlockBusy g)
  | .pdDequeue p _ | .pdRequeue p _ _ | .pdPending p _ | .pdExit p _ => .pt p .work
  | .pfPollRel _ next => next.cls
  | .dqWakeWith _ _ _ k => k.cls
  | .fdDrop _ k => k.cls
  | .smSet n => .smSet n
  | .dpLock m => .dpLock m
  | .dpHang m g => .dpHang m g
  | _ => .neutral

/-- the pool thread this activity is (a pool thread stays one while it runs `schedule_thread` from inside a job) -/
def Pc.poolOf : Pc → Option Nat
  | .begin _ k | .body _ k | .unwinding k => k.poolOf
  | .stReap k | .stScanLock k | .stScan _ k | .stScanHeld _ k | .stScanRel _ _ k
  | .stScanUnlock _ k | .stReadMax k | .stSpawn _ k | .stSpawnRel k => k.poolOf
  | .rqCs _ k | .rqNotifyAcq _ _ _ k | .rqNotify _ _ _ k | .rqNotifyRel _ _ _ k | .rqPush _ k => k.poolOf
  | .resumeSend _ k | .waking _ k | .openSend _ k | .wqCs _ k | .wtCs _ _ k | .wtUnpark _ k | .lwCs _ k | .dwCs _ k => k.poolOf
  | .rjDequeue _ k | .rjPending _ _ k | .rjParkCheck _ _ k | .rjPark _ _ k | .rjParked _ _ k => k.poolOf
  | .jobStart _ c k | .jobAwait _ c k | .jobBodyDone _ c k | .jobEnd _ c k | .jobSignal _ c k
  | .jobSigDrop _ c k | .jobDrop _ c k | .jobDropNotify _ c k | .suspSignal _ c k | .suspSigDrop _ c k =>
      (match c with | .caller _ => k.poolOf | .pool p _ => some p | .task _ _ _ => none)
  | .ptRecv p | .ptRecvd p | .ptLockBusy p | .ptLockSched p | .ptPop p | .ptUnlockSched p _ | .ptUnlockBusy p _ => some p
  | .pdDequeue p _ | .pdRequeue p _ _ | .pdPending p _ | .pdExit p _ => some p
  | .pfPollRel _ next => next.poolOf
  | .dqWakeWith _ _ _ k => k.poolOf
  | .fdDrop _ k => k.poolOf
  | _ => none

/-- nothing in this pc, at the head or in a continuation, is a `schedule_thread` step, a pool-loop step other than draining, or
a pool-resizing step -/
def Pc.quiet : Pc → Bool
  | .begin _ k | .body _ k | .unwinding k => k.quiet
  | .stReap _ | .stScanLock _ | .stScan _ _ | .stScanHeld _ _ | .stScanRel _ _ _
  | .stScanUnlock _ _ | .stReadMax _ | .stSpawn _ _ | .stSpawnRel _ => false
  | .rqCs _ k | .rqNotifyAcq _ _ _ k | .rqNotify _ _ _ k | .rqNotifyRel _ _ _ k | .rqPush _ k => k.quiet
  | .resumeSend _ k | .waking _ k | .openSend _ k | .wqCs _ k | .wtCs _ _ k | .wtUnpark _ k | .lwCs _ k | .dwCs _ k => k.quiet
  | .rjDequeue _ k | .rjPending _ _ k | .rjParkCheck _ _ k | .rjPark _ _ k | .rjParked _ _ k => k.quiet
  | .jobStart _ c k | .jobAwait _ c k | .jobBodyDone _ c k | .jobEnd _ c k | .jobSignal _ c k
  | .jobSigDrop _ c k | .jobDrop _ c k | .jobDropNotify _ c k | .suspSignal _ c k | .suspSigDrop _ c k =>
      (match c with | .caller _ => k.quiet | _ => true)
  | .ptRecv _ | .ptRecvd _ | .ptLockBusy _ | .ptLockSched _ | .ptPop _ | .ptUnlockSched _ _ | .ptUnlockBusy _ _ => false
  | .pfPollRel _ next => next.quiet
  | .dqWakeWith _ _ _ k => k.quiet
  | .fdDrop _ k => k.quiet
  | .smSet _ | .dpLock _ | .dpHang _ _ => false
  | _ => true

/-- a pc is well formed when the only pool step in it is at its head -/
def Pc.wf : Pc → Bool
  | .stReap k | .stScanLock k | .stScan _ k | .stScanHeld _ k | .stScanRel _ _ k
  | .stScanUnlock _ k | .stReadMax k | .stSpawn _ k | .stSpawnRel k => k.quiet
  | .ptRecv _ | .ptRecvd _ | .ptLockBusy _ | .ptLockSched _ | .ptPop _ | .ptUnlockSched _ _ | .ptUnlockBusy _ _ => true
  | .smSet _ | .dpLock _ | .dpHang _ _ => true
  | pc => pc.quiet

/-- the class of a quiet pc: nothing, or a pool thread draining a queue -/
def PCls.plain : PCls → Bool
  | .neutral => true
  | .pt _ .work => true
  | _ => false

theorem quiet_plain (pc : Pc) (h : pc.quiet = true) : pc.cls.plain = true := by
  fun_induction Pc.cls pc <;> simp_all [Pc.quiet, PCls.plain]

theorem quiet_wf (pc : Pc) (h : pc.quiet = true) : pc.wf = true := by
  unfold Pc.wf
  split <;> simp_all [Pc.quiet]

@[simp] theorem cls_ctxReady (k : Pc) (c : Ctx) :
    (ctxReady k c).cls = (match c with | .caller _ => k.cls | .pool p _ => .pt p .work | .task _ _ _ => .neutral) := by
  cases c <;> simp [ctxReady, Pc.cls]
@[simp] theorem cls_ctxPending (j : Nat) (k : Pc) (c : Ctx) :
    (ctxPending j k c).cls = (match c with | .caller _ => k.cls | .pool p _ => .pt p .work | .task _ _ _ => .neutral) := by
  cases c <;> simp [ctxPending, Pc.cls]
@[simp] theorem poolOf_ctxReady (k : Pc) (c : Ctx) :
    (ctxReady k c).poolOf = (match c with | .caller _ => k.poolOf | .pool p _ => some p | .task _ _ _ => none) := by
  cases c <;> simp [ctxReady, Pc.poolOf]
@[simp] theorem poolOf_ctxPending (j : Nat) (k : Pc) (c : Ctx) :
    (ctxPending j k c).poolOf = (match c with | .caller _ => k.poolOf | .pool p _ => some p | .task _ _ _ => none) := by
  cases c <;> simp [ctxPending, Pc.poolOf]
@[simp] theorem quiet_ctxReady (k : Pc) (c : Ctx) :
    (ctxReady k c).quiet = (match c with | .caller _ => k.quiet | _ => true) := by
  cases c <;> simp [ctxReady, Pc.quiet]
@[simp] theorem quiet_ctxPending (j : Nat) (k : Pc) (c : Ctx) :
    (ctxPending j k c).quiet = (match c with | .caller _ => k.quiet | _ => true) := by
  cases c <;> simp [ctxPending, Pc.quiet]

def State.cl (s : State) (a : Nat) : PCls := (s.pcAt a).cls
def State.po (s : State) (a : Nat) : Option Nat := (s.pcAt a).poolOf

/-- the activities other than `a` are where they were, and `a` is the pool thread it was -/
structure Base (s : State) (a : Nat) (X : State) : Prop where
  oth : ∀ b, b ≠ a → X.pcAt b = s.pcAt b
  po : X.po a = s.po a

/-- the pool fields of `X` -/
def PoolIs (X : State) (pth : List PThr) (vec : List Nat) (tl : Option Nat) (sch : List Nat) (mx : Nat) : Prop :=
  X.pthreads = pth ∧ X.threadsVec = vec ∧ X.threadsLock = tl ∧ X.schedule = sch ∧ X.maxThreads = mx

/-- the pool fields are unchanged -/
def PoolSame (s X : State) : Prop := PoolIs X s.pthreads s.threadsVec s.threadsLock s.schedule s.maxThreads

/-- What one internal step of activity `a` does to the pool. -/
inductive PStep (s : State) (a : Nat) (X : State) : Prop where
  /-- nothing -/
  | neutral (hb : Base s a X) (hc : X.cl a = s.cl a) (hX : PoolSame s X)
  -- schedule_thread
  | reap (hb : Base s a X) (hc : s.cl a = .st .reap) (hl : s.threadsLock = none) (vec : List Nat) (hsub : vec.Sublist s.threadsVec)
      (hX : PoolIs X s.pthreads vec s.threadsLock s.schedule s.maxThreads) (hc' : X.cl a = .st .scanLock)
  | scanLock (hb : Base s a X) (hc : s.cl a = .st .scanLock) (hl : s.threadsLock = none)
      (hX : PoolIs X s.pthreads s.threadsVec (some a) s.schedule s.maxThreads) (hc' : X.cl a = .st (.scan 0))
  | scanEnd (i : Nat) (hb : Base s a X) (hc : s.cl a = .st (.scan i)) (hv : s.threadsVec[i]? = none)
      (hX : PoolIs X s.pthreads s.threadsVec none s.schedule s.maxThreads) (hc' : X.cl a = .st .readMax)
  | scanAcq (i p : Nat) (pt : PThr) (hb : Base s a X) (hc : s.cl a = .st (.scan i)) (hv : s.threadsVec[i]? = some p)
      (hp : s.pthreads[p]? = some pt) (hl : pt.busyLock = none)
      (hX : PoolIs X (s.pthreads.set p { pt with busyLock := some a }) s.threadsVec s.threadsLock s.schedule s.maxThreads)
      (hc' : X.cl a = .st (.scanHeld i))
  | scanBusy (i p : Nat) (pt : PThr) (hb : Base s a X) (hc : s.cl a = .st (.scanHeld i)) (hv : s.threadsVec[i]? = some p)
      (hp : s.pthreads[p]? = some pt) (hbusy : pt.busy = true)
      (hX : PoolIs X (s.pthreads.set p { pt with busyLock := none }) s.threadsVec s.threadsLock s.schedule s.maxThreads)
      (hc' : X.cl a = .st (.scan (i + 1)))
  | scanSend (i p : Nat) (pt : PThr) (hb : Base s a X) (hc : s.cl a = .st (.scanHeld i)) (hv : s.threadsVec[i]? = some p)
      (hp : s.pthreads[p]? = some pt) (hbusy : pt.busy = false)
      (hX : PoolIs X (s.pthreads.set p { pt with busy := true, mailbox := pt.mailbox + 1 }) s.threadsVec s.threadsLock s.schedule s.maxThreads)
      (hc' : X.cl a = .st (.scanRel i true))
  | scanRel (i p : Nat) (f : Bool) (pt : PThr) (hb : Base s a X) (hc : s.cl a = .st (.scanRel i f)) (hv : s.threadsVec[i]? = some p)
      (hp : s.pthreads[p]? = some pt)
      (hX : PoolIs X (s.pthreads.set p { pt with busyLock := none }) s.threadsVec s.threadsLock s.schedule s.maxThreads)
      (hc' : X.cl a = .st (.scanUnlock f))
  | scanUnlock (f : Bool) (hb : Base s a X) (hc : s.cl a = .st (.scanUnlock f))
      (hX : PoolIs X s.pthreads s.threadsVec none s.schedule s.maxThreads) (hc' : (X.cl a).plain = true)
  | readMax (hb : Base s a X) (hc : s.cl a = .st .readMax) (hX : PoolSame s X) (hc' : X.cl a = .st (.spawn s.maxThreads))
  | spawnYes (m : Nat) (hc : s.cl a = .st (.spawn m)) (hl : s.threadsLock = none) (hlt : s.threadsVec.length < m)
      (hoth : ∀ b, b ≠ a → b ≠ s.acts.length → X.pcAt b = s.pcAt b)
      (hnew : X.pcAt s.acts.length = .ptRecv s.pthreads.length) (hpo : X.po a = s.po a) (ha : a < s.acts.length)
      (hX : PoolIs X (s.pthreads ++ [{ busy := false, busyLock := none, mailbox := 0, hungUp := false, exited := false }])
              (s.threadsVec ++ [s.pthreads.length]) (some a) s.schedule s.maxThreads)
      (hc' : X.cl a = .st .spawnRel)
  | spawnNo (m : Nat) (hb : Base s a X) (hc : s.cl a = .st (.spawn m)) (hge : m ≤ s.threadsVec.length) (hX : PoolSame s X)
      (hc' : (X.cl a).plain = true)
  | spawnRel (hb : Base s a X) (hc : s.cl a = .st .spawnRel)
      (hX : PoolIs X s.pthreads s.threadsVec none s.schedule s.maxThreads) (hc' : X.cl a = .st .reap)
  /-- reschedule_queue / schedule_job_desync put a queue on the schedule and go on to schedule_thread -/
  | push (q : Nat) (hb : Base s a X) (hc : (s.cl a).plain = true)
      (hX : PoolIs X s.pthreads s.threadsVec s.threadsLock (s.schedule ++ [q]) s.maxThreads) (hc' : X.cl a = .st .reap)
  /-- a waiting sync caller takes a queue off the schedule -/
  | claim (f : Nat → Bool) (hb : Base s a X) (hc : X.cl a = s.cl a)
      (hX : PoolIs X s.pthreads s.threadsVec s.threadsLock (s.schedule.filter f) s.maxThreads)
  -- the pool thread loop
  | ptRecv (p : Nat) (hb : Base s a X) (hc : s.cl a = .pt p .recv) (hX : PoolSame s X) (hc' : X.cl a = .pt p .recvd)
  | ptGot (p : Nat) (pt : PThr) (hb : Base s a X) (hc : s.cl a = .pt p .recvd) (hpo : s.po a = some p) (hp : s.pthreads[p]? = some pt)
      (hm : 0 < pt.mailbox)
      (hX : PoolIs X (s.pthreads.set p { pt with mailbox := pt.mailbox - 1 }) s.threadsVec s.threadsLock s.schedule s.maxThreads)
      (hc' : X.cl a = .pt p .lockBusy)
  | ptExit (p : Nat) (pt : PThr) (hoth : ∀ b, b ≠ a → X.pcAt b = s.pcAt b)
      (hc : s.cl a = .pt p .recvd) (hpo : s.po a = some p) (hp : s.pthreads[p]? = some pt)
      (hm : pt.mailbox = 0) (hh : pt.hungUp = true)
      (hX : PoolIs X (s.pthreads.set p { pt with exited := true }) s.threadsVec s.threadsLock s.schedule s.maxThreads)
      (hc' : X.cl a = .neutral) (hpo' : X.po a = none)
  | ptLockBusy (p : Nat) (pt : PThr) (hb : Base s a X) (hc : s.cl a = .pt p .lockBusy) (hp : s.pthreads[p]? = some pt) (hl : pt.busyLock = none)
      (hX : PoolIs X (s.pthreads.set p { pt with busyLock := some a }) s.threadsVec s.threadsLock s.schedule s.maxThreads)
      (hc' : X.cl a = .pt p .lockSched)
  | ptLockSched (p : Nat) (hb : Base s a X) (hc : s.cl a = .pt p .lockSched) (hX : PoolSame s X) (hc' : X.cl a = .pt p .pop)
  | popEmpty (p : Nat) (hb : Base s a X) (hc : s.cl a = .pt p .pop) (he : s.schedule = []) (hX : PoolSame s X)
      (hc' : X.cl a = .pt p (.unlockBusy none))
  | popTake (p q : Nat) (rest : List Nat) (hb : Base s a X) (hc : s.cl a = .pt p .pop) (he : s.schedule = q :: rest)
      (hX : PoolIs X s.pthreads s.threadsVec s.threadsLock rest s.maxThreads) (hc' : X.cl a = .pt p (.unlockSched (some q)))
  | popSkip (p q : Nat) (rest : List Nat) (hb : Base s a X) (hc : s.cl a = .pt p .pop) (he : s.schedule = q :: rest)
      (hX : PoolIs X s.pthreads s.threadsVec s.threadsLock rest s.maxThreads) (hc' : X.cl a = .pt p .pop)
  | unlockSched (p : Nat) (g : Option Nat) (hb : Base s a X) (hc : s.cl a = .pt p (.unlockSched g)) (hX : PoolSame s X)
      (hc' : X.cl a = .pt p (.unlockBusy g))
  | unlockBusySome (p q : Nat) (pt : PThr) (hb : Base s a X) (hc : s.cl a = .pt p (.unlockBusy (some q))) (hp : s.pthreads[p]? = some pt)
      (hX : PoolIs X (s.pthreads.set p { pt with busyLock := none }) s.threadsVec s.threadsLock s.schedule s.maxThreads)
      (hc' : X.cl a = .pt p .work)
  | unlockBusyNone (p : Nat) (pt : PThr) (hb : Base s a X) (hc : s.cl a = .pt p (.unlockBusy none)) (hpo : s.po a = some p)
      (hp : s.pthreads[p]? = some pt)
      (hX : PoolIs X (s.pthreads.set p { pt with busyLock := none, busy := false }) s.threadsVec s.threadsLock s.schedule s.maxThreads)
      (hc' : X.cl a = .pt p .recv)
  | drainEnd (p : Nat) (hb : Base s a X) (hc : s.cl a = .pt p .work) (hX : PoolSame s X) (hc' : X.cl a = .pt p .lockBusy)
  -- set_max_threads / despawn_threads_if_overloaded
  | smSet (n : Nat) (hb : Base s a X) (hc : s.cl a = .smSet n)
      (hX : PoolIs X s.pthreads s.threadsVec s.threadsLock s.schedule n) (hc' : (X.cl a).plain = true)
  | dpRead (hb : Base s a X) (hc : (s.cl a).plain = true) (hX : PoolSame s X) (hc' : X.cl a = .dpLock s.maxThreads)
  | dpLock (m : Nat) (hb : Base s a X) (hc : s.cl a = .dpLock m) (hl : s.threadsLock = none)
      (hX : PoolIs X s.pthreads s.threadsVec (some a) s.schedule s.maxThreads) (hc' : X.cl a = .dpHang m [])
  | dpHangPop (m p : Nat) (g : List Nat) (pt : PThr) (hb : Base s a X) (hc : s.cl a = .dpHang m g)
      (hv : s.threadsVec.getLast? = some p) (hp : s.pthreads[p]? = some pt)
      (hX : PoolIs X (s.pthreads.set p { pt with hungUp := true }) s.threadsVec.dropLast s.threadsLock s.schedule s.maxThreads)
      (hc' : X.cl a = .dpHang m (g ++ [p]))
  | dpHangEnd (m : Nat) (g : List Nat) (hb : Base s a X) (hc : s.cl a = .dpHang m g)
      (hX : PoolIs X s.pthreads s.threadsVec none s.schedule s.maxThreads) (hc' : (X.cl a).plain = true)

end Desync
